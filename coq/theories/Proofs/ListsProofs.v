(* L1 = L2 for the three lists: every function of Model/Lists.v (which follows the case structure of
   the Go method) equals the abstract sequence operation of Spec/SeqSpec.v.  Plus the meaning of
   [seq_index_of] and of the sort acceptance test [sort_okb]. *)
From Coq Require Import ZArith List Bool Lia Arith Sorted Permutation.
From Gods Require Import Common.Cmp Spec.SeqSpec Model.Lists.
Import ListNotations.
Local Open Scope Z_scope.

(* ---------- small facts ---------- *)
Lemma zlen_nil : forall A, @zlen A [] = 0.
Proof. reflexivity. Qed.

Lemma zlen_cons : forall A (x : A) l, zlen (x :: l) = zlen l + 1.
Proof. intros A x l. unfold zlen. cbn [length]. lia. Qed.

Lemma zlen_app : forall A (a b : list A), zlen (a ++ b) = zlen a + zlen b.
Proof. intros A a b. unfold zlen. rewrite app_length. lia. Qed.

Lemma zlen_nonneg : forall A (l : list A), 0 <= zlen l.
Proof. intros A l. unfold zlen. lia. Qed.

Lemma within_true : forall A i (l : list A), within i l = true <-> 0 <= i < zlen l.
Proof. intros A i l. unfold within. rewrite andb_true_iff, Z.leb_le, Z.ltb_lt. tauto. Qed.

Lemma within_false : forall A i (l : list A), within i l = false <-> ~ (0 <= i < zlen l).
Proof.
  intros A i l. rewrite <- within_true. destruct (within i l); split; intro H; congruence.
Qed.

Lemma within_nat : forall A i (l : list A), within i l = true -> (Z.to_nat i < length l)%nat.
Proof. intros A i l H. apply within_true in H. unfold zlen in H. lia. Qed.

(* ---------- Add / Prepend ---------- *)
Lemma fold_snoc : forall (vs l : list Z), fold_left (fun acc v => acc ++ [v]) vs l = l ++ vs.
Proof.
  induction vs as [|v vs IH]; intros l; cbn [fold_left].
  - now rewrite app_nil_r.
  - rewrite IH, <- app_assoc. reflexivity.
Qed.

Lemma fold_cons : forall (vs l : list Z), fold_left (fun acc v => v :: acc) vs l = rev vs ++ l.
Proof.
  induction vs as [|v vs IH]; intros l; cbn [fold_left rev].
  - reflexivity.
  - rewrite IH, <- app_assoc. reflexivity.
Qed.

Theorem al_add_eq : forall vs l, al_add vs l = seq_add vs l.
Proof. reflexivity. Qed.

Theorem sll_add_eq : forall vs l, sll_add vs l = l ++ vs.
Proof. intros vs l. unfold sll_add. apply fold_snoc. Qed.

Theorem sll_add_seq : forall vs l, sll_add vs l = seq_add vs l.
Proof. intros vs l. apply sll_add_eq. Qed.

Theorem dll_add_eq : forall vs l, dll_add vs l = l ++ vs.
Proof. exact sll_add_eq. Qed.

Theorem dll_add_seq : forall vs l, dll_add vs l = seq_add vs l.
Proof. exact sll_add_eq. Qed.

Theorem sll_prepend_eq : forall vs l, sll_prepend vs l = vs ++ l.
Proof. intros vs l. unfold sll_prepend. rewrite fold_cons, rev_involutive. reflexivity. Qed.

Theorem sll_prepend_seq : forall vs l, sll_prepend vs l = seq_prepend vs l.
Proof. exact sll_prepend_eq. Qed.

Theorem dll_prepend_eq : forall vs l, dll_prepend vs l = vs ++ l.
Proof. exact sll_prepend_eq. Qed.

Theorem dll_prepend_seq : forall vs l, dll_prepend vs l = seq_prepend vs l.
Proof. exact sll_prepend_eq. Qed.

(* ---------- Insert ---------- *)
Lemma seq_insert_cases : forall i vs l,
  seq_insert i vs l =
  if within i l then firstn (Z.to_nat i) l ++ vs ++ skipn (Z.to_nat i) l
  else if i =? zlen l then l ++ vs else l.
Proof.
  intros i vs l. unfold seq_insert.
  destruct (within i l) eqn:Hw.
  - apply within_true in Hw.
    replace ((0 <=? i) && (i <=? zlen l)) with true; [reflexivity|].
    symmetry. rewrite andb_true_iff, Z.leb_le, Z.leb_le. lia.
  - apply within_false in Hw. destruct (i =? zlen l) eqn:He.
    + apply Z.eqb_eq in He. pose proof (zlen_nonneg _ l) as Hn.
      replace ((0 <=? i) && (i <=? zlen l)) with true
        by (symmetry; rewrite andb_true_iff, Z.leb_le, Z.leb_le; lia).
      subst i. unfold zlen. rewrite Nat2Z.id, firstn_all, skipn_all, app_nil_r. reflexivity.
    + apply Z.eqb_neq in He.
      replace ((0 <=? i) && (i <=? zlen l)) with false; [reflexivity|].
      symmetry. rewrite andb_false_iff, Z.leb_gt, Z.leb_gt. lia.
Qed.

Theorem al_insert_eq : forall i vs l, al_insert i vs l = seq_insert i vs l.
Proof.
  intros i vs l. rewrite seq_insert_cases. unfold al_insert, al_add.
  destruct (within i l); reflexivity.
Qed.

Theorem sll_insert_eq : forall i vs l, sll_insert i vs l = seq_insert i vs l.
Proof.
  intros i vs l. rewrite seq_insert_cases. unfold sll_insert.
  destruct (within i l) eqn:Hw; cbn [negb].
  - destruct vs as [|v vs].
    + cbn [app]. now rewrite firstn_skipn.
    + destruct (i =? 0) eqn:Hi; [|reflexivity].
      apply Z.eqb_eq in Hi. subst i. reflexivity.
  - rewrite sll_add_eq. reflexivity.
Qed.

Theorem dll_insert_eq : forall i vs l, dll_insert i vs l = seq_insert i vs l.
Proof. intros i vs l. rewrite <- sll_insert_eq. reflexivity. Qed.

(* ---------- Set ---------- *)
Theorem al_set_eq : forall i v l, al_set i v l = seq_set i v l.
Proof.
  intros i v l. unfold al_set, seq_set, al_add, upd. destruct (within i l); reflexivity.
Qed.

Theorem sll_set_eq : forall i v l, sll_set i v l = seq_set i v l.
Proof.
  intros i v l. unfold sll_set, seq_set, upd. rewrite sll_add_eq. destruct (within i l); reflexivity.
Qed.

Theorem dll_set_eq : forall i v l, dll_set i v l = seq_set i v l.
Proof. exact sll_set_eq. Qed.

(* ---------- Remove ---------- *)
Theorem al_remove_eq : forall i l, al_remove i l = seq_remove i l.
Proof. intros i l. unfold al_remove, seq_remove. destruct (within i l); reflexivity. Qed.

Theorem sll_remove_eq : forall i l, sll_remove i l = seq_remove i l.
Proof.
  intros i l. unfold sll_remove, seq_remove. destruct (within i l) eqn:Hw; cbn [negb]; [|reflexivity].
  destruct (zlen l =? 1) eqn:H1; [|reflexivity].
  apply Z.eqb_eq in H1. apply within_true in Hw.
  destruct l as [|x [|y l]]; unfold zlen in *; cbn [length] in *; try lia.
  replace i with 0 by lia. reflexivity.
Qed.

Theorem dll_remove_eq : forall i l, dll_remove i l = seq_remove i l.
Proof. exact sll_remove_eq. Qed.

(* ---------- Swap ---------- *)
Lemma skipn_nth_cons : forall (l : list Z) n, (n < length l)%nat ->
  nth n l 0 :: skipn (S n) l = skipn n l.
Proof.
  induction l as [|x l IH]; intros n Hn; cbn [length] in Hn; [lia|].
  destruct n as [|n]; [reflexivity|].
  cbn [nth]. rewrite (skipn_cons (S n)), (skipn_cons n). apply IH. lia.
Qed.

Lemma upd_same : forall n l, (n < length l)%nat -> upd n (nth n l 0) l = l.
Proof.
  intros n l Hn. unfold upd. rewrite skipn_nth_cons by exact Hn. apply firstn_skipn.
Qed.

Theorem al_swap_eq : forall i j l, al_swap i j l = seq_swap i j l.
Proof. reflexivity. Qed.

Theorem sll_swap_eq : forall i j l, sll_swap i j l = seq_swap i j l.
Proof.
  intros i j l. unfold sll_swap, seq_swap.
  destruct (within i l) eqn:Hi; [|reflexivity].
  destruct (within j l) eqn:Hj; [|reflexivity].
  cbn [andb]. destruct (i =? j) eqn:He; cbn [negb]; [|reflexivity].
  apply Z.eqb_eq in He. subst j.
  apply within_nat in Hi.
  rewrite (upd_same _ _ Hi). rewrite (upd_same _ _ Hi). reflexivity.
Qed.

Theorem dll_swap_eq : forall i j l, dll_swap i j l = seq_swap i j l.
Proof. exact sll_swap_eq. Qed.

(* swapping a position with itself is the identity (the guard of the linked lists) *)
Theorem seq_swap_same : forall i l, seq_swap i i l = l.
Proof.
  intros i l. unfold seq_swap. destruct (within i l) eqn:Hi; [|reflexivity].
  cbn [andb]. apply within_nat in Hi.
  rewrite (upd_same _ _ Hi). apply (upd_same _ _ Hi).
Qed.

(* ---------- Get ---------- *)
Theorem al_get_eq : forall i l, al_get i l = seq_get i l.
Proof. intros i l. unfold al_get, seq_get. destruct (within i l); reflexivity. Qed.

Theorem sll_get_eq : forall i l, sll_get i l = seq_get i l.
Proof. exact al_get_eq. Qed.

Lemma nth_error_rev_Z : forall (l : list Z) n, (n < length l)%nat ->
  nth_error (rev l) (length l - 1 - n) = nth_error l n.
Proof.
  intros l n Hn.
  rewrite (nth_error_nth' (rev l) 0) by (rewrite rev_length; lia).
  rewrite (nth_error_nth' l 0) by lia.
  f_equal. rewrite rev_nth by lia. f_equal. lia.
Qed.

Theorem dll_get_eq : forall i l, dll_get i l = seq_get i l.
Proof.
  intros i l. unfold dll_get, seq_get. destruct (within i l) eqn:Hw; cbn [negb]; [|reflexivity].
  destruct (zlen l - i <? i); [|reflexivity].
  apply within_true in Hw. unfold zlen in *.
  replace (Z.to_nat (Z.of_nat (length l) - 1 - i)) with (length l - 1 - Z.to_nat i)%nat by lia.
  apply nth_error_rev_Z. lia.
Qed.

(* ---------- IndexOf ---------- *)
Theorem al_index_of_eq : forall v l, al_index_of v l = seq_index_of v l.
Proof. reflexivity. Qed.

Theorem sll_index_of_eq : forall v l, sll_index_of v l = seq_index_of v l.
Proof. intros v l. destruct l; reflexivity. Qed.

Theorem dll_index_of_eq : forall v l, dll_index_of v l = seq_index_of v l.
Proof. exact sll_index_of_eq. Qed.

(* index_from v l n is n + (the least position of v in l), or -1 when v does not occur *)
Lemma index_from_spec : forall v l n,
  (index_from v l n = -1 /\ ~ In v l) \/
  (exists k : nat, index_from v l n = n + Z.of_nat k /\ nth_error l k = Some v /\
                   forall j, (j < k)%nat -> nth_error l j <> Some v).
Proof.
  intros v l. induction l as [|x l IH]; intros n; cbn [index_from].
  - left. split; [reflexivity | intros []].
  - destruct (x =? v) eqn:Hx.
    + apply Z.eqb_eq in Hx. subst x. right. exists 0%nat.
      split; [lia|]. split; [reflexivity|]. intros j Hj. lia.
    + apply Z.eqb_neq in Hx. destruct (IH (n + 1)) as [[H1 H2] | [k [H1 [H2 H3]]]].
      * left. split; [exact H1|]. intros [H | H]; [congruence | contradiction].
      * right. exists (S k). split; [lia|]. split; [exact H2|].
        intros [|j] Hj; cbn [nth_error]; [congruence|]. apply H3. lia.
Qed.

(* IndexOf: the least index holding v, or -1 when there is none *)
Theorem seq_index_of_spec : forall v l,
  (seq_index_of v l = -1 /\ ~ In v l) \/
  (0 <= seq_index_of v l < zlen l /\
   seq_get (seq_index_of v l) l = Some v /\
   forall j, 0 <= j < seq_index_of v l -> seq_get j l <> Some v).
Proof.
  intros v l. unfold seq_index_of.
  destruct (index_from_spec v l 0) as [H | [k [H1 [H2 H3]]]]; [left; exact H | right].
  rewrite H1. cbn [Z.add].
  assert (Hk : (k < length l)%nat) by (apply nth_error_Some; congruence).
  assert (Hr : 0 <= Z.of_nat k < zlen l) by (unfold zlen; lia).
  split; [exact Hr|]. split.
  - unfold seq_get. replace (within (Z.of_nat k) l) with true by (symmetry; now apply within_true).
    now rewrite Nat2Z.id.
  - intros j Hj. unfold seq_get. destruct (within j l); [|congruence].
    apply H3. lia.
Qed.

Corollary seq_index_of_found : forall v l, In v l <-> 0 <= seq_index_of v l.
Proof.
  intros v l. destruct (seq_index_of_spec v l) as [[H1 H2] | [H1 [H2 _]]].
  - split; [contradiction | lia].
  - split; [lia|]. intros _. unfold seq_get in H2.
    destruct (within _ l); [|discriminate]. eapply nth_error_In; eassumption.
Qed.

(* ---------- Contains ---------- *)
Lemma existsb_eqb_In : forall v l, existsb (Z.eqb v) l = true <-> In v l.
Proof.
  intros v l. rewrite existsb_exists. split.
  - intros [x [Hx He]]. apply Z.eqb_eq in He. now subst x.
  - intros H. exists v. split; [exact H | apply Z.eqb_refl].
Qed.

(* Contains(vs...) is true iff every value occurs; in particular true for no values *)
Theorem seq_contains_spec : forall vs l, seq_contains vs l = true <-> (forall v, In v vs -> In v l).
Proof.
  intros vs l. unfold seq_contains. rewrite forallb_forall.
  split; intros H v Hv; apply existsb_eqb_In; auto.
Qed.

Theorem al_contains_eq : forall vs l, al_contains vs l = seq_contains vs l.
Proof. reflexivity. Qed.

Lemma existsb_eqb_flip : forall w l, existsb (fun x => x =? w) l = existsb (Z.eqb w) l.
Proof.
  intros w l. induction l as [|y l IH]; cbn [existsb]; [reflexivity|].
  rewrite IH, (Z.eqb_sym y w). reflexivity.
Qed.

Theorem sll_contains_eq :forall vs l, sll_contains vs l = seq_contains vs l.
Proof.
  intros vs l. unfold sll_contains, seq_contains.
  destruct vs as [|v vs]; [reflexivity|].
  destruct l as [|x l]; [reflexivity|].
  generalize (x :: l) as l'. generalize (v :: vs) as ws. clear.
  intros ws l'. induction ws as [|w ws IH]; cbn [forallb]; [reflexivity|].
  rewrite IH, existsb_eqb_flip. reflexivity.
Qed.

Theorem dll_contains_eq : forall vs l, dll_contains vs l = seq_contains vs l.
Proof. exact sll_contains_eq. Qed.

(* ---------- Sort ---------- *)
Definition cmp_le (cmp : cmpf) (x y : Z) : Prop := cmp x y <> Gt.

Lemma sortedb_Sorted : forall cmp l, sortedb cmp l = true -> Sorted (cmp_le cmp) l.
Proof.
  intros cmp l. induction l as [|x l IH]; intros H; [constructor|].
  cbn [sortedb] in H. destruct l as [|y l].
  - constructor; constructor.
  - apply andb_true_iff in H. destruct H as [H1 H2].
    constructor; [apply IH; exact H2|]. constructor.
    unfold cmp_le. destruct (cmp x y); cbn in H1; congruence.
Qed.

Lemma Sorted_sortedb : forall cmp l, Sorted (cmp_le cmp) l -> sortedb cmp l = true.
Proof.
  intros cmp l H. induction H as [|x l Hs IH Hd]; [reflexivity|].
  cbn [sortedb]. destruct l as [|y l]; [reflexivity|].
  rewrite IH, andb_true_r. inversion Hd as [|b l' Hxy]; subst.
  unfold cmp_le in Hxy. destruct (cmp x y); cbn; congruence.
Qed.

Lemma countz_app : forall x a b, countz x (a ++ b) = (countz x a + countz x b)%nat.
Proof.
  intros x a b. induction a as [|y a IH]; cbn [app countz]; [reflexivity|].
  destruct (y =? x); rewrite IH; reflexivity.
Qed.

Lemma countz_pos_In : forall x l, (0 < countz x l)%nat -> In x l.
Proof.
  intros x l. induction l as [|y l IH]; cbn [countz]; intros H; [lia|].
  destruct (y =? x) eqn:He.
  - apply Z.eqb_eq in He. left; exact He.
  - right. apply IH. exact H.
Qed.

Lemma count_perm : forall a b : list Z, length a = length b ->
  (forall x, In x a -> countz x a = countz x b) -> Permutation a b.
Proof.
  induction a as [|x a IH]; intros b Hlen Hc.
  - destruct b; [constructor | discriminate].
  - assert (Hx : In x b).
    { apply countz_pos_In. rewrite <- Hc by (left; reflexivity).
      cbn [countz]. rewrite Z.eqb_refl. lia. }
    apply in_split in Hx. destruct Hx as [b1 [b2 Hb]]. subst b.
    apply Permutation_cons_app. apply IH.
    + rewrite app_length in *. cbn [length] in *. lia.
    + intros y Hy. specialize (Hc y (or_intror Hy)).
      rewrite countz_app in *. cbn [countz] in Hc.
      destruct (x =? y); lia.
Qed.

Lemma is_permb_Permutation : forall a b, is_permb a b = true -> Permutation a b.
Proof.
  intros a b H. unfold is_permb in H. apply andb_true_iff in H. destruct H as [H1 H2].
  apply Nat.eqb_eq in H1. apply count_perm; [exact H1|].
  intros x Hx. rewrite forallb_forall in H2. apply Nat.eqb_eq. apply H2. exact Hx.
Qed.

Lemma countz_Permutation : forall a b, Permutation a b -> forall x, countz x a = countz x b.
Proof.
  intros a b H x. induction H as [| y a b H IH | y z a | a b c H1 IH1 H2 IH2]; cbn [countz].
  - reflexivity.
  - rewrite IH. reflexivity.
  - destruct (y =? x), (z =? x); reflexivity.
  - congruence.
Qed.

Lemma Permutation_is_permb : forall a b, Permutation a b -> is_permb a b = true.
Proof.
  intros a b H. unfold is_permb. apply andb_true_iff. split.
  - apply Nat.eqb_eq. apply Permutation_length. exact H.
  - apply forallb_forall. intros x _. apply Nat.eqb_eq. apply countz_Permutation. exact H.
Qed.

(* the acceptance test means exactly: sorted under the comparator and a permutation of the input *)
Theorem sort_okb_sound : forall cmp l res, sort_okb cmp l res = true ->
  Sorted (cmp_le cmp) res /\ Permutation res l.
Proof.
  intros cmp l res H. unfold sort_okb in H. apply andb_true_iff in H. destruct H as [H1 H2].
  split; [apply sortedb_Sorted; exact H1 | apply is_permb_Permutation; exact H2].
Qed.

Theorem sort_okb_complete : forall cmp l res,
  Sorted (cmp_le cmp) res -> Permutation res l -> sort_okb cmp l res = true.
Proof.
  intros cmp l res H1 H2. unfold sort_okb.
  rewrite (Sorted_sortedb _ _ H1), (Permutation_is_permb _ _ H2). reflexivity.
Qed.

(* under a strict weak order "not greater" is transitive: locally sorted = every earlier element is
   not greater than every later one *)
Lemma cmp_le_trans : forall cmp, SWO cmp -> forall x y z, cmp_le cmp x y -> cmp_le cmp y z -> cmp_le cmp x z.
Proof.
  intros cmp Hs x y z Hxy Hyz. unfold cmp_le in *.
  destruct (cmp x y) eqn:E1; [| |congruence].
  - rewrite (swo_eq_l cmp Hs x y z E1). exact Hyz.
  - destruct (cmp y z) eqn:E2; [| |congruence].
    + assert (E3 : cmp z y = Eq) by (rewrite (swo_sym cmp Hs y z), E2; reflexivity).
      assert (E4 : cmp z x = cmp y x) by (apply (swo_eq_l cmp Hs); exact E3).
      rewrite (swo_sym cmp Hs z x), E4, (swo_sym cmp Hs x y), E1. cbn. congruence.
    + rewrite (swo_trans cmp Hs x y z E1 E2). congruence.
Qed.

Theorem sort_okb_strongly_sorted : forall cmp, SWO cmp -> forall l res, sort_okb cmp l res = true ->
  StronglySorted (cmp_le cmp) res /\ Permutation res l.
Proof.
  intros cmp Hs l res H. apply sort_okb_sound in H. destruct H as [H1 H2]. split; [|exact H2].
  apply Sorted_StronglySorted; [|exact H1].
  intros x y z. apply cmp_le_trans. exact Hs.
Qed.

(* insertion sort produces an acceptable result: Sort can always succeed *)
Lemma insert_sorted_perm : forall cmp x l, Permutation (insert_sorted cmp x l) (x :: l).
Proof.
  intros cmp x l. induction l as [|y l IH]; cbn [insert_sorted]; [apply Permutation_refl|].
  destruct (is_gt (cmp x y)); [|apply Permutation_refl].
  eapply Permutation_trans; [apply perm_skip; exact IH | apply perm_swap].
Qed.

Lemma isort_perm : forall cmp l, Permutation (isort cmp l) l.
Proof.
  intros cmp l. induction l as [|x l IH]; cbn [isort fold_right]; [constructor|].
  eapply Permutation_trans; [apply insert_sorted_perm|]. apply perm_skip. exact IH.
Qed.

Lemma insert_sorted_hd : forall cmp x y l, cmp_le cmp y x -> HdRel (cmp_le cmp) y l ->
  HdRel (cmp_le cmp) y (insert_sorted cmp x l).
Proof.
  intros cmp x y l Hyx Hd. destruct l as [|z l]; cbn [insert_sorted].
  - constructor. exact Hyx.
  - destruct (is_gt (cmp x z)).
    + constructor. inversion Hd; subst. assumption.
    + constructor. exact Hyx.
Qed.

Lemma insert_sorted_sorted : forall cmp, SWO cmp -> forall x l,
  Sorted (cmp_le cmp) l -> Sorted (cmp_le cmp) (insert_sorted cmp x l).
Proof.
  intros cmp Hs x l H. induction H as [|y l Hl IH Hd]; cbn [insert_sorted].
  - constructor; constructor.
  - destruct (cmp x y) eqn:E; cbn [is_gt].
    + constructor; [constructor; assumption|]. constructor. unfold cmp_le. congruence.
    + constructor; [constructor; assumption|]. constructor. unfold cmp_le. congruence.
    + constructor; [exact IH|]. apply insert_sorted_hd; [|exact Hd].
      unfold cmp_le. rewrite (swo_sym cmp Hs), E. cbn. congruence.
Qed.

Lemma isort_sorted : forall cmp, SWO cmp -> forall l, Sorted (cmp_le cmp) (isort cmp l).
Proof.
  intros cmp Hs l. induction l as [|x l IH]; cbn [isort fold_right]; [constructor|].
  apply insert_sorted_sorted; assumption.
Qed.

Theorem isort_ok : forall cmp, SWO cmp -> forall l, sort_okb cmp l (isort cmp l) = true.
Proof.
  intros cmp Hs l. apply sort_okb_complete; [apply isort_sorted; exact Hs | apply isort_perm].
Qed.

(* every comparator the machine can be configured with is a strict weak order *)
Lemma cmp_by_SWO : forall f, SWO (cmp_by f).
Proof.
  intros f. unfold cmp_by. constructor.
  - intros x. apply Z.compare_refl.
  - intros x y. apply Z.compare_antisym.
  - intros x y z H1 H2. rewrite Z.compare_lt_iff in *. lia.
  - intros x y z H. apply Z.compare_eq in H. rewrite H. reflexivity.
Qed.

Lemma cmp_of_SWO : forall ci, SWO (cmp_of ci).
Proof. intros ci. apply cmp_by_SWO. Qed.
