(* Property C03 at machine level: for the three list kinds every run of the machine is the run of
   the abstract sequence of Spec/SeqSpec.v. *)
From Coq Require Import ZArith List Bool Lia Arith Sorted Permutation.
From Gods Require Import Common.Cmp Spec.SeqSpec Model.Ops Model.Lists Model.Machine Proofs.ListsProofs.
Import ListNotations.
Local Open Scope Z_scope.

Definition is_list_kind (k : kind) : bool :=
  match k with ArrayList | SinglyLinkedList | DoublyLinkedList => true | _ => false end.

(* ArrayList has no Append / Prepend methods: the machine answers [ounsupported], state unchanged *)
Definition has_append (k : kind) : bool :=
  match k with SinglyLinkedList | DoublyLinkedList => true | _ => false end.

(* the abstract sequence operation denoted by a machine operation *)
Definition abs_of_op (c : config) (l : list Z) (o : op) : list Z :=
  match o with
  | Add vs => seq_add vs l
  | Append vs => if has_append (ckind c) then seq_add vs l else l
  | Prepend vs => if has_append (ckind c) then seq_prepend vs l else l
  | Insert i vs => seq_insert i vs l
  | SetAt i v => seq_set i v l
  | RemoveAt i => seq_remove i l
  | Swap i j => seq_swap i j l
  | Clear => []
  | Sort ci res =>
    if zlen l <? 2 then l
    else if sort_okb (cmp_of ci) l res then res else isort (cmp_of ci) l
  | FromJSON (DArr vs) => vs
  | FromJSON DNull => []
  | _ => l
  end.

Definition abs_run_from (c : config) (l : list Z) (ops : list op) : list Z := fold_left (abs_of_op c) ops l.
Definition abs_run (c : config) (ops : list op) : list Z := abs_run_from c [] ops.

(* the kind-independent reading, for histories that only use operations both kinds offer *)
Definition seq_of_op (l : list Z) (o : op) : list Z :=
  match o with
  | Add vs | Append vs => seq_add vs l
  | Prepend vs => seq_prepend vs l
  | Insert i vs => seq_insert i vs l
  | SetAt i v => seq_set i v l
  | RemoveAt i => seq_remove i l
  | Swap i j => seq_swap i j l
  | Clear => []
  | Sort ci res =>
    if zlen l <? 2 then l
    else if sort_okb (cmp_of ci) l res then res else isort (cmp_of ci) l
  | FromJSON (DArr vs) => vs
  | FromJSON DNull => []
  | _ => l
  end.
Definition seq_run (ops : list op) : list Z := fold_left seq_of_op ops [].

Definition offered (k : kind) (o : op) : bool :=
  match o with Append _ | Prepend _ => has_append k | _ => true end.

(* ---------- one step ---------- *)
Lemma step_list : forall c l o, is_list_kind (ckind c) = true ->
  fst (fst (step c (StSeq l) o)) = StSeq (abs_of_op c l o).
Proof.
  intros c l o Hk. unfold step, abs_of_op.
  destruct o as [vs|vs|vs|i vs|i v|i|i j|ci res|vs|v|vs| |v| |k v|k| |d|cs| |p|p|p|p|f|b|b|b| | | | |ci res];
    destruct (ckind c) eqn:Ek; try discriminate Hk; cbn [has_append fst snd pure];
    try reflexivity;
    try (cbn [has_enumerable negb]; destruct (each_of c (StSeq l)); reflexivity).
  (* Add *)
  - unfold add_values. rewrite Ek. reflexivity.
  - unfold add_values. rewrite Ek, sll_add_seq. reflexivity.
  - unfold add_values. rewrite Ek, dll_add_seq. reflexivity.
  (* Append *)
  - rewrite sll_add_seq. reflexivity.
  - rewrite dll_add_seq. reflexivity.
  (* Prepend *)
  - rewrite sll_prepend_seq. reflexivity.
  - rewrite dll_prepend_seq. reflexivity.
  (* Insert *)
  - rewrite al_insert_eq. reflexivity.
  - rewrite sll_insert_eq. reflexivity.
  - rewrite dll_insert_eq. reflexivity.
  (* SetAt *)
  - rewrite al_set_eq. reflexivity.
  - rewrite sll_set_eq. reflexivity.
  - rewrite dll_set_eq. reflexivity.
  (* RemoveAt *)
  - rewrite al_remove_eq. reflexivity.
  - rewrite sll_remove_eq. reflexivity.
  - rewrite dll_remove_eq. reflexivity.
  (* Swap *)
  - rewrite sll_swap_eq. reflexivity.
  - rewrite dll_swap_eq. reflexivity.
  (* Sort *)
  - destruct (zlen l <? 2); [reflexivity|]. destruct (sort_okb (cmp_of ci) l res); reflexivity.
  - destruct (zlen l <? 2); [reflexivity|]. destruct (sort_okb (cmp_of ci) l res); reflexivity.
  - destruct (zlen l <? 2); [reflexivity|]. destruct (sort_okb (cmp_of ci) l res); reflexivity.
  (* Clear *)
  - unfold init. rewrite Ek. reflexivity.
  - unfold init. rewrite Ek. reflexivity.
  - unfold init. rewrite Ek. reflexivity.
  (* FromJSON *)
  - unfold from_json. rewrite Ek. cbn [is_kv]. destruct d as [| |vs|kvs]; cbn [fst]; try reflexivity;
      unfold load_array; rewrite Ek; reflexivity.
  - unfold from_json. rewrite Ek. cbn [is_kv]. destruct d as [| |vs|kvs]; cbn [fst]; try reflexivity;
      unfold load_array, add_values, init; rewrite Ek; rewrite sll_add_eq; reflexivity.
  - unfold from_json. rewrite Ek. cbn [is_kv]. destruct d as [| |vs|kvs]; cbn [fst]; try reflexivity;
      unfold load_array, add_values, init; rewrite Ek; rewrite dll_add_eq; reflexivity.
Qed.


Lemma run_from_list : forall c ops l, is_list_kind (ckind c) = true ->
  run_from c (StSeq l) ops = StSeq (abs_run_from c l ops).
Proof.
  intros c ops. induction ops as [|o ops IH]; intros l Hk; [reflexivity|].
  unfold run_from, abs_run_from in *. cbn [fold_left].
  rewrite (step_list c l o Hk). apply IH. exact Hk.
Qed.

Lemma init_list : forall c, is_list_kind (ckind c) = true -> init c = StSeq [].
Proof. intros c Hk. unfold init. destruct (ckind c); try discriminate Hk; reflexivity. Qed.

Lemma values_of_list : forall c l, is_list_kind (ckind c) = true -> values_of c (StSeq l) = l.
Proof. intros c l Hk. unfold values_of. destruct (ckind c); try discriminate Hk; reflexivity. Qed.

(* ---------- C03: refinement ---------- *)
Theorem C03_refines : forall c ops, is_list_kind (ckind c) = true ->
  run c ops = StSeq (abs_run c ops).
Proof.
  intros c ops Hk. unfold run, abs_run. rewrite (init_list c Hk). apply run_from_list. exact Hk.
Qed.

Corollary C03_values : forall c ops, is_list_kind (ckind c) = true ->
  values_of c (run c ops) = abs_run c ops.
Proof. intros c ops Hk. rewrite (C03_refines c ops Hk). apply values_of_list. exact Hk. Qed.

Theorem C03_never_crashes : forall c ops, is_list_kind (ckind c) = true -> run c ops <> StCrash.
Proof. intros c ops Hk. rewrite (C03_refines c ops Hk). discriminate. Qed.

(* appending one more operation to a history *)
Lemma abs_run_snoc : forall c ops o, abs_run c (ops ++ [o]) = abs_of_op c (abs_run c ops) o.
Proof. intros c ops o. unfold abs_run, abs_run_from. rewrite fold_left_app. reflexivity. Qed.

Lemma run_snoc : forall c ops o, run c (ops ++ [o]) = fst (fst (step c (run c ops) o)).
Proof. intros c ops o. unfold run, run_from. rewrite fold_left_app. reflexivity. Qed.

(* ---------- C03: the three kinds are interchangeable ---------- *)
Lemma abs_of_op_offered : forall c l o, offered (ckind c) o = true -> abs_of_op c l o = seq_of_op l o.
Proof.
  intros c l o Ho. destruct o; cbn [offered] in Ho; cbn [abs_of_op seq_of_op]; try rewrite Ho; reflexivity.
Qed.

Lemma abs_run_offered : forall c ops, forallb (offered (ckind c)) ops = true -> abs_run c ops = seq_run ops.
Proof.
  intros c ops. unfold abs_run, abs_run_from, seq_run. generalize (@nil Z) as l.
  induction ops as [|o ops IH]; intros l Ho; [reflexivity|].
  cbn [forallb] in Ho. apply andb_true_iff in Ho. destruct Ho as [H1 H2].
  cbn [fold_left]. rewrite (abs_of_op_offered c l o H1). apply IH. exact H2.
Qed.

(* a history that only uses operations the kind offers (i.e. no Append/Prepend on an ArrayList) *)
Theorem C03_run_is_seq_run : forall c ops, is_list_kind (ckind c) = true ->
  forallb (offered (ckind c)) ops = true -> values_of c (run c ops) = seq_run ops.
Proof. intros c ops Hk Ho. rewrite (C03_values c ops Hk). apply abs_run_offered. exact Ho. Qed.

Theorem C03_interchangeable : forall c1 c2 ops,
  is_list_kind (ckind c1) = true -> is_list_kind (ckind c2) = true ->
  forallb (offered (ckind c1)) ops = true -> forallb (offered (ckind c2)) ops = true ->
  values_of c1 (run c1 ops) = values_of c2 (run c2 ops) /\ run c1 ops = run c2 ops.
Proof.
  intros c1 c2 ops H1 H2 O1 O2. split.
  - rewrite (C03_run_is_seq_run c1 ops H1 O1), (C03_run_is_seq_run c2 ops H2 O2). reflexivity.
  - rewrite (C03_refines c1 ops H1), (C03_refines c2 ops H2).
    rewrite (abs_run_offered c1 ops O1), (abs_run_offered c2 ops O2). reflexivity.
Qed.

(* the two linked lists need no side condition at all *)
Corollary C03_linked_interchangeable : forall c1 c2 ops,
  has_append (ckind c1) = true -> has_append (ckind c2) = true ->
  run c1 ops = run c2 ops.
Proof.
  intros c1 c2 ops H1 H2.
  assert (O : forall c, has_append (ckind c) = true -> forallb (offered (ckind c)) ops = true).
  { intros c H. apply forallb_forall. intros o _. destruct o; cbn [offered]; auto. }
  assert (L : forall c, has_append (ckind c) = true -> is_list_kind (ckind c) = true).
  { intros c H. destruct (ckind c); try discriminate H; reflexivity. }
  apply C03_interchangeable; auto.
Qed.

(* ---------- C03: out-of-range indices are no-ops ---------- *)
Lemma seq_insert_noop : forall i vs l, ~ (0 <= i <= zlen l) -> seq_insert i vs l = l.
Proof.
  intros i vs l H. unfold seq_insert.
  replace ((0 <=? i) && (i <=? zlen l)) with false; [reflexivity|].
  symmetry. rewrite andb_false_iff, !Z.leb_gt. lia.
Qed.

Lemma seq_set_noop : forall i v l, ~ (0 <= i <= zlen l) -> seq_set i v l = l.
Proof.
  intros i v l H. unfold seq_set. pose proof (zlen_nonneg _ l) as Hn.
  replace (within i l) with false by (symmetry; apply (proj2 (within_false _ _ _)); lia).
  replace (i =? zlen l) with false by (symmetry; apply (proj2 (Z.eqb_neq _ _)); lia). reflexivity.
Qed.

Lemma seq_remove_noop : forall i l, ~ (0 <= i < zlen l) -> seq_remove i l = l.
Proof.
  intros i l H. unfold seq_remove.
  replace (within i l) with false by (symmetry; apply (proj2 (within_false _ _ _)); lia). reflexivity.
Qed.

Lemma seq_swap_noop : forall i j l, ~ (0 <= i < zlen l /\ 0 <= j < zlen l) -> seq_swap i j l = l.
Proof.
  intros i j l H. unfold seq_swap.
  destruct (within i l) eqn:Hi; [|reflexivity]. destruct (within j l) eqn:Hj; [|reflexivity].
  apply within_true in Hi. apply within_true in Hj. tauto.
Qed.

Lemma size_of_list : forall c ops, is_list_kind (ckind c) = true ->
  size_of c (run c ops) = zlen (abs_run c ops).
Proof. intros c ops Hk. rewrite (C03_refines c ops Hk). reflexivity. Qed.

Theorem C03_noop : forall c ops, is_list_kind (ckind c) = true ->
  let n := size_of c (run c ops) in
  (forall i vs, ~ (0 <= i <= n) -> run c (ops ++ [Insert i vs]) = run c ops) /\
  (forall i v, ~ (0 <= i <= n) -> run c (ops ++ [SetAt i v]) = run c ops) /\
  (forall i, ~ (0 <= i < n) -> run c (ops ++ [RemoveAt i]) = run c ops) /\
  (forall i j, ~ (0 <= i < n /\ 0 <= j < n) -> run c (ops ++ [Swap i j]) = run c ops).
Proof.
  intros c ops Hk n. subst n. rewrite (size_of_list c ops Hk).
  repeat split; intros;
    rewrite (C03_refines c (ops ++ _) Hk), (C03_refines c ops Hk), abs_run_snoc; cbn [abs_of_op]; f_equal.
  - now apply seq_insert_noop.
  - now apply seq_set_noop.
  - now apply seq_remove_noop.
  - now apply seq_swap_noop.
Qed.

(* and what the in-range cases do, on the machine *)
Theorem C03_in_range : forall c ops, is_list_kind (ckind c) = true ->
  let l := values_of c (run c ops) in
  let n := size_of c (run c ops) in
  (forall i vs, 0 <= i <= n ->
     values_of c (run c (ops ++ [Insert i vs])) = firstn (Z.to_nat i) l ++ vs ++ skipn (Z.to_nat i) l) /\
  (forall v, values_of c (run c (ops ++ [SetAt n v])) = l ++ [v]) /\
  (forall i v, 0 <= i < n ->
     values_of c (run c (ops ++ [SetAt i v])) = firstn (Z.to_nat i) l ++ v :: skipn (S (Z.to_nat i)) l) /\
  (forall i, 0 <= i < n ->
     values_of c (run c (ops ++ [RemoveAt i])) = firstn (Z.to_nat i) l ++ skipn (S (Z.to_nat i)) l) /\
  (forall vs, values_of c (run c (ops ++ [Add vs])) = l ++ vs) /\
  values_of c (run c (ops ++ [Clear])) = [].
Proof.
  intros c ops Hk l n. subst l n. rewrite (size_of_list c ops Hk), (C03_values c ops Hk).
  repeat split; intros; rewrite (C03_values c (ops ++ _) Hk), abs_run_snoc; cbn [abs_of_op].
  - unfold seq_insert. replace ((0 <=? i) && (i <=? zlen (abs_run c ops))) with true; [reflexivity|].
    symmetry. rewrite andb_true_iff, !Z.leb_le. lia.
  - unfold seq_set. pose proof (zlen_nonneg _ (abs_run c ops)).
    replace (within _ _) with false by (symmetry; apply (proj2 (within_false _ _ _)); lia).
    rewrite Z.eqb_refl. reflexivity.
  - unfold seq_set. replace (within _ _) with true by (symmetry; apply within_true; lia). reflexivity.
  - unfold seq_remove. replace (within _ _) with true by (symmetry; apply within_true; lia). reflexivity.
  - reflexivity.
  - reflexivity.
Qed.

(* ---------- C03: observers ---------- *)
Definition get_obs (c : config) (l : list Z) (i : Z) : option Z :=
  match ckind c with ArrayList => al_get i l | SinglyLinkedList => sll_get i l | _ => dll_get i l end.
Definition index_of_obs (c : config) (l : list Z) (v : Z) : Z :=
  match ckind c with ArrayList => al_index_of v l | SinglyLinkedList => sll_index_of v l | _ => dll_index_of v l end.

Lemma get_obs_eq : forall c l i, get_obs c l i = seq_get i l.
Proof.
  intros c l i. unfold get_obs. destruct (ckind c);
    first [apply al_get_eq | apply sll_get_eq | apply dll_get_eq].
Qed.

Lemma index_of_obs_eq : forall c l v, index_of_obs c l v = seq_index_of v l.
Proof.
  intros c l v. unfold index_of_obs. destruct (ckind c);
    first [apply al_index_of_eq | apply sll_index_of_eq | apply dll_index_of_eq].
Qed.

Lemma contains_of_list : forall c l vs, is_list_kind (ckind c) = true ->
  contains_of c (StSeq l) vs = obool (seq_contains vs l).
Proof.
  intros c l vs Hk. unfold contains_of. destruct (ckind c); try discriminate Hk.
  - rewrite al_contains_eq. reflexivity.
  - rewrite sll_contains_eq. reflexivity.
  - rewrite dll_contains_eq. reflexivity.
Qed.

(* the complete level-1 observation vector of a list is a function of the abstract sequence alone *)
Definition list_vector (c : config) (l : list Z) : list (tag * obs) :=
  [ (TSize, OZ (zlen l));
    (TEmpty, obool (zlen l =? 0));
    (TValues, ozs l);
    (TGetIdx, OL (map (fun i => oopt (seq_get i l)) (zrange (-2) (length l + 4))));
    (TIndexOf, ozs (map (fun v => seq_index_of v l) (probes c)));
    (TContains, OL (map (fun vs => obool (seq_contains vs l)) (contains_probes c)));
    (TJson, OL [OZ 0; ozs l]);
    (TSane, all_sane) ].

Lemma observe_list : forall c l, is_list_kind (ckind c) = true ->
  observe c 1 (StSeq l) = list_vector c l.
Proof.
  intros c l Hk. unfold observe, list_vector.
  replace (1 <=? 1) with true by reflexivity. cbn [andb].
  assert (Hkv : is_kv (ckind c) = false) by (destruct (ckind c); try discriminate Hk; reflexivity).
  rewrite Hkv.
  assert (Hit : match each_of c (StSeq l), each_back c (StSeq l) with
                | Some f, Some b => if false then [(TIterF, opairs f); (TIterB, opairs b)] else []
                | _, _ => []
                end = @nil (tag * obs)).
  { destruct (each_of c (StSeq l)); [|reflexivity]. destruct (each_back c (StSeq l)); reflexivity. }
  rewrite Hit. clear Hit.
  assert (Hg : map (fun i => oopt (match ckind c with
                                   | ArrayList => al_get i l
                                   | SinglyLinkedList => sll_get i l
                                   | _ => dll_get i l end)) (zrange (-2) (length l + 4))
               = map (fun i => oopt (seq_get i l)) (zrange (-2) (length l + 4))).
  { apply map_ext. intros i. f_equal. apply (get_obs_eq c l i). }
  assert (Hi : map (fun v => match ckind c with
                             | ArrayList => al_index_of v l
                             | SinglyLinkedList => sll_index_of v l
                             | _ => dll_index_of v l end) (probes c)
               = map (fun v => seq_index_of v l) (probes c)).
  { apply map_ext. intros v. apply (index_of_obs_eq c l v). }
  assert (Hc : map (contains_of c (StSeq l)) (contains_probes c)
               = map (fun vs => obool (seq_contains vs l)) (contains_probes c)).
  { apply map_ext. intros vs. apply contains_of_list. exact Hk. }
  assert (Hv : values_of c (StSeq l) = l) by (apply values_of_list; exact Hk).
  unfold to_json. rewrite Hkv.
  destruct (ckind c); try discriminate Hk; cbn [app size_of];
    rewrite Hg, Hi, Hc, ?Hv; reflexivity.
Qed.

Theorem C03_observe_vector : forall c ops, is_list_kind (ckind c) = true ->
  observe c 1 (run c ops) = list_vector c (abs_run c ops).
Proof. intros c ops Hk. rewrite (C03_refines c ops Hk). apply observe_list. exact Hk. Qed.

(* Get / IndexOf / Contains / Size / Values read off the observation vector, pointwise *)
Theorem C03_observers : forall c ops, is_list_kind (ckind c) = true ->
  let s := run c ops in
  let l := abs_run c ops in
  size_of c s = zlen l /\
  values_of c s = l /\
  (forall o, In (TGetIdx, o) (observe c 1 s) ->
     o = OL (map (fun i => oopt (seq_get i l)) (zrange (-2) (length l + 4)))) /\
  (forall o, In (TIndexOf, o) (observe c 1 s) ->
     o = ozs (map (fun v => seq_index_of v l) (probes c))) /\
  (forall o, In (TContains, o) (observe c 1 s) ->
     o = OL (map (fun vs => obool (forallb (fun v => existsb (Z.eqb v) l) vs)) (contains_probes c))) /\
  (forall vs, contains_of c s vs = obool (forallb (fun v => existsb (Z.eqb v) l) vs)) /\
  (forall i, get_obs c l i = seq_get i l) /\
  (forall v, index_of_obs c l v = seq_index_of v l).
Proof.
  intros c ops Hk s l. subst s l.
  split; [apply size_of_list; exact Hk|].
  split; [apply C03_values; exact Hk|].
  rewrite (C03_observe_vector c ops Hk). unfold list_vector.
  split; [|split; [|split; [|split; [|split]]]].
  - intros o H. cbn [In] in H.
    repeat (destruct H as [H | H]; [first [discriminate H | injection H as <-; reflexivity]|]). contradiction.
  - intros o H. cbn [In] in H.
    repeat (destruct H as [H | H]; [first [discriminate H | injection H as <-; reflexivity]|]). contradiction.
  - intros o H. cbn [In] in H.
    repeat (destruct H as [H | H]; [first [discriminate H | injection H as <-; reflexivity]|]). contradiction.
  - intros vs. rewrite (C03_refines c ops Hk). apply contains_of_list. exact Hk.
  - intros i. apply get_obs_eq.
  - intros v. apply index_of_obs_eq.
Qed.

(* ---------- C03: Sort ---------- *)
Theorem C03_sort : forall c ops ci res, is_list_kind (ckind c) = true ->
  let l := values_of c (run c ops) in
  2 <= zlen l -> sort_okb (cmp_of ci) l res = true ->
  values_of c (run c (ops ++ [Sort ci res])) = res /\
  StronglySorted (cmp_le (cmp_of ci)) res /\ Permutation res l.
Proof.
  intros c ops ci res Hk l H2 Hok. subst l. rewrite (C03_values c ops Hk) in *.
  split.
  - rewrite (C03_values c _ Hk), abs_run_snoc. cbn [abs_of_op].
    replace (zlen (abs_run c ops) <? 2) with false by (symmetry; apply Z.ltb_ge; lia).
    rewrite Hok. reflexivity.
  - apply (sort_okb_strongly_sorted _ (cmp_of_SWO ci) _ _ Hok).
Qed.

(* whatever result is proposed, the content after Sort is a sorted permutation of the content before *)
Theorem C03_sort_always : forall c ops ci res, is_list_kind (ckind c) = true ->
  let l := values_of c (run c ops) in
  let l' := values_of c (run c (ops ++ [Sort ci res])) in
  StronglySorted (cmp_le (cmp_of ci)) l' /\ Permutation l' l.
Proof.
  intros c ops ci res Hk l l'. subst l l'.
  rewrite (C03_values c _ Hk), abs_run_snoc, (C03_values c ops Hk). cbn [abs_of_op].
  set (l := abs_run c ops).
  destruct (zlen l <? 2) eqn:H2.
  - split; [|apply Permutation_refl].
    apply Z.ltb_lt in H2. destruct l as [|x [|y l]].
    + constructor.
    + constructor; constructor.
    + rewrite !zlen_cons in H2. pose proof (zlen_nonneg _ l). lia.
  - destruct (sort_okb (cmp_of ci) l res) eqn:Hok.
    + apply (sort_okb_strongly_sorted _ (cmp_of_SWO ci) _ _ Hok).
    + apply (sort_okb_strongly_sorted _ (cmp_of_SWO ci) l). apply isort_ok. apply cmp_of_SWO.
Qed.
