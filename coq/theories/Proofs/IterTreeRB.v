(* C08 for the red-black tree iterator (and TreeSet's iterator built on it).
   Part 1: the cursor specification (a position in -1..n over a list of elements) and its script
           interpreter, in exactly the observation format of Iter.run_call.
   Part 2: a generic simulation argument: any iterator state machine whose steps commute with an
           abstraction [pos : state -> Z] runs every script exactly like the cursor.
   Part 3: the red-black path iterator: the rank of a path, the successor / predecessor step lemmas,
           and the instantiation of Part 2 (purely structural: no colour or ordering invariant).
   Part 4: TreeSet's iterator and the machine-level corollaries. *)
From Coq Require Import ZArith List Bool Lia Arith.
From Gods Require Import Common.Cmp Model.Ops Model.Iter Model.Machine.
From Gods Require Model.RBTree.
Import ListNotations.
Local Open Scope Z_scope.

(* ---------- list helpers ---------- *)
Lemma skipn_nth_cons : forall (A : Type) (l : list A) k e,
  nth_error l k = Some e -> skipn k l = e :: skipn (S k) l.
Proof.
  intros A l. induction l as [|x l IH]; intros [|k] e H; simpl in *; try discriminate.
  - inversion H; reflexivity.
  - apply IH; exact H.
Qed.

Lemma firstn_S_nth : forall (A : Type) (l : list A) k e,
  nth_error l k = Some e -> firstn (S k) l = firstn k l ++ [e].
Proof.
  intros A l. induction l as [|x l IH]; intros [|k] e H; simpl in *; try discriminate.
  - inversion H; reflexivity.
  - f_equal. apply IH; exact H.
Qed.

(* ====================================================================================== *)
(* Part 1: the cursor                                                                       *)
(* ====================================================================================== *)
Section Cursor.
Variable l : list (Z * Z).                       (* the container's (index-or-key, value) sequence *)

Definition cn : Z := Z.of_nat (length l).
Definition c_in (p : Z) : bool := (0 <=? p) && (p <? cn).
Definition c_next (p : Z) : Z := if p <? cn then p + 1 else p.
Definition c_prev (p : Z) : Z := if 0 <=? p then p - 1 else p.
Definition c_elem (p : Z) : option (Z * Z) := if c_in p then nth_error l (Z.to_nat p) else None.
(* what a move onto position p reports *)
Definition c_report (p : Z) : obs :=
  match c_elem p with Some (i, v) => OL [OZ 1; OZ i; OZ v] | None => OL [OZ 0] end.
Definition c_sat (pr : pred) (p : Z) : bool :=
  match c_elem p with Some (i, v) => pred_eval pr i v | None => false end.
(* inspect positions q, q+1, ... (k of them); n if none satisfies the predicate *)
Fixpoint scan_up (pr : pred) (k : nat) (q : Z) : Z :=
  match k with O => cn | S k' => if c_sat pr q then q else scan_up pr k' (q + 1) end.
Fixpoint scan_down (pr : pred) (k : nat) (q : Z) : Z :=
  match k with O => -1 | S k' => if c_sat pr q then q else scan_down pr k' (q - 1) end.
Definition c_next_to (pr : pred) (p : Z) : Z := scan_up pr (Z.to_nat (cn - (p + 1))) (p + 1).
Definition c_prev_to (pr : pred) (p : Z) : Z := scan_down pr (Z.to_nat p) (p - 1).

Definition cursor_call (has_prev : bool) (p : Z) (c : icall) : Z * obs :=
  match c with
  | CNext => (c_next p, c_report (c_next p))
  | CBegin => (-1, ounit)
  | CFirst => (0, c_report 0)
  | CNextTo pr => (c_next_to pr p, c_report (c_next_to pr p))
  | CPrev => if has_prev then (c_prev p, c_report (c_prev p)) else (p, ounsupported)
  | CEnd => if has_prev then (cn, ounit) else (p, ounsupported)
  | CLast => if has_prev then (cn - 1, c_report (cn - 1)) else (p, ounsupported)
  | CPrevTo pr => if has_prev then (c_prev_to pr p, c_report (c_prev_to pr p)) else (p, ounsupported)
  end.

Fixpoint cursor_run (has_prev : bool) (p : Z) (cs : list icall) : list obs :=
  match cs with
  | [] => []
  | c :: cs' => snd (cursor_call has_prev p c) :: cursor_run has_prev (fst (cursor_call has_prev p c)) cs'
  end.
(* a fresh iterator is at position -1 *)
Definition cursor_script (has_prev : bool) (cs : list icall) : list obs := cursor_run has_prev (-1) cs.

(* --- the scans are "least later / greatest earlier satisfying position, else n / -1" --- *)
Lemma scan_up_spec : forall pr k q, q + Z.of_nat k = cn ->
  q <= scan_up pr k q <= cn /\
  (scan_up pr k q < cn -> c_sat pr (scan_up pr k q) = true) /\
  (forall j, q <= j < scan_up pr k q -> c_sat pr j = false).
Proof.
  intros pr k. induction k as [|k IH]; intros q Hq; cbn [scan_up].
  - repeat split; try lia; try (intros j Hj; lia).
  - destruct (c_sat pr q) eqn:Hs.
    + split; [lia|]. split; [intros _; exact Hs|]. intros j Hj; lia.
    + destruct (IH (q + 1)) as (H1 & H2 & H3); [lia|].
      split; [lia|]. split; [exact H2|].
      intros j Hj. destruct (Z.eq_dec j q) as [->|Hne]; [exact Hs|]. apply H3; lia.
Qed.

Theorem c_next_to_spec : forall pr p, -1 <= p <= cn ->
  let q := c_next_to pr p in
  (p < q \/ q = cn) /\ q <= cn /\ (q < cn -> c_sat pr q = true) /\
  (forall j, p < j < q -> c_sat pr j = false).
Proof.
  intros pr p Hp q. unfold q, c_next_to.
  destruct (Z.eq_dec p cn) as [->|Hne].
  - replace (Z.to_nat (cn - (cn + 1))) with O by lia. cbn [scan_up].
    repeat split; try lia; try (intros j Hj; lia).
  - destruct (scan_up_spec pr (Z.to_nat (cn - (p + 1))) (p + 1)) as (H1 & H2 & H3); [lia|].
    split; [lia|]. split; [lia|]. split; [exact H2|]. intros j Hj; apply H3; lia.
Qed.

Lemma scan_down_spec : forall pr k q, q + 1 = Z.of_nat k ->
  -1 <= scan_down pr k q <= q /\
  (0 <= scan_down pr k q -> c_sat pr (scan_down pr k q) = true) /\
  (forall j, scan_down pr k q < j <= q -> c_sat pr j = false).
Proof.
  intros pr k. induction k as [|k IH]; intros q Hq; cbn [scan_down].
  - repeat split; try lia; try (intros j Hj; lia).
  - destruct (c_sat pr q) eqn:Hs.
    + split; [lia|]. split; [intros _; exact Hs|]. intros j Hj; lia.
    + destruct (IH (q - 1)) as (H1 & H2 & H3); [lia|].
      split; [lia|]. split; [exact H2|].
      intros j Hj. destruct (Z.eq_dec j q) as [->|Hne]; [exact Hs|]. apply H3; lia.
Qed.

Theorem c_prev_to_spec : forall pr p, -1 <= p <= cn ->
  let q := c_prev_to pr p in
  (q < p \/ q = -1) /\ -1 <= q /\ (0 <= q -> c_sat pr q = true) /\
  (forall j, q < j < p -> c_sat pr j = false).
Proof.
  intros pr p Hp q. unfold q, c_prev_to.
  destruct (Z.eq_dec p (-1)) as [->|Hne].
  - cbn [Z.to_nat scan_down]. repeat split; try lia; try (intros j Hj; lia).
  - destruct (scan_down_spec pr (Z.to_nat p) (p - 1)) as (H1 & H2 & H3); [lia|].
    split; [lia|]. split; [lia|]. split; [exact H2|]. intros j Hj; apply H3; lia.
Qed.

(* unfolding equations used by the simulation *)
Lemma c_next_to_end : forall pr p, cn <= p + 1 -> c_next_to pr p = cn.
Proof. intros pr p H. unfold c_next_to. replace (Z.to_nat (cn - (p + 1))) with O by lia. reflexivity. Qed.

Lemma c_next_to_step : forall pr p, p + 1 < cn ->
  c_next_to pr p = if c_sat pr (p + 1) then p + 1 else c_next_to pr (p + 1).
Proof.
  intros pr p H. unfold c_next_to.
  replace (Z.to_nat (cn - (p + 1))) with (S (Z.to_nat (cn - (p + 1 + 1)))) by lia. reflexivity.
Qed.

Lemma c_prev_to_begin : forall pr p, p <= 0 -> c_prev_to pr p = -1.
Proof. intros pr p H. unfold c_prev_to. replace (Z.to_nat p) with O by lia. reflexivity. Qed.

Lemma c_prev_to_step : forall pr p, 0 < p ->
  c_prev_to pr p = if c_sat pr (p - 1) then p - 1 else c_prev_to pr (p - 1).
Proof.
  intros pr p H. unfold c_prev_to.
  replace (Z.to_nat p) with (S (Z.to_nat (p - 1))) by lia. reflexivity.
Qed.

Lemma c_elem_in : forall p, c_in p = true ->
  exists i v, c_elem p = Some (i, v) /\ nth_error l (Z.to_nat p) = Some (i, v).
Proof.
  intros p Hin. unfold c_elem. rewrite Hin.
  destruct (nth_error l (Z.to_nat p)) as [[i v]|] eqn:Hn.
  - exists i, v; split; reflexivity.
  - exfalso. apply nth_error_None in Hn. unfold c_in, cn in Hin.
    apply andb_true_iff in Hin. destruct Hin as [H0 H1].
    apply Z.leb_le in H0. apply Z.ltb_lt in H1. lia.
Qed.

Lemma c_in_iff : forall p, c_in p = true <-> 0 <= p < cn.
Proof.
  intros p. unfold c_in. rewrite andb_true_iff, Z.leb_le, Z.ltb_lt. tauto.
Qed.
End Cursor.

(* ====================================================================================== *)
(* Part 2: generic simulation                                                               *)
(* ====================================================================================== *)
Section Sim.
Variable St : Type.
Variables next prev : St -> option (St * bool).
Variables begin_ end_ : St -> St.
Variable cur : St -> option (Z * Z).
Variable hp : bool.
Variable l : list (Z * Z).
Variable ok : St -> Prop.                        (* invariant of the iterator states *)
Variable pos : St -> Z.                          (* the cursor position a state stands for *)

Hypothesis pos_range : forall s, ok s -> -1 <= pos s <= cn l.
Hypothesis next_ok : forall s, ok s ->
  exists s', next s = Some (s', c_in l (c_next l (pos s))) /\ ok s' /\ pos s' = c_next l (pos s).
Hypothesis prev_ok : forall s, ok s ->
  exists s', prev s = Some (s', c_in l (c_prev (pos s))) /\ ok s' /\ pos s' = c_prev (pos s).
Hypothesis begin_ok : forall s, ok s -> ok (begin_ s) /\ pos (begin_ s) = -1.
Hypothesis end_ok : forall s, ok s -> ok (end_ s) /\ pos (end_ s) = cn l.
Hypothesis cur_ok : forall s, ok s -> c_in l (pos s) = true -> cur s = nth_error l (Z.to_nat (pos s)).

Lemma moved_ok : forall s, ok s -> moved St cur s (c_in l (pos s)) = Some (s, c_report l (pos s)).
Proof.
  intros s Hs. destruct (c_in l (pos s)) eqn:Hin.
  - destruct (c_elem_in l _ Hin) as (i & v & He & Hn).
    unfold moved. rewrite (cur_ok s Hs Hin), Hn. unfold c_report. rewrite He. reflexivity.
  - unfold moved, c_report, c_elem. rewrite Hin. reflexivity.
Qed.

Lemma c_sat_cur : forall pr s, ok s -> c_in l (pos s) = true ->
  exists i v, cur s = Some (i, v) /\ c_sat l pr (pos s) = pred_eval pr i v.
Proof.
  intros pr s Hs Hin. destruct (c_elem_in l _ Hin) as (i & v & He & Hn).
  exists i, v. split.
  - rewrite (cur_ok s Hs Hin). exact Hn.
  - unfold c_sat. rewrite He. reflexivity.
Qed.

Lemma move_to_next_ok : forall pr fuel s, ok s -> (Z.to_nat (cn l - pos s) + 1 <= fuel)%nat ->
  exists s', move_to St cur next pr fuel s = Some (s', c_in l (c_next_to l pr (pos s))) /\
             ok s' /\ pos s' = c_next_to l pr (pos s).
Proof.
  intros pr fuel. induction fuel as [|f IH]; intros s Hs Hf; [lia|].
  pose proof (pos_range s Hs) as Hr.
  destruct (next_ok s Hs) as (s' & Hn & Hs' & Hp').
  cbn [move_to]. rewrite Hn.
  destruct (c_in l (c_next l (pos s))) eqn:Hin.
  - apply c_in_iff in Hin. unfold c_next in Hin, Hp'.
    destruct (pos s <? cn l) eqn:Hlt; [apply Z.ltb_lt in Hlt | apply Z.ltb_ge in Hlt; lia].
    assert (Hin' : c_in l (pos s') = true) by (apply c_in_iff; lia).
    destruct (c_sat_cur pr s' Hs' Hin') as (i & v & Hc & Hsat).
    rewrite Hc. rewrite (c_next_to_step l pr (pos s)) by lia.
    rewrite <- Hp', Hsat.
    destruct (pred_eval pr i v).
    + exists s'. rewrite Hin'. auto.
    + apply IH; [exact Hs'|lia].
  - exists s'. rewrite Hp'. split; [|split; [exact Hs'|]].
    + f_equal. f_equal. symmetry.
      assert (Hge : cn l <= pos s + 1).
      { destruct (Z_lt_le_dec (pos s + 1) (cn l)) as [Hlt|Hge]; [|exact Hge].
        exfalso. assert (Ht : c_in l (c_next l (pos s)) = true).
        { apply c_in_iff. unfold c_next. destruct (pos s <? cn l) eqn:E;
            [lia | apply Z.ltb_ge in E; lia]. }
        congruence. }
      rewrite (c_next_to_end l pr _ Hge). unfold c_in. rewrite Z.ltb_irrefl. apply andb_false_r.
    + assert (Hge : cn l <= pos s + 1).
      { destruct (Z_lt_le_dec (pos s + 1) (cn l)) as [Hlt|Hge]; [|exact Hge].
        exfalso. assert (Ht : c_in l (c_next l (pos s)) = true).
        { apply c_in_iff. unfold c_next. destruct (pos s <? cn l) eqn:E;
            [lia | apply Z.ltb_ge in E; lia]. }
        congruence. }
      rewrite (c_next_to_end l pr _ Hge). unfold c_next.
      destruct (pos s <? cn l) eqn:E; [apply Z.ltb_lt in E | apply Z.ltb_ge in E]; lia.
Qed.

Lemma move_to_prev_ok : forall pr fuel s, ok s -> (Z.to_nat (pos s + 1) + 1 <= fuel)%nat ->
  exists s', move_to St cur prev pr fuel s = Some (s', c_in l (c_prev_to l pr (pos s))) /\
             ok s' /\ pos s' = c_prev_to l pr (pos s).
Proof.
  intros pr fuel. induction fuel as [|f IH]; intros s Hs Hf; [lia|].
  pose proof (pos_range s Hs) as Hr.
  destruct (prev_ok s Hs) as (s' & Hn & Hs' & Hp').
  cbn [move_to]. rewrite Hn.
  destruct (c_in l (c_prev (pos s))) eqn:Hin.
  - apply c_in_iff in Hin. unfold c_prev in Hin, Hp'.
    destruct (0 <=? pos s) eqn:Hle; [apply Z.leb_le in Hle | apply Z.leb_gt in Hle; lia].
    assert (Hin' : c_in l (pos s') = true) by (apply c_in_iff; lia).
    destruct (c_sat_cur pr s' Hs' Hin') as (i & v & Hc & Hsat).
    rewrite Hc. rewrite (c_prev_to_step l pr (pos s)) by lia.
    rewrite <- Hp', Hsat.
    destruct (pred_eval pr i v).
    + exists s'. rewrite Hin'. auto.
    + apply IH; [exact Hs'|lia].
  - assert (Hge : pos s <= 0).
    { destruct (Z_lt_le_dec 0 (pos s)) as [Hlt|Hge]; [|exact Hge].
      exfalso. assert (Ht : c_in l (c_prev (pos s)) = true).
      { apply c_in_iff. unfold c_prev. destruct (0 <=? pos s) eqn:E;
          [lia | apply Z.leb_gt in E; lia]. }
      congruence. }
    exists s'. rewrite Hp', (c_prev_to_begin l pr _ Hge). split; [|split; [exact Hs'|]].
    + reflexivity.
    + unfold c_prev. destruct (0 <=? pos s) eqn:E; [apply Z.leb_le in E | apply Z.leb_gt in E]; lia.
Qed.

Lemma run_call_ok : forall fuel s c, (length l + 2 <= fuel)%nat -> ok s ->
  exists s', run_call St next prev begin_ end_ cur hp fuel s c = Some (s', snd (cursor_call l hp (pos s) c)) /\
             ok s' /\ pos s' = fst (cursor_call l hp (pos s) c).
Proof.
  intros fuel s c Hf Hs. pose proof (pos_range s Hs) as Hr.
  assert (Hcn : cn l = Z.of_nat (length l)) by reflexivity.
  destruct c as [| | | | | |pr|pr]; cbn [run_call cursor_call].
  - (* Next *)
    destruct (next_ok s Hs) as (s' & Hn & Hs' & Hp'). rewrite Hn, <- Hp'.
    exists s'. cbn [fst snd]. rewrite (moved_ok s' Hs'). auto.
  - (* Prev *)
    destruct hp; cbn [fst snd]; [|exists s; auto].
    destruct (prev_ok s Hs) as (s' & Hn & Hs' & Hp'). rewrite Hn, <- Hp'.
    exists s'. rewrite (moved_ok s' Hs'). auto.
  - (* Begin *)
    destruct (begin_ok s Hs) as [Hb Hpb]. exists (begin_ s). cbn [fst snd]. auto.
  - (* End *)
    destruct hp; cbn [fst snd]; [|exists s; auto].
    destruct (end_ok s Hs) as [Hb Hpb]. exists (end_ s). auto.
  - (* First *)
    destruct (begin_ok s Hs) as [Hb Hpb].
    destruct (next_ok _ Hb) as (s' & Hn & Hs' & Hp'). rewrite Hn, <- Hp'.
    assert (H0 : pos s' = 0).
    { rewrite Hp', Hpb. unfold c_next. destruct (-1 <? cn l) eqn:E; [lia | apply Z.ltb_ge in E; lia]. }
    exists s'. cbn [fst snd]. rewrite (moved_ok s' Hs'), H0. auto.
  - (* Last *)
    destruct hp; cbn [fst snd]; [|exists s; auto].
    destruct (end_ok s Hs) as [Hb Hpb].
    destruct (prev_ok _ Hb) as (s' & Hn & Hs' & Hp'). rewrite Hn, <- Hp'.
    assert (H0 : pos s' = cn l - 1).
    { rewrite Hp', Hpb. unfold c_prev. destruct (0 <=? cn l) eqn:E; [lia | apply Z.leb_gt in E; lia]. }
    exists s'. rewrite (moved_ok s' Hs'), H0. auto.
  - (* NextTo *)
    destruct (move_to_next_ok pr fuel s Hs) as (s' & Hm & Hs' & Hp'); [lia|].
    rewrite Hm, <- Hp'. exists s'. cbn [fst snd]. rewrite (moved_ok s' Hs'). auto.
  - (* PrevTo *)
    destruct hp; cbn [fst snd]; [|exists s; auto].
    destruct (move_to_prev_ok pr fuel s Hs) as (s' & Hm & Hs' & Hp'); [lia|].
    rewrite Hm, <- Hp'. exists s'. rewrite (moved_ok s' Hs'). auto.
Qed.

Theorem sim_run : forall fuel cs s, (length l + 2 <= fuel)%nat -> ok s ->
  run_script St next prev begin_ end_ cur hp fuel s cs = cursor_run l hp (pos s) cs.
Proof.
  intros fuel cs. induction cs as [|c cs IH]; intros s Hf Hs; [reflexivity|].
  cbn [run_script cursor_run].
  destruct (run_call_ok fuel s c Hf Hs) as (s' & Hc & Hs' & Hp').
  rewrite Hc, <- Hp'. f_equal. apply IH; assumption.
Qed.

(* a full forward walk enumerates what lies after the position, a backward walk what lies before *)
Theorem sim_walk_next : forall fuel s, ok s -> (Z.to_nat (cn l - pos s) + 1 <= fuel)%nat ->
  walk St cur next fuel s = Some (skipn (Z.to_nat (pos s + 1)) l).
Proof.
  intros fuel. induction fuel as [|f IH]; intros s Hs Hf; [lia|].
  pose proof (pos_range s Hs) as Hr.
  destruct (next_ok s Hs) as (s' & Hn & Hs' & Hp').
  cbn [walk]. rewrite Hn.
  destruct (c_in l (c_next l (pos s))) eqn:Hin.
  - apply c_in_iff in Hin. unfold c_next in Hin, Hp'.
    destruct (pos s <? cn l) eqn:Hlt; [apply Z.ltb_lt in Hlt | apply Z.ltb_ge in Hlt; lia].
    assert (Hin' : c_in l (pos s') = true) by (apply c_in_iff; lia).
    destruct (c_elem_in l _ Hin') as (i & v & He & Hnth).
    rewrite (cur_ok s' Hs' Hin'), Hnth, (IH s' Hs') by lia.
    rewrite Hp' in Hnth. rewrite (skipn_nth_cons _ _ _ _ Hnth).
    rewrite Hp'. do 3 f_equal. lia.
  - f_equal. symmetry. apply skipn_all2. unfold cn in *.
    destruct (Z_lt_le_dec (pos s + 1) (Z.of_nat (length l))) as [Hlt|Hge]; [|lia].
    exfalso. assert (Ht : c_in l (c_next l (pos s)) = true).
    { apply c_in_iff. unfold c_next, cn. destruct (pos s <? Z.of_nat (length l)) eqn:E;
        [lia | apply Z.ltb_ge in E; lia]. }
    congruence.
Qed.

Theorem sim_walk_prev : forall fuel s, ok s -> (Z.to_nat (pos s + 1) + 1 <= fuel)%nat ->
  walk St cur prev fuel s = Some (rev (firstn (Z.to_nat (pos s)) l)).
Proof.
  intros fuel. induction fuel as [|f IH]; intros s Hs Hf; [lia|].
  pose proof (pos_range s Hs) as Hr.
  destruct (prev_ok s Hs) as (s' & Hn & Hs' & Hp').
  cbn [walk]. rewrite Hn.
  destruct (c_in l (c_prev (pos s))) eqn:Hin.
  - apply c_in_iff in Hin. unfold c_prev in Hin, Hp'.
    destruct (0 <=? pos s) eqn:Hle; [apply Z.leb_le in Hle | apply Z.leb_gt in Hle; lia].
    assert (Hin' : c_in l (pos s') = true) by (apply c_in_iff; lia).
    destruct (c_elem_in l _ Hin') as (i & v & He & Hnth).
    rewrite (cur_ok s' Hs' Hin'), Hnth, (IH s' Hs') by lia.
    replace (Z.to_nat (pos s)) with (S (Z.to_nat (pos s'))) by lia.
    rewrite (firstn_S_nth _ _ _ _ Hnth), rev_app_distr. reflexivity.
  - f_equal. replace (Z.to_nat (pos s)) with O; [reflexivity|].
    destruct (Z_lt_le_dec 0 (pos s)) as [Hlt|Hge]; [|lia].
    exfalso. assert (Ht : c_in l (c_prev (pos s)) = true).
    { apply c_in_iff. unfold c_prev. destruct (0 <=? pos s) eqn:E;
        [lia | apply Z.leb_gt in E; lia]. }
    congruence.
Qed.
End Sim.

(* ====================================================================================== *)
(* Part 3: the red-black path iterator                                                      *)
(* ====================================================================================== *)
Module RBIter.
Import RBTree.

(* number of nodes that precede, in in-order, the node at path p *)
Fixpoint rank (t : tree) (p : list side) : nat :=
  match t with
  | E => 0%nat
  | T _ l _ _ r =>
    match p with
    | [] => count l
    | L :: p' => rank l p'
    | R :: p' => (S (count l) + rank r p')%nat
    end
  end.

Lemma length_inorder : forall t, length (inorder t) = count t.
Proof.
  induction t as [|c l IHl k v r IHr]; [reflexivity|].
  cbn [inorder count]. rewrite app_length. cbn [length]. lia.
Qed.

Lemma cn_inorder : forall t, cn (inorder t) = Z.of_nat (count t).
Proof. intros t. unfold cn. rewrite length_inorder. reflexivity. Qed.

Lemma subtree_not_E : forall p t, subtree t p <> Some E.
Proof.
  induction p as [|d p IH]; intros t; destruct t as [|c l k v r]; cbn [subtree]; try discriminate.
  apply IH.
Qed.

Lemma subtree_T : forall t p, subtree t p <> None -> exists c l k v r, subtree t p = Some (T c l k v r).
Proof.
  intros t p H. destruct (subtree t p) as [[|c l k v r]|] eqn:Hs.
  - exfalso. exact (subtree_not_E _ _ Hs).
  - exists c, l, k, v, r. reflexivity.
  - congruence.
Qed.

Theorem nth_rank : forall p t c l k v r,
  subtree t p = Some (T c l k v r) -> nth_error (inorder t) (rank t p) = Some (k, v).
Proof.
  induction p as [|d p IH]; intros t c l k v r H.
  - destruct t as [|c0 l0 k0 v0 r0]; cbn [subtree] in H; [discriminate|].
    inversion H; subst. cbn [rank inorder].
    rewrite nth_error_app2 by (rewrite length_inorder; lia).
    rewrite length_inorder, Nat.sub_diag. reflexivity.
  - destruct t as [|c0 l0 k0 v0 r0]; cbn [subtree] in H; [discriminate|].
    destruct d; cbn [rank inorder].
    + pose proof (IH _ _ _ _ _ _ H) as Hn.
      rewrite nth_error_app1; [exact Hn|]. apply nth_error_Some. rewrite Hn. discriminate.
    + rewrite nth_error_app2 by (rewrite length_inorder; lia).
      replace (S (count l0) + rank r0 p - length (inorder l0))%nat with (S (rank r0 p))
        by (rewrite length_inorder; lia).
      cbn [nth_error]. exact (IH _ _ _ _ _ _ H).
Qed.

Lemma rank_lt : forall t p, subtree t p <> None -> (rank t p < count t)%nat.
Proof.
  intros t p H. destruct (subtree_T t p H) as (c & l & k & v & r & Hs).
  rewrite <- length_inorder. apply nth_error_Some. rewrite (nth_rank _ _ _ _ _ _ _ Hs). discriminate.
Qed.

(* --- leftmost / rightmost --- *)
Lemma leftmost_path_T : forall c l k v r,
  leftmost_path (T c l k v r) = match l with E => [] | _ => L :: leftmost_path l end.
Proof. intros c l k v r. destruct l; reflexivity. Qed.
Lemma rightmost_path_T : forall c l k v r,
  rightmost_path (T c l k v r) = match r with E => [] | _ => R :: rightmost_path r end.
Proof. intros c l k v r. destruct r; reflexivity. Qed.

Lemma leftmost_path_spec : forall t, t <> E ->
  subtree t (leftmost_path t) <> None /\ rank t (leftmost_path t) = 0%nat.
Proof.
  induction t as [|c l IHl k v r IHr]; intros Hne; [congruence|].
  rewrite leftmost_path_T. destruct l as [|c1 l1 k1 v1 r1].
  - cbn [subtree rank count]. split; [discriminate|reflexivity].
  - remember (T c1 l1 k1 v1 r1) as l' eqn:El.
    assert (Hl : l' <> E) by (subst; discriminate).
    destruct (IHl Hl) as [H1 H2]. cbn [subtree rank]. split; assumption.
Qed.

Lemma rightmost_path_spec : forall t, t <> E ->
  subtree t (rightmost_path t) <> None /\ S (rank t (rightmost_path t)) = count t.
Proof.
  induction t as [|c l IHl k v r IHr]; intros Hne; [congruence|].
  rewrite rightmost_path_T. destruct r as [|c1 l1 k1 v1 r1].
  - cbn [subtree rank count]. split; [discriminate|lia].
  - remember (T c1 l1 k1 v1 r1) as r' eqn:Er.
    assert (Hr : r' <> E) by (subst; discriminate).
    destruct (IHr Hr) as [H1 H2]. cbn [subtree rank count]. split; [assumption|lia].
Qed.

(* --- climbing, expressed from the root downwards --- *)
Lemma climb_next_snoc : forall rp d,
  climb_next (rp ++ [d]) =
  match climb_next rp with
  | IBetween q => IBetween (d :: q)
  | IEnd => match d with L => IBetween [] | R => IEnd end
  | IBegin => IBegin
  end.
Proof.
  induction rp as [|x rp IH]; intros d.
  - destruct d; reflexivity.
  - destruct x; cbn [app climb_next].
    + rewrite rev_app_distr. reflexivity.
    + apply IH.
Qed.

Lemma climb_prev_snoc : forall rp d,
  climb_prev (rp ++ [d]) =
  match climb_prev rp with
  | IBetween q => IBetween (d :: q)
  | IBegin => match d with R => IBetween [] | L => IBegin end
  | IEnd => IEnd
  end.
Proof.
  induction rp as [|x rp IH]; intros d.
  - destruct d; reflexivity.
  - destruct x; cbn [app climb_prev].
    + apply IH.
    + rewrite rev_app_distr. reflexivity.
Qed.

Definition child (d : side) (l r : tree) : tree := match d with L => l | R => r end.

Lemma inext_cons : forall c l k v r d p,
  inext (T c l k v r) (IBetween (d :: p)) =
  match inext (child d l r) (IBetween p) with
  | IBetween q => IBetween (d :: q)
  | IEnd => match d with L => IBetween [] | R => IEnd end
  | IBegin => IBegin
  end.
Proof.
  intros c l k v r d p. unfold inext. cbn [subtree]. fold (child d l r).
  destruct (subtree (child d l r) p) as [[|c1 l1 k1 v1 [|c2 l2 k2 v2 r2]]|];
    cbn [rev]; try apply climb_next_snoc.
  reflexivity.
Qed.

Lemma iprev_cons : forall c l k v r d p,
  iprev (T c l k v r) (IBetween (d :: p)) =
  match iprev (child d l r) (IBetween p) with
  | IBetween q => IBetween (d :: q)
  | IBegin => match d with R => IBetween [] | L => IBegin end
  | IEnd => IEnd
  end.
Proof.
  intros c l k v r d p. unfold iprev. cbn [subtree]. fold (child d l r).
  destruct (subtree (child d l r) p) as [[|c1 [|c2 l2 k2 v2 r2] k1 v1 r1]|];
    cbn [rev]; try apply climb_prev_snoc.
  reflexivity.
Qed.

(* --- the step lemmas --- *)
Theorem inext_spec : forall p t, subtree t p <> None ->
  match inext t (IBetween p) with
  | IBetween q => subtree t q <> None /\ rank t q = S (rank t p)
  | IEnd => S (rank t p) = count t
  | IBegin => False
  end.
Proof.
  induction p as [|d p IH]; intros t H.
  - destruct t as [|c l k v r]; cbn [subtree] in H; [congruence|].
    unfold inext. cbn [subtree]. destruct r as [|c1 l1 k1 v1 r1].
    + cbn [rev climb_next rank count]. lia.
    + remember (T c1 l1 k1 v1 r1) as r' eqn:Er.
      assert (Hr : r' <> E) by (subst; discriminate).
      destruct (leftmost_path_spec r' Hr) as [H1 H2].
      cbn [app subtree rank]. split; [exact H1|lia].
  - destruct t as [|c l k v r]; cbn [subtree] in H; [congruence|].
    rewrite inext_cons. fold (child d l r) in H.
    specialize (IH (child d l r) H).
    destruct (inext (child d l r) (IBetween p)) as [| |q]; [contradiction| |].
    + destruct d; cbn [child] in IH; cbn [subtree rank count].
      * split; [discriminate|lia].
      * lia.
    + destruct IH as [IH1 IH2]. destruct d; cbn [child] in IH1, IH2; cbn [subtree rank].
      * split; [exact IH1|lia].
      * split; [exact IH1|lia].
Qed.

Theorem iprev_spec : forall p t, subtree t p <> None ->
  match iprev t (IBetween p) with
  | IBetween q => subtree t q <> None /\ S (rank t q) = rank t p
  | IBegin => rank t p = 0%nat
  | IEnd => False
  end.
Proof.
  induction p as [|d p IH]; intros t H.
  - destruct t as [|c l k v r]; cbn [subtree] in H; [congruence|].
    unfold iprev. cbn [subtree]. destruct l as [|c1 l1 k1 v1 r1].
    + cbn [rev climb_prev rank count]. reflexivity.
    + remember (T c1 l1 k1 v1 r1) as l' eqn:El.
      assert (Hl : l' <> E) by (subst; discriminate).
      destruct (rightmost_path_spec l' Hl) as [H1 H2].
      cbn [app subtree rank]. split; [exact H1|lia].
  - destruct t as [|c l k v r]; cbn [subtree] in H; [congruence|].
    rewrite iprev_cons. fold (child d l r) in H.
    specialize (IH (child d l r) H).
    destruct (iprev (child d l r) (IBetween p)) as [| |q]; [|contradiction|].
    + destruct d; cbn [child] in IH; cbn [subtree rank count].
      * exact IH.
      * split; [discriminate|lia].
    + destruct IH as [IH1 IH2]. destruct d; cbn [child] in IH1, IH2; cbn [subtree rank].
      * split; [exact IH1|lia].
      * split; [exact IH1|lia].
Qed.

(* from the two ends *)
Theorem inext_begin : forall t,
  match inext t IBegin with
  | IBetween q => subtree t q <> None /\ rank t q = 0%nat
  | IEnd => t = E
  | IBegin => False
  end.
Proof.
  intros t. destruct t as [|c l k v r]; cbn [inext]; [reflexivity|].
  apply leftmost_path_spec. discriminate.
Qed.

Theorem iprev_end : forall t,
  match iprev t IEnd with
  | IBetween q => subtree t q <> None /\ S (rank t q) = count t
  | IBegin => t = E
  | IEnd => False
  end.
Proof.
  intros t. destruct t as [|c l k v r]; cbn [iprev]; [reflexivity|].
  apply rightmost_path_spec. discriminate.
Qed.

Lemma inext_end : forall t, inext t IEnd = IEnd.
Proof. reflexivity. Qed.
Lemma iprev_begin : forall t, iprev t IBegin = IBegin.
Proof. reflexivity. Qed.

(* --- abstraction to cursor positions --- *)
Definition pos_of (t : tree) (it : ipos) : Z :=
  match it with
  | IBegin => -1
  | IEnd => Z.of_nat (count t)
  | IBetween p => Z.of_nat (rank t p)
  end.
Definition valid (t : tree) (it : ipos) : Prop :=
  match it with IBetween p => subtree t p <> None | _ => True end.
Definition is_between (it : ipos) : bool := match it with IBetween _ => true | _ => false end.

Lemma pos_of_range : forall t it, valid t it -> -1 <= pos_of t it <= cn (inorder t).
Proof.
  intros t it H. rewrite cn_inorder. destruct it as [| |p]; cbn [pos_of]; try lia.
  pose proof (rank_lt t p H). lia.
Qed.

Lemma is_between_in : forall t it, valid t it -> is_between it = c_in (inorder t) (pos_of t it).
Proof.
  intros t it H. unfold c_in. rewrite cn_inorder. destruct it as [| |p]; cbn [pos_of is_between].
  - reflexivity.
  - rewrite Z.ltb_irrefl. symmetry. apply andb_false_r.
  - pose proof (rank_lt t p H) as Hlt. symmetry. apply andb_true_iff. split.
    + apply Z.leb_le. lia.
    + apply Z.ltb_lt. lia.
Qed.

Lemma inext_pos : forall t it, valid t it ->
  valid t (inext t it) /\ pos_of t (inext t it) = c_next (inorder t) (pos_of t it).
Proof.
  intros t it H. unfold c_next. rewrite cn_inorder. destruct it as [| |p].
  - pose proof (inext_begin t) as Hb. cbn [pos_of].
    destruct (inext t IBegin) as [| |q]; [contradiction| |].
    + subst t. cbn. split; [exact I|reflexivity].
    + destruct Hb as [Hb1 Hb2]. cbn [valid pos_of]. split; [exact Hb1|].
      rewrite Hb2. destruct (-1 <? Z.of_nat (count t)) eqn:E; [reflexivity|apply Z.ltb_ge in E; lia].
  - cbn [inext valid pos_of]. rewrite Z.ltb_irrefl. split; [exact I|reflexivity].
  - cbn [valid] in H. pose proof (inext_spec p t H) as Hs. pose proof (rank_lt t p H) as Hlt.
    cbn [pos_of]. destruct (Z.of_nat (rank t p) <? Z.of_nat (count t)) eqn:E;
      [|apply Z.ltb_ge in E; lia].
    destruct (inext t (IBetween p)) as [| |q]; [contradiction| |].
    + cbn [valid pos_of]. split; [exact I|lia].
    + destruct Hs as [Hs1 Hs2]. cbn [valid pos_of]. split; [exact Hs1|lia].
Qed.

Lemma iprev_pos : forall t it, valid t it ->
  valid t (iprev t it) /\ pos_of t (iprev t it) = c_prev (pos_of t it).
Proof.
  intros t it H. unfold c_prev. destruct it as [| |p].
  - cbn [iprev valid pos_of]. split; [exact I|reflexivity].
  - pose proof (iprev_end t) as Hb. cbn [pos_of].
    destruct (0 <=? Z.of_nat (count t)) eqn:E; [|apply Z.leb_gt in E; lia].
    destruct (iprev t IEnd) as [| |q]; [|contradiction|].
    + subst t. cbn. split; [exact I|reflexivity].
    + destruct Hb as [Hb1 Hb2]. cbn [valid pos_of]. split; [exact Hb1|lia].
  - cbn [valid] in H. pose proof (iprev_spec p t H) as Hs.
    cbn [pos_of]. destruct (0 <=? Z.of_nat (rank t p)) eqn:E; [|apply Z.leb_gt in E; lia].
    destruct (iprev t (IBetween p)) as [| |q]; [|contradiction|].
    + cbn [valid pos_of]. split; [exact I|lia].
    + destruct Hs as [Hs1 Hs2]. cbn [valid pos_of]. split; [exact Hs1|lia].
Qed.

Lemma rb_next_ok : forall t it, valid t it ->
  exists it', rb_next t it = Some (it', c_in (inorder t) (c_next (inorder t) (pos_of t it))) /\
              valid t it' /\ pos_of t it' = c_next (inorder t) (pos_of t it).
Proof.
  intros t it H. destruct (inext_pos t it H) as [Hv Hp].
  exists (inext t it). split; [|split; assumption].
  unfold rb_next. fold (is_between (inext t it)). rewrite (is_between_in t _ Hv), Hp. reflexivity.
Qed.

Lemma rb_prev_ok : forall t it, valid t it ->
  exists it', rb_prev t it = Some (it', c_in (inorder t) (c_prev (pos_of t it))) /\
              valid t it' /\ pos_of t it' = c_prev (pos_of t it).
Proof.
  intros t it H. destruct (iprev_pos t it H) as [Hv Hp].
  exists (iprev t it). split; [|split; assumption].
  unfold rb_prev. fold (is_between (iprev t it)). rewrite (is_between_in t _ Hv), Hp. reflexivity.
Qed.

Lemma ikv_ok : forall t it, valid t it -> c_in (inorder t) (pos_of t it) = true ->
  ikv t it = nth_error (inorder t) (Z.to_nat (pos_of t it)).
Proof.
  intros t it H Hin. rewrite <- (is_between_in t it H) in Hin.
  destruct it as [| |p]; cbn [is_between] in Hin; try discriminate.
  cbn [valid] in H. destruct (subtree_T t p H) as (c & l & k & v & r & Hs).
  cbn [ikv pos_of]. rewrite Hs, Nat2Z.id. symmetry. exact (nth_rank _ _ _ _ _ _ _ Hs).
Qed.

(* --- the simulation theorems --- *)
Theorem rb_run_from : forall t fuel it cs, (count t + 2 <= fuel)%nat -> valid t it ->
  run_script ipos (rb_next t) (rb_prev t) (fun _ => IBegin) (fun _ => IEnd) (ikv t) true fuel it cs =
  cursor_run (inorder t) true (pos_of t it) cs.
Proof.
  intros t fuel it cs Hf Hv.
  apply (sim_run ipos (rb_next t) (rb_prev t) (fun _ => IBegin) (fun _ => IEnd) (ikv t) true
           (inorder t) (valid t) (pos_of t)).
  - apply pos_of_range.
  - apply rb_next_ok.
  - apply rb_prev_ok.
  - intros s _. split; [exact I|reflexivity].
  - intros s _. split; [exact I|]. cbn [pos_of]. symmetry. apply cn_inorder.
  - apply ikv_ok.
  - rewrite length_inorder. exact Hf.
  - exact Hv.
Qed.

Theorem rb_iter_script : forall t fuel cs, (count t + 2 <= fuel)%nat ->
  run_script ipos (rb_next t) (rb_prev t) (fun _ => IBegin) (fun _ => IEnd) (ikv t) true fuel IBegin cs =
  cursor_script (inorder t) true cs.
Proof. intros t fuel cs Hf. exact (rb_run_from t fuel IBegin cs Hf I). Qed.

Theorem rb_walk_forward : forall t fuel, (count t + 2 <= fuel)%nat ->
  walk ipos (ikv t) (rb_next t) fuel IBegin = Some (inorder t).
Proof.
  intros t fuel Hf.
  rewrite (sim_walk_next ipos (rb_next t) (ikv t) (inorder t) (valid t) (pos_of t)
             (pos_of_range t) (rb_next_ok t) (ikv_ok t) fuel IBegin I).
  - reflexivity.
  - rewrite cn_inorder. cbn [pos_of]. lia.
Qed.

Theorem rb_walk_backward : forall t fuel, (count t + 2 <= fuel)%nat ->
  walk ipos (ikv t) (rb_prev t) fuel IEnd = Some (rev (inorder t)).
Proof.
  intros t fuel Hf.
  rewrite (sim_walk_prev ipos (rb_prev t) (ikv t) (inorder t) (valid t) (pos_of t)
             (pos_of_range t) (rb_prev_ok t) (ikv_ok t) fuel IEnd I).
  - cbn [pos_of]. rewrite Nat2Z.id, <- length_inorder, firstn_all. reflexivity.
  - cbn [pos_of]. lia.
Qed.
End RBIter.

(* ====================================================================================== *)
(* Part 4: TreeSet's iterator, and the machine-level statements                             *)
(* ====================================================================================== *)
(* TreeSet reports (index, element): the element list paired with positions *)
Fixpoint indexed_from (i : Z) (ks : list Z) : list (Z * Z) :=
  match ks with [] => [] | k :: ks' => (i, k) :: indexed_from (i + 1) ks' end.
Definition indexed (ks : list Z) : list (Z * Z) := indexed_from 0 ks.

Lemma length_indexed_from : forall ks i, length (indexed_from i ks) = length ks.
Proof. induction ks as [|k ks IH]; intros i; cbn [indexed_from length]; [reflexivity|]. rewrite IH. reflexivity. Qed.

Lemma nth_error_indexed_from : forall ks i j k,
  nth_error ks j = Some k -> nth_error (indexed_from i ks) j = Some (i + Z.of_nat j, k).
Proof.
  induction ks as [|x ks IH]; intros i j k H; destruct j as [|j]; cbn [nth_error indexed_from] in *;
    try discriminate.
  - inversion H; subst. do 2 f_equal. lia.
  - rewrite (IH (i + 1) j k H). do 2 f_equal. lia.
Qed.

Lemma map_snd_indexed_from : forall ks i, map snd (indexed_from i ks) = ks.
Proof. induction ks as [|k ks IH]; intros i; cbn [indexed_from map snd]; [reflexivity|]. rewrite IH. reflexivity. Qed.

Module TSIter.
Import RBTree RBIter.

Section TS.
Variable t : tree.
Let n : Z := Z.of_nat (count t).
Let l : list (Z * Z) := indexed (keys t).

Definition ts_ok (s : Z * ipos) : Prop := valid t (snd s) /\ fst s = pos_of t (snd s).

Lemma cn_indexed : cn l = Z.of_nat (count t).
Proof.
  unfold cn, l, indexed, keys. rewrite length_indexed_from, map_length, length_inorder. reflexivity.
Qed.

Lemma c_in_indexed : forall p, c_in l p = c_in (inorder t) p.
Proof. intros p. unfold c_in. rewrite cn_indexed, cn_inorder. reflexivity. Qed.
Lemma c_next_indexed : forall p, c_next l p = c_next (inorder t) p.
Proof. intros p. unfold c_next. rewrite cn_indexed, cn_inorder. reflexivity. Qed.

Lemma ts_next_ok : forall s, ts_ok s ->
  exists s', ts_next t n s = Some (s', c_in l (c_next l (fst s))) /\ ts_ok s' /\ fst s' = c_next l (fst s).
Proof.
  intros [i it] [Hv Hi]. cbn [fst snd] in *.
  destruct (rb_next_ok t it Hv) as (it' & Hn & Hv' & Hp').
  exists (c_next l i, it'). unfold ts_next. rewrite Hn. split; [|split].
  - unfold c_next at 2. rewrite cn_indexed. fold n.
    rewrite c_in_indexed, c_next_indexed, Hi. reflexivity.
  - split; cbn [fst snd]; [exact Hv'|]. rewrite Hp', c_next_indexed, Hi. reflexivity.
  - reflexivity.
Qed.

Lemma ts_prev_ok : forall s, ts_ok s ->
  exists s', ts_prev t s = Some (s', c_in l (c_prev (fst s))) /\ ts_ok s' /\ fst s' = c_prev (fst s).
Proof.
  intros [i it] [Hv Hi]. cbn [fst snd] in *.
  destruct (rb_prev_ok t it Hv) as (it' & Hn & Hv' & Hp').
  exists (c_prev i, it'). unfold ts_prev. rewrite Hn. split; [|split].
  - rewrite c_in_indexed, Hi. reflexivity.
  - split; cbn [fst snd]; [exact Hv'|]. rewrite Hp', Hi. reflexivity.
  - reflexivity.
Qed.

Lemma ts_cur_ok : forall s, ts_ok s -> c_in l (fst s) = true -> ts_cur t s = nth_error l (Z.to_nat (fst s)).
Proof.
  intros [i it] [Hv Hi] Hin. cbn [fst snd] in *. subst i.
  rewrite c_in_indexed in Hin. unfold ts_cur. cbn [fst snd].
  rewrite (ikv_ok t it Hv Hin).
  destruct (c_elem_in (inorder t) _ Hin) as (k & v & _ & Hnth). rewrite Hnth.
  symmetry. unfold l, indexed, keys.
  rewrite (nth_error_indexed_from _ 0 _ k).
  - f_equal. f_equal. apply c_in_iff in Hin. lia.
  - rewrite (map_nth_error fst _ _ Hnth). reflexivity.
Qed.

Lemma ts_range : forall s, ts_ok s -> -1 <= fst s <= cn l.
Proof.
  intros [i it] [Hv Hi]. cbn [fst snd] in *. rewrite cn_indexed, Hi, <- cn_inorder.
  apply pos_of_range. exact Hv.
Qed.

Lemma ts_begin_ok : forall s, ts_ok s -> ts_ok (ts_begin s) /\ fst (ts_begin s) = -1.
Proof. intros s _. split; [split; [exact I|reflexivity]|reflexivity]. Qed.
Lemma ts_end_ok : forall s, ts_ok s -> ts_ok (ts_end n s) /\ fst (ts_end n s) = cn l.
Proof.
  intros s _. split; [split; [exact I|reflexivity]|]. cbn [ts_end fst]. symmetry. apply cn_indexed.
Qed.

Theorem ts_iter_script : forall fuel cs, (count t + 2 <= fuel)%nat ->
  run_script (Z * ipos) (ts_next t n) (ts_prev t) ts_begin (ts_end n) (ts_cur t) true fuel (-1, IBegin) cs =
  cursor_script l true cs.
Proof.
  intros fuel cs Hf.
  apply (sim_run (Z * ipos) (ts_next t n) (ts_prev t) ts_begin (ts_end n) (ts_cur t) true l ts_ok fst
           ts_range ts_next_ok ts_prev_ok ts_begin_ok ts_end_ok ts_cur_ok fuel cs (-1, IBegin)).
  - unfold l, indexed, keys. rewrite length_indexed_from, map_length, length_inorder. exact Hf.
  - split; [exact I|reflexivity].
Qed.

Theorem ts_walk_forward : forall fuel, (count t + 2 <= fuel)%nat ->
  walk (Z * ipos) (ts_cur t) (ts_next t n) fuel (-1, IBegin) = Some l.
Proof.
  intros fuel Hf.
  rewrite (sim_walk_next (Z * ipos) (ts_next t n) (ts_cur t) l ts_ok fst
             ts_range ts_next_ok ts_cur_ok fuel (-1, IBegin)).
  - reflexivity.
  - split; [exact I|reflexivity].
  - rewrite cn_indexed. cbn [fst]. lia.
Qed.
End TS.
End TSIter.

(* ---------- machine level ---------- *)
(* the hypothesis n = count t is an invariant of the reachable states (cached Tree.size) *)
Lemma run_iter_rb_gen : forall c t n cs, ckind c <> TreeSet -> n = Z.of_nat (RB.count t) ->
  run_iter c (StRB t n) cs = cursor_script (RB.inorder t) true cs.
Proof.
  intros c t n cs Hk Hn. subst n. unfold run_iter, script_fuel, size_of. rewrite Nat2Z.id.
  destruct (ckind c); try congruence; apply RBIter.rb_iter_script; lia.
Qed.

Theorem run_iter_rb : forall c t n cs, ckind c = RedBlackTree \/ ckind c = TreeMap ->
  n = Z.of_nat (RB.count t) ->
  run_iter c (StRB t n) cs = cursor_script (RB.inorder t) true cs.
Proof.
  intros c t n cs Hk Hn. apply run_iter_rb_gen; [|exact Hn]. destruct Hk as [Hk|Hk]; rewrite Hk; discriminate.
Qed.

Theorem run_iter_treeset : forall c t n cs, ckind c = TreeSet -> n = Z.of_nat (RB.count t) ->
  run_iter c (StRB t n) cs = cursor_script (indexed (RB.keys t)) true cs.
Proof.
  intros c t n cs Hk Hn. subst n. unfold run_iter, script_fuel, size_of. rewrite Nat2Z.id, Hk.
  apply TSIter.ts_iter_script. lia.
Qed.

Theorem run_iter_treebidi : forall c f fn i inn cs, fn = Z.of_nat (RB.count f) ->
  run_iter c (StTBidi f fn i inn) cs = cursor_script (RB.inorder f) true cs.
Proof.
  intros c f fn i inn cs Hn. subst fn. unfold run_iter, script_fuel, size_of. rewrite Nat2Z.id.
  apply RBIter.rb_iter_script. lia.
Qed.

Theorem each_of_rb : forall c t n, ckind c <> TreeSet -> n = Z.of_nat (RB.count t) ->
  each_of c (StRB t n) = Some (RB.inorder t).
Proof.
  intros c t n Hk Hn. subst n. unfold each_of, script_fuel, size_of. rewrite Nat2Z.id.
  destruct (ckind c); try congruence; apply RBIter.rb_walk_forward; lia.
Qed.

Theorem each_of_treeset : forall c t n, ckind c = TreeSet -> n = Z.of_nat (RB.count t) ->
  each_of c (StRB t n) = Some (indexed (RB.keys t)).
Proof.
  intros c t n Hk Hn. subst n. unfold each_of, script_fuel, size_of. rewrite Nat2Z.id, Hk.
  apply TSIter.ts_walk_forward. lia.
Qed.

Theorem each_back_rb : forall c t n, n = Z.of_nat (RB.count t) ->
  each_back c (StRB t n) = Some (rev (RB.inorder t)).
Proof.
  intros c t n Hn. subst n. unfold each_back, script_fuel, size_of. rewrite Nat2Z.id.
  apply RBIter.rb_walk_backward. lia.
Qed.

Theorem each_of_treebidi : forall c f fn i inn, fn = Z.of_nat (RB.count f) ->
  each_of c (StTBidi f fn i inn) = Some (RB.inorder f).
Proof.
  intros c f fn i inn Hn. subst fn. unfold each_of, script_fuel, size_of. rewrite Nat2Z.id.
  apply RBIter.rb_walk_forward. lia.
Qed.

Theorem each_back_treebidi : forall c f fn i inn, fn = Z.of_nat (RB.count f) ->
  each_back c (StTBidi f fn i inn) = Some (rev (RB.inorder f)).
Proof.
  intros c f fn i inn Hn. subst fn. unfold each_back, script_fuel, size_of. rewrite Nat2Z.id.
  apply RBIter.rb_walk_backward. lia.
Qed.

(* the sequences enumerated are exactly the container's Values() / Keys() *)
Lemma treeset_values_indexed : forall t, map snd (indexed (RB.keys t)) = RB.keys t.
Proof. intros t. apply map_snd_indexed_from. Qed.
