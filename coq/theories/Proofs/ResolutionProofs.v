(* Property C12, the order in which a decoded JSON object is re-inserted.

   The Go loaders of TreeMap, RedBlackTree, AVLTree, BTree, HashMap and of the two bidirectional maps
   decode the document into a Go map (exact-duplicate member names collapse, last wins: this is
   [sort_entries kvs], pairwise different keys) and then RANGE OVER THAT GO MAP calling Put for every
   pair - in an unspecified order.  The executable model ([Machine.from_json]) fixes one order, ascending
   by key: [put_entries c (sort_entries kvs) (init c)].  This file proves what EVERY order gives:

     [load c p := put_entries c p (init c)]   for ANY [p] with [Permutation p (sort_entries kvs)].

   Contents
     1. lists: [find] on a reversed list; representatives of the classes of a comparator ([reps], [nclasses])
     2. the ordered / hash key-value kinds on the list level: [inss cmp p []] is a valid resolution of the
        document, whatever [p]; the survivor of a class is its LAST member in [p]
     3. the boolean checkers [resolutionb] / [bidi_resolutionb] and their specifications (iff)
     4. machine level, TreeMap / RedBlackTree / AVLTree / BTree / HashMap
     5. machine level, HashBidiMap / TreeBidiMap
     6. [valid_resolutionb c doc result] accepts every order
     7. prior content, continuations
     8. documents without ties: the result does not depend on the order at all
     9. refuted statements (what DOES depend on the order) *)
From Coq Require Import ZArith List Lia Bool Arith Sorted SetoidList Permutation SetoidPermutation RelationClasses.
From Gods Require Import Common.Cmp Common.ListAux Spec.SeqSpec Spec.MapSpec Model.Ops Model.Lists Model.Machine.
From Gods Require Import Proofs.MapSpecProofs.
From Gods Require Proofs.MachineMaps Proofs.BidiProofs Proofs.MachineInv Proofs.JsonProofs.
Import ListNotations.
Local Open Scope Z_scope.

Module MM := Proofs.MachineMaps.
Module BP := Proofs.BidiProofs.
Module MI := Proofs.MachineInv.
Module JP := Proofs.JsonProofs.

(* ================================================================================================ *)
(* 1. lists                                                                                         *)
(* ================================================================================================ *)
Lemma find_split : forall A (f : A -> bool) l x,
  find f l = Some x <->
  exists l1 l2, l = l1 ++ x :: l2 /\ f x = true /\ forall y, In y l1 -> f y = false.
Proof.
  intros A f l x. induction l as [|a l IH].
  - split; [discriminate|]. intros (l1 & l2 & E & _). destruct l1; discriminate E.
  - cbn [find]. destruct (f a) eqn:Fa.
    + split.
      * intros E. inversion E; subst a. exists [], l. split; [reflexivity|]. split; [exact Fa|]. intros y [].
      * intros (l1 & l2 & E & Fx & Hl1). destruct l1 as [|b l1].
        -- cbn [app] in E. inversion E. reflexivity.
        -- cbn [app] in E. inversion E; subst b. rewrite (Hl1 a (or_introl eq_refl)) in Fa. discriminate.
    + rewrite IH. split.
      * intros (l1 & l2 & E & Fx & Hl1). exists (a :: l1), l2. split; [rewrite E; reflexivity|].
        split; [exact Fx|]. intros y [<-|Hy]; [exact Fa|apply Hl1; exact Hy].
      * intros (l1 & l2 & E & Fx & Hl1). destruct l1 as [|b l1].
        -- cbn [app] in E. inversion E; subst a. rewrite Fx in Fa. discriminate.
        -- cbn [app] in E. inversion E; subst b. exists l1, l2. split; [reflexivity|].
           split; [exact Fx|]. intros y Hy. apply Hl1. right. exact Hy.
Qed.

Lemma rev_app_cons : forall A (a b : list A) x, rev (a ++ x :: b) = rev b ++ x :: rev a.
Proof. intros A a b x. rewrite rev_app_distr. cbn [rev]. rewrite <- app_assoc. reflexivity. Qed.

(* the LAST element satisfying f *)
Lemma find_rev_split : forall A (f : A -> bool) p x,
  find f (rev p) = Some x <->
  exists p1 p2, p = p1 ++ x :: p2 /\ f x = true /\ forall y, In y p2 -> f y = false.
Proof.
  intros A f p x. rewrite find_split. split.
  - intros (l1 & l2 & E & Fx & Hl). exists (rev l2), (rev l1).
    split; [rewrite <- (rev_involutive p), E; apply rev_app_cons|].
    split; [exact Fx|]. intros y Hy. apply Hl. apply in_rev. exact Hy.
  - intros (p1 & p2 & E & Fx & Hl). exists (rev p2), (rev p1).
    split; [rewrite E; apply rev_app_cons|]. split; [exact Fx|].
    intros y Hy. apply Hl. apply in_rev. exact Hy.
Qed.

Lemma StronglySorted_ext : forall A (R1 R2 : A -> A -> Prop), (forall a b, R1 a b <-> R2 a b) ->
  forall l, StronglySorted R1 l <-> StronglySorted R2 l.
Proof.
  intros A R1 R2 H l. induction l as [|x l IH].
  - split; intros _; constructor.
  - split; intros S; apply StronglySorted_inv in S; destruct S as [S F]; constructor;
      try (apply IH; exact S); rewrite Forall_forall in *; intros y Hy; apply H; apply F; exact Hy.
Qed.

(* all ordered pairs, boolean *)
Fixpoint pairwiseb {A} (r : A -> A -> bool) (l : list A) : bool :=
  match l with [] => true | x :: l' => forallb (r x) l' && pairwiseb r l' end.

Lemma pairwiseb_spec : forall A (r : A -> A -> bool) l,
  pairwiseb r l = true <-> StronglySorted (fun a b => r a b = true) l.
Proof.
  intros A r l. induction l as [|x l IH]; cbn [pairwiseb].
  - split; intros _; [constructor|reflexivity].
  - rewrite andb_true_iff, forallb_forall, IH. split.
    + intros [F S]. constructor; [exact S|]. rewrite Forall_forall. exact F.
    + intros S. apply StronglySorted_inv in S. destruct S as [S F]. rewrite Forall_forall in F. split; assumption.
Qed.

Definition entry_eqb (a b : entry) : bool := (fst a =? fst b) && (snd a =? snd b).

Lemma entry_eqb_eq : forall a b, entry_eqb a b = true <-> a = b.
Proof.
  intros [a1 a2] [b1 b2]. unfold entry_eqb. cbn [fst snd]. rewrite andb_true_iff, !Z.eqb_eq.
  split; [intros [-> ->]; reflexivity|intros E; inversion E; split; reflexivity].
Qed.

Definition memb (e : entry) (l : list entry) : bool := existsb (entry_eqb e) l.

Lemma memb_In : forall e l, memb e l = true <-> In e l.
Proof.
  intros e l. unfold memb. rewrite existsb_exists. split.
  - intros (x & Hx & E). apply entry_eqb_eq in E. subst x. exact Hx.
  - intros H. exists e. split; [exact H|apply entry_eqb_eq; reflexivity].
Qed.

Lemma is_eq_true : forall c, is_eq c = true <-> c = Eq.
Proof. intros []; cbn [is_eq]; split; congruence. Qed.
Lemma is_eq_false : forall c, is_eq c = false <-> c <> Eq.
Proof. intros []; cbn [is_eq]; split; congruence. Qed.
Lemma is_lt_true : forall c, is_lt c = true <-> c = Lt.
Proof. intros []; cbn [is_lt]; split; congruence. Qed.

(* a duplicate-free list all of whose members are one element is that singleton *)
Lemma NoDup_all_same : forall A (l : list A) r, NoDup l -> In r l -> (forall x, In x l -> x = r) -> l = [r].
Proof.
  intros A l r Hnd Hr Hall. destruct l as [|a l]; [destruct Hr|].
  assert (a = r) by (apply Hall; left; reflexivity). subst a.
  destruct l as [|b l]; [reflexivity|]. exfalso.
  assert (b = r) by (apply Hall; right; left; reflexivity). subst b.
  inversion Hnd as [|? ? Hn _]. apply Hn. left. reflexivity.
Qed.

Lemma PermutationA_len : forall A (eqA : A -> A -> Prop) l1 l2, PermutationA eqA l1 l2 -> length l1 = length l2.
Proof.
  intros A eqA l1 l2 H. induction H as [|x y l1 l2 _ _ IH|x y l|l1 l2 l3 _ IH1 _ IH2]; cbn [length]; congruence.
Qed.

(* ---------- the classes of a comparator: representatives, number ---------- *)
Section Classes.
Variable cmp : cmpf.
Hypothesis Hswo : SWO cmp.

Definition tie (a b : Z) : Prop := cmp a b = Eq.

Lemma tie_equiv : Equivalence tie.
Proof.
  constructor.
  - intros x. apply (c_refl cmp Hswo).
  - intros x y. apply (c_eq_sym cmp Hswo).
  - intros x y z. apply (c_eq_trans cmp Hswo).
Qed.

(* first occurrences of the classes *)
Fixpoint reps (ks : list Z) : list Z :=
  match ks with
  | [] => []
  | k :: ks' => k :: filter (fun x => BP.neqb cmp x k) (reps ks')
  end.
Definition nclasses (ks : list Z) : nat := length (reps ks).

Lemma reps_In : forall ks x, In x (reps ks) -> In x ks.
Proof.
  induction ks as [|k ks IH]; intros x H; [exact H|]. cbn [reps] in H. destruct H as [<-|H]; [left; reflexivity|].
  right. apply IH. apply filter_In in H. apply H.
Qed.

Lemma reps_cover : forall ks k, In k ks -> exists r, In r (reps ks) /\ tie k r.
Proof.
  induction ks as [|k0 ks IH]; intros k H; [destruct H|]. cbn [reps]. destruct H as [<-|H].
  - exists k0. split; [left; reflexivity|apply (c_refl cmp Hswo)].
  - destruct (IH k H) as (r & Hr & T). destruct (cmp r k0) eqn:C.
    + exists k0. split; [left; reflexivity|]. exact (c_eq_trans cmp Hswo _ _ _ T C).
    + exists r. split; [|exact T]. right. apply filter_In. split; [exact Hr|].
      apply BP.neqb_true. rewrite C. discriminate.
    + exists r. split; [|exact T]. right. apply filter_In. split; [exact Hr|].
      apply BP.neqb_true. rewrite C. discriminate.
Qed.

Lemma NoDupA_filter_tie : forall (f : Z -> bool) l, NoDupA tie l -> NoDupA tie (filter f l).
Proof.
  intros f l H. induction H as [|x l Hx Hnd IH]; [constructor|]. cbn [filter]. destruct (f x); [|exact IH].
  constructor; [|exact IH]. intros Hin. apply Hx. apply InA_alt in Hin. destruct Hin as (y & T & Hy).
  apply InA_alt. exists y. split; [exact T|]. apply filter_In in Hy. apply Hy.
Qed.

Lemma reps_nodup : forall ks, NoDupA tie (reps ks).
Proof.
  induction ks as [|k ks IH]; [constructor|]. cbn [reps]. constructor; [|apply NoDupA_filter_tie; exact IH].
  intros Hin. apply InA_alt in Hin. destruct Hin as (y & T & Hy). apply filter_In in Hy.
  destruct Hy as [_ Hy]. apply BP.neqb_true in Hy. apply Hy. apply (c_eq_sym cmp Hswo). exact T.
Qed.

(* two lists of pairwise inequivalent keys covering each other have the same length *)
Lemma class_count : forall l1 l2, NoDupA tie l1 -> NoDupA tie l2 ->
  (forall x, In x l1 -> exists y, In y l2 /\ tie x y) ->
  (forall y, In y l2 -> exists x, In x l1 /\ tie y x) -> length l1 = length l2.
Proof.
  intros l1 l2 N1 N2 H12 H21. apply (PermutationA_len Z tie).
  apply (NoDupA_equivlistA_PermutationA tie_equiv); [exact N1|exact N2|].
  intros x. rewrite !InA_alt. split.
  - intros (a & T & Ha). destruct (H12 a Ha) as (b & Hb & T'). exists b. split; [|exact Hb].
    exact (c_eq_trans cmp Hswo _ _ _ T T').
  - intros (b & T & Hb). destruct (H21 b Hb) as (a & Ha & T'). exists a. split; [|exact Ha].
    exact (c_eq_trans cmp Hswo _ _ _ T T').
Qed.

(* the number of classes does not depend on the order of the list *)
Lemma nclasses_perm : forall l1 l2, Permutation l1 l2 -> nclasses l1 = nclasses l2.
Proof.
  intros l1 l2 P. unfold nclasses. apply class_count; try apply reps_nodup.
  - intros x Hx. apply reps_cover. apply (Permutation_in _ P). apply reps_In. exact Hx.
  - intros y Hy. apply reps_cover. apply (Permutation_in _ (Permutation_sym P)). apply reps_In. exact Hy.
Qed.

(* without ties every key is its own class *)
Lemma nclasses_no_tie : forall ks, NoDupA tie ks -> nclasses ks = length ks.
Proof.
  intros ks N. unfold nclasses. apply class_count; [apply reps_nodup|exact N| |].
  - intros x Hx. exists x. split; [apply reps_In; exact Hx|apply (c_refl cmp Hswo)].
  - intros y Hy. apply reps_cover. exact Hy.
Qed.

End Classes.

(* ================================================================================================ *)
(* 2. key-value kinds, list level: inserting a document in ANY order                                *)
(* ================================================================================================ *)
(* [result] is an acceptable content for a container ordered by [cmp] loaded from [doc]:
   (a) keys strictly ascending under cmp - in particular no two stored keys tie;
   (b) every stored pair is, exactly, a pair of the document;
   (c) every class of document keys is represented by exactly one stored pair;
   (d) as many pairs as the document has classes of keys. *)
Definition valid_resolution (cmp : cmpf) (doc result : list entry) : Prop :=
  ksorted cmp result /\
  (forall e, In e result -> In e doc) /\
  (forall e, In e doc -> exists r, In r result /\ cmp (fst e) (fst r) = Eq /\
                                   forall r', In r' result -> cmp (fst e) (fst r') = Eq -> r' = r) /\
  length result = nclasses cmp (map fst doc).

Section Resolution.
Variable cmp : cmpf.
Hypothesis Hswo : SWO cmp.

Notation inss := (JP.inss cmp).

(* (d) follows from (a), (b) and a representative for every document key *)
Lemma resolution_size : forall doc result, ksorted cmp result ->
  (forall e, In e result -> In e doc) ->
  (forall e, In e doc -> exists r, In r result /\ cmp (fst e) (fst r) = Eq) ->
  length result = nclasses cmp (map fst doc).
Proof.
  intros doc result Hs Hb Hc. rewrite <- (@map_length entry Z fst result). unfold nclasses.
  apply (class_count cmp Hswo).
  - apply (ksorted_keys_nodupA cmp). exact Hs.
  - apply (reps_nodup cmp Hswo).
  - intros x Hx. apply in_map_iff in Hx. destruct Hx as (r & <- & Hr).
    apply (reps_cover cmp Hswo). apply in_map. apply Hb. exact Hr.
  - intros y Hy. apply reps_In in Hy. apply in_map_iff in Hy. destruct Hy as (e & <- & He).
    destruct (Hc e He) as (r & Hr & T). exists (fst r). split; [apply in_map; exact Hr|exact T].
Qed.

Lemma last_live_puts : forall q k, last_live cmp (MM.puts q) k = find_list cmp k q.
Proof.
  induction q as [|[a b] q IH]; intros k; [reflexivity|].
  cbn [MM.puts map last_live fst snd]. rewrite find_list_cons. cbn [fst]. fold (MM.puts q). rewrite IH.
  destruct (cmp k a); reflexivity.
Qed.

(* looking a key up after the inserts: the LAST pair of [p] whose key ties with it *)
Lemma find_inss : forall p k, find_list cmp k (inss p []) = find_list cmp k (rev p).
Proof.
  intros p k. rewrite (JP.inss_mstep cmp p []).
  change (fold_left (mstep cmp) (MM.puts p) []) with (mrun cmp (MM.puts p)).
  rewrite (mrun_last_live cmp Hswo). unfold MM.puts. rewrite <- map_rev. apply last_live_puts.
Qed.

Lemma inss_sorted0 : forall p, ksorted cmp (inss p []).
Proof. intros p. apply (JP.inss_sorted cmp Hswo). constructor. Qed.

Lemma In_inss_last : forall p e, In e (inss p []) <-> find_list cmp (fst e) (rev p) = Some e.
Proof.
  intros p e. rewrite (BP.In_find cmp Hswo _ e (inss_sorted0 p)), find_inss. reflexivity.
Qed.

(* a pair is stored iff no LATER pair of [p] has a key tying with its key: both key and value of the
   survivor are those of the last member of the class ([ins_list] replaces the stored key too) *)
Theorem In_inss_split : forall p e,
  In e (inss p []) <->
  exists p1 p2, p = p1 ++ e :: p2 /\ forall e', In e' p2 -> cmp (fst e) (fst e') <> Eq.
Proof.
  intros p e. rewrite In_inss_last. unfold find_list. rewrite find_rev_split. split.
  - intros (p1 & p2 & E & _ & H). exists p1, p2. split; [exact E|].
    intros e' He'. apply is_eq_false. apply H. exact He'.
  - intros (p1 & p2 & E & H). exists p1, p2. split; [exact E|].
    split; [apply is_eq_true; apply (c_refl cmp Hswo)|]. intros y Hy. apply is_eq_false. apply H. exact Hy.
Qed.

Lemma inss_subset : forall p e, In e (inss p []) -> In e p.
Proof.
  intros p e H. apply In_inss_last in H. apply (find_list_Some cmp) in H. apply in_rev. apply H.
Qed.

Lemma inss_cover : forall p e, In e p -> exists r, In r (inss p []) /\ cmp (fst e) (fst r) = Eq.
Proof.
  intros p e He. destruct (find_list cmp (fst e) (rev p)) as [r|] eqn:F.
  - exists r. rewrite <- find_inss in F. apply (find_list_Some cmp) in F. exact F.
  - exfalso. rewrite (find_list_None cmp) in F. apply (F e); [apply in_rev in He; exact He|apply (c_refl cmp Hswo)].
Qed.

(* EVERY insertion order of the document gives a valid resolution *)
Theorem inss_valid_resolution : forall doc p, Permutation p doc -> valid_resolution cmp doc (inss p []).
Proof.
  intros doc p HP.
  assert (Hb : forall e, In e (inss p []) -> In e doc).
  { intros e H. apply (Permutation_in _ HP). apply inss_subset. exact H. }
  assert (Hc : forall e, In e doc -> exists r, In r (inss p []) /\ cmp (fst e) (fst r) = Eq).
  { intros e H. apply inss_cover. apply (Permutation_in _ (Permutation_sym HP)). exact H. }
  split; [apply inss_sorted0|]. split; [exact Hb|]. split.
  - intros e He. destruct (Hc e He) as (r & Hr & T). exists r. split; [exact Hr|]. split; [exact T|].
    intros r' Hr' T'. apply (ksorted_In_eq cmp Hswo _ r' r (inss_sorted0 p) Hr' Hr).
    exact (c_eq_trans cmp Hswo _ _ _ (c_eq_sym cmp Hswo _ _ T') T).
  - apply resolution_size; [apply inss_sorted0|exact Hb|exact Hc].
Qed.

(* a document without tying keys: the result is the same for every order - all pairs, sorted *)
Theorem inss_no_tie : forall doc p, Permutation p doc ->
  (forall e1 e2, In e1 doc -> In e2 doc -> cmp (fst e1) (fst e2) = Eq -> e1 = e2) ->
  inss p [] = inss doc [] /\ (forall e, In e (inss p []) <-> In e doc) /\
  (NoDup doc -> length (inss p []) = length doc).
Proof.
  intros doc p HP Hinj.
  assert (Hd : forall e, In e (inss doc []) <-> In e doc).
  { intros e. rewrite (JP.inss_In cmp Hswo); [cbn [In]; tauto|constructor|].
    intros e1 e2 [[]|H1] [[]|H2]. apply Hinj; assumption. }
  assert (E : inss p [] = inss doc []).
  { apply (JP.inss_rebuild cmp Hswo); [apply inss_sorted0|]. intros e. rewrite Hd. split.
    - apply (Permutation_in _ HP).
    - apply (Permutation_in _ (Permutation_sym HP)). }
  split; [exact E|]. split; [intros e; rewrite E; apply Hd|].
  intros Hnd. rewrite E. apply Permutation_length. apply NoDup_Permutation; [|exact Hnd|exact Hd].
  apply (BP.ksorted_NoDup cmp Hswo). apply inss_sorted0.
Qed.

End Resolution.

(* ================================================================================================ *)
(* 3. the boolean checkers (what the Go probe evaluates on the implementation's own output)         *)
(* ================================================================================================ *)
Definition ksortedb (cmp : cmpf) (l : list entry) : bool :=
  pairwiseb (fun a b => is_lt (cmp (fst a) (fst b))) l.

Lemma ksortedb_spec : forall cmp l, ksortedb cmp l = true <-> ksorted cmp l.
Proof.
  intros cmp l. unfold ksortedb, ksorted. rewrite pairwiseb_spec. apply StronglySorted_ext.
  intros a b. apply is_lt_true.
Qed.

Lemma count_one : forall (f : entry -> bool) l, NoDup l ->
  (length (filter f l) = 1%nat <->
   exists r, In r l /\ f r = true /\ forall r', In r' l -> f r' = true -> r' = r).
Proof.
  intros f l Hnd. split.
  - intros H. destruct (filter f l) as [|r [|r2 t]] eqn:F; try discriminate H.
    assert (Hr : In r (filter f l)) by (rewrite F; left; reflexivity).
    apply filter_In in Hr. exists r. split; [apply Hr|]. split; [apply Hr|].
    intros r' H1 H2. assert (Hr' : In r' (filter f l)) by (apply filter_In; split; assumption).
    rewrite F in Hr'. destruct Hr' as [<-|[]]. reflexivity.
  - intros (r & Hr & Fr & Hu).
    rewrite (NoDup_all_same _ (filter f l) r); [reflexivity|apply NoDup_filter; exact Hnd| |].
    + apply filter_In. split; assumption.
    + intros x Hx. apply filter_In in Hx. apply Hu; apply Hx.
Qed.

(* key-value kinds: sorted, members of the document, every class represented once, size *)
Definition resolutionb (cmp : cmpf) (doc result : list entry) : bool :=
  ksortedb cmp result &&
  forallb (fun e => memb e doc) result &&
  forallb (fun e => Nat.eqb (length (filter (fun r => is_eq (cmp (fst e) (fst r))) result)) 1) doc &&
  Nat.eqb (length result) (nclasses cmp (map fst doc)).

Theorem resolutionb_spec : forall cmp, SWO cmp -> forall doc result,
  resolutionb cmp doc result = true <-> valid_resolution cmp doc result.
Proof.
  intros cmp Hswo doc result. unfold resolutionb, valid_resolution.
  rewrite !andb_true_iff, ksortedb_spec, !forallb_forall, Nat.eqb_eq.
  split.
  - intros [[[Hs Hb] Hc] Hd]. split; [exact Hs|]. split; [intros e He; apply memb_In; apply Hb; exact He|].
    split; [|exact Hd]. intros e He. specialize (Hc e He). apply Nat.eqb_eq in Hc.
    apply count_one in Hc; [|apply (BP.ksorted_NoDup cmp Hswo); exact Hs].
    destruct Hc as (r & Hr & Fr & Hu). exists r. split; [exact Hr|]. split; [apply is_eq_true; exact Fr|].
    intros r' Hr' T. apply Hu; [exact Hr'|apply is_eq_true; exact T].
  - intros (Hs & Hb & Hc & Hd). split; [|exact Hd]. split; [split; [exact Hs|]|].
    + intros e He. apply memb_In. apply Hb. exact He.
    + intros e He. apply Nat.eqb_eq. apply count_one; [apply (BP.ksorted_NoDup cmp Hswo); exact Hs|].
      destruct (Hc e He) as (r & Hr & T & Hu). exists r. split; [exact Hr|]. split; [apply is_eq_true; exact T|].
      intros r' Hr' T'. apply Hu; [exact Hr'|apply is_eq_true; exact T'].
Qed.

(* bidirectional maps.  Two pairs CONFLICT when their keys tie or their values tie: a Put evicts every
   stored pair in conflict with the new one.  What holds whatever the order:
   (a) keys strictly ascending under ck, (a') no two stored values tie under cv: one-to-one;
   (b) every stored pair is a pair of the document;
   (c) a document pair that is not stored is in conflict with ANOTHER document pair
       (so: every conflict-free pair is stored);
   (d) a non-empty document gives a non-empty map.
   Nothing more can be said from (doc, result) alone: see section 9. *)
Definition conflict (ck cv : cmpf) (e e' : entry) : Prop :=
  ck (fst e) (fst e') = Eq \/ cv (snd e) (snd e') = Eq.
Definition conflictb (ck cv : cmpf) (e e' : entry) : bool :=
  is_eq (ck (fst e) (fst e')) || is_eq (cv (snd e) (snd e')).

Lemma conflictb_spec : forall ck cv e e', conflictb ck cv e e' = true <-> conflict ck cv e e'.
Proof. intros ck cv e e'. unfold conflictb, conflict. rewrite orb_true_iff, !is_eq_true. reflexivity. Qed.

Definition valid_bidi_resolution (ck cv : cmpf) (doc result : list entry) : Prop :=
  ksorted ck result /\
  StronglySorted (fun a b => cv (snd a) (snd b) <> Eq) result /\
  (forall e, In e result -> In e doc) /\
  (forall e, In e doc -> In e result \/ exists e', In e' doc /\ e' <> e /\ conflict ck cv e e') /\
  (doc <> [] -> result <> []).

Definition bidi_resolutionb (ck cv : cmpf) (doc result : list entry) : bool :=
  ksortedb ck result &&
  pairwiseb (fun a b => negb (is_eq (cv (snd a) (snd b)))) result &&
  forallb (fun e => memb e doc) result &&
  forallb (fun e => memb e result ||
                    existsb (fun e' => negb (entry_eqb e' e) && conflictb ck cv e e') doc) doc &&
  (match doc, result with _ :: _, [] => false | _, _ => true end).

Theorem bidi_resolutionb_spec : forall ck cv doc result,
  bidi_resolutionb ck cv doc result = true <-> valid_bidi_resolution ck cv doc result.
Proof.
  intros ck cv doc result. unfold bidi_resolutionb, valid_bidi_resolution.
  rewrite !andb_true_iff, ksortedb_spec, pairwiseb_spec, !forallb_forall.
  assert (SV : StronglySorted (fun a b : entry => negb (is_eq (cv (snd a) (snd b))) = true) result <->
               StronglySorted (fun a b : entry => cv (snd a) (snd b) <> Eq) result).
  { apply StronglySorted_ext. intros a b. rewrite negb_true_iff. apply is_eq_false. }
  assert (C : forall e, (memb e result ||
                 existsb (fun e' => negb (entry_eqb e' e) && conflictb ck cv e e') doc = true) <->
              (In e result \/ exists e', In e' doc /\ e' <> e /\ conflict ck cv e e')).
  { intros e. rewrite orb_true_iff, memb_In, existsb_exists. split; (intros [H|H]; [left; exact H|right]).
    - destruct H as (e' & He' & H). apply andb_true_iff in H. destruct H as [N Cf].
      exists e'. split; [exact He'|]. split; [|apply conflictb_spec; exact Cf].
      intros ->. rewrite (proj2 (entry_eqb_eq e e) eq_refl) in N. discriminate N.
    - destruct H as (e' & He' & N & Cf). exists e'. split; [exact He'|]. apply andb_true_iff.
      split; [|apply conflictb_spec; exact Cf]. apply negb_true_iff.
      destruct (entry_eqb e' e) eqn:E; [|reflexivity]. apply entry_eqb_eq in E. contradiction. }
  assert (D : (match doc, result with _ :: _, [] => false | _, _ => true end) = true <->
              (doc <> [] -> result <> [])).
  { destruct doc as [|d doc]; destruct result as [|r result]; split; try reflexivity; try discriminate; try congruence.
    intros H. exfalso. apply H; [discriminate|reflexivity]. }
  rewrite SV, D. split.
  - intros [[[[Hs Hv] Hb] Hc] Hd]. split; [exact Hs|]. split; [exact Hv|].
    split; [intros e He; apply memb_In; apply Hb; exact He|]. split; [|exact Hd].
    intros e He. apply C. apply Hc. exact He.
  - intros (Hs & Hv & Hb & Hc & Hd). split; [|exact Hd]. split; [split; [split; [exact Hs|exact Hv]|]|].
    + intros e He. apply memb_In. apply Hb. exact He.
    + intros e He. apply C. apply Hc. exact He.
Qed.

(* per configuration: the bidirectional maps compare keys and values with == (hash) or with the two
   comparators (tree) - [BP.bk] / [BP.bv]; the other kinds with [MM.cmp_for] (== for HashMap) *)
Definition valid_resolution_c (c : config) (doc result : list entry) : Prop :=
  match ckind c with
  | HashBidiMap | TreeBidiMap => valid_bidi_resolution (BP.bk c) (BP.bv c) doc result
  | _ => valid_resolution (MM.cmp_for c) doc result
  end.

Definition valid_resolutionb (c : config) (doc result : list entry) : bool :=
  match ckind c with
  | HashBidiMap | TreeBidiMap => bidi_resolutionb (BP.bk c) (BP.bv c) doc result
  | _ => resolutionb (MM.cmp_for c) doc result
  end.

(* soundness and completeness of the checker *)
Theorem valid_resolutionb_spec : forall c doc result,
  valid_resolutionb c doc result = true <-> valid_resolution_c c doc result.
Proof.
  intros c doc result. unfold valid_resolutionb, valid_resolution_c.
  destruct (ckind c); try apply (resolutionb_spec _ (MM.cmp_for_SWO c)); apply bidi_resolutionb_spec.
Qed.

(* ================================================================================================ *)
(* 4. machine level: TreeMap, RedBlackTree, AVLTree, BTree, HashMap                                 *)
(* ================================================================================================ *)
(* the decoded Go map: pairwise different keys (==), whatever the document repeats *)
Theorem doc_keys_distinct : forall kvs, NoDup (map fst (sort_entries kvs)).
Proof. intros kvs. apply MM.ksortedZ_keys_nodup. apply JP.sort_entries_sorted. Qed.

Lemma doc_nodup : forall kvs, NoDup (sort_entries kvs).
Proof. intros kvs. apply (BP.ksorted_NoDup Z.compare Zcompare_SWO). apply JP.sort_entries_sorted. Qed.

Definition res_kind (k : kind) : bool :=
  match k with HashMap | TreeMap | RedBlackTree | AVLTree | BTree => true | _ => false end.
(* the B-tree constructor panics for order < 3 *)
Definition res_config (c : config) : Prop :=
  res_kind (ckind c) = true /\ (ckind c = BTree -> 3 <= corder c).

Lemma res_valid : forall c, res_config c -> MM.valid c.
Proof. intros c [K B]. split; [destruct (ckind c); try discriminate K; reflexivity|exact B]. Qed.
Lemma res_not_linked : forall c, res_config c -> ckind c <> LinkedHashMap.
Proof. intros c [K _] E. rewrite E in K. discriminate K. Qed.
Lemma res_is_kv : forall c, res_config c -> is_kv (ckind c) = true.
Proof. intros c [K _]. destruct (ckind c); try discriminate K; reflexivity. Qed.
Lemma res_config_ok : forall c, res_config c -> MI.config_ok c.
Proof. intros c [K B]. split; [exact B|]. intros E. rewrite E in K. discriminate K. Qed.

(* loading the pairs in the order [p] into a fresh container *)
Definition load (c : config) (p : list (Z * Z)) : state := put_entries c p (init c).

Lemma load_run : forall c p, is_kv (ckind c) = true -> load c p = run c (JP.put_ops p).
Proof. intros c p K. unfold load, run. apply JP.put_entries_run. exact K. Qed.

Lemma run_clear_first : forall c ops, MI.config_ok c -> run c (Clear :: ops) = run c ops.
Proof.
  intros c ops Hc. change (run c (Clear :: ops)) with (run_from c (fst (fst (step c (init c) Clear))) ops).
  rewrite (MI.ginv_clear_is_init c (init c) Hc (MI.ginv_init c Hc)). reflexivity.
Qed.

Lemma hist_put_ops : forall c p, MM.hist c (JP.put_ops p) = MM.puts p.
Proof.
  intros c p. induction p as [|e p IH]; [reflexivity|].
  unfold MM.hist, JP.put_ops in *. cbn [map flat_map MM.hist1 app MM.puts]. f_equal. exact IH.
Qed.

Lemma load_entries : forall c p, res_config c -> entries_of c (load c p) = JP.inss (MM.cmp_for c) p [].
Proof.
  intros c p Hc. rewrite (load_run c p (res_is_kv c Hc)).
  rewrite (MM.refines_tree c _ (res_valid c Hc) (res_not_linked c Hc)), hist_put_ops.
  unfold mrun. rewrite MM.fold_puts. reflexivity.
Qed.

(* EVERY order in which the decoded pairs are put *)
Theorem maps_any_order : forall c kvs p, res_config c -> Permutation p (sort_entries kvs) ->
  let doc := sort_entries kvs in
  let cmp := MM.cmp_for c in
  let s := load c p in
  s <> StCrash /\
  s = run c (JP.put_ops p) /\ s = run c (Clear :: JP.put_ops p) /\
  MM.minv c s /\ MI.ginv c s /\
  valid_resolution cmp doc (entries_of c s) /\
  size_of c s = Z.of_nat (length (entries_of c s)) /\
  size_of c s = Z.of_nat (nclasses cmp (map fst doc)) /\
  (forall e, In e (entries_of c s) <->
             exists p1 p2, p = p1 ++ e :: p2 /\ forall e', In e' p2 -> cmp (fst e) (fst e') <> Eq) /\
  (forall k, get_of c s k = oopt (option_map snd (find_list cmp k (rev p)))).
Proof.
  intros c kvs p Hc HP doc cmp s.
  pose proof (res_valid c Hc) as Hv. pose proof (res_config_ok c Hc) as Hok.
  pose proof (load_run c p (res_is_kv c Hc)) as Er. fold s in Er.
  pose proof (load_entries c p Hc) as Ee. fold s cmp in Ee.
  pose proof (inss_valid_resolution cmp (MM.cmp_for_SWO c) doc p HP) as VR.
  assert (Hsz : size_of c s = Z.of_nat (length (entries_of c s))).
  { rewrite Er, (MM.C01_size c _ Hv), (MM.refines_tree c _ Hv (res_not_linked c Hc)). reflexivity. }
  split; [rewrite Er; apply MM.run_not_crash; exact Hv|].
  split; [exact Er|]. split; [rewrite (run_clear_first c _ Hok); exact Er|].
  split; [rewrite Er; apply (MM.run_sim c _ Hv)|]. split; [rewrite Er; apply MI.run_ginv; exact Hok|].
  rewrite Ee. split; [exact VR|]. split; [rewrite <- Ee; exact Hsz|].
  split; [rewrite Hsz, Ee; f_equal; apply VR|].
  split; [intros e; apply (In_inss_split cmp (MM.cmp_for_SWO c))|].
  intros k. rewrite Er, (MM.C01_get c _ k Hv), hist_put_ops. unfold MM.puts. rewrite <- map_rev.
  fold (MM.puts (rev p)). rewrite last_live_puts. reflexivity.
Qed.

(* the order the executable model uses is one of them *)
Theorem model_order : forall c kvs s, res_config c -> s <> StCrash ->
  from_json c (DObj kvs) s = (load c (sort_entries kvs), true).
Proof.
  intros c kvs s [K _] Hs. unfold from_json, load.
  destruct s; try congruence; destruct (ckind c); try discriminate K; reflexivity.
Qed.

(* ================================================================================================ *)
(* 5. machine level: HashBidiMap, TreeBidiMap                                                       *)
(* ================================================================================================ *)
Lemma snoc_case : forall A (l : list A), l = [] \/ exists l' a, l = l' ++ [a].
Proof.
  intros A l. destruct l as [|x l]; [left; reflexivity|right].
  destruct (exists_last (l := x :: l)) as (l' & a & E); [discriminate|]. exists l', a. exact E.
Qed.

(* [BP.live] on a history of Puts only: the pair is in [p] and no LATER pair conflicts with it *)
Lemma live_puts_split : forall ck cv p e,
  BP.live ck cv (rev (MM.puts p)) e <->
  exists p1 p2, p = p1 ++ e :: p2 /\ forall e', In e' p2 -> ~ conflict ck cv e e'.
Proof.
  intros ck cv p e. induction p as [|x q IH] using rev_ind.
  - cbn [MM.puts map rev BP.live]. split; [intros []|]. intros (p1 & p2 & E & _). destruct p1; discriminate E.
  - unfold MM.puts. rewrite map_app, rev_app_distr. cbn [map rev app BP.live]. fold (MM.puts q). split.
    + intros [E|(Nk & Nv & L)].
      * exists q, []. split; [destruct x; cbn [fst snd] in E; subst e; reflexivity|]. intros e' [].
      * apply IH in L. destruct L as (p1 & p2 & -> & H). exists p1, (p2 ++ [x]).
        split; [rewrite <- app_assoc; reflexivity|].
        intros e' He'. apply in_app_or in He'. destruct He' as [He'|[<-|[]]]; [apply H; exact He'|].
        intros [C|C]; [apply Nk; exact C|apply Nv; exact C].
    + intros (p1 & p2 & E & H). destruct (snoc_case _ p2) as [->|(p2' & a & ->)].
      * apply app_inj_tail in E. destruct E as [_ ->]. left. destruct e; reflexivity.
      * change (q ++ [x] = p1 ++ (e :: p2') ++ [a]) in E. rewrite app_assoc in E.
        apply app_inj_tail in E. destruct E as [-> ->]. right.
        assert (Ha : ~ conflict ck cv e a) by (apply H; apply in_or_app; right; left; reflexivity).
        split; [intros C; apply Ha; left; exact C|]. split; [intros C; apply Ha; right; exact C|].
        apply IH. exists p1, p2'. split; [reflexivity|]. intros e' He'. apply H. apply in_or_app. left. exact He'.
Qed.

Lemma bidi_config_ok : forall c, BP.bidi c -> MI.config_ok c.
Proof. intros c [K|K]; split; intros E; rewrite E in K; discriminate K. Qed.

Lemma oto_vals_sorted : forall (cv : cmpf) (l : list entry), NoDup l ->
  (forall a b a' b', In (a, b) l -> In (a', b') l -> cv b b' = Eq -> a = a' /\ b = b') ->
  StronglySorted (fun x y => cv (snd x) (snd y) <> Eq) l.
Proof.
  intros cv l Hnd. induction Hnd as [|[a b] l Hx Hnd IH]; intros H; [constructor|].
  constructor.
  - apply IH. intros a1 b1 a2 b2 H1 H2. apply H; right; assumption.
  - rewrite Forall_forall. intros [a' b'] Hy E. cbn [snd] in E.
    destruct (H a b a' b' (or_introl eq_refl) (or_intror Hy) E) as [-> ->]. exact (Hx Hy).
Qed.

Lemma conflict_dec : forall ck cv e p2,
  (forall e', In e' p2 -> ~ conflict ck cv e e') \/ (exists e', In e' p2 /\ conflict ck cv e e').
Proof.
  intros ck cv e p2. destruct (existsb (conflictb ck cv e) p2) eqn:B.
  - right. apply existsb_exists in B. destruct B as (e' & He' & C). exists e'. split; [exact He'|].
    apply conflictb_spec. exact C.
  - left. intros e' He' C. apply conflictb_spec in C.
    assert (T : existsb (conflictb ck cv e) p2 = true) by (apply existsb_exists; exists e'; split; assumption).
    rewrite T in B. discriminate B.
Qed.

(* the pair list the specification of C10 ([BP.sput], folded) computes for the Puts of [p] *)
Definition bidi_spec (c : config) (p : list (Z * Z)) : list entry :=
  BP.brun (BP.bk c) (BP.bv c) (MM.puts p).

Lemma bidi_spec_eq : forall c p,
  bidi_spec c p = fold_left (fun P e => BP.sput (BP.bk c) (BP.bv c) (fst e) (snd e) P) p [].
Proof.
  intros c p. unfold bidi_spec, BP.brun. generalize (@nil entry). induction p as [|e p IH]; intros P; [reflexivity|].
  cbn [MM.puts map fold_left BP.bstep]. apply IH.
Qed.

Theorem bidi_any_order : forall c kvs p, BP.bidi c -> Permutation p (sort_entries kvs) ->
  let doc := sort_entries kvs in
  let ck := BP.bk c in
  let cv := BP.bv c in
  let s := load c p in
  s <> StCrash /\
  s = run c (JP.put_ops p) /\ s = run c (Clear :: JP.put_ops p) /\
  BP.bidi_inv c s /\ MI.ginv c s /\ JP.bidi_inv c s /\
  BP.brel c (bidi_spec c p) s /\
  (forall e, In e (entries_of c s) <-> In e (bidi_spec c p)) /\
  valid_bidi_resolution ck cv doc (entries_of c s) /\
  (forall e, In e (entries_of c s) <->
             exists p1 p2, p = p1 ++ e :: p2 /\ forall e', In e' p2 -> ~ conflict ck cv e e') /\
  (forall e, In e doc ->
             In e (entries_of c s) \/
             exists p1 p2 e', p = p1 ++ e :: p2 /\ In e' p2 /\ conflict ck cv e e') /\
  size_of c s = zlen (entries_of c s) /\ zlen (keys_of c s) = size_of c s /\ zlen (values_of c s) = size_of c s.
Proof.
  intros c kvs p Hb HP doc ck cv s.
  pose proof (bidi_config_ok c Hb) as Hok.
  pose proof (load_run c p (BP.bidi_is_kv c Hb)) as Er. fold s in Er.
  pose proof (BP.bidi_run c (JP.put_ops p) Hb) as HR. rewrite <- Er in HR.
  unfold BP.spec in HR. rewrite hist_put_ops in HR. fold (bidi_spec c p) in HR.
  pose proof (fun e => BP.brel_entries c _ s e HR) as Hmem.
  assert (Hsplit : forall e, In e (entries_of c s) <->
             exists p1 p2, p = p1 ++ e :: p2 /\ forall e', In e' p2 -> ~ conflict ck cv e e').
  { intros e. rewrite Hmem. unfold bidi_spec. rewrite BP.brun_live. apply live_puts_split. }
  assert (Hdisp : forall e, In e p ->
             In e (entries_of c s) \/
             exists p1 p2 e', p = p1 ++ e :: p2 /\ In e' p2 /\ conflict ck cv e e').
  { intros e He. apply in_split in He. destruct He as (p1 & p2 & E).
    destruct (conflict_dec ck cv e p2) as [H|(e' & He' & C)].
    - left. apply Hsplit. exists p1, p2. split; [exact E|exact H].
    - right. exists p1, p2, e'. split; [exact E|]. split; [exact He'|exact C]. }
  assert (Hnd : NoDup p) by (apply (Permutation_NoDup (Permutation_sym HP)); apply doc_nodup).
  destruct (BP.C10_invariant_proof c (JP.put_ops p) Hb) as [Hnc Hinv]. rewrite <- Er in Hnc, Hinv.
  split; [exact Hnc|]. split; [exact Er|]. split; [rewrite (run_clear_first c _ Hok); exact Er|].
  split; [exact Hinv|]. split; [rewrite Er; apply MI.run_ginv; exact Hok|].
  split.
  { pose proof (JP.jinv_run c (JP.put_ops p) Hok) as J. rewrite <- Er in J. unfold JP.jinv in J.
    destruct Hb as [K|K]; rewrite K in J; exact J. }
  split; [exact HR|]. split; [exact Hmem|].
  split.
  { (* valid_bidi_resolution *)
    pose proof HR as [Hsh (HsF & _ & _ & _ & _)]. rewrite <- (BP.shape_entries c s Hsh) in HsF.
    split; [exact HsF|]. split.
    { apply oto_vals_sorted; [apply (BP.ksorted_NoDup ck (BP.bk_SWO c)); exact HsF|].
      destruct (BP.brel_oto c _ s HR) as (_ & _ & Hval).
      intros a b a' b' H1 H2. apply Hval; apply Hmem; assumption. }
    split.
    { intros e He. apply Hsplit in He. destruct He as (p1 & p2 & -> & _).
      apply (Permutation_in _ HP). apply in_or_app. right. left. reflexivity. }
    split.
    { intros e He. apply (Permutation_in _ (Permutation_sym HP)) in He.
      destruct (Hdisp e He) as [H|(p1 & p2 & e' & E & He' & C)]; [left; exact H|right].
      exists e'. split; [apply (Permutation_in _ HP); rewrite E; apply in_or_app; right; right; exact He'|].
      split; [|exact C]. intros ->. rewrite E in Hnd. apply NoDup_remove_2 in Hnd. apply Hnd.
      apply in_or_app. right. exact He'. }
    intros Hne Hnil. destruct (snoc_case _ p) as [->|(q & x & ->)].
    - apply Permutation_nil in HP. apply Hne. exact HP.
    - assert (Hx : In x (entries_of c s)).
      { apply Hsplit. exists q, []. split; [reflexivity|]. intros e' []. }
      rewrite Hnil in Hx. destruct Hx. }
  split; [exact Hsplit|].
  split; [intros e He; apply Hdisp; apply (Permutation_in _ (Permutation_sym HP)); exact He|].
  pose proof (BP.C10_size_proof c (JP.put_ops p) Hb) as Hsz. cbv zeta in Hsz. rewrite <- Er in Hsz.
  destruct Hsz as (S1 & S2 & S3 & _). split; [exact S1|]. split; [exact S2|exact S3].
Qed.

Theorem model_order_bidi : forall c kvs s, BP.bidi c -> s <> StCrash ->
  from_json c (DObj kvs) s = (load c (sort_entries kvs), true).
Proof.
  intros c kvs s Hb Hs. unfold from_json, load.
  destruct s; try congruence; destruct Hb as [K|K]; rewrite K; reflexivity.
Qed.

(* ================================================================================================ *)
(* 6. the checker accepts the result of EVERY order                                                 *)
(* ================================================================================================ *)
Definition load_config (c : config) : Prop := res_config c \/ BP.bidi c.

Lemma load_config_ok : forall c, load_config c -> MI.config_ok c.
Proof. intros c [H|H]; [apply res_config_ok|apply bidi_config_ok]; exact H. Qed.
Lemma load_is_kv : forall c, load_config c -> is_kv (ckind c) = true.
Proof. intros c [H|H]; [apply res_is_kv|apply BP.bidi_is_kv]; exact H. Qed.

Theorem every_order_valid : forall c kvs p, load_config c -> Permutation p (sort_entries kvs) ->
  valid_resolution_c c (sort_entries kvs) (entries_of c (load c p)).
Proof.
  intros c kvs p [Hc|Hb] HP; unfold valid_resolution_c.
  - pose proof (maps_any_order c kvs p Hc HP) as H. cbv zeta in H.
    destruct H as (_ & _ & _ & _ & _ & VR & _). destruct Hc as [K _].
    destruct (ckind c); try discriminate K; exact VR.
  - pose proof (bidi_any_order c kvs p Hb HP) as H. cbv zeta in H.
    destruct H as (_ & _ & _ & _ & _ & _ & _ & _ & VR & _).
    destruct Hb as [K|K]; rewrite K; exact VR.
Qed.

Theorem every_order_accepted : forall c kvs p, load_config c -> Permutation p (sort_entries kvs) ->
  valid_resolutionb c (sort_entries kvs) (entries_of c (load c p)) = true.
Proof. intros c kvs p Hc HP. apply valid_resolutionb_spec. apply every_order_valid; assumption. Qed.

(* ================================================================================================ *)
(* 7. prior content and continuations                                                               *)
(* ================================================================================================ *)
(* Loading "in the order p" over ANY reachable prior state: Clear, then the Puts.  The state is the
   very state a fresh container reaches - nothing of the prior content survives, hidden fields
   included - and so is the state after every continuation; all of them are reachable states, so
   every run-level invariant of the other properties applies. *)
Theorem no_prior_survives : forall c ops p more, load_config c ->
  run c (ops ++ Clear :: JP.put_ops p) = load c p /\
  run c (ops ++ Clear :: JP.put_ops p ++ more) = run_from c (load c p) more /\
  run c (ops ++ Clear :: JP.put_ops p ++ more) = run c (JP.put_ops p ++ more) /\
  (forall lvl, observe c lvl (run c (ops ++ Clear :: JP.put_ops p)) = observe c lvl (load c p)) /\
  run c (ops ++ Clear :: JP.put_ops p ++ more) <> StCrash /\
  MI.ginv c (run c (ops ++ Clear :: JP.put_ops p ++ more)) /\
  JP.jinv c (run c (ops ++ Clear :: JP.put_ops p ++ more)).
Proof.
  intros c ops p more Hl. pose proof (load_config_ok c Hl) as Hc.
  assert (E : forall X, run c (ops ++ Clear :: X) = run c X).
  { intros X. rewrite MI.run_app, JP.run_from_cons.
    rewrite (MI.ginv_clear_is_init c _ Hc (MI.run_ginv c ops Hc)). reflexivity. }
  pose proof (load_run c p (load_is_kv c Hl)) as Er.
  assert (E1 : run c (ops ++ Clear :: JP.put_ops p) = load c p) by (rewrite E; symmetry; exact Er).
  split; [exact E1|]. split; [rewrite E, MI.run_app, <- Er; reflexivity|]. split; [apply E|].
  split; [intros lvl; rewrite E1; reflexivity|].
  split; [apply (MI.ginv_not_crash c); apply MI.run_ginv; exact Hc|].
  split; [apply MI.run_ginv; exact Hc|apply JP.jinv_run; exact Hc].
Qed.

(* FromJSON itself (the model's order) over any prior state *)
Theorem from_json_is_a_load : forall c ops kvs, load_config c ->
  from_json c (DObj kvs) (run c ops) = (load c (sort_entries kvs), true) /\
  Permutation (sort_entries kvs) (sort_entries kvs).
Proof.
  intros c ops kvs Hl. split; [|apply Permutation_refl].
  assert (Hs : run c ops <> StCrash)
    by (apply (MI.ginv_not_crash c); apply MI.run_ginv; apply load_config_ok; exact Hl).
  destruct Hl as [H|H]; [apply model_order|apply model_order_bidi]; assumption.
Qed.

(* ================================================================================================ *)
(* 8. documents without ties: the order does not matter                                             *)
(* ================================================================================================ *)
Lemma minv_hashmap : forall c s, ckind c = HashMap -> MM.minv c s -> s = StHMap (entries_of c s).
Proof.
  intros c s K H. unfold MM.minv, MM.Generic.inv in H. rewrite K in H.
  destruct s; try contradiction. reflexivity.
Qed.

Theorem maps_no_tie : forall c kvs p, res_config c -> Permutation p (sort_entries kvs) ->
  let doc := sort_entries kvs in
  (forall e1 e2, In e1 doc -> In e2 doc -> MM.cmp_for c (fst e1) (fst e2) = Eq -> e1 = e2) ->
  entries_of c (load c p) = entries_of c (load c doc) /\
  entries_of c (load c p) = entries_of c (fst (from_json c (DObj kvs) (init c))) /\
  (forall e, In e (entries_of c (load c p)) <-> In e doc) /\
  size_of c (load c p) = zlen doc /\
  JP.oeq c (load c p) (load c doc) /\
  JP.equiv_content c (load c p) (load c doc) /\
  (forall more, JP.results_from c (load c p) more = JP.results_from c (load c doc) more /\
                JP.oeq c (run_from c (load c p) more) (run_from c (load c doc) more)).
Proof.
  intros c kvs p Hc HP doc Hinj. pose proof (res_config_ok c Hc) as Hok.
  destruct (inss_no_tie (MM.cmp_for c) (MM.cmp_for_SWO c) doc p HP Hinj) as (E & Hm & Hlen).
  assert (Ee : entries_of c (load c p) = entries_of c (load c doc)) by (rewrite !load_entries by exact Hc; exact E).
  pose proof (maps_any_order c kvs p Hc HP) as A. cbv zeta in A.
  destruct A as (_ & Er & _ & Hi & _ & _ & Hsz & _).
  pose proof (maps_any_order c kvs doc Hc (Permutation_refl _)) as A'. cbv zeta in A'.
  destruct A' as (_ & Er' & _ & Hi' & _). fold doc in Er', Hi'.
  assert (Ho : JP.oeq c (load c p) (load c doc)).
  { split; [rewrite Er; apply JP.jinv_run; exact Hok|]. split; [rewrite Er'; apply JP.jinv_run; exact Hok|].
    destruct Hc as [K _]. destruct (ckind c) eqn:Kc; try discriminate K; try exact Ee.
    rewrite (minv_hashmap c _ Kc Hi), (minv_hashmap c _ Kc Hi'), Ee. reflexivity. }
  split; [exact Ee|].
  split; [rewrite (model_order c kvs (init c) Hc (JP.init_not_crash c Hok)); exact Ee|].
  split; [intros e; rewrite load_entries by exact Hc; apply Hm|].
  split; [rewrite Hsz, load_entries by exact Hc; unfold zlen; f_equal; apply Hlen; apply doc_nodup|].
  split; [exact Ho|]. split; [apply (JP.oeq_equivalent c _ _ Hok Ho)|].
  intros more. rewrite Er, Er' in *.
  apply (JP.oeq_future c Hok (or_intror JP.bt_script_ok_proof)). exact Ho.
Qed.

(* HashMap compares keys with ==, and the decoded keys are pairwise different: never a tie *)
Theorem hashmap_order_irrelevant : forall c kvs p, ckind c = HashMap -> Permutation p (sort_entries kvs) ->
  load c p = load c (sort_entries kvs) /\ entries_of c (load c p) = sort_entries kvs.
Proof.
  intros c kvs p K HP.
  assert (Hc : res_config c) by (split; [rewrite K; reflexivity|intros E; rewrite E in K; discriminate K]).
  assert (Ec : MM.cmp_for c = Z.compare) by (unfold MM.cmp_for; rewrite K; reflexivity).
  assert (Hinj : forall e1 e2, In e1 (sort_entries kvs) -> In e2 (sort_entries kvs) ->
                               MM.cmp_for c (fst e1) (fst e2) = Eq -> e1 = e2).
  { rewrite Ec. intros e1 e2 H1 H2 E.
    exact (ksorted_In_eq Z.compare Zcompare_SWO _ e1 e2 (JP.sort_entries_sorted kvs) H1 H2 E). }
  destruct (maps_no_tie c kvs p Hc HP Hinj) as (Ee & _ & _ & _ & Ho & _).
  destruct Ho as (_ & _ & Ho). rewrite K in Ho. split; [exact Ho|].
  rewrite Ee, (load_entries c _ Hc), Ec. apply JP.sort_entries_idem.
Qed.

(* bidirectional maps *)
Lemma hbidi_state_eq : forall c P1 P2 s1 s2, ckind c = HashBidiMap -> BP.brel c P1 s1 -> BP.brel c P2 s2 ->
  entries_of c s1 = entries_of c s2 -> s1 = s2.
Proof.
  intros c P1 P2 s1 s2 K [Sh1 R1] [Sh2 R2] E.
  destruct s1; try contradiction; destruct s2; try contradiction; cbn [BP.shape] in Sh1, Sh2;
    try (apply proj1 in Sh1; congruence); try (apply proj1 in Sh2; congruence).
  cbn [entries_of] in E. subst f0. cbn [BP.fwd BP.bwd] in R1, R2.
  destruct R1 as (_ & Hi1 & _ & F1 & J1). destruct R2 as (_ & Hi2 & _ & F2 & J2).
  f_equal. apply (JP.ksorted_ext (BP.bv c) (BP.bv_SWO c)); [exact Hi1|exact Hi2|].
  intros [b a]. rewrite <- J1, <- J2, F1, F2. reflexivity.
Qed.

Theorem bidi_no_tie : forall c kvs p, BP.bidi c -> Permutation p (sort_entries kvs) ->
  let doc := sort_entries kvs in
  (forall e1 e2, In e1 doc -> In e2 doc -> conflict (BP.bk c) (BP.bv c) e1 e2 -> e1 = e2) ->
  (forall e, In e (entries_of c (load c p)) <-> In e doc) /\
  entries_of c (load c p) = entries_of c (load c doc) /\
  entries_of c (load c p) = entries_of c (fst (from_json c (DObj kvs) (init c))) /\
  size_of c (load c p) = zlen doc /\
  JP.oeq c (load c p) (load c doc) /\
  JP.equiv_content c (load c p) (load c doc) /\
  (forall more, JP.results_from c (load c p) more = JP.results_from c (load c doc) more /\
                JP.oeq c (run_from c (load c p) more) (run_from c (load c doc) more)).
Proof.
  intros c kvs p Hb HP doc Hinj. pose proof (bidi_config_ok c Hb) as Hok.
  assert (Hall : forall q, Permutation q doc ->
            (forall e, In e (entries_of c (load c q)) <-> In e doc) /\
            ksorted (BP.bk c) (entries_of c (load c q)) /\
            load c q = run c (JP.put_ops q) /\ JP.bidi_inv c (load c q) /\
            BP.brel c (bidi_spec c q) (load c q) /\ size_of c (load c q) = zlen (entries_of c (load c q))).
  { intros q HQ. pose proof (bidi_any_order c kvs q Hb HQ) as A. cbv zeta in A.
    destruct A as (_ & Er & _ & _ & _ & Hj & HR & _ & VR & Hsplit & _ & Hsz & _).
    split; [|split; [apply VR|split; [exact Er|split; [exact Hj|split; [exact HR|exact Hsz]]]]].
    assert (Hnd : NoDup q) by (apply (Permutation_NoDup (Permutation_sym HQ)); apply doc_nodup).
    intros e. rewrite Hsplit. split.
    - intros (p1 & p2 & -> & _). apply (Permutation_in _ HQ). apply in_or_app. right. left. reflexivity.
    - intros He. apply (Permutation_in _ (Permutation_sym HQ)) in He. apply in_split in He.
      destruct He as (p1 & p2 & ->). exists p1, p2. split; [reflexivity|]. intros e' He' C.
      assert (e = e').
      { apply Hinj; [| |exact C]; apply (Permutation_in _ HQ); apply in_or_app; right;
          [left; reflexivity|right; exact He']. }
      subst e'. apply NoDup_remove_2 in Hnd. apply Hnd. apply in_or_app. right. exact He'. }
  destruct (Hall p HP) as (Hm & Hs & Er & Hj & HR & Hsz).
  destruct (Hall doc (Permutation_refl _)) as (Hm' & Hs' & Er' & Hj' & HR' & _).
  assert (Ee : entries_of c (load c p) = entries_of c (load c doc)).
  { apply (JP.ksorted_ext (BP.bk c) (BP.bk_SWO c)); [exact Hs|exact Hs'|]. intros e. rewrite Hm, Hm'. reflexivity. }
  assert (Ho : JP.oeq c (load c p) (load c doc)).
  { split; [rewrite Er; apply JP.jinv_run; exact Hok|]. split; [rewrite Er'; apply JP.jinv_run; exact Hok|].
    destruct Hb as [K|K]; rewrite K; [|exact Ee].
    exact (hbidi_state_eq c _ _ _ _ K HR HR' Ee). }
  split; [exact Hm|]. split; [exact Ee|].
  split; [rewrite (model_order_bidi c kvs (init c) Hb (JP.init_not_crash c Hok)); exact Ee|].
  split.
  { rewrite Hsz. unfold zlen. f_equal. apply Permutation_length.
    apply NoDup_Permutation; [apply (BP.ksorted_NoDup _ (BP.bk_SWO c)); exact Hs|apply doc_nodup|exact Hm]. }
  split; [exact Ho|]. split; [apply (JP.oeq_equivalent c _ _ Hok Ho)|].
  intros more. rewrite Er, Er' in *.
  apply (JP.oeq_future c Hok (or_intror JP.bt_script_ok_proof)). exact Ho.
Qed.

(* ================================================================================================ *)
(* 9. what DOES depend on the order (refuted statements, concrete witnesses)                        *)
(* ================================================================================================ *)
(* with tying keys the surviving pair depends on the order: keys 3 and 4 tie under x/3 *)
Theorem order_independent_refuted : exists c kvs p1 p2,
  res_config c /\ Permutation p1 (sort_entries kvs) /\ Permutation p2 (sort_entries kvs) /\
  entries_of c (load c p1) = [(4, 2)] /\ entries_of c (load c p2) = [(3, 1)] /\
  get_of c (load c p1) 3 <> get_of c (load c p2) 3.
Proof.
  exists (JP.mkc TreeMap CDiv3 CNat 3 3), [(3, 1); (4, 2)], [(3, 1); (4, 2)], [(4, 2); (3, 1)].
  split; [split; [reflexivity|discriminate]|]. split; [apply Permutation_refl|]. split; [apply perm_swap|].
  split; [vm_compute; reflexivity|]. split; [vm_compute; reflexivity|]. vm_compute. discriminate.
Qed.

(* bidirectional maps: when key ties AND value ties occur even the SIZE depends on the order.
   Keys 3 and 4 tie under x/3, values 20 and 20 tie.  Ascending order (the model's): (4,20) evicts (3,10),
   then (9,20) evicts (4,20): one pair.  (4,20) first: (3,10) evicts it, (9,20) conflicts with nothing: two. *)
Theorem bidi_size_order_independent_refuted : exists c kvs p1 p2,
  BP.bidi c /\ Permutation p1 (sort_entries kvs) /\ Permutation p2 (sort_entries kvs) /\
  p1 = sort_entries kvs /\
  entries_of c (load c p1) = [(9, 20)] /\ size_of c (load c p1) = 1 /\
  entries_of c (load c p2) = [(3, 10); (9, 20)] /\ size_of c (load c p2) = 2.
Proof.
  exists (JP.mkc TreeBidiMap CDiv3 CNat 3 3), [(3, 10); (4, 20); (9, 20)],
         [(3, 10); (4, 20); (9, 20)], [(4, 20); (3, 10); (9, 20)].
  split; [right; reflexivity|]. split; [apply Permutation_refl|]. split; [apply perm_swap|].
  vm_compute. repeat split.
Qed.

(* bidirectional maps: a document pair can disappear although NO stored pair conflicts with it (it was
   evicted by a pair that was itself evicted later): "every document pair is stored or in conflict with
   a stored pair" is false - only "... in conflict with a LATER pair of the order" holds *)
Theorem bidi_stored_cover_refuted : exists c kvs p e,
  BP.bidi c /\ Permutation p (sort_entries kvs) /\ In e (sort_entries kvs) /\
  ~ In e (entries_of c (load c p)) /\
  forall r, In r (entries_of c (load c p)) -> ~ conflict (BP.bk c) (BP.bv c) e r.
Proof.
  exists (JP.mkc TreeBidiMap CDiv3 CNat 3 3), [(3, 10); (4, 20); (9, 20)],
         (rev [(3, 10); (4, 20); (9, 20)]), (9, 20).
  split; [right; reflexivity|]. split; [apply Permutation_sym; apply Permutation_rev|].
  split; [vm_compute; tauto|].
  assert (E : entries_of (JP.mkc TreeBidiMap CDiv3 CNat 3 3)
                (load (JP.mkc TreeBidiMap CDiv3 CNat 3 3) (rev [(3, 10); (4, 20); (9, 20)])) = [(3, 10)])
    by (vm_compute; reflexivity).
  rewrite E. split.
  - intros [H|[]]. discriminate H.
  - intros r [<-|[]] [C|C]; vm_compute in C; discriminate C.
Qed.

(* the three search trees agree on WHICH pair of a class survives: the last one put, key included
   (Put on an equivalent key replaces the stored key as well as the value) *)
Theorem last_member_wins_example :
  let p := [(4, 2); (9, 1); (5, 3); (3, 1)] in
  let q := [(3, 1); (5, 3); (9, 1); (4, 2)] in
  (forall k, In k [TreeMap; RedBlackTree; AVLTree; BTree] ->
     entries_of (JP.mkc k CDiv3 CNat 3 3) (load (JP.mkc k CDiv3 CNat 3 3) p) = [(3, 1); (9, 1)] /\
     entries_of (JP.mkc k CDiv3 CNat 3 3) (load (JP.mkc k CDiv3 CNat 3 3) q) = [(4, 2); (9, 1)]).
Proof.
  intros p q k Hk. cbn [In] in Hk.
  destruct Hk as [<-|[<-|[<-|[<-|[]]]]]; vm_compute; split; reflexivity.
Qed.
