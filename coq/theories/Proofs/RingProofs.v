(* The circular buffer of Model/Ring.v (Go: queues/circularbuffer) refines a bounded FIFO queue.
   Abstraction function: [rvalues] (what Values() returns: rotate by start, take size).
   - [ring_inv] is an inductive invariant of [rinit] / [renq] / [rdeq] / [rclear];
   - under it, Enqueue is "append, keep the last [rmax]", Dequeue removes the head, Peek is the head,
     Full() is "length = capacity" and Size() is the length.
   All index arithmetic is on nat: every index met is < 2 * rmax, so [mod] is a conditional
   subtraction ([mod_wrap]). *)
From Coq Require Import ZArith List Lia Bool Arith.
From Gods Require Import Common.ListAux Model.Ring.
Import ListNotations.

(* ---------- arrays as lists ---------- *)

Lemma set_length : forall (l : list Z) i x, length (set l i x) = length l.
Proof.
  induction l as [|a l IH]; intros [|i] x; cbn [set length]; auto.
Qed.

Lemma get_set : forall (l : list Z) i j x,
  i < length l -> get (set l i x) j = if j =? i then x else get l j.
Proof.
  unfold get. induction l as [|a l IH]; intros i j x Hi; cbn [length] in Hi; [lia|].
  destruct i as [|i]; destruct j as [|j]; cbn [set nth Nat.eqb]; auto.
  apply IH. lia.
Qed.

Lemma skipn_skipn' : forall (A : Type) (x y : nat) (l : list A), skipn x (skipn y l) = skipn (y + x) l.
Proof.
  intros A x y. induction y as [|y IH]; intros l; [reflexivity|].
  destruct l as [|a l]; cbn [skipn Nat.add]; [now destruct x|]. apply IH.
Qed.

Lemma nth_skipn' : forall (A : Type) (k i : nat) (l : list A) d, nth i (skipn k l) d = nth (k + i) l d.
Proof.
  intros A k. induction k as [|k IH]; intros i l d; [reflexivity|].
  destruct l as [|a l]; cbn [skipn Nat.add nth]; [now destruct i|]. apply IH.
Qed.

Lemma nth_firstn' : forall (A : Type) (k i : nat) (l : list A) d, i < k -> nth i (firstn k l) d = nth i l d.
Proof.
  intros A k. induction k as [|k IH]; intros i l d H; [lia|].
  destruct l as [|a l]; [reflexivity|]. destruct i as [|i]; cbn [firstn nth]; [reflexivity|].
  apply IH. lia.
Qed.

(* ---------- lastn ---------- *)

Lemma lastn_all : forall (A : Type) n (l : list A), length l <= n -> lastn n l = l.
Proof.
  intros A n l H. unfold lastn. replace (length l - n) with 0 by lia. reflexivity.
Qed.

Lemma lastn_length : forall (A : Type) n (l : list A), length (lastn n l) = Nat.min n (length l).
Proof.
  intros A n l. unfold lastn. rewrite skipn_length. lia.
Qed.

Lemma lastn_length_le : forall (A : Type) n (l : list A), length (lastn n l) <= n.
Proof.
  intros A n l. rewrite lastn_length. lia.
Qed.

Lemma lastn_nil : forall (A : Type) n, lastn n (@nil A) = [].
Proof.
  intros A n. unfold lastn. now rewrite skipn_nil.
Qed.

(* appending to the kept suffix or to the whole list gives the same suffix *)
Lemma lastn_lastn_app : forall (A : Type) n (a b : list A), lastn n (lastn n a ++ b) = lastn n (a ++ b).
Proof.
  intros A n a b. destruct (Nat.le_gt_cases (length a) n) as [H|H].
  - now rewrite (lastn_all A n a H).
  - unfold lastn at 1 3. rewrite !app_length, lastn_length.
    replace (Nat.min n (length a) + length b - n) with (length b) by lia.
    unfold lastn.
    replace (length a + length b - n) with ((length a - n) + length b) by lia.
    rewrite <- skipn_skipn'. f_equal.
    rewrite skipn_app. replace (length a - n - length a) with 0 by lia. reflexivity.
Qed.

(* a full list that receives one more element loses exactly its head *)
Lemma lastn_full_snoc : forall (A : Type) n (y : A) q x,
  length (y :: q) = n -> lastn n ((y :: q) ++ [x]) = q ++ [x].
Proof.
  intros A n y q x H. unfold lastn. rewrite app_length. cbn [length] in *.
  replace (S (length q) + 1 - n) with 1 by lia. reflexivity.
Qed.

Lemma lastn_room_snoc : forall (A : Type) n (q : list A) x,
  length q < n -> lastn n (q ++ [x]) = q ++ [x].
Proof.
  intros A n q x H. apply lastn_all. rewrite app_length. cbn [length]. lia.
Qed.

(* ---------- modular indices ---------- *)

Lemma mod_wrap : forall a m, a < 2 * m -> a mod m = if a <? m then a else a - m.
Proof.
  intros a m H. destruct (Nat.ltb_spec a m) as [L|L].
  - now apply Nat.mod_small.
  - replace a with ((a - m) + 1 * m) at 1 by lia.
    rewrite Nat.mod_add by lia. apply Nat.mod_small. lia.
Qed.

(* destruct every nat comparison in sight *)
Ltac brk :=
  repeat match goal with
  | |- context [?a <? ?b] => destruct (Nat.ltb_spec a b)
  | |- context [?a <=? ?b] => destruct (Nat.leb_spec a b)
  | |- context [?a =? ?b] => destruct (Nat.eqb_spec a b)
  | H : context [?a <? ?b] |- _ => destruct (Nat.ltb_spec a b)
  | H : context [?a <=? ?b] |- _ => destruct (Nat.leb_spec a b)
  | H : context [?a =? ?b] |- _ => destruct (Nat.eqb_spec a b)
  end.

Ltac prj := cbn [rvals rstart rend rfull rmax rsize fst snd] in *.

(* ---------- the invariant ---------- *)

Definition ring_inv (r : ring) : Prop :=
  rstart r < rmax r /\ rend r < rmax r /\ length (rvals r) = rmax r /\ rsize r = calc r /\
  rsize r <= rmax r /\ (rfull r = true <-> rsize r = rmax r) /\ (rfull r = true -> rend r = rstart r) /\
  0 < rmax r.

Lemma rinit_inv : forall c, 0 < c -> ring_inv (rinit c).
Proof.
  intros c Hc. unfold ring_inv, rinit, calc. cbn.
  rewrite repeat_length.
  repeat split; try lia; try discriminate.
Qed.

Lemma rclear_inv : forall r, ring_inv r -> ring_inv (rclear r).
Proof.
  intros r H. apply rinit_inv. apply H.
Qed.

Lemma rdeq_inv : forall r, ring_inv r -> ring_inv (fst (rdeq r)).
Proof.
  intros [vals s e f m n]. unfold ring_inv, rdeq, calc. prj.
  intros (Hs & He & Hl & Hn & Hle & Hf & Hfe & Hm).
  destruct (Nat.eqb_spec n 0) as [Z0|NZ]; prj.
  - repeat split; try lia; try apply Hf; auto.
  - destruct f.
    + assert (e = s) by auto. assert (n = m) by (apply Hf; reflexivity). subst e.
      repeat split; try lia; try discriminate; brk; try lia.
    + repeat split; try lia; try discriminate; brk; try lia.
Qed.

Lemma renq_inv : forall x r, ring_inv r -> ring_inv (renq x r).
Proof.
  intros x [vals s e f m n]. unfold ring_inv, renq, rdeq, calc. prj.
  intros (Hs & He & Hl & Hn & Hle & Hf & Hfe & Hm).
  destruct (Nat.eqb_spec n m) as [Full|NFull].
  - (* full: the oldest element is dropped first *)
    assert (f = true) by (apply Hf; assumption). subst f.
    assert (e = s) by auto. subst e.
    destruct (Nat.eqb_spec n 0) as [C|_]; [lia|]. prj.
    rewrite set_length.
    repeat split; try lia; brk; try lia; try reflexivity; try discriminate.
  - prj. rewrite set_length.
    destruct f; [exfalso; apply NFull; apply Hf; reflexivity|].
    repeat split; try lia; brk; try lia; try reflexivity; try discriminate; intros; try lia.
Qed.

(* ---------- abstraction: rvalues ---------- *)

Lemma rvalues_length : forall r, length (rvalues r) = rsize r.
Proof.
  intros r. unfold rvalues. now rewrite map_length, seq_length.
Qed.

Lemma rvalues_nth : forall r i d,
  i < rsize r -> nth i (rvalues r) d = get (rvals r) ((rstart r + i) mod rmax r).
Proof.
  intros r i d H. unfold rvalues.
  rewrite (nth_indep _ d (get (rvals r) ((rstart r + 0) mod rmax r))) by (now rewrite map_length, seq_length).
  rewrite (map_nth (fun i => get (rvals r) ((rstart r + i) mod rmax r)) (seq 0 (rsize r)) 0 i).
  now rewrite seq_nth.
Qed.

Lemma rinit_abs : forall c, rvalues (rinit c) = [].
Proof. reflexivity. Qed.

Lemma rclear_abs : forall r, rvalues (rclear r) = [].
Proof. reflexivity. Qed.

Lemma rsize_abs : forall r, rsize r = length (rvalues r).
Proof. intros r. now rewrite rvalues_length. Qed.

Lemma rfull_abs : forall r, ring_inv r -> rfullb r = (length (rvalues r) =? rmax r).
Proof.
  intros r _. unfold rfullb. now rewrite rvalues_length.
Qed.

(* Full() also agrees with the stored flag *)
Lemma rfull_flag : forall r, ring_inv r -> rfull r = rfullb r.
Proof.
  intros r (_ & _ & _ & _ & _ & Hf & _). unfold rfullb.
  destruct (Nat.eqb_spec (rsize r) (rmax r)) as [E|N].
  - now apply Hf.
  - destruct (rfull r); [exfalso; apply N; now apply Hf|reflexivity].
Qed.

Lemma rvalues_bounded : forall r, ring_inv r -> length (rvalues r) <= rmax r.
Proof.
  intros r H. rewrite rvalues_length. apply H.
Qed.

Lemma rpeek_abs : forall r, ring_inv r -> rpeek r = hd_error (rvalues r).
Proof.
  intros [vals s e f m n]. unfold ring_inv, rpeek, rvalues. cbn.
  intros (Hs & _).
  destruct n as [|n]; cbn; [reflexivity|].
  rewrite Nat.add_0_r, Nat.mod_small by assumption. reflexivity.
Qed.

Lemma rdeq_abs : forall r, ring_inv r ->
  match rvalues r with
  | [] => rdeq r = (r, None)
  | y :: q => exists r', rdeq r = (r', Some y) /\ rvalues r' = q
  end.
Proof.
  intros [vals s e f m n]. unfold ring_inv, calc. cbn.
  intros (Hs & He & Hl & Hn & Hle & Hf & Hfe & Hm).
  unfold rvalues, rdeq. cbn.
  destruct n as [|n]; cbn [seq map Nat.eqb]; [reflexivity|].
  eexists. split.
  - rewrite Nat.add_0_r, Nat.mod_small by assumption. reflexivity.
  - cbn. rewrite Nat.sub_0_r. rewrite <- seq_shift, map_map.
    apply map_ext_in. intros i Hi. apply in_seq in Hi. f_equal.
    rewrite !mod_wrap by (brk; lia). brk; lia.
Qed.

Lemma renq_size : forall x r, ring_inv r -> rsize (renq x r) = Nat.min (rmax r) (rsize r + 1).
Proof.
  intros x [vals s e f m n]. unfold ring_inv, renq, rdeq, calc. prj.
  intros (Hs & He & Hl & Hn & Hle & Hf & Hfe & Hm).
  destruct (Nat.eqb_spec n m) as [Full|NFull].
  - assert (f = true) by (apply Hf; assumption). subst f.
    assert (e = s) by auto. subst e.
    destruct (Nat.eqb_spec n 0) as [C|_]; [lia|]. prj. brk; lia.
  - prj. destruct f; [exfalso; apply NFull; apply Hf; reflexivity|]. brk; lia.
Qed.

Lemma renq_abs : forall x r, ring_inv r -> rvalues (renq x r) = lastn (rmax r) (rvalues r ++ [x]).
Proof.
  intros x r Hinv.
  assert (Hlen : length (rvalues (renq x r)) = length (lastn (rmax r) (rvalues r ++ [x]))).
  { rewrite lastn_length, app_length, !rvalues_length. cbn [length]. now apply renq_size. }
  apply (nth_ext _ _ 0%Z 0%Z Hlen).
  intros i Hi. rewrite rvalues_length in Hi. rewrite rvalues_nth by assumption.
  rewrite renq_size in Hi by assumption. clear Hlen.
  unfold lastn. rewrite nth_skipn'.
  rewrite app_length, rvalues_length. cbn [length].
  destruct r as [vals s e f m n]. unfold ring_inv, renq, rdeq, calc in *. prj.
  destruct Hinv as (Hs & He & Hl & Hn & Hle & Hf & Hfe & Hm).
  destruct (Nat.eqb_spec n m) as [Full|NFull].
  - assert (f = true) by (apply Hf; assumption). subst f.
    assert (e = s) by auto. subst e.
    destruct (Nat.eqb_spec n 0) as [C|_]; [lia|]. prj. clear Hn Hf Hfe.
    subst n.
    rewrite get_set by lia.
    replace (m + 1 - m + i) with (S i) by lia.
    destruct (Nat.eq_dec i (m - 1)) as [Last|NLast].
    + rewrite app_nth2 by (rewrite rvalues_length; prj; lia).
      rewrite rvalues_length. prj. replace (S i - m) with 0 by lia. cbn [nth].
      rewrite mod_wrap by (brk; lia). brk; try lia; reflexivity.
    + rewrite app_nth1 by (rewrite rvalues_length; prj; lia).
      rewrite rvalues_nth by (prj; lia). prj.
      rewrite !mod_wrap by (brk; lia). brk; try lia; f_equal; lia.
  - prj. destruct f; [exfalso; apply NFull; apply Hf; reflexivity|].
    rewrite get_set by lia.
    replace (n + 1 - m + i) with i by lia.
    destruct (Nat.eq_dec i n) as [Last|NLast].
    + rewrite app_nth2 by (rewrite rvalues_length; prj; lia).
      rewrite rvalues_length. prj. replace (i - n) with 0 by lia. cbn [nth].
      rewrite mod_wrap by (brk; lia). brk; try lia; reflexivity.
    + assert (i < n) by lia.
      rewrite app_nth1 by (rewrite rvalues_length; prj; lia).
      rewrite rvalues_nth by (prj; lia). prj.
      rewrite !mod_wrap by (brk; lia). brk; try lia; reflexivity.
Qed.

(* the capacity never changes *)
Lemma renq_max : forall x r, rmax (renq x r) = rmax r.
Proof.
  intros x r. unfold renq, rdeq. destruct (rsize r =? rmax r); [destruct (rsize r =? 0)|]; reflexivity.
Qed.

Lemma rdeq_max : forall r, rmax (fst (rdeq r)) = rmax r.
Proof.
  intros r. unfold rdeq. destruct (rsize r =? 0); reflexivity.
Qed.

(* "rotate by start, take size" *)
Lemma rvalues_rotate : forall r, ring_inv r ->
  rvalues r = firstn (rsize r) (skipn (rstart r) (rvals r) ++ firstn (rstart r) (rvals r)).
Proof.
  intros r (Hs & He & Hl & Hn & Hle & _).
  assert (Hlen : length (rvalues r) =
                 length (firstn (rsize r) (skipn (rstart r) (rvals r) ++ firstn (rstart r) (rvals r)))).
  { rewrite rvalues_length, firstn_length, app_length, skipn_length, firstn_length. lia. }
  apply (nth_ext _ _ 0%Z 0%Z Hlen).
  intros i Hi. rewrite rvalues_length in Hi. rewrite rvalues_nth by assumption.
  rewrite nth_firstn' by assumption.
  rewrite mod_wrap by lia. unfold get.
  destruct (Nat.ltb_spec (rstart r + i) (rmax r)) as [L|L].
  - rewrite app_nth1 by (rewrite skipn_length; lia). now rewrite nth_skipn'.
  - rewrite app_nth2 by (rewrite skipn_length; lia). rewrite skipn_length.
    rewrite nth_firstn' by lia.
    f_equal. lia.
Qed.

(* a sequence of enqueues (loading a JSON array) keeps the last [rmax] values *)
Fixpoint renqs (vs : list Z) (r : ring) : ring :=
  match vs with [] => r | v :: vs' => renqs vs' (renq v r) end.

Lemma renqs_inv : forall vs r, ring_inv r -> ring_inv (renqs vs r).
Proof.
  induction vs as [|v vs IH]; intros r H; cbn [renqs]; auto using renq_inv.
Qed.

Lemma renqs_max : forall vs r, rmax (renqs vs r) = rmax r.
Proof.
  induction vs as [|v vs IH]; intros r; cbn [renqs]; [reflexivity|].
  now rewrite IH, renq_max.
Qed.

Lemma renqs_abs : forall vs r, ring_inv r -> rvalues (renqs vs r) = lastn (rmax r) (rvalues r ++ vs).
Proof.
  induction vs as [|v vs IH]; intros r H; cbn [renqs].
  - rewrite app_nil_r. symmetry. apply lastn_all. now apply rvalues_bounded.
  - rewrite IH by now apply renq_inv.
    rewrite renq_max, renq_abs by assumption.
    rewrite lastn_lastn_app, <- app_assoc. reflexivity.
Qed.

(* ---------- summary: the two refinement squares ---------- *)
Lemma renq_refines : forall x r, ring_inv r ->
  ring_inv (renq x r) /\ rvalues (renq x r) = lastn (rmax r) (rvalues r ++ [x]).
Proof.
  intros x r H. split; [exact (renq_inv x r H)|exact (renq_abs x r H)].
Qed.

Lemma rdeq_refines : forall r, ring_inv r ->
  ring_inv (fst (rdeq r)) /\
  match rvalues r with
  | [] => rdeq r = (r, None)
  | y :: q => exists r', rdeq r = (r', Some y) /\ rvalues r' = q
  end.
Proof.
  intros r H. split; [exact (rdeq_inv r H)|exact (rdeq_abs r H)].
Qed.
