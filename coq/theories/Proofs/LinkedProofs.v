(* Property C09: LinkedHashMap and LinkedHashSet enumerate in insertion order. *)
From Coq Require Import ZArith List Lia Bool Arith Sorted Permutation.
From Gods Require Import Common.Cmp Common.ListAux Spec.SeqSpec Spec.MapSpec Spec.SetSpec
  Model.Ops Model.Lists Model.Iter Model.Machine Proofs.SetsProofs.
Import ListNotations.
Local Open Scope Z_scope.

(* ================================================================================== *)
(* The abstract order                                                                   *)
(* ================================================================================== *)

Lemma order_spec_app es1 es2 : order_spec (es1 ++ es2) = fold_left order_step es2 (order_spec es1).
Proof. unfold order_spec. apply fold_left_app. Qed.

Lemma smem_app x l1 l2 : smem x (l1 ++ l2) = smem x l1 || smem x l2.
Proof. unfold smem. apply existsb_app. Qed.

Lemma smem_drop x k l : smem x (drop k l) = negb (x =? k) && smem x l.
Proof.
  apply eq_true_iff_eq. rewrite andb_true_iff, negb_true_iff, Z.eqb_neq, !sp_smem_In, sp_In_drop. tauto.
Qed.

(* ================================================================================== *)
(* LinkedHashMap: table + ordering list of keys                                         *)
(* ================================================================================== *)

Definition lmap_inv (tbl : list (Z * Z)) (ord : list Z) : Prop :=
  hsorted tbl /\ NoDup ord /\ forall x, hmem x tbl = smem x ord.

Lemma lmap_inv_nil : lmap_inv [] [].
Proof. split; [constructor|]. split; [constructor|]. intros x. reflexivity. Qed.

Lemma lmap_put_spec k v tbl ord : lmap_inv tbl ord ->
  lmap_put k v (tbl, ord) = (hput k v tbl, order_step ord (EIns k)) /\
  lmap_inv (hput k v tbl) (order_step ord (EIns k)).
Proof.
  intros (H1 & H2 & H3). unfold lmap_put. cbn [order_step]. fold (smem k ord). rewrite (H3 k).
  destruct (smem k ord) eqn:M.
  - split; [reflexivity|]. split; [apply sp_hput_sorted; assumption|]. split; [assumption|].
    intros x. rewrite sp_hmem_hput, H3. destruct (Z.eqb_spec x k) as [->|Hne]; [rewrite M|]; reflexivity.
  - split; [reflexivity|]. split; [apply sp_hput_sorted; assumption|]. split.
    + apply (Permutation_NoDup (Permutation_cons_append ord k)). constructor; [|assumption].
      intros Hin. apply sp_smem_In in Hin. congruence.
    + intros x. rewrite sp_hmem_hput, H3, smem_app. cbn [smem existsb]. rewrite orb_false_r.
      destruct (x =? k), (smem x ord); reflexivity.
Qed.

Lemma lmap_remove_spec k tbl ord : lmap_inv tbl ord ->
  lmap_remove k (tbl, ord) = (hdel k tbl, order_step ord (ERem k)) /\
  lmap_inv (hdel k tbl) (order_step ord (ERem k)).
Proof.
  intros (H1 & H2 & H3). unfold lmap_remove. cbn [order_step]. fold (drop k ord).
  assert (Hinv' : lmap_inv (hdel k tbl) (drop k ord)).
  { split; [apply sp_hdel_sorted; assumption|]. split; [apply sp_NoDup_drop; assumption|].
    intros x. rewrite sp_hmem_hdel, smem_drop, H3 by assumption. reflexivity. }
  split; [|exact Hinv'].
  destruct (hmem k tbl) eqn:M.
  - rewrite sp_dll_remove_index; [reflexivity|assumption|]. apply sp_smem_In. rewrite <- H3. assumption.
  - assert (Hnin : ~ In k ord).
    { intros Hin. apply sp_smem_In in Hin. rewrite <- H3 in Hin. congruence. }
    rewrite (sp_drop_notin k ord Hnin). f_equal.
    (* deleting an absent key leaves the table as it is *)
    clear - H1 M. unfold hdel. induction tbl as [|[k' v'] tbl IH]; [reflexivity|].
    cbn [hmem existsb fst] in M. apply orb_false_iff in M. destruct M as [M1 M2].
    cbn [del_list]. destruct (k ?= k') eqn:E.
    + apply Z.compare_eq in E. subst. rewrite Z.eqb_refl in M1. discriminate.
    + reflexivity.
    + f_equal. apply IH; [|exact M2]. inversion H1; assumption.
Qed.

Definition lm_puts (es : list (Z * Z)) (s : list (Z * Z) * list Z) :=
  fold_left (fun acc e => lmap_put (fst e) (snd e) acc) es s.

Lemma lm_puts_spec es : forall tbl ord, lmap_inv tbl ord ->
  exists tbl', lm_puts es (tbl, ord) = (tbl', fold_left order_step (map EIns (map fst es)) ord) /\
               lmap_inv tbl' (fold_left order_step (map EIns (map fst es)) ord) /\
               tbl' = fold_left (fun acc e => hput (fst e) (snd e) acc) es tbl.
Proof.
  unfold lm_puts. induction es as [|[k v] es IH]; intros tbl ord Hinv.
  - exists tbl. repeat split; try apply Hinv.
  - cbn [fold_left map fst snd]. destruct (lmap_put_spec k v tbl ord Hinv) as [E I]. rewrite E.
    destruct (IH _ _ I) as (tbl' & E' & I' & T'). exists tbl'. repeat split; try assumption; apply I'.
Qed.

(* the keys of dedup_last, inserted in order, give the same order as all member keys in document order *)
Lemma dedup_last_order all es : forall seen l, (forall x, In x seen -> In x l) ->
  fold_left order_step (map EIns (map fst (dedup_last es seen all))) l =
  fold_left order_step (map EIns (map fst es)) l.
Proof.
  induction es as [|[k v] es IH]; intros seen l Hsub; [reflexivity|].
  cbn [dedup_last map fst fold_left].
  destruct (existsb (Z.eqb k) seen) eqn:E.
  - assert (Hin : In k l).
    { apply Hsub. apply existsb_exists in E. destruct E as (y & Hy & He). apply Z.eqb_eq in He. subst. assumption. }
    cbn [order_step]. apply sp_smem_In in Hin. unfold smem in Hin. rewrite Hin. apply IH. assumption.
  - cbn [map fst fold_left]. apply IH.
    intros x [<-|Hx]; cbn [order_step].
    + destruct (existsb (Z.eqb k) l) eqn:F.
      * apply (sp_smem_In k l). exact F.
      * apply in_or_app. right. left. reflexivity.
    + destruct (existsb (Z.eqb k) l); [auto|]. apply in_or_app. left. auto.
Qed.

(* ================================================================================== *)
(* One machine step on the two linked kinds                                             *)
(* ================================================================================== *)

Lemma lm_next c tbl ord o : ckind c = LinkedHashMap -> next c (StLMap tbl ord) o =
  match o with
  | Put k v => let '(t, o') := lmap_put k v (tbl, ord) in StLMap t o'
  | Remove k => let '(t, o') := lmap_remove k (tbl, ord) in StLMap t o'
  | Clear => StLMap [] []
  | FromJSON (DObj kvs) => let '(t, o') := lm_puts (dedup_last kvs [] kvs) ([], []) in StLMap t o'
  | FromJSON DNull => StLMap [] []
  | _ => StLMap tbl ord
  end.
Proof.
  intros K. assert (Hinit : init c = StLMap [] []) by (unfold init; rewrite K; reflexivity).
  unfold next. destruct o; cbn -[lmap_put lmap_remove lm_puts each_of]; rewrite ?K;
    cbn -[lmap_put lmap_remove lm_puts each_of]; try reflexivity.
  all: try (destruct (each_of c (StLMap tbl ord)); reflexivity).
  - destruct (lmap_put k v (tbl, ord)); reflexivity.
  - destruct (lmap_remove k (tbl, ord)); reflexivity.
  - exact Hinit.
  - destruct d; try reflexivity; try exact Hinit. unfold put_entries. rewrite Hinit.
    fold (lm_puts (dedup_last kvs [] kvs) ([], [])). destruct (lm_puts (dedup_last kvs [] kvs) ([], [])); reflexivity.
Qed.

Definition is_linked_kind (k : kind) : bool := match k with LinkedHashSet | LinkedHashMap => true | _ => false end.

Definition linked_inv (c : config) (s : state) : Prop :=
  match ckind c, s with
  | LinkedHashSet, StLSet tbl ord => lset_inv tbl ord
  | LinkedHashMap, StLMap tbl ord => lmap_inv tbl ord
  | _, _ => False
  end.

(* the ordering list of a linked container: Values() of the set, Keys() of the map *)
Definition ord_of (s : state) : list Z :=
  match s with StLSet _ ord => ord | StLMap _ ord => ord | _ => [] end.

Lemma linked_inv_init c : is_linked_kind (ckind c) = true -> linked_inv c (init c) /\ ord_of (init c) = [].
Proof.
  unfold linked_inv, init. destruct (ckind c); try discriminate; intros _; split; try reflexivity.
  - apply lset_inv_nil.
  - apply lmap_inv_nil.
Qed.

Lemma linked_step c s o : linked_inv c s ->
  linked_inv c (next c s o) /\ ord_of (next c s o) = fold_left order_step (events1 c o) (ord_of s).
Proof.
  unfold linked_inv, events1. destruct (ckind c) eqn:K; try contradiction; destruct s; try contradiction; intros Hinv.
  - (* LinkedHashSet *)
    rewrite (ls_next c tbl ord o K).
    destruct o as [vs|vs|vs|i vs|i v|i|i j|ci res|vs|v|vs| |v| |k v|k| |d|cs| |p|p|p|p|f|b|b|b| | | | |ci res];
      try (split; [exact Hinv|reflexivity]).
    + destruct (ls_adds_spec vs tbl ord Hinv) as (t' & o' & E & I & _ & O). rewrite E. split; assumption.
    + destruct (ls_dels_spec vs tbl ord Hinv) as (t' & o' & E & I & _ & O). rewrite E. split; assumption.
    + split; [apply lset_inv_nil|reflexivity].
    + destruct d as [| |vs|kvs]; try (split; [exact Hinv|reflexivity]).
      * split; [apply lset_inv_nil|reflexivity].
      * destruct (ls_adds_spec vs [] [] lset_inv_nil) as (t' & o' & E & I & _ & O). rewrite E. split; assumption.
  - (* LinkedHashMap *)
    rewrite (lm_next c tbl ord o K).
    destruct o as [vs|vs|vs|i vs|i v|i|i j|ci res|vs|v|vs| |v| |k v|k| |d|cs| |p|p|p|p|f|b|b|b| | | | |ci res];
      try (split; [exact Hinv|reflexivity]).
    + destruct (lmap_put_spec k v tbl ord Hinv) as [E I]. rewrite E. split; [exact I|reflexivity].
    + destruct (lmap_remove_spec k tbl ord Hinv) as [E I]. rewrite E. split; [exact I|reflexivity].
    + split; [apply lmap_inv_nil|reflexivity].
    + destruct d as [| |vs|kvs]; try (split; [exact Hinv|reflexivity]).
      * split; [apply lmap_inv_nil|reflexivity].
      * destruct (lm_puts_spec (dedup_last kvs [] kvs) [] [] lmap_inv_nil) as (t' & E & I & _). rewrite E.
        rewrite dedup_last_order in * by (intros x []). split; [exact I|reflexivity].
Qed.

Theorem linked_run c ops : is_linked_kind (ckind c) = true ->
  linked_inv c (run c ops) /\ ord_of (run c ops) = order_spec (events c ops).
Proof.
  intros K. induction ops as [|o ops IH] using rev_ind.
  - apply linked_inv_init. assumption.
  - rewrite run_snoc. destruct IH as [I O]. destruct (linked_step c (run c ops) o I) as [I' O'].
    split; [assumption|]. rewrite O', O. unfold events. rewrite flat_map_app, order_spec_app.
    cbn [flat_map]. rewrite app_nil_r. reflexivity.
Qed.

Lemma keys_of_lmap c tbl ord : keys_of c (StLMap tbl ord) = ord.
Proof.
  unfold keys_of. cbn [entries_of]. unfold lmap_entries. rewrite map_map. cbn [fst]. apply map_id.
Qed.

(* the enumeration the property talks about: Values() of the set, Keys() of the map *)
Definition enum_of (c : config) (s : state) : list Z :=
  match ckind c with LinkedHashSet => values_of c s | _ => keys_of c s end.

Lemma enum_of_ord c s : linked_inv c s -> enum_of c s = ord_of s.
Proof.
  unfold linked_inv, enum_of. destruct (ckind c); try contradiction; destruct s; try contradiction; intros _.
  - reflexivity.
  - apply keys_of_lmap.
Qed.

(* ================================================================================== *)
(* The linked-list iterator walks the ordering list front to back                       *)
(* ================================================================================== *)

Fixpoint enum_from (n : Z) (l : list Z) : list (Z * Z) :=
  match l with [] => [] | x :: l' => (n, x) :: enum_from (n + 1) l' end.

Lemma skipn_nth (l : list Z) : forall (j : nat) x, nth_error l j = Some x -> skipn j l = x :: skipn (S j) l.
Proof.
  induction l as [|a l' IH]; intros j x H; destruct j as [|j]; cbn in H; try discriminate.
  - inversion H; subst. reflexivity.
  - cbn [skipn]. rewrite (IH j x H). reflexivity.
Qed.

Section Walk.
Variable l : list Z.
Variable g : Z -> Z -> Z * Z.
Variable cur : Z * cell -> option (Z * Z).
Hypothesis Hcur : forall st, cur st = match ll_cur l st with Some (i, x) => Some (g i x) | None => None end.

(* iterator state after j successful moves *)
Definition ist (j : nat) : Z * cell := (Z.of_nat j - 1, match j with O => None | S j' => Some j' end).


Lemma ll_next_end : exists st, ll_next l (ist (length l)) = Some (st, false).
Proof.
  unfold ist, ll_next, ln, zlen, within, zlen.
  replace (Z.of_nat (length l) - 1 <? Z.of_nat (length l)) with true by (symmetry; apply Z.ltb_lt; lia).
  replace (Z.of_nat (length l) - 1 + 1) with (Z.of_nat (length l)) by lia.
  replace ((0 <=? Z.of_nat (length l)) && (Z.of_nat (length l) <? Z.of_nat (length l))) with false
    by (symmetry; apply andb_false_iff; right; apply Z.ltb_ge; lia).
  cbn [negb]. eexists. reflexivity.
Qed.

Lemma ll_next_ist j : (j < length l)%nat -> ll_next l (ist j) = Some (ist (S j), true).
Proof.
  intros Hlt. unfold ist, ll_next, ln, zlen, within, zlen.
  replace (Z.of_nat j - 1 <? Z.of_nat (length l)) with true by (symmetry; apply Z.ltb_lt; lia).
  replace (Z.of_nat j - 1 + 1) with (Z.of_nat j) by lia.
  replace ((0 <=? Z.of_nat j) && (Z.of_nat j <? Z.of_nat (length l))) with true
    by (symmetry; apply andb_true_iff; split; [apply Z.leb_le|apply Z.ltb_lt]; lia).
  cbn [negb]. replace (Z.of_nat (S j) - 1) with (Z.of_nat j) by lia.
  destruct j as [|j'].
  - cbn. unfold first_cell. destruct l; [cbn in Hlt; lia|reflexivity].
  - replace (Z.of_nat (S j') =? 0) with false by (symmetry; apply Z.eqb_neq; lia).
    unfold cell_next, ln, zlen.
    replace (Z.of_nat j' + 1 <? Z.of_nat (length l)) with true by (symmetry; apply Z.ltb_lt; lia).
    reflexivity.
Qed.

Lemma walk_ll : forall fuel j, (j <= length l)%nat -> (length l - j < fuel)%nat ->
  walk (Z * cell) cur (ll_next l) fuel (ist j) =
  Some (map (fun p => g (fst p) (snd p)) (enum_from (Z.of_nat j) (skipn j l))).
Proof.
  induction fuel as [|f IH]; intros j Hj Hf; [lia|].
  cbn [walk].
  destruct (Nat.eq_dec j (length l)) as [He|Hne].
  - subst j. destruct ll_next_end as [st Hst]. rewrite Hst, skipn_all. reflexivity.
  - assert (Hlt : (j < length l)%nat) by lia.
    destruct (nth_error l j) as [x|] eqn:Hx; [|apply nth_error_None in Hx; lia].
    rewrite (ll_next_ist j Hlt), Hcur. unfold ll_cur. unfold ist at 1 2. cbn [fst snd]. rewrite Hx.
    rewrite (IH (S j)) by lia. rewrite (skipn_nth l j x Hx). cbn [enum_from map fst snd].
    replace (Z.of_nat (S j) - 1) with (Z.of_nat j) by lia.
    replace (Z.of_nat j + 1) with (Z.of_nat (S j)) by lia. reflexivity.
Qed.

Lemma walk_ll_full : walk (Z * cell) cur (ll_next l) (S (S (Z.to_nat (zlen l)))) (-1, None) =
  Some (map (fun p => g (fst p) (snd p)) (enum_from 0 l)).
Proof.
  unfold zlen. rewrite Nat2Z.id. apply (walk_ll (S (S (length l))) 0%nat); lia.
Qed.
End Walk.

(* ================================================================================== *)
(* The theorems of property C09                                                         *)
(* ================================================================================== *)

Theorem C09_order_proof : forall c ops, is_linked_kind (ckind c) = true ->
  enum_of c (run c ops) = order_spec (events c ops).
Proof.
  intros c ops K. destruct (linked_run c ops K) as [I O]. rewrite enum_of_ord by assumption. exact O.
Qed.

Theorem C09_order_set_proof : forall c ops, ckind c = LinkedHashSet ->
  values_of c (run c ops) = order_spec (events c ops).
Proof.
  intros c ops K. assert (K' : is_linked_kind (ckind c) = true) by (rewrite K; reflexivity).
  rewrite <- (C09_order_proof c ops K'). unfold enum_of. rewrite K. reflexivity.
Qed.

Theorem C09_order_map_proof : forall c ops, ckind c = LinkedHashMap ->
  keys_of c (run c ops) = order_spec (events c ops).
Proof.
  intros c ops K. assert (K' : is_linked_kind (ckind c) = true) by (rewrite K; reflexivity).
  rewrite <- (C09_order_proof c ops K'). unfold enum_of. rewrite K. reflexivity.
Qed.

(* reachable states of the two kinds *)
Lemma lmap_reach c ops : ckind c = LinkedHashMap ->
  exists tbl ord, run c ops = StLMap tbl ord /\ lmap_inv tbl ord.
Proof.
  intros K. assert (K' : is_linked_kind (ckind c) = true) by (rewrite K; reflexivity).
  destruct (linked_run c ops K') as [I _]. unfold linked_inv in I. rewrite K in I.
  destruct (run c ops); try contradiction. eauto.
Qed.

Lemma lset_reach c ops : ckind c = LinkedHashSet ->
  exists tbl ord, run c ops = StLSet tbl ord /\ lset_inv tbl ord.
Proof.
  intros K. assert (K' : is_linked_kind (ckind c) = true) by (rewrite K; reflexivity).
  destruct (linked_run c ops K') as [I _]. unfold linked_inv in I. rewrite K in I.
  destruct (run c ops); try contradiction. eauto.
Qed.

Lemma lm_put_next c tbl ord k v : ckind c = LinkedHashMap -> lmap_inv tbl ord ->
  next c (StLMap tbl ord) (Put k v) = StLMap (hput k v tbl) (order_step ord (EIns k)).
Proof. intros K I. rewrite (lm_next c tbl ord _ K). destruct (lmap_put_spec k v tbl ord I) as [E _]. rewrite E. reflexivity. Qed.

Lemma lm_remove_next c tbl ord k : ckind c = LinkedHashMap -> lmap_inv tbl ord ->
  next c (StLMap tbl ord) (Remove k) = StLMap (hdel k tbl) (drop k ord).
Proof. intros K I. rewrite (lm_next c tbl ord _ K). destruct (lmap_remove_spec k tbl ord I) as [E _]. rewrite E. reflexivity. Qed.

Lemma ls_add_next c tbl ord vs : ckind c = LinkedHashSet -> lset_inv tbl ord ->
  exists tbl', next c (StLSet tbl ord) (Add vs) = StLSet tbl' (fold_left order_step (map EIns vs) ord) /\
               lset_inv tbl' (fold_left order_step (map EIns vs) ord).
Proof.
  intros K I. rewrite (ls_next c tbl ord _ K). destruct (ls_adds_spec vs tbl ord I) as (t' & o' & E & I' & _ & O).
  rewrite E. subst o'. eauto.
Qed.

Lemma ls_rem_next c tbl ord vs : ckind c = LinkedHashSet -> lset_inv tbl ord ->
  exists tbl', next c (StLSet tbl ord) (RemoveVals vs) = StLSet tbl' (fold_left order_step (map ERem vs) ord) /\
               lset_inv tbl' (fold_left order_step (map ERem vs) ord).
Proof.
  intros K I. rewrite (ls_next c tbl ord _ K). destruct (ls_dels_spec vs tbl ord I) as (t' & o' & E & I' & _ & O).
  rewrite E. subst o'. eauto.
Qed.

Lemma order_ins_present k l : In k l -> order_step l (EIns k) = l.
Proof. intros H. cbn [order_step]. apply sp_smem_In in H. unfold smem in H. rewrite H. reflexivity. Qed.

Lemma order_ins_absent k l : ~ In k l -> order_step l (EIns k) = l ++ [k].
Proof.
  intros H. cbn [order_step]. destruct (existsb (Z.eqb k) l) eqn:E; [|reflexivity].
  exfalso. apply H. apply (sp_smem_In k l). exact E.
Qed.

Lemma order_ins_all_present vs : forall l, (forall x, In x vs -> In x l) -> fold_left order_step (map EIns vs) l = l.
Proof.
  induction vs as [|v vs IH]; intros l H; [reflexivity|].
  cbn [map fold_left]. rewrite order_ins_present by (apply H; left; reflexivity).
  apply IH. intros x Hx. apply H. right. assumption.
Qed.

Lemma filter_drop v vs l :
  filter (fun x => negb (smem x vs)) (drop v l) = filter (fun x => negb (smem x (v :: vs))) l.
Proof.
  unfold drop. induction l as [|a l IHl]; [reflexivity|].
  assert (Hs : forall x, smem x (v :: vs) = (x =? v) || smem x vs) by reflexivity.
  cbn [filter]. rewrite (Hs a).
  destruct (a =? v) eqn:E; cbn [negb orb].
  - exact IHl.
  - cbn [filter]. destruct (smem a vs); cbn [negb]; [exact IHl|f_equal; exact IHl].
Qed.

Lemma order_rems vs : forall l, fold_left order_step (map ERem vs) l = filter (fun x => negb (smem x vs)) l.
Proof.
  induction vs as [|v vs IH]; intros l.
  - cbn. induction l as [|a l IHl]; [reflexivity|]. cbn. f_equal. exact IHl.
  - cbn [map fold_left]. rewrite IH. cbn [order_step]. apply filter_drop.
Qed.

(* Put of a present key never moves it and updates the value in place; an absent key goes last *)
Theorem C09_put_present_keeps_place_map_proof : forall c ops k v, ckind c = LinkedHashMap ->
  let s := run c ops in
  let s' := next c s (Put k v) in
  (In k (keys_of c s) -> keys_of c s' = keys_of c s) /\
  (~ In k (keys_of c s) -> keys_of c s' = keys_of c s ++ [k]) /\
  get_of c s' k = oopt (Some v) /\
  (forall k', k' <> k -> get_of c s' k' = get_of c s k').
Proof.
  intros c ops k v K s s'. destruct (lmap_reach c ops K) as (tbl & ord & E & I).
  unfold s', s. rewrite E, (lm_put_next c tbl ord k v K I), !keys_of_lmap.
  split; [apply order_ins_present|]. split; [apply order_ins_absent|].
  cbn [get_of]. split.
  - rewrite sp_hget_hput, Z.eqb_refl. reflexivity.
  - intros k' Hne. rewrite sp_hget_hput. apply Z.eqb_neq in Hne. rewrite Hne. reflexivity.
Qed.

Theorem C09_add_present_keeps_place_set_proof : forall c ops vs, ckind c = LinkedHashSet ->
  let s := run c ops in
  (forall x, In x vs -> In x (values_of c s)) -> values_of c (next c s (Add vs)) = values_of c s.
Proof.
  intros c ops vs K s Hall. destruct (lset_reach c ops K) as (tbl & ord & E & I).
  unfold s in *. rewrite E in *. destruct (ls_add_next c tbl ord vs K I) as (t' & E' & _). rewrite E'.
  cbn [values_of] in *. apply order_ins_all_present. assumption.
Qed.

Theorem C09_add_absent_goes_last_set_proof : forall c ops k, ckind c = LinkedHashSet ->
  let s := run c ops in
  ~ In k (values_of c s) -> values_of c (next c s (Add [k])) = values_of c s ++ [k].
Proof.
  intros c ops k K s Hn. destruct (lset_reach c ops K) as (tbl & ord & E & I).
  unfold s in *. rewrite E in *. destruct (ls_add_next c tbl ord [k] K I) as (t' & E' & _). rewrite E'.
  cbn [values_of map fold_left] in *. apply order_ins_absent. assumption.
Qed.

(* removing a key never disturbs the relative order of the others *)
Theorem C09_remove_preserves_relative_order_map_proof : forall c ops k, ckind c = LinkedHashMap ->
  let s := run c ops in
  keys_of c (next c s (Remove k)) = filter (fun x => negb (x =? k)) (keys_of c s).
Proof.
  intros c ops k K s. destruct (lmap_reach c ops K) as (tbl & ord & E & I).
  unfold s. rewrite E, (lm_remove_next c tbl ord k K I), !keys_of_lmap. reflexivity.
Qed.

Theorem C09_remove_preserves_relative_order_set_proof : forall c ops vs, ckind c = LinkedHashSet ->
  let s := run c ops in
  values_of c (next c s (RemoveVals vs)) = filter (fun x => negb (existsb (Z.eqb x) vs)) (values_of c s).
Proof.
  intros c ops vs K s. destruct (lset_reach c ops K) as (tbl & ord & E & I).
  unfold s. rewrite E. destruct (ls_rem_next c tbl ord vs K I) as (t' & E' & _). rewrite E'.
  cbn [values_of]. apply order_rems.
Qed.

(* removing a key then inserting it again places it last *)
Theorem C09_remove_then_insert_last_map_proof : forall c ops k v, ckind c = LinkedHashMap ->
  let s := run c ops in
  keys_of c (next c (next c s (Remove k)) (Put k v)) = filter (fun x => negb (x =? k)) (keys_of c s) ++ [k].
Proof.
  intros c ops k v K s. destruct (lmap_reach c ops K) as (tbl & ord & E & I).
  unfold s. rewrite E, (lm_remove_next c tbl ord k K I).
  destruct (lmap_remove_spec k tbl ord I) as [_ I']. change (order_step ord (ERem k)) with (drop k ord) in I'.
  rewrite (lm_put_next c _ _ k v K I'), !keys_of_lmap. fold (drop k ord).
  apply order_ins_absent. rewrite sp_In_drop. tauto.
Qed.

Theorem C09_remove_then_insert_last_set_proof : forall c ops k, ckind c = LinkedHashSet ->
  let s := run c ops in
  values_of c (next c (next c s (RemoveVals [k])) (Add [k])) = filter (fun x => negb (x =? k)) (values_of c s) ++ [k].
Proof.
  intros c ops k K s. destruct (lset_reach c ops K) as (tbl & ord & E & I).
  unfold s. rewrite E. destruct (ls_rem_next c tbl ord [k] K I) as (t' & E' & I'). rewrite E'.
  destruct (ls_add_next c t' _ [k] K I') as (t'' & E'' & _). rewrite E''.
  cbn [values_of map fold_left]. change (order_step ord (ERem k)) with (drop k ord).
  change (filter (fun x => negb (x =? k)) ord) with (drop k ord).
  apply order_ins_absent. rewrite sp_In_drop. tauto.
Qed.

(* all enumerations agree *)
Lemma lmap_value_get tbl ord k : lmap_inv tbl ord -> In k ord -> hget k tbl = Some (lmap_value tbl k).
Proof.
  intros (H1 & H2 & H3) Hin. apply sp_smem_In in Hin. rewrite <- H3, sp_hmem_hget in Hin.
  unfold lmap_value. destruct (hget k tbl); [reflexivity|discriminate].
Qed.

Lemma enum_from_snd n l : map snd (enum_from n l) = l.
Proof. revert n. induction l as [|a l IH]; intros n; [reflexivity|]. cbn. rewrite IH. reflexivity. Qed.

Theorem C09_enumerations_agree_map_proof : forall c ops, ckind c = LinkedHashMap ->
  let s := run c ops in
  let es := entries_of c s in
  keys_of c s = map fst es /\
  values_of c s = map snd es /\
  (forall k v, In (k, v) es -> get_of c s k = oopt (Some v)) /\
  each_of c s = Some es /\
  to_json c s = OL [OZ 1; opairs es].
Proof.
  intros c ops K s es. destruct (lmap_reach c ops K) as (tbl & ord & E & I).
  unfold es, s. rewrite E. split; [reflexivity|]. split.
  { cbn [values_of entries_of]. unfold lmap_entries. rewrite map_map. reflexivity. }
  split.
  { cbn [entries_of get_of]. unfold lmap_entries. intros k v Hin. apply in_map_iff in Hin.
    destruct Hin as (k0 & He & Hin). inversion He; subst. rewrite (lmap_value_get tbl ord _ I Hin). reflexivity. }
  split.
  - cbn [each_of entries_of]. unfold script_fuel. cbn [size_of].
    rewrite (walk_ll_full ord (fun _ k => (k, lmap_value tbl k))) by reflexivity.
    unfold lmap_entries. f_equal.
    rewrite <- (enum_from_snd 0 ord) at 2. rewrite map_map. reflexivity.
  - unfold to_json. rewrite K. reflexivity.
Qed.

Theorem C09_enumerations_agree_set_proof : forall c ops, ckind c = LinkedHashSet ->
  let s := run c ops in
  each_of c s = Some (enum_from 0 (values_of c s)) /\
  to_json c s = OL [OZ 0; ozs (values_of c s)].
Proof.
  intros c ops K s. destruct (lset_reach c ops K) as (tbl & ord & E & I).
  unfold s. rewrite E. split.
  - cbn [each_of values_of]. unfold script_fuel. cbn [size_of].
    rewrite (walk_ll_full ord (fun i x => (i, x))).
    + f_equal. induction (enum_from 0 ord) as [|[i x] l IH]; [reflexivity|]. cbn. rewrite IH. reflexivity.
    + intros st. destruct (ll_cur ord st) as [[i x]|]; reflexivity.
  - unfold to_json. rewrite K. reflexivity.
Qed.

Theorem C09_no_crash_proof : forall c ops, is_linked_kind (ckind c) = true -> run c ops <> StCrash.
Proof.
  intros c ops K. destruct (linked_run c ops K) as [I _]. unfold linked_inv in I.
  intros E. rewrite E in I. destruct (ckind c); contradiction.
Qed.

(* table and ordering list of a LinkedHashMap never drift apart *)
Theorem C09_linked_map_inv_proof : forall c ops, ckind c = LinkedHashMap ->
  exists tbl ord, run c ops = StLMap tbl ord /\
    StronglySorted Z.lt (map fst tbl) /\ NoDup ord /\ Permutation (map fst tbl) ord.
Proof.
  intros c ops K. destruct (lmap_reach c ops K) as (tbl & ord & E & I). exists tbl, ord.
  split; [assumption|]. destruct I as (H1 & H2 & H3).
  assert (Hs : StronglySorted Z.lt (map fst tbl)).
  { apply (sp_keys_sorted Z.compare) in H1. clear - H1. induction H1 as [|a l Hs IH Hall]; constructor; [assumption|].
    eapply Forall_impl; [|exact Hall]. intros b Hb. apply Z.compare_lt_iff. exact Hb. }
  split; [assumption|]. split; [assumption|].
  apply NoDup_Permutation; [apply sp_zasc_NoDup; assumption|assumption|].
  intros x. rewrite <- sp_hmem_In, H3. apply sp_smem_In.
Qed.

Print Assumptions C09_order_proof.
Print Assumptions C09_put_present_keeps_place_map_proof.
Print Assumptions C09_add_present_keeps_place_set_proof.
Print Assumptions C09_add_absent_goes_last_set_proof.
Print Assumptions C09_remove_preserves_relative_order_map_proof.
Print Assumptions C09_remove_preserves_relative_order_set_proof.
Print Assumptions C09_remove_then_insert_last_map_proof.
Print Assumptions C09_remove_then_insert_last_set_proof.
Print Assumptions C09_enumerations_agree_map_proof.
Print Assumptions C09_enumerations_agree_set_proof.
Print Assumptions C09_no_crash_proof.
Print Assumptions C09_linked_map_inv_proof.
