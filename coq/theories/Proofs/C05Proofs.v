(* C05: the two stacks, the two plain queues and the circular buffer of the uniform machine
   (Model/Machine.v) refine the abstract LIFO / FIFO / bounded-FIFO sequence of Spec/FifoSpec.v,
   for every operation list.  The simulation relation [R c s q] says: machine state [s] of
   configuration [c] represents the abstract content [q] (listed in removal order).
   Final statements are restated in Properties/C05.v. *)
From Coq Require Import ZArith List Bool Lia Arith.
From Gods Require Import Common.Cmp Common.ListAux Spec.SeqSpec Spec.FifoSpec Model.Ops Model.Lists Model.Ring
  Model.Machine Proofs.RingProofs.
Import ListNotations.

(* ---------- list-level facts about the per-kind functions used by stacks and queues ---------- *)

Lemma within_nil : forall i, within i (@nil Z) = false.
Proof.
  intros i. unfold within, zlen. cbn [length].
  destruct (Z.leb_spec 0 i), (Z.ltb_spec i (Z.of_nat 0)); cbn; auto; lia.
Qed.

Lemma within_0_cons : forall (y : Z) q, within 0%Z (y :: q) = true.
Proof.
  intros y q. unfold within, zlen. cbn [length].
  apply andb_true_iff; split; [apply Z.leb_le|apply Z.ltb_lt]; lia.
Qed.

Lemma within_last : forall (l : list Z) y, within (zlen (l ++ [y]) - 1)%Z (l ++ [y]) = true.
Proof.
  intros l y. unfold within, zlen. rewrite app_length. cbn [length].
  apply andb_true_iff; split; [apply Z.leb_le|apply Z.ltb_lt]; lia.
Qed.

Lemma last_index : forall (l : list Z) y, Z.to_nat (zlen (l ++ [y]) - 1) = length l.
Proof.
  intros l y. unfold zlen. rewrite app_length. cbn [length]. lia.
Qed.

Lemma al_get_last : forall l y, al_get (zlen (l ++ [y]) - 1)%Z (l ++ [y]) = Some y.
Proof.
  intros l y. unfold al_get. rewrite within_last, last_index. cbn [negb].
  rewrite nth_error_app2 by lia. now rewrite Nat.sub_diag.
Qed.

Lemma al_remove_last : forall l y, al_remove (zlen (l ++ [y]) - 1)%Z (l ++ [y]) = l.
Proof.
  intros l y. unfold al_remove. rewrite within_last, last_index. cbn [negb].
  rewrite firstn_app, Nat.sub_diag, firstn_all. cbn [firstn].
  rewrite skipn_all2 by (rewrite app_length; cbn [length]; lia).
  now rewrite !app_nil_r.
Qed.

(* ArrayStack: the top is the last cell of the backing slice *)
Lemma al_get_top : forall q, al_get (zlen (rev q) - 1)%Z (rev q) = hd_error q.
Proof.
  intros [|y q]; cbn [rev hd_error].
  - unfold al_get. now rewrite within_nil.
  - apply al_get_last.
Qed.

Lemma al_remove_top : forall q, al_remove (zlen (rev q) - 1)%Z (rev q) = rev (tl q).
Proof.
  intros [|y q]; cbn [rev tl].
  - unfold al_remove. now rewrite within_nil.
  - apply al_remove_last.
Qed.

Lemma al_get_0 : forall q, al_get 0%Z q = hd_error q.
Proof.
  intros [|y q]; unfold al_get; [now rewrite within_nil|now rewrite within_0_cons].
Qed.

Lemma al_remove_0 : forall q, al_remove 0%Z q = tl q.
Proof.
  intros [|y q]; unfold al_remove; [now rewrite within_nil|now rewrite within_0_cons].
Qed.

Lemma sll_get_0 : forall q, sll_get 0%Z q = hd_error q.
Proof.
  intros [|y q]; unfold sll_get; [now rewrite within_nil|now rewrite within_0_cons].
Qed.

Lemma sll_remove_0 : forall q, sll_remove 0%Z q = tl q.
Proof.
  intros [|y q]; unfold sll_remove; [now rewrite within_nil|rewrite within_0_cons].
  cbn [negb]. unfold zlen. cbn [length].
  destruct (Z.eqb_spec (Z.of_nat (S (length q))) 1) as [E|N].
  - destruct q; [reflexivity|cbn [length] in E; lia].
  - reflexivity.
Qed.

Lemma sll_add_app : forall vs l, sll_add vs l = l ++ vs.
Proof.
  unfold sll_add. induction vs as [|v vs IH]; intros l; cbn [fold_left].
  - now rewrite app_nil_r.
  - rewrite IH, <- app_assoc. reflexivity.
Qed.

Lemma ring_enqs_renqs : forall vs r, ring_enqs vs r = renqs vs r.
Proof.
  induction vs as [|v vs IH]; intros r; cbn [ring_enqs renqs]; auto.
Qed.

(* ---------- the simulation relation ---------- *)

Definition R (c : config) (s : state) (q : list Z) : Prop :=
  match ckind c with
  | ArrayStack => s = StSeq (rev q)                    (* backing slice: bottom first *)
  | LinkedListStack | ArrayQueue | LinkedListQueue => s = StSeq q
  | CircularBuffer => exists r, s = StRing r /\ ring_inv r /\ rmax r = cap_of c /\ rvalues r = q
  | _ => False
  end.

Lemma R_ring_intro : forall c r q,
  ckind c = CircularBuffer -> ring_inv r -> rmax r = cap_of c -> rvalues r = q -> R c (StRing r) q.
Proof.
  intros c r q Hk Hi Hm Hq. unfold R. rewrite Hk. exists r. auto.
Qed.

Lemma cap_pos : forall c, ckind c = CircularBuffer -> c05_config c -> 0 < cap_of c.
Proof.
  intros c Hk Hc. unfold c05_config in Hc. rewrite Hk in Hc. unfold cap_of. lia.
Qed.

Lemma init_ring : forall c, ckind c = CircularBuffer -> c05_config c -> init c = StRing (rinit (cap_of c)).
Proof.
  intros c Hk Hc. unfold c05_config in Hc. rewrite Hk in Hc. unfold init. rewrite Hk.
  destruct (Z.ltb_spec (ccap c) 1) as [C|_]; [lia|reflexivity].
Qed.

Lemma R_init : forall c, c05_config c -> R c (init c) [].
Proof.
  intros c Hc. unfold R. destruct (ckind c) eqn:Hk; try (unfold c05_config in Hc; rewrite Hk in Hc; contradiction);
    try (unfold init; rewrite Hk; reflexivity).
  exists (rinit (cap_of c)). repeat split; auto using init_ring; try apply rinit_inv; auto using cap_pos.
Qed.

Lemma R_values : forall c s q, R c s q -> values_of c s = q.
Proof.
  intros c s q H. unfold R in H. destruct (ckind c) eqn:Hk; try contradiction.
  - subst s. unfold values_of. rewrite Hk. apply rev_involutive.
  - subst s. unfold values_of. now rewrite Hk.
  - subst s. unfold values_of. now rewrite Hk.
  - subst s. unfold values_of. now rewrite Hk.
  - destruct H as (r & -> & _ & _ & <-). reflexivity.
Qed.

Lemma R_not_crash : forall c s q, R c s q -> s <> StCrash.
Proof.
  intros c s q H. unfold R in H. destruct (ckind c); try contradiction; try (subst s; discriminate).
  destruct H as (r & -> & _). discriminate.
Qed.

Lemma R_size : forall c s q, R c s q -> size_of c s = Z.of_nat (length q).
Proof.
  intros c s q H. unfold R in H. destruct (ckind c) eqn:Hk; try contradiction;
    try (subst s; unfold size_of, zlen; now rewrite ?rev_length).
  destruct H as (r & -> & _ & _ & <-). unfold size_of. now rewrite rvalues_length.
Qed.

Lemma R_peek : forall c s q, R c s q -> peek_of c s = oopt (hd_error q).
Proof.
  intros c s q H. unfold R in H. destruct (ckind c) eqn:Hk; try contradiction;
    try (subst s; unfold peek_of; rewrite Hk).
  - now rewrite al_get_top.
  - now rewrite sll_get_0.
  - now rewrite al_get_0.
  - now rewrite sll_get_0.
  - destruct H as (r & -> & Hinv & _ & <-). unfold peek_of. now rewrite rpeek_abs.
Qed.

(* every operation outside the six state-changing ones (and the two sorted-values observers and
   Iter) is "not offered" and leaves the state alone; written once for both state shapes *)
Ltac unsupported Hk :=
  unfold step, abs_step, pure, set_algebra; rewrite ?Hk;
  cbn [fst snd is_stack is_queue has_enumerable negb c05_specified];
  repeat split; auto.


Ltac seq_case Hk Hv :=
  unsupported Hk;
  unfold abs_remove, abs_push, abs_enqueue, abs_load, from_json, load_array, add_values, init;
  rewrite ?Hk; cbn [is_kv fst snd];
  try match goal with |- context [match ?d with DErr => _ | _ => _ end] => destruct d end;
  cbn [fst snd sll_prepend al_add fold_left rev app tl hd_error];
  rewrite ?al_get_top, ?al_remove_top, ?al_get_0, ?al_remove_0, ?sll_get_0, ?sll_remove_0, ?sll_add_app,
    ?rev_involutive, ?Hv;
  auto; try discriminate.

Lemma R_step : forall c s q o, c05_config c -> R c s q ->
  R c (fst (fst (step c s o))) (fst (abs_step c q o)) /\
  (c05_specified o = true -> snd (fst (step c s o)) = snd (abs_step c q o)) /\
  snd (step c s o) = onone.
Proof.
  intros c s q o Hc HR.
  pose proof (R_values c s q HR) as Hv.
  unfold R in HR. destruct (ckind c) eqn:Hk; try contradiction.
  - (* ArrayStack *)
    subst s. unfold R. rewrite Hk.
    destruct o; seq_case Hk Hv. 
  - subst s. unfold R. rewrite Hk.
    destruct o; seq_case Hk Hv. 
  - subst s. unfold R. rewrite Hk.
    destruct o; seq_case Hk Hv. 
  - subst s. unfold R. rewrite Hk.
    destruct o; seq_case Hk Hv.
  - destruct HR as (r & -> & Hinv & Hmax & Hq).
    assert (Hsame : R c (StRing r) q) by (apply R_ring_intro; auto).
    destruct o; try (unsupported Hk; rewrite ?Hv; auto; discriminate).
    + (* Enqueue *)
      unsupported Hk. unfold abs_enqueue. rewrite Hk, <- Hmax, <- Hq.
      apply R_ring_intro; auto using renq_inv, renq_abs. now rewrite renq_max.
    + (* Dequeue *)
      unfold step, abs_step, abs_remove. rewrite Hk. cbn [is_queue fst snd].
      pose proof (rdeq_abs r Hinv) as Hd. pose proof (rdeq_inv r Hinv) as Hi. pose proof (rdeq_max r) as Hm.
      rewrite Hq in Hd. destruct q as [|y q'].
      * rewrite Hd. cbn [fst snd tl hd_error]. auto.
      * destruct Hd as (r' & Hd & Hq'). rewrite Hd in *. cbn [fst snd tl hd_error] in *.
        split; [|auto]. apply R_ring_intro; auto. congruence.
    + (* Clear *)
      unsupported Hk. apply R_ring_intro; auto using rclear_inv.
    + (* FromJSON *)
      unfold step, abs_step, from_json, load_array. rewrite Hk, (init_ring c Hk Hc). cbn [is_kv].
      pose proof (rinit_inv (cap_of c) (cap_pos c Hk Hc)) as Hi0.
      destruct d; cbn [fst snd]; (split; [|auto]); auto.
      * apply R_ring_intro; auto.
      * rewrite ring_enqs_renqs. apply R_ring_intro; auto using renqs_inv.
        -- now rewrite renqs_max.
        -- rewrite renqs_abs by assumption. unfold abs_load. now rewrite Hk.
Qed.

(* ---------- runs ---------- *)

Lemma run_from_snoc : forall c s ops o, run_from c s (ops ++ [o]) = fst (fst (step c (run_from c s ops) o)).
Proof.
  intros c s ops o. unfold run_from. now rewrite fold_left_app.
Qed.

Lemma run_snoc : forall c ops o, run c (ops ++ [o]) = fst (fst (step c (run c ops) o)).
Proof.
  intros c ops o. apply run_from_snoc.
Qed.

Lemma abs_run_from_snoc : forall c q ops o,
  abs_run_from c q (ops ++ [o]) = fst (abs_step c (abs_run_from c q ops) o).
Proof.
  intros c q ops o. unfold abs_run_from. now rewrite fold_left_app.
Qed.

Lemma abs_run_snoc : forall c ops o, abs_run c (ops ++ [o]) = fst (abs_step c (abs_run c ops) o).
Proof.
  intros c ops o. apply abs_run_from_snoc.
Qed.

Lemma R_run_from : forall c, c05_config c -> forall ops s q,
  R c s q -> R c (run_from c s ops) (abs_run_from c q ops).
Proof.
  intros c Hc. induction ops as [|o ops IH]; intros s q HR; [exact HR|].
  cbn [run_from abs_run_from fold_left]. apply IH. now apply R_step.
Qed.

Lemma R_run : forall c, c05_config c -> forall ops, R c (run c ops) (abs_run c ops).
Proof.
  intros c Hc ops. apply R_run_from; auto using R_init.
Qed.

(* ---------- the theorems of C05 ---------- *)

Theorem C05_never_crashes : forall c, c05_config c -> forall ops, run c ops <> StCrash.
Proof.
  intros c Hc ops. eapply R_not_crash. now apply R_run.
Qed.

(* Values() is the abstract content: elements in the order they would be removed *)
Theorem C05_refines : forall c, c05_config c -> forall ops, values_of c (run c ops) = abs_run c ops.
Proof.
  intros c Hc ops. apply R_values. now apply R_run.
Qed.

(* every operation: the new content and the result are those of the abstract machine *)
Theorem C05_step : forall c, c05_config c -> forall ops o,
  values_of c (fst (fst (step c (run c ops) o))) = fst (abs_step c (abs_run c ops) o) /\
  (c05_specified o = true -> snd (fst (step c (run c ops) o)) = snd (abs_step c (abs_run c ops) o)).
Proof.
  intros c Hc ops o. destruct (R_step c (run c ops) (abs_run c ops) o Hc (R_run c Hc ops)) as (H1 & H2 & _).
  split; [now apply R_values|exact H2].
Qed.

Theorem C05_peek : forall c, c05_config c -> forall ops,
  peek_of c (run c ops) = oopt (hd_error (abs_run c ops)).
Proof.
  intros c Hc ops. apply R_peek. now apply R_run.
Qed.

Theorem C05_size : forall c, c05_config c -> forall ops,
  size_of c (run c ops) = Z.of_nat (length (abs_run c ops)).
Proof.
  intros c Hc ops. apply R_size. now apply R_run.
Qed.
