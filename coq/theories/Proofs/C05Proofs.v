(* C05: the two stacks, the two plain queues and the circular buffer of the uniform machine
   (Model/Machine.v) refine the abstract LIFO / FIFO / bounded-FIFO sequence of Spec/FifoSpec.v,
   for every operation list.  The simulation relation [R c s q] says: machine state [s] of
   configuration [c] represents the abstract content [q] (listed in removal order).
   Final statements are restated in Properties/C05.v. *)
From Coq Require Import ZArith List Bool Lia Arith.
From Gods Require Import Common.Cmp Common.ListAux Spec.SeqSpec Spec.FifoSpec Model.Ops Model.Lists Model.Ring
  Model.Machine Proofs.RingProofs.
Import ListNotations.

(* ---------- list-level facts about the per-kind functions used by stacks and queues ---------- *)

Lemma within_nil : forall i, within i (@nil Z) = false.
Proof.
  intros i. unfold within, zlen. cbn [length].
  destruct (Z.leb_spec 0 i), (Z.ltb_spec i (Z.of_nat 0)); cbn; auto; lia.
Qed.

Lemma within_0_cons : forall (y : Z) q, within 0%Z (y :: q) = true.
Proof.
  intros y q. unfold within, zlen. cbn [length].
  apply andb_true_iff; split; [apply Z.leb_le|apply Z.ltb_lt]; lia.
Qed.

Lemma within_last : forall (l : list Z) y, within (zlen (l ++ [y]) - 1)%Z (l ++ [y]) = true.
Proof.
  intros l y. unfold within, zlen. rewrite app_length. cbn [length].
  apply andb_true_iff; split; [apply Z.leb_le|apply Z.ltb_lt]; lia.
Qed.

Lemma last_index : forall (l : list Z) y, Z.to_nat (zlen (l ++ [y]) - 1) = length l.
Proof.
  intros l y. unfold zlen. rewrite app_length. cbn [length]. lia.
Qed.

Lemma al_get_last : forall l y, al_get (zlen (l ++ [y]) - 1)%Z (l ++ [y]) = Some y.
Proof.
  intros l y. unfold al_get. rewrite within_last, last_index. cbn [negb].
  rewrite nth_error_app2 by lia. now rewrite Nat.sub_diag.
Qed.

Lemma al_remove_last : forall l y, al_remove (zlen (l ++ [y]) - 1)%Z (l ++ [y]) = l.
Proof.
  intros l y. unfold al_remove. rewrite within_last, last_index. cbn [negb].
  rewrite firstn_app, Nat.sub_diag, firstn_all. cbn [firstn].
  rewrite skipn_all2 by (rewrite app_length; cbn [length]; lia).
  now rewrite !app_nil_r.
Qed.

(* ArrayStack: the top is the last cell of the backing slice *)
Lemma al_get_top : forall q, al_get (zlen (rev q) - 1)%Z (rev q) = hd_error q.
Proof.
  intros [|y q]; cbn [rev hd_error].
  - unfold al_get. now rewrite within_nil.
  - apply al_get_last.
Qed.

Lemma al_remove_top : forall q, al_remove (zlen (rev q) - 1)%Z (rev q) = rev (tl q).
Proof.
  intros [|y q]; cbn [rev tl].
  - unfold al_remove. now rewrite within_nil.
  - apply al_remove_last.
Qed.

Lemma al_get_0 : forall q, al_get 0%Z q = hd_error q.
Proof.
  intros [|y q]; unfold al_get; [now rewrite within_nil|now rewrite within_0_cons].
Qed.

Lemma al_remove_0 : forall q, al_remove 0%Z q = tl q.
Proof.
  intros [|y q]; unfold al_remove; [now rewrite within_nil|now rewrite within_0_cons].
Qed.

Lemma sll_get_0 : forall q, sll_get 0%Z q = hd_error q.
Proof.
  intros [|y q]; unfold sll_get; [now rewrite within_nil|now rewrite within_0_cons].
Qed.

Lemma sll_remove_0 : forall q, sll_remove 0%Z q = tl q.
Proof.
  intros [|y q]; unfold sll_remove; [now rewrite within_nil|rewrite within_0_cons].
  cbn [negb]. unfold zlen. cbn [length].
  destruct (Z.eqb_spec (Z.of_nat (S (length q))) 1) as [E|N].
  - destruct q; [reflexivity|cbn [length] in E; lia].
  - reflexivity.
Qed.

Lemma sll_add_app : forall vs l, sll_add vs l = l ++ vs.
Proof.
  unfold sll_add. induction vs as [|v vs IH]; intros l; cbn [fold_left].
  - now rewrite app_nil_r.
  - rewrite IH, <- app_assoc. reflexivity.
Qed.

Lemma ring_enqs_renqs : forall vs r, ring_enqs vs r = renqs vs r.
Proof.
  induction vs as [|v vs IH]; intros r; cbn [ring_enqs renqs]; auto.
Qed.

(* ---------- the simulation relation ---------- *)

Definition R (c : config) (s : state) (q : list Z) : Prop :=
  match ckind c with
  | ArrayStack => s = StSeq (rev q)                    (* backing slice: bottom first *)
  | LinkedListStack | ArrayQueue | LinkedListQueue => s = StSeq q
  | CircularBuffer => exists r, s = StRing r /\ ring_inv r /\ rmax r = cap_of c /\ rvalues r = q
  | _ => False
  end.

Lemma R_ring_intro : forall c r q,
  ckind c = CircularBuffer -> ring_inv r -> rmax r = cap_of c -> rvalues r = q -> R c (StRing r) q.
Proof.
  intros c r q Hk Hi Hm Hq. unfold R. rewrite Hk. exists r. auto.
Qed.

Lemma cap_pos : forall c, ckind c = CircularBuffer -> c05_config c -> 0 < cap_of c.
Proof.
  intros c Hk Hc. unfold c05_config in Hc. rewrite Hk in Hc. unfold cap_of. lia.
Qed.

Lemma init_ring : forall c, ckind c = CircularBuffer -> c05_config c -> init c = StRing (rinit (cap_of c)).
Proof.
  intros c Hk Hc. unfold c05_config in Hc. rewrite Hk in Hc. unfold init. rewrite Hk.
  destruct (Z.ltb_spec (ccap c) 1) as [C|_]; [lia|reflexivity].
Qed.

Lemma R_init : forall c, c05_config c -> R c (init c) [].
Proof.
  intros c Hc. unfold R. destruct (ckind c) eqn:Hk; try (unfold c05_config in Hc; rewrite Hk in Hc; contradiction);
    try (unfold init; rewrite Hk; reflexivity).
  exists (rinit (cap_of c)). repeat split; auto using init_ring; try apply rinit_inv; auto using cap_pos.
Qed.

Lemma R_values : forall c s q, R c s q -> values_of c s = q.
Proof.
  intros c s q H. unfold R in H. destruct (ckind c) eqn:Hk; try contradiction.
  - subst s. unfold values_of. rewrite Hk. apply rev_involutive.
  - subst s. unfold values_of. now rewrite Hk.
  - subst s. unfold values_of. now rewrite Hk.
  - subst s. unfold values_of. now rewrite Hk.
  - destruct H as (r & -> & _ & _ & <-). reflexivity.
Qed.

Lemma R_not_crash : forall c s q, R c s q -> s <> StCrash.
Proof.
  intros c s q H. unfold R in H. destruct (ckind c); try contradiction; try (subst s; discriminate).
  destruct H as (r & -> & _). discriminate.
Qed.

Lemma R_size : forall c s q, R c s q -> size_of c s = Z.of_nat (length q).
Proof.
  intros c s q H. unfold R in H. destruct (ckind c) eqn:Hk; try contradiction;
    try (subst s; unfold size_of, zlen; now rewrite ?rev_length).
  destruct H as (r & -> & _ & _ & <-). unfold size_of. now rewrite rvalues_length.
Qed.

Lemma R_peek : forall c s q, R c s q -> peek_of c s = oopt (hd_error q).
Proof.
  intros c s q H. unfold R in H. destruct (ckind c) eqn:Hk; try contradiction;
    try (subst s; unfold peek_of; rewrite Hk).
  - now rewrite al_get_top.
  - now rewrite sll_get_0.
  - now rewrite al_get_0.
  - now rewrite sll_get_0.
  - destruct H as (r & -> & Hinv & _ & <-). unfold peek_of. now rewrite rpeek_abs.
Qed.

(* every operation outside the six state-changing ones (and the two sorted-values observers and
   Iter) is "not offered" and leaves the state alone; written once for both state shapes *)
Ltac unsupported Hk :=
  unfold step, abs_step, pure, set_algebra; rewrite ?Hk;
  cbn [fst snd is_stack is_queue has_enumerable negb c05_specified];
  repeat split; auto.


Ltac seq_case Hk Hv :=
  unsupported Hk;
  unfold abs_remove, abs_push, abs_enqueue, abs_load, from_json, load_array, add_values, init;
  rewrite ?Hk; cbn [is_kv fst snd];
  try match goal with |- context [match ?d with DErr => _ | _ => _ end] => destruct d end;
  cbn [fst snd sll_prepend al_add fold_left rev app tl hd_error];
  rewrite ?al_get_top, ?al_remove_top, ?al_get_0, ?al_remove_0, ?sll_get_0, ?sll_remove_0, ?sll_add_app,
    ?rev_involutive, ?Hv;
  auto; try discriminate.

Lemma R_step : forall c s q o, c05_config c -> R c s q ->
  R c (fst (fst (step c s o))) (fst (abs_step c q o)) /\
  (c05_specified o = true -> snd (fst (step c s o)) = snd (abs_step c q o)) /\
  snd (step c s o) = onone.
Proof.
  intros c s q o Hc HR.
  pose proof (R_values c s q HR) as Hv.
  unfold R in HR. destruct (ckind c) eqn:Hk; try contradiction.
  - (* ArrayStack *)
    subst s. unfold R. rewrite Hk.
    destruct o; seq_case Hk Hv. 
  - subst s. unfold R. rewrite Hk.
    destruct o; seq_case Hk Hv. 
  - subst s. unfold R. rewrite Hk.
    destruct o; seq_case Hk Hv. 
  - subst s. unfold R. rewrite Hk.
    destruct o; seq_case Hk Hv.
  - destruct HR as (r & -> & Hinv & Hmax & Hq).
    assert (Hsame : R c (StRing r) q) by (apply R_ring_intro; auto).
    destruct o; try (unsupported Hk; rewrite ?Hv; auto; discriminate).
    + (* Enqueue *)
      unsupported Hk. unfold abs_enqueue. rewrite Hk, <- Hmax, <- Hq.
      apply R_ring_intro; auto using renq_inv, renq_abs. now rewrite renq_max.
    + (* Dequeue *)
      unfold step, abs_step, abs_remove. rewrite Hk. cbn [is_queue fst snd].
      pose proof (rdeq_abs r Hinv) as Hd. pose proof (rdeq_inv r Hinv) as Hi. pose proof (rdeq_max r) as Hm.
      rewrite Hq in Hd. destruct q as [|y q'].
      * rewrite Hd. cbn [fst snd tl hd_error]. auto.
      * destruct Hd as (r' & Hd & Hq'). rewrite Hd in *. cbn [fst snd tl hd_error] in *.
        split; [|auto]. apply R_ring_intro; auto. congruence.
    + (* Clear *)
      unsupported Hk. apply R_ring_intro; auto using rclear_inv.
    + (* FromJSON *)
      unfold step, abs_step, from_json, load_array. rewrite Hk, (init_ring c Hk Hc). cbn [is_kv].
      pose proof (rinit_inv (cap_of c) (cap_pos c Hk Hc)) as Hi0.
      match goal with |- context [match ?d0 with DErr => _ | _ => _ end] => destruct d0 end; cbn [fst snd]; (split; [|auto]); auto.
      * apply R_ring_intro; auto.
      * rewrite ring_enqs_renqs. apply R_ring_intro; auto using renqs_inv.
        -- now rewrite renqs_max.
        -- rewrite renqs_abs by assumption. unfold abs_load. now rewrite Hk.
Qed.

(* ---------- runs ---------- *)

Lemma run_from_snoc : forall c s ops o, run_from c s (ops ++ [o]) = fst (fst (step c (run_from c s ops) o)).
Proof.
  intros c s ops o. unfold run_from. now rewrite fold_left_app.
Qed.

Lemma run_snoc : forall c ops o, run c (ops ++ [o]) = fst (fst (step c (run c ops) o)).
Proof.
  intros c ops o. apply run_from_snoc.
Qed.

Lemma abs_run_from_snoc : forall c q ops o,
  abs_run_from c q (ops ++ [o]) = fst (abs_step c (abs_run_from c q ops) o).
Proof.
  intros c q ops o. unfold abs_run_from. now rewrite fold_left_app.
Qed.

Lemma abs_run_snoc : forall c ops o, abs_run c (ops ++ [o]) = fst (abs_step c (abs_run c ops) o).
Proof.
  intros c ops o. apply abs_run_from_snoc.
Qed.

Lemma R_run_from : forall c, c05_config c -> forall ops s q,
  R c s q -> R c (run_from c s ops) (abs_run_from c q ops).
Proof.
  intros c Hc. induction ops as [|o ops IH]; intros s q HR; [exact HR|].
  cbn [run_from abs_run_from fold_left]. apply IH. now apply R_step.
Qed.

Lemma R_run : forall c, c05_config c -> forall ops, R c (run c ops) (abs_run c ops).
Proof.
  intros c Hc ops. apply R_run_from; auto using R_init.
Qed.

(* ---------- the theorems of C05 ---------- *)

Theorem C05_never_crashes : forall c, c05_config c -> forall ops, run c ops <> StCrash.
Proof.
  intros c Hc ops. eapply R_not_crash. now apply R_run.
Qed.

(* Values() is the abstract content: elements in the order they would be removed *)
Theorem C05_refines : forall c, c05_config c -> forall ops, values_of c (run c ops) = abs_run c ops.
Proof.
  intros c Hc ops. apply R_values. now apply R_run.
Qed.

(* every operation: the new content and the result are those of the abstract machine *)
Theorem C05_step : forall c, c05_config c -> forall ops o,
  values_of c (fst (fst (step c (run c ops) o))) = fst (abs_step c (abs_run c ops) o) /\
  (c05_specified o = true -> snd (fst (step c (run c ops) o)) = snd (abs_step c (abs_run c ops) o)).
Proof.
  intros c Hc ops o. destruct (R_step c (run c ops) (abs_run c ops) o Hc (R_run c Hc ops)) as (H1 & H2 & _).
  split; [now apply R_values|exact H2].
Qed.

Theorem C05_peek : forall c, c05_config c -> forall ops,
  peek_of c (run c ops) = oopt (hd_error (abs_run c ops)).
Proof.
  intros c Hc ops. apply R_peek. now apply R_run.
Qed.

Theorem C05_size : forall c, c05_config c -> forall ops,
  size_of c (run c ops) = Z.of_nat (length (abs_run c ops)).
Proof.
  intros c Hc ops. apply R_size. now apply R_run.
Qed.

(* ---------- machine-level laws (no abstract run: Values() before vs. after one operation) ---------- *)

Theorem C05_step_values : forall c, c05_config c -> forall ops o,
  values_of c (run c (ops ++ [o])) = fst (abs_step c (values_of c (run c ops)) o) /\
  (c05_specified o = true ->
   snd (fst (step c (run c ops) o)) = snd (abs_step c (values_of c (run c ops)) o)).
Proof.
  intros c Hc ops o. rewrite run_snoc, (C05_refines c Hc ops). now apply C05_step.
Qed.

Lemma stack_config : forall c, is_stack (ckind c) = true -> c05_config c.
Proof.
  intros c H. unfold c05_config. destruct (ckind c); try discriminate; exact I.
Qed.

Theorem C05_push : forall c, is_stack (ckind c) = true -> forall ops v,
  values_of c (run c (ops ++ [Push v])) = v :: values_of c (run c ops).
Proof.
  intros c Hk ops v. destruct (C05_step_values c (stack_config c Hk) ops (Push v)) as (H & _).
  rewrite H. cbn [abs_step]. now rewrite Hk.
Qed.

Theorem C05_pop : forall c, is_stack (ckind c) = true -> forall ops,
  snd (fst (step c (run c ops) Pop)) = oopt (hd_error (values_of c (run c ops))) /\
  values_of c (run c (ops ++ [Pop])) = tl (values_of c (run c ops)).
Proof.
  intros c Hk ops. destruct (C05_step_values c (stack_config c Hk) ops Pop) as (H1 & H2).
  rewrite H1, (H2 eq_refl). cbn [abs_step]. rewrite Hk. split; reflexivity.
Qed.

Theorem C05_enqueue : forall c, ckind c = ArrayQueue \/ ckind c = LinkedListQueue -> forall ops v,
  values_of c (run c (ops ++ [Enqueue v])) = values_of c (run c ops) ++ [v].
Proof.
  intros c Hk ops v.
  assert (Hc : c05_config c) by (unfold c05_config; destruct Hk as [-> | ->]; exact I).
  destruct (C05_step_values c Hc ops (Enqueue v)) as (H & _).
  rewrite H. cbn [abs_step]. unfold abs_enqueue. destruct Hk as [-> | ->]; reflexivity.
Qed.

Theorem C05_ring_enqueue : forall c, ckind c = CircularBuffer -> (1 <= ccap c)%Z -> forall ops v,
  values_of c (run c (ops ++ [Enqueue v])) = lastn (cap_of c) (values_of c (run c ops) ++ [v]).
Proof.
  intros c Hk Hcap ops v.
  assert (Hc : c05_config c) by (unfold c05_config; now rewrite Hk).
  destruct (C05_step_values c Hc ops (Enqueue v)) as (H & _).
  rewrite H. cbn [abs_step]. unfold abs_enqueue. now rewrite Hk.
Qed.

Theorem C05_dequeue : forall c, c05_config c -> is_queue (ckind c) = true -> forall ops,
  snd (fst (step c (run c ops) Dequeue)) = oopt (hd_error (values_of c (run c ops))) /\
  values_of c (run c (ops ++ [Dequeue])) = tl (values_of c (run c ops)).
Proof.
  intros c Hc Hk ops. destruct (C05_step_values c Hc ops Dequeue) as (H1 & H2).
  rewrite H1, (H2 eq_refl). cbn [abs_step]. rewrite Hk. split; reflexivity.
Qed.

Theorem C05_clear : forall c, c05_config c -> forall ops, values_of c (run c (ops ++ [Clear])) = [].
Proof.
  intros c Hc ops. destruct (C05_step_values c Hc ops Clear) as (H & _). now rewrite H.
Qed.

(* ---------- the ring: bounded, Full() <-> Size() = capacity, eviction of exactly the oldest ---------- *)

Lemma ring_config : forall c, ckind c = CircularBuffer -> (1 <= ccap c)%Z -> c05_config c.
Proof.
  intros c Hk Hcap. unfold c05_config. now rewrite Hk.
Qed.

Lemma ring_run : forall c, ckind c = CircularBuffer -> (1 <= ccap c)%Z -> forall ops,
  exists r, run c ops = StRing r /\ ring_inv r /\ rmax r = cap_of c /\ rvalues r = abs_run c ops.
Proof.
  intros c Hk Hcap ops. pose proof (R_run c (ring_config c Hk Hcap) ops) as H.
  unfold R in H. now rewrite Hk in H.
Qed.

Theorem C05_bounded : forall c, ckind c = CircularBuffer -> (1 <= ccap c)%Z -> forall ops,
  length (abs_run c ops) <= cap_of c.
Proof.
  intros c Hk Hcap ops. destruct (ring_run c Hk Hcap ops) as (r & _ & Hi & Hm & <-).
  rewrite <- Hm. now apply rvalues_bounded.
Qed.

Theorem C05_full : forall c, ckind c = CircularBuffer -> (1 <= ccap c)%Z -> forall ops,
  exists r, run c ops = StRing r /\
    rfullb r = (length (abs_run c ops) =? cap_of c) /\
    rfullb r = (size_of c (run c ops) =? ccap c)%Z /\
    In (TFull, obool (rfullb r)) (observe c 1 (run c ops)).
Proof.
  intros c Hk Hcap ops. destruct (ring_run c Hk Hcap ops) as (r & Hr & Hi & Hm & Hq).
  exists r. split; [exact Hr|]. rewrite Hr. split; [|split].
  - rewrite <- Hq, <- Hm. now apply rfull_abs.
  - unfold rfullb, size_of. rewrite Hm. unfold cap_of.
    destruct (Nat.eqb_spec (rsize r) (Z.to_nat (ccap c))) as [E|N];
      destruct (Z.eqb_spec (Z.of_nat (rsize r)) (ccap c)) as [E'|N']; auto; lia.
  - unfold observe. rewrite Hk. cbn [Z.leb Z.compare is_kv andb app].
    right. right. right. right. left. reflexivity.
Qed.

(* the observation vector has exactly one Full() entry, and it says "Size() = capacity" *)
Theorem C05_full_observed : forall c, ckind c = CircularBuffer -> (1 <= ccap c)%Z -> forall ops o,
  In (TFull, o) (observe c 1 (run c ops)) <-> o = obool (abs_full c (abs_run c ops)).
Proof.
  intros c Hk Hcap ops o. destruct (C05_full c Hk Hcap ops) as (r & Hr & Hf & _ & Hin).
  unfold abs_full. rewrite <- Hf. split.
  - intros H. rewrite Hr in H. unfold observe in H. rewrite Hk in H.
    cbn [Z.leb Z.compare is_kv andb app each_of each_back] in H.
    repeat (destruct H as [H|H]; [try discriminate H|]).
    + now inversion H.
    + destruct H.
  - intros ->. exact Hin.
Qed.

Theorem C05_values_bounded : forall c, ckind c = CircularBuffer -> (1 <= ccap c)%Z -> forall ops,
  length (values_of c (run c ops)) <= cap_of c.
Proof.
  intros c Hk Hcap ops. rewrite (C05_refines c (ring_config c Hk Hcap)). now apply C05_bounded.
Qed.

(* enqueuing into a full buffer discards exactly the oldest element ... *)
Theorem C05_evicts : forall c, ckind c = CircularBuffer -> (1 <= ccap c)%Z -> forall ops y q x,
  values_of c (run c ops) = y :: q -> length (y :: q) = cap_of c ->
  values_of c (run c (ops ++ [Enqueue x])) = q ++ [x].
Proof.
  intros c Hk Hcap ops y q x Hv Hl. rewrite (C05_ring_enqueue c Hk Hcap), Hv.
  now apply lastn_full_snoc.
Qed.

(* ... and into a buffer with room discards nothing *)
Theorem C05_room : forall c, ckind c = CircularBuffer -> (1 <= ccap c)%Z -> forall ops x,
  length (values_of c (run c ops)) < cap_of c ->
  values_of c (run c (ops ++ [Enqueue x])) = values_of c (run c ops) ++ [x].
Proof.
  intros c Hk Hcap ops x Hl. rewrite (C05_ring_enqueue c Hk Hcap). now apply lastn_room_snoc.
Qed.

Theorem C05_evicts_abs : forall c, ckind c = CircularBuffer -> (1 <= ccap c)%Z -> forall ops y q x,
  abs_run c ops = y :: q -> length (y :: q) = cap_of c ->
  abs_run c (ops ++ [Enqueue x]) = q ++ [x].
Proof.
  intros c Hk Hcap ops y q x Hv Hl. pose proof (ring_config c Hk Hcap) as Hc.
  rewrite <- !(C05_refines c Hc) in *. now apply (C05_evicts c Hk Hcap ops y q x).
Qed.

(* ---------- the empty container ---------- *)

Lemma remove_op_abs : forall c q, c05_config c -> abs_step c q (remove_op c) = abs_remove q.
Proof.
  intros c q Hc. unfold remove_op, c05_config, abs_step in *.
  destruct (ckind c) eqn:Hk; try contradiction; reflexivity.
Qed.

Lemma R_empty_remove : forall c s, c05_config c -> R c s [] -> step c s (remove_op c) = (s, OL [], onone).
Proof.
  intros c s Hc HR. unfold R in HR. unfold remove_op. destruct (ckind c) eqn:Hk; try contradiction;
    try (subst s; unfold step; rewrite Hk; reflexivity).
  destruct HR as (r & -> & Hi & _ & Hq). cbn [is_stack]. unfold step. rewrite Hk.
  pose proof (rdeq_abs r Hi) as Hd. rewrite Hq in Hd. now rewrite Hd.
Qed.

(* Pop / Dequeue / Peek on an empty container: (zero, false), and the container is untouched *)
Theorem C05_empty_pop : forall c, c05_config c -> forall ops,
  values_of c (run c ops) = [] ->
  step c (run c ops) (remove_op c) = (run c ops, OL [], onone) /\
  peek_of c (run c ops) = OL [] /\
  size_of c (run c ops) = 0%Z /\
  values_of c (run c (ops ++ [remove_op c])) = [].
Proof.
  intros c Hc ops Hv. pose proof (R_run c Hc ops) as HR.
  rewrite (C05_refines c Hc) in Hv.
  assert (Hs : step c (run c ops) (remove_op c) = (run c ops, OL [], onone)).
  { apply R_empty_remove; [assumption|]. now rewrite <- Hv. }
  split; [exact Hs|]. split; [|split].
  - rewrite (C05_peek c Hc), Hv. reflexivity.
  - rewrite (C05_size c Hc), Hv. reflexivity.
  - rewrite run_snoc, Hs. cbn [fst]. now rewrite (C05_refines c Hc).
Qed.

(* ---------- Values() lists the elements in the order they would be removed ---------- *)

Lemma tl_skipn : forall (A : Type) n (l : list A), tl (skipn n l) = skipn (S n) l.
Proof.
  intros A n. induction n as [|n IH]; intros [|a l]; cbn [skipn tl]; auto.
  rewrite IH. reflexivity.
Qed.

Lemma hd_skipn : forall (A : Type) n (l : list A), hd_error (skipn n l) = nth_error l n.
Proof.
  intros A n. induction n as [|n IH]; intros [|a l]; cbn [skipn hd_error nth_error]; auto.
Qed.

Lemma abs_run_removes : forall c, c05_config c -> forall ops n,
  abs_run c (ops ++ repeat (remove_op c) n) = skipn n (abs_run c ops).
Proof.
  intros c Hc ops. induction n as [|n IH].
  - cbn [repeat]. now rewrite app_nil_r.
  - cbn [repeat]. rewrite repeat_cons, app_assoc, abs_run_snoc, IH, remove_op_abs by assumption.
    apply tl_skipn.
Qed.

(* removing repeatedly returns Values()[0], Values()[1], ... and then (zero, false) for ever *)
Theorem C05_removal_order : forall c, c05_config c -> forall ops n,
  snd (fst (step c (run c (ops ++ repeat (remove_op c) n)) (remove_op c))) =
  oopt (nth_error (values_of c (run c ops)) n).
Proof.
  intros c Hc ops n.
  destruct (C05_step c Hc (ops ++ repeat (remove_op c) n) (remove_op c)) as (_ & H).
  rewrite H by (unfold remove_op; now destruct (is_stack (ckind c))).
  rewrite remove_op_abs, abs_run_removes, (C05_refines c Hc) by assumption.
  cbn [abs_remove snd]. now rewrite hd_skipn.
Qed.

(* ---------- history view of the three queues ---------- *)

Lemma enq_history_snoc : forall c ops o,
  enq_history c (ops ++ [o]) =
  match o with
  | Enqueue v => enq_history c ops ++ [v]
  | Clear => []
  | FromJSON (DArr vs) => vs
  | FromJSON DNull => []
  | _ => enq_history c ops
  end.
Proof.
  intros c ops o. unfold enq_history. now rewrite fold_left_app.
Qed.

Lemma lastn_suffix : forall (A : Type) n (l : list A), exists p, l = p ++ lastn n l.
Proof.
  intros A n l. exists (firstn (length l - n) l). unfold lastn. now rewrite firstn_skipn.
Qed.

(* the content of a queue is what is left of the values that entered it since the last
   Clear / FromJSON after a prefix (the dequeued and, for the ring, the evicted ones) has gone;
   the ring never holds more than its capacity *)
Theorem C05_history : forall c, c05_config c -> is_queue (ckind c) = true -> forall ops,
  exists gone, enq_history c ops = gone ++ values_of c (run c ops).
Proof.
  intros c Hc Hk ops. rewrite (C05_refines c Hc).
  induction ops as [|o ops IH] using rev_ind; [exists []; reflexivity|].
  destruct IH as (g & IH). rewrite abs_run_snoc, enq_history_snoc.
  assert (Hs : is_stack (ckind c) = false) by (destruct (ckind c); try discriminate; reflexivity).
  destruct o; cbn [abs_step fst]; rewrite ?Hk, ?Hs; cbn [fst]; try (exists g; exact IH).
  - (* Enqueue *)
    unfold abs_enqueue. destruct (ckind c); try discriminate.
    + exists g. now rewrite IH, app_assoc.
    + exists g. now rewrite IH, app_assoc.
    + match goal with |- context [lastn ?n ?l] => destruct (lastn_suffix Z n l) as (p & Hp) end.
      exists (g ++ p). rewrite IH, <- !app_assoc. f_equal. exact Hp.
  - (* Dequeue *)
    unfold abs_remove. cbn [fst]. destruct (abs_run c ops) as [|y q'].
    + exists g. exact IH.
    + exists (g ++ [y]). now rewrite IH, <- app_assoc.
  - (* Clear *) exists []. reflexivity.
  - (* FromJSON *)
    match goal with |- context [match ?d0 with DErr => _ | _ => _ end] => destruct d0 end; cbn [fst]; try (exists g; exact IH); try (exists []; reflexivity).
    unfold abs_load. destruct (ckind c); try discriminate; try (exists []; reflexivity).
    apply lastn_suffix.
Qed.

Lemma lastn_app_exact : forall (A : Type) (g q : list A), lastn (length q) (g ++ q) = q.
Proof.
  intros A g q. unfold lastn. rewrite app_length.
  replace (length g + length q - length q) with (length g) by lia.
  rewrite skipn_app, skipn_all, Nat.sub_diag. reflexivity.
Qed.

(* a queue holds exactly the last Size() values that entered it *)
Theorem C05_history_last : forall c, c05_config c -> is_queue (ckind c) = true -> forall ops,
  values_of c (run c ops) = lastn (Z.to_nat (size_of c (run c ops))) (enq_history c ops).
Proof.
  intros c Hc Hk ops. destruct (C05_history c Hc Hk ops) as (g & Hg).
  rewrite Hg, (C05_size c Hc), Nat2Z.id, <- (C05_refines c Hc). symmetry. apply lastn_app_exact.
Qed.

(* while nothing is dequeued, the buffer holds the last c values that entered it *)
Theorem C05_ring_last_c : forall c, ckind c = CircularBuffer -> (1 <= ccap c)%Z -> forall ops,
  no_dequeue ops = true ->
  values_of c (run c ops) = lastn (cap_of c) (enq_history c ops).
Proof.
  intros c Hk Hcap ops. pose proof (ring_config c Hk Hcap) as Hc. rewrite (C05_refines c Hc).
  induction ops as [|o ops IH] using rev_ind; intros Hn; [now rewrite lastn_nil|].
  unfold no_dequeue in *. rewrite forallb_app in Hn. apply andb_true_iff in Hn. destruct Hn as (Hn & Ho).
  specialize (IH Hn). rewrite abs_run_snoc, enq_history_snoc.
  destruct o; cbn [abs_step fst]; rewrite ?Hk; cbn [is_stack is_queue fst]; try exact IH.
  - unfold abs_enqueue. rewrite Hk, IH. apply lastn_lastn_app.
  - discriminate Ho.
  - now rewrite lastn_nil.
  - match goal with |- context [match ?d0 with DErr => _ | _ => _ end] => destruct d0 end; cbn [fst]; try exact IH; try now rewrite lastn_nil.
    unfold abs_load. now rewrite Hk.
Qed.
