(* Red-black tree: height and comparator-call bounds (property C07 for the red-black tree). *)
From Coq Require Import ZArith List Lia Bool Arith.
From Gods Require Import Common.Cmp Model.RBTree Proofs.RBInv.
Import ListNotations.

Theorem rb_height_bh : forall t, rb t -> (height t <= 2 * bh t + (if is_red t then 1 else 0))%nat.
Proof.
  induction t as [|c l IHl k v r IHr]; intros H.
  - simpl. lia.
  - destruct H as (Hl & Hr & Hbh & Hc).
    specialize (IHl Hl). specialize (IHr Hr).
    unfold is_red in *. cbn [height bh col].
    destruct c.
    + destruct (Hc eq_refl) as [Cl Cr]. rewrite Cl in IHl. rewrite Cr in IHr. lia.
    + destruct (col l), (col r); lia.
Qed.

Theorem rb_size_bh : forall t, rb t -> (2 ^ bh t <= count t + 1)%nat.
Proof.
  induction t as [|c l IHl k v r IHr]; intros H.
  - simpl. lia.
  - destruct H as (Hl & Hr & Hbh & Hc).
    specialize (IHl Hl). specialize (IHr Hr). rewrite <- Hbh in IHr.
    cbn [count bh].
    destruct c.
    + rewrite Nat.add_0_r. lia.
    + rewrite Nat.add_1_r, Nat.pow_succ_r'. lia.
Qed.

Lemma rbt_height_2bh t : rbt t -> (height t <= 2 * bh t)%nat.
Proof.
  intros [H Hc]. pose proof (rb_height_bh t H) as Hh.
  unfold is_red in Hh. rewrite Hc in Hh. lia.
Qed.

Lemma rb_bh_log t : rb t -> (bh t <= Nat.log2 (count t + 1))%nat.
Proof.
  intros H. apply Nat.log2_le_pow2; [lia|]. apply rb_size_bh. assumption.
Qed.

Theorem rbt_height_log : forall t, rbt t -> (height t <= 2 * Nat.log2 (count t + 1))%nat.
Proof.
  intros t Ht. pose proof (rbt_height_2bh t Ht) as H1.
  destruct Ht as [H _]. pose proof (rb_bh_log t H) as H2. lia.
Qed.

Theorem rb_minheight : forall t, rb t -> (bh t <= minheight t)%nat.
Proof.
  induction t as [|c l IHl k v r IHr]; intros H.
  - simpl. lia.
  - destruct H as (Hl & Hr & Hbh & Hc).
    specialize (IHl Hl). specialize (IHr Hr).
    cbn [minheight bh]. destruct c; lia.
Qed.

(* the longest root-to-nil path is at most twice the shortest *)
Theorem rbt_paths : forall t, rbt t -> (height t <= 2 * minheight t)%nat.
Proof.
  intros t Ht. pose proof (rbt_height_2bh t Ht) as H1.
  destruct Ht as [H _]. pose proof (rb_minheight t H) as H2. lia.
Qed.

Theorem lookup_cost_height : forall cmp k t, (lookup_cost cmp k t <= height t)%nat.
Proof.
  intros cmp k. induction t as [|c l IHl k' v r IHr]; cbn [lookup_cost height].
  - lia.
  - destruct (cmp k k'); lia.
Qed.

Theorem C07_rb_cost : forall cmp k t, rbt t ->
  (get_cost cmp k t <= 2 * Nat.log2 (count t + 1))%nat /\
  (remove_cost cmp k t <= 2 * Nat.log2 (count t + 1))%nat /\
  (put_cost cmp k t <= 2 * Nat.log2 (count t + 1) + 1)%nat.
Proof.
  intros cmp k t Ht.
  pose proof (rbt_height_log t Ht) as H1.
  pose proof (lookup_cost_height cmp k t) as H2.
  unfold get_cost, remove_cost, put_cost.
  repeat split; try lia.
  destruct t; [simpl; lia | lia].
Qed.

Print Assumptions rb_height_bh.
Print Assumptions rb_size_bh.
Print Assumptions rbt_height_log.
Print Assumptions rb_minheight.
Print Assumptions rbt_paths.
Print Assumptions lookup_cost_height.
Print Assumptions C07_rb_cost.
