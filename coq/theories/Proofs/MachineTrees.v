(* Property C07 at machine level: the self-balancing trees stay balanced in EVERY reachable state, and
   every Get / Put / Remove costs a logarithmic number of comparator calls.

   Kinds covered: RedBlackTree, TreeMap, TreeSet (state [StRB]), TreeBidiMap (state [StTBidi], two
   red-black trees), AVLTree ([StAVL]), BTree ([StBT], every order m >= 3).

   Structure of the file
     1. the TreeBidiMap invariant (both trees red-black, search trees, cached sizes exact), proved for
        all op lists here (MachineMaps does not cover this kind);
     2. [tinv]: the strong machine invariant of the six kinds (MachineMaps.minv / tsinv / the one of 1.)
        and [run_tinv]: it holds after ANY list of operations (every constructor of [op]);
     3. [shape]: the part of it that property C07 talks about, [run_shape];
     4. red-black tree: shape theorems and corollaries;
     5. AVL tree: shape, the readable predicate [balanced], height bounds;
     6. B-tree: shape, the readable statements over [subnodes] / [leaf_depths], height bound;
     7. comparator-call cost of one more Put / Remove from any reachable state (third component of
        [step]);
     8. comparator-call cost of Get: the [TCost] entries of [observe];
     9. TreeMap / TreeSet / TreeBidiMap inherit the red-black bounds. *)
From Coq Require Import ZArith List Lia Bool Arith.
From Gods Require Import Common.Cmp Common.ListAux Spec.MapSpec Model.Ops Model.Machine.
From Gods Require Model.RBTree Model.AVLTree Model.BTree Model.BTreeCost.
From Gods Require Proofs.RBInv Proofs.RBMap Proofs.RBBounds Proofs.AVLInv Proofs.AVLMap Proofs.AVLBounds.
From Gods Require Proofs.BTreeInd Proofs.BTreeMap Proofs.BTreeInv Proofs.BTreeBounds Proofs.BTreeCostProofs.
From Gods Require Import Proofs.MapSpecProofs Proofs.MachineMaps.
Import ListNotations.
Local Open Scope Z_scope.

(* ================================================================================================ *)
(* 0. configurations                                                                                *)
(* ================================================================================================ *)
Definition tree_kind (k : kind) : bool :=
  match k with RedBlackTree | TreeMap | TreeSet | TreeBidiMap | AVLTree | BTree => true | _ => false end.

(* the only hypothesis of every theorem: the kind, and the B-tree constructor's precondition *)
Definition tvalid (c : config) : Prop :=
  tree_kind (ckind c) = true /\ (ckind c = BTree -> 3 <= corder c).

Lemma vc_SWO : forall c, SWO (vc c).
Proof. intros c. apply cmp_of_SWO. Qed.

(* an invariant preserved by every step holds along every run *)
Lemma run_from_inv : forall (P : state -> Prop) c,
  (forall s o, P s -> P (fst (fst (step c s o)))) ->
  forall ops s, P s -> P (run_from c s ops).
Proof.
  intros P c Hstep. induction ops as [|o ops IH]; intros s Hs; [exact Hs|].
  unfold run_from. cbn [fold_left]. apply IH. apply Hstep. exact Hs.
Qed.

(* ================================================================================================ *)
(* 1. TreeBidiMap: forward tree ordered by the key comparator, inverse tree by the value comparator *)
(* ================================================================================================ *)
Definition bidiI (c : config) (s : state) : Prop :=
  match s with
  | StTBidi f fn i inn => rbI (kc c) (f, fn) /\ rbI (vc c) (i, inn)
  | _ => False
  end.

Lemma tbidi_put_inv : forall kcf vcf, SWO kcf -> SWO vcf -> forall k v (f i : RB.tree * Z), rbI kcf f -> rbI vcf i ->
  exists f' i' : RB.tree * Z, tbidi_put kcf vcf k v (f, i) = Some (f', i') /\ rbI kcf f' /\ rbI vcf i'.
Proof.
  intros kcf vcf Hk Hv k v f i Hf Hi. unfold tbidi_put.
  assert (Htail : forall i1 f1 : RB.tree * Z, rbI vcf i1 -> rbI kcf f1 ->
            exists f' i' : RB.tree * Z,
              match rbs_put kcf k v f1, rbs_put vcf v k i1 with
              | Some f2, Some i2 => Some (f2, i2)
              | _, _ => None
              end = Some (f', i') /\ rbI kcf f' /\ rbI vcf i').
  { intros i1 f1 Hi1 Hf1.
    destruct (rbs_put_sim kcf Hk k v f1 Hf1) as (f2 & E3 & Hf2 & _).
    destruct (rbs_put_sim vcf Hv v k i1 Hi1) as (i2 & E4 & Hi2 & _).
    rewrite E3, E4. exists f2, i2. split; [reflexivity|]. split; assumption. }
  destruct (rbs_get kcf k f) as [v0|].
  - destruct (rbs_remove_sim vcf Hv v0 i Hi) as (i1 & E1 & Hi1 & _). rewrite E1.
    destruct (rbs_get vcf v i1) as [k0|].
    + destruct (rbs_remove_sim kcf Hk k0 f Hf) as (f1 & E2 & Hf1 & _). rewrite E2.
      apply Htail; assumption.
    + apply Htail; assumption.
  - destruct (rbs_get vcf v i) as [k0|].
    + destruct (rbs_remove_sim kcf Hk k0 f Hf) as (f1 & E2 & Hf1 & _). rewrite E2.
      apply Htail; assumption.
    + apply Htail; assumption.
Qed.

Lemma tbidi_remove_inv : forall kcf vcf, SWO kcf -> SWO vcf -> forall k (f i : RB.tree * Z), rbI kcf f -> rbI vcf i ->
  exists f' i' : RB.tree * Z, tbidi_remove kcf vcf k (f, i) = Some (f', i') /\ rbI kcf f' /\ rbI vcf i'.
Proof.
  intros kcf vcf Hk Hv k f i Hf Hi. unfold tbidi_remove.
  destruct (rbs_get kcf k f) as [v|].
  - destruct (rbs_remove_sim kcf Hk k f Hf) as (f1 & E1 & Hf1 & _).
    destruct (rbs_remove_sim vcf Hv v i Hi) as (i1 & E2 & Hi1 & _).
    rewrite E1, E2. exists f1, i1. split; [reflexivity|]. split; assumption.
  - exists f, i. split; [reflexivity|]. split; assumption.
Qed.

Lemma tbidi_puts_inv : forall kcf vcf, SWO kcf -> SWO vcf -> forall es (f i : RB.tree * Z), rbI kcf f -> rbI vcf i ->
  exists f' i' : RB.tree * Z, tbidi_puts kcf vcf es (f, i) = Some (f', i') /\ rbI kcf f' /\ rbI vcf i'.
Proof.
  intros kcf vcf Hk Hv. induction es as [|[k v] es IH]; intros f i Hf Hi.
  - exists f, i. split; [reflexivity|]. split; assumption.
  - destruct (tbidi_put_inv kcf vcf Hk Hv k v f i Hf Hi) as (f1 & i1 & E & Hf1 & Hi1).
    cbn [tbidi_puts]. rewrite E. apply IH; assumption.
Qed.

Lemma bidi_init : forall c, ckind c = TreeBidiMap -> init c = StTBidi RB.E 0 RB.E 0.
Proof. intros c K. unfold init. rewrite K. reflexivity. Qed.

Lemma bidiI_init : forall c, ckind c = TreeBidiMap -> bidiI c (init c).
Proof. intros c K. rewrite (bidi_init c K). split; exact (rbI_empty _). Qed.

Lemma bidi_put_entries : forall c es, ckind c = TreeBidiMap -> bidiI c (put_entries c es (init c)).
Proof.
  intros c es K. rewrite (bidi_init c K). cbn [put_entries].
  assert (He : forall cmp, rbI cmp (RB.E, 0)) by exact rbI_empty.
  destruct (tbidi_puts_inv (kc c) (vc c) (kc_SWO c) (vc_SWO c) es (RB.E, 0) (RB.E, 0) (He _) (He _))
    as ([f' fn'] & [i' inn'] & E & Hf & Hi).
  rewrite E. split; assumption.
Qed.

Lemma bidi_step : forall c s o, ckind c = TreeBidiMap -> bidiI c s -> bidiI c (fst (fst (step c s o))).
Proof.
  intros c s o K Hi.
  assert (Hkv : is_kv (ckind c) = true) by (rewrite K; reflexivity).
  destruct s as [| | | | | | | | | | |f fn i inn|]; try contradiction.
  destruct Hi as [Hf Hin].
  destruct o; unfold step; rewrite ?K; cbn [fst has_enumerable negb];
    try (split; assumption).
  - (* Put *)
    destruct (tbidi_put_inv (kc c) (vc c) (kc_SWO c) (vc_SWO c) k v (f, fn) (i, inn) Hf Hin)
      as ([f' fn'] & [i' inn'] & E & Hf' & Hi').
    rewrite E. cbn [fst]. split; assumption.
  - (* Remove *)
    destruct (tbidi_remove_inv (kc c) (vc c) (kc_SWO c) (vc_SWO c) k (f, fn) (i, inn) Hf Hin)
      as ([f' fn'] & [i' inn'] & E & Hf' & Hi').
    rewrite E. cbn [fst]. split; assumption.
  - (* Clear *) apply bidiI_init. exact K.
  - (* FromJSON *)
    unfold from_json. rewrite Hkv.
    destruct d as [| |vs|kvs]; rewrite ?K; cbn [fst].
    + split; assumption.
    + apply bidiI_init. exact K.
    + split; assumption.
    + apply bidi_put_entries. exact K.
  - destruct (each_of _ _); split; assumption.
  - destruct (each_of _ _); split; assumption.
  - destruct (each_of _ _); split; assumption.
  - destruct (each_of _ _); split; assumption.
  - destruct (each_of _ _); split; assumption.
  - destruct (each_of _ _); split; assumption.
Qed.

Theorem bidi_run : forall c ops, ckind c = TreeBidiMap -> bidiI c (run c ops).
Proof.
  intros c ops K. unfold run. apply (run_from_inv (bidiI c)).
  - intros s o. apply bidi_step. exact K.
  - apply bidiI_init. exact K.
Qed.

(* ================================================================================================ *)
(* 2. the strong invariant of the six kinds, for ALL op lists                                       *)
(* ================================================================================================ *)
(* RedBlackTree / TreeMap / AVLTree / BTree : MachineMaps.minv (shape + search order + cached size)
   TreeSet                                  : MachineMaps.tsinv
   TreeBidiMap                              : bidiI above *)
Definition tinv (c : config) (s : state) : Prop :=
  match ckind c with
  | RedBlackTree | TreeMap | AVLTree | BTree => minv c s
  | TreeSet => tsinv c s
  | TreeBidiMap => bidiI c s
  | _ => False
  end.

Lemma tvalid_valid : forall c, tvalid c ->
  match ckind c with RedBlackTree | TreeMap | AVLTree | BTree => valid c | _ => True end.
Proof.
  intros c [Hk Ho]. unfold valid. destruct (ckind c) eqn:K; try exact I; (split; [reflexivity|]).
  - discriminate. - discriminate. - discriminate. - intros _. apply Ho. reflexivity.
Qed.

Theorem run_tinv : forall c ops, tvalid c -> tinv c (run c ops).
Proof.
  intros c ops Hv. pose proof (tvalid_valid c Hv) as Hval. destruct Hv as [Hk _].
  unfold tinv. destruct (ckind c) eqn:K; try discriminate Hk.
  - apply treeset_refines. exact K.
  - apply MachineMaps.run_sim. exact Hval.
  - apply bidi_run. exact K.
  - apply MachineMaps.run_sim. exact Hval.
  - apply MachineMaps.run_sim. exact Hval.
  - apply MachineMaps.run_sim. exact Hval.
Qed.

Theorem tinv_not_crash : forall c s, tinv c s -> s <> StCrash.
Proof.
  intros c s H E. subst s. unfold tinv in H.
  destruct (ckind c) eqn:K; try contradiction;
    try (unfold minv, Generic.inv in H; rewrite K in H; contradiction).
Qed.

(* ================================================================================================ *)
(* 3. the shape part of the invariant (what property C07 speaks about)                              *)
(* ================================================================================================ *)
Definition bt_count (r : option BT.node) : nat := match r with Some n => BT.count n | None => 0%nat end.

Definition shape (c : config) (s : state) : Prop :=
  match ckind c, s with
  | (RedBlackTree | TreeMap | TreeSet), StRB t n => RBInv.rbt t /\ n = Z.of_nat (RB.count t)
  | TreeBidiMap, StTBidi f fn i inn =>
    RBInv.rbt f /\ RBInv.rbt i /\ fn = Z.of_nat (RB.count f) /\ inn = Z.of_nat (RB.count i)
  | AVLTree, StAVL t n => AVLInv.avl t /\ n = Z.of_nat (AVL.count t)
  | BTree, StBT r n => BTreeInv.btree_inv (bt_m c) r /\ n = Z.of_nat (bt_count r)
  | _, _ => False
  end.

Lemma rbI_shape : forall cmp t n, rbI cmp (t, n) -> RBInv.rbt t /\ n = Z.of_nat (RB.count t).
Proof.
  intros cmp t n (Hrb & _ & Hn). cbn [fst snd] in *. split; [exact Hrb|].
  rewrite RBMap.count_inorder. exact Hn.
Qed.

Lemma bt_count_inorder : forall r, bt_count r = length (bt_inorder r).
Proof. intros [n|]; [apply BTreeMap.count_inorder_gen|reflexivity]. Qed.

Lemma tinv_shape : forall c s, tinv c s -> shape c s.
Proof.
  intros c s H. unfold tinv in H. unfold shape.
  destruct (ckind c) eqn:K; try contradiction.
  - (* TreeSet *) destruct s; try contradiction. eapply rbI_shape. exact H.
  - (* TreeMap *) unfold minv, Generic.inv in H. rewrite K in H. destruct s; try contradiction.
    eapply rbI_shape. exact H.
  - (* TreeBidiMap *) destruct s; try contradiction. destruct H as [Hf Hi].
    apply rbI_shape in Hf. apply rbI_shape in Hi. tauto.
  - (* RedBlackTree *) unfold minv, Generic.inv in H. rewrite K in H. destruct s; try contradiction.
    eapply rbI_shape. exact H.
  - (* AVLTree *) unfold minv, Generic.inv in H. rewrite K in H. destruct s; try contradiction.
    destruct H as (Ha & _ & Hn). split; [exact Ha|]. rewrite AVLMap.count_inorder. exact Hn.
  - (* BTree *) unfold minv, Generic.inv in H. rewrite K in H. destruct s; try contradiction.
    destruct H as ([Hinv _] & Hn). split; [exact Hinv|]. rewrite bt_count_inorder. exact Hn.
Qed.

Theorem run_shape : forall c ops, tvalid c -> shape c (run c ops).
Proof. intros c ops Hv. apply tinv_shape. apply run_tinv. exact Hv. Qed.

Theorem C07_no_crash : forall c ops, tvalid c -> run c ops <> StCrash.
Proof. intros c ops Hv. eapply tinv_not_crash. apply run_tinv. exact Hv. Qed.

(* ================================================================================================ *)
(* 4. red-black trees: RedBlackTree, TreeMap, TreeSet, and the two trees of TreeBidiMap             *)
(* ================================================================================================ *)
(* [RBInv.rbt t] = [RBInv.rb t /\ RB.col t = RB.Black] where [rb] says, at every node: both subtrees
   have the same black height, and a red node has two black children (nil counts as black). *)
Definition rb_kind (k : kind) : bool :=
  match k with RedBlackTree | TreeMap | TreeSet => true | _ => false end.

Lemma rb_kind_tvalid : forall c, rb_kind (ckind c) = true -> tvalid c.
Proof. intros c H. split; destruct (ckind c); try discriminate H; try reflexivity; discriminate. Qed.

Lemma bidi_tvalid : forall c, ckind c = TreeBidiMap -> tvalid c.
Proof. intros c K. split; rewrite K; [reflexivity|discriminate]. Qed.

(* every reachable state of the three kinds is a red-black tree whose cached size is its node count *)
Theorem C07_rb_reach : forall c ops, rb_kind (ckind c) = true ->
  exists t n, run c ops = StRB t n /\ RBInv.rbt t /\ n = Z.of_nat (RB.count t).
Proof.
  intros c ops Hk. pose proof (run_shape c ops (rb_kind_tvalid c Hk)) as H. unfold shape in H.
  destruct (ckind c); try discriminate Hk; destruct (run c ops) as [| | |t n| | | | | | | | |];
    try contradiction; exists t, n; (split; [reflexivity|exact H]).
Qed.

Theorem C07_rb_shape : forall c ops t n, rb_kind (ckind c) = true -> run c ops = StRB t n ->
  RBInv.rbt t /\ n = Z.of_nat (RB.count t).
Proof.
  intros c ops t n Hk R. destruct (C07_rb_reach c ops Hk) as (t' & n' & R' & H).
  rewrite R in R'. injection R' as -> ->. exact H.
Qed.

Theorem C07_bidi_reach : forall c ops, ckind c = TreeBidiMap ->
  exists f fn i inn, run c ops = StTBidi f fn i inn /\
    RBInv.rbt f /\ RBInv.rbt i /\ fn = Z.of_nat (RB.count f) /\ inn = Z.of_nat (RB.count i).
Proof.
  intros c ops K. pose proof (run_shape c ops (bidi_tvalid c K)) as H. unfold shape in H. rewrite K in H.
  destruct (run c ops) as [| | | | | | | | | | |f fn i inn|]; try contradiction.
  exists f, fn, i, inn. split; [reflexivity|exact H].
Qed.

Theorem C07_bidi_shape : forall c ops f fn i inn, ckind c = TreeBidiMap -> run c ops = StTBidi f fn i inn ->
  RBInv.rbt f /\ RBInv.rbt i /\ fn = Z.of_nat (RB.count f) /\ inn = Z.of_nat (RB.count i).
Proof.
  intros c ops f fn i inn K R. destruct (C07_bidi_reach c ops K) as (f' & fn' & i' & inn' & R' & H).
  rewrite R in R'. injection R' as -> -> -> ->. exact H.
Qed.

(* what the invariant means for the exported structure *)
Theorem rbt_documented : forall t, RBInv.rbt t ->
  (RB.height t <= 2 * Nat.log2 (RB.count t + 1))%nat /\     (* height <= 2 log2 (n + 1) *)
  (RB.height t <= 2 * RB.minheight t)%nat /\                (* longest root-to-nil path <= 2 * shortest *)
  RB.col t = RB.Black.                                      (* the root is black *)
Proof.
  intros t H. split; [apply RBBounds.rbt_height_log; exact H|].
  split; [apply RBBounds.rbt_paths; exact H|apply H].
Qed.

Theorem C07_rb_balanced : forall c ops t n, rb_kind (ckind c) = true -> run c ops = StRB t n ->
  size_of c (run c ops) = Z.of_nat (RB.count t) /\          (* the nodes are exactly Size() in number *)
  (RB.height t <= 2 * Nat.log2 (RB.count t + 1))%nat /\
  (RB.height t <= 2 * RB.minheight t)%nat /\
  RB.col t = RB.Black.
Proof.
  intros c ops t n Hk R. destruct (C07_rb_shape c ops t n Hk R) as [Hrb Hn].
  rewrite R. cbn [size_of]. split; [exact Hn|]. apply rbt_documented. exact Hrb.
Qed.

Theorem C07_bidi_balanced : forall c ops f fn i inn, ckind c = TreeBidiMap -> run c ops = StTBidi f fn i inn ->
  size_of c (run c ops) = Z.of_nat (RB.count f) /\
  ((RB.height f <= 2 * Nat.log2 (RB.count f + 1))%nat /\ (RB.height f <= 2 * RB.minheight f)%nat /\
   RB.col f = RB.Black) /\
  ((RB.height i <= 2 * Nat.log2 (RB.count i + 1))%nat /\ (RB.height i <= 2 * RB.minheight i)%nat /\
   RB.col i = RB.Black).
Proof.
  intros c ops f fn i inn K R. destruct (C07_bidi_shape c ops f fn i inn K R) as (Hf & Hi & Hfn & _).
  rewrite R. cbn [size_of]. split; [exact Hfn|]. split; apply rbt_documented; assumption.
Qed.

(* ================================================================================================ *)
(* 5. AVL tree                                                                                      *)
(* ================================================================================================ *)
(* the documented shape, spelled out: at every node the heights of the two subtrees differ by at
   most one, and the stored balance factor is height(right) - height(left) *)
Fixpoint balanced (t : AVL.tree) : Prop :=
  match t with
  | AVL.E => True
  | AVL.T b l _ _ r =>
    balanced l /\ balanced r /\
    (AVL.height l <= AVL.height r + 1)%nat /\ (AVL.height r <= AVL.height l + 1)%nat /\
    b = Z.of_nat (AVL.height r) - Z.of_nat (AVL.height l)
  end.

Theorem avl_balanced : forall t, AVLInv.avl t <-> balanced t.
Proof.
  induction t as [|b l IHl k v r IHr]; cbn [AVLInv.avl balanced]; [tauto|].
  rewrite IHl, IHr. split.
  - intros (Hl & Hr & Hb & Hrange). repeat split; try assumption; lia.
  - intros (Hl & Hr & H1 & H2 & Hb). repeat split; try assumption; lia.
Qed.

Theorem C07_avl_reach : forall c ops, ckind c = AVLTree ->
  exists t n, run c ops = StAVL t n /\ AVLInv.avl t /\ n = Z.of_nat (AVL.count t).
Proof.
  intros c ops K.
  assert (Hv : tvalid c) by (split; rewrite K; [reflexivity|discriminate]).
  pose proof (run_shape c ops Hv) as H. unfold shape in H. rewrite K in H.
  destruct (run c ops) as [| | | |t n| | | | | | | |]; try contradiction.
  exists t, n. split; [reflexivity|exact H].
Qed.

Theorem C07_avl_shape : forall c ops t n, ckind c = AVLTree -> run c ops = StAVL t n ->
  AVLInv.avl t /\ n = Z.of_nat (AVL.count t).
Proof.
  intros c ops t n K R. destruct (C07_avl_reach c ops K) as (t' & n' & R' & H).
  rewrite R in R'. injection R' as -> ->. exact H.
Qed.

(* 2^(20 q) <= (N+1)^29 * 2^29 is the integer form of  q <= 1.45 * log2 (N+1) + 1.45  (take log2 of
   both sides and divide by 20; 29/20 = 1.45 >= 1/log2(phi) = 1.4404).  With the standard library's
   floor logarithm it gives the slightly weaker  20 q < 29 * floor(log2 (N+1)) + 58. *)
Lemma pow_form_log2 : forall q N,
  (2 ^ (20 * q) <= (N + 1) ^ 29 * 2 ^ 29 -> 20 * q < 29 * Nat.log2 (N + 1) + 58)%nat.
Proof.
  intros q N H.
  assert (HN : (N + 1 < 2 ^ S (Nat.log2 (N + 1)))%nat) by (apply Nat.log2_spec; lia).
  remember (Nat.log2 (N + 1)) as L eqn:EL. clear EL.
  assert (H1 : ((N + 1) ^ 29 < (2 ^ S L) ^ 29)%nat) by (apply Nat.pow_lt_mono_l; [lia|exact HN]).
  rewrite <- Nat.pow_mul_r in H1.
  assert (Hpos : (0 < 2 ^ 29)%nat) by (apply Nat.neq_0_lt_0, Nat.pow_nonzero; lia).
  assert (H2 : (2 ^ (20 * q) < 2 ^ (S L * 29) * 2 ^ 29)%nat).
  { eapply Nat.le_lt_trans; [exact H|]. apply Nat.mul_lt_mono_pos_r; assumption. }
  rewrite <- Nat.pow_add_r in H2. apply Nat.pow_lt_mono_r_iff in H2; lia.
Qed.

(* the three forms of "logarithmic" for a quantity q (a height, a number of comparator calls)
   against n keys:
     fib (q + 2) <= n + 1                       the exact AVL bound (Fibonacci trees attain it)
     2^(20 q) <= (n+1)^29 * 2^29                q <= 1.45 log2 (n+1) + 1.45  <= 1.45 log2 (n+2) + 2
     20 q < 29 * floor(log2 (n+1)) + 58         with Nat.log2 *)
Definition avl_log_bound (n q : nat) : Prop :=
  (AVLBounds.fib (q + 2) <= n + 1)%nat /\
  (2 ^ (20 * q) <= (n + 1) ^ 29 * 2 ^ 29)%nat /\
  (20 * q < 29 * Nat.log2 (n + 1) + 58)%nat.

Lemma avl_log_bound_le : forall t q, AVLInv.avl t -> (q <= AVL.height t)%nat -> avl_log_bound (AVL.count t) q.
Proof.
  intros t q Ht Hq.
  assert (H2 : (2 ^ (20 * q) <= (AVL.count t + 1) ^ 29 * 2 ^ 29)%nat).
  { eapply Nat.le_trans; [|apply AVLBounds.avl_height_log; exact Ht].
    apply Nat.pow_le_mono_r; lia. }
  split; [|split; [exact H2|apply pow_form_log2; exact H2]].
  eapply Nat.le_trans; [|apply AVLBounds.avl_fib; exact Ht].
  apply AVLBounds.fib_mono. lia.
Qed.

Theorem C07_avl_balanced : forall c ops t n, ckind c = AVLTree -> run c ops = StAVL t n ->
  size_of c (run c ops) = Z.of_nat (AVL.count t) /\
  balanced t /\
  avl_log_bound (AVL.count t) (AVL.height t).
Proof.
  intros c ops t n K R. destruct (C07_avl_shape c ops t n K R) as [Ha Hn].
  rewrite R. cbn [size_of]. split; [exact Hn|]. split; [apply avl_balanced; exact Ha|].
  apply avl_log_bound_le; [exact Ha|lia].
Qed.

(* ================================================================================================ *)
(* 6. B-tree                                                                                        *)
(* ================================================================================================ *)
(* all nodes of the tree (root first), the nodes other than the root, the depth of every leaf
   (root = level 1) *)
Fixpoint subnodes (n : BT.node) : list BT.node :=
  match n with BT.N es cs => n :: flat_map subnodes cs end.
Definition proper_subnodes (n : BT.node) : list BT.node := flat_map subnodes (BT.children n).
Fixpoint leaf_depths (n : BT.node) : list nat :=
  match n with
  | BT.N _ cs => match cs with [] => [1%nat] | _ => map S (flat_map leaf_depths cs) end
  end.

Lemma subnodes_root : forall n, subnodes n = n :: proper_subnodes n.
Proof. intros [es cs]. reflexivity. Qed.

Section BTDoc.
Variable m : nat.
Hypothesis Hm : (3 <= m)%nat.
Notation minE := (BT.minEntries m).

Lemma sub_inv : forall h n lo, BTreeMap.bal h n -> BTreeInv.cnt m lo n ->
  forall x, In x (proper_subnodes n) -> exists h', BTreeMap.bal h' x /\ BTreeInv.cnt m minE x.
Proof.
  induction h as [|h IH]; intros [es cs] lo Hb Hc x Hx; [contradiction|].
  unfold proper_subnodes in Hx. cbn [BT.children] in Hx.
  apply in_flat_map in Hx. destruct Hx as (c0 & Hc0 & Hx).
  apply BTreeInv.cnt_inv in Hc. destruct Hc as [Hlen Hf].
  destruct h as [|h'].
  - apply BTreeMap.bal_1 in Hb. subst cs. contradiction.
  - apply BTreeMap.bal_SS in Hb. destruct Hb as [Hl Hfb]. rewrite Forall_forall in Hf, Hfb.
    rewrite subnodes_root in Hx. destruct Hx as [<-|Hx].
    + exists (S h'). split; [apply Hfb|apply Hf]; exact Hc0.
    + apply (IH c0 minE); [apply Hfb; exact Hc0|apply Hf; exact Hc0|exact Hx].
Qed.

Lemma node_local : forall h lo es cs, BTreeMap.bal h (BT.N es cs) -> BTreeInv.cnt m lo (BT.N es cs) ->
  (length cs <= m /\ length es <= m - 1 /\ lo <= length es /\
   (cs <> [] -> length es = length cs - 1))%nat.
Proof.
  intros h lo es cs Hb Hc. apply BTreeInv.cnt_inv in Hc. destruct Hc as [Hlen _].
  unfold BT.maxEntries in Hlen.
  destruct h as [|[|h']]; [contradiction| |].
  - apply BTreeMap.bal_1 in Hb. subst cs. cbn [length]. repeat split; try lia. intros H. congruence.
  - apply BTreeMap.bal_SS in Hb. destruct Hb as [Hl _]. repeat split; try lia.
Qed.

Lemma leaf_depths_bal : forall h n, BTreeMap.bal h n -> forall d, In d (leaf_depths n) -> d = h.
Proof.
  induction h as [|h IH]; intros [es cs] Hb d Hd; [contradiction|].
  destruct h as [|h'].
  - apply BTreeMap.bal_1 in Hb. subst cs. cbn in Hd. destruct Hd as [<-|[]]. reflexivity.
  - apply BTreeMap.bal_SS in Hb. destruct Hb as [Hl Hfb]. rewrite Forall_forall in Hfb.
    destruct cs as [|c0 cs']; [discriminate Hl|].
    change (leaf_depths (BT.N es (c0 :: cs'))) with (map S (flat_map leaf_depths (c0 :: cs'))) in Hd.
    apply in_map_iff in Hd. destruct Hd as (d' & <- & Hd'). f_equal.
    apply in_flat_map in Hd'. destruct Hd' as (c & Hc & Hd').
    apply (IH c); [apply Hfb; exact Hc|exact Hd'].
Qed.

Lemma leaf_depths_nonempty : forall n, leaf_depths n <> [].
Proof.
  induction n as [es cs IH] using BTreeInd.node_ind2.
  destruct cs as [|c0 cs']; [discriminate|].
  change (leaf_depths (BT.N es (c0 :: cs'))) with (map S (flat_map leaf_depths (c0 :: cs'))).
  inversion IH as [|c1 cs1 H0 _]; subst. cbn [flat_map].
  destruct (leaf_depths c0) as [|d ds]; [congruence|]. discriminate.
Qed.

(* The documented shape of a B-tree of order m, from [btree_inv]:
   (a) every node has at most m children and at most m - 1 entries, and a node with k > 0 children
       has k - 1 entries;
   (b) every non-root node has at least ceil(m/2) - 1 entries ((m+1)/2 is ceil(m/2));
   (c) the root of a non-empty tree has at least one entry;
   (d) all leaves are at the same depth, which is what Height() returns ([BT.height], computed
       along the first children) and the number of levels ([BT.maxheight]);
   (e) 2 * ceil(m/2)^(height - 1) <= n + 1. *)
Theorem bt_documented : forall root, BTreeInv.btree_inv m (Some root) ->
  (forall x, In x (subnodes root) ->
     (length (BT.children x) <= m)%nat /\ (length (BT.entries x) <= m - 1)%nat /\
     (BT.children x <> [] -> length (BT.entries x) = (length (BT.children x) - 1)%nat)) /\
  (forall x, In x (proper_subnodes root) -> ((m + 1) / 2 - 1 <= length (BT.entries x))%nat) /\
  (1 <= length (BT.entries root))%nat /\
  (forall d, In d (leaf_depths root) -> d = BT.height root) /\
  BT.height root = BT.maxheight root /\
  (2 * ((m + 1) / 2) ^ (BT.height root - 1) <= BT.count root + 1)%nat.
Proof.
  intros root Hinv. pose proof Hinv as (h & Hb & Hc).
  split; [|split; [|split; [|split; [|split]]]].
  - intros x Hx. rewrite subnodes_root in Hx. destruct Hx as [<-|Hx].
    + destruct root as [es cs]. cbn [BT.children BT.entries].
      destruct (node_local h 1%nat es cs Hb Hc) as (H1 & H2 & _ & H4). auto.
    + destruct (sub_inv h root 1%nat Hb Hc x Hx) as (h' & Hb' & Hc').
      destruct x as [es cs]. cbn [BT.children BT.entries].
      destruct (node_local h' minE es cs Hb' Hc') as (H1 & H2 & _ & H4). auto.
  - intros x Hx. destruct (sub_inv h root 1%nat Hb Hc x Hx) as (h' & Hb' & Hc').
    destruct x as [es cs]. cbn [BT.entries].
    destruct (node_local h' minE es cs Hb' Hc') as (_ & _ & H3 & _). exact H3.
  - destruct root as [es cs]. cbn [BT.entries].
    destruct (node_local h 1%nat es cs Hb Hc) as (_ & _ & H3 & _). exact H3.
  - intros d Hd. rewrite (BTreeMap.bal_height _ _ Hb). eapply leaf_depths_bal; eassumption.
  - apply (BTreeInv.btree_inv_height m). exact Hinv.
  - pose proof (BTreeBounds.bt_height m Hm root (BT.height root) Hinv eq_refl) as Hh.
    rewrite (BTreeBounds.minE_ceil m Hm) in Hh. exact Hh.
Qed.
End BTDoc.

Lemma bt_valid_m : forall c, 3 <= corder c -> (3 <= bt_m c)%nat.
Proof. intros c H. unfold bt_m. lia. Qed.

Lemma bt_tvalid : forall c, ckind c = BTree -> 3 <= corder c -> tvalid c.
Proof. intros c K Ho. split; [rewrite K; reflexivity|intros _; exact Ho]. Qed.

Theorem C07_bt_reach : forall c ops, ckind c = BTree -> 3 <= corder c ->
  exists r n, run c ops = StBT r n /\ BTreeInv.btree_inv (bt_m c) r /\ n = Z.of_nat (bt_count r).
Proof.
  intros c ops K Ho. pose proof (run_shape c ops (bt_tvalid c K Ho)) as H. unfold shape in H. rewrite K in H.
  destruct (run c ops) as [| | | | |r n| | | | | | |]; try contradiction.
  exists r, n. split; [reflexivity|exact H].
Qed.

Theorem C07_bt_shape : forall c ops r n, ckind c = BTree -> 3 <= corder c -> run c ops = StBT r n ->
  BTreeInv.btree_inv (bt_m c) r /\ n = Z.of_nat (bt_count r).
Proof.
  intros c ops r n K Ho R. destruct (C07_bt_reach c ops K Ho) as (r' & n' & R' & H).
  rewrite R in R'. injection R' as -> ->. exact H.
Qed.

(* the documented shape in every reachable state with a non-empty tree; [m] is the order *)
Theorem C07_bt_documented : forall c ops root n, ckind c = BTree -> 3 <= corder c ->
  run c ops = StBT (Some root) n ->
  let m := bt_m c in
  n = Z.of_nat (BT.count root) /\
  (forall x, In x (subnodes root) ->
     (length (BT.children x) <= m)%nat /\ (length (BT.entries x) <= m - 1)%nat /\
     (BT.children x <> [] -> length (BT.entries x) = (length (BT.children x) - 1)%nat)) /\
  (forall x, In x (proper_subnodes root) -> ((m + 1) / 2 - 1 <= length (BT.entries x))%nat) /\
  (1 <= length (BT.entries root))%nat /\
  (forall d, In d (leaf_depths root) -> d = BT.height root) /\
  BT.height root = BT.maxheight root /\
  (2 * ((m + 1) / 2) ^ (BT.height root - 1) <= BT.count root + 1)%nat.
Proof.
  intros c ops root n K Ho R m. destruct (C07_bt_shape c ops (Some root) n K Ho R) as [Hinv Hn].
  split; [exact Hn|]. apply bt_documented; [apply bt_valid_m; exact Ho|exact Hinv].
Qed.

(* the empty tree is [None] exactly when the size is 0: a reachable root always holds an entry *)
Theorem C07_bt_empty : forall c ops r n, ckind c = BTree -> 3 <= corder c -> run c ops = StBT r n ->
  (r = None <-> n = 0).
Proof.
  intros c ops r n K Ho R. destruct (C07_bt_shape c ops r n K Ho R) as [Hinv Hn].
  destruct r as [root|]; cbn [bt_count] in Hn.
  - destruct (bt_documented (bt_m c) (bt_valid_m c Ho) root Hinv) as (_ & _ & H1 & _).
    destruct root as [es cs]. cbn [BT.entries BT.count] in *. split; [discriminate|lia].
  - split; [intros _; exact Hn|reflexivity].
Qed.

(* ================================================================================================ *)
(* 7. comparator calls of one more Put / Remove, from ANY reachable state                           *)
(* ================================================================================================ *)
(* [snd (step c s o)] is the cost component the machine emits (and the harness compares with the
   number of comparator calls the Go code really made): [cost q] for q calls.  n = Size(). *)
Definition nsize (c : config) (s : state) : nat := Z.to_nat (size_of c s).

Lemma cost_inj : forall p q, cost p = cost q -> p = q.
Proof. intros p q H. unfold cost in H. injection H as H. lia. Qed.

(* ---------- red-black tree ---------- *)
Lemma rb_cost_bounds : forall cmp k t, RBInv.rbt t ->
  (RB.put_cost cmp k t <= 2 * Nat.log2 (RB.count t + 1) + 1)%nat /\
  (RB.remove_cost cmp k t <= 2 * Nat.log2 (RB.count t + 1))%nat /\
  (RB.get_cost cmp k t <= 2 * Nat.log2 (RB.count t + 1))%nat /\
  (RB.put_cost cmp k t <= RB.height t + 1)%nat /\
  (RB.remove_cost cmp k t <= RB.height t)%nat /\
  (RB.get_cost cmp k t <= RB.height t)%nat.
Proof.
  intros cmp k t Ht. destruct (RBBounds.C07_rb_cost cmp k t Ht) as (Hg & Hr & Hp).
  pose proof (RBBounds.lookup_cost_height cmp k t) as Hl.
  assert (Hph : (RB.put_cost cmp k t <= RB.height t + 1)%nat).
  { unfold RB.put_cost. destruct t as [|co l k0 v0 r]; [cbn; lia|lia]. }
  unfold RB.remove_cost, RB.get_cost in *.
  repeat split; assumption.
Qed.

Theorem C07_cost_rb : forall c ops k v, ckind c = RedBlackTree ->
  let s := run c ops in
  let n := nsize c s in
  (exists q, snd (step c s (Put k v)) = cost q /\ (q <= 2 * Nat.log2 (n + 1) + 1)%nat) /\
  (exists q, snd (step c s (Remove k)) = cost q /\ (q <= 2 * Nat.log2 (n + 1))%nat).
Proof.
  intros c ops k v K s n.
  assert (Hv : tvalid c) by (split; rewrite K; [reflexivity|discriminate]).
  pose proof (run_tinv c ops Hv) as Hi. fold s in Hi. subst n. clearbody s.
  unfold tinv in Hi. rewrite K in Hi. unfold minv, Generic.inv in Hi. rewrite K in Hi.
  destruct s as [| | |t n| | | | | | | | |]; try contradiction.
  destruct (rbI_shape _ _ _ Hi) as [Hrb Hn].
  subst n. unfold nsize. cbn [size_of]. rewrite Nat2Z.id.
  destruct (rb_cost_bounds (kc c) k t Hrb) as (Hp & Hr & _).
  split.
  - destruct (rbs_put_sim (kc c) (kc_SWO c) k v _ Hi) as ([t' n'] & E & _).
    exists (RB.put_cost (kc c) k t). split; [|exact Hp]. unfold step. rewrite K, E. reflexivity.
  - destruct (rbs_remove_sim (kc c) (kc_SWO c) k _ Hi) as ([t' n'] & E & _).
    exists (RB.remove_cost (kc c) k t). split; [|exact Hr]. unfold step. rewrite K, E. reflexivity.
Qed.

(* ---------- AVL tree ---------- *)
Lemma avl_cost_bounds : forall cmp k t, AVLInv.avl t ->
  avl_log_bound (AVL.count t) (AVL.put_cost cmp k t) /\ (AVL.put_cost cmp k t <= AVL.height t)%nat /\
  avl_log_bound (AVL.count t) (AVL.remove_cost cmp k t) /\ (AVL.remove_cost cmp k t <= AVL.height t)%nat /\
  avl_log_bound (AVL.count t) (AVL.get_cost cmp k t) /\ (AVL.get_cost cmp k t <= AVL.height t)%nat.
Proof.
  intros cmp k t Ht. pose proof (AVLBounds.lookup_cost_height cmp k t) as Hl.
  unfold AVL.put_cost, AVL.remove_cost, AVL.get_cost.
  pose proof (avl_log_bound_le t _ Ht Hl) as Hb. tauto.
Qed.

Theorem C07_cost_avl : forall c ops k v, ckind c = AVLTree ->
  let s := run c ops in
  let n := nsize c s in
  (exists q, snd (step c s (Put k v)) = cost q /\ avl_log_bound n q) /\
  (exists q, snd (step c s (Remove k)) = cost q /\ avl_log_bound n q).
Proof.
  intros c ops k v K s n.
  assert (Hv : tvalid c) by (split; rewrite K; [reflexivity|discriminate]).
  pose proof (run_tinv c ops Hv) as Hi. fold s in Hi. subst n. clearbody s.
  unfold tinv in Hi. rewrite K in Hi. unfold minv, Generic.inv in Hi. rewrite K in Hi.
  destruct s as [| | | |t n| | | | | | | |]; try contradiction.
  pose proof Hi as (Ha & _ & Hn). rewrite <- AVLMap.count_inorder in Hn.
  subst n. unfold nsize. cbn [size_of]. rewrite Nat2Z.id.
  destruct (avl_cost_bounds (kc c) k t Ha) as (Hp & _ & Hr & _).
  split.
  - destruct (avl_put_sim (kc c) (kc_SWO c) k v t _ Hi) as (t' & n' & E & _).
    exists (AVL.put_cost (kc c) k t). split; [|exact Hp]. unfold step. rewrite E. reflexivity.
  - destruct (avl_remove_sim (kc c) (kc_SWO c) k t _ Hi) as (t' & n' & E & _).
    exists (AVL.remove_cost (kc c) k t). split; [|exact Hr]. unfold step. rewrite E. reflexivity.
Qed.

(* ---------- B-tree of order m ---------- *)
(* q <= 4 * (log2 m + 1) * (log_ceil(m/2) (n+1) + 1), the logarithm in base ceil(m/2) = (m+1)/2
   being given by its defining inequality (any L with n + 1 < ceil(m/2)^(L+1), in particular
   L = floor(log_ceil(m/2) (n+1))); and a closed form with log2 only (ceil(m/2) >= 2). *)
Definition bt_log_bound (m n q : nat) : Prop :=
  (forall L, (n + 1 < ((m + 1) / 2) ^ (L + 1))%nat -> (q <= 4 * (Nat.log2 m + 1) * (L + 1))%nat) /\
  (q <= 4 * (Nat.log2 m + 1) * Nat.log2 (n + 1))%nat.

Lemma bt_log_bound_0 : forall m n, bt_log_bound m n 0.
Proof. intros m n. split; [intros L _|]; lia. Qed.

Lemma bt_cost_bounds : forall m cmp fuel k e r, (3 <= m)%nat -> BTreeInv.btree_inv m r ->
  bt_log_bound m (bt_count r) (BTC.put_c m cmp fuel e r) /\
  bt_log_bound m (bt_count r) (BTC.remove_c m cmp fuel k r) /\
  bt_log_bound m (bt_count r) (match r with Some n => BTC.get_c cmp fuel k n | None => 0%nat end).
Proof.
  intros m cmp fuel k e [root|] Hm Hinv; cbn [bt_count].
  - pose proof (BTreeCostProofs.C07_bt_cost_log2 m cmp fuel k e root Hm Hinv) as (G2 & P2 & R2).
    repeat split; try assumption; intros L HL;
      destruct (BTreeCostProofs.C07_bt_cost_n m cmp fuel k e root L Hm Hinv HL) as (G1 & P1 & R1); assumption.
  - repeat split; try (intros L _); cbn; lia.
Qed.

Theorem C07_cost_bt : forall c ops k v, ckind c = BTree -> 3 <= corder c ->
  let s := run c ops in
  let n := nsize c s in
  (exists q, snd (step c s (Put k v)) = cost q /\ bt_log_bound (bt_m c) n q) /\
  (exists q, snd (step c s (Remove k)) = cost q /\ bt_log_bound (bt_m c) n q).
Proof.
  intros c ops k v K Ho s n.
  pose proof (run_tinv c ops (bt_tvalid c K Ho)) as Hi. fold s in Hi. subst n. clearbody s.
  unfold tinv in Hi. rewrite K in Hi. unfold minv, Generic.inv in Hi. rewrite K in Hi.
  destruct s as [| | | | |r n| | | | | | |]; try contradiction.
  destruct Hi as (HR & Hn). pose proof HR as [Hinv _]. rewrite <- bt_count_inorder in Hn.
  subst n. unfold nsize. cbn [size_of]. rewrite Nat2Z.id.
  pose proof (bt_valid_m c Ho) as Hm.
  destruct (bt_cost_bounds (bt_m c) (kc c) (bt_fuel r) k (k, v) r Hm Hinv) as (Hp & Hr & _).
  split.
  - destruct (btR_put_total (bt_m c) (kc c) Hm (kc_SWO c) k v r HR) as (r' & b & E & _).
    exists (BTC.put_c (bt_m c) (kc c) (bt_fuel r) (k, v) r). split; [|exact Hp].
    unfold step, bt_put. rewrite E. reflexivity.
  - destruct (btR_remove_total (bt_m c) (kc c) Hm (kc_SWO c) k r HR) as (r' & b & E & _).
    exists (BTC.remove_c (bt_m c) (kc c) (bt_fuel r) k r). split; [|exact Hr].
    unfold step, bt_remove. rewrite E. reflexivity.
Qed.

(* ================================================================================================ *)
(* 8. comparator calls of Get: the [TCost] entry of the observation vector                          *)
(* ================================================================================================ *)
(* the number of comparator calls of Get(k) in state s *)
Definition get_cost_of (c : config) (s : state) (k : Z) : nat :=
  match s with
  | StRB t _ => RB.get_cost (kc c) k t
  | StAVL t _ => AVL.get_cost (kc c) k t
  | StBT r _ => match r with Some n => BTC.get_c (kc c) (bt_fuel r) k n | None => 0%nat end
  | _ => 0%nat
  end.
(* after every operation the harness calls Get on every probe key -1 .. cuni and compares the numbers
   of comparator calls with this list *)
Definition get_costs (c : config) (s : state) : list nat := map (get_cost_of c s) (probes c).

Definition cost_kind (k : kind) : bool :=
  match k with RedBlackTree | AVLTree | BTree => true | _ => false end.

Lemma cost_kind_tvalid : forall c, cost_kind (ckind c) = true -> (ckind c = BTree -> 3 <= corder c) -> tvalid c.
Proof. intros c Hk Ho. split; [destruct (ckind c); try discriminate Hk; reflexivity|exact Ho]. Qed.

Ltac only_tag T H :=
  repeat match type of H with
         | _ \/ _ => destruct H as [H|H]
         | False => contradiction
         | _ = (T, _) => first [discriminate H | injection H as <-]
         end.

Ltac open_observe_in T H K lvl :=
  unfold observe in H; rewrite K in H; cbv beta iota zeta in H;
  repeat rewrite in_app_iff in H;
  destruct (1 <=? lvl); try destruct (each_of _ _); try destruct (each_back _ _);
  cbn [In andb is_kv] in H; only_tag T H.

(* the only TCost entry of the observation vector is the list of Get costs ... *)
Lemma observe_tcost_only : forall c lvl s o, cost_kind (ckind c) = true -> tinv c s ->
  In (TCost, o) (observe c lvl s) -> o = ozs (map Z.of_nat (get_costs c s)).
Proof.
  intros c lvl s o Hk Hi H. unfold tinv in Hi. unfold get_costs.
  destruct (ckind c) eqn:K; try discriminate Hk;
    unfold minv, Generic.inv in Hi; rewrite K in Hi.
  - destruct s as [| | |t n| | | | | | | | |]; try contradiction.
    open_observe_in TCost H K lvl; rewrite map_map; reflexivity.
  - destruct s as [| | | |t n| | | | | | | |]; try contradiction.
    open_observe_in TCost H K lvl; rewrite map_map; reflexivity.
  - destruct s as [| | | | |r n| | | | | | |]; try contradiction.
    destruct r as [root|]; open_observe_in TCost H K lvl; rewrite map_map; reflexivity.
Qed.

Ltac open_observe K :=
  unfold observe; rewrite K; cbv beta iota zeta;
  repeat rewrite in_app_iff; do 6 right; left; unfold get_costs; rewrite map_map; cbn [In get_cost_of]; tauto.

(* ... and it is printed at every observation level *)
Lemma observe_tcost_printed : forall c lvl s, cost_kind (ckind c) = true -> tinv c s ->
  In (TCost, ozs (map Z.of_nat (get_costs c s))) (observe c lvl s).
Proof.
  intros c lvl s Hk Hi. unfold tinv in Hi.
  destruct (ckind c) eqn:K; try discriminate Hk;
    unfold minv, Generic.inv in Hi; rewrite K in Hi.
  - destruct s as [| | |t n| | | | | | | | |]; try contradiction. open_observe K.
  - destruct s as [| | | |t n| | | | | | | |]; try contradiction. open_observe K.
  - destruct s as [| | | | |r n| | | | | | |]; try contradiction.
    destruct r as [root|]; open_observe K.
Qed.

(* the bound of the property, per kind, for q comparator calls on n keys *)
Definition cost_bound (c : config) (n q : nat) : Prop :=
  match ckind c with
  | RedBlackTree => (q <= 2 * Nat.log2 (n + 1))%nat
  | AVLTree => avl_log_bound n q
  | BTree => bt_log_bound (bt_m c) n q
  | _ => True
  end.

(* Get of ANY key (probe or not) in a state satisfying the invariant *)
Lemma get_cost_bound : forall c s k, cost_kind (ckind c) = true -> (ckind c = BTree -> 3 <= corder c) ->
  tinv c s -> cost_bound c (nsize c s) (get_cost_of c s k).
Proof.
  intros c s k Hk Ho Hi. pose proof (tinv_shape c s Hi) as Hs.
  unfold shape in Hs. unfold cost_bound, nsize.
  destruct (ckind c) eqn:K; try discriminate Hk.
  - destruct s as [| | |t n| | | | | | | | |]; try contradiction. destruct Hs as [Hrb ->].
    cbn [size_of get_cost_of]. rewrite Nat2Z.id. apply rb_cost_bounds. exact Hrb.
  - destruct s as [| | | |t n| | | | | | | |]; try contradiction. destruct Hs as [Ha ->].
    cbn [size_of get_cost_of]. rewrite Nat2Z.id. apply avl_cost_bounds. exact Ha.
  - destruct s as [| | | | |r n| | | | | | |]; try contradiction. destruct Hs as [Hinv ->].
    cbn [size_of get_cost_of]. rewrite Nat2Z.id.
    apply (bt_cost_bounds (bt_m c) (kc c) (bt_fuel r) k (k, 0) r); [apply bt_valid_m; apply Ho; reflexivity|exact Hinv].
Qed.

Theorem C07_get_any_key : forall c ops k, cost_kind (ckind c) = true -> (ckind c = BTree -> 3 <= corder c) ->
  let s := run c ops in
  cost_bound c (nsize c s) (get_cost_of c s k).
Proof.
  intros c ops k Hk Ho s. apply get_cost_bound; [exact Hk|exact Ho|].
  apply run_tinv. apply cost_kind_tvalid; assumption.
Qed.

(* every TCost entry printed for a reachable state is a list of numbers of comparator calls, one per
   probe key, each within the bound; and such an entry is printed at every level *)
Theorem C07_cost_get : forall c ops lvl o, cost_kind (ckind c) = true -> (ckind c = BTree -> 3 <= corder c) ->
  let s := run c ops in
  In (TCost, o) (observe c lvl s) ->
  exists qs, o = ozs (map Z.of_nat qs) /\ qs = map (get_cost_of c s) (probes c) /\
             Forall (cost_bound c (nsize c s)) qs.
Proof.
  intros c ops lvl o Hk Ho s H.
  pose proof (run_tinv c ops (cost_kind_tvalid c Hk Ho)) as Hi. fold s in Hi.
  exists (get_costs c s). split; [apply (observe_tcost_only c lvl); assumption|].
  split; [reflexivity|]. unfold get_costs. apply Forall_forall. intros q Hq.
  apply in_map_iff in Hq. destruct Hq as (k & <- & _). apply get_cost_bound; assumption.
Qed.

Theorem C07_cost_get_printed : forall c ops lvl, cost_kind (ckind c) = true -> (ckind c = BTree -> 3 <= corder c) ->
  let s := run c ops in
  In (TCost, ozs (map Z.of_nat (map (get_cost_of c s) (probes c)))) (observe c lvl s).
Proof.
  intros c ops lvl Hk Ho s. apply (observe_tcost_printed c lvl s Hk).
  apply run_tinv. apply cost_kind_tvalid; assumption.
Qed.

(* what the machine prints as THeight (compared with Go's Height() after every operation) is the
   number of levels of the tree *)
Theorem C07_bt_height_observed : forall c ops lvl o, ckind c = BTree -> 3 <= corder c ->
  In (THeight, o) (observe c lvl (run c ops)) ->
  exists r n, run c ops = StBT r n /\
    o = OZ (Z.of_nat (match r with Some root => BT.maxheight root | None => 0%nat end)).
Proof.
  intros c ops lvl o K Ho H. destruct (C07_bt_reach c ops K Ho) as (r & n & R & Hinv & _).
  exists r, n. split; [exact R|]. rewrite R in H.
  destruct r as [root|].
  - open_observe_in THeight H K lvl; rewrite (BTreeInv.btree_inv_height _ _ Hinv); reflexivity.
  - open_observe_in THeight H K lvl; reflexivity.
Qed.

(* ================================================================================================ *)
(* 9. TreeMap, TreeSet, TreeBidiMap inherit the red-black bounds                                    *)
(* ================================================================================================ *)
(* The machine does not print the costs of these kinds (the Go types do not expose the comparator
   count), but their trees satisfy the same invariant in every reachable state, so the bound applies
   to the cost functions of Model/RBTree.v on them, for every key and every comparator. *)
Definition rb_costs_ok (t : RB.tree) (n : nat) : Prop :=
  forall cmp k,
    (RB.put_cost cmp k t <= 2 * Nat.log2 (n + 1) + 1)%nat /\
    (RB.remove_cost cmp k t <= 2 * Nat.log2 (n + 1))%nat /\
    (RB.get_cost cmp k t <= 2 * Nat.log2 (n + 1))%nat.

Lemma rbt_costs_ok : forall t, RBInv.rbt t -> rb_costs_ok t (RB.count t).
Proof. intros t Ht cmp k. destruct (rb_cost_bounds cmp k t Ht) as (H1 & H2 & H3 & _). auto. Qed.

Theorem C07_rb_inherit : forall c ops t n, rb_kind (ckind c) = true -> run c ops = StRB t n ->
  rb_costs_ok t (Z.to_nat n).
Proof.
  intros c ops t n Hk R. destruct (C07_rb_shape c ops t n Hk R) as [Hrb ->].
  rewrite Nat2Z.id. apply rbt_costs_ok. exact Hrb.
Qed.

Theorem C07_bidi_inherit : forall c ops f fn i inn, ckind c = TreeBidiMap -> run c ops = StTBidi f fn i inn ->
  rb_costs_ok f (Z.to_nat fn) /\ rb_costs_ok i (Z.to_nat inn).
Proof.
  intros c ops f fn i inn K R. destruct (C07_bidi_shape c ops f fn i inn K R) as (Hf & Hi & -> & ->).
  rewrite !Nat2Z.id. split; apply rbt_costs_ok; assumption.
Qed.

Print Assumptions run_tinv.
Print Assumptions C07_no_crash.
Print Assumptions C07_rb_reach.
Print Assumptions C07_bidi_reach.
Print Assumptions C07_rb_balanced.
Print Assumptions C07_avl_balanced.
Print Assumptions C07_bt_documented.
Print Assumptions C07_cost_rb.
Print Assumptions C07_cost_avl.
Print Assumptions C07_cost_bt.
Print Assumptions C07_cost_get.
Print Assumptions C07_cost_get_printed.
Print Assumptions C07_bt_height_observed.
Print Assumptions C07_rb_inherit.
Print Assumptions C07_bidi_inherit.
