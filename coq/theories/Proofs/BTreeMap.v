(* B-tree: ordering and refinement to sorted association lists. *)
From Coq Require Import ZArith List Lia Bool Arith Sorted.
From Gods Require Import Common.Cmp Model.BTree Spec.MapSpec Proofs.BTreeInd.
Import ListNotations.

(* Model.BTree.entry and Spec.MapSpec.entry are both Z * Z; use the model's name throughout *)
Notation entry := BTree.entry.

(* ---------- shape predicates (no comparator involved) ---------- *)
Inductive wf_shape : node -> Prop :=
| wf_N : forall es cs, (cs = [] \/ length cs = S (length es)) -> Forall wf_shape cs -> wf_shape (N es cs).

Lemma wf_shape_inv : forall es cs, wf_shape (N es cs) <->
  ((cs = [] \/ length cs = S (length es)) /\ Forall wf_shape cs).
Proof.
  intros es cs. split.
  - intros H. inversion H; subst. split; assumption.
  - intros [H1 H2]. constructor; assumption.
Qed.

(* [bal h n]: well-shaped and every leaf is at depth exactly h *)
Fixpoint bal (h : nat) (n : node) : Prop :=
  match h with
  | O => False
  | S h' => match n with N es cs =>
              match h' with
              | O => cs = []
              | S _ => length cs = S (length es) /\ Forall (bal h') cs
              end
            end
  end.

Lemma bal_wf : forall h n, bal h n -> wf_shape n.
Proof.
  induction h as [|h IH]; intros [es cs] H; cbn in H; [contradiction|].
  destruct h as [|h'].
  - subst cs. constructor; [left; reflexivity|constructor].
  - destruct H as [Hl Hf]. constructor; [right; exact Hl|].
    eapply Forall_impl; [|exact Hf]. intros c Hc. apply IH. exact Hc.
Qed.

Lemma list_max_in : forall l x, In x l -> (x <= list_max l)%nat.
Proof.
  intros l x H. assert (Hf : Forall (fun k => (k <= list_max l)%nat) l) by (apply list_max_le; lia).
  rewrite Forall_forall in Hf. apply Hf. exact H.
Qed.

Lemma maxheight_child : forall es cs c, In c cs -> (S (maxheight c) <= maxheight (N es cs))%nat.
Proof.
  intros es cs c H. cbn [maxheight]. apply le_n_S. apply list_max_in. apply in_map. exact H.
Qed.

Lemma bal_maxheight : forall h n, bal h n -> maxheight n = h.
Proof.
  induction h as [|h IH]; intros [es cs] H; cbn in H; [contradiction|].
  destruct h as [|h'].
  - subst cs. reflexivity.
  - destruct H as [Hl Hf]. cbn [maxheight]. f_equal.
    assert (Hall : Forall (fun k => k = S h') (map maxheight cs)).
    { rewrite Forall_map. eapply Forall_impl; [|exact Hf]. intros c Hc. apply IH. exact Hc. }
    destruct cs as [|c cs]; [discriminate|].
    apply Nat.le_antisymm.
    + apply list_max_le. eapply Forall_impl; [|exact Hall]. intros k Hk. cbn in Hk. lia.
    + inversion Hall as [|k l Hk Hr]; subst. rewrite <- Hk at 1. apply list_max_in. left. reflexivity.
Qed.

Lemma bal_height : forall h n, bal h n -> height n = h.
Proof.
  induction h as [|h IH]; intros [es cs] H; cbn in H; [contradiction|].
  destruct h as [|h'].
  - subst cs. reflexivity.
  - destruct H as [Hl Hf]. cbn [height]. f_equal.
    destruct cs as [|c cs]; [discriminate|]. inversion Hf; subst. apply IH. assumption.
Qed.

Definition inorder' (r : option node) : list entry := match r with None => [] | Some n => inorder n end.

(* ---------- pre / post decomposition of interleave ---------- *)
Definition pre (cs : list (list entry)) (es : list entry) : list entry :=
  concat (map (fun p => fst p ++ [snd p]) (combine cs es)).
Definition post (cs : list (list entry)) (es : list entry) : list entry :=
  concat (map (fun p => snd p :: fst p) (combine cs es)).

Lemma interleave_cons_post : forall cs es c, length cs = length es ->
  interleave (c :: cs) es = c ++ post cs es.
Proof.
  induction cs as [|c1 cs IH]; intros es c Hl.
  - destruct es; [|discriminate]. reflexivity.
  - destruct es as [|e es]; [discriminate|]. cbn in Hl. injection Hl as Hl.
    cbn [interleave]. f_equal. unfold post. cbn. f_equal. 
    change (interleave (c1 :: cs) es = c1 ++ post cs es). apply IH. exact Hl.
Qed.

Lemma interleave_split : forall cs1 es1 c cs2 es2,
  length cs1 = length es1 -> length cs2 = length es2 ->
  interleave (cs1 ++ c :: cs2) (es1 ++ es2) = pre cs1 es1 ++ c ++ post cs2 es2.
Proof.
  intros cs1 es1 c cs2 es2 H1 H2. rewrite interleave_app_child by exact H1.
  rewrite interleave_cons_post by exact H2. reflexivity.
Qed.

Lemma post_cons : forall c cs e es, post (c :: cs) (e :: es) = e :: c ++ post cs es.
Proof. reflexivity. Qed.


Lemma pre_last : forall cs es, length cs = length es ->
  pre cs es = [] \/ exists A e, pre cs es = A ++ [e] /\ In e es.
Proof.
  induction cs as [|c cs IH]; intros es Hl.
  - left. reflexivity.
  - destruct es as [|e es]; [discriminate|]. cbn in Hl. injection Hl as Hl. right.
    unfold pre. cbn. fold (pre cs es). destruct (IH es Hl) as [E|(A & e' & E & Hin)].
    + rewrite E. exists c, e. rewrite app_nil_r. split; [reflexivity|left; reflexivity].
    + rewrite E. exists ((c ++ [e]) ++ A), e'. rewrite app_assoc. split; [reflexivity|right; exact Hin].
Qed.

Lemma post_head : forall cs es, length cs = length es ->
  post cs es = [] \/ exists e B, post cs es = e :: B /\ In e es.
Proof.
  intros cs es Hl. destruct cs as [|c cs]; destruct es as [|e es]; try discriminate.
  - left. reflexivity.
  - right. exists e, (c ++ post cs es). split; [reflexivity|left; reflexivity].
Qed.

Lemma interleave_app_entry' : forall csL (es1 : list entry) csR e es2,
  length csL = S (length es1) ->
  interleave (csL ++ csR) (es1 ++ e :: es2) = interleave csL es1 ++ e :: interleave csR es2.
Proof.
  induction csL as [|c csL IH]; intros es1 csR e es2 Hl; [discriminate|].
  destruct es1 as [|e1 es1].
  - destruct csL; [|discriminate]. cbn. rewrite app_nil_r. reflexivity.
  - cbn in Hl. injection Hl as Hl. cbn. rewrite IH by exact Hl. rewrite <- app_assoc. reflexivity.
Qed.


Section Map.
Variable cmp : cmpf.
Hypothesis Hswo : SWO cmp.

Definition bst (n : node) : Prop := ksorted cmp (inorder n).

Notation klt := (fun a b : entry => cmp (fst a) (fst b) = Lt).

(* ---------- comparator facts ---------- *)
Lemma cmp_gt_lt : forall x y, cmp x y = Gt <-> cmp y x = Lt.
Proof.
  intros x y. rewrite (swo_sym cmp Hswo x y). destruct (cmp x y); cbn; split; congruence.
Qed.

Lemma cmp_eq_sym : forall x y, cmp x y = Eq -> cmp y x = Eq.
Proof.
  intros x y H. rewrite (swo_sym cmp Hswo x y). rewrite H. reflexivity.
Qed.

Lemma cmp_gt_trans_lt : forall key a b, cmp key b = Gt -> cmp a b = Lt -> cmp key a = Gt.
Proof.
  intros key a b H1 H2. apply cmp_gt_lt. apply cmp_gt_lt in H1.
  eapply (swo_trans cmp Hswo); eassumption.
Qed.

Lemma cmp_lt_trans : forall key a b, cmp key a = Lt -> cmp a b = Lt -> cmp key b = Lt.
Proof. intros key a b H1 H2. eapply (swo_trans cmp Hswo); eassumption. Qed.

Lemma cmp_eq_lt_gt : forall key a b, cmp key b = Eq -> cmp a b = Lt -> cmp key a = Gt.
Proof.
  intros key a b H1 H2. rewrite (swo_eq_l cmp Hswo key b a H1). apply cmp_gt_lt. exact H2.
Qed.

Lemma cmp_eq_lt_lt : forall key a b, cmp key a = Eq -> cmp a b = Lt -> cmp key b = Lt.
Proof.
  intros key a b H1 H2. rewrite (swo_eq_l cmp Hswo key a b H1). exact H2.
Qed.

(* ---------- ksorted ---------- *)
Lemma ksorted_app : forall l1 l2, ksorted cmp (l1 ++ l2) <->
  (ksorted cmp l1 /\ ksorted cmp l2 /\ forall a b, In a l1 -> In b l2 -> cmp (fst a) (fst b) = Lt).
Proof.
  unfold ksorted. induction l1 as [|x l1 IH]; intros l2; cbn.
  - split.
    + intros H. split; [constructor|]. split; [exact H|]. intros a b [].
    + intros (_ & H & _). exact H.
  - split.
    + intros H. inversion H as [|y l Hs Hf]; subst. apply IH in Hs. destruct Hs as (H1 & H2 & H3).
      rewrite Forall_app in Hf. destruct Hf as [Hf1 Hf2].
      split; [constructor; assumption|]. split; [exact H2|].
      intros a b [<-|Ha] Hb.
      * rewrite Forall_forall in Hf2. apply Hf2. exact Hb.
      * apply H3; assumption.
    + intros (H1 & H2 & H3). inversion H1 as [|y l Hs Hf]; subst. constructor.
      * apply IH. split; [exact Hs|]. split; [exact H2|]. intros a b Ha Hb. apply H3; [right|]; assumption.
      * rewrite Forall_app. split; [exact Hf|]. rewrite Forall_forall. intros b Hb. apply H3; [left; reflexivity|exact Hb].
Qed.

Lemma ksorted_cons : forall x l, ksorted cmp (x :: l) <->
  (ksorted cmp l /\ forall b, In b l -> cmp (fst x) (fst b) = Lt).
Proof.
  intros x l. unfold ksorted. split.
  - intros H. inversion H as [|y l' Hs Hf]; subst. split; [exact Hs|]. rewrite Forall_forall in Hf. exact Hf.
  - intros [H1 H2]. constructor; [exact H1|]. rewrite Forall_forall. exact H2.
Qed.

Lemma ksorted_nil : ksorted cmp [].
Proof. constructor. Qed.

Lemma ksorted_nth : forall es i j a b, ksorted cmp es -> (i < j)%nat ->
  nth_error es i = Some a -> nth_error es j = Some b -> cmp (fst a) (fst b) = Lt.
Proof.
  intros es i j a b Hs Hij Ha Hb.
  destruct (split_nth _ _ _ _ Ha) as (l1 & l2 & -> & Hl). subst i.
  apply ksorted_app in Hs. destruct Hs as (_ & Hs & _). apply ksorted_cons in Hs. destruct Hs as [_ Hs].
  apply Hs. rewrite nth_error_app2 in Hb by lia.
  destruct (j - length l1)%nat as [|k] eqn:E; [lia|]. cbn in Hb. eapply nth_error_In. exact Hb.
Qed.

(* everything left of a Gt entry is Gt, everything right of a Lt entry is Lt *)
Lemma sorted_all_gt : forall key A e R, ksorted cmp ((A ++ [e]) ++ R) -> cmp key (fst e) = Gt ->
  forall a, In a (A ++ [e]) -> cmp key (fst a) = Gt.
Proof.
  intros key A e R Hs Hg a Ha. apply ksorted_app in Hs. destruct Hs as (Hs & _ & _).
  apply ksorted_app in Hs. destruct Hs as (_ & _ & Hs).
  apply in_app_or in Ha. destruct Ha as [Ha|[<-|[]]]; [|exact Hg].
  eapply cmp_gt_trans_lt; [exact Hg|]. apply Hs; [exact Ha|left; reflexivity].
Qed.

Lemma sorted_all_lt : forall key e B, ksorted cmp (e :: B) -> cmp key (fst e) = Lt ->
  forall b, In b (e :: B) -> cmp key (fst b) = Lt.
Proof.
  intros key e B Hs Hl b [<-|Hb]; [exact Hl|].
  apply ksorted_cons in Hs. destruct Hs as [_ Hs]. eapply cmp_lt_trans; [exact Hl|]. apply Hs. exact Hb.
Qed.

(* ---------- list operations over concatenations ---------- *)
Lemma ins_list_app_l : forall k v A L, (forall a, In a A -> cmp k (fst a) = Gt) ->
  ins_list cmp k v (A ++ L) = A ++ ins_list cmp k v L.
Proof.
  intros k v A L. induction A as [|[k' v'] A IH]; intros H; [reflexivity|].
  cbn. pose proof (H (k', v') (or_introl eq_refl)) as E0; cbn in E0; rewrite E0. rewrite IH; [reflexivity|].
  intros a Ha. apply H. right. exact Ha.
Qed.

Lemma ins_list_app_r : forall k v L B, (forall b, In b B -> cmp k (fst b) = Lt) ->
  ins_list cmp k v (L ++ B) = ins_list cmp k v L ++ B.
Proof.
  intros k v L B H. induction L as [|[k' v'] L IH].
  - cbn. destruct B as [|[k' v'] B]; [reflexivity|]. cbn. pose proof (H (k', v') (or_introl eq_refl)) as E0; cbn in E0; rewrite E0. reflexivity.
  - cbn. destruct (cmp k k'); [reflexivity|reflexivity|]. rewrite IH. reflexivity.
Qed.

Lemma ins_list_mid : forall k v A e0 B, (forall a, In a A -> cmp k (fst a) = Gt) -> cmp k (fst e0) = Eq ->
  ins_list cmp k v (A ++ e0 :: B) = A ++ (k, v) :: B.
Proof.
  intros k v A [k0 v0] B H He. rewrite ins_list_app_l by exact H. cbn in *. rewrite He. reflexivity.
Qed.

Lemma ins_list_new : forall k v A B, (forall a, In a A -> cmp k (fst a) = Gt) ->
  (forall b, In b B -> cmp k (fst b) = Lt) ->
  ins_list cmp k v (A ++ B) = A ++ (k, v) :: B.
Proof.
  intros k v A B HA HB. rewrite ins_list_app_l by exact HA.
  change B with ([] ++ B) at 1. rewrite ins_list_app_r by exact HB. reflexivity.
Qed.

Lemma del_list_app_l : forall k A L, (forall a, In a A -> cmp k (fst a) = Gt) ->
  del_list cmp k (A ++ L) = A ++ del_list cmp k L.
Proof.
  intros k A L. induction A as [|[k' v'] A IH]; intros H; [reflexivity|].
  cbn. pose proof (H (k', v') (or_introl eq_refl)) as E0; cbn in E0; rewrite E0. rewrite IH; [reflexivity|].
  intros a Ha. apply H. right. exact Ha.
Qed.

Lemma del_list_app_r : forall k L B, (forall b, In b B -> cmp k (fst b) = Lt) ->
  del_list cmp k (L ++ B) = del_list cmp k L ++ B.
Proof.
  intros k L B H. induction L as [|[k' v'] L IH].
  - cbn. destruct B as [|[k' v'] B]; [reflexivity|]. cbn. pose proof (H (k', v') (or_introl eq_refl)) as E0; cbn in E0; rewrite E0. reflexivity.
  - cbn. destruct (cmp k k'); [reflexivity|reflexivity|]. rewrite IH. reflexivity.
Qed.

Lemma del_list_mid : forall k A e0 B, (forall a, In a A -> cmp k (fst a) = Gt) -> cmp k (fst e0) = Eq ->
  del_list cmp k (A ++ e0 :: B) = A ++ B.
Proof.
  intros k A [k0 v0] B H He. rewrite del_list_app_l by exact H. cbn in *. rewrite He. reflexivity.
Qed.

Lemma del_list_none : forall k A B, (forall a, In a A -> cmp k (fst a) = Gt) ->
  (forall b, In b B -> cmp k (fst b) = Lt) -> del_list cmp k (A ++ B) = A ++ B.
Proof.
  intros k A B HA HB. rewrite del_list_app_l by exact HA.
  change B with ([] ++ B) at 1. rewrite del_list_app_r by exact HB. reflexivity.
Qed.

Lemma find_list_app_l : forall k A L, (forall a, In a A -> cmp k (fst a) = Gt) ->
  find_list cmp k (A ++ L) = find_list cmp k L.
Proof.
  intros k A L. unfold find_list. induction A as [|a A IH]; intros H; [reflexivity|].
  cbn. rewrite (H a) by (left; reflexivity). cbn. apply IH. intros a' Ha. apply H. right. exact Ha.
Qed.

Lemma find_list_app_r : forall k L B, (forall b, In b B -> cmp k (fst b) = Lt) ->
  find_list cmp k (L ++ B) = find_list cmp k L.
Proof.
  intros k L B H. unfold find_list. induction L as [|a L IH].
  - cbn. induction B as [|b B IHB]; [reflexivity|]. cbn. rewrite (H b) by (left; reflexivity). cbn.
    apply IHB. intros b' Hb. apply H. right. exact Hb.
  - cbn. destruct (is_eq (cmp k (fst a))); [reflexivity|exact IH].
Qed.

Lemma find_list_mid : forall k A e0 B, (forall a, In a A -> cmp k (fst a) = Gt) -> cmp k (fst e0) = Eq ->
  find_list cmp k (A ++ e0 :: B) = Some e0.
Proof.
  intros k A e0 B H He. rewrite find_list_app_l by exact H. unfold find_list. cbn. rewrite He. reflexivity.
Qed.

Lemma find_list_none : forall k A B, (forall a, In a A -> cmp k (fst a) = Gt) ->
  (forall b, In b B -> cmp k (fst b) = Lt) -> find_list cmp k (A ++ B) = None.
Proof.
  intros k A B HA HB. rewrite find_list_app_l by exact HA.
  change B with ([] ++ B). rewrite find_list_app_r by exact HB. reflexivity.
Qed.

Lemma mem_list_app_l : forall k A L, (forall a, In a A -> cmp k (fst a) = Gt) ->
  mem_list cmp k (A ++ L) = mem_list cmp k L.
Proof. intros k A L H. unfold mem_list. rewrite find_list_app_l by exact H. reflexivity. Qed.

Lemma mem_list_app_r : forall k L B, (forall b, In b B -> cmp k (fst b) = Lt) ->
  mem_list cmp k (L ++ B) = mem_list cmp k L.
Proof. intros k L B H. unfold mem_list. rewrite find_list_app_r by exact H. reflexivity. Qed.

(* sortedness is preserved by the list operations *)
Lemma ins_list_in : forall k v l x, In x (ins_list cmp k v l) -> x = (k, v) \/ In x l.
Proof.
  intros k v l x. induction l as [|[k' v'] l IH]; cbn.
  - intros [<-|[]]. left. reflexivity.
  - destruct (cmp k k'); cbn.
    + intros [<-|H]; [left; reflexivity|right; right; exact H].
    + intros [<-|[<-|H]]; [left; reflexivity|right; left; reflexivity|right; right; exact H].
    + intros [<-|H]; [right; left; reflexivity|]. destruct (IH H) as [->|H']; [left; reflexivity|right; right; exact H'].
Qed.

Lemma ins_list_sorted : forall k v l, ksorted cmp l -> ksorted cmp (ins_list cmp k v l).
Proof.
  intros k v l. induction l as [|[k' v'] l IH]; intros Hs; cbn.
  - apply ksorted_cons. split; [apply ksorted_nil|intros b []].
  - apply ksorted_cons in Hs. destruct Hs as [Hs Hall]. destruct (cmp k k') eqn:E.
    + apply ksorted_cons. split; [exact Hs|]. intros b Hb. cbn. eapply cmp_eq_lt_lt; [exact E|]. apply (Hall b Hb).
    + apply ksorted_cons. split.
      * apply ksorted_cons. split; assumption.
      * intros b [<-|Hb]; [exact E|]. cbn. eapply cmp_lt_trans; [exact E|]. apply (Hall b Hb).
    + apply ksorted_cons. split; [apply IH; exact Hs|]. intros b Hb. apply ins_list_in in Hb.
      destruct Hb as [->|Hb]; [cbn; apply cmp_gt_lt; exact E|apply Hall; exact Hb].
Qed.

Lemma del_list_in : forall k l x, In x (del_list cmp k l) -> In x l.
Proof.
  intros k l x. induction l as [|[k' v'] l IH]; cbn; [tauto|].
  destruct (cmp k k'); cbn; [tauto|tauto|]. intros [<-|H]; [left; reflexivity|right; apply IH; exact H].
Qed.

Lemma del_list_sorted : forall k l, ksorted cmp l -> ksorted cmp (del_list cmp k l).
Proof.
  intros k l. induction l as [|[k' v'] l IH]; intros Hs; cbn; [exact Hs|].
  pose proof Hs as Hs0. apply ksorted_cons in Hs. destruct Hs as [Hs Hall]. destruct (cmp k k').
  - exact Hs.
  - exact Hs0.
  - apply ksorted_cons. split; [apply IH; exact Hs|]. intros b Hb. apply Hall. eapply del_list_in. exact Hb.
Qed.

(* ---------- search ---------- *)
Lemma bsearch_spec : forall key (es : list entry), ksorted cmp es -> forall fuel low high pos found,
  (0 <= low)%Z -> (high < Z.of_nat (length es))%Z -> (low <= high + 1)%Z ->
  (high - low + 1 < Z.of_nat fuel)%Z ->
  (forall j e, (Z.of_nat j < low)%Z -> nth_error es j = Some e -> cmp key (fst e) = Gt) ->
  (forall j e, (high < Z.of_nat j)%Z -> nth_error es j = Some e -> cmp key (fst e) = Lt) ->
  bsearch cmp key es low high fuel = (pos, found) ->
  (forall j e, (j < pos)%nat -> nth_error es j = Some e -> cmp key (fst e) = Gt) /\
  (if found then exists e, nth_error es pos = Some e /\ cmp key (fst e) = Eq
   else forall j e, (pos <= j)%nat -> nth_error es j = Some e -> cmp key (fst e) = Lt).
Proof.
  intros key es Hs fuel. induction fuel as [|f IH]; intros low high pos found Hl Hh Hlh Hf HG HL H; cbn [bsearch] in H; cbv zeta in H.
  - lia.
  - destruct (low <=? high)%Z eqn:E.
    + apply Z.leb_le in E.
      assert (Hmid : (low <= (high + low) / 2 <= high)%Z).
      { split; [apply Z.div_le_lower_bound|apply Z.div_le_upper_bound]; lia. }
      remember ((high + low) / 2)%Z as mid eqn:Emid. clear Emid.
      destruct (nth_error es (Z.to_nat mid)) as [[k v]|] eqn:En; try rewrite En in H.
      * destruct (cmp key k) eqn:Ec; try rewrite Ec in H.
        -- injection H as <- <-. split.
           ++ intros j e Hj He. eapply cmp_eq_lt_gt; [exact Ec|]. change k with (fst (k, v)).
              eapply ksorted_nth; [exact Hs| |exact He|exact En]. lia.
           ++ exists (k, v). split; [exact En|exact Ec].
        -- apply IH in H; [exact H|lia|lia|lia|lia|exact HG|].
           intros j e Hj He. destruct (Z.eq_dec (Z.of_nat j) mid) as [Ej|Ej].
           ++ replace (Z.to_nat mid) with j in En by lia. rewrite En in He. injection He as <-. exact Ec.
           ++ destruct (Z_lt_le_dec high (Z.of_nat j)) as [Hhj|Hhj]; [eapply HL; eassumption|].
              eapply cmp_lt_trans; [exact Ec|]. change k with (fst (k, v)).
              eapply ksorted_nth; [exact Hs| |exact En|exact He]. lia.
        -- apply IH in H; [exact H|lia|lia|lia|lia| |exact HL].
           intros j e Hj He. destruct (Z.eq_dec (Z.of_nat j) mid) as [Ej|Ej].
           ++ replace (Z.to_nat mid) with j in En by lia. rewrite En in He. injection He as <-. exact Ec.
           ++ destruct (Z_lt_le_dec (Z.of_nat j) low) as [Hhj|Hhj]; [eapply HG; eassumption|].
              eapply cmp_gt_trans_lt; [exact Ec|]. change k with (fst (k, v)).
              eapply ksorted_nth; [exact Hs| |exact He|exact En]. lia.
      * apply nth_error_None in En. lia.
    + apply Z.leb_gt in E. injection H as <- <-. split.
      * intros j e Hj He. eapply HG; [|exact He]. lia.
      * intros j e Hj He. eapply HL; [|exact He]. lia.
Qed.

Lemma In_firstn_nth : forall A (l : list A) n x, In x (firstn n l) -> exists j, (j < n)%nat /\ nth_error l j = Some x.
Proof.
  intros A l n x H. apply In_nth_error in H. destruct H as [j Hj].
  assert (Hlt : (j < length (firstn n l))%nat) by (apply nth_error_Some; congruence).
  rewrite firstn_length in Hlt. exists j. split; [lia|].
  rewrite <- (firstn_skipn n l). rewrite nth_error_app1 by (rewrite firstn_length; lia). exact Hj.
Qed.

Lemma In_skipn_nth : forall A (l : list A) n x, In x (skipn n l) -> exists j, (n <= j)%nat /\ nth_error l j = Some x.
Proof.
  intros A l n x H. apply In_nth_error in H. destruct H as [j Hj].
  destruct (Nat.le_gt_cases n (length l)) as [Hn|Hn].
  - exists (n + j)%nat. split; [lia|]. rewrite <- (firstn_skipn n l) at 1.
    rewrite nth_error_app2 by (rewrite firstn_length; lia). rewrite firstn_length.
    replace (n + j - Nat.min n (length l))%nat with j by lia. exact Hj.
  - rewrite skipn_all2 in Hj by lia. destruct j; discriminate.
Qed.

Theorem search_spec : forall key (es : list entry), ksorted cmp es ->
  let '(pos, found) := search cmp key es in
  (pos <= length es)%nat /\
  (forall e, In e (firstn pos es) -> cmp key (fst e) = Gt) /\
  (if found then exists e, nth_error es pos = Some e /\ cmp key (fst e) = Eq
   else forall e, In e (skipn pos es) -> cmp key (fst e) = Lt).
Proof.
  intros key es Hs. destruct (search cmp key es) as [pos found] eqn:E.
  pose proof (search_bound _ _ _ _ _ E) as [Hb _]. split; [exact Hb|].
  unfold search in E.
  destruct (bsearch_spec key es Hs (S (length es)) 0%Z (Z.of_nat (length es) - 1)%Z pos found) as [HG HF].
  { lia. } { lia. } { lia. } { lia. }
  { intros j e Hj. lia. }
  { intros j e Hj He. assert (j < length es)%nat by (apply nth_error_Some; congruence). lia. }
  { exact E. }
  split.
  - intros e He. apply In_firstn_nth in He. destruct He as (j & Hj & He). eapply HG; eassumption.
  - destruct found; [exact HF|]. intros e He. apply In_skipn_nth in He. destruct He as (j & Hj & He). eapply HF; eassumption.
Qed.

(* decomposed form of the search result, convenient for the refinement proofs *)
Lemma search_found : forall key (es : list entry) pos, ksorted cmp es -> search cmp key es = (pos, true) ->
  exists es1 e0 es2, es = es1 ++ e0 :: es2 /\ length es1 = pos /\ cmp key (fst e0) = Eq.
Proof.
  intros key es pos Hs E. pose proof (search_spec key es Hs) as H. rewrite E in H.
  destruct H as (_ & _ & e0 & Hn & He). destruct (split_nth _ _ _ _ Hn) as (l1 & l2 & -> & Hl).
  exists l1, e0, l2. auto.
Qed.

Lemma search_notfound : forall key (es : list entry) pos, ksorted cmp es -> search cmp key es = (pos, false) ->
  exists es1 es2, es = es1 ++ es2 /\ length es1 = pos /\
    (forall e, In e es1 -> cmp key (fst e) = Gt) /\ (forall e, In e es2 -> cmp key (fst e) = Lt).
Proof.
  intros key es pos Hs E. pose proof (search_spec key es Hs) as H. rewrite E in H.
  destruct H as (Hb & HG & HL). exists (firstn pos es), (skipn pos es).
  split; [symmetry; apply firstn_skipn|]. split; [rewrite firstn_length; lia|]. split; assumption.
Qed.

(* ---------- insertion ---------- *)
Variable m : nat.
Hypothesis Hm : (3 <= m)%nat.

Lemma In_interleave_es : forall cs (es : list entry) x, In x es -> In x (interleave cs es).
Proof.
  induction cs as [|c cs IH]; intros es x H; [exact H|].
  cbn. apply in_or_app. right. destruct es as [|e es]; [contradiction|].
  destruct H as [<-|H]; [left; reflexivity|right; apply IH; exact H].
Qed.

Lemma interleave_sorted_es : forall cs (es : list entry), ksorted cmp (interleave cs es) -> ksorted cmp es.
Proof.
  induction cs as [|c cs IH]; intros es H; [exact H|].
  cbn in H. destruct es as [|e es]; [apply ksorted_nil|].
  apply ksorted_app in H. destruct H as (_ & H & _). apply ksorted_cons in H. destruct H as [H1 H2].
  apply ksorted_cons. split; [apply IH; exact H1|]. intros b Hb. apply H2. apply In_interleave_es. exact Hb.
Qed.

Lemma bst_entries : forall es cs, bst (N es cs) -> ksorted cmp es.
Proof. intros es cs H. unfold bst in H. cbn in H. eapply interleave_sorted_es. exact H. Qed.

Lemma sorted_eq_ctx : forall key A (e0 : entry) B, ksorted cmp (A ++ e0 :: B) -> cmp key (fst e0) = Eq ->
  (forall a, In a A -> cmp key (fst a) = Gt) /\ (forall b, In b B -> cmp key (fst b) = Lt).
Proof.
  intros key A e0 B Hs He. apply ksorted_app in Hs. destruct Hs as (_ & Hs & HA).
  apply ksorted_cons in Hs. destruct Hs as [_ HB]. split.
  - intros a Ha. eapply cmp_eq_lt_gt; [exact He|]. apply HA; [exact Ha|left; reflexivity].
  - intros b Hb. eapply cmp_eq_lt_lt; [exact He|]. apply HB. exact Hb.
Qed.

(* the in-order sequence around an entry position does not depend on the entry *)
Lemma inorder_entry_split : forall es1 (e0 : entry) es2 cs,
  (cs = [] \/ length cs = S (length (es1 ++ e0 :: es2))) ->
  exists A B, forall x, inorder (N (es1 ++ x :: es2) cs) = A ++ x :: B.
Proof.
  intros es1 e0 es2 cs [->|Hl].
  - exists es1, es2. intros x. reflexivity.
  - rewrite app_length in Hl. cbn [length] in Hl.
    destruct (split_at _ cs (S (length es1))) as (csL & csR & -> & HL); [lia|].
    exists (interleave (map inorder csL) es1), (interleave (map inorder csR) es2). intros x.
    cbn [inorder]. rewrite map_app. apply interleave_app_entry'. rewrite map_length. exact HL.
Qed.

Lemma inorder_child_split : forall es1 es2 cs1 c cs2,
  length cs1 = length es1 -> length cs2 = length es2 ->
  inorder (N (es1 ++ es2) (cs1 ++ c :: cs2)) =
  pre (map inorder cs1) es1 ++ inorder c ++ post (map inorder cs2) es2.
Proof.
  intros es1 es2 cs1 c cs2 H1 H2. cbn [inorder]. rewrite map_app. cbn [map].
  apply interleave_split; rewrite map_length; assumption.
Qed.

Lemma child_ctx : forall key (es1 es2 : list entry) cs1 cs2 X,
  length cs1 = length es1 -> length cs2 = length es2 ->
  ksorted cmp (pre cs1 es1 ++ X ++ post cs2 es2) ->
  (forall e, In e es1 -> cmp key (fst e) = Gt) -> (forall e, In e es2 -> cmp key (fst e) = Lt) ->
  (forall a, In a (pre cs1 es1) -> cmp key (fst a) = Gt) /\
  (forall b, In b (post cs2 es2) -> cmp key (fst b) = Lt) /\ ksorted cmp X.
Proof.
  intros key es1 es2 cs1 cs2 X H1 H2 Hs HG HL. split; [|split].
  - destruct (pre_last cs1 es1 H1) as [E|(A & e & E & Hin)].
    + rewrite E. intros a [].
    + rewrite E in *. eapply sorted_all_gt; [exact Hs|]. apply HG. exact Hin.
  - apply ksorted_app in Hs. destruct Hs as (_ & Hs & _). apply ksorted_app in Hs. destruct Hs as (_ & Hs & _).
    destruct (post_head cs2 es2 H2) as [E|(e & B & E & Hin)].
    + rewrite E. intros b [].
    + rewrite E in *. eapply sorted_all_lt; [exact Hs|]. apply HL. exact Hin.
  - apply ksorted_app in Hs. destruct Hs as (_ & Hs & _). apply ksorted_app in Hs. destruct Hs as (Hs & _ & _). exact Hs.
Qed.

Lemma Forall_app_mid : forall A (P : A -> Prop) l1 x l2, Forall P (l1 ++ x :: l2) <-> (Forall P l1 /\ P x /\ Forall P l2).
Proof.
  intros A P l1 x l2. rewrite Forall_app. split.
  - intros [H1 H2]. inversion H2; subst. auto.
  - intros (H1 & H2 & H3). split; [exact H1|constructor; assumption].
Qed.

Lemma maybe_split_spec : forall es cs, wf_shape (N es cs) ->
  match maybe_split m (N es cs) with
  | IOk n' => n' = N es cs
  | ISplit l mid r => inorder l ++ mid :: inorder r = inorder (N es cs) /\ wf_shape l /\ wf_shape r
  end.
Proof.
  intros es cs Hwf. apply wf_shape_inv in Hwf. destruct Hwf as [Hl Hf].
  unfold maybe_split. destruct (maxEntries m <? length es)%nat eqn:E; [|reflexivity].
  destruct (nth_error es (middle m)) as [mid|] eqn:En; [|reflexivity].
  destruct (split_nth _ _ _ _ En) as (es1 & es2 & -> & H1). rewrite <- H1.
  rewrite firstn_app_exact, skipn_S_app_exact.
  destruct Hl as [->|Hl].
  - rewrite firstn_nil, skipn_nil. cbn. split; [reflexivity|]. split; constructor; auto.
  - rewrite app_length in Hl. cbn [length] in Hl.
    destruct (split_at _ cs (S (length es1))) as (csL & csR & -> & HL); [lia|].
    rewrite <- HL. rewrite firstn_app_exact, skipn_app_exact.
    rewrite Forall_app in Hf. destruct Hf as [HfL HfR]. rewrite app_length in Hl.
    split; [|split].
    + cbn [inorder]. rewrite map_app. symmetry. apply interleave_app_entry'. rewrite map_length. exact HL.
    + constructor; [right; exact HL|exact HfL].
    + constructor; [right; lia|exact HfR].
Qed.

End Map.
