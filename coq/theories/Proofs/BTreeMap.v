(* B-tree: ordering and refinement to sorted association lists. *)
From Coq Require Import ZArith List Lia Bool Arith Sorted.
From Gods Require Import Common.Cmp Model.BTree Spec.MapSpec Proofs.BTreeInd.
Import ListNotations.

(* Model.BTree.entry and Spec.MapSpec.entry are both Z * Z; use the model's name throughout *)
Notation entry := BTree.entry.
Local Arguments maybe_split : simpl never.
Local Arguments rebalance_child : simpl never.

(* ---------- shape predicates (no comparator involved) ---------- *)
Inductive wf_shape : node -> Prop :=
| wf_N : forall es cs, (cs = [] \/ length cs = S (length es)) -> Forall wf_shape cs -> wf_shape (N es cs).

Lemma wf_shape_inv : forall es cs, wf_shape (N es cs) <->
  ((cs = [] \/ length cs = S (length es)) /\ Forall wf_shape cs).
Proof.
  intros es cs. split.
  - intros H. inversion H; subst. split; assumption.
  - intros [H1 H2]. constructor; assumption.
Qed.

(* [bal h n]: well-shaped and every leaf is at depth exactly h *)
Fixpoint bal (h : nat) (n : node) : Prop :=
  match h with
  | O => False
  | S h' => match n with N es cs =>
              match h' with
              | O => cs = []
              | S _ => length cs = S (length es) /\ Forall (bal h') cs
              end
            end
  end.

Lemma bal_wf : forall h n, bal h n -> wf_shape n.
Proof.
  induction h as [|h IH]; intros [es cs] H; cbn in H; [contradiction|].
  destruct h as [|h'].
  - subst cs. constructor; [left; reflexivity|constructor].
  - destruct H as [Hl Hf]. constructor; [right; exact Hl|].
    eapply Forall_impl; [|exact Hf]. intros c Hc. apply IH. exact Hc.
Qed.

Lemma list_max_in : forall l x, In x l -> (x <= list_max l)%nat.
Proof.
  intros l x H. assert (Hf : Forall (fun k => (k <= list_max l)%nat) l) by (apply list_max_le; lia).
  rewrite Forall_forall in Hf. apply Hf. exact H.
Qed.

Lemma maxheight_child : forall es cs c, In c cs -> (S (maxheight c) <= maxheight (N es cs))%nat.
Proof.
  intros es cs c H. cbn [maxheight]. apply le_n_S. apply list_max_in. apply in_map. exact H.
Qed.

Lemma bal_maxheight : forall h n, bal h n -> maxheight n = h.
Proof.
  induction h as [|h IH]; intros [es cs] H; cbn in H; [contradiction|].
  destruct h as [|h'].
  - subst cs. reflexivity.
  - destruct H as [Hl Hf]. cbn [maxheight]. f_equal.
    assert (Hall : Forall (fun k => k = S h') (map maxheight cs)).
    { rewrite Forall_map. eapply Forall_impl; [|exact Hf]. intros c Hc. apply IH. exact Hc. }
    destruct cs as [|c cs]; [discriminate|].
    apply Nat.le_antisymm.
    + apply list_max_le. eapply Forall_impl; [|exact Hall]. intros k Hk. cbn in Hk. lia.
    + inversion Hall as [|k l Hk Hr]; subst. rewrite <- Hk at 1. apply list_max_in. left. reflexivity.
Qed.

Lemma bal_height : forall h n, bal h n -> height n = h.
Proof.
  induction h as [|h IH]; intros [es cs] H; cbn in H; [contradiction|].
  destruct h as [|h'].
  - subst cs. reflexivity.
  - destruct H as [Hl Hf]. cbn [height]. f_equal.
    destruct cs as [|c cs]; [discriminate|]. inversion Hf; subst. apply IH. assumption.
Qed.

Definition inorder' (r : option node) : list entry := match r with None => [] | Some n => inorder n end.

(* ---------- pre / post decomposition of interleave ---------- *)
Definition pre (cs : list (list entry)) (es : list entry) : list entry :=
  concat (map (fun p => fst p ++ [snd p]) (combine cs es)).
Definition post (cs : list (list entry)) (es : list entry) : list entry :=
  concat (map (fun p => snd p :: fst p) (combine cs es)).

Lemma interleave_cons_post : forall cs es c, length cs = length es ->
  interleave (c :: cs) es = c ++ post cs es.
Proof.
  induction cs as [|c1 cs IH]; intros es c Hl.
  - destruct es; [|discriminate]. reflexivity.
  - destruct es as [|e es]; [discriminate|]. cbn in Hl. injection Hl as Hl.
    cbn [interleave]. f_equal. unfold post. cbn. f_equal. 
    change (interleave (c1 :: cs) es = c1 ++ post cs es). apply IH. exact Hl.
Qed.

Lemma interleave_split : forall cs1 es1 c cs2 es2,
  length cs1 = length es1 -> length cs2 = length es2 ->
  interleave (cs1 ++ c :: cs2) (es1 ++ es2) = pre cs1 es1 ++ c ++ post cs2 es2.
Proof.
  intros cs1 es1 c cs2 es2 H1 H2. rewrite interleave_app_child by exact H1.
  rewrite interleave_cons_post by exact H2. reflexivity.
Qed.

Lemma post_cons : forall c cs e es, post (c :: cs) (e :: es) = e :: c ++ post cs es.
Proof. reflexivity. Qed.


Lemma pre_last : forall cs es, length cs = length es ->
  pre cs es = [] \/ exists A e, pre cs es = A ++ [e] /\ In e es.
Proof.
  induction cs as [|c cs IH]; intros es Hl.
  - left. reflexivity.
  - destruct es as [|e es]; [discriminate|]. cbn in Hl. injection Hl as Hl. right.
    unfold pre. cbn. fold (pre cs es). destruct (IH es Hl) as [E|(A & e' & E & Hin)].
    + rewrite E. exists c, e. rewrite app_nil_r. split; [reflexivity|left; reflexivity].
    + rewrite E. exists ((c ++ [e]) ++ A), e'. rewrite app_assoc. split; [reflexivity|right; exact Hin].
Qed.

Lemma post_head : forall cs es, length cs = length es ->
  post cs es = [] \/ exists e B, post cs es = e :: B /\ In e es.
Proof.
  intros cs es Hl. destruct cs as [|c cs]; destruct es as [|e es]; try discriminate.
  - left. reflexivity.
  - right. exists e, (c ++ post cs es). split; [reflexivity|left; reflexivity].
Qed.

Lemma interleave_app_entry' : forall csL (es1 : list entry) csR e es2,
  length csL = S (length es1) ->
  interleave (csL ++ csR) (es1 ++ e :: es2) = interleave csL es1 ++ e :: interleave csR es2.
Proof.
  induction csL as [|c csL IH]; intros es1 csR e es2 Hl; [discriminate|].
  destruct es1 as [|e1 es1].
  - destruct csL; [|discriminate]. cbn. rewrite app_nil_r. reflexivity.
  - cbn in Hl. injection Hl as Hl. cbn. rewrite IH by exact Hl. rewrite <- app_assoc. reflexivity.
Qed.


Section Map.
Variable cmp : cmpf.
Hypothesis Hswo : SWO cmp.

Definition bst (n : node) : Prop := ksorted cmp (inorder n).

Notation klt := (fun a b : entry => cmp (fst a) (fst b) = Lt).

(* ---------- comparator facts ---------- *)
Lemma cmp_gt_lt : forall x y, cmp x y = Gt <-> cmp y x = Lt.
Proof.
  intros x y. rewrite (swo_sym cmp Hswo x y). destruct (cmp x y); cbn; split; congruence.
Qed.

Lemma cmp_eq_sym : forall x y, cmp x y = Eq -> cmp y x = Eq.
Proof.
  intros x y H. rewrite (swo_sym cmp Hswo x y). rewrite H. reflexivity.
Qed.

Lemma cmp_gt_trans_lt : forall key a b, cmp key b = Gt -> cmp a b = Lt -> cmp key a = Gt.
Proof.
  intros key a b H1 H2. apply cmp_gt_lt. apply cmp_gt_lt in H1.
  eapply (swo_trans cmp Hswo); eassumption.
Qed.

Lemma cmp_lt_trans : forall key a b, cmp key a = Lt -> cmp a b = Lt -> cmp key b = Lt.
Proof. intros key a b H1 H2. eapply (swo_trans cmp Hswo); eassumption. Qed.

Lemma cmp_eq_lt_gt : forall key a b, cmp key b = Eq -> cmp a b = Lt -> cmp key a = Gt.
Proof.
  intros key a b H1 H2. rewrite (swo_eq_l cmp Hswo key b a H1). apply cmp_gt_lt. exact H2.
Qed.

Lemma cmp_eq_lt_lt : forall key a b, cmp key a = Eq -> cmp a b = Lt -> cmp key b = Lt.
Proof.
  intros key a b H1 H2. rewrite (swo_eq_l cmp Hswo key a b H1). exact H2.
Qed.

(* ---------- ksorted ---------- *)
Lemma ksorted_app : forall l1 l2, ksorted cmp (l1 ++ l2) <->
  (ksorted cmp l1 /\ ksorted cmp l2 /\ forall a b, In a l1 -> In b l2 -> cmp (fst a) (fst b) = Lt).
Proof.
  unfold ksorted. induction l1 as [|x l1 IH]; intros l2; cbn.
  - split.
    + intros H. split; [constructor|]. split; [exact H|]. intros a b [].
    + intros (_ & H & _). exact H.
  - split.
    + intros H. inversion H as [|y l Hs Hf]; subst. apply IH in Hs. destruct Hs as (H1 & H2 & H3).
      rewrite Forall_app in Hf. destruct Hf as [Hf1 Hf2].
      split; [constructor; assumption|]. split; [exact H2|].
      intros a b [<-|Ha] Hb.
      * rewrite Forall_forall in Hf2. apply Hf2. exact Hb.
      * apply H3; assumption.
    + intros (H1 & H2 & H3). inversion H1 as [|y l Hs Hf]; subst. constructor.
      * apply IH. split; [exact Hs|]. split; [exact H2|]. intros a b Ha Hb. apply H3; [right|]; assumption.
      * rewrite Forall_app. split; [exact Hf|]. rewrite Forall_forall. intros b Hb. apply H3; [left; reflexivity|exact Hb].
Qed.

Lemma ksorted_cons : forall x l, ksorted cmp (x :: l) <->
  (ksorted cmp l /\ forall b, In b l -> cmp (fst x) (fst b) = Lt).
Proof.
  intros x l. unfold ksorted. split.
  - intros H. inversion H as [|y l' Hs Hf]; subst. split; [exact Hs|]. rewrite Forall_forall in Hf. exact Hf.
  - intros [H1 H2]. constructor; [exact H1|]. rewrite Forall_forall. exact H2.
Qed.

Lemma ksorted_nil : ksorted cmp [].
Proof. constructor. Qed.

Lemma ksorted_nth : forall es i j a b, ksorted cmp es -> (i < j)%nat ->
  nth_error es i = Some a -> nth_error es j = Some b -> cmp (fst a) (fst b) = Lt.
Proof.
  intros es i j a b Hs Hij Ha Hb.
  destruct (split_nth _ _ _ _ Ha) as (l1 & l2 & -> & Hl). subst i.
  apply ksorted_app in Hs. destruct Hs as (_ & Hs & _). apply ksorted_cons in Hs. destruct Hs as [_ Hs].
  apply Hs. rewrite nth_error_app2 in Hb by lia.
  destruct (j - length l1)%nat as [|k] eqn:E; [lia|]. cbn in Hb. eapply nth_error_In. exact Hb.
Qed.

(* everything left of a Gt entry is Gt, everything right of a Lt entry is Lt *)
Lemma sorted_all_gt : forall key A e R, ksorted cmp ((A ++ [e]) ++ R) -> cmp key (fst e) = Gt ->
  forall a, In a (A ++ [e]) -> cmp key (fst a) = Gt.
Proof.
  intros key A e R Hs Hg a Ha. apply ksorted_app in Hs. destruct Hs as (Hs & _ & _).
  apply ksorted_app in Hs. destruct Hs as (_ & _ & Hs).
  apply in_app_or in Ha. destruct Ha as [Ha|[<-|[]]]; [|exact Hg].
  eapply cmp_gt_trans_lt; [exact Hg|]. apply Hs; [exact Ha|left; reflexivity].
Qed.

Lemma sorted_all_lt : forall key e B, ksorted cmp (e :: B) -> cmp key (fst e) = Lt ->
  forall b, In b (e :: B) -> cmp key (fst b) = Lt.
Proof.
  intros key e B Hs Hl b [<-|Hb]; [exact Hl|].
  apply ksorted_cons in Hs. destruct Hs as [_ Hs]. eapply cmp_lt_trans; [exact Hl|]. apply Hs. exact Hb.
Qed.

(* ---------- list operations over concatenations ---------- *)
Lemma ins_list_app_l : forall k v A L, (forall a, In a A -> cmp k (fst a) = Gt) ->
  ins_list cmp k v (A ++ L) = A ++ ins_list cmp k v L.
Proof.
  intros k v A L. induction A as [|[k' v'] A IH]; intros H; [reflexivity|].
  cbn. pose proof (H (k', v') (or_introl eq_refl)) as E0; cbn in E0; rewrite E0. rewrite IH; [reflexivity|].
  intros a Ha. apply H. right. exact Ha.
Qed.

Lemma ins_list_app_r : forall k v L B, (forall b, In b B -> cmp k (fst b) = Lt) ->
  ins_list cmp k v (L ++ B) = ins_list cmp k v L ++ B.
Proof.
  intros k v L B H. induction L as [|[k' v'] L IH].
  - cbn. destruct B as [|[k' v'] B]; [reflexivity|]. cbn. pose proof (H (k', v') (or_introl eq_refl)) as E0; cbn in E0; rewrite E0. reflexivity.
  - cbn. destruct (cmp k k'); [reflexivity|reflexivity|]. rewrite IH. reflexivity.
Qed.

Lemma ins_list_mid : forall k v A e0 B, (forall a, In a A -> cmp k (fst a) = Gt) -> cmp k (fst e0) = Eq ->
  ins_list cmp k v (A ++ e0 :: B) = A ++ (k, v) :: B.
Proof.
  intros k v A [k0 v0] B H He. rewrite ins_list_app_l by exact H. cbn in *. rewrite He. reflexivity.
Qed.

Lemma ins_list_new : forall k v A B, (forall a, In a A -> cmp k (fst a) = Gt) ->
  (forall b, In b B -> cmp k (fst b) = Lt) ->
  ins_list cmp k v (A ++ B) = A ++ (k, v) :: B.
Proof.
  intros k v A B HA HB. rewrite ins_list_app_l by exact HA.
  change B with ([] ++ B) at 1. rewrite ins_list_app_r by exact HB. reflexivity.
Qed.

Lemma del_list_app_l : forall k A L, (forall a, In a A -> cmp k (fst a) = Gt) ->
  del_list cmp k (A ++ L) = A ++ del_list cmp k L.
Proof.
  intros k A L. induction A as [|[k' v'] A IH]; intros H; [reflexivity|].
  cbn. pose proof (H (k', v') (or_introl eq_refl)) as E0; cbn in E0; rewrite E0. rewrite IH; [reflexivity|].
  intros a Ha. apply H. right. exact Ha.
Qed.

Lemma del_list_app_r : forall k L B, (forall b, In b B -> cmp k (fst b) = Lt) ->
  del_list cmp k (L ++ B) = del_list cmp k L ++ B.
Proof.
  intros k L B H. induction L as [|[k' v'] L IH].
  - cbn. destruct B as [|[k' v'] B]; [reflexivity|]. cbn. pose proof (H (k', v') (or_introl eq_refl)) as E0; cbn in E0; rewrite E0. reflexivity.
  - cbn. destruct (cmp k k'); [reflexivity|reflexivity|]. rewrite IH. reflexivity.
Qed.

Lemma del_list_mid : forall k A e0 B, (forall a, In a A -> cmp k (fst a) = Gt) -> cmp k (fst e0) = Eq ->
  del_list cmp k (A ++ e0 :: B) = A ++ B.
Proof.
  intros k A [k0 v0] B H He. rewrite del_list_app_l by exact H. cbn in *. rewrite He. reflexivity.
Qed.

Lemma del_list_none : forall k A B, (forall a, In a A -> cmp k (fst a) = Gt) ->
  (forall b, In b B -> cmp k (fst b) = Lt) -> del_list cmp k (A ++ B) = A ++ B.
Proof.
  intros k A B HA HB. rewrite del_list_app_l by exact HA.
  change B with ([] ++ B) at 1. rewrite del_list_app_r by exact HB. reflexivity.
Qed.

Lemma find_list_app_l : forall k A L, (forall a, In a A -> cmp k (fst a) = Gt) ->
  find_list cmp k (A ++ L) = find_list cmp k L.
Proof.
  intros k A L. unfold find_list. induction A as [|a A IH]; intros H; [reflexivity|].
  cbn. rewrite (H a) by (left; reflexivity). cbn. apply IH. intros a' Ha. apply H. right. exact Ha.
Qed.

Lemma find_list_app_r : forall k L B, (forall b, In b B -> cmp k (fst b) = Lt) ->
  find_list cmp k (L ++ B) = find_list cmp k L.
Proof.
  intros k L B H. unfold find_list. induction L as [|a L IH].
  - cbn. induction B as [|b B IHB]; [reflexivity|]. cbn. rewrite (H b) by (left; reflexivity). cbn.
    apply IHB. intros b' Hb. apply H. right. exact Hb.
  - cbn. destruct (is_eq (cmp k (fst a))); [reflexivity|exact IH].
Qed.

Lemma find_list_mid : forall k A e0 B, (forall a, In a A -> cmp k (fst a) = Gt) -> cmp k (fst e0) = Eq ->
  find_list cmp k (A ++ e0 :: B) = Some e0.
Proof.
  intros k A e0 B H He. rewrite find_list_app_l by exact H. unfold find_list. cbn. rewrite He. reflexivity.
Qed.

Lemma find_list_none : forall k A B, (forall a, In a A -> cmp k (fst a) = Gt) ->
  (forall b, In b B -> cmp k (fst b) = Lt) -> find_list cmp k (A ++ B) = None.
Proof.
  intros k A B HA HB. rewrite find_list_app_l by exact HA.
  change B with ([] ++ B). rewrite find_list_app_r by exact HB. reflexivity.
Qed.

Lemma mem_list_app_l : forall k A L, (forall a, In a A -> cmp k (fst a) = Gt) ->
  mem_list cmp k (A ++ L) = mem_list cmp k L.
Proof. intros k A L H. unfold mem_list. rewrite find_list_app_l by exact H. reflexivity. Qed.

Lemma mem_list_app_r : forall k L B, (forall b, In b B -> cmp k (fst b) = Lt) ->
  mem_list cmp k (L ++ B) = mem_list cmp k L.
Proof. intros k L B H. unfold mem_list. rewrite find_list_app_r by exact H. reflexivity. Qed.

(* sortedness is preserved by the list operations *)
Lemma ins_list_in : forall k v l x, In x (ins_list cmp k v l) -> x = (k, v) \/ In x l.
Proof.
  intros k v l x. induction l as [|[k' v'] l IH]; cbn.
  - intros [<-|[]]. left. reflexivity.
  - destruct (cmp k k'); cbn.
    + intros [<-|H]; [left; reflexivity|right; right; exact H].
    + intros [<-|[<-|H]]; [left; reflexivity|right; left; reflexivity|right; right; exact H].
    + intros [<-|H]; [right; left; reflexivity|]. destruct (IH H) as [->|H']; [left; reflexivity|right; right; exact H'].
Qed.

Lemma ins_list_sorted : forall k v l, ksorted cmp l -> ksorted cmp (ins_list cmp k v l).
Proof.
  intros k v l. induction l as [|[k' v'] l IH]; intros Hs; cbn.
  - apply ksorted_cons. split; [apply ksorted_nil|intros b []].
  - apply ksorted_cons in Hs. destruct Hs as [Hs Hall]. destruct (cmp k k') eqn:E.
    + apply ksorted_cons. split; [exact Hs|]. intros b Hb. cbn. eapply cmp_eq_lt_lt; [exact E|]. apply (Hall b Hb).
    + apply ksorted_cons. split.
      * apply ksorted_cons. split; assumption.
      * intros b [<-|Hb]; [exact E|]. cbn. eapply cmp_lt_trans; [exact E|]. apply (Hall b Hb).
    + apply ksorted_cons. split; [apply IH; exact Hs|]. intros b Hb. apply ins_list_in in Hb.
      destruct Hb as [->|Hb]; [cbn; apply cmp_gt_lt; exact E|apply Hall; exact Hb].
Qed.

Lemma del_list_in : forall k l x, In x (del_list cmp k l) -> In x l.
Proof.
  intros k l x. induction l as [|[k' v'] l IH]; cbn; [tauto|].
  destruct (cmp k k'); cbn; [tauto|tauto|]. intros [<-|H]; [left; reflexivity|right; apply IH; exact H].
Qed.

Lemma del_list_sorted : forall k l, ksorted cmp l -> ksorted cmp (del_list cmp k l).
Proof.
  intros k l. induction l as [|[k' v'] l IH]; intros Hs; cbn; [exact Hs|].
  pose proof Hs as Hs0. apply ksorted_cons in Hs. destruct Hs as [Hs Hall]. destruct (cmp k k').
  - exact Hs.
  - exact Hs0.
  - apply ksorted_cons. split; [apply IH; exact Hs|]. intros b Hb. apply Hall. eapply del_list_in. exact Hb.
Qed.

(* ---------- search ---------- *)
Lemma bsearch_spec : forall key (es : list entry), ksorted cmp es -> forall fuel low high pos found,
  (0 <= low)%Z -> (high < Z.of_nat (length es))%Z -> (low <= high + 1)%Z ->
  (high - low + 1 < Z.of_nat fuel)%Z ->
  (forall j e, (Z.of_nat j < low)%Z -> nth_error es j = Some e -> cmp key (fst e) = Gt) ->
  (forall j e, (high < Z.of_nat j)%Z -> nth_error es j = Some e -> cmp key (fst e) = Lt) ->
  bsearch cmp key es low high fuel = (pos, found) ->
  (forall j e, (j < pos)%nat -> nth_error es j = Some e -> cmp key (fst e) = Gt) /\
  (if found then exists e, nth_error es pos = Some e /\ cmp key (fst e) = Eq
   else forall j e, (pos <= j)%nat -> nth_error es j = Some e -> cmp key (fst e) = Lt).
Proof.
  intros key es Hs fuel. induction fuel as [|f IH]; intros low high pos found Hl Hh Hlh Hf HG HL H; cbn [bsearch] in H; cbv zeta in H.
  - lia.
  - destruct (low <=? high)%Z eqn:E.
    + apply Z.leb_le in E.
      assert (Hmid : (low <= (high + low) / 2 <= high)%Z).
      { split; [apply Z.div_le_lower_bound|apply Z.div_le_upper_bound]; lia. }
      remember ((high + low) / 2)%Z as mid eqn:Emid. clear Emid.
      destruct (nth_error es (Z.to_nat mid)) as [[k v]|] eqn:En; try rewrite En in H.
      * destruct (cmp key k) eqn:Ec; try rewrite Ec in H.
        -- injection H as <- <-. split.
           ++ intros j e Hj He. eapply cmp_eq_lt_gt; [exact Ec|]. change k with (fst (k, v)).
              eapply ksorted_nth; [exact Hs| |exact He|exact En]. lia.
           ++ exists (k, v). split; [exact En|exact Ec].
        -- apply IH in H; [exact H|lia|lia|lia|lia|exact HG|].
           intros j e Hj He. destruct (Z.eq_dec (Z.of_nat j) mid) as [Ej|Ej].
           ++ replace (Z.to_nat mid) with j in En by lia. rewrite En in He. injection He as <-. exact Ec.
           ++ destruct (Z_lt_le_dec high (Z.of_nat j)) as [Hhj|Hhj]; [eapply HL; eassumption|].
              eapply cmp_lt_trans; [exact Ec|]. change k with (fst (k, v)).
              eapply ksorted_nth; [exact Hs| |exact En|exact He]. lia.
        -- apply IH in H; [exact H|lia|lia|lia|lia| |exact HL].
           intros j e Hj He. destruct (Z.eq_dec (Z.of_nat j) mid) as [Ej|Ej].
           ++ replace (Z.to_nat mid) with j in En by lia. rewrite En in He. injection He as <-. exact Ec.
           ++ destruct (Z_lt_le_dec (Z.of_nat j) low) as [Hhj|Hhj]; [eapply HG; eassumption|].
              eapply cmp_gt_trans_lt; [exact Ec|]. change k with (fst (k, v)).
              eapply ksorted_nth; [exact Hs| |exact He|exact En]. lia.
      * apply nth_error_None in En. lia.
    + apply Z.leb_gt in E. injection H as <- <-. split.
      * intros j e Hj He. eapply HG; [|exact He]. lia.
      * intros j e Hj He. eapply HL; [|exact He]. lia.
Qed.

Lemma In_firstn_nth : forall A (l : list A) n x, In x (firstn n l) -> exists j, (j < n)%nat /\ nth_error l j = Some x.
Proof.
  intros A l n x H. apply In_nth_error in H. destruct H as [j Hj].
  assert (Hlt : (j < length (firstn n l))%nat) by (apply nth_error_Some; congruence).
  rewrite firstn_length in Hlt. exists j. split; [lia|].
  rewrite <- (firstn_skipn n l). rewrite nth_error_app1 by (rewrite firstn_length; lia). exact Hj.
Qed.

Lemma In_skipn_nth : forall A (l : list A) n x, In x (skipn n l) -> exists j, (n <= j)%nat /\ nth_error l j = Some x.
Proof.
  intros A l n x H. apply In_nth_error in H. destruct H as [j Hj].
  destruct (Nat.le_gt_cases n (length l)) as [Hn|Hn].
  - exists (n + j)%nat. split; [lia|]. rewrite <- (firstn_skipn n l) at 1.
    rewrite nth_error_app2 by (rewrite firstn_length; lia). rewrite firstn_length.
    replace (n + j - Nat.min n (length l))%nat with j by lia. exact Hj.
  - rewrite skipn_all2 in Hj by lia. destruct j; discriminate.
Qed.

Theorem search_spec : forall key (es : list entry), ksorted cmp es ->
  let '(pos, found) := search cmp key es in
  (pos <= length es)%nat /\
  (forall e, In e (firstn pos es) -> cmp key (fst e) = Gt) /\
  (if found then exists e, nth_error es pos = Some e /\ cmp key (fst e) = Eq
   else forall e, In e (skipn pos es) -> cmp key (fst e) = Lt).
Proof.
  intros key es Hs. destruct (search cmp key es) as [pos found] eqn:E.
  pose proof (search_bound _ _ _ _ _ E) as [Hb _]. split; [exact Hb|].
  unfold search in E.
  destruct (bsearch_spec key es Hs (S (length es)) 0%Z (Z.of_nat (length es) - 1)%Z pos found) as [HG HF].
  { lia. } { lia. } { lia. } { lia. }
  { intros j e Hj. lia. }
  { intros j e Hj He. assert (j < length es)%nat by (apply nth_error_Some; congruence). lia. }
  { exact E. }
  split.
  - intros e He. apply In_firstn_nth in He. destruct He as (j & Hj & He). eapply HG; eassumption.
  - destruct found; [exact HF|]. intros e He. apply In_skipn_nth in He. destruct He as (j & Hj & He). eapply HF; eassumption.
Qed.

(* decomposed form of the search result, convenient for the refinement proofs *)
Lemma search_found : forall key (es : list entry) pos, ksorted cmp es -> search cmp key es = (pos, true) ->
  exists es1 e0 es2, es = es1 ++ e0 :: es2 /\ length es1 = pos /\ cmp key (fst e0) = Eq.
Proof.
  intros key es pos Hs E. pose proof (search_spec key es Hs) as H. rewrite E in H.
  destruct H as (_ & _ & e0 & Hn & He). destruct (split_nth _ _ _ _ Hn) as (l1 & l2 & -> & Hl).
  exists l1, e0, l2. auto.
Qed.

Lemma search_notfound : forall key (es : list entry) pos, ksorted cmp es -> search cmp key es = (pos, false) ->
  exists es1 es2, es = es1 ++ es2 /\ length es1 = pos /\
    (forall e, In e es1 -> cmp key (fst e) = Gt) /\ (forall e, In e es2 -> cmp key (fst e) = Lt).
Proof.
  intros key es pos Hs E. pose proof (search_spec key es Hs) as H. rewrite E in H.
  destruct H as (Hb & HG & HL). exists (firstn pos es), (skipn pos es).
  split; [symmetry; apply firstn_skipn|]. split; [rewrite firstn_length; lia|]. split; assumption.
Qed.

(* ---------- decomposition helpers ---------- *)

Lemma In_interleave_es : forall cs (es : list entry) x, In x es -> In x (interleave cs es).
Proof.
  induction cs as [|c cs IH]; intros es x H; [exact H|].
  cbn. apply in_or_app. right. destruct es as [|e es]; [contradiction|].
  destruct H as [<-|H]; [left; reflexivity|right; apply IH; exact H].
Qed.

Lemma interleave_sorted_es : forall cs (es : list entry), ksorted cmp (interleave cs es) -> ksorted cmp es.
Proof.
  induction cs as [|c cs IH]; intros es H; [exact H|].
  cbn in H. destruct es as [|e es]; [apply ksorted_nil|].
  apply ksorted_app in H. destruct H as (_ & H & _). apply ksorted_cons in H. destruct H as [H1 H2].
  apply ksorted_cons. split; [apply IH; exact H1|]. intros b Hb. apply H2. apply In_interleave_es. exact Hb.
Qed.

Lemma bst_entries : forall es cs, bst (N es cs) -> ksorted cmp es.
Proof. intros es cs H. unfold bst in H. cbn in H. eapply interleave_sorted_es. exact H. Qed.

Lemma sorted_eq_ctx : forall key A (e0 : entry) B, ksorted cmp (A ++ e0 :: B) -> cmp key (fst e0) = Eq ->
  (forall a, In a A -> cmp key (fst a) = Gt) /\ (forall b, In b B -> cmp key (fst b) = Lt).
Proof.
  intros key A e0 B Hs He. apply ksorted_app in Hs. destruct Hs as (_ & Hs & HA).
  apply ksorted_cons in Hs. destruct Hs as [_ HB]. split.
  - intros a Ha. eapply cmp_eq_lt_gt; [exact He|]. apply HA; [exact Ha|left; reflexivity].
  - intros b Hb. eapply cmp_eq_lt_lt; [exact He|]. apply HB. exact Hb.
Qed.

(* the in-order sequence around an entry position does not depend on the entry *)
Lemma inorder_entry_split : forall es1 (e0 : entry) es2 cs,
  (cs = [] \/ length cs = S (length (es1 ++ e0 :: es2))) ->
  exists A B, forall x, inorder (N (es1 ++ x :: es2) cs) = A ++ x :: B.
Proof.
  intros es1 e0 es2 cs [->|Hl].
  - exists es1, es2. intros x. reflexivity.
  - rewrite app_length in Hl. cbn [length] in Hl.
    destruct (split_at _ cs (S (length es1))) as (csL & csR & -> & HL); [lia|].
    exists (interleave (map inorder csL) es1), (interleave (map inorder csR) es2). intros x.
    cbn [inorder]. rewrite map_app. apply interleave_app_entry'. rewrite map_length. exact HL.
Qed.

Lemma inorder_child_split : forall es1 es2 cs1 c cs2,
  length cs1 = length es1 -> length cs2 = length es2 ->
  inorder (N (es1 ++ es2) (cs1 ++ c :: cs2)) =
  pre (map inorder cs1) es1 ++ inorder c ++ post (map inorder cs2) es2.
Proof.
  intros es1 es2 cs1 c cs2 H1 H2. cbn [inorder]. rewrite map_app. cbn [map].
  apply interleave_split; rewrite map_length; assumption.
Qed.

Lemma child_ctx : forall key (es1 es2 : list entry) cs1 cs2 X,
  length cs1 = length es1 -> length cs2 = length es2 ->
  ksorted cmp (pre cs1 es1 ++ X ++ post cs2 es2) ->
  (forall e, In e es1 -> cmp key (fst e) = Gt) -> (forall e, In e es2 -> cmp key (fst e) = Lt) ->
  (forall a, In a (pre cs1 es1) -> cmp key (fst a) = Gt) /\
  (forall b, In b (post cs2 es2) -> cmp key (fst b) = Lt) /\ ksorted cmp X.
Proof.
  intros key es1 es2 cs1 cs2 X H1 H2 Hs HG HL. split; [|split].
  - destruct (pre_last cs1 es1 H1) as [E|(A & e & E & Hin)].
    + rewrite E. intros a [].
    + rewrite E in *. eapply sorted_all_gt; [exact Hs|]. apply HG. exact Hin.
  - apply ksorted_app in Hs. destruct Hs as (_ & Hs & _). apply ksorted_app in Hs. destruct Hs as (_ & Hs & _).
    destruct (post_head cs2 es2 H2) as [E|(e & B & E & Hin)].
    + rewrite E. intros b [].
    + rewrite E in *. eapply sorted_all_lt; [exact Hs|]. apply HL. exact Hin.
  - apply ksorted_app in Hs. destruct Hs as (_ & Hs & _). apply ksorted_app in Hs. destruct Hs as (Hs & _ & _). exact Hs.
Qed.

Lemma Forall_app_mid : forall A (P : A -> Prop) l1 x l2, Forall P (l1 ++ x :: l2) <-> (Forall P l1 /\ P x /\ Forall P l2).
Proof.
  intros A P l1 x l2. rewrite Forall_app. split.
  - intros [H1 H2]. inversion H2; subst. auto.
  - intros (H1 & H2 & H3). split; [exact H1|constructor; assumption].
Qed.

(* ---------- get ---------- *)
Theorem get_spec : forall fuel key n, wf_shape n -> bst n -> (maxheight n <= fuel)%nat ->
  get cmp fuel key n = find_list cmp key (inorder n).
Proof.
  induction fuel as [|f IH]; intros key [es cs] Hwf Hbst Hfuel; [cbn in Hfuel; lia|].
  cbn [get]. pose proof (bst_entries _ _ Hbst) as Hes.
  apply wf_shape_inv in Hwf. destruct Hwf as [Hl Hf].
  destruct (search cmp key es) as [pos found] eqn:Es. destruct found.
  - destruct (search_found _ _ _ Hes Es) as (es1 & e0 & es2 & -> & Hpos & Heq). subst pos.
    rewrite nth_error_app_mid.
    destruct (inorder_entry_split es1 e0 es2 cs Hl) as (A & B & HAB).
    unfold bst in Hbst. rewrite HAB in *.
    destruct (sorted_eq_ctx _ _ _ _ Hbst Heq) as [HA HB].
    rewrite find_list_mid by assumption. reflexivity.
  - destruct (search_notfound _ _ _ Hes Es) as (es1 & es2 & -> & Hpos & HG & HL). subst pos.
    destruct Hl as [->|Hl].
    + replace (nth_error (@nil node) (length es1)) with (@None node) by (destruct (length es1); reflexivity).
      cbn [inorder map interleave]. rewrite find_list_none by assumption. reflexivity.
    + rewrite app_length in Hl.
      destruct (nth_error cs (length es1)) as [c|] eqn:Ec; [|apply nth_error_None in Ec; lia].
      destruct (split_nth _ _ _ _ Ec) as (cs1 & cs2 & -> & Hc1).
      rewrite !app_length in Hl. cbn [length] in Hl.
      assert (Hc2 : length cs2 = length es2) by lia.
      apply Forall_app_mid in Hf. destruct Hf as (Hf1 & Hfc & Hf2).
      pose proof (maxheight_child (es1 ++ es2) (cs1 ++ c :: cs2) c) as Hmc.
      assert (Hin : In c (cs1 ++ c :: cs2)) by (apply in_or_app; right; left; reflexivity). specialize (Hmc Hin).
      unfold bst in Hbst. rewrite (inorder_child_split es1 es2 cs1 c cs2 Hc1 Hc2) in *.
      destruct (child_ctx key es1 es2 (map inorder cs1) (map inorder cs2) (inorder c)) as (HA & HB & HX);
        try (rewrite map_length; assumption); try assumption.
      rewrite find_list_app_l by assumption. rewrite find_list_app_r by assumption.
      apply IH; [exact Hfc|exact HX|lia].
Qed.

(* ---------- insertion ---------- *)
Variable m : nat.
Hypothesis Hm : (3 <= m)%nat.

Lemma maybe_split_spec : forall es cs, wf_shape (N es cs) ->
  match maybe_split m (N es cs) with
  | IOk n' => n' = N es cs
  | ISplit l mid r => inorder l ++ mid :: inorder r = inorder (N es cs) /\ wf_shape l /\ wf_shape r
  end.
Proof.
  intros es cs Hwf. apply wf_shape_inv in Hwf. destruct Hwf as [Hl Hf].
  unfold maybe_split. destruct (maxEntries m <? length es)%nat eqn:E; [|reflexivity].
  destruct (nth_error es (middle m)) as [mid|] eqn:En; [|reflexivity].
  destruct (split_nth _ _ _ _ En) as (es1 & es2 & -> & H1). rewrite <- H1.
  rewrite firstn_app_exact, skipn_S_app_exact.
  destruct Hl as [->|Hl].
  - rewrite firstn_nil, skipn_nil. cbn. split; [reflexivity|]. split; constructor; auto.
  - rewrite app_length in Hl. cbn [length] in Hl.
    destruct (split_at _ cs (S (length es1))) as (csL & csR & -> & HL); [lia|].
    rewrite <- HL. rewrite firstn_app_exact, skipn_app_exact.
    rewrite Forall_app in Hf. destruct Hf as [HfL HfR]. rewrite app_length in Hl.
    split; [|split].
    + cbn [inorder]. rewrite map_app. symmetry. apply interleave_app_entry'. rewrite map_length. exact HL.
    + constructor; [right; exact HL|exact HfL].
    + constructor; [right; lia|exact HfR].
Qed.

Definition ins_post (e : entry) (n : node) (r : ires) : Prop :=
  match r with
  | IOk n' => inorder n' = ins_list cmp (fst e) (snd e) (inorder n) /\ wf_shape n'
  | ISplit l mid rr => inorder l ++ mid :: inorder rr = ins_list cmp (fst e) (snd e) (inorder n) /\
                       wf_shape l /\ wf_shape rr
  end.

Lemma maybe_split_post : forall e n n0, wf_shape n0 ->
  inorder n0 = ins_list cmp (fst e) (snd e) (inorder n) -> ins_post e n (maybe_split m n0).
Proof.
  intros e n [es0 cs0] Hwf Hin. pose proof (maybe_split_spec es0 cs0 Hwf) as Hsp.
  destruct (maybe_split m (N es0 cs0)) as [n'|l mid rr]; unfold ins_post.
  - subst n'. split; assumption.
  - destruct Hsp as (H1 & H2 & H3). rewrite H1. auto.
Qed.

Lemma ins_inorder : forall fuel e n r b,
  (maxheight n <= fuel)%nat -> wf_shape n -> bst n ->
  ins m cmp fuel e n = Some (r, b) ->
  b = negb (mem_list cmp (fst e) (inorder n)) /\ ins_post e n r.
Proof.
  induction fuel as [|f IH]; intros e [es cs] r b Hfuel Hwf Hbst H; [discriminate|].
  cbn [ins] in H. pose proof (bst_entries _ _ Hbst) as Hes.
  pose proof Hwf as Hwf0. apply wf_shape_inv in Hwf. destruct Hwf as [Hl Hf].
  destruct (search cmp (fst e) es) as [pos found] eqn:Es. destruct found.
  - (* key present in this node *)
    injection H as <- <-.
    destruct (search_found _ _ _ Hes Es) as (es1 & e0 & es2 & -> & Hpos & Heq). subst pos.
    rewrite replace_at_app.
    destruct (inorder_entry_split es1 e0 es2 cs Hl) as (A & B & HAB).
    unfold bst in Hbst. rewrite HAB in Hbst.
    destruct (sorted_eq_ctx _ _ _ _ Hbst Heq) as [HA HB].
    unfold ins_post. rewrite !HAB. split; [|split].
    + unfold mem_list. rewrite find_list_mid by assumption. reflexivity.
    + rewrite ins_list_mid by assumption. destruct e; reflexivity.
    + constructor; [|exact Hf]. rewrite app_length in *. exact Hl.
  - destruct (search_notfound _ _ _ Hes Es) as (es1 & es2 & -> & Hpos & HG & HL). subst pos.
    destruct cs as [|c0 cs0].
    + (* leaf *)
      injection H as <- <-. rewrite insert_at_app. cbn [inorder interleave map].
      split.
      * unfold mem_list. rewrite find_list_none by assumption. reflexivity.
      * apply maybe_split_post.
        -- constructor; [left; reflexivity|constructor].
        -- cbn [inorder interleave map]. rewrite ins_list_new by assumption. destruct e; reflexivity.
    + (* internal *)
      remember (c0 :: cs0) as cs eqn:Ecs.
      destruct Hl as [Hl|Hl]; [subst cs; discriminate|].
      destruct (nth_error cs (length es1)) as [c|] eqn:Ec; [|discriminate].
      destruct (split_nth _ _ _ _ Ec) as (cs1 & cs2 & Ecs' & Hc1). clear Ecs. subst cs.
      rewrite !app_length in Hl. cbn [length] in Hl.
      assert (Hc2 : length cs2 = length es2) by lia.
      apply Forall_app_mid in Hf. destruct Hf as (Hf1 & Hfc & Hf2).
      unfold bst in Hbst. rewrite (inorder_child_split es1 es2 cs1 c cs2 Hc1 Hc2) in Hbst.
      destruct (child_ctx (fst e) es1 es2 (map inorder cs1) (map inorder cs2) (inorder c)) as (HA & HB & HX);
        try (rewrite map_length; assumption); try assumption.
      assert (Hmh : (maxheight c <= f)%nat).
      { pose proof (maxheight_child (es1 ++ es2) (cs1 ++ c :: cs2) c) as Hmc.
        assert (In c (cs1 ++ c :: cs2)) by (apply in_or_app; right; left; reflexivity). specialize (Hmc H0). lia. }
      destruct (ins m cmp f e c) as [[rc bc]|] eqn:Ei; [|discriminate].
      destruct (IH e c rc bc Hmh Hfc HX Ei) as [Hb Hpost].
      assert (Hmem : mem_list cmp (fst e) (inorder (N (es1 ++ es2) (cs1 ++ c :: cs2))) = mem_list cmp (fst e) (inorder c)).
      { rewrite (inorder_child_split es1 es2 cs1 c cs2 Hc1 Hc2).
        rewrite mem_list_app_l by assumption. rewrite mem_list_app_r by assumption. reflexivity. }
      assert (Hins : ins_list cmp (fst e) (snd e) (inorder (N (es1 ++ es2) (cs1 ++ c :: cs2))) =
                     pre (map inorder cs1) es1 ++ ins_list cmp (fst e) (snd e) (inorder c) ++ post (map inorder cs2) es2).
      { rewrite (inorder_child_split es1 es2 cs1 c cs2 Hc1 Hc2).
        rewrite ins_list_app_l by assumption. rewrite ins_list_app_r by assumption. reflexivity. }
      rewrite Hmem.
      destruct rc as [c'|l mid rr]; unfold ins_post in Hpost.
      * injection H as <- <-. split; [exact Hb|]. destruct Hpost as [Hin Hwc].
        unfold ins_post. rewrite Hins. rewrite <- Hc1. rewrite replace_at_app.
        rewrite (inorder_child_split es1 es2 cs1 c' cs2 Hc1 Hc2). rewrite Hin. split; [reflexivity|].
        constructor.
        -- right. rewrite !app_length. cbn [length]. lia.
        -- apply Forall_app_mid. auto.
      * destruct Hpost as (Hin & Hwl & Hwr). injection H as <- <-. split; [exact Hb|].
        rewrite insert_at_app. rewrite <- Hc1. rewrite replace_at_app.
        replace (cs1 ++ l :: cs2) with ((cs1 ++ [l]) ++ cs2) by (rewrite <- app_assoc; reflexivity).
        replace (S (length cs1)) with (length (cs1 ++ [l])) by (rewrite app_length; cbn; lia).
        rewrite insert_at_app. rewrite <- app_assoc. cbn [app].
        apply maybe_split_post.
        -- constructor.
           ++ right. rewrite !app_length. cbn [length]. lia.
           ++ apply Forall_app_mid. split; [exact Hf1|]. split; [exact Hwl|]. constructor; assumption.
        -- rewrite Hins. change (es1 ++ mid :: es2) with (es1 ++ (mid :: es2)).
           rewrite (inorder_child_split es1 (mid :: es2) cs1 l (rr :: cs2)) by (cbn [length]; lia).
           cbn [map]. rewrite post_cons. rewrite <- Hin. rewrite <- !app_assoc. cbn [app]. reflexivity.
Qed.

Definition wf_root (r : option node) : Prop := match r with None => True | Some n => wf_shape n /\ bst n end.

Theorem put_inorder : forall fuel e root root' b,
  match root with Some n => (maxheight n <= fuel)%nat | None => True end ->
  wf_root root ->
  put m cmp fuel e root = Some (root', b) ->
  inorder' root' = ins_list cmp (fst e) (snd e) (inorder' root) /\ wf_root root' /\
  b = negb (mem_list cmp (fst e) (inorder' root)).
Proof.
  intros fuel e root root' b Hfuel Hwf H. destruct root as [n|]; cbn [put] in H.
  - destruct Hwf as [Hwf Hbst].
    destruct (ins m cmp fuel e n) as [[r bi]|] eqn:Ei; [|discriminate].
    destruct (ins_inorder fuel e n r bi Hfuel Hwf Hbst Ei) as [Hb Hpost].
    assert (Hs : ksorted cmp (ins_list cmp (fst e) (snd e) (inorder n))) by (apply ins_list_sorted; exact Hbst).
    destruct r as [n'|l mid rr]; injection H as <- <-; unfold ins_post in Hpost; cbn [inorder'].
    + destruct Hpost as [Hin Hw]. split; [exact Hin|]. split; [|exact Hb].
      split; [exact Hw|]. unfold bst. rewrite Hin. exact Hs.
    + destruct Hpost as (Hin & Hwl & Hwr).
      assert (Ein : inorder (N [mid] [l; rr]) = inorder l ++ mid :: inorder rr).
      { cbn. rewrite !app_nil_r. reflexivity. }
      rewrite Ein. split; [exact Hin|]. split; [|exact Hb]. split.
      * constructor; [right; reflexivity|]. constructor; [exact Hwl|]. constructor; [exact Hwr|constructor].
      * unfold bst. rewrite Ein, Hin. exact Hs.
  - injection H as <- <-. cbn. split; [destruct e; reflexivity|]. split; [|reflexivity]. split.
    + constructor; [left; reflexivity|constructor].
    + unfold bst. cbn. apply ksorted_cons. split; [apply ksorted_nil|intros x []].
Qed.

End Map.

(* ---------- count / leftmost / rightmost (no comparator) ---------- *)
Lemma interleave_length : forall cs (es : list entry),
  length (interleave cs es) = (length es + list_sum (map (@length entry) cs))%nat.
Proof.
  induction cs as [|c cs IH]; intros es; cbn; [lia|].
  rewrite app_length. destruct es as [|e es].
  - cbn. clear IH. fold (list_sum (map (@length entry) cs)). induction cs as [|c' cs IH']; cbn; [lia|]. rewrite app_length. fold (list_sum (map (@length entry) cs)). lia.
  - cbn [length]. rewrite IH. fold (list_sum (map (@length entry) cs)). lia.
Qed.

Lemma count_inorder_gen : forall n, count n = length (inorder n).
Proof.
  induction n as [es cs IH] using node_ind2. cbn [count inorder]. rewrite interleave_length. f_equal.
  rewrite map_map. f_equal. induction IH as [|c cs Hc Hcs IHcs]; [reflexivity|]. cbn. rewrite Hc, IHcs. reflexivity.
Qed.

Theorem count_inorder : forall n, wf_shape n -> count n = length (inorder n).
Proof. intros n _. apply count_inorder_gen. Qed.

Inductive ne_entries : node -> Prop :=
| ne_N : forall es cs, es <> [] -> Forall ne_entries cs -> ne_entries (N es cs).

Lemma In_interleave_es' : forall cs (es : list entry) x, In x es -> In x (interleave cs es).
Proof.
  induction cs as [|c cs IH]; intros es x H; [exact H|].
  cbn. apply in_or_app. right. destruct es as [|e es]; [contradiction|].
  destruct H as [<-|H]; [left; reflexivity|right; apply IH; exact H].
Qed.

Lemma ne_entries_inorder : forall n, ne_entries n -> inorder n <> [].
Proof.
  intros n H. inversion H as [es cs Hes Hf]; subst. destruct es as [|e es]; [congruence|].
  intros E. assert (Hin : In e (inorder (N (e :: es) cs))) by (apply In_interleave_es'; left; reflexivity).
  rewrite E in Hin. contradiction.
Qed.

Lemma hd_error_app_ne : forall A (l1 l2 : list A), l1 <> [] -> hd_error (l1 ++ l2) = hd_error l1.
Proof. intros A [|a l1] l2 H; [congruence|reflexivity]. Qed.

Theorem left_entry_spec : forall n, wf_shape n -> ne_entries n -> left_entry n = hd_error (inorder n).
Proof.
  induction n as [es cs IH] using node_ind2. intros Hwf Hne.
  apply wf_shape_inv in Hwf. destruct Hwf as [Hl Hf]. inversion Hne as [es' cs' Hes Hnf]; subst.
  destruct cs as [|c cs]; [reflexivity|].
  cbn [left_entry inorder map interleave].
  inversion IH as [|c' cs' IHc IHcs]; subst. inversion Hf; subst. inversion Hnf; subst.
  rewrite hd_error_app_ne by (apply ne_entries_inorder; assumption). apply IHc; assumption.
Qed.

Lemma last_opt_app_ne : forall A (l1 l2 : list A), l2 <> [] -> last_opt (l1 ++ l2) = last_opt l2.
Proof.
  intros A l1 l2 H. destruct (exists_last H) as (l' & x & ->). rewrite app_assoc. rewrite !last_opt_app. reflexivity.
Qed.

Lemma right_node_spec : forall fuel n, (maxheight n <= fuel)%nat -> wf_shape n -> ne_entries n ->
  last_opt (entries (right_node fuel n)) = last_opt (inorder n).
Proof.
  induction fuel as [|f IH]; intros [es cs] Hfuel Hwf Hne; [cbn in Hfuel; lia|].
  apply wf_shape_inv in Hwf. destruct Hwf as [Hl Hf]. inversion Hne as [es' cs' Hes Hnf]; subst.
  cbn [right_node]. destruct (last_opt cs) as [c|] eqn:El.
  - apply last_opt_Some in El. remember (removelast cs) as cs0 eqn:E0. clear E0. subst cs.
    destruct Hl as [Hl|Hl]; [destruct cs0; discriminate|].
    rewrite app_length in Hl. cbn [length] in Hl.
    rewrite Forall_app in Hf, Hnf. destruct Hf as [_ Hf]. destruct Hnf as [_ Hnf].
    inversion Hf; subst. inversion Hnf; subst.
    pose proof (maxheight_child es (cs0 ++ [c]) c) as Hmc.
    assert (Hin : In c (cs0 ++ [c])) by (apply in_or_app; right; left; reflexivity). specialize (Hmc Hin).
    rewrite IH; [|lia|assumption|assumption].
    cbn [inorder]. rewrite map_app. cbn [map]. rewrite interleave_last by (rewrite map_length; lia).
    rewrite last_opt_app_ne by (apply ne_entries_inorder; assumption). reflexivity.
  - apply last_opt_None in El. subst cs. reflexivity.
Qed.

Theorem right_entry_spec : forall n, wf_shape n -> ne_entries n -> right_entry n = last_opt (inorder n).
Proof.
  intros n Hwf Hne. unfold right_entry. apply right_node_spec; [lia|assumption|assumption].
Qed.

(* ---------- rebalancing preserves the in-order sequence (pure list reasoning) ---------- *)
Lemma bal_1 : forall es cs, bal 1 (N es cs) <-> cs = [].
Proof. intros es cs. reflexivity. Qed.
Lemma bal_SS : forall h es cs, bal (S (S h)) (N es cs) <-> (length cs = S (length es) /\ Forall (bal (S h)) cs).
Proof. intros h es cs. reflexivity. Qed.

Lemma inorder_snoc_snoc : forall cs c (es : list entry) e, length cs = S (length es) ->
  inorder (N (es ++ [e]) (cs ++ [c])) = inorder (N es cs) ++ e :: inorder c.
Proof.
  intros cs c es e Hl. cbn [inorder]. rewrite map_app. cbn [map].
  rewrite interleave_app_entry' by (rewrite map_length; exact Hl). cbn. rewrite app_nil_r. reflexivity.
Qed.

Lemma borrow_left_nodes : forall h les lcs ces ccs (sep le : entry),
  bal (S h) (N les lcs) -> bal (S h) (N ces ccs) -> last_opt les = Some le ->
  let '(lcs', ccs') := bl_pair lcs ccs in
  inorder (N (removelast les) lcs') ++ le :: inorder (N (sep :: ces) ccs') =
    inorder (N les lcs) ++ sep :: inorder (N ces ccs) /\
  bal (S h) (N (removelast les) lcs') /\ bal (S h) (N (sep :: ces) ccs').
Proof.
  intros h les lcs ces ccs sep le HL HC Hle. apply last_opt_Some in Hle.
  remember (removelast les) as les' eqn:E. clear E. subst les.
  destruct h as [|h']; [apply bal_1 in HL; apply bal_1 in HC|apply bal_SS in HL; apply bal_SS in HC].
  - subst lcs ccs. cbn. rewrite <- app_assoc. split; [reflexivity|]. split; reflexivity.
  - destruct HL as [HLl HLf]. destruct HC as [HCl HCf].
    rewrite app_length in HLl. cbn [length] in HLl.
    destruct (exists_last (l:=lcs)) as (lcs' & lc & ->); [intros ->; discriminate|].
    rewrite bl_pair_snoc. rewrite app_length in HLl. cbn [length] in HLl.
    rewrite Forall_app in HLf. destruct HLf as [HLf1 HLf2]. inversion HLf2; subst.
    split; [|split].
    + rewrite inorder_snoc_snoc by lia. rewrite <- app_assoc. reflexivity.
    + apply bal_SS. split; [lia|exact HLf1].
    + apply bal_SS. split; [cbn [length]; lia|]. constructor; assumption.
Qed.

Lemma borrow_right_nodes : forall h ces ccs (re : entry) res' rcs (sep : entry),
  bal (S h) (N ces ccs) -> bal (S h) (N (re :: res') rcs) ->
  let '(rcs', ccs') := br_pair rcs ccs in
  inorder (N (ces ++ [sep]) ccs') ++ re :: inorder (N res' rcs') =
    inorder (N ces ccs) ++ sep :: inorder (N (re :: res') rcs) /\
  bal (S h) (N (ces ++ [sep]) ccs') /\ bal (S h) (N res' rcs').
Proof.
  intros h ces ccs re res' rcs sep HC HR.
  destruct h as [|h']; [apply bal_1 in HR; apply bal_1 in HC|apply bal_SS in HR; apply bal_SS in HC].
  - subst rcs ccs. cbn. rewrite <- app_assoc. split; [reflexivity|]. split; reflexivity.
  - destruct HR as [HRl HRf]. destruct HC as [HCl HCf]. cbn [length] in HRl.
    destruct rcs as [|rc rcs']; [discriminate|]. cbn [br_pair]. cbn [length] in HRl.
    inversion HRf; subst.
    split; [|split].
    + rewrite inorder_snoc_snoc by lia. rewrite <- app_assoc. reflexivity.
    + apply bal_SS. split; [rewrite !app_length; cbn [length]; lia|]. apply Forall_app. split; [exact HCf|]. constructor; [assumption|constructor].
    + apply bal_SS. split; [lia|assumption].
Qed.

Lemma merge_nodes : forall h aes acs bes bcs (sep : entry),
  bal (S h) (N aes acs) -> bal (S h) (N bes bcs) ->
  inorder (N (aes ++ sep :: bes) (acs ++ bcs)) = inorder (N aes acs) ++ sep :: inorder (N bes bcs) /\
  bal (S h) (N (aes ++ sep :: bes) (acs ++ bcs)).
Proof.
  intros h aes acs bes bcs sep HA HB.
  destruct h as [|h']; [apply bal_1 in HA; apply bal_1 in HB|apply bal_SS in HA; apply bal_SS in HB].
  - subst acs bcs. cbn. split; reflexivity.
  - destruct HA as [HAl HAf]. destruct HB as [HBl HBf]. split.
    + cbn [inorder]. rewrite map_app. apply interleave_app_entry'. rewrite map_length. exact HAl.
    + apply bal_SS. split; [rewrite !app_length; cbn [length]; lia|]. apply Forall_app. split; assumption.
Qed.

Lemma inorder_two : forall (es1 es2 : list entry) cs1 cs2 a b sep,
  length cs1 = length es1 -> length cs2 = length es2 ->
  inorder (N (es1 ++ sep :: es2) (cs1 ++ a :: b :: cs2)) =
  pre (map inorder cs1) es1 ++ (inorder a ++ sep :: inorder b) ++ post (map inorder cs2) es2.
Proof.
  intros es1 es2 cs1 cs2 a b sep H1 H2.
  rewrite (inorder_child_split es1 (sep :: es2) cs1 a (b :: cs2)) by (cbn [length]; lia).
  cbn [map]. rewrite post_cons. rewrite <- !app_assoc. reflexivity.
Qed.

Lemma Forall_adj : forall A (P : A -> Prop) l1 a b l2,
  Forall P (l1 ++ a :: b :: l2) <-> (Forall P l1 /\ P a /\ P b /\ Forall P l2).
Proof.
  intros A P l1 a b l2. rewrite Forall_app_mid. split.
  - intros (H1 & H2 & H3). inversion H3; subst. auto.
  - intros (H1 & H2 & H3 & H4). split; [exact H1|]. split; [exact H2|]. constructor; assumption.
Qed.

Section RebInorder.
Variable m : nat.

Definition reb_post (h : nat) (es : list entry) (cs : list node) (n' : node) : Prop :=
  inorder n' = inorder (N es cs) /\ bal (S (S h)) n'.

Lemma borrow_left_inorder : forall h es cs i ces ccs n',
  length cs = S (length es) -> Forall (bal (S h)) cs -> nth_error cs i = Some (N ces ccs) ->
  borrow_left_f m es cs i ces ccs = Some n' -> reb_post h es cs n'.
Proof.
  intros h es cs i ces ccs n' Hl Hf Hc H. unfold borrow_left_f, left_sib in H.
  destruct (1 <=? i)%nat eqn:Ei; [|discriminate]. apply Nat.leb_le in Ei.
  destruct i as [|j]; [lia|]. replace (S j - 1)%nat with j in H by lia.
  destruct (nth_error cs j) as [[les lcs]|] eqn:EL; [|discriminate].
  destruct (minEntries m <? length les)%nat; [|discriminate].
  destruct (nth_error es j) as [sep|] eqn:Esep; [|discriminate].
  destruct (last_opt les) as [le|] eqn:Ele; [|discriminate].
  destruct (split_adj _ _ _ _ _ EL Hc) as (cs1 & cs2 & -> & Hc1).
  destruct (split_nth _ _ _ _ Esep) as (es1 & es2 & -> & He1).
  rewrite !app_length in Hl. cbn [length] in Hl.
  assert (Hc2 : length cs2 = length es2) by lia.
  apply Forall_adj in Hf. destruct Hf as (Hf1 & HfL & HfC & Hf2).
  pose proof (borrow_left_nodes h les lcs ces ccs sep le HfL HfC Ele) as Hn.
  destruct (bl_pair lcs ccs) as [lcs' ccs']. destruct Hn as (Hin & HbL & HbC).
  injection H as <-. subst j.
  rewrite <- He1 at 1. rewrite replace_at_app. rewrite replace_at_adj_lo, replace_at_adj_hi.
  unfold reb_post. split.
  - rewrite !inorder_two by lia. rewrite Hin. reflexivity.
  - apply bal_SS. split; [rewrite !app_length; cbn [length]; lia|].
    apply Forall_adj. auto.
Qed.

Lemma borrow_right_inorder : forall h es cs i ces ccs n',
  length cs = S (length es) -> Forall (bal (S h)) cs -> nth_error cs i = Some (N ces ccs) ->
  borrow_right_f m es cs i ces ccs = Some n' -> reb_post h es cs n'.
Proof.
  intros h es cs i ces ccs n' Hl Hf Hc H. unfold borrow_right_f in H.
  destruct (nth_error cs (S i)) as [[res rcs]|] eqn:ER; [|discriminate].
  destruct (minEntries m <? length res)%nat; [|discriminate].
  destruct (nth_error es i) as [sep|] eqn:Esep; [|discriminate].
  destruct res as [|re res']; [discriminate|].
  destruct (split_adj _ _ _ _ _ Hc ER) as (cs1 & cs2 & -> & Hc1).
  destruct (split_nth _ _ _ _ Esep) as (es1 & es2 & -> & He1).
  rewrite !app_length in Hl. cbn [length] in Hl.
  assert (Hc2 : length cs2 = length es2) by lia.
  apply Forall_adj in Hf. destruct Hf as (Hf1 & HfC & HfR & Hf2).
  pose proof (borrow_right_nodes h ces ccs re res' rcs sep HfC HfR) as Hn.
  destruct (br_pair rcs ccs) as [rcs' ccs']. destruct Hn as (Hin & HbC & HbR).
  injection H as <-. subst i.
  rewrite <- He1 at 1. rewrite replace_at_app. rewrite replace_at_adj_lo, replace_at_adj_hi.
  unfold reb_post. split.
  - rewrite !inorder_two by lia. rewrite Hin. reflexivity.
  - apply bal_SS. split; [rewrite !app_length; cbn [length]; lia|].
    apply Forall_adj. auto.
Qed.

Lemma merge_inorder : forall h es cs i ces ccs n',
  length cs = S (length es) -> Forall (bal (S h)) cs -> nth_error cs i = Some (N ces ccs) ->
  merge_f es cs i ces ccs = Some n' -> reb_post h es cs n'.
Proof.
  intros h es cs i ces ccs n' Hl Hf Hc H. unfold merge_f, left_sib in H.
  destruct (nth_error cs (S i)) as [[res rcs]|] eqn:ER.
  - (* merge with the right sibling *)
    destruct (nth_error es i) as [sep|] eqn:Esep; [|discriminate].
    destruct (split_adj _ _ _ _ _ Hc ER) as (cs1 & cs2 & -> & Hc1).
    destruct (split_nth _ _ _ _ Esep) as (es1 & es2 & -> & He1).
    rewrite !app_length in Hl. cbn [length] in Hl.
    assert (Hc2 : length cs2 = length es2) by lia.
    apply Forall_adj in Hf. destruct Hf as (Hf1 & HfC & HfR & Hf2).
    destruct (merge_nodes h ces ccs res rcs sep HfC HfR) as [Hin Hb].
    injection H as <-. subst i.
    rewrite <- He1 at 1. rewrite remove_at_app. rewrite replace_at_adj_lo, remove_at_adj_hi.
    unfold reb_post. split.
    + rewrite inorder_two by lia. rewrite inorder_child_split by lia. rewrite Hin. reflexivity.
    + apply bal_SS. split; [rewrite !app_length; cbn [length]; lia|].
      apply Forall_app_mid. auto.
  - destruct (1 <=? i)%nat eqn:Ei.
    + apply Nat.leb_le in Ei. destruct i as [|j]; [lia|]. replace (S j - 1)%nat with j in H by lia.
      destruct (nth_error cs j) as [[les lcs]|] eqn:EL.
      * destruct (nth_error es j) as [sep|] eqn:Esep; [|discriminate].
        destruct (split_adj _ _ _ _ _ EL Hc) as (cs1 & cs2 & -> & Hc1).
        destruct (split_nth _ _ _ _ Esep) as (es1 & es2 & -> & He1).
        rewrite !app_length in Hl. cbn [length] in Hl.
        assert (Hc2 : length cs2 = length es2) by lia.
        apply Forall_adj in Hf. destruct Hf as (Hf1 & HfL & HfC & Hf2).
        destruct (merge_nodes h les lcs ces ccs sep HfL HfC) as [Hin Hb].
        injection H as <-. subst j.
        rewrite <- He1 at 1. rewrite remove_at_app. rewrite replace_at_adj_hi, remove_at_adj_lo.
        unfold reb_post. split.
        -- rewrite inorder_two by lia. rewrite inorder_child_split by lia. rewrite Hin. reflexivity.
        -- apply bal_SS. split; [rewrite !app_length; cbn [length]; lia|].
           apply Forall_app_mid. auto.
      * injection H as <-. unfold reb_post. split; [reflexivity|]. apply bal_SS. split; assumption.
    + injection H as <-. unfold reb_post. split; [reflexivity|]. apply bal_SS. split; assumption.
Qed.

Lemma rebalance_inorder : forall h es cs i n',
  length cs = S (length es) -> Forall (bal (S h)) cs ->
  rebalance_child m es cs i = Some n' -> reb_post h es cs n'.
Proof.
  intros h es cs i n' Hl Hf H. rewrite rebalance_child_eq in H.
  destruct (nth_error cs i) as [[ces ccs]|] eqn:Hc; [|discriminate].
  destruct (minEntries m <=? length ces)%nat.
  - injection H as <-. unfold reb_post. split; [reflexivity|]. apply bal_SS. split; assumption.
  - destruct (borrow_left_f m es cs i ces ccs) as [r|] eqn:EBL.
    + injection H as <-. eapply borrow_left_inorder; eassumption.
    + destruct (borrow_right_f m es cs i ces ccs) as [r|] eqn:EBR.
      * injection H as <-. eapply borrow_right_inorder; eassumption.
      * eapply merge_inorder; eassumption.
Qed.
End RebInorder.


Section Del.
Variable cmp : cmpf.
Hypothesis Hswo : SWO cmp.
Variable m : nat.
Hypothesis Hm : (3 <= m)%nat.

Lemma inorder_last_child : forall (es : list entry) cs0 c, length cs0 = length es ->
  inorder (N es (cs0 ++ [c])) = pre (map inorder cs0) es ++ inorder c.
Proof.
  intros es cs0 c Hl. cbn [inorder]. rewrite map_app. cbn [map]. apply interleave_last. rewrite map_length. exact Hl.
Qed.

Lemma post_head_indep : forall (cs2 : list (list entry)) es2, length cs2 = S (length es2) ->
  exists R, forall x, post cs2 (x :: es2) = x :: R.
Proof.
  intros cs2 es2 Hl. destruct cs2 as [|c2 cs2]; [discriminate|].
  exists (c2 ++ post cs2 es2). intros x. reflexivity.
Qed.

Lemma delmax_inorder : forall fuel h n n' e, bal h n -> (h <= fuel)%nat ->
  delmax m fuel n = Some (n', e) -> inorder n = inorder n' ++ [e] /\ bal h n'.
Proof.
  induction fuel as [|f IH]; intros h [es cs] n' e Hb Hfuel H; [discriminate|].
  cbn [delmax] in H. destruct h as [|[|h']]; [contradiction| |].
  - apply bal_1 in Hb. subst cs.
    destruct (last_opt es) as [le|] eqn:El; [|discriminate]. injection H as <- <-.
    apply last_opt_Some in El. cbn. split; [exact El|reflexivity].
  - apply bal_SS in Hb. destruct Hb as [Hl Hf].
    destruct cs as [|c0 cs0] eqn:Ecs; [discriminate|]. rewrite <- Ecs in *. clear Ecs c0 cs0.
    destruct (nth_error cs (length cs - 1)) as [c|] eqn:Ec; [|discriminate].
    destruct (split_nth _ _ _ _ Ec) as (cs1 & cs2 & -> & Hc1).
    rewrite app_length in Hc1. cbn [length] in Hc1. destruct cs2 as [|x cs2]; [|cbn [length] in Hc1; lia].
    rewrite app_length in Hl. cbn [length] in Hl.
    rewrite Forall_app in Hf. destruct Hf as [Hf1 Hfc]. inversion Hfc as [|c' l' Hbc _]; subst.
    destruct (delmax m f c) as [[c' e']|] eqn:Ed; [|discriminate].
    destruct (IH (S h') c c' e' Hbc ltac:(lia) Ed) as [Hin Hbc'].
    rewrite app_length in H. cbn [length] in H.
    replace (length cs1 + 1 - 1)%nat with (length cs1) in H by lia. rewrite replace_at_app in H.
    destruct (rebalance_child m es (cs1 ++ [c']) (length cs1)) as [n1|] eqn:Er; [|discriminate].
    injection H as <- <-.
    destruct (rebalance_inorder m h' es (cs1 ++ [c']) (length cs1) n1) as [Hin1 Hb1].
    + rewrite app_length. cbn [length]. lia.
    + apply Forall_app. split; [exact Hf1|]. constructor; [exact Hbc'|constructor].
    + exact Er.
    + split; [|exact Hb1]. rewrite Hin1. rewrite !inorder_last_child by lia. rewrite Hin. rewrite app_assoc. reflexivity.
Qed.

Lemma del_list_absent : forall key l, mem_list cmp key l = false -> del_list cmp key l = l.
Proof.
  intros key l. unfold mem_list, find_list. induction l as [|[k v] l IH]; intros H; [reflexivity|].
  cbn in *. destruct (cmp key k); cbn in *; [discriminate|reflexivity|]. rewrite IH by exact H. reflexivity.
Qed.

Lemma del_inorder : forall fuel h key n n' b, bal h n -> bst cmp n -> (h <= fuel)%nat ->
  del m cmp fuel key n = Some (n', b) ->
  inorder n' = del_list cmp key (inorder n) /\ bal h n' /\ b = mem_list cmp key (inorder n).
Proof.
  induction fuel as [|f IH]; intros h key [es cs] n' b Hb Hbst Hfuel H; [discriminate|].
  cbn [del] in H. pose proof (bst_entries cmp _ _ Hbst) as Hes.
  destruct (search cmp key es) as [pos found] eqn:Es.
  destruct h as [|[|h']]; [contradiction| |].
  - (* leaf *)
    pose proof Hb as Hb0. apply bal_1 in Hb. subst cs. destruct found.
    + injection H as <- <-.
      destruct (search_found cmp Hswo _ _ _ Hes Es) as (es1 & e0 & es2 & -> & Hpos & Heq). subst pos.
      rewrite remove_at_app. cbn [inorder map interleave] in *. unfold bst in Hbst. cbn [inorder map interleave] in Hbst.
      destruct (sorted_eq_ctx cmp Hswo _ _ _ _ Hbst Heq) as [HA HB].
      rewrite del_list_mid by assumption. unfold mem_list. rewrite find_list_mid by assumption.
      split; [reflexivity|]. split; reflexivity.
    + injection H as <- <-.
      destruct (search_notfound cmp Hswo _ _ _ Hes Es) as (es1 & es2 & -> & Hpos & HG & HL).
      cbn [inorder map interleave]. rewrite del_list_none by assumption.
      unfold mem_list. rewrite find_list_none by assumption. split; [reflexivity|]. split; [exact Hb0|reflexivity].
  - (* internal *)
    pose proof Hb as Hb0. apply bal_SS in Hb. destruct Hb as [Hl Hf].
    destruct cs as [|c0 cs0] eqn:Ecs; [discriminate|]. rewrite <- Ecs in *. clear Ecs c0 cs0.
    destruct (nth_error cs pos) as [c|] eqn:Ec; [|discriminate].
    destruct (split_nth _ _ _ _ Ec) as (cs1 & cs2 & -> & Hc1).
    apply Forall_app_mid in Hf. destruct Hf as (Hf1 & Hfc & Hf2).
    destruct found.
    + (* key in this node: replace it by its predecessor *)
      destruct (search_found cmp Hswo _ _ _ Hes Es) as (es1 & e0 & es2 & -> & Hpos & Heq).
      assert (Hc1' : length cs1 = length es1) by lia. clear Hc1. subst pos. rename Hc1' into Hc1.
      rewrite !app_length in Hl. cbn [length] in Hl.
      assert (Hc2 : length cs2 = S (length es2)) by lia.
      destruct (delmax m f c) as [[c' pred]|] eqn:Ed; [|discriminate].
      destruct (delmax_inorder f (S h') c c' pred Hfc ltac:(lia) Ed) as [Hinc Hbc'].
      rewrite replace_at_app in H. rewrite <- Hc1 in H. rewrite replace_at_app in H.
      destruct (rebalance_child m (es1 ++ pred :: es2) (cs1 ++ c' :: cs2) (length cs1)) as [n1|] eqn:Er; [|discriminate].
      injection H as <- <-.
      destruct (rebalance_inorder m h' (es1 ++ pred :: es2) (cs1 ++ c' :: cs2) (length cs1) n1) as [Hin1 Hb1].
      * rewrite !app_length. cbn [length]. lia.
      * apply Forall_app_mid. auto.
      * exact Er.
      * destruct (post_head_indep (map inorder cs2) es2) as [R HR]; [rewrite map_length; exact Hc2|].
        assert (Eold : inorder (N (es1 ++ e0 :: es2) (cs1 ++ c :: cs2)) =
                       (pre (map inorder cs1) es1 ++ inorder c' ++ [pred]) ++ e0 :: R).
        { rewrite (inorder_child_split es1 (e0 :: es2) cs1 c cs2) by (cbn [length]; lia).
          rewrite HR, Hinc. rewrite <- !app_assoc. reflexivity. }
        assert (Enew : inorder (N (es1 ++ pred :: es2) (cs1 ++ c' :: cs2)) =
                       (pre (map inorder cs1) es1 ++ inorder c' ++ [pred]) ++ R).
        { rewrite (inorder_child_split es1 (pred :: es2) cs1 c' cs2) by (cbn [length]; lia).
          rewrite HR. rewrite <- !app_assoc. reflexivity. }
        unfold bst in Hbst. rewrite Eold in *.
        destruct (sorted_eq_ctx cmp Hswo _ _ _ _ Hbst Heq) as [HA HB].
        rewrite Hin1, Enew. rewrite del_list_mid by assumption.
        unfold mem_list. rewrite find_list_mid by assumption. split; [reflexivity|]. split; [exact Hb1|reflexivity].
    + destruct (search_notfound cmp Hswo _ _ _ Hes Es) as (es1 & es2 & -> & Hpos & HG & HL).
      assert (Hc1' : length cs1 = length es1) by lia. clear Hc1. subst pos. rename Hc1' into Hc1.
      rewrite !app_length in Hl. cbn [length] in Hl.
      assert (Hc2 : length cs2 = length es2) by lia.
      unfold bst in Hbst. rewrite (inorder_child_split es1 es2 cs1 c cs2 Hc1 Hc2) in Hbst.
      destruct (child_ctx cmp Hswo key es1 es2 (map inorder cs1) (map inorder cs2) (inorder c)) as (HA & HB & HX);
        try (rewrite map_length; assumption); try assumption.
      destruct (del m cmp f key c) as [[c' bc]|] eqn:Edl; [|discriminate].
      destruct (IH (S h') key c c' bc Hfc HX ltac:(lia) Edl) as (Hinc & Hbc' & Hbc).
      rewrite (inorder_child_split es1 es2 cs1 c cs2 Hc1 Hc2).
      rewrite mem_list_app_l by assumption. rewrite mem_list_app_r by assumption.
      rewrite del_list_app_l by assumption. rewrite del_list_app_r by assumption.
      destruct bc.
      * rewrite <- Hc1 in H. rewrite replace_at_app in H.
        destruct (rebalance_child m (es1 ++ es2) (cs1 ++ c' :: cs2) (length cs1)) as [n1|] eqn:Er; [|discriminate].
        injection H as <- <-.
        destruct (rebalance_inorder m h' (es1 ++ es2) (cs1 ++ c' :: cs2) (length cs1) n1) as [Hin1 Hb1].
        -- rewrite !app_length. cbn [length]. lia.
        -- apply Forall_app_mid. auto.
        -- exact Er.
        -- rewrite Hin1. rewrite (inorder_child_split es1 es2 cs1 c' cs2 Hc1 Hc2). rewrite Hinc.
           split; [reflexivity|]. split; [exact Hb1|exact Hbc].
      * injection H as <- <-. rewrite (inorder_child_split es1 es2 cs1 c cs2 Hc1 Hc2).
        rewrite del_list_absent by (symmetry; exact Hbc).
        split; [reflexivity|]. split; [exact Hb0|exact Hbc].
Qed.

Definition bal_root (fuel : nat) (r : option node) : Prop :=
  match r with None => True | Some n => (exists h, bal h n) /\ (maxheight n <= fuel)%nat end.

(* NOTE: the shape hypothesis is [bal] (all leaves at the same depth), which is stronger than
   [wf_shape]: with [wf_shape] alone the statement is false (see the counter-example below). *)
Theorem remove_inorder : forall fuel key root root' b,
  bal_root fuel root -> wf_root cmp root ->
  remove m cmp fuel key root = Some (root', b) ->
  inorder' root' = del_list cmp key (inorder' root) /\ wf_root cmp root' /\
  b = mem_list cmp key (inorder' root) /\
  match root' with None => True | Some n' => exists h', bal h' n' end.
Proof.
  intros fuel key root root' b Hbal Hwf H. destruct root as [n|]; cbn [remove] in H.
  - destruct Hbal as [[h Hb] Hfuel]. destruct Hwf as [Hwf Hbst].
    rewrite (bal_maxheight _ _ Hb) in Hfuel.
    destruct (del m cmp fuel key n) as [[n1 b1]|] eqn:Ed; [|discriminate].
    destruct (del_inorder fuel h key n n1 b1 Hb Hbst Hfuel Ed) as (Hin & Hb1 & Hmem).
    assert (Hs : ksorted cmp (del_list cmp key (inorder n))) by (apply del_list_sorted; assumption).
    cbn [inorder']. rewrite <- Hin in *.
    assert (Hgen : inorder' (Some n1) = inorder n1 /\ wf_root cmp (Some n1) /\ b1 = mem_list cmp key (inorder n) /\ exists h', bal h' n1).
    { cbn. split; [reflexivity|]. split; [split; [eapply bal_wf; exact Hb1|exact Hs]|]. split; [exact Hmem|]. exists h. exact Hb1. }
    destruct n1 as [[|e1 es1] cs1].
    + destruct cs1 as [|c1 cs1].
      * injection H as <- <-. cbn. auto.
      * injection H as <- <-. destruct h as [|[|h']]; [contradiction| |].
        -- apply bal_1 in Hb1. discriminate.
        -- apply bal_SS in Hb1. destruct Hb1 as [Hl Hf]. cbn [length] in Hl.
           destruct cs1; [|discriminate]. pose proof (Forall_inv Hf) as Hbc.
           assert (Ein : inorder (N [] [c1]) = inorder c1) by (cbn; rewrite app_nil_r; reflexivity).
           rewrite Ein in *. cbn [inorder']. split; [reflexivity|]. split; [|split; [exact Hmem|exists (S h'); exact Hbc]].
           split; [eapply bal_wf; exact Hbc|exact Hs].
    + injection H as <- <-. exact Hgen.
  - injection H as <- <-. cbn. auto.
Qed.


End Del.

(* The statement of remove_inorder with [wf_shape] in place of [bal] is FALSE:

     forall fuel key root root' b, (maxheight root <= fuel) -> wf_shape root -> bst root ->
       remove m cmp fuel key root = Some (root', b) -> inorder' root' = del_list cmp key (inorder' root) ...

   Counter-example (m = 3, an unbalanced but well-shaped and ordered tree): borrowing from a leaf left
   sibling into an internal child does not move a grandchild, and the in-order sequence is corrupted. *)
Definition cex_leaf (l : list Z) : node := N (map (fun k => (k, k)) l) [].
Definition cex_tree : node := N [(5, 5)%Z] [cex_leaf [1; 2]%Z; N [(8, 8)%Z] [cex_leaf [7%Z]; cex_leaf [9%Z]]].
Lemma remove_inorder_needs_balance :
  wf_shape cex_tree /\ bst Z.compare cex_tree /\
  (match remove 3 Z.compare 5 8%Z (Some cex_tree) with
   | Some (Some n, _) => inorder n
   | _ => []
   end) = [(1, 1); (2, 2); (7, 7); (9, 9); (5, 5)]%Z.
Proof.
  split; [|split].
  - repeat (constructor; try (left; reflexivity); try (right; reflexivity)).
  - unfold bst, ksorted. cbn. repeat (constructor; try reflexivity).
  - vm_compute. reflexivity.
Qed.

Print Assumptions search_spec.
Print Assumptions put_inorder.
Print Assumptions remove_inorder.
Print Assumptions get_spec.
Print Assumptions left_entry_spec.
Print Assumptions right_entry_spec.
Print Assumptions count_inorder.
