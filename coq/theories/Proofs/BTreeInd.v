(* Induction principle for the nested B-tree node type and basic list lemmas about the positional
   edits used by the model. *)
From Coq Require Import ZArith List Lia Bool Arith.
From Gods Require Import Common.Cmp Model.BTree.
Import ListNotations.

(* ---------- induction principle ---------- *)
Section NodeInd.
Variable P : node -> Prop.
Hypothesis HN : forall es cs, Forall P cs -> P (N es cs).

Fixpoint node_ind2 (n : node) : P n :=
  match n with
  | N es cs =>
    HN es cs ((fix go (l : list node) : Forall P l :=
                 match l with
                 | [] => Forall_nil P
                 | c :: l' => Forall_cons c (node_ind2 c) (go l')
                 end) cs)
  end.
End NodeInd.

(* ---------- lengths ---------- *)
Lemma insert_at_length : forall A i (x : A) l, length (insert_at i x l) = S (length l).
Proof.
  intros A i x l. unfold insert_at. rewrite app_length. cbn [length].
  rewrite <- (firstn_skipn i l) at 3. rewrite app_length. lia.
Qed.

Lemma replace_at_length : forall A i (x : A) l, (i < length l)%nat -> length (replace_at i x l) = length l.
Proof.
  intros A i x l Hi. unfold replace_at. rewrite app_length. cbn [length].
  rewrite firstn_length, skipn_length. lia.
Qed.

Lemma remove_at_length : forall A i (l : list A), (i < length l)%nat -> length (remove_at i l) = (length l - 1)%nat.
Proof.
  intros A i l Hi. unfold remove_at. rewrite app_length, firstn_length, skipn_length. lia.
Qed.

(* ---------- splitting a list at a position ---------- *)
Lemma nth_error_split3 : forall A (l : list A) i x,
  nth_error l i = Some x -> l = firstn i l ++ x :: skipn (S i) l.
Proof.
  intros A l. induction l as [|a l IH]; intros i x H.
  - destruct i; discriminate.
  - destruct i as [|i]; cbn in *.
    + congruence.
    + f_equal. apply IH. exact H.
Qed.

Lemma nth_error_app_mid : forall A (l1 l2 : list A) x, nth_error (l1 ++ x :: l2) (length l1) = Some x.
Proof.
  intros A l1 l2 x. rewrite nth_error_app2 by lia. rewrite Nat.sub_diag. reflexivity.
Qed.

Lemma firstn_app_exact : forall A (l1 l2 : list A), firstn (length l1) (l1 ++ l2) = l1.
Proof.
  intros A l1 l2. rewrite firstn_app, Nat.sub_diag, firstn_all. cbn. apply app_nil_r.
Qed.

Lemma skipn_app_exact : forall A (l1 l2 : list A), skipn (length l1) (l1 ++ l2) = l2.
Proof.
  intros A l1 l2. rewrite skipn_app, Nat.sub_diag, skipn_all. reflexivity.
Qed.

Lemma skipn_S_app_exact : forall A (l1 l2 : list A) x, skipn (S (length l1)) (l1 ++ x :: l2) = l2.
Proof.
  intros A l1 l2 x. replace (l1 ++ x :: l2) with ((l1 ++ [x]) ++ l2) by (rewrite <- app_assoc; reflexivity).
  replace (S (length l1)) with (length (l1 ++ [x])) by (rewrite app_length; cbn; lia).
  apply skipn_app_exact.
Qed.

(* decomposition forms of the edits *)
Lemma replace_at_app : forall A (l1 l2 : list A) x y, replace_at (length l1) y (l1 ++ x :: l2) = l1 ++ y :: l2.
Proof.
  intros A l1 l2 x y. unfold replace_at. rewrite firstn_app_exact, skipn_S_app_exact. reflexivity.
Qed.

Lemma remove_at_app : forall A (l1 l2 : list A) x, remove_at (length l1) (l1 ++ x :: l2) = l1 ++ l2.
Proof.
  intros A l1 l2 x. unfold remove_at. rewrite firstn_app_exact, skipn_S_app_exact. reflexivity.
Qed.

Lemma insert_at_app : forall A (l1 l2 : list A) x, insert_at (length l1) x (l1 ++ l2) = l1 ++ x :: l2.
Proof.
  intros A l1 l2 x. unfold insert_at. rewrite firstn_app_exact, skipn_app_exact. reflexivity.
Qed.

Lemma split_at : forall A (l : list A) i, (i <= length l)%nat ->
  exists l1 l2, l = l1 ++ l2 /\ length l1 = i.
Proof.
  intros A l i Hi. exists (firstn i l), (skipn i l). split.
  - symmetry. apply firstn_skipn.
  - rewrite firstn_length. lia.
Qed.

Lemma split_nth : forall A (l : list A) i x, nth_error l i = Some x ->
  exists l1 l2, l = l1 ++ x :: l2 /\ length l1 = i.
Proof.
  intros A l i x H. exists (firstn i l), (skipn (S i) l). split.
  - apply nth_error_split3. exact H.
  - rewrite firstn_length. assert (i < length l)%nat by (apply nth_error_Some; congruence). lia.
Qed.

Lemma nth_error_replace_at_same : forall A i (x : A) l, (i < length l)%nat -> nth_error (replace_at i x l) i = Some x.
Proof.
  intros A i x l Hi. unfold replace_at.
  rewrite nth_error_app2 by (rewrite firstn_length; lia).
  rewrite firstn_length. replace (i - Nat.min i (length l))%nat with 0%nat by lia. reflexivity.
Qed.

Lemma nth_error_replace_at_other : forall A i j (x : A) l, (i < length l)%nat -> i <> j ->
  nth_error (replace_at i x l) j = nth_error l j.
Proof.
  intros A i j x l Hi Hij.
  destruct (nth_error l i) as [y|] eqn:E; [|apply nth_error_None in E; lia].
  destruct (split_nth _ _ _ _ E) as (l1 & l2 & -> & Hl).
  subst i. rewrite replace_at_app.
  destruct (Nat.lt_ge_cases j (length l1)) as [Hj|Hj].
  - rewrite !nth_error_app1 by lia. reflexivity.
  - rewrite !nth_error_app2 by lia. destruct (j - length l1)%nat eqn:E2; [lia|]. reflexivity.
Qed.

(* last_opt / removelast *)
Lemma last_opt_app : forall A (l : list A) x, last_opt (l ++ [x]) = Some x.
Proof.
  intros A l x. unfold last_opt. rewrite app_length. cbn [length].
  replace (length l + 1 - 1)%nat with (length l) by lia. apply nth_error_app_mid.
Qed.

Lemma last_opt_nil : forall A, @last_opt A [] = None.
Proof. reflexivity. Qed.

Lemma last_opt_Some : forall A (l : list A) x, last_opt l = Some x -> l = removelast l ++ [x].
Proof.
  intros A l x H. destruct (exists_last (l:=l)) as (l' & y & ->).
  - intro Hn; subst; discriminate.
  - rewrite last_opt_app in H. injection H as ->. rewrite removelast_last. reflexivity.
Qed.

Lemma last_opt_None : forall A (l : list A), last_opt l = None -> l = [].
Proof.
  intros A l H. destruct l as [|a l]; [reflexivity|].
  destruct (exists_last (l:=a :: l)) as (l' & y & E); [discriminate|].
  rewrite E in H. rewrite last_opt_app in H. discriminate.
Qed.

Lemma last_opt_cons_some : forall A (l : list A), l <> [] -> exists x, last_opt l = Some x.
Proof.
  intros A l H. destruct (exists_last H) as (l' & y & ->). exists y. apply last_opt_app.
Qed.

(* ---------- interleave ---------- *)
Lemma interleave_nil_cs : forall es, interleave [] es = es.
Proof. reflexivity. Qed.

(* the canonical decomposition when |cs| = |es| + 1 at an entry position *)
Lemma interleave_app_entry : forall cs1 es1 c cs2 e es2,
  length cs1 = length es1 ->
  interleave (cs1 ++ c :: cs2) (es1 ++ e :: es2) =
  interleave (cs1 ++ [c]) es1 ++ e :: interleave cs2 es2.
Proof.
  induction cs1 as [|c1 cs1 IH]; intros es1 c cs2 e es2 Hl.
  - destruct es1; [|discriminate]. cbn. rewrite app_nil_r. reflexivity.
  - destruct es1 as [|e1 es1]; [discriminate|]. cbn in Hl. injection Hl as Hl.
    cbn. rewrite IH by exact Hl. rewrite <- app_assoc. reflexivity.
Qed.

(* decomposition at a child position *)
Lemma interleave_app_child : forall cs1 es1 cs2 es2,
  length cs1 = length es1 ->
  interleave (cs1 ++ cs2) (es1 ++ es2) = concat (map (fun p => fst p ++ [snd p]) (combine cs1 es1)) ++ interleave cs2 es2.
Proof.
  induction cs1 as [|c1 cs1 IH]; intros es1 cs2 es2 Hl.
  - destruct es1; [|discriminate]. reflexivity.
  - destruct es1 as [|e1 es1]; [discriminate|]. cbn in Hl. injection Hl as Hl.
    cbn. rewrite IH by exact Hl. rewrite <- !app_assoc. reflexivity.
Qed.

Lemma interleave_last : forall cs es c, length cs = length es ->
  interleave (cs ++ [c]) es = concat (map (fun p => fst p ++ [snd p]) (combine cs es)) ++ c.
Proof.
  intros cs es c Hl. rewrite <- (app_nil_r es) at 1. rewrite interleave_app_child by exact Hl.
  cbn. rewrite app_nil_r. reflexivity.
Qed.

(* ---------- search: unconditional facts ---------- *)
Lemma bsearch_bound : forall cmp key es fuel low high pos found,
  (0 <= low)%Z -> (high < Z.of_nat (length es))%Z -> (low <= high + 1)%Z ->
  bsearch cmp key es low high fuel = (pos, found) ->
  (pos <= length es)%nat /\ (found = true -> pos < length es)%nat.
Proof.
  intros cmp key es fuel. induction fuel as [|f IH]; intros low high pos found Hl Hh Hlh H; cbn in H.
  - injection H as <- <-. split; [lia|discriminate].
  - destruct (low <=? high)%Z eqn:E.
    + apply Z.leb_le in E.
      assert (Hmid : (low <= (high + low) / 2 <= high)%Z).
      { split; [apply Z.div_le_lower_bound|apply Z.div_le_upper_bound]; lia. }
      destruct (nth_error es (Z.to_nat ((high + low) / 2))) as [[k v]|] eqn:En.
      * destruct (cmp key k).
        -- injection H as <- <-. split; [lia|intros _; lia].
        -- apply IH in H; [exact H|lia|lia|lia].
        -- apply IH in H; [exact H|lia|lia|lia].
      * injection H as <- <-. split; [lia|discriminate].
    + injection H as <- <-. split; [lia|discriminate].
Qed.

Lemma search_bound : forall cmp key es pos found,
  search cmp key es = (pos, found) -> (pos <= length es)%nat /\ (found = true -> pos < length es)%nat.
Proof.
  intros cmp key es pos found H. unfold search in H.
  apply bsearch_bound in H; [exact H|lia|lia|lia].
Qed.

(* ---------- adjacent positions ---------- *)
Lemma split_adj : forall A (l : list A) j a b, nth_error l j = Some a -> nth_error l (S j) = Some b ->
  exists l1 l2, l = l1 ++ a :: b :: l2 /\ length l1 = j.
Proof.
  intros A l j a b Ha Hb. destruct (split_nth _ _ _ _ Ha) as (l1 & l2 & -> & Hl). subst j.
  rewrite nth_error_app2 in Hb by lia. replace (S (length l1) - length l1)%nat with 1%nat in Hb by lia.
  destruct l2 as [|b' l2]; [discriminate|]. cbn in Hb. injection Hb as ->. exists l1, l2. auto.
Qed.

Lemma replace_at_adj_lo : forall A (l1 l2 : list A) a b x, replace_at (length l1) x (l1 ++ a :: b :: l2) = l1 ++ x :: b :: l2.
Proof. intros. apply replace_at_app. Qed.

Lemma replace_at_adj_hi : forall A (l1 l2 : list A) a b x, replace_at (S (length l1)) x (l1 ++ a :: b :: l2) = l1 ++ a :: x :: l2.
Proof.
  intros A l1 l2 a b x. replace (l1 ++ a :: b :: l2) with ((l1 ++ [a]) ++ b :: l2) by (rewrite <- app_assoc; reflexivity).
  replace (S (length l1)) with (length (l1 ++ [a])) by (rewrite app_length; cbn; lia).
  rewrite replace_at_app. rewrite <- app_assoc. reflexivity.
Qed.

Lemma remove_at_adj_lo : forall A (l1 l2 : list A) a b, remove_at (length l1) (l1 ++ a :: b :: l2) = l1 ++ b :: l2.
Proof. intros. apply remove_at_app. Qed.

Lemma remove_at_adj_hi : forall A (l1 l2 : list A) a b, remove_at (S (length l1)) (l1 ++ a :: b :: l2) = l1 ++ a :: l2.
Proof.
  intros A l1 l2 a b. replace (l1 ++ a :: b :: l2) with ((l1 ++ [a]) ++ b :: l2) by (rewrite <- app_assoc; reflexivity).
  replace (S (length l1)) with (length (l1 ++ [a])) by (rewrite app_length; cbn; lia).
  rewrite remove_at_app. rewrite <- app_assoc. reflexivity.
Qed.

(* ---------- a structured reading of rebalance_child ---------- *)
Definition bl_pair (lcs ccs : list node) : list node * list node :=
  match lcs with
  | [] => (lcs, ccs)
  | _ => match last_opt lcs with
         | Some lc => (removelast lcs, lc :: ccs)
         | None => (lcs, ccs)
         end
  end.
Definition br_pair (rcs ccs : list node) : list node * list node :=
  match rcs with
  | [] => (rcs, ccs)
  | rc :: rcs' => (rcs', ccs ++ [rc])
  end.

Lemma bl_pair_nil : forall ccs, bl_pair [] ccs = ([], ccs).
Proof. reflexivity. Qed.
Lemma bl_pair_snoc : forall l x ccs, bl_pair (l ++ [x]) ccs = (l, x :: ccs).
Proof.
  intros l x ccs. unfold bl_pair. rewrite last_opt_app, removelast_last.
  destruct (l ++ [x]) eqn:E; [destruct l; discriminate|reflexivity].
Qed.

Section Reb.
Variable m : nat.

Definition left_sib (cs : list node) (i : nat) : option node :=
  if (1 <=? i)%nat then nth_error cs (i - 1) else None.

Definition borrow_left_f (es : list entry) (cs : list node) (i : nat) (ces : list entry) (ccs : list node) : option node :=
  match left_sib cs i with
  | Some (N les lcs) =>
    if (minEntries m <? length les)%nat then
      match nth_error es (i - 1), last_opt les with
      | Some sep, Some le =>
        let '(lcs', ccs') := bl_pair lcs ccs in
        Some (N (replace_at (i - 1) le es)
                (replace_at i (N (sep :: ces) ccs') (replace_at (i - 1) (N (removelast les) lcs') cs)))
      | _, _ => None
      end
    else None
  | None => None
  end.

Definition borrow_right_f (es : list entry) (cs : list node) (i : nat) (ces : list entry) (ccs : list node) : option node :=
  match nth_error cs (S i) with
  | Some (N res rcs) =>
    if (minEntries m <? length res)%nat then
      match nth_error es i, res with
      | Some sep, re :: res' =>
        let '(rcs', ccs') := br_pair rcs ccs in
        Some (N (replace_at i re es)
                (replace_at (S i) (N res' rcs') (replace_at i (N (ces ++ [sep]) ccs') cs)))
      | _, _ => None
      end
    else None
  | None => None
  end.

Definition merge_f (es : list entry) (cs : list node) (i : nat) (ces : list entry) (ccs : list node) : option node :=
  match nth_error cs (S i), left_sib cs i with
  | Some (N res rcs), _ =>
    match nth_error es i with
    | Some sep =>
      Some (N (remove_at i es) (remove_at (S i) (replace_at i (N (ces ++ sep :: res) (ccs ++ rcs)) cs)))
    | None => None
    end
  | None, Some (N les lcs) =>
    match nth_error es (i - 1) with
    | Some sep =>
      Some (N (remove_at (i - 1) es) (remove_at (i - 1) (replace_at i (N (les ++ sep :: ces) (lcs ++ ccs)) cs)))
    | None => None
    end
  | None, None => Some (N es cs)
  end.

Lemma rebalance_child_eq : forall es cs i,
  rebalance_child m es cs i =
  match nth_error cs i with
  | None => None
  | Some (N ces ccs) =>
    if (minEntries m <=? length ces)%nat then Some (N es cs)
    else match borrow_left_f es cs i ces ccs with
         | Some r => Some r
         | None => match borrow_right_f es cs i ces ccs with
                   | Some r => Some r
                   | None => merge_f es cs i ces ccs
                   end
         end
  end.
Proof. reflexivity. Qed.
End Reb.
