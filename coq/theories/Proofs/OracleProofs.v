(* The property oracle of C07 / C06 (Oracle/Oracle.v) never raises an alarm on the model.

   Oracle.oracle_vector / oracle_cost_op are the checkers the test pipeline evaluates on what the Go
   code exported (decoded structure, Size(), Height(), comparator-call counts).  This file proves that
   every failure code they can emit is impossible for the machine of Model/Machine.v: for EVERY
   configuration, EVERY list of operations and EVERY observation level the verdict on the machine's own
   observation vector is [], and the verdict on the cost line of every operation is [].  Hence an alarm
   of the oracle on the implementation's output is a genuine deviation from the proved behaviour, never
   an artefact of the checker.

   Contents
     1. fib_pow_tight : 2^(20 h) <= fib (h+2)^29 (the factor 2^29 of AVLBounds.fib_pow removed), hence
        avl_height_tight : 2^(20 height) <= (count+1)^29, i.e. height <= 1.45 log2 (n+1);
     2. nat / Z bridges (log2, pow, div);
     3. the numeric bounds of the property in the oracle's exact integer form, on trees satisfying the
        invariants (rb_cost_ok / avl_cost_ok / bt_cost_ok);
     4. decoders invert the machine's printers (rb_of / rb_shape, avl_of / avl_shape, bt_of / bt_shape,
        zs_of / ozs), ksortedb <-> ksorted, shape checkers true on trees satisfying the invariants;
     5. the observation vector of each judged kind, component by component;
     6. the headline theorems oracle_vector_model, oracle_cost_model (no hypothesis on the
        configuration: a B-tree of order < 3 is the crashed state, which prints nothing to judge). *)
From Coq Require Import ZArith List Bool Lia Arith Sorted.
From Gods Require Import Common.Cmp Common.ListAux Spec.SeqSpec Spec.MapSpec Model.Ops Model.Machine.
From Gods Require Model.RBTree Model.AVLTree Model.BTree Model.BTreeCost.
From Gods Require Import Oracle.Oracle.
From Gods Require Proofs.RBInv Proofs.RBMap Proofs.RBBounds Proofs.AVLInv Proofs.AVLMap Proofs.AVLBounds.
From Gods Require Proofs.BTreeInd Proofs.BTreeMap Proofs.BTreeInv Proofs.BTreeBounds Proofs.BTreeCostProofs.
From Gods Require Proofs.HeapProofs Proofs.MapSpecProofs Proofs.MachineMaps Proofs.MachineTrees Proofs.MachineInv.
Import ListNotations.
Local Open Scope Z_scope.

Module MT := Proofs.MachineTrees.
Module MI := Proofs.MachineInv.
Module MMp := Proofs.MachineMaps.

(* ================================================================================================ *)
(* 1. the golden ratio against 2^(20/29)                                                            *)
(* ================================================================================================ *)
Definition fibz (n : nat) : Z := Z.of_nat (AVLBounds.fib n).

Lemma fibz_SS : forall n, fibz (S (S n)) = fibz (S n) + fibz n.
Proof. intros n. unfold fibz. rewrite AVLBounds.fib_SS. lia. Qed.

(* r = 1.618 satisfies r^2 <= r + 1, so r^h <= fib (h+2) by two-step induction *)
Lemma fib_ge_pow_aux : forall h,
  1618 ^ Z.of_nat h <= fibz (h + 2) * 1000 ^ Z.of_nat h /\
  1618 ^ Z.of_nat (S h) <= fibz (S h + 2) * 1000 ^ Z.of_nat (S h).
Proof.
  induction h as [|h [IH1 IH2]].
  - split; vm_compute; discriminate.
  - split; [exact IH2|].
    replace (S (S h) + 2)%nat with (S (S (S h + 1)))%nat by lia. rewrite fibz_SS.
    replace (S (S h + 1))%nat with (S h + 2)%nat by lia.
    replace (S h + 1)%nat with (h + 2)%nat in * by lia.
    replace (S h + 2)%nat with (S (h + 2))%nat in * by lia.
    rewrite !Nat2Z.inj_succ in *. rewrite !Z.pow_succ_r in * by lia.
    assert (HA : 0 <= 1618 ^ Z.of_nat h) by (apply Z.pow_nonneg; lia).
    assert (HB : 0 <= 1000 ^ Z.of_nat h) by (apply Z.pow_nonneg; lia).
    remember (1618 ^ Z.of_nat h) as A eqn:EA. remember (1000 ^ Z.of_nat h) as B eqn:EB.
    remember (fibz (h + 2) * B) as X eqn:EX. remember (fibz (S (h + 2)) * B) as Y eqn:EY.
    replace (fibz (S (h + 2)) * (1000 * B)) with (1000 * Y) in IH2 by (subst Y; ring).
    replace ((fibz (S (h + 2)) + fibz (h + 2)) * (1000 * (1000 * B))) with (1000000 * (Y + X))
      by (subst X Y; ring).
    lia.
Qed.

Lemma fib_ge_pow : forall h, 1618 ^ Z.of_nat h <= fibz (h + 2) * 1000 ^ Z.of_nat h.
Proof. intros h. apply fib_ge_pow_aux. Qed.

(* 1.618^29 = 1149150.9... >= 2^20 = 1048576 *)
Lemma golden_29 : 2 ^ 20 * 1000 ^ 29 <= 1618 ^ 29.
Proof. vm_compute. discriminate. Qed.

Theorem fib_pow_tight_Z : forall h, 2 ^ (20 * Z.of_nat h) <= fibz (h + 2) ^ 29.
Proof.
  intros h. set (H := Z.of_nat h). assert (HH : 0 <= H) by (subst H; lia).
  assert (HF : 0 <= fibz (h + 2)) by (unfold fibz; lia).
  assert (Hpos : 0 < 1000 ^ (29 * H)) by (apply Z.pow_pos_nonneg; lia).
  apply (Z.mul_le_mono_pos_r _ _ (1000 ^ (29 * H)) Hpos).
  (* left: (2^20 * 1000^29)^H   right: (fib * 1000^H)^29 *)
  replace (2 ^ (20 * H) * 1000 ^ (29 * H)) with ((2 ^ 20 * 1000 ^ 29) ^ H)
    by (rewrite Z.pow_mul_l, <- !Z.pow_mul_r by lia; reflexivity).
  replace (fibz (h + 2) ^ 29 * 1000 ^ (29 * H)) with ((fibz (h + 2) * 1000 ^ H) ^ 29)
    by (rewrite Z.pow_mul_l, <- Z.pow_mul_r by lia; rewrite (Z.mul_comm H 29); reflexivity).
  apply Z.le_trans with ((1618 ^ 29) ^ H).
  - apply Z.pow_le_mono_l. split; [vm_compute; discriminate|exact golden_29].
  - rewrite <- Z.pow_mul_r, (Z.mul_comm 29 H), Z.pow_mul_r by lia.
    apply Z.pow_le_mono_l. split; [apply Z.pow_nonneg; lia|]. apply fib_ge_pow.
Qed.

Theorem fib_pow_tight : forall h, (2 ^ (20 * h) <= AVLBounds.fib (h + 2) ^ 29)%nat.
Proof.
  intros h. apply Nat2Z.inj_le. rewrite !Nat2Z.inj_pow, Nat2Z.inj_mul.
  exact (fib_pow_tight_Z h).
Qed.

(* height <= 1.45 * log2 (n + 1), exactly (no additive constant) *)
Theorem avl_height_tight : forall t, AVLInv.avl t ->
  (2 ^ (20 * AVLTree.height t) <= (AVLTree.count t + 1) ^ 29)%nat.
Proof.
  intros t Ht. eapply Nat.le_trans; [apply fib_pow_tight|].
  apply Nat.pow_le_mono_l. apply AVLBounds.avl_fib. exact Ht.
Qed.

Theorem avl_height_tight_Z : forall t, AVLInv.avl t ->
  2 ^ (20 * Z.of_nat (AVLTree.height t)) <= (Z.of_nat (AVLTree.count t) + 1) ^ 29.
Proof.
  intros t Ht. pose proof (avl_height_tight t Ht) as H. apply Nat2Z.inj_le in H.
  rewrite !Nat2Z.inj_pow, Nat2Z.inj_mul, Nat2Z.inj_add in H. exact H.
Qed.

(* ================================================================================================ *)
(* 2. nat / Z bridges                                                                               *)
(* ================================================================================================ *)
Lemma log2_nat_Z : forall n, Z.of_nat (Nat.log2 n) = Z.log2 (Z.of_nat n).
Proof.
  intros n. destruct n as [|n]; [reflexivity|].
  symmetry. apply Z.log2_unique; [lia|].
  destruct (Nat.log2_spec (S n) ltac:(lia)) as [Hlo Hhi].
  apply Nat2Z.inj_le in Hlo. apply Nat2Z.inj_lt in Hhi.
  rewrite Nat2Z.inj_pow in Hlo, Hhi. change (Z.of_nat 2) with 2 in *.
  replace (Z.of_nat (S (Nat.log2 (S n)))) with (Z.succ (Z.of_nat (Nat.log2 (S n)))) in Hhi by lia.
  split; assumption.
Qed.

Lemma half_nat_Z : forall m, Z.of_nat ((m + 1) / 2) = (Z.of_nat m + 1) / 2.
Proof. intros m. rewrite Nat2Z.inj_div, Nat2Z.inj_add. reflexivity. Qed.

(* ================================================================================================ *)
(* 3. the property's numeric bounds, in the oracle's exact integer form                             *)
(* ================================================================================================ *)
(* red-black: q <= 2 log2 (n+1) + 2 *)
Lemma rb_cost_ok_nat : forall n q, (q <= 2 * Nat.log2 (n + 1) + 2)%nat ->
  rb_cost_ok (Z.of_nat n) (Z.of_nat q) = true.
Proof.
  intros n q H. apply rb_cost_ok_floor; [lia|].
  replace (Z.of_nat n + 1) with (Z.of_nat (n + 1)) by lia. rewrite <- log2_nat_Z. lia.
Qed.

Lemma rb_cost_ok_mono : forall n n' q, n <= n' -> rb_cost_ok n q = true -> rb_cost_ok n' q = true.
Proof.
  intros n n' q Hn H. apply rb_cost_ok_spec in H. destruct H as [H0 H]. apply rb_cost_ok_spec.
  split; [lia|]. destruct H as [H|H]; [left; exact H|right].
  eapply Z.le_trans; [exact H|]. apply Z.pow_le_mono_l. lia.
Qed.

(* AVL: q <= 1.45 log2 (n+2) + 2; any count up to height + 2 is accepted *)
Lemma avl_cost_ok_height : forall t q, AVLInv.avl t -> (q <= AVLTree.height t + 2)%nat ->
  avl_cost_ok (Z.of_nat (AVLTree.count t)) (Z.of_nat q) = true.
Proof.
  intros t q Ht Hq. apply avl_cost_ok_spec. split; [lia|].
  destruct (Z_lt_ge_dec (Z.of_nat q) 2) as [Hlt|Hge]; [left; exact Hlt|right].
  apply Z.le_trans with (2 ^ (20 * Z.of_nat (AVLTree.height t))).
  - apply Z.pow_le_mono_r; lia.
  - eapply Z.le_trans; [apply avl_height_tight_Z; exact Ht|].
    apply Z.pow_le_mono_l. lia.
Qed.

(* B-tree of order m: q <= 4 (floor(log2 m) + 1) (floor(log_ceil(m/2) (n+1)) + 1) *)
Lemma bt_cost_ok_nat : forall m n q, (3 <= m)%nat -> MT.bt_log_bound m n q ->
  bt_cost_ok (Z.of_nat m) (Z.of_nat n) (Z.of_nat q) = true.
Proof.
  intros m n q Hm [HL _]. apply bt_cost_ok_spec. split; [lia|]. split; [lia|].
  set (cz := (Z.of_nat m + 1) / 2).
  assert (Hc : 2 <= cz) by (apply Z.div_le_lower_bound; lia).
  destruct (ilog_spec cz (Z.of_nat n + 1) Hc ltac:(lia)) as (H0 & _ & Hhi).
  set (Lz := ilog cz (Z.of_nat n + 1)) in *.
  specialize (HL (Z.to_nat Lz)).
  assert (Hlt : (n + 1 < ((m + 1) / 2) ^ (Z.to_nat Lz + 1))%nat).
  { apply Nat2Z.inj_lt. rewrite Nat2Z.inj_pow, half_nat_Z, !Nat2Z.inj_add, Z2Nat.id by exact H0.
    exact Hhi. }
  specialize (HL Hlt). apply Nat2Z.inj_le in HL.
  rewrite !Nat2Z.inj_mul, !Nat2Z.inj_add, log2_nat_Z, Z2Nat.id in HL by exact H0.
  exact HL.
Qed.

Lemma bt_bound_mono : forall m n n', 3 <= m -> 0 <= n <= n' -> bt_bound m n <= bt_bound m n'.
Proof.
  intros m n n' Hm Hn. unfold bt_bound.
  assert (Hc : 2 <= (m + 1) / 2) by (apply Z.div_le_lower_bound; lia).
  pose proof (Z.log2_nonneg m) as Hl.
  apply Z.mul_le_mono_nonneg_l; [lia|].
  destruct (ilog_spec ((m + 1) / 2) (n + 1) Hc ltac:(lia)) as (_ & Hlo & _).
  destruct (ilog_spec ((m + 1) / 2) (n' + 1) Hc ltac:(lia)) as (H0' & _ & Hhi').
  assert (ilog ((m + 1) / 2) (n + 1) <= ilog ((m + 1) / 2) (n' + 1)); [|lia].
  apply ilog_least; try lia.
Qed.

(* ================================================================================================ *)
(* 4. decoders invert printers; the shape checkers on trees satisfying the invariants               *)
(* ================================================================================================ *)
Lemma rb_of_shape : forall t, rb_of (rb_shape t) = Some t.
Proof.
  induction t as [|co l IHl k v r IHr]; [reflexivity|].
  cbn [rb_shape rb_of]. rewrite IHl, IHr. destruct co; reflexivity.
Qed.

Lemma avl_of_shape : forall t, avl_of (avl_shape t) = Some t.
Proof.
  induction t as [|b l IHl k v r IHr]; [reflexivity|].
  cbn [avl_shape avl_of]. rewrite IHl, IHr. reflexivity.
Qed.

Lemma all_some_map_id : forall {A B} (p : A -> B) (d : B -> option A) (l : list A),
  Forall (fun x => d (p x) = Some x) l -> all_some (map d (map p l)) = Some l.
Proof.
  intros A B p d l H. induction H as [|x l Hx _ IH]; [reflexivity|].
  cbn [map all_some]. rewrite Hx, IH. reflexivity.
Qed.

Lemma entries_of_opairs : forall es,
  all_some (map entry_of (map (fun e => opair (fst e) (snd e)) es)) = Some es.
Proof.
  intros es. apply all_some_map_id. apply Forall_forall. intros [k v] _. reflexivity.
Qed.

Lemma bt_of_shape : forall n, bt_of (bt_shape n) = Some n.
Proof.
  induction n as [es cs IH] using BTreeInd.node_ind2.
  cbn [bt_shape]. unfold opairs. cbn [bt_of].
  rewrite entries_of_opairs.
  change (map (fix bt_of (o : obs) : option BTree.node :=
                 match o with
                 | OL [OL es0; OL cs0] =>
                   match all_some (map entry_of es0), all_some (map bt_of cs0) with
                   | Some es', Some cs' => Some (BTree.N es' cs')
                   | _, _ => None
                   end
                 | _ => None
                 end) (map bt_shape cs)) with (map bt_of (map bt_shape cs)).
  rewrite (all_some_map_id bt_shape bt_of cs IH). reflexivity.
Qed.

Lemma bt_shape_not_nil : forall n, bt_shape n <> OL [].
Proof. intros [es cs]. discriminate. Qed.

Lemma zs_of_ozs : forall l, zs_of (ozs l) = Some l.
Proof.
  intros l. unfold ozs, zs_of. apply all_some_map_id. apply Forall_forall. intros z _. reflexivity.
Qed.

Lemma ksortedb_spec : forall cmp l, ksortedb cmp l = true <-> ksorted cmp l.
Proof.
  intros cmp l. unfold ksorted. induction l as [|a l IH]; cbn [ksortedb].
  - split; [constructor|reflexivity].
  - rewrite andb_true_iff, forallb_forall, IH. split.
    + intros [H1 H2]. constructor; [exact H2|]. apply Forall_forall. intros b Hb.
      specialize (H1 b Hb). destruct (cmp (fst a) (fst b)); try discriminate H1. reflexivity.
    + intros H. inversion H as [|a' l' H2 H1]; subst. split; [|exact H2].
      intros b Hb. rewrite Forall_forall in H1. rewrite (H1 b Hb). reflexivity.
Qed.

(* ---------- the shape verdicts ---------- *)
Lemma rb_codes_model : forall cmp t, RBInv.rbt t -> ksorted cmp (RBTree.inorder t) ->
  rb_codes cmp (Z.of_nat (RBTree.count t)) (rb_shape t) = [].
Proof.
  intros cmp t Hrb Hs. apply rb_codes_nil. unfold rb_shape_ok. rewrite rb_of_shape.
  rewrite !andb_true_iff. repeat split.
  - apply RBInv.rb_okb_spec. exact Hrb.
  - apply ksortedb_spec. exact Hs.
  - apply Z.eqb_refl.
  - apply Nat.leb_le. apply RBBounds.rbt_paths. exact Hrb.
Qed.

Lemma avl_codes_model : forall cmp t, AVLInv.avl t -> ksorted cmp (AVLTree.inorder t) ->
  avl_codes cmp (Z.of_nat (AVLTree.count t)) (avl_shape t) = [].
Proof.
  intros cmp t Ha Hs. apply avl_codes_nil. unfold avl_shape_ok. rewrite avl_of_shape.
  rewrite !andb_true_iff. repeat split.
  - apply AVLInv.avl_okb_spec. exact Ha.
  - apply ksortedb_spec. exact Hs.
  - apply Z.eqb_refl.
Qed.

Definition bt_shape_opt (r : option BTree.node) : obs := match r with Some n => bt_shape n | None => OL [] end.
Definition bt_height_opt (r : option BTree.node) : Z := match r with Some n => Z.of_nat (BTree.height n) | None => 0 end.

Lemma bt_codes_model : forall m cmp r, BTreeInv.btree_inv m r -> BTreeInv.sorted_root cmp r ->
  bt_codes m cmp (Z.of_nat (MT.bt_count r)) (bt_height_opt r) (bt_shape_opt r) = [].
Proof.
  intros m cmp [n|] Hinv Hs; [|reflexivity].
  apply bt_codes_nil. cbn [bt_shape_opt bt_height_opt MT.bt_count]. unfold bt_shape_ok.
  pose proof (bt_of_shape n) as Hof. destruct n as [es cs]. cbn [bt_shape] in *. unfold opairs in *.
  rewrite Hof. rewrite !andb_true_iff. repeat split.
  - apply BTreeInv.btree_okb_spec. exact Hinv.
  - apply ksortedb_spec. exact Hs.
  - apply Z.eqb_refl.
  - apply Z.eqb_refl.
Qed.

Lemma heap_codes_model : forall cmp l, HeapProofs.heap_ok cmp l ->
  heap_codes cmp (zlen l) (ozs l) = [].
Proof.
  intros cmp l H. unfold heap_codes. rewrite zs_of_ozs.
  apply app_nil_iff. split; apply flag_nil; [apply HeapProofs.heap_okb_spec; exact H|apply Z.eqb_refl].
Qed.

(* a cost vector all of whose entries are within the bound *)
Lemma cost_codes_model : forall ok code (f : Z -> nat) ps,
  (forall p, In p ps -> ok (Z.of_nat (f p)) = true) ->
  cost_codes ok code (ozs (map (fun p => Z.of_nat (f p)) ps)) = [].
Proof.
  intros ok code f ps H. unfold cost_codes. rewrite zs_of_ozs. apply flag_nil.
  apply forallb_forall. intros q Hq. apply in_map_iff in Hq. destruct Hq as (p & <- & Hp).
  apply H. exact Hp.
Qed.

(* the AVL bound from the exact Fibonacci form proved for every Get / Put / Remove *)
Lemma avl_cost_ok_fib : forall n q, (AVLBounds.fib (q + 2) <= n + 1)%nat ->
  avl_cost_ok (Z.of_nat n) (Z.of_nat q) = true.
Proof.
  intros n q H. apply avl_cost_ok_spec. split; [lia|].
  destruct (Z_lt_ge_dec (Z.of_nat q) 2) as [Hlt|Hge]; [left; exact Hlt|right].
  apply Z.le_trans with (2 ^ (20 * Z.of_nat q)); [apply Z.pow_le_mono_r; lia|].
  eapply Z.le_trans; [apply fib_pow_tight_Z|].
  apply Z.pow_le_mono_l. unfold fibz. lia.
Qed.

(* ================================================================================================ *)
(* 5. the verdict on the observation vector of each judged kind, component by component             *)
(* ================================================================================================ *)
Ltac open_vec K lvl :=
  unfold oracle_vector, on_tag, vfind, observe; rewrite ?K; cbv beta iota zeta;
  destruct (1 <=? lvl); try destruct (each_of _ _); try destruct (each_back _ _);
  cbn [app find fst snd tag_num Z.eqb Pos.eqb andb is_kv]; try reflexivity.

Lemma oracle_vector_crash : forall c lvl, oracle_vector c (observe c lvl StCrash) = [].
Proof. intros c lvl. reflexivity. Qed.

Lemma oracle_vector_rbtree : forall c lvl t n, ckind c = RedBlackTree ->
  oracle_vector c (observe c lvl (StRB t n)) =
  rb_codes (kc c) n (rb_shape t) ++
  cost_codes (rb_cost_ok n) 7 (ozs (map (fun p => Z.of_nat (RB.get_cost (kc c) p t)) (probes c))).
Proof. intros c lvl t n K. open_vec K lvl. Qed.

Lemma oracle_vector_treemap : forall c lvl t n, ckind c = TreeMap ->
  oracle_vector c (observe c lvl (StRB t n)) = rb_codes (kc c) n (rb_shape t).
Proof. intros c lvl t n K. open_vec K lvl. Qed.

Lemma oracle_vector_treeset : forall c lvl t n, ckind c = TreeSet ->
  oracle_vector c (observe c lvl (StRB t n)) = rb_codes (kc c) n (rb_shape t).
Proof. intros c lvl t n K. open_vec K lvl. Qed.

Lemma oracle_vector_bidi : forall c lvl f fn i inn, ckind c = TreeBidiMap ->
  oracle_vector c (observe c lvl (StTBidi f fn i inn)) =
  rb_codes (kc c) fn (rb_shape f) ++ rb_codes (vc c) fn (rb_shape i).
Proof. intros c lvl f fn i inn K. open_vec K lvl. Qed.

Lemma oracle_vector_avl : forall c lvl t n, ckind c = AVLTree ->
  oracle_vector c (observe c lvl (StAVL t n)) =
  avl_codes (kc c) n (avl_shape t) ++
  cost_codes (avl_cost_ok n) 7 (ozs (map (fun p => Z.of_nat (AVL.get_cost (kc c) p t)) (probes c))).
Proof. intros c lvl t n K. open_vec K lvl. Qed.

Lemma oracle_vector_bt : forall c lvl r n, ckind c = BTree ->
  oracle_vector c (observe c lvl (StBT r n)) =
  bt_codes (bt_m c) (kc c) n (bt_height_opt r) (bt_shape_opt r) ++
  cost_codes (bt_cost_ok (corder c) n) 7
    (ozs (map (fun p => Z.of_nat (MT.get_cost_of c (StBT r n) p)) (probes c))).
Proof.
  intros c lvl r n K. destruct r as [root|]; cbn [MT.get_cost_of bt_height_opt bt_shape_opt]; open_vec K lvl.
Qed.

Lemma oracle_vector_heap : forall c lvl l, (ckind c = BinaryHeap \/ ckind c = PriorityQueue) ->
  oracle_vector c (observe c lvl (StHeap l)) = heap_codes (kc c) (zlen l) (ozs l).
Proof.
  intros c lvl l [K|K]; unfold oracle_vector, on_tag, vfind, observe; rewrite ?K; cbv beta iota zeta;
    destruct (1 <=? lvl); cbn [app find fst snd tag_num Z.eqb Pos.eqb andb is_kv size_of];
    reflexivity.
Qed.

Definition judged (k : kind) : bool :=
  match k with
  | RedBlackTree | TreeMap | TreeSet | TreeBidiMap | AVLTree | BTree | BinaryHeap | PriorityQueue => true
  | _ => false
  end.

Lemma state_crash_dec : forall s : state, {s = StCrash} + {s <> StCrash}.
Proof. intros s. destruct s; (left; reflexivity) || (right; discriminate). Qed.

Lemma observe_size_first : forall c lvl s, s <> StCrash ->
  exists rest, observe c lvl s = (TSize, OZ (size_of c s)) :: rest.
Proof. intros c lvl s H. destruct s; try congruence; eexists; reflexivity. Qed.

(* the other thirteen kinds are not judged: whatever the state *)
Lemma oracle_vector_unjudged : forall c lvl s, judged (ckind c) = false ->
  oracle_vector c (observe c lvl s) = [].
Proof.
  intros c lvl s Hk. destruct (state_crash_dec s) as [->|Hs]; [reflexivity|].
  destruct (observe_size_first c lvl s Hs) as [rest ->].
  unfold oracle_vector, vfind. cbn [find fst snd tag_num Z.eqb].
  destruct (ckind c); try discriminate Hk; reflexivity.
Qed.

(* ================================================================================================ *)
(* 6. no alarm on any state satisfying the machine invariant, hence on any reachable state          *)
(* ================================================================================================ *)
Lemma rb_tree_codes : forall cmp t n, RBInv.rbt t -> RBMap.bst cmp t -> n = Z.of_nat (RBTree.count t) ->
  rb_codes cmp n (rb_shape t) = [].
Proof. intros cmp t n Hrb Hb ->. apply rb_codes_model; assumption. Qed.

Lemma rbI_codes : forall cmp t n, MMp.rbI cmp (t, n) -> rb_codes cmp n (rb_shape t) = [].
Proof.
  intros cmp t n (Hrb & Hb & Hn). cbn [fst snd] in *.
  apply rb_tree_codes; [exact Hrb|exact Hb|]. rewrite RBMap.count_inorder. exact Hn.
Qed.

Lemma rb_get_costs_ok : forall cmp t ps, RBInv.rbt t ->
  cost_codes (rb_cost_ok (Z.of_nat (RBTree.count t))) 7
             (ozs (map (fun p => Z.of_nat (RBTree.get_cost cmp p t)) ps)) = [].
Proof.
  intros cmp t ps Hrb. apply cost_codes_model. intros p _. apply rb_cost_ok_nat.
  destruct (MT.rb_cost_bounds cmp p t Hrb) as (_ & _ & Hg & _). lia.
Qed.

Lemma avl_get_costs_ok : forall cmp t ps, AVLInv.avl t ->
  cost_codes (avl_cost_ok (Z.of_nat (AVLTree.count t))) 7
             (ozs (map (fun p => Z.of_nat (AVLTree.get_cost cmp p t)) ps)) = [].
Proof.
  intros cmp t ps Ha. apply cost_codes_model. intros p _. apply avl_cost_ok_height; [exact Ha|].
  pose proof (AVLBounds.lookup_cost_height cmp p t) as H. unfold AVLTree.get_cost. lia.
Qed.

Lemma corder_bt_m : forall c, 3 <= corder c -> Z.of_nat (bt_m c) = corder c.
Proof. intros c H. unfold bt_m. lia. Qed.

Theorem oracle_vector_ginv : forall c lvl s, MI.config_ok c -> MI.ginv c s ->
  oracle_vector c (observe c lvl s) = [].
Proof.
  intros c lvl s Hc Hi. destruct (judged (ckind c)) eqn:Hj; [|apply oracle_vector_unjudged; exact Hj].
  unfold MI.ginv in Hi. destruct (ckind c) eqn:K; try discriminate Hj.
  - (* TreeSet *)
    unfold MI.SP.set_inv in Hi. rewrite K in Hi. destruct s as [l0|l0|tbl0 ord0|t n|t n|r n|h0|r0|m0|tbl0 ord0|f0 i0|f0 fn0 i0 inn0|]; try contradiction.
    destruct Hi as (Hrb & Hb & Hn). rewrite (oracle_vector_treeset c lvl _ _ K).
    apply rb_tree_codes; assumption.
  - (* TreeMap *)
    unfold MI.MM.minv, MI.MM.Generic.inv in Hi. rewrite K in Hi. destruct s as [l0|l0|tbl0 ord0|t n|t n|r n|h0|r0|m0|tbl0 ord0|f0 i0|f0 fn0 i0 inn0|]; try contradiction.
    rewrite (oracle_vector_treemap c lvl _ _ K). eapply rbI_codes. exact Hi.
  - (* TreeBidiMap *)
    destruct Hi as (f & fn & i & inn & -> & (HF & HI & HB)). cbn [fst snd] in *.
    rewrite (oracle_vector_bidi c lvl _ _ _ _ K). apply app_nil_iff. split; [eapply rbI_codes; exact HF|].
    destruct HF as (_ & _ & HFn). destruct HI as (Hrb & Hb & _). cbn [fst snd] in *.
    apply rb_tree_codes; [exact Hrb|exact Hb|]. rewrite HFn, RBMap.count_inorder. f_equal.
    exact (MI.binv_length (kc c) (vc c) (MI.kc_SWO c) (MI.vc_SWO c) _ _ HB).
  - (* RedBlackTree *)
    unfold MI.MM.minv, MI.MM.Generic.inv in Hi. rewrite K in Hi. destruct s as [l0|l0|tbl0 ord0|t n|t n|r n|h0|r0|m0|tbl0 ord0|f0 i0|f0 fn0 i0 inn0|]; try contradiction.
    rewrite (oracle_vector_rbtree c lvl _ _ K). apply app_nil_iff. split; [eapply rbI_codes; exact Hi|].
    destruct (MT.rbI_shape _ _ _ Hi) as [Hrb ->]. apply rb_get_costs_ok. exact Hrb.
  - (* AVLTree *)
    unfold MI.MM.minv, MI.MM.Generic.inv in Hi. rewrite K in Hi. destruct s as [l0|l0|tbl0 ord0|t n|t n|r n|h0|r0|m0|tbl0 ord0|f0 i0|f0 fn0 i0 inn0|]; try contradiction.
    destruct Hi as (Ha & Hb & Hn). rewrite <- AVLMap.count_inorder in Hn. subst n.
    rewrite (oracle_vector_avl c lvl _ _ K). apply app_nil_iff.
    split; [apply avl_codes_model; assumption|apply avl_get_costs_ok; exact Ha].
  - (* BTree *)
    assert (Ho : 3 <= corder c) by (apply Hc; exact K).
    pose proof (MT.bt_valid_m c Ho) as Hm.
    unfold MI.MM.minv, MI.MM.Generic.inv in Hi. rewrite K in Hi. destruct s as [l0|l0|tbl0 ord0|t n|t n|r n|h0|r0|m0|tbl0 ord0|f0 i0|f0 fn0 i0 inn0|]; try contradiction.
    destruct Hi as ([Hinv Hsr] & Hn). rewrite <- MT.bt_count_inorder in Hn. subst n.
    rewrite (oracle_vector_bt c lvl _ _ K). apply app_nil_iff. split; [apply bt_codes_model; assumption|].
    apply cost_codes_model. intros p _. rewrite <- (corder_bt_m c Ho). apply bt_cost_ok_nat; [exact Hm|].
    cbn [MT.get_cost_of].
    apply (MT.bt_cost_bounds (bt_m c) (kc c) (bt_fuel r) p (p, 0) r Hm Hinv).
  - (* BinaryHeap *)
    destruct Hi as (l & -> & Hh). rewrite (oracle_vector_heap c lvl l (or_introl K)).
    apply heap_codes_model. exact Hh.
  - (* PriorityQueue *)
    destruct Hi as (l & -> & Hh). rewrite (oracle_vector_heap c lvl l (or_intror K)).
    apply heap_codes_model. exact Hh.
Qed.

(* a container whose constructor panicked stays crashed *)
Lemma run_from_crash : forall c ops, run_from c StCrash ops = StCrash.
Proof. intros c ops. induction ops as [|o ops IH]; [reflexivity|]. exact IH. Qed.

Lemma config_ok_dec : forall c, {MI.config_ok c} + {init c = StCrash}.
Proof.
  intros c. unfold MI.config_ok, init. destruct (ckind c) eqn:K;
    try (left; split; intros E; discriminate E).
  - destruct (corder c <? 3) eqn:E; [right; reflexivity|left].
    apply Z.ltb_ge in E. split; intros E'; [exact E|discriminate E'].
  - destruct (ccap c <? 1) eqn:E; [right; reflexivity|left].
    apply Z.ltb_ge in E. split; intros E'; [discriminate E'|exact E].
Qed.

(* THE HEADLINE: whatever the configuration, the operations and the observation level, the oracle
   reports nothing on the machine's observation vector. *)
Theorem oracle_vector_model : forall c ops lvl,
  oracle_vector c (observe c lvl (run c ops)) = [].
Proof.
  intros c ops lvl. destruct (config_ok_dec c) as [Hc|Hcr].
  - apply oracle_vector_ginv; [exact Hc|]. apply MI.run_ginv. exact Hc.
  - unfold run. rewrite Hcr, run_from_crash. reflexivity.
Qed.

(* ---------- the cost line of one operation ---------- *)
Definition is_put (o : op) : bool := match o with Put _ _ => true | _ => false end.
Definition is_remove (o : op) : bool := match o with Remove _ => true | _ => false end.

Ltac crush_match :=
  repeat match goal with
         | |- context [match ?x with _ => _ end] => destruct x
         end; reflexivity.

(* only Put and Remove ever report a comparator-call count *)
Lemma step_cost_other : forall c s o, is_put o = false -> is_remove o = false ->
  snd (step c s o) = onone.
Proof.
  intros c s o Hp Hr. destruct o; try discriminate Hp; try discriminate Hr; clear Hp Hr;
    unfold step, pure; destruct s; try reflexivity.
  all: crush_match.
Qed.

Lemma oracle_cost_op_trivial : forall c b n x, (forall n' q, cost_bound_ok c n' q = true) ->
  oracle_cost_op c b n x = [].
Proof.
  intros c b n x H. unfold oracle_cost_op. destruct x as [z|[|[q|l] [|y l']]]; try reflexivity.
  rewrite H. reflexivity.
Qed.

Lemma oracle_cost_op_cost : forall c b n q, cost_bound_ok c n (Z.of_nat q) = true ->
  oracle_cost_op c b n (cost q) = [].
Proof. intros c b n q H. unfold cost, oracle_cost_op. rewrite H. reflexivity. Qed.

Lemma oracle_cost_op_onone : forall c b n, oracle_cost_op c b n onone = [].
Proof. reflexivity. Qed.

Definition cost_judged (k : kind) : bool :=
  match k with RedBlackTree | AVLTree | BTree => true | _ => false end.

(* The strict reading: the bound at n = Size() BEFORE the operation holds for Put as well as for
   Remove, so the verdict is [] whatever is_put flag the caller passes. *)
Theorem oracle_cost_ginv : forall c s o b, MI.config_ok c -> MI.ginv c s ->
  oracle_cost_op c b (size_of c s) (snd (step c s o)) = [].
Proof.
  intros c s o b Hc Hi.
  destruct (is_put o) eqn:Hp; [|destruct (is_remove o) eqn:Hr;
    [|rewrite (step_cost_other c s o Hp Hr); reflexivity]].
  - (* Put *)
    destruct o; try discriminate Hp. clear Hp.
    match goal with |- context [step c s (Put ?a ?b)] => rename a into k; rename b into v end.
    destruct (cost_judged (ckind c)) eqn:Hj;
      [|apply oracle_cost_op_trivial; intros n' q; unfold cost_bound_ok;
        destruct (ckind c); try discriminate Hj; reflexivity].
    unfold MI.ginv in Hi. destruct (ckind c) eqn:K; try discriminate Hj;
      unfold MI.MM.minv, MI.MM.Generic.inv in Hi; rewrite K in Hi; destruct s as [l0|l0|tbl0 ord0|t n|t n|r n|h0|r0|m0|tbl0 ord0|f0 i0|f0 fn0 i0 inn0|]; try contradiction.
    + destruct (MT.rbI_shape _ _ _ Hi) as [Hrb ->]. unfold step. rewrite K.
      destruct (rbs_put (kc c) k v (t, Z.of_nat (RB.count t))) as [[t' n']|]; [|reflexivity].
      cbn [snd size_of]. apply oracle_cost_op_cost. unfold cost_bound_ok. rewrite K.
      apply rb_cost_ok_nat. destruct (MT.rb_cost_bounds (kc c) k t Hrb) as (H & _). lia.
    + destruct Hi as (Ha & _ & Hn). rewrite <- AVLMap.count_inorder in Hn. subst n. unfold step.
      destruct (avl_put (kc c) k v t (Z.of_nat (AVL.count t))) as [[t' n']|]; [|reflexivity].
      cbn [snd size_of]. apply oracle_cost_op_cost. unfold cost_bound_ok. rewrite K.
      apply avl_cost_ok_height; [exact Ha|].
      pose proof (AVLBounds.lookup_cost_height (kc c) k t) as H. unfold AVL.put_cost. lia.
    + assert (Ho : 3 <= corder c) by (apply Hc; exact K). pose proof (MT.bt_valid_m c Ho) as Hm.
      destruct Hi as ([Hinv _] & Hn). rewrite <- MT.bt_count_inorder in Hn. subst n. unfold step.
      destruct (bt_put (bt_m c) (kc c) k v r (Z.of_nat (MT.bt_count r))) as [[r' n']|]; [|reflexivity].
      cbn [snd size_of]. apply oracle_cost_op_cost. unfold cost_bound_ok. rewrite K.
      rewrite <- (corder_bt_m c Ho). apply bt_cost_ok_nat; [exact Hm|].
      apply (MT.bt_cost_bounds (bt_m c) (kc c) (bt_fuel r) k (k, v) r Hm Hinv).
  - (* Remove *)
    destruct o; try discriminate Hr. clear Hp Hr.
    match goal with |- context [step c s (Remove ?a)] => rename a into k end.
    destruct (cost_judged (ckind c)) eqn:Hj;
      [|apply oracle_cost_op_trivial; intros n' q; unfold cost_bound_ok;
        destruct (ckind c); try discriminate Hj; reflexivity].
    unfold MI.ginv in Hi. destruct (ckind c) eqn:K; try discriminate Hj;
      unfold MI.MM.minv, MI.MM.Generic.inv in Hi; rewrite K in Hi; destruct s as [l0|l0|tbl0 ord0|t n|t n|r n|h0|r0|m0|tbl0 ord0|f0 i0|f0 fn0 i0 inn0|]; try contradiction.
    + destruct (MT.rbI_shape _ _ _ Hi) as [Hrb ->]. unfold step. rewrite K.
      destruct (rbs_remove (kc c) k (t, Z.of_nat (RB.count t))) as [[t' n']|]; [|reflexivity].
      cbn [snd size_of]. apply oracle_cost_op_cost. unfold cost_bound_ok. rewrite K.
      apply rb_cost_ok_nat. destruct (MT.rb_cost_bounds (kc c) k t Hrb) as (_ & H & _). lia.
    + destruct Hi as (Ha & _ & Hn). rewrite <- AVLMap.count_inorder in Hn. subst n. unfold step.
      destruct (avl_remove (kc c) k t (Z.of_nat (AVL.count t))) as [[t' n']|]; [|reflexivity].
      cbn [snd size_of]. apply oracle_cost_op_cost. unfold cost_bound_ok. rewrite K.
      apply avl_cost_ok_height; [exact Ha|].
      pose proof (AVLBounds.lookup_cost_height (kc c) k t) as H. unfold AVL.remove_cost. lia.
    + assert (Ho : 3 <= corder c) by (apply Hc; exact K). pose proof (MT.bt_valid_m c Ho) as Hm.
      destruct Hi as ([Hinv _] & Hn). rewrite <- MT.bt_count_inorder in Hn. subst n. unfold step.
      destruct (bt_remove (bt_m c) (kc c) k r (Z.of_nat (MT.bt_count r))) as [[r' n']|]; [|reflexivity].
      cbn [snd size_of]. apply oracle_cost_op_cost. unfold cost_bound_ok. rewrite K.
      rewrite <- (corder_bt_m c Ho). apply bt_cost_ok_nat; [exact Hm|].
      apply (MT.bt_cost_bounds (bt_m c) (kc c) (bt_fuel r) k (k, 0) r Hm Hinv).
Qed.

(* THE HEADLINE for the X line: for every configuration, every history and every next operation, the
   verdict on the cost the machine reports is [] -- with either value of the is_put flag (so both
   for oracle_cost_op and for the lenient oracle_cost). *)
Theorem oracle_cost_model_strict : forall c ops o b,
  oracle_cost_op c b (size_of c (run c ops)) (snd (step c (run c ops) o)) = [].
Proof.
  intros c ops o b. destruct (config_ok_dec c) as [Hc|Hcr].
  - apply oracle_cost_ginv; [exact Hc|]. apply MI.run_ginv. exact Hc.
  - unfold run. rewrite Hcr, run_from_crash. reflexivity.
Qed.

Theorem oracle_cost_model : forall c ops o s' r x, step c (run c ops) o = (s', r, x) ->
  oracle_cost_op c (is_put o) (size_of c (run c ops)) x = [] /\
  oracle_cost c (size_of c (run c ops)) x = [].
Proof.
  intros c ops o s' r x E.
  pose proof (oracle_cost_model_strict c ops o) as H. rewrite E in H. cbn [snd] in H.
  split; [apply H|apply (H true)].
Qed.

(* ================================================================================================ *)
(* 7. the property's exact numeric bounds, for every reachable state                                *)
(* ================================================================================================ *)
(* the verdict [] on a cost q means exactly the real-valued bound of the property, in integers *)
Theorem cost_bound_ok_model : forall c ops o q,
  snd (step c (run c ops) o) = OL [OZ q] ->
  cost_bound_ok c (size_of c (run c ops)) q = true.
Proof.
  intros c ops o q E. pose proof (oracle_cost_model_strict c ops o false) as H.
  rewrite E in H. unfold oracle_cost_op in H. cbn [andb] in H. rewrite orb_false_r in H.
  apply flag_nil in H. exact H.
Qed.

Definition stepcost (c : config) (s : state) (o : op) : obs := snd (step c s o).

Theorem rb_cost_exact : forall c ops o q, ckind c = RedBlackTree ->
  stepcost c (run c ops) o = OL [OZ q] ->
  let n := size_of c (run c ops) in
  0 <= n /\ (q < 2 \/ 2 ^ (q - 2) <= (n + 1) ^ 2).
Proof.
  intros c ops o q K E n. apply rb_cost_ok_spec.
  pose proof (cost_bound_ok_model c ops o q E) as H. unfold cost_bound_ok in H. rewrite K in H. exact H.
Qed.

Theorem avl_cost_exact : forall c ops o q, ckind c = AVLTree ->
  stepcost c (run c ops) o = OL [OZ q] ->
  let n := size_of c (run c ops) in
  0 <= n /\ (q < 2 \/ 2 ^ (20 * (q - 2)) <= (n + 2) ^ 29).
Proof.
  intros c ops o q K E n. apply avl_cost_ok_spec.
  pose proof (cost_bound_ok_model c ops o q E) as H. unfold cost_bound_ok in H. rewrite K in H. exact H.
Qed.

Theorem bt_cost_exact : forall c ops o q, ckind c = BTree ->
  stepcost c (run c ops) o = OL [OZ q] ->
  let n := size_of c (run c ops) in let m := corder c in
  0 <= n /\ 3 <= m /\
  exists L, 0 <= L /\ ((m + 1) / 2) ^ L <= n + 1 < ((m + 1) / 2) ^ (L + 1) /\
            q <= 4 * (Z.log2 m + 1) * (L + 1).
Proof.
  intros c ops o q K E n m.
  pose proof (cost_bound_ok_model c ops o q E) as H. unfold cost_bound_ok in H. rewrite K in H.
  pose proof H as H'. apply bt_cost_ok_spec in H'. destruct H' as (Hn & Hm & _).
  split; [exact Hn|]. split; [exact Hm|]. apply (bt_cost_ok_meaning m n q Hn Hm). exact H.
Qed.

(* the Get costs printed in TCost, entry by entry *)
Theorem get_costs_model : forall c ops lvl o, MT.cost_kind (ckind c) = true ->
  In (TCost, o) (observe c lvl (run c ops)) ->
  exists qs, o = ozs qs /\ forall q, In q qs -> cost_bound_ok c (size_of c (run c ops)) q = true.
Proof.
  intros c ops lvl o Hk Hin.
  destruct (config_ok_dec c) as [Hc|Hcr];
    [|unfold run in Hin; rewrite Hcr, run_from_crash in Hin; destruct Hin as [Hin|[]]; discriminate Hin].
  assert (Ho : ckind c = BTree -> 3 <= corder c) by apply Hc.
  pose proof (MT.run_tinv c ops (MT.cost_kind_tvalid c Hk Ho)) as Hi.
  pose proof (MT.observe_tcost_only c lvl _ o Hk Hi Hin) as ->.
  exists (map Z.of_nat (MT.get_costs c (run c ops))). split; [reflexivity|].
  intros q Hq. apply in_map_iff in Hq. destruct Hq as (qn & <- & Hq).
  unfold MT.get_costs in Hq. apply in_map_iff in Hq. destruct Hq as (p & <- & _).
  pose proof (MT.get_cost_bound c (run c ops) p Hk Ho Hi) as Hb.
  pose proof (MI.C15_nonneg c ops Hc) as Hnn.
  unfold MT.nsize in Hb. remember (size_of c (run c ops)) as n eqn:En.
  rewrite <- (Z2Nat.id n Hnn). clear En.
  unfold MT.cost_bound in Hb. unfold cost_bound_ok.
  destruct (ckind c) eqn:K; try discriminate Hk.
  - apply rb_cost_ok_nat. lia.
  - apply avl_cost_ok_fib. apply Hb.
  - rewrite <- (corder_bt_m c (Ho eq_refl)). apply bt_cost_ok_nat; [apply MT.bt_valid_m; exact (Ho eq_refl)|exact Hb].
Qed.

Print Assumptions fib_pow_tight.
Print Assumptions avl_height_tight.
Print Assumptions oracle_vector_model.
Print Assumptions oracle_cost_model.
Print Assumptions get_costs_model.

(* ================================================================================================ *)
(* 8. the shape checkers, kind by kind, on the structure the machine prints                         *)
(* ================================================================================================ *)
Theorem rb_shape_model : forall c ops t n, MT.rb_kind (ckind c) = true -> run c ops = StRB t n ->
  rb_of (rb_shape t) = Some t /\
  rb_shape_ok (kc c) (size_of c (run c ops)) (rb_shape t) = true.
Proof.
  intros c ops t n Hk R. split; [apply rb_of_shape|].
  pose proof (oracle_vector_model c ops 0) as H. rewrite R in H |- *. cbn [size_of].
  apply rb_codes_nil. destruct (ckind c) eqn:K; try discriminate Hk.
  - rewrite (oracle_vector_treeset c 0 t n K) in H. exact H.
  - rewrite (oracle_vector_treemap c 0 t n K) in H. exact H.
  - rewrite (oracle_vector_rbtree c 0 t n K) in H. apply app_nil_iff in H. apply H.
Qed.

(* TreeBidiMap: the forward tree under the key comparator, the inverse tree under the value
   comparator, BOTH with exactly Size() nodes *)
Theorem bidi_shape_model : forall c ops f fn i inn, ckind c = TreeBidiMap -> run c ops = StTBidi f fn i inn ->
  rb_shape_ok (kc c) (size_of c (run c ops)) (rb_shape f) = true /\
  rb_shape_ok (vc c) (size_of c (run c ops)) (rb_shape i) = true.
Proof.
  intros c ops f fn i inn K R.
  pose proof (oracle_vector_model c ops 0) as H. rewrite R in H |- *. cbn [size_of].
  rewrite (oracle_vector_bidi c 0 f fn i inn K) in H. apply app_nil_iff in H.
  split; apply rb_codes_nil; apply H.
Qed.

Theorem avl_shape_model : forall c ops t n, ckind c = AVLTree -> run c ops = StAVL t n ->
  avl_of (avl_shape t) = Some t /\
  avl_shape_ok (kc c) (size_of c (run c ops)) (avl_shape t) = true.
Proof.
  intros c ops t n K R. split; [apply avl_of_shape|].
  pose proof (oracle_vector_model c ops 0) as H. rewrite R in H |- *. cbn [size_of].
  rewrite (oracle_vector_avl c 0 t n K) in H. apply app_nil_iff in H.
  apply avl_codes_nil. apply H.
Qed.

(* B-tree: shape, order, count and the printed Height() (no hypothesis on the order: below 3 the
   constructor crashed and no state [StBT] is reachable) *)
Theorem bt_shape_model : forall c ops r n, ckind c = BTree -> run c ops = StBT r n ->
  (forall root, r = Some root -> bt_of (bt_shape root) = Some root) /\
  bt_shape_ok (bt_m c) (kc c) (size_of c (run c ops)) (bt_height_opt r) (bt_shape_opt r) = true.
Proof.
  intros c ops r n K R. split; [intros root _; apply bt_of_shape|].
  pose proof (oracle_vector_model c ops 0) as H. rewrite R in H |- *. cbn [size_of].
  rewrite (oracle_vector_bt c 0 r n K) in H. apply app_nil_iff in H.
  apply bt_codes_nil. apply H.
Qed.

Theorem heap_raw_model : forall c ops l, (ckind c = BinaryHeap \/ ckind c = PriorityQueue) ->
  run c ops = StHeap l ->
  zs_of (ozs l) = Some l /\ heap_raw_ok (kc c) (ozs l) = true /\ size_of c (run c ops) = Z.of_nat (length l).
Proof.
  intros c ops l K R. split; [apply zs_of_ozs|].
  pose proof (oracle_vector_model c ops 0) as H. rewrite R in H |- *.
  rewrite (oracle_vector_heap c 0 l K) in H. apply heap_codes_nil in H.
  split; [apply H|reflexivity].
Qed.

Print Assumptions rb_shape_model.
Print Assumptions bidi_shape_model.
Print Assumptions avl_shape_model.
Print Assumptions bt_shape_model.
Print Assumptions heap_raw_model.
