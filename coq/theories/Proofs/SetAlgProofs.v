(* Property C13 (set algebra of HashSet, TreeSet, LinkedHashSet): Intersection / Union / Difference.
   All real proof work for Properties/C13.v.  Lemma names of the shared part carry the prefix [sa_]. *)
From Coq Require Import ZArith List Lia Bool Arith Sorted Permutation SetoidList SetoidPermutation.
From Gods Require Import Common.Cmp Common.ListAux Spec.SeqSpec Spec.MapSpec Spec.SetSpec
  Model.Ops Model.Lists Model.Machine Proofs.RBInv Proofs.RBMap Proofs.SetsProofs.
Import ListNotations.
Local Open Scope Z_scope.

(* ================================================================================== *)
(* Key lists under an arbitrary strict weak order                                       *)
(* ================================================================================== *)

(* strictly ascending under cmp *)
Definition sasc (cmp : cmpf) (l : list Z) : Prop := StronglySorted (fun u v => cmp u v = Lt) l.

(* insert a sequence of elements (unit value 0), one at a time, into a sorted association list *)
Definition ins_all (cmp : cmpf) (vs : list Z) (l : list (Z * Z)) : list (Z * Z) :=
  fold_left (fun acc x => ins_list cmp x 0 acc) vs l.

Lemma sa_sasc_filter cmp f l : sasc cmp l -> sasc cmp (filter f l).
Proof.
  unfold sasc. induction 1 as [|a l Hs IH Hall]; cbn [filter]; [constructor|].
  destruct (f a); [|assumption]. constructor; [assumption|].
  rewrite Forall_forall in *. intros x Hx. apply filter_In in Hx. apply Hall. tauto.
Qed.

Lemma sa_zasc_sasc l : zasc l <-> sasc Z.compare l.
Proof.
  unfold zasc, sasc. split; induction 1 as [|a l Hs IH Hall]; constructor; assumption.
Qed.

Lemma sa_ksorted_emb cmp l : sasc cmp l <-> ksorted cmp (emb l).
Proof.
  unfold sasc, ksorted, emb. split.
  - induction 1 as [|a l Hs IH Hall]; cbn [map]; constructor; [assumption|].
    rewrite Forall_map. cbn. exact Hall.
  - induction l as [|a l IH]; intros H; [constructor|].
    cbn [map] in H. inversion H as [|x y Hs Hall]; subst. constructor; [auto|].
    rewrite Forall_map in Hall. cbn in Hall. exact Hall.
Qed.

Lemma sa_emb_app l1 l2 : emb (l1 ++ l2) = emb l1 ++ emb l2.
Proof. unfold emb. apply map_app. Qed.

Lemma sa_eqvb_app cmp x l1 l2 : eqvb cmp x (l1 ++ l2) = eqvb cmp x l1 || eqvb cmp x l2.
Proof. unfold eqvb. apply existsb_app. Qed.

Lemma sa_eqvb_InA cmp x l : eqvb cmp x l = true <-> InA (fun a b => cmp a b = Eq) x l.
Proof.
  unfold eqvb. split.
  - intros H. apply existsb_exists in H. destruct H as (y & H1 & H2).
    apply InA_alt. exists y. split; [|assumption]. destruct (cmp x y); try discriminate. reflexivity.
  - intros H. apply InA_alt in H. destruct H as (y & H1 & H2).
    apply existsb_exists. exists y. split; [assumption|]. rewrite H1. reflexivity.
Qed.

Lemma sa_eqvb_keys cmp x (l : list (Z * Z)) : eqvb cmp x (map fst l) = mem_list cmp x l.
Proof.
  rewrite sp_mem_existsb. unfold eqvb. induction l as [|a l IH]; [reflexivity|].
  cbn [map existsb]. rewrite IH. reflexivity.
Qed.

Lemma sa_eqvb_Zcompare x l : eqvb Z.compare x l = smem x l.
Proof. symmetry. apply sp_smem_eqvb. Qed.

Section Keys.
Variable cmp : cmpf.
Hypothesis Hswo : SWO cmp.

Lemma sa_eqvb_congr x y l : cmp x y = Eq -> eqvb cmp x l = eqvb cmp y l.
Proof.
  intros H. unfold eqvb. induction l as [|z l IH]; [reflexivity|].
  cbn [existsb]. rewrite IH, (swo_eq_l _ Hswo x y z H). reflexivity.
Qed.

(* filtering by a predicate that does not distinguish equivalent elements *)
Lemma sa_eqvb_filter f x l : (forall u v, cmp u v = Eq -> f u = f v) ->
  eqvb cmp x (filter f l) = eqvb cmp x l && f x.
Proof.
  intros Hf. induction l as [|a l IH]; [reflexivity|].
  cbn [filter]. destruct (f a) eqn:Fa; unfold eqvb in *; cbn [existsb]; rewrite IH.
  - destruct (cmp x a) eqn:E; cbn [is_eq orb]; try reflexivity.
    rewrite (Hf x a E), Fa. reflexivity.
  - destruct (cmp x a) eqn:E; cbn [is_eq orb]; try reflexivity.
    rewrite (Hf x a E), Fa. rewrite andb_false_r. reflexivity.
Qed.

Lemma sa_mem_congr x y (l : list (Z * Z)) : cmp x y = Eq -> mem_list cmp x l = mem_list cmp y l.
Proof. intros H. rewrite <- !sa_eqvb_keys. apply sa_eqvb_congr. assumption. Qed.

(* a strictly ascending list is pairwise inequivalent *)
Lemma sa_sasc_NoDupA l : sasc cmp l -> NoDupA (fun a b => cmp a b = Eq) l.
Proof. apply sp_sorted_NoDupA. Qed.

(* inserting a strictly ascending run above everything already there appends it *)
Lemma sa_ins_all_sorted vs : forall acc, ksorted cmp (acc ++ emb vs) -> ins_all cmp vs acc = acc ++ emb vs.
Proof.
  unfold ins_all. induction vs as [|v vs IH]; intros acc Hs.
  - cbn. rewrite app_nil_r. reflexivity.
  - cbn [fold_left]. cbn [emb map] in Hs. fold (emb vs) in Hs.
    destruct (ksorted_app_inv _ _ _ _ Hs) as (S1 & S2 & A1 & A2). cbn [fst] in A1, A2.
    assert (Hb : below cmp v acc).
    { apply (all_lt_below cmp Hswo acc v v A1). rewrite (swo_refl _ Hswo). discriminate. }
    assert (E : ins_list cmp v 0 acc = acc ++ [(v, 0)]).
    { pose proof (ins_list_below cmp v 0 acc [] Hb) as E0. rewrite app_nil_r in E0. exact E0. }
    rewrite E. rewrite IH.
    + rewrite <- app_assoc. reflexivity.
    + rewrite <- app_assoc. exact Hs.
Qed.

Lemma sa_ins_all_nil vs : sasc cmp vs -> ins_all cmp vs [] = emb vs.
Proof. intros H. apply (sa_ins_all_sorted vs []). cbn. apply sa_ksorted_emb. assumption. Qed.

Lemma sa_ins_all_ksorted vs : forall l, ksorted cmp l -> ksorted cmp (ins_all cmp vs l).
Proof.
  unfold ins_all. induction vs as [|v vs IH]; intros l Hs; [assumption|].
  cbn [fold_left]. apply IH. apply ins_list_sorted; assumption.
Qed.

Lemma sa_mem_ins_all x vs : forall l, mem_list cmp x (ins_all cmp vs l) = eqvb cmp x vs || mem_list cmp x l.
Proof.
  unfold ins_all. induction vs as [|v vs IH]; intros l; [reflexivity|].
  cbn [fold_left]. rewrite IH, (sp_mem_ins _ Hswo). unfold eqvb. cbn [existsb].
  destruct (is_eq (cmp x v)), (existsb (fun y => is_eq (cmp x y)) vs), (mem_list cmp x l); reflexivity.
Qed.

(* re-inserting an entry that is already stored changes nothing *)
Lemma sa_ins_list_present k v l : ksorted cmp l -> In (k, v) l -> ins_list cmp k v l = l.
Proof.
  induction l as [|[k' v'] l IH]; intros Hs Hin; [contradiction|].
  destruct (ksorted_cons_inv _ _ _ Hs) as [Hs' Hgt]. cbn [fst] in Hgt.
  cbn [ins_list]. destruct Hin as [E|Hin].
  - inversion E; subst. rewrite (swo_refl _ Hswo). reflexivity.
  - assert (Hlt : cmp k' k = Lt).
    { unfold all_gt in Hgt. rewrite Forall_forall in Hgt. apply (Hgt (k, v) Hin). }
    rewrite (swo_sym _ Hswo k' k), Hlt. cbn [CompOpp]. f_equal. apply IH; assumption.
Qed.

Lemma sa_ins_all_present vs l : ksorted cmp l -> (forall v, In v vs -> In (v, 0) l) -> ins_all cmp vs l = l.
Proof.
  unfold ins_all. induction vs as [|v vs IH]; intros Hs Hin; [reflexivity|].
  cbn [fold_left]. rewrite sa_ins_list_present; [|assumption|apply Hin; left; reflexivity].
  apply IH; [assumption|]. intros w Hw. apply Hin. right. assumption.
Qed.

(* which stored representative survives: the inserted ones (pairwise inequivalent) win over the old ones *)
Lemma sa_In_ins_all vs : NoDupA (fun a b => cmp a b = Eq) vs -> forall l e, ksorted cmp l ->
  (In e (ins_all cmp vs l) <-> (In (fst e) vs /\ snd e = 0) \/ (In e l /\ eqvb cmp (fst e) vs = false)).
Proof.
  unfold ins_all. induction 1 as [|v vs Hnin Hnd IH]; intros l e Hs.
  - cbn. unfold eqvb. cbn. tauto.
  - cbn [fold_left]. rewrite IH by (apply ins_list_sorted; assumption).
    rewrite (sp_In_ins _ Hswo) by assumption.
    assert (Hv : eqvb cmp v vs = false).
    { destruct (eqvb cmp v vs) eqn:E; [|reflexivity]. apply sa_eqvb_InA in E. contradiction. }
    unfold eqvb in *. cbn [existsb In]. destruct e as [k w]. cbn [fst snd]. split.
    + intros [[H1 H2]|[[H1|[H1 H2]] H3]].
      * left. tauto.
      * inversion H1; subst. left. split; [left|]; reflexivity.
      * right. split; [assumption|]. rewrite H3, orb_false_r.
        destruct (cmp k v); try reflexivity. congruence.
    + intros [[[H1|H1] H2]|[H1 H2]].
      * subst. right. split; [left; reflexivity|assumption].
      * left. tauto.
      * apply orb_false_iff in H2. destruct H2 as [H2 H3]. right. split; [|assumption].
        right. split; [assumption|]. intros E. rewrite E in H2. discriminate.
Qed.

End Keys.

(* two strictly ascending integer lists with the same members are the same list *)
Lemma sa_zasc_ext : forall l1 l2, zasc l1 -> zasc l2 -> (forall x, In x l1 <-> In x l2) -> l1 = l2.
Proof.
  unfold zasc. induction l1 as [|x l1 IH]; intros l2 H1 H2 Hin.
  - destruct l2 as [|y l2]; [reflexivity|]. exfalso. apply (proj2 (Hin y)). left. reflexivity.
  - destruct l2 as [|y l2]; [exfalso; apply (proj1 (Hin x)); left; reflexivity|].
    inversion H1 as [|x' l1' S1 A1]; subst. inversion H2 as [|y' l2' S2 A2]; subst.
    rewrite Forall_forall in A1, A2.
    assert (Exy : x = y).
    { destruct (proj1 (Hin x) (or_introl eq_refl)) as [E|Hx]; [symmetry; assumption|].
      destruct (proj2 (Hin y) (or_introl eq_refl)) as [E|Hy]; [assumption|].
      apply A2 in Hx. apply A1 in Hy. lia. }
    subst y. f_equal. apply IH; try assumption.
    intros z. split; intros Hz.
    + destruct (proj1 (Hin z) (or_intror Hz)) as [E|Hz']; [|assumption]. apply A1 in Hz. lia.
    + destruct (proj2 (Hin z) (or_intror Hz)) as [E|Hz']; [|assumption]. apply A2 in Hz. lia.
Qed.

Lemma sa_smem_filter f x l : smem x (filter f l) = smem x l && f x.
Proof.
  rewrite <- !sa_eqvb_Zcompare. apply (sa_eqvb_filter Z.compare).
  intros u v E. apply Z.compare_eq in E. subst. reflexivity.
Qed.

Lemma sa_zasc_filter f l : zasc l -> zasc (filter f l).
Proof. rewrite !sa_zasc_sasc. apply sa_sasc_filter. Qed.

(* the Go-map-as-a-set insertion is the sorted-list insertion on the embedded list *)
Lemma sa_hs_adds_ins_all vs : forall l, emb (hs_adds vs l) = ins_all Z.compare vs (emb l).
Proof.
  unfold hs_adds, ins_all. induction vs as [|v vs IH]; intros l; [reflexivity|].
  cbn [fold_left]. rewrite IH, sp_emb_sadd. reflexivity.
Qed.

Lemma sa_emb_inj l1 l2 : emb l1 = emb l2 -> l1 = l2.
Proof. intros H. rewrite <- (sp_map_fst_emb l1), <- (sp_map_fst_emb l2), H. reflexivity. Qed.

Lemma sa_hs_adds_sorted vs acc : zasc (acc ++ vs) -> hs_adds vs acc = acc ++ vs.
Proof.
  intros H. apply sa_emb_inj. rewrite sa_hs_adds_ins_all, sa_emb_app.
  apply (sa_ins_all_sorted Z.compare sp_Zcompare_SWO).
  rewrite <- sa_emb_app. apply sp_emb_sorted. assumption.
Qed.

Lemma sa_zasc_app_inv l1 l2 : zasc (l1 ++ l2) -> zasc l1 /\ zasc l2 /\ forall x y, In x l1 -> In y l2 -> x < y.
Proof.
  unfold zasc. induction l1 as [|a l1 IH]; cbn [app]; intros H.
  - split; [constructor|]. split; [assumption|]. intros x y [].
  - inversion H as [|a' l' Hs Hall]; subst. destruct (IH Hs) as (S1 & S2 & Hlt).
    rewrite Forall_app in Hall. destruct Hall as [A1 A2]. rewrite Forall_forall in A2.
    split; [constructor; assumption|]. split; [assumption|].
    intros x y [->|Hx] Hy; [apply A2; assumption|apply Hlt; assumption].
Qed.

(* ================================================================================== *)
(* The three algebra operations as functions of the operands                            *)
(* ================================================================================== *)

Definition hs_op (o : alg) (a b : list Z) : list Z :=
  match o with AInter => hs_inter a b | AUnion => hs_union a b | ADiff => hs_diff a b end.
Definition ts_op (c : config) (o : alg) (a b : rbs) : state :=
  match o with AInter => ts_inter c a b | AUnion => ts_union c a b | ADiff => ts_diff c a b end.

(* the law: membership in the result as a function of membership in the operands *)
Definition alg_spec (o : alg) (p q : bool) : bool :=
  match o with AInter => p && q | AUnion => p || q | ADiff => p && negb q end.

(* the new set.  TreeSet: the very state the model builds (a fresh tree filled by Add).  The hash kinds:
   the model only keeps the member list of the result (compared as an ascending list, the Go order is
   unspecified); the corresponding container state is the one holding exactly this list. *)
Definition alg_result (c : config) (o : alg) (s other : state) : state :=
  match s, other with
  | StHSet a, StHSet b => StHSet (hs_op o a b)
  | StLSet a _, StLSet b _ => StLSet (hs_op o a b) (hs_op o a b)
  | StRB ta na, StRB tb nb => ts_op c o (ta, na) (tb, nb)
  | _, _ => StCrash
  end.

(* the canonical (ascending) member list of a set state: Values() for HashSet (canonical form) and
   TreeSet, the hash table for LinkedHashSet (a permutation of Values()) *)
Definition canon (c : config) (s : state) : list Z :=
  match s with StLSet tbl _ => tbl | _ => values_of c s end.

(* Contains(k) on a tree *)
Definition probe (cmp : cmpf) (t : RB.tree) (k : Z) : bool :=
  match RB.lookup cmp k t with Some _ => true | None => false end.

(* the TreeSet intersection that iterates x and probes y *)
Definition ts_inter_iter (c : config) (x y : rbs) : state :=
  add_values c (filter (probe (kc c) (fst y)) (RB.keys (fst x))) (init c).

Lemma ts_inter_pick c a b :
  ts_inter c a b = if snd a <=? snd b then ts_inter_iter c a b else ts_inter_iter c b a.
Proof. unfold ts_inter, ts_inter_iter. destruct (snd a <=? snd b); reflexivity. Qed.

(* ---------- building a TreeSet from a sequence ---------- *)
Lemma sa_puts_spec cmp vs : SWO cmp -> forall t n, tree_inv cmp t n ->
  exists t' n', rbs_puts cmp (emb vs) (t, n) = Some (t', n') /\ tree_inv cmp t' n' /\
    RBTree.inorder t' = ins_all cmp vs (RBTree.inorder t).
Proof.
  intros Hswo. unfold ins_all. induction vs as [|v vs IH]; intros t n Hinv.
  - exists t, n. split; [reflexivity|]. split; [assumption|]. reflexivity.
  - cbn [emb map rbs_puts fold_left]. fold (emb vs).
    destruct (sp_rbs_put_spec cmp v 0 t n Hswo Hinv) as (t1 & n1 & E1 & I1 & O1 & _). rewrite E1.
    destruct (IH t1 n1 I1) as (t2 & n2 & E2 & I2 & O2).
    exists t2, n2. split; [assumption|]. split; [assumption|]. rewrite O2, O1. reflexivity.
Qed.

Lemma sa_init_tree c : ckind c = TreeSet -> init c = StRB RB.E 0.
Proof. intros K. unfold init. rewrite K. reflexivity. Qed.

Lemma sa_ts_build c vs : ckind c = TreeSet ->
  exists t n, add_values c vs (init c) = StRB t n /\ tree_inv (kc c) t n /\
              RBTree.inorder t = ins_all (kc c) vs [].
Proof.
  intros K. rewrite (sa_init_tree c K). cbn [add_values]. fold (emb vs).
  destruct (sa_puts_spec (kc c) vs (sp_kc_SWO c) RB.E 0 (sp_tree_inv_E _)) as (t & n & E & I & O).
  rewrite E. exists t, n. split; [reflexivity|]. split; [assumption|]. exact O.
Qed.

Lemma sa_member_keys c t n x : bst (kc c) t -> member c (StRB t n) x = eqvb (kc c) x (RB.keys t).
Proof. intros Hb. rewrite member_tree by assumption. unfold tmem, RB.keys. symmetry. apply sa_eqvb_keys. Qed.

Lemma sa_probe_member c t n x : member c (StRB t n) x = probe (kc c) t x.
Proof. reflexivity. Qed.

Lemma sa_probe_congr c t u v : bst (kc c) t -> kc c u v = Eq -> probe (kc c) t u = probe (kc c) t v.
Proof.
  intros Hb E. rewrite <- !(sa_probe_member c t 0), !sa_member_keys by assumption.
  apply sa_eqvb_congr; [apply sp_kc_SWO|assumption].
Qed.

Lemma sa_keys_sasc c t : bst (kc c) t -> sasc (kc c) (RB.keys t).
Proof. intros Hb. unfold sasc, RB.keys. apply sp_keys_sorted. exact Hb. Qed.

(* loading a strictly ascending sequence into a fresh TreeSet stores exactly that sequence *)
Lemma sa_ts_build_sorted c vs : ckind c = TreeSet -> sasc (kc c) vs ->
  exists t n, add_values c vs (init c) = StRB t n /\ tree_inv (kc c) t n /\ RB.keys t = vs.
Proof.
  intros K Hs. destruct (sa_ts_build c vs K) as (t & n & E & I & O).
  exists t, n. split; [assumption|]. split; [assumption|].
  unfold RB.keys. rewrite O, (sa_ins_all_nil (kc c) (sp_kc_SWO c)) by assumption. apply sp_map_fst_emb.
Qed.

(* iterate x, keep the elements satisfying f (a predicate on equivalence classes), Add them to a fresh set *)
Lemma sa_ts_filter_spec c f tx nx : ckind c = TreeSet -> tree_inv (kc c) tx nx ->
  (forall u v, kc c u v = Eq -> f u = f v) ->
  exists t n, add_values c (filter f (RB.keys tx)) (init c) = StRB t n /\ tree_inv (kc c) t n /\
    RB.keys t = filter f (RB.keys tx) /\
    forall z, member c (StRB t n) z = member c (StRB tx nx) z && f z.
Proof.
  intros K Hinv Hf. pose proof Hinv as (_ & Hbx & _).
  destruct (sa_ts_build_sorted c (filter f (RB.keys tx)) K) as (t & n & E & I & Hk).
  { apply sa_sasc_filter, sa_keys_sasc. assumption. }
  exists t, n. split; [assumption|]. split; [assumption|]. split; [assumption|].
  intros z. rewrite !sa_member_keys by (first [apply I|assumption]). rewrite Hk.
  apply sa_eqvb_filter; assumption.
Qed.

Lemma sa_ts_inter_iter_spec c tx nx ty ny : ckind c = TreeSet ->
  tree_inv (kc c) tx nx -> tree_inv (kc c) ty ny ->
  exists t n, ts_inter_iter c (tx, nx) (ty, ny) = StRB t n /\ tree_inv (kc c) t n /\
    RB.keys t = filter (probe (kc c) ty) (RB.keys tx) /\
    forall z, member c (StRB t n) z = member c (StRB tx nx) z && member c (StRB ty ny) z.
Proof.
  intros K Hx Hy. unfold ts_inter_iter. cbn [fst].
  apply (sa_ts_filter_spec c (probe (kc c) ty) tx nx K Hx).
  intros u v E. apply sa_probe_congr; [apply Hy|assumption].
Qed.

Lemma sa_ts_diff_spec c ta na tb nb : ckind c = TreeSet ->
  tree_inv (kc c) ta na -> tree_inv (kc c) tb nb ->
  exists t n, ts_diff c (ta, na) (tb, nb) = StRB t n /\ tree_inv (kc c) t n /\
    RB.keys t = filter (fun k => negb (probe (kc c) tb k)) (RB.keys ta) /\
    forall z, member c (StRB t n) z = member c (StRB ta na) z && negb (member c (StRB tb nb) z).
Proof.
  intros K Ha Hb.
  assert (Ef : forall l, filter (fun k => match RB.lookup (kc c) k tb with Some _ => false | None => true end) l =
                         filter (fun k => negb (probe (kc c) tb k)) l).
  { intros l. apply filter_ext. intros k. unfold probe. destruct (RB.lookup (kc c) k tb); reflexivity. }
  unfold ts_diff. cbn [fst]. rewrite Ef.
  apply (sa_ts_filter_spec c (fun k => negb (probe (kc c) tb k)) ta na K Ha).
  intros u v E. f_equal. apply sa_probe_congr; [apply Hb|assumption].
Qed.

Lemma sa_ins_all_app cmp l1 l2 l : ins_all cmp (l1 ++ l2) l = ins_all cmp l2 (ins_all cmp l1 l).
Proof. unfold ins_all. apply fold_left_app. Qed.

Lemma sa_ts_union_spec c ta na tb nb : ckind c = TreeSet ->
  tree_inv (kc c) ta na -> tree_inv (kc c) tb nb ->
  exists t n, ts_union c (ta, na) (tb, nb) = StRB t n /\ tree_inv (kc c) t n /\
    RBTree.inorder t = ins_all (kc c) (RB.keys tb) (emb (RB.keys ta)) /\
    (forall z, member c (StRB t n) z = member c (StRB ta na) z || member c (StRB tb nb) z) /\
    (* the stored representatives: all of b's, and those of a with no equivalent in b *)
    (forall z, In z (RB.keys t) <-> In z (RB.keys tb) \/ (In z (RB.keys ta) /\ member c (StRB tb nb) z = false)).
Proof.
  intros K Ha Hb. pose proof Ha as (_ & Hba & _). pose proof Hb as (_ & Hbb & _).
  pose proof (sp_kc_SWO c) as Hswo.
  unfold ts_union. cbn [fst].
  destruct (sa_ts_build c (RB.keys ta ++ RB.keys tb) K) as (t & n & E & I & O).
  rewrite sa_ins_all_app, (sa_ins_all_nil (kc c) Hswo) in O by (apply sa_keys_sasc; assumption).
  exists t, n. split; [assumption|]. split; [assumption|]. split; [assumption|]. split.
  - intros z. rewrite (member_tree c t n z) by apply I. unfold tmem. rewrite O, (sa_mem_ins_all (kc c) Hswo).
    rewrite (sa_member_keys c ta na z Hba), (sa_member_keys c tb nb z Hbb).
    rewrite <- sa_eqvb_keys, sp_map_fst_emb. apply orb_comm.
  - intros z. unfold RB.keys at 1. rewrite O. rewrite (sa_member_keys c tb nb z Hbb). split.
    + intros Hin. apply in_map_iff in Hin. destruct Hin as (e & <- & He).
      apply (sa_In_ins_all (kc c) Hswo) in He;
        [|apply sa_sasc_NoDupA, sa_keys_sasc; assumption
         |apply sa_ksorted_emb, sa_keys_sasc; assumption].
      destruct He as [[H1 _]|[H1 H2]]; [left; assumption|]. right. split; [|assumption].
      rewrite <- (sp_map_fst_emb (RB.keys ta)). apply in_map. assumption.
    + intros H. apply in_map_iff. exists (z, 0). split; [reflexivity|].
      apply (sa_In_ins_all (kc c) Hswo);
        [apply sa_sasc_NoDupA, sa_keys_sasc; assumption
        |apply sa_ksorted_emb, sa_keys_sasc; assumption|].
      cbn [fst snd]. destruct H as [H|[H1 H2]]; [left; split; [assumption|reflexivity]|].
      right. split; [|assumption]. unfold emb. apply in_map_iff. exists z. split; [reflexivity|assumption].
Qed.

(* ---------- the hash kinds ---------- *)
Lemma sa_hs_op_spec o a b : zasc a -> zasc b ->
  zasc (hs_op o a b) /\ forall x, smem x (hs_op o a b) = alg_spec o (smem x a) (smem x b).
Proof.
  intros Ha Hb. destruct o; cbn [hs_op alg_spec].
  - unfold hs_inter. split; [apply sa_zasc_filter; assumption|]. intros x. apply sa_smem_filter.
  - unfold hs_union. fold (hs_adds (a ++ b) []).
    destruct (hs_adds_spec (a ++ b) [] (SSorted_nil _)) as [H1 H2]. split; [assumption|].
    intros x. rewrite H2, sa_eqvb_app, !sa_eqvb_Zcompare. cbn [smem existsb]. apply orb_false_r.
  - unfold hs_diff. split; [apply sa_zasc_filter; assumption|]. intros x.
    apply (sa_smem_filter (fun y => negb (smem y b))).
Qed.

(* ---------- the invariant determines the shape of the state ---------- *)
Lemma sa_inv_hash c s : ckind c = HashSet -> set_inv c s -> exists l, s = StHSet l /\ zasc l.
Proof. unfold set_inv. intros K H. rewrite K in H. destruct s; try contradiction. eauto. Qed.
Lemma sa_inv_linked c s : ckind c = LinkedHashSet -> set_inv c s ->
  exists tbl ord, s = StLSet tbl ord /\ lset_inv tbl ord.
Proof. unfold set_inv. intros K H. rewrite K in H. destruct s; try contradiction. eauto. Qed.
Lemma sa_inv_tree c s : ckind c = TreeSet -> set_inv c s -> exists t n, s = StRB t n /\ tree_inv (kc c) t n.
Proof. unfold set_inv. intros K H. rewrite K in H. destruct s; try contradiction. eauto. Qed.

Lemma sa_inv_kind c s : set_inv c s -> ckind c = HashSet \/ ckind c = TreeSet \/ ckind c = LinkedHashSet.
Proof. unfold set_inv. destruct (ckind c); try contradiction; tauto. Qed.

Lemma sa_lset_inv_self r : zasc r -> lset_inv r r.
Proof. intros H. split; [assumption|]. split; [apply sp_zasc_NoDup; assumption|]. intros z. tauto. Qed.

(* ================================================================================== *)
(* The core: any two states satisfying the set invariant (every reachable state does)   *)
(* ================================================================================== *)
Theorem alg_core c o a b : set_inv c a -> set_inv c b ->
  let res := alg_result c o a b in
  set_algebra c o a b = content_obs c res /\
  content_obs c res = ozs (values_of c res) /\
  set_inv c res /\
  (forall x, member c res x = alg_spec o (member c a x) (member c b x)) /\
  sasc (set_cmp c) (values_of c res) /\
  canon c res = values_of c res.
Proof.
  intros Ia Ib res. destruct (sa_inv_kind c a Ia) as [K|[K|K]].
  - (* HashSet *)
    destruct (sa_inv_hash c a K Ia) as (la & -> & Ha). destruct (sa_inv_hash c b K Ib) as (lb & -> & Hb).
    destruct (sa_hs_op_spec o la lb Ha Hb) as [H1 H2].
    subst res. cbn [alg_result set_algebra content_obs values_of member canon]. rewrite K. cbn [is_kv].
    split; [destruct o; reflexivity|]. split; [reflexivity|].
    split; [unfold set_inv; rewrite K; exact H1|]. split; [exact H2|]. split; [|reflexivity].
    unfold set_cmp. rewrite K. apply sa_zasc_sasc. exact H1.
  - (* TreeSet *)
    destruct (sa_inv_tree c a K Ia) as (ta & na & -> & Ha). destruct (sa_inv_tree c b K Ib) as (tb & nb & -> & Hb).
    assert (G : exists t n, ts_op c o (ta, na) (tb, nb) = StRB t n /\ tree_inv (kc c) t n /\
                  forall z, member c (StRB t n) z = alg_spec o (member c (StRB ta na) z) (member c (StRB tb nb) z)).
    { destruct o; cbn [ts_op alg_spec].
      - rewrite ts_inter_pick. cbn [fst snd]. destruct (na <=? nb).
        + destruct (sa_ts_inter_iter_spec c ta na tb nb K Ha Hb) as (t & n & E & I & _ & M). eauto.
        + destruct (sa_ts_inter_iter_spec c tb nb ta na K Hb Ha) as (t & n & E & I & _ & M).
          exists t, n. split; [assumption|]. split; [assumption|]. intros z. rewrite M. apply andb_comm.
      - destruct (sa_ts_union_spec c ta na tb nb K Ha Hb) as (t & n & E & I & _ & M & _). eauto.
      - destruct (sa_ts_diff_spec c ta na tb nb K Ha Hb) as (t & n & E & I & _ & M). eauto. }
    destruct G as (t & n & E & I & M).
    subst res. cbn [alg_result set_algebra]. fold (ts_op c o (ta, na) (tb, nb)). rewrite E.
    cbn [content_obs values_of canon]. rewrite K. cbn [is_kv].
    split; [reflexivity|]. split; [reflexivity|].
    split; [unfold set_inv; rewrite K; exact I|]. split; [exact M|]. split; [|reflexivity].
    unfold set_cmp. rewrite K. apply sa_keys_sasc. apply I.
  - (* LinkedHashSet *)
    destruct (sa_inv_linked c a K Ia) as (la & oa & -> & Ha). destruct (sa_inv_linked c b K Ib) as (lb & ob & -> & Hb).
    destruct (sa_hs_op_spec o la lb (proj1 Ha) (proj1 Hb)) as [H1 H2].
    subst res. cbn [alg_result set_algebra content_obs values_of member canon]. rewrite K. cbn [is_kv].
    split; [destruct o; reflexivity|]. split; [reflexivity|].
    split; [unfold set_inv; rewrite K; apply sa_lset_inv_self; exact H1|]. split; [exact H2|]. split; [|reflexivity].
    unfold set_cmp. rewrite K. apply sa_zasc_sasc. exact H1.
Qed.

(* ---------- reachable states, and the operand [set_of c bs] of the ops Inter / Union / Diff ---------- *)
Lemma sa_run_inv c ops : is_set_kind (ckind c) = true -> set_inv c (run c ops).
Proof. intros K. apply (set_run c ops K). Qed.

Lemma sa_set_of_run c bs : is_set_kind (ckind c) = true -> set_of c bs = run c [Add bs].
Proof.
  intros K. unfold run, run_from, set_of. cbn [fold_left]. unfold init.
  destruct (ckind c) eqn:E; try discriminate; cbn; rewrite E; reflexivity.
Qed.

Lemma sa_set_of_spec c bs : is_set_kind (ckind c) = true ->
  set_inv c (set_of c bs) /\ forall x, member c (set_of c bs) x = eqvb (set_cmp c) x bs.
Proof.
  intros K. rewrite (sa_set_of_run c bs K). destruct (set_run c [Add bs] K) as [I M].
  split; [assumption|]. intros x. rewrite M. cbn. destruct (eqvb (set_cmp c) x bs); reflexivity.
Qed.

Lemma sa_set_of_nil c : is_set_kind (ckind c) = true -> set_of c [] = init c.
Proof.
  intros K. unfold set_of, init. destruct (ckind c) eqn:E; try discriminate; reflexivity.
Qed.

Lemma sa_alg_spec_inter p q : alg_spec AInter p q = true <-> p = true /\ q = true.
Proof. apply andb_true_iff. Qed.
Lemma sa_alg_spec_union p q : alg_spec AUnion p q = true <-> p = true \/ q = true.
Proof. apply orb_true_iff. Qed.
Lemma sa_alg_spec_diff p q : alg_spec ADiff p q = true <-> p = true /\ q <> true.
Proof. cbn. rewrite andb_true_iff, negb_true_iff, not_true_iff_false. reflexivity. Qed.

(* ---------- the result as a list ---------- *)
Lemma alg_list c o a b : set_inv c a -> set_inv c b ->
  exists r, set_algebra c o a b = ozs r /\ r = values_of c (alg_result c o a b) /\
    sasc (set_cmp c) r /\ NoDupA (sequiv c) r /\
    size_of c (alg_result c o a b) = Z.of_nat (length r) /\
    forall x, InA (sequiv c) x r <-> alg_spec o (member c a x) (member c b x) = true.
Proof.
  intros Ia Ib. destruct (alg_core c o a b Ia Ib) as (H1 & H2 & H3 & H4 & H5 & _).
  destruct (values_spec c _ H3) as (V1 & V2 & V3).
  exists (values_of c (alg_result c o a b)). rewrite H1, H2.
  repeat split; try assumption.
  - intros H. apply V3 in H. rewrite H4 in H. exact H.
  - intros H. apply V3. rewrite H4. exact H.
Qed.

Lemma sa_member_values c s x : set_inv c s -> (member c s x = true <-> InA (sequiv c) x (values_of c s)).
Proof. intros I. destruct (values_spec c s I) as (_ & _ & V). symmetry. apply V. Qed.

Lemma sa_hash_sequiv c : ckind c = HashSet \/ ckind c = LinkedHashSet ->
  forall x l, InA (sequiv c) x l <-> In x l.
Proof. intros K x l. unfold sequiv. rewrite (set_cmp_hash c K). apply sp_InA_eq_Zcompare. Qed.

(* ================================================================================== *)
(* C13: the three laws, for all pairs of reachable operands                             *)
(* ================================================================================== *)
Section Laws.
Variable c : config.
Hypothesis K : is_set_kind (ckind c) = true.
Variables opsA opsB : list op.
Let a := run c opsA.
Let b := run c opsB.

Theorem C13_inter_proof :
  exists r, set_algebra c AInter a b = ozs r /\
    (forall x, InA (sequiv c) x r <-> InA (sequiv c) x (values_of c a) /\ InA (sequiv c) x (values_of c b)) /\
    (forall x, InA (sequiv c) x r <-> member c a x = true /\ member c b x = true) /\
    NoDupA (sequiv c) r /\
    StronglySorted (fun u v => set_cmp c u v = Lt) r.
Proof.
  pose proof (sa_run_inv c opsA K) as Ia. pose proof (sa_run_inv c opsB K) as Ib. fold a in Ia. fold b in Ib.
  destruct (alg_list c AInter a b Ia Ib) as (r & H1 & _ & H3 & H4 & _ & H6).
  exists r. split; [assumption|]. split; [|split; [|split; assumption]].
  - intros x. rewrite H6, sa_alg_spec_inter, !sa_member_values by assumption. reflexivity.
  - intros x. rewrite H6. apply sa_alg_spec_inter.
Qed.

Theorem C13_union_proof :
  exists r, set_algebra c AUnion a b = ozs r /\
    (forall x, InA (sequiv c) x r <-> InA (sequiv c) x (values_of c a) \/ InA (sequiv c) x (values_of c b)) /\
    (forall x, InA (sequiv c) x r <-> member c a x = true \/ member c b x = true) /\
    NoDupA (sequiv c) r /\
    StronglySorted (fun u v => set_cmp c u v = Lt) r.
Proof.
  pose proof (sa_run_inv c opsA K) as Ia. pose proof (sa_run_inv c opsB K) as Ib. fold a in Ia. fold b in Ib.
  destruct (alg_list c AUnion a b Ia Ib) as (r & H1 & _ & H3 & H4 & _ & H6).
  exists r. split; [assumption|]. split; [|split; [|split; assumption]].
  - intros x. rewrite H6, sa_alg_spec_union, !sa_member_values by assumption. reflexivity.
  - intros x. rewrite H6. apply sa_alg_spec_union.
Qed.

Theorem C13_diff_proof :
  exists r, set_algebra c ADiff a b = ozs r /\
    (forall x, InA (sequiv c) x r <-> InA (sequiv c) x (values_of c a) /\ ~ InA (sequiv c) x (values_of c b)) /\
    (forall x, InA (sequiv c) x r <-> member c a x = true /\ member c b x <> true) /\
    NoDupA (sequiv c) r /\
    StronglySorted (fun u v => set_cmp c u v = Lt) r.
Proof.
  pose proof (sa_run_inv c opsA K) as Ia. pose proof (sa_run_inv c opsB K) as Ib. fold a in Ia. fold b in Ib.
  destruct (alg_list c ADiff a b Ia Ib) as (r & H1 & _ & H3 & H4 & _ & H6).
  exists r. split; [assumption|]. split; [|split; [|split; assumption]].
  - intros x. rewrite H6, sa_alg_spec_diff, !sa_member_values by assumption. reflexivity.
  - intros x. rewrite H6. apply sa_alg_spec_diff.
Qed.

(* the new set: a valid set state whose Contains obeys the law, whose Values() is the observation *)
Theorem C13_new_set_proof : forall o,
  let res := alg_result c o a b in
  set_algebra c o a b = ozs (values_of c res) /\
  set_inv c res /\
  size_of c res = Z.of_nat (length (values_of c res)) /\
  (forall x, member c res x = alg_spec o (member c a x) (member c b x)) /\
  (forall x, contains_of c res [x] = obool (alg_spec o (member c a x) (member c b x))) /\
  (forall x, contains_of c a [x] = obool (member c a x)) /\
  (forall x, contains_of c b [x] = obool (member c b x)).
Proof.
  intros o res.
  pose proof (sa_run_inv c opsA K) as Ia. pose proof (sa_run_inv c opsB K) as Ib. fold a in Ia. fold b in Ib.
  destruct (alg_core c o a b Ia Ib) as (H1 & H2 & H3 & H4 & _ & _). fold res in H1, H2, H3, H4.
  destruct (values_spec c res H3) as (_ & V2 & _).
  split; [rewrite H1; exact H2|]. split; [assumption|]. split; [assumption|]. split; [assumption|].
  split; [|split]; intros x.
  - rewrite (contains_member c res [x] H3). cbn [forallb]. rewrite andb_true_r, H4. reflexivity.
  - rewrite (contains_member c a [x] Ia). cbn [forallb]. rewrite andb_true_r. reflexivity.
  - rewrite (contains_member c b [x] Ib). cbn [forallb]. rewrite andb_true_r. reflexivity.
Qed.

End Laws.

(* ================================================================================== *)
(* The hash kinds in plain terms: In, NoDup, ascending                                  *)
(* ================================================================================== *)
Lemma sa_hash_values_member c s x : ckind c = HashSet \/ ckind c = LinkedHashSet -> set_inv c s ->
  (member c s x = true <-> In x (values_of c s)).
Proof. intros K I. rewrite (sa_member_values c s x I). apply sa_hash_sequiv. assumption. Qed.

Lemma sa_hash_list c o a b : ckind c = HashSet \/ ckind c = LinkedHashSet -> set_inv c a -> set_inv c b ->
  exists r, set_algebra c o a b = ozs r /\ StronglySorted Z.lt r /\ NoDup r /\
    forall x, In x r <-> alg_spec o (member c a x) (member c b x) = true.
Proof.
  intros K Ia Ib. destruct (alg_list c o a b Ia Ib) as (r & H1 & _ & H3 & _ & _ & H6).
  rewrite (set_cmp_hash c K) in H3. apply sa_zasc_sasc in H3.
  exists r. split; [assumption|]. split; [exact H3|]. split; [apply sp_zasc_NoDup; exact H3|].
  intros x. rewrite <- (sa_hash_sequiv c K). apply H6.
Qed.

Theorem C13_inter_hash_proof : forall c opsA opsB, ckind c = HashSet \/ ckind c = LinkedHashSet ->
  let a := run c opsA in let b := run c opsB in
  exists r, set_algebra c AInter a b = ozs r /\
    (forall x, In x r <-> In x (values_of c a) /\ In x (values_of c b)) /\ NoDup r /\ StronglySorted Z.lt r.
Proof.
  intros c opsA opsB K a b. pose proof (is_set_kind_hash c K) as K'.
  pose proof (sa_run_inv c opsA K') as Ia. pose proof (sa_run_inv c opsB K') as Ib. fold a in Ia. fold b in Ib.
  destruct (sa_hash_list c AInter a b K Ia Ib) as (r & H1 & H2 & H3 & H4).
  exists r. split; [assumption|]. split; [|split; assumption].
  intros x. rewrite H4, sa_alg_spec_inter, !sa_hash_values_member by assumption. reflexivity.
Qed.

Theorem C13_union_hash_proof : forall c opsA opsB, ckind c = HashSet \/ ckind c = LinkedHashSet ->
  let a := run c opsA in let b := run c opsB in
  exists r, set_algebra c AUnion a b = ozs r /\
    (forall x, In x r <-> In x (values_of c a) \/ In x (values_of c b)) /\ NoDup r /\ StronglySorted Z.lt r.
Proof.
  intros c opsA opsB K a b. pose proof (is_set_kind_hash c K) as K'.
  pose proof (sa_run_inv c opsA K') as Ia. pose proof (sa_run_inv c opsB K') as Ib. fold a in Ia. fold b in Ib.
  destruct (sa_hash_list c AUnion a b K Ia Ib) as (r & H1 & H2 & H3 & H4).
  exists r. split; [assumption|]. split; [|split; assumption].
  intros x. rewrite H4, sa_alg_spec_union, !sa_hash_values_member by assumption. reflexivity.
Qed.

Theorem C13_diff_hash_proof : forall c opsA opsB, ckind c = HashSet \/ ckind c = LinkedHashSet ->
  let a := run c opsA in let b := run c opsB in
  exists r, set_algebra c ADiff a b = ozs r /\
    (forall x, In x r <-> In x (values_of c a) /\ ~ In x (values_of c b)) /\ NoDup r /\ StronglySorted Z.lt r.
Proof.
  intros c opsA opsB K a b. pose proof (is_set_kind_hash c K) as K'.
  pose proof (sa_run_inv c opsA K') as Ia. pose proof (sa_run_inv c opsB K') as Ib. fold a in Ia. fold b in Ib.
  destruct (sa_hash_list c ADiff a b K Ia Ib) as (r & H1 & H2 & H3 & H4).
  exists r. split; [assumption|]. split; [|split; assumption].
  intros x. rewrite H4, sa_alg_spec_diff, !sa_hash_values_member by assumption. reflexivity.
Qed.

(* two canonical lists with the same membership test are the same list *)
Lemma sa_hs_ext r l : zasc r -> zasc l -> (forall x, smem x r = smem x l) -> r = l.
Proof.
  intros Hr Hl H. apply sa_zasc_ext; try assumption.
  intros x. rewrite <- !sp_smem_In, H. reflexivity.
Qed.

(* ================================================================================== *)
(* TreeSet: the fresh tree, and which representatives it stores                         *)
(* ================================================================================== *)
Theorem C13_treeset_tree_proof : forall c o opsA opsB, ckind c = TreeSet ->
  let a := run c opsA in let b := run c opsB in
  exists t n, alg_result c o a b = StRB t n /\
    rbt t /\ bst (kc c) t /\ n = Z.of_nat (RBTree.count t) /\
    set_algebra c o a b = ozs (RB.keys t) /\
    StronglySorted (fun u v => kc c u v = Lt) (RB.keys t) /\
    (forall x, probe (kc c) t x = alg_spec o (member c a x) (member c b x)).
Proof.
  intros c o opsA opsB K a b. pose proof (is_set_kind_tree c K) as K'.
  pose proof (sa_run_inv c opsA K') as Ia. pose proof (sa_run_inv c opsB K') as Ib. fold a in Ia. fold b in Ib.
  destruct (alg_core c o a b Ia Ib) as (H1 & H2 & H3 & H4 & H5 & _).
  destruct (sa_inv_tree c _ K H3) as (t & n & E & (I1 & I2 & I3)).
  exists t, n. rewrite E in *. split; [reflexivity|]. split; [assumption|]. split; [assumption|]. split; [assumption|].
  cbn [values_of] in H2, H5. rewrite K in H2, H5. rewrite (set_cmp_tree c K) in H5.
  split; [rewrite H1; exact H2|]. split; [exact H5|]. exact H4.
Qed.

Theorem C13_treeset_representatives_proof : forall c opsA opsB, ckind c = TreeSet ->
  let a := run c opsA in let b := run c opsB in
  values_of c (alg_result c AInter a b) =
    (if size_of c a <=? size_of c b then filter (member c b) (values_of c a) else filter (member c a) (values_of c b)) /\
  values_of c (alg_result c ADiff a b) = filter (fun x => negb (member c b x)) (values_of c a) /\
  (forall z, In z (values_of c (alg_result c AUnion a b)) <->
             In z (values_of c b) \/ (In z (values_of c a) /\ member c b z = false)).
Proof.
  intros c opsA opsB K a b. pose proof (is_set_kind_tree c K) as K'.
  pose proof (sa_run_inv c opsA K') as Ia. pose proof (sa_run_inv c opsB K') as Ib. fold a in Ia. fold b in Ib.
  destruct (sa_inv_tree c a K Ia) as (ta & na & -> & Ha). destruct (sa_inv_tree c b K Ib) as (tb & nb & -> & Hb).
  cbn [alg_result ts_op size_of]. split; [|split].
  - rewrite ts_inter_pick. cbn [fst snd]. destruct (na <=? nb).
    + destruct (sa_ts_inter_iter_spec c ta na tb nb K Ha Hb) as (t & n & E & _ & Hk & _).
      rewrite E. cbn [values_of]. rewrite K. exact Hk.
    + destruct (sa_ts_inter_iter_spec c tb nb ta na K Hb Ha) as (t & n & E & _ & Hk & _).
      rewrite E. cbn [values_of]. rewrite K. exact Hk.
  - destruct (sa_ts_diff_spec c ta na tb nb K Ha Hb) as (t & n & E & _ & Hk & _).
    rewrite E. cbn [values_of]. rewrite K. exact Hk.
  - destruct (sa_ts_union_spec c ta na tb nb K Ha Hb) as (t & n & E & _ & _ & _ & Hk).
    rewrite E. cbn [values_of]. rewrite K. exact Hk.
Qed.

(* ================================================================================== *)
(* No side effects                                                                      *)
(* ================================================================================== *)
Definition is_alg_op (o : op) : bool :=
  match o with Inter _ | Union _ | Diff _ | InterSelf | UnionSelf | DiffSelf => true | _ => false end.

(* for EVERY configuration and EVERY state: the six operations return the state they were given *)
Theorem C13_operands_unchanged_proof : forall c s o, is_alg_op o = true ->
  fst (fst (step c s o)) = s /\ snd (step c s o) = onone.
Proof.
  intros c s o H. destruct o; try discriminate H; destruct s; split; reflexivity.
Qed.

(* ... so an algebra call can be deleted from any history without changing the container *)
Theorem C13_history_unchanged_proof : forall c ops o more, is_alg_op o = true ->
  run c (ops ++ o :: more) = run c (ops ++ more).
Proof.
  intros c ops o more H. unfold run, run_from. rewrite !fold_left_app. cbn [fold_left].
  rewrite (proj1 (C13_operands_unchanged_proof c _ o H)). reflexivity.
Qed.

(* the result is a function of the two operands only *)
Theorem C13_result_function_proof : forall c s bs, s <> StCrash ->
  snd (fst (step c s (Inter bs))) = set_algebra c AInter s (set_of c bs) /\
  snd (fst (step c s (Union bs))) = set_algebra c AUnion s (set_of c bs) /\
  snd (fst (step c s (Diff bs))) = set_algebra c ADiff s (set_of c bs) /\
  snd (fst (step c s InterSelf)) = set_algebra c AInter s s /\
  snd (fst (step c s UnionSelf)) = set_algebra c AUnion s s /\
  snd (fst (step c s DiffSelf)) = set_algebra c ADiff s s.
Proof. intros c s bs H. destruct s; try congruence; repeat split; reflexivity. Qed.

(* the machine operations on a reachable set: the other operand is the reachable set [run c [Add bs]] *)
Theorem C13_ops_proof : forall c ops bs, is_set_kind (ckind c) = true ->
  let a := run c ops in let b := run c [Add bs] in
  step c a (Inter bs) = (a, set_algebra c AInter a b, onone) /\
  step c a (Union bs) = (a, set_algebra c AUnion a b, onone) /\
  step c a (Diff bs) = (a, set_algebra c ADiff a b, onone) /\
  step c a InterSelf = (a, set_algebra c AInter a a, onone) /\
  step c a UnionSelf = (a, set_algebra c AUnion a a, onone) /\
  step c a DiffSelf = (a, set_algebra c ADiff a a, onone) /\
  (forall x, member c b x = eqvb (set_cmp c) x bs).
Proof.
  intros c ops bs K a b. subst b. rewrite <- (sa_set_of_run c bs K).
  assert (Hn : a <> StCrash) by (apply C04_no_crash_proof; assumption).
  split; [|split; [|split; [|split; [|split; [|split]]]]];
    try (destruct a; try congruence; reflexivity).
  apply (sa_set_of_spec c bs K).
Qed.

(* ================================================================================== *)
(* Identical object, empty operands                                                     *)
(* ================================================================================== *)
Lemma sa_tree_obs c t n : ckind c = TreeSet -> content_obs c (StRB t n) = ozs (RB.keys t).
Proof. intros K. cbn [content_obs values_of]. rewrite K. reflexivity. Qed.

Lemma sa_probe_keys_true c t : bst (kc c) t -> Forall (fun k => probe (kc c) t k = true) (RB.keys t).
Proof.
  intros Hb. apply Forall_forall. intros k Hin.
  rewrite <- (sa_probe_member c t 0), sa_member_keys by assumption.
  apply sa_eqvb_InA. apply InA_alt. exists k. split; [apply (swo_refl _ (sp_kc_SWO c))|assumption].
Qed.

Lemma sa_filter_false {A} (f : A -> bool) l : (forall x, f x = false) -> filter f l = [].
Proof. intros H. induction l as [|a l IH]; [reflexivity|]. cbn [filter]. rewrite H. exact IH. Qed.

Lemma sa_filter_true {A} (f : A -> bool) l : (forall x, f x = true) -> filter f l = l.
Proof. intros H. induction l as [|a l IH]; [reflexivity|]. cbn [filter]. rewrite H, IH. reflexivity. Qed.

Lemma sa_hs_op_exact o la lb l : zasc la -> zasc lb -> zasc l ->
  (forall x, alg_spec o (smem x la) (smem x lb) = smem x l) -> hs_op o la lb = l.
Proof.
  intros Ha Hb Hl H. destruct (sa_hs_op_spec o la lb Ha Hb) as [H1 H2].
  apply sa_hs_ext; try assumption. intros x. rewrite H2. apply H.
Qed.

Lemma sa_keys_emb_present (t : RB.tree) : forall v, In v (RB.keys t) -> In (v, 0) (emb (RB.keys t)).
Proof. intros v H. unfold emb. apply in_map_iff. exists v. split; [reflexivity|assumption]. Qed.

(* the same object twice *)
Lemma alg_self c a : set_inv c a ->
  set_algebra c AInter a a = ozs (canon c a) /\
  set_algebra c AUnion a a = ozs (canon c a) /\
  set_algebra c ADiff a a = ozs [].
Proof.
  intros Ia. destruct (sa_inv_kind c a Ia) as [K|[K|K]].
  - destruct (sa_inv_hash c a K Ia) as (la & -> & Ha). cbn [set_algebra canon values_of].
    fold (hs_op AInter la la) (hs_op AUnion la la) (hs_op ADiff la la).
    rewrite (sa_hs_op_exact AInter la la la), (sa_hs_op_exact AUnion la la la), (sa_hs_op_exact ADiff la la []);
      try assumption; try constructor; try (repeat split; reflexivity);
      intros x; cbn [alg_spec smem existsb]; destruct (smem x la); reflexivity.
  - destruct (sa_inv_tree c a K Ia) as (ta & na & -> & Ha). pose proof Ha as (_ & Hba & _).
    cbn [set_algebra canon values_of]. rewrite K. split; [|split].
    + rewrite ts_inter_pick. cbn [fst snd]. rewrite Z.leb_refl.
      destruct (sa_ts_inter_iter_spec c ta na ta na K Ha Ha) as (t & n & E & _ & Hk & _).
      rewrite E, (sa_tree_obs c t n K), Hk. f_equal. apply filter_all. apply sa_probe_keys_true. assumption.
    + destruct (sa_ts_union_spec c ta na ta na K Ha Ha) as (t & n & E & _ & Hio & _).
      rewrite E, (sa_tree_obs c t n K). f_equal. unfold RB.keys at 1. rewrite Hio.
      rewrite (sa_ins_all_present (kc c) (sp_kc_SWO c)).
      * apply sp_map_fst_emb.
      * apply sa_ksorted_emb, sa_keys_sasc. assumption.
      * apply sa_keys_emb_present.
    + destruct (sa_ts_diff_spec c ta na ta na K Ha Ha) as (t & n & E & _ & Hk & _).
      rewrite E, (sa_tree_obs c t n K), Hk. f_equal. apply filter_none.
      eapply Forall_impl; [|apply (sa_probe_keys_true c ta Hba)]. intros k Hk'. cbv beta in *. rewrite Hk'. reflexivity.
  - destruct (sa_inv_linked c a K Ia) as (la & oa & -> & Ha). destruct Ha as (Ha & _). cbn [set_algebra canon].
    fold (hs_op AInter la la) (hs_op AUnion la la) (hs_op ADiff la la).
    rewrite (sa_hs_op_exact AInter la la la), (sa_hs_op_exact AUnion la la la), (sa_hs_op_exact ADiff la la []);
      try assumption; try constructor; try (repeat split; reflexivity);
      intros x; cbn [alg_spec smem existsb]; destruct (smem x la); reflexivity.
Qed.

(* either operand empty *)
Lemma alg_empty c a : set_inv c a ->
  set_algebra c AInter a (init c) = ozs [] /\
  set_algebra c AInter (init c) a = ozs [] /\
  set_algebra c AUnion a (init c) = ozs (canon c a) /\
  set_algebra c AUnion (init c) a = ozs (canon c a) /\
  set_algebra c ADiff a (init c) = ozs (canon c a) /\
  set_algebra c ADiff (init c) a = ozs [].
Proof.
  intros Ia. destruct (sa_inv_kind c a Ia) as [K|[K|K]].
  - destruct (sa_inv_hash c a K Ia) as (la & -> & Ha). unfold init. rewrite K. cbn [set_algebra canon values_of].
    fold (hs_op AInter la []) (hs_op AInter [] la) (hs_op AUnion la []) (hs_op AUnion [] la)
         (hs_op ADiff la []) (hs_op ADiff [] la).
    rewrite (sa_hs_op_exact AInter la [] []), (sa_hs_op_exact AInter [] la []),
            (sa_hs_op_exact AUnion la [] la), (sa_hs_op_exact AUnion [] la la),
            (sa_hs_op_exact ADiff la [] la), (sa_hs_op_exact ADiff [] la []);
      try assumption; try constructor; try (repeat split; reflexivity);
      intros x; cbn [alg_spec smem existsb]; destruct (smem x la); reflexivity.
  - destruct (sa_inv_tree c a K Ia) as (ta & na & -> & Ha). pose proof Ha as (_ & Hba & _).
    pose proof (sp_tree_inv_E (kc c)) as He.
    rewrite (sa_init_tree c K). cbn [set_algebra canon values_of]. rewrite K.
    assert (Hi1 : exists t n, ts_inter_iter c (ta, na) (RB.E, 0) = StRB t n /\ RB.keys t = []).
    { destruct (sa_ts_inter_iter_spec c ta na RB.E 0 K Ha He) as (t & n & E & _ & Hk & _).
      exists t, n. split; [assumption|]. rewrite Hk. apply sa_filter_false. intros x. reflexivity. }
    assert (Hi2 : exists t n, ts_inter_iter c (RB.E, 0) (ta, na) = StRB t n /\ RB.keys t = []).
    { destruct (sa_ts_inter_iter_spec c RB.E 0 ta na K He Ha) as (t & n & E & _ & Hk & _).
      exists t, n. split; [assumption|]. rewrite Hk. reflexivity. }
    destruct Hi1 as (t1 & n1 & E1 & K1). destruct Hi2 as (t2 & n2 & E2 & K2).
    split; [|split; [|split; [|split; [|split]]]].
    + rewrite ts_inter_pick. cbn [fst snd]. destruct (na <=? 0).
      * rewrite E1, (sa_tree_obs c t1 n1 K), K1. reflexivity.
      * rewrite E2, (sa_tree_obs c t2 n2 K), K2. reflexivity.
    + rewrite ts_inter_pick. cbn [fst snd]. destruct (0 <=? na).
      * rewrite E2, (sa_tree_obs c t2 n2 K), K2. reflexivity.
      * rewrite E1, (sa_tree_obs c t1 n1 K), K1. reflexivity.
    + destruct (sa_ts_union_spec c ta na RB.E 0 K Ha He) as (t & n & E & _ & Hio & _).
      rewrite E, (sa_tree_obs c t n K). f_equal. unfold RB.keys at 1. rewrite Hio. cbn [RB.keys RBTree.inorder map ins_all fold_left].
      apply sp_map_fst_emb.
    + destruct (sa_ts_union_spec c RB.E 0 ta na K He Ha) as (t & n & E & _ & Hio & _).
      rewrite E, (sa_tree_obs c t n K). f_equal. unfold RB.keys at 1. rewrite Hio.
      cbn [RB.keys RBTree.inorder map emb].
      rewrite (sa_ins_all_nil (kc c) (sp_kc_SWO c)) by (apply sa_keys_sasc; assumption).
      apply sp_map_fst_emb.
    + destruct (sa_ts_diff_spec c ta na RB.E 0 K Ha He) as (t & n & E & _ & Hk & _).
      rewrite E, (sa_tree_obs c t n K), Hk. f_equal. apply sa_filter_true. intros x. reflexivity.
    + destruct (sa_ts_diff_spec c RB.E 0 ta na K He Ha) as (t & n & E & _ & Hk & _).
      rewrite E, (sa_tree_obs c t n K), Hk. reflexivity.
  - destruct (sa_inv_linked c a K Ia) as (la & oa & -> & Ha). destruct Ha as (Ha & _).
    unfold init. rewrite K. cbn [set_algebra canon].
    fold (hs_op AInter la []) (hs_op AInter [] la) (hs_op AUnion la []) (hs_op AUnion [] la)
         (hs_op ADiff la []) (hs_op ADiff [] la).
    rewrite (sa_hs_op_exact AInter la [] []), (sa_hs_op_exact AInter [] la []),
            (sa_hs_op_exact AUnion la [] la), (sa_hs_op_exact AUnion [] la la),
            (sa_hs_op_exact ADiff la [] la), (sa_hs_op_exact ADiff [] la []);
      try assumption; try constructor; try (repeat split; reflexivity);
      intros x; cbn [alg_spec smem existsb]; destruct (smem x la); reflexivity.
Qed.

(* the canonical member list against Values() *)
Lemma sa_canon_spec c s : set_inv c s ->
  Permutation (canon c s) (values_of c s) /\
  sasc (set_cmp c) (canon c s) /\
  (ckind c <> LinkedHashSet -> canon c s = values_of c s) /\
  (forall x, InA (sequiv c) x (canon c s) <-> member c s x = true).
Proof.
  intros I. destruct (sa_inv_kind c s I) as [K|[K|K]].
  - destruct (sa_inv_hash c s K I) as (l & -> & H). cbn [canon]. split; [apply Permutation_refl|].
    split; [unfold set_cmp; rewrite K; apply sa_zasc_sasc; exact H|]. split; [reflexivity|].
    intros x. apply (values_spec c _ I).
  - destruct (sa_inv_tree c s K I) as (t & n & -> & H). cbn [canon]. split; [apply Permutation_refl|].
    split; [unfold set_cmp; cbn [values_of]; rewrite K; apply sa_keys_sasc; apply H|]. split; [reflexivity|].
    intros x. apply (values_spec c _ I).
  - destruct (sa_inv_linked c s K I) as (tbl & ord & -> & H). cbn [canon values_of member].
    split; [apply lset_inv_perm; exact H|].
    split; [unfold set_cmp; rewrite K; apply sa_zasc_sasc; apply H|]. split; [congruence|].
    intros x. rewrite (sa_hash_sequiv c (or_intror K)). symmetry. apply sp_smem_In.
Qed.

Theorem C13_same_object_proof : forall c ops, is_set_kind (ckind c) = true ->
  let a := run c ops in
  snd (fst (step c a InterSelf)) = ozs (canon c a) /\
  snd (fst (step c a UnionSelf)) = ozs (canon c a) /\
  snd (fst (step c a DiffSelf)) = ozs [] /\
  Permutation (canon c a) (values_of c a) /\
  StronglySorted (fun u v => set_cmp c u v = Lt) (canon c a) /\
  (ckind c <> LinkedHashSet -> canon c a = values_of c a) /\
  (forall x, InA (sequiv c) x (canon c a) <-> member c a x = true).
Proof.
  intros c ops K a. pose proof (sa_run_inv c ops K) as Ia. fold a in Ia.
  destruct (C13_ops_proof c ops [] K) as (_ & _ & _ & E1 & E2 & E3 & _). fold a in E1, E2, E3.
  rewrite E1, E2, E3. cbn [fst snd].
  destruct (alg_self c a Ia) as (H1 & H2 & H3). destruct (sa_canon_spec c a Ia) as (P1 & P2 & P3 & P4).
  repeat split; try assumption; apply P4.
Qed.

Theorem C13_empty_proof : forall c ops, is_set_kind (ckind c) = true ->
  let a := run c ops in
  set_of c [] = init c /\ run c [] = init c /\
  set_algebra c AInter a (init c) = ozs [] /\
  set_algebra c AInter (init c) a = ozs [] /\
  set_algebra c AUnion a (init c) = ozs (canon c a) /\
  set_algebra c AUnion (init c) a = ozs (canon c a) /\
  set_algebra c ADiff a (init c) = ozs (canon c a) /\
  set_algebra c ADiff (init c) a = ozs [] /\
  snd (fst (step c a (Inter []))) = ozs [] /\
  snd (fst (step c a (Union []))) = ozs (canon c a) /\
  snd (fst (step c a (Diff []))) = ozs (canon c a).
Proof.
  intros c ops K a. pose proof (sa_run_inv c ops K) as Ia. fold a in Ia.
  destruct (alg_empty c a Ia) as (H1 & H2 & H3 & H4 & H5 & H6).
  assert (Hn : a <> StCrash) by (apply C04_no_crash_proof; assumption).
  destruct (C13_result_function_proof c a [] Hn) as (E1 & E2 & E3 & _).
  rewrite E1, E2, E3, (sa_set_of_nil c K).
  repeat split; assumption.
Qed.

(* ================================================================================== *)
(* Either relative size; commutativity; further identities                              *)
(* ================================================================================== *)
Lemma sa_equiv_length cmp l1 l2 : SWO cmp ->
  NoDupA (fun a b => cmp a b = Eq) l1 -> NoDupA (fun a b => cmp a b = Eq) l2 ->
  (forall x, InA (fun a b => cmp a b = Eq) x l1 <-> InA (fun a b => cmp a b = Eq) x l2) ->
  length l1 = length l2.
Proof.
  intros Hswo N1 N2 H.
  assert (Heq : Equivalence (fun a b : Z => cmp a b = Eq)).
  { constructor.
    - intros x. apply (swo_refl _ Hswo).
    - intros x y. apply (sp_cmp_eq_sym _ Hswo).
    - intros x y z. apply (sp_cmp_eq_trans _ Hswo). }
  pose proof (@NoDupA_equivlistA_PermutationA Z _ Heq l1 l2 N1 N2 H) as P.
  destruct (@PermutationA_decompose Z _ Heq l1 l2 P) as (l & P1 & E).
  rewrite (Permutation_length P1). apply (eqlistA_length E).
Qed.

(* two valid set states with the same members have the same size *)
Lemma sa_size_eq c s1 s2 : set_inv c s1 -> set_inv c s2 ->
  (forall x, member c s1 x = member c s2 x) -> size_of c s1 = size_of c s2.
Proof.
  intros I1 I2 H. destruct (values_spec c s1 I1) as (N1 & S1 & M1). destruct (values_spec c s2 I2) as (N2 & S2 & M2).
  rewrite S1, S2. f_equal. apply (sa_equiv_length (set_cmp c)); try assumption; [apply set_cmp_SWO|].
  intros x. unfold sequiv in M1, M2. rewrite M1, M2, H. reflexivity.
Qed.

Lemma sa_InA_nil cmp (r : list Z) : SWO cmp -> (forall x, ~ InA (fun a b => cmp a b = Eq) x r) -> r = [].
Proof.
  intros Hswo H. destruct r as [|y r]; [reflexivity|]. exfalso. apply (H y). constructor. apply (swo_refl _ Hswo).
Qed.

Lemma alg_comm c o a b : o <> ADiff -> set_inv c a -> set_inv c b ->
  (forall x, member c (alg_result c o a b) x = member c (alg_result c o b a) x) /\
  size_of c (alg_result c o a b) = size_of c (alg_result c o b a).
Proof.
  intros Ho Ia Ib.
  destruct (alg_core c o a b Ia Ib) as (_ & _ & I1 & M1 & _). destruct (alg_core c o b a Ib Ia) as (_ & _ & I2 & M2 & _).
  assert (H : forall x, member c (alg_result c o a b) x = member c (alg_result c o b a) x).
  { intros x. rewrite M1, M2. destruct o; cbn [alg_spec]; [apply andb_comm|apply orb_comm|congruence]. }
  split; [exact H|]. apply sa_size_eq; assumption.
Qed.

(* on the hash kinds the two results are the same list, whichever operand is iterated *)
Lemma alg_comm_hash c o a b : o <> ADiff -> ckind c = HashSet \/ ckind c = LinkedHashSet ->
  set_inv c a -> set_inv c b -> set_algebra c o a b = set_algebra c o b a.
Proof.
  intros Ho K Ia Ib.
  assert (G : forall la lb, zasc la -> zasc lb -> hs_op o la lb = hs_op o lb la).
  { intros la lb Ha Hb. destruct (sa_hs_op_spec o lb la Hb Ha) as [H1 H2].
    apply sa_hs_op_exact; try assumption. intros x. rewrite H2.
    destruct o; cbn [alg_spec]; [apply andb_comm|apply orb_comm|congruence]. }
  destruct K as [K|K].
  - destruct (sa_inv_hash c a K Ia) as (la & -> & Ha). destruct (sa_inv_hash c b K Ib) as (lb & -> & Hb).
    cbn [set_algebra]. fold (hs_op o la lb) (hs_op o lb la). rewrite (G la lb Ha Hb). reflexivity.
  - destruct (sa_inv_linked c a K Ia) as (la & oa & -> & Ha). destruct (sa_inv_linked c b K Ib) as (lb & ob & -> & Hb).
    cbn [set_algebra]. fold (hs_op o la lb) (hs_op o lb la). rewrite (G la lb (proj1 Ha) (proj1 Hb)). reflexivity.
Qed.

Theorem C13_sizes_proof : forall c opsA opsB, ckind c = TreeSet ->
  let a := run c opsA in let b := run c opsB in
  exists ta tb,
    a = StRB ta (size_of c a) /\ b = StRB tb (size_of c b) /\
    let r1 := ts_inter_iter c (ta, size_of c a) (tb, size_of c b) in     (* iterate a, probe b *)
    let r2 := ts_inter_iter c (tb, size_of c b) (ta, size_of c a) in     (* iterate b, probe a *)
    alg_result c AInter a b = (if size_of c a <=? size_of c b then r1 else r2) /\
    set_inv c r1 /\ set_inv c r2 /\
    values_of c r1 = filter (member c b) (values_of c a) /\
    values_of c r2 = filter (member c a) (values_of c b) /\
    (forall x, member c r1 x = member c a x && member c b x) /\
    (forall x, member c r2 x = member c a x && member c b x) /\
    size_of c r1 = size_of c r2.
Proof.
  intros c opsA opsB K a b. pose proof (is_set_kind_tree c K) as K'.
  pose proof (sa_run_inv c opsA K') as Ia. pose proof (sa_run_inv c opsB K') as Ib. fold a in Ia. fold b in Ib.
  destruct (sa_inv_tree c a K Ia) as (ta & na & -> & Ha). destruct (sa_inv_tree c b K Ib) as (tb & nb & -> & Hb).
  exists ta, tb. cbn [size_of]. split; [reflexivity|]. split; [reflexivity|].
  set (r1 := ts_inter_iter c (ta, na) (tb, nb)). set (r2 := ts_inter_iter c (tb, nb) (ta, na)).
  destruct (sa_ts_inter_iter_spec c ta na tb nb K Ha Hb) as (t1 & n1 & E1 & I1 & K1 & M1).
  destruct (sa_ts_inter_iter_spec c tb nb ta na K Hb Ha) as (t2 & n2 & E2 & I2 & K2 & M2).
  assert (J1 : set_inv c r1) by (subst r1; rewrite E1; unfold set_inv; rewrite K; exact I1).
  assert (J2 : set_inv c r2) by (subst r2; rewrite E2; unfold set_inv; rewrite K; exact I2).
  assert (N1 : forall x, member c r1 x = member c (StRB ta na) x && member c (StRB tb nb) x)
    by (subst r1; rewrite E1; exact M1).
  assert (N2 : forall x, member c r2 x = member c (StRB ta na) x && member c (StRB tb nb) x)
    by (subst r2; rewrite E2; intros x; rewrite M2; apply andb_comm).
  split; [cbn [alg_result ts_op]; apply ts_inter_pick|].
  split; [assumption|]. split; [assumption|].
  split; [subst r1; rewrite E1; cbn [values_of]; rewrite K; exact K1|].
  split; [subst r2; rewrite E2; cbn [values_of]; rewrite K; exact K2|].
  split; [assumption|]. split; [assumption|].
  apply sa_size_eq; try assumption. intros x. rewrite N1, N2. reflexivity.
Qed.

Theorem C13_corollaries_proof : forall c opsA opsB, is_set_kind (ckind c) = true ->
  let a := run c opsA in let b := run c opsB in
  let I := alg_result c AInter in let U := alg_result c AUnion in let D := alg_result c ADiff in
  (forall x, member c (U a b) x = member c (U b a) x) /\ size_of c (U a b) = size_of c (U b a) /\
  (forall x, member c (I a b) x = member c (I b a) x) /\ size_of c (I a b) = size_of c (I b a) /\
  set_algebra c AInter (D a b) b = ozs [] /\
  (forall x, member c (U (I a b) (D a b)) x = member c a x) /\
  size_of c (U (I a b) (D a b)) = size_of c a /\
  (ckind c = HashSet \/ ckind c = LinkedHashSet ->
     set_algebra c AInter a b = set_algebra c AInter b a /\ set_algebra c AUnion a b = set_algebra c AUnion b a).
Proof.
  intros c opsA opsB K a b I U D.
  pose proof (sa_run_inv c opsA K) as Ia. pose proof (sa_run_inv c opsB K) as Ib. fold a in Ia. fold b in Ib.
  destruct (alg_comm c AUnion a b ltac:(discriminate) Ia Ib) as [U1 U2].
  destruct (alg_comm c AInter a b ltac:(discriminate) Ia Ib) as [I1 I2].
  destruct (alg_core c AInter a b Ia Ib) as (_ & _ & Ii & Mi & _).
  destruct (alg_core c ADiff a b Ia Ib) as (_ & _ & Id & Md & _).
  fold (I a b) in Ii, Mi. fold (D a b) in Id, Md.
  destruct (alg_core c AUnion (I a b) (D a b) Ii Id) as (_ & _ & Iu & Mu & _). fold (U (I a b) (D a b)) in Iu, Mu.
  assert (Ma : forall x, member c (U (I a b) (D a b)) x = member c a x).
  { intros x. rewrite Mu, Mi, Md. cbn [alg_spec]. destruct (member c a x), (member c b x); reflexivity. }
  split; [exact U1|]. split; [exact U2|]. split; [exact I1|]. split; [exact I2|].
  split; [|split; [exact Ma|split; [apply sa_size_eq; assumption|]]].
  - destruct (alg_list c AInter (D a b) b Id Ib) as (r & E & _ & _ & _ & _ & Hr).
    rewrite E. f_equal. apply (sa_InA_nil (set_cmp c)); [apply set_cmp_SWO|].
    intros x Hx. apply Hr in Hx. rewrite Md in Hx. cbn [alg_spec] in Hx.
    destruct (member c a x), (member c b x); discriminate.
  - intros Kh. split; apply alg_comm_hash; try assumption; discriminate.
Qed.

(* ================================================================================== *)
(* The result is a fully fledged, independent set                                       *)
(* ================================================================================== *)
Lemma sa_run_from_cons c s o more : run_from c s (o :: more) = run_from c (next c s o) more.
Proof. reflexivity. Qed.

(* any history continued from a valid set state: invariant kept, membership by the history scan of C04 *)
Lemma sa_run_from_inv c more : forall s, set_inv c s ->
  set_inv c (run_from c s more) /\
  forall x, member c (run_from c s more) x = live_from (set_cmp c) (rev (set_hist c more)) (member c s) x.
Proof.
  induction more as [|o more IH]; intros s I.
  - split; [exact I|]. intros x. reflexivity.
  - rewrite sa_run_from_cons. destruct (set_step c s o I) as [I1 M1].
    destruct (IH _ I1) as [I2 M2]. split; [exact I2|].
    intros x. rewrite M2. unfold set_hist. cbn [flat_map]. fold (set_hist c more).
    rewrite rev_app_distr, live_from_app. apply live_from_ext. exact M1.
Qed.

Lemma sa_run_app c ops more : run c (ops ++ more) = run_from c (run c ops) more.
Proof. unfold run, run_from. apply fold_left_app. Qed.

Theorem C13_independence_proof : forall c o opsA opsB moreA moreB moreR, is_set_kind (ckind c) = true ->
  let a := run c opsA in let b := run c opsB in
  let res := alg_result c o a b in
  let a' := run_from c a moreA in let b' := run_from c b moreB in let res' := run_from c res moreR in
  (* each of the three sets evolves from its own value only *)
  a' = run c (opsA ++ moreA) /\ b' = run c (opsB ++ moreB) /\
  set_inv c res' /\
  (forall x, member c res' x = live_from (set_cmp c) (rev (set_hist c moreR)) (member c res) x) /\
  (forall x, member c a' x = live_from (set_cmp c) (rev (set_hist c moreA)) (member c a) x) /\
  (forall x, member c b' x = live_from (set_cmp c) (rev (set_hist c moreB)) (member c b) x) /\
  (* and the three original values are still what they were: operands of the same algebra, same result *)
  run c opsA = a /\ run c opsB = b /\ alg_result c o (run c opsA) (run c opsB) = res /\
  set_algebra c o a b = ozs (values_of c res).
Proof.
  intros c o opsA opsB moreA moreB moreR K a b res a' b' res'.
  pose proof (sa_run_inv c opsA K) as Ia. pose proof (sa_run_inv c opsB K) as Ib. fold a in Ia. fold b in Ib.
  destruct (alg_core c o a b Ia Ib) as (H1 & H2 & H3 & _). fold res in H1, H2, H3.
  split; [symmetry; apply sa_run_app|]. split; [symmetry; apply sa_run_app|].
  destruct (sa_run_from_inv c moreR res H3) as [J1 J2].
  split; [exact J1|]. split; [exact J2|].
  split; [apply (sa_run_from_inv c moreA a Ia)|]. split; [apply (sa_run_from_inv c moreB b Ib)|].
  split; [reflexivity|]. split; [reflexivity|]. split; [reflexivity|]. rewrite H1. exact H2.
Qed.

Print Assumptions C13_inter_proof.
Print Assumptions C13_union_proof.
Print Assumptions C13_diff_proof.
Print Assumptions C13_new_set_proof.
Print Assumptions C13_inter_hash_proof.
Print Assumptions C13_union_hash_proof.
Print Assumptions C13_diff_hash_proof.
Print Assumptions C13_treeset_tree_proof.
Print Assumptions C13_treeset_representatives_proof.
Print Assumptions C13_operands_unchanged_proof.
Print Assumptions C13_history_unchanged_proof.
Print Assumptions C13_result_function_proof.
Print Assumptions C13_ops_proof.
Print Assumptions C13_same_object_proof.
Print Assumptions C13_empty_proof.
Print Assumptions C13_sizes_proof.
Print Assumptions C13_corollaries_proof.
Print Assumptions C13_independence_proof.
