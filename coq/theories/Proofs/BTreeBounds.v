(* B-tree height bound: a tree of height h with n entries satisfies n + 1 >= 2 * ceil(m/2)^(h-1). *)
From Coq Require Import ZArith List Lia Bool Arith.
From Gods Require Import Common.Cmp Model.BTree Proofs.BTreeInd Proofs.BTreeMap Proofs.BTreeInv.
Import ListNotations.

Lemma sum_count_lower : forall (P : nat) cs, Forall (fun c => (P <= count c + 1)%nat) cs ->
  (length cs * P <= list_sum (map count cs) + length cs)%nat.
Proof.
  intros P cs H. induction H as [|c cs Hc Hcs IH]; [cbn; lia|].
  cbn [length map]. change (list_sum (count c :: map count cs)) with (count c + list_sum (map count cs))%nat.
  rewrite Nat.mul_succ_l. lia.
Qed.

Section Bounds.
Variable m : nat.
Hypothesis Hm : (3 <= m)%nat.
Notation minE := (minEntries m).

(* a non-root subtree of height h holds at least (minE+1)^h - 1 entries *)
Lemma subtree_lower : forall h n, bal h n -> cnt m minE n -> ((minE + 1) ^ h <= count n + 1)%nat.
Proof.
  induction h as [|h IH]; intros [es cs] Hb Hc; [contradiction|].
  apply cnt_inv in Hc. destruct Hc as [Hlen Hf]. cbn [count]. destruct h as [|h'].
  - apply bal_1 in Hb. subst cs. rewrite Nat.pow_1_r. cbn [map]. change (list_sum []) with 0%nat. lia.
  - apply bal_SS in Hb. destruct Hb as [Hl Hfb].
    assert (Hall : Forall (fun c => ((minE + 1) ^ S h' <= count c + 1)%nat) cs).
    { rewrite Forall_forall in *. intros c Hin. apply IH; [apply Hfb|apply Hf]; exact Hin. }
    pose proof (sum_count_lower _ _ Hall) as Hsum.
    change ((minE + 1) ^ S (S h'))%nat with ((minE + 1) * (minE + 1) ^ S h')%nat.
    assert (Hmul : ((minE + 1) * (minE + 1) ^ S h' <= length cs * (minE + 1) ^ S h')%nat)
      by (apply Nat.mul_le_mono_r; lia).
    lia.
Qed.

Theorem bt_height : forall n h, btree_inv m (Some n) -> height n = h ->
  (2 * (minE + 1) ^ (h - 1) <= count n + 1)%nat.
Proof.
  intros [es cs] h (h0 & Hb & Hc) Hh. rewrite (bal_height _ _ Hb) in Hh. subst h0.
  apply cnt_inv in Hc. destruct Hc as [Hlen Hf]. cbn [count]. destruct h as [|[|h']]; [contradiction| |].
  - replace (1 - 1)%nat with 0%nat by lia. rewrite Nat.pow_0_r. lia.
  - apply bal_SS in Hb. destruct Hb as [Hl Hfb].
    assert (Hall : Forall (fun c => ((minE + 1) ^ S h' <= count c + 1)%nat) cs).
    { rewrite Forall_forall in *. intros c Hin. apply subtree_lower; [apply Hfb|apply Hf]; exact Hin. }
    pose proof (sum_count_lower _ _ Hall) as Hsum.
    replace (S (S h') - 1)%nat with (S h') by lia.
    assert (Hmul : (2 * (minE + 1) ^ S h' <= length cs * (minE + 1) ^ S h')%nat)
      by (apply Nat.mul_le_mono_r; lia).
    lia.
Qed.

(* minE + 1 is ceil(m/2) *)
Lemma minE_ceil : (minE + 1 = (m + 1) / 2)%nat.
Proof.
  unfold minEntries. assert (1 <= (m + 1) / 2)%nat; [|lia].
  apply Nat.div_le_lower_bound; lia.
Qed.
End Bounds.

Print Assumptions bt_height.
