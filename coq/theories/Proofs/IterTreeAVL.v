(* C08 for the AVL tree iterator: the same development as IterTreeRB.v Part 3 (the two tree types are
   different inductives, so the structural lemmas are restated; the cursor and the simulation
   argument are shared).  Node.Next / Node.Prev (walk1) are [node_next] / [node_prev]. *)
From Coq Require Import ZArith List Bool Lia Arith.
From Gods Require Import Common.Cmp Model.Ops Model.Iter Model.Machine Proofs.IterTreeRB.
From Gods Require Model.AVLTree.
Import ListNotations.
Local Open Scope Z_scope.

Module AVLIter.
Import AVLTree.

Fixpoint rank (t : tree) (p : list side) : nat :=
  match t with
  | E => 0%nat
  | T _ l _ _ r =>
    match p with
    | [] => count l
    | L :: p' => rank l p'
    | R :: p' => (S (count l) + rank r p')%nat
    end
  end.

Lemma length_inorder : forall t, length (inorder t) = count t.
Proof.
  induction t as [|c l IHl k v r IHr]; [reflexivity|].
  cbn [inorder count]. rewrite app_length. cbn [length]. lia.
Qed.

Lemma cn_inorder : forall t, cn (inorder t) = Z.of_nat (count t).
Proof. intros t. unfold cn. rewrite length_inorder. reflexivity. Qed.

Lemma subtree_not_E : forall p t, subtree t p <> Some E.
Proof.
  induction p as [|d p IH]; intros t; destruct t as [|c l k v r]; cbn [subtree]; try discriminate.
  apply IH.
Qed.

Lemma subtree_T : forall t p, subtree t p <> None -> exists c l k v r, subtree t p = Some (T c l k v r).
Proof.
  intros t p H. destruct (subtree t p) as [[|c l k v r]|] eqn:Hs.
  - exfalso. exact (subtree_not_E _ _ Hs).
  - exists c, l, k, v, r. reflexivity.
  - congruence.
Qed.

Theorem nth_rank : forall p t c l k v r,
  subtree t p = Some (T c l k v r) -> nth_error (inorder t) (rank t p) = Some (k, v).
Proof.
  induction p as [|d p IH]; intros t c l k v r H.
  - destruct t as [|c0 l0 k0 v0 r0]; cbn [subtree] in H; [discriminate|].
    inversion H; subst. cbn [rank inorder].
    rewrite nth_error_app2 by (rewrite length_inorder; lia).
    rewrite length_inorder, Nat.sub_diag. reflexivity.
  - destruct t as [|c0 l0 k0 v0 r0]; cbn [subtree] in H; [discriminate|].
    destruct d; cbn [rank inorder].
    + pose proof (IH _ _ _ _ _ _ H) as Hn.
      rewrite nth_error_app1; [exact Hn|]. apply nth_error_Some. rewrite Hn. discriminate.
    + rewrite nth_error_app2 by (rewrite length_inorder; lia).
      replace (S (count l0) + rank r0 p - length (inorder l0))%nat with (S (rank r0 p))
        by (rewrite length_inorder; lia).
      cbn [nth_error]. exact (IH _ _ _ _ _ _ H).
Qed.

Lemma rank_lt : forall t p, subtree t p <> None -> (rank t p < count t)%nat.
Proof.
  intros t p H. destruct (subtree_T t p H) as (c & l & k & v & r & Hs).
  rewrite <- length_inorder. apply nth_error_Some. rewrite (nth_rank _ _ _ _ _ _ _ Hs). discriminate.
Qed.

Lemma leftmost_path_T : forall c l k v r,
  leftmost_path (T c l k v r) = match l with E => [] | _ => L :: leftmost_path l end.
Proof. intros c l k v r. destruct l; reflexivity. Qed.
Lemma rightmost_path_T : forall c l k v r,
  rightmost_path (T c l k v r) = match r with E => [] | _ => R :: rightmost_path r end.
Proof. intros c l k v r. destruct r; reflexivity. Qed.

Lemma leftmost_path_spec : forall t, t <> E ->
  subtree t (leftmost_path t) <> None /\ rank t (leftmost_path t) = 0%nat.
Proof.
  induction t as [|c l IHl k v r IHr]; intros Hne; [congruence|].
  rewrite leftmost_path_T. destruct l as [|c1 l1 k1 v1 r1].
  - cbn [subtree rank count]. split; [discriminate|reflexivity].
  - remember (T c1 l1 k1 v1 r1) as l' eqn:El.
    assert (Hl : l' <> E) by (subst; discriminate).
    destruct (IHl Hl) as [H1 H2]. cbn [subtree rank]. split; assumption.
Qed.

Lemma rightmost_path_spec : forall t, t <> E ->
  subtree t (rightmost_path t) <> None /\ S (rank t (rightmost_path t)) = count t.
Proof.
  induction t as [|c l IHl k v r IHr]; intros Hne; [congruence|].
  rewrite rightmost_path_T. destruct r as [|c1 l1 k1 v1 r1].
  - cbn [subtree rank count]. split; [discriminate|lia].
  - remember (T c1 l1 k1 v1 r1) as r' eqn:Er.
    assert (Hr : r' <> E) by (subst; discriminate).
    destruct (IHr Hr) as [H1 H2]. cbn [subtree rank count]. split; [assumption|lia].
Qed.

Lemma climb_next_snoc : forall rp d,
  climb_next (rp ++ [d]) =
  match climb_next rp with
  | Some q => Some (d :: q)
  | None => match d with L => Some [] | R => None end
  end.
Proof.
  induction rp as [|x rp IH]; intros d.
  - destruct d; reflexivity.
  - destruct x; cbn [app climb_next].
    + rewrite rev_app_distr. reflexivity.
    + apply IH.
Qed.

Lemma climb_prev_snoc : forall rp d,
  climb_prev (rp ++ [d]) =
  match climb_prev rp with
  | Some q => Some (d :: q)
  | None => match d with R => Some [] | L => None end
  end.
Proof.
  induction rp as [|x rp IH]; intros d.
  - destruct d; reflexivity.
  - destruct x; cbn [app climb_prev].
    + apply IH.
    + rewrite rev_app_distr. reflexivity.
Qed.

Definition child (d : side) (l r : tree) : tree := match d with L => l | R => r end.

Lemma node_next_cons : forall c l k v r d p,
  node_next (T c l k v r) (d :: p) =
  match node_next (child d l r) p with
  | Some q => Some (d :: q)
  | None => match d with L => Some [] | R => None end
  end.
Proof.
  intros c l k v r d p. unfold node_next. cbn [subtree]. fold (child d l r).
  destruct (subtree (child d l r) p) as [[|c1 l1 k1 v1 [|c2 l2 k2 v2 r2]]|];
    cbn [rev]; try apply climb_next_snoc.
  reflexivity.
Qed.

Lemma node_prev_cons : forall c l k v r d p,
  node_prev (T c l k v r) (d :: p) =
  match node_prev (child d l r) p with
  | Some q => Some (d :: q)
  | None => match d with R => Some [] | L => None end
  end.
Proof.
  intros c l k v r d p. unfold node_prev. cbn [subtree]. fold (child d l r).
  destruct (subtree (child d l r) p) as [[|c1 [|c2 l2 k2 v2 r2] k1 v1 r1]|];
    cbn [rev]; try apply climb_prev_snoc.
  reflexivity.
Qed.

(* Node.Next: the in-order successor, or nil exactly at the last node *)
Theorem node_next_spec : forall p t, subtree t p <> None ->
  match node_next t p with
  | Some q => subtree t q <> None /\ rank t q = S (rank t p)
  | None => S (rank t p) = count t
  end.
Proof.
  induction p as [|d p IH]; intros t H.
  - destruct t as [|c l k v r]; cbn [subtree] in H; [congruence|].
    unfold node_next. cbn [subtree]. destruct r as [|c1 l1 k1 v1 r1].
    + cbn [rev climb_next rank count]. lia.
    + remember (T c1 l1 k1 v1 r1) as r' eqn:Er.
      assert (Hr : r' <> E) by (subst; discriminate).
      destruct (leftmost_path_spec r' Hr) as [H1 H2].
      cbn [app subtree rank]. split; [exact H1|lia].
  - destruct t as [|c l k v r]; cbn [subtree] in H; [congruence|].
    rewrite node_next_cons. fold (child d l r) in H.
    specialize (IH (child d l r) H).
    destruct (node_next (child d l r) p) as [q|].
    + destruct IH as [IH1 IH2]. destruct d; cbn [child] in IH1, IH2; cbn [subtree rank].
      * split; [exact IH1|lia].
      * split; [exact IH1|lia].
    + destruct d; cbn [child] in IH; cbn [subtree rank count].
      * split; [discriminate|lia].
      * lia.
Qed.

Theorem node_prev_spec : forall p t, subtree t p <> None ->
  match node_prev t p with
  | Some q => subtree t q <> None /\ S (rank t q) = rank t p
  | None => rank t p = 0%nat
  end.
Proof.
  induction p as [|d p IH]; intros t H.
  - destruct t as [|c l k v r]; cbn [subtree] in H; [congruence|].
    unfold node_prev. cbn [subtree]. destruct l as [|c1 l1 k1 v1 r1].
    + cbn [rev climb_prev rank count]. reflexivity.
    + remember (T c1 l1 k1 v1 r1) as l' eqn:El.
      assert (Hl : l' <> E) by (subst; discriminate).
      destruct (rightmost_path_spec l' Hl) as [H1 H2].
      cbn [app subtree rank]. split; [exact H1|lia].
  - destruct t as [|c l k v r]; cbn [subtree] in H; [congruence|].
    rewrite node_prev_cons. fold (child d l r) in H.
    specialize (IH (child d l r) H).
    destruct (node_prev (child d l r) p) as [q|].
    + destruct IH as [IH1 IH2]. destruct d; cbn [child] in IH1, IH2; cbn [subtree rank].
      * split; [exact IH1|lia].
      * split; [exact IH1|lia].
    + destruct d; cbn [child] in IH; cbn [subtree rank count].
      * exact IH.
      * split; [discriminate|lia].
Qed.

Theorem inext_spec : forall p t, subtree t p <> None ->
  match inext t (IBetween p) with
  | IBetween q => subtree t q <> None /\ rank t q = S (rank t p)
  | IEnd => S (rank t p) = count t
  | IBegin => False
  end.
Proof.
  intros p t H. pose proof (node_next_spec p t H) as Hs. cbn [inext].
  destruct (node_next t p) as [q|]; exact Hs.
Qed.

Theorem iprev_spec : forall p t, subtree t p <> None ->
  match iprev t (IBetween p) with
  | IBetween q => subtree t q <> None /\ S (rank t q) = rank t p
  | IBegin => rank t p = 0%nat
  | IEnd => False
  end.
Proof.
  intros p t H. pose proof (node_prev_spec p t H) as Hs. cbn [iprev].
  destruct (node_prev t p) as [q|]; exact Hs.
Qed.

Theorem inext_begin : forall t,
  match inext t IBegin with
  | IBetween q => subtree t q <> None /\ rank t q = 0%nat
  | IEnd => t = E
  | IBegin => False
  end.
Proof.
  intros t. destruct t as [|c l k v r]; cbn [inext]; [reflexivity|].
  apply leftmost_path_spec. discriminate.
Qed.

Theorem iprev_end : forall t,
  match iprev t IEnd with
  | IBetween q => subtree t q <> None /\ S (rank t q) = count t
  | IBegin => t = E
  | IEnd => False
  end.
Proof.
  intros t. destruct t as [|c l k v r]; cbn [iprev]; [reflexivity|].
  apply rightmost_path_spec. discriminate.
Qed.

Lemma inext_end : forall t, inext t IEnd = IEnd.
Proof. reflexivity. Qed.
Lemma iprev_begin : forall t, iprev t IBegin = IBegin.
Proof. reflexivity. Qed.

Definition pos_of (t : tree) (it : ipos) : Z :=
  match it with
  | IBegin => -1
  | IEnd => Z.of_nat (count t)
  | IBetween p => Z.of_nat (rank t p)
  end.
Definition valid (t : tree) (it : ipos) : Prop :=
  match it with IBetween p => subtree t p <> None | _ => True end.
Definition is_between (it : ipos) : bool := match it with IBetween _ => true | _ => false end.

Lemma pos_of_range : forall t it, valid t it -> -1 <= pos_of t it <= cn (inorder t).
Proof.
  intros t it H. rewrite cn_inorder. destruct it as [| |p]; cbn [pos_of]; try lia.
  pose proof (rank_lt t p H). lia.
Qed.

Lemma is_between_in : forall t it, valid t it -> is_between it = c_in (inorder t) (pos_of t it).
Proof.
  intros t it H. unfold c_in. rewrite cn_inorder. destruct it as [| |p]; cbn [pos_of is_between].
  - reflexivity.
  - rewrite Z.ltb_irrefl. symmetry. apply andb_false_r.
  - pose proof (rank_lt t p H) as Hlt. symmetry. apply andb_true_iff. split.
    + apply Z.leb_le. lia.
    + apply Z.ltb_lt. lia.
Qed.

Lemma inext_pos : forall t it, valid t it ->
  valid t (inext t it) /\ pos_of t (inext t it) = c_next (inorder t) (pos_of t it).
Proof.
  intros t it H. unfold c_next. rewrite cn_inorder. destruct it as [| |p].
  - pose proof (inext_begin t) as Hb. cbn [pos_of].
    destruct (inext t IBegin) as [| |q]; [contradiction| |].
    + subst t. cbn. split; [exact I|reflexivity].
    + destruct Hb as [Hb1 Hb2]. cbn [valid pos_of]. split; [exact Hb1|].
      rewrite Hb2. destruct (-1 <? Z.of_nat (count t)) eqn:E; [reflexivity|apply Z.ltb_ge in E; lia].
  - cbn [inext valid pos_of]. rewrite Z.ltb_irrefl. split; [exact I|reflexivity].
  - cbn [valid] in H. pose proof (inext_spec p t H) as Hs. pose proof (rank_lt t p H) as Hlt.
    cbn [pos_of]. destruct (Z.of_nat (rank t p) <? Z.of_nat (count t)) eqn:E;
      [|apply Z.ltb_ge in E; lia].
    destruct (inext t (IBetween p)) as [| |q]; [contradiction| |].
    + cbn [valid pos_of]. split; [exact I|lia].
    + destruct Hs as [Hs1 Hs2]. cbn [valid pos_of]. split; [exact Hs1|lia].
Qed.

Lemma iprev_pos : forall t it, valid t it ->
  valid t (iprev t it) /\ pos_of t (iprev t it) = c_prev (pos_of t it).
Proof.
  intros t it H. unfold c_prev. destruct it as [| |p].
  - cbn [iprev valid pos_of]. split; [exact I|reflexivity].
  - pose proof (iprev_end t) as Hb. cbn [pos_of].
    destruct (0 <=? Z.of_nat (count t)) eqn:E; [|apply Z.leb_gt in E; lia].
    destruct (iprev t IEnd) as [| |q]; [|contradiction|].
    + subst t. cbn. split; [exact I|reflexivity].
    + destruct Hb as [Hb1 Hb2]. cbn [valid pos_of]. split; [exact Hb1|lia].
  - cbn [valid] in H. pose proof (iprev_spec p t H) as Hs.
    cbn [pos_of]. destruct (0 <=? Z.of_nat (rank t p)) eqn:E; [|apply Z.leb_gt in E; lia].
    destruct (iprev t (IBetween p)) as [| |q]; [|contradiction|].
    + cbn [valid pos_of]. split; [exact I|lia].
    + destruct Hs as [Hs1 Hs2]. cbn [valid pos_of]. split; [exact Hs1|lia].
Qed.

Lemma avl_next_ok : forall t it, valid t it ->
  exists it', avl_next t it = Some (it', c_in (inorder t) (c_next (inorder t) (pos_of t it))) /\
              valid t it' /\ pos_of t it' = c_next (inorder t) (pos_of t it).
Proof.
  intros t it H. destruct (inext_pos t it H) as [Hv Hp].
  exists (inext t it). split; [|split; assumption].
  unfold avl_next. fold (is_between (inext t it)). rewrite (is_between_in t _ Hv), Hp. reflexivity.
Qed.

Lemma avl_prev_ok : forall t it, valid t it ->
  exists it', avl_prev t it = Some (it', c_in (inorder t) (c_prev (pos_of t it))) /\
              valid t it' /\ pos_of t it' = c_prev (pos_of t it).
Proof.
  intros t it H. destruct (iprev_pos t it H) as [Hv Hp].
  exists (iprev t it). split; [|split; assumption].
  unfold avl_prev. fold (is_between (iprev t it)). rewrite (is_between_in t _ Hv), Hp. reflexivity.
Qed.

Lemma ikv_ok : forall t it, valid t it -> c_in (inorder t) (pos_of t it) = true ->
  ikv t it = nth_error (inorder t) (Z.to_nat (pos_of t it)).
Proof.
  intros t it H Hin. rewrite <- (is_between_in t it H) in Hin.
  destruct it as [| |p]; cbn [is_between] in Hin; try discriminate.
  cbn [valid] in H. destruct (subtree_T t p H) as (c & l & k & v & r & Hs).
  cbn [ikv pos_of]. rewrite Hs, Nat2Z.id. symmetry. exact (nth_rank _ _ _ _ _ _ _ Hs).
Qed.

Theorem avl_run_from : forall t fuel it cs, (count t + 2 <= fuel)%nat -> valid t it ->
  run_script ipos (avl_next t) (avl_prev t) (fun _ => IBegin) (fun _ => IEnd) (ikv t) true fuel it cs =
  cursor_run (inorder t) true (pos_of t it) cs.
Proof.
  intros t fuel it cs Hf Hv.
  apply (sim_run ipos (avl_next t) (avl_prev t) (fun _ => IBegin) (fun _ => IEnd) (ikv t) true
           (inorder t) (valid t) (pos_of t)).
  - apply pos_of_range.
  - apply avl_next_ok.
  - apply avl_prev_ok.
  - intros s _. split; [exact I|reflexivity].
  - intros s _. split; [exact I|]. cbn [pos_of]. symmetry. apply cn_inorder.
  - apply ikv_ok.
  - rewrite length_inorder. exact Hf.
  - exact Hv.
Qed.

Theorem avl_iter_script : forall t fuel cs, (count t + 2 <= fuel)%nat ->
  run_script ipos (avl_next t) (avl_prev t) (fun _ => IBegin) (fun _ => IEnd) (ikv t) true fuel IBegin cs =
  cursor_script (inorder t) true cs.
Proof. intros t fuel cs Hf. exact (avl_run_from t fuel IBegin cs Hf I). Qed.

Theorem avl_walk_forward : forall t fuel, (count t + 2 <= fuel)%nat ->
  walk ipos (ikv t) (avl_next t) fuel IBegin = Some (inorder t).
Proof.
  intros t fuel Hf.
  rewrite (sim_walk_next ipos (avl_next t) (ikv t) (inorder t) (valid t) (pos_of t)
             (pos_of_range t) (avl_next_ok t) (ikv_ok t) fuel IBegin I).
  - reflexivity.
  - rewrite cn_inorder. cbn [pos_of]. lia.
Qed.

Theorem avl_walk_backward : forall t fuel, (count t + 2 <= fuel)%nat ->
  walk ipos (ikv t) (avl_prev t) fuel IEnd = Some (rev (inorder t)).
Proof.
  intros t fuel Hf.
  rewrite (sim_walk_prev ipos (avl_prev t) (ikv t) (inorder t) (valid t) (pos_of t)
             (pos_of_range t) (avl_prev_ok t) (ikv_ok t) fuel IEnd I).
  - cbn [pos_of]. rewrite Nat2Z.id, <- length_inorder, firstn_all. reflexivity.
  - cbn [pos_of]. lia.
Qed.
End AVLIter.

(* ---------- machine level ---------- *)
Theorem run_iter_avl : forall c t n cs, n = Z.of_nat (AVL.count t) ->
  run_iter c (StAVL t n) cs = cursor_script (AVL.inorder t) true cs.
Proof.
  intros c t n cs Hn. subst n. unfold run_iter, script_fuel, size_of. rewrite Nat2Z.id.
  apply AVLIter.avl_iter_script. lia.
Qed.

Theorem each_of_avl : forall c t n, n = Z.of_nat (AVL.count t) ->
  each_of c (StAVL t n) = Some (AVL.inorder t).
Proof.
  intros c t n Hn. subst n. unfold each_of, script_fuel, size_of. rewrite Nat2Z.id.
  apply AVLIter.avl_walk_forward. lia.
Qed.

Theorem each_back_avl : forall c t n, n = Z.of_nat (AVL.count t) ->
  each_back c (StAVL t n) = Some (rev (AVL.inorder t)).
Proof.
  intros c t n Hn. subst n. unfold each_back, script_fuel, size_of. rewrite Nat2Z.id.
  apply AVLIter.avl_walk_backward. lia.
Qed.
