(* The linear iterators of property C08: a cursor over positions -1..n of the container's
   (index-or-key, value) sequence, and the proof that every index iterator and every linked-list
   iterator of Model/Iter.v behaves exactly like that cursor on every script of calls. *)
From Coq Require Import ZArith List Bool Lia Arith.
From Gods Require Import Common.Cmp Common.ListAux Spec.SeqSpec Model.Ops Model.Lists Model.Iter Model.Machine.
From Gods Require Model.Heap Model.Ring.
From Gods Require Import Proofs.ListsProofs.
Import ListNotations.
Local Open Scope Z_scope.

(* ====================================================================================== *)
(* The cursor specification                                                                *)
(* ====================================================================================== *)
Section Cursor.
Variable l : list (Z * Z).          (* the (index-or-key, value) sequence the container enumerates *)
Variable has_prev : bool.           (* false: forward-only iterator *)

Definition cur_n : Z := zlen l.
(* the state is a position p in [-1, n]: -1 = before the first, n = past the last *)
Definition cur_next (p : Z) : Z := if p <? cur_n then p + 1 else p.
Definition cur_prev (p : Z) : Z := if 0 <=? p then p - 1 else p.
Definition cur_in (p : Z) : bool := (0 <=? p) && (p <? cur_n).
Definition cur_elem (p : Z) : option (Z * Z) := if cur_in p then nth_error l (Z.to_nat p) else None.
Definition cur_holds (pr : pred) (p : Z) : bool :=
  match cur_elem p with Some (i, v) => pred_eval pr i v | None => false end.
(* examine positions j, j+1, ... (k of them) and stop at the first one satisfying the predicate *)
Fixpoint search_up (pr : pred) (k : nat) (j : Z) : Z :=
  match k with O => j | S k' => if cur_holds pr j then j else search_up pr k' (j + 1) end.
Fixpoint search_down (pr : pred) (k : nat) (j : Z) : Z :=
  match k with O => j | S k' => if cur_holds pr j then j else search_down pr k' (j - 1) end.
(* the least j > p satisfying the predicate, else n;  the greatest j < p, else -1 *)
Definition cur_next_to (pr : pred) (p : Z) : Z :=
  if p <? cur_n then search_up pr (Z.to_nat (cur_n - p - 1)) (p + 1) else p.
Definition cur_prev_to (pr : pred) (p : Z) : Z :=
  if 0 <=? p then search_down pr (Z.to_nat p) (p - 1) else p.

(* what a move to position p reports: (true, Index/Key, Value) on an element, false otherwise *)
Definition cur_obs (p : Z) : obs :=
  match cur_elem p with Some (i, v) => OL [OZ 1; OZ i; OZ v] | None => OL [OZ 0] end.
Definition land (p : Z) : Z * obs := (p, cur_obs p).

Definition cursor_call (p : Z) (c : icall) : Z * obs :=
  match c with
  | CNext => land (cur_next p)
  | CBegin => (-1, ounit)
  | CFirst => land (cur_next (-1))
  | CNextTo pr => land (cur_next_to pr p)
  | CPrev => if has_prev then land (cur_prev p) else (p, ounsupported)
  | CEnd => if has_prev then (cur_n, ounit) else (p, ounsupported)
  | CLast => if has_prev then land (cur_prev cur_n) else (p, ounsupported)
  | CPrevTo pr => if has_prev then land (cur_prev_to pr p) else (p, ounsupported)
  end.

Fixpoint cursor_script_from (p : Z) (cs : list icall) : list obs :=
  match cs with
  | [] => []
  | c :: cs' => let r := cursor_call p c in snd r :: cursor_script_from (fst r) cs'
  end.
(* a fresh iterator is before the first element *)
Definition cursor_script (cs : list icall) : list obs := cursor_script_from (-1) cs.

(* ---------- the cursor laws ---------- *)
Lemma cur_n_nonneg : 0 <= cur_n.
Proof. unfold cur_n, zlen. lia. Qed.

Lemma cur_in_true : forall p, cur_in p = true <-> 0 <= p < cur_n.
Proof. intros p. unfold cur_in. rewrite andb_true_iff, Z.leb_le, Z.ltb_lt. tauto. Qed.

Lemma cur_in_false : forall p, cur_in p = false <-> ~ (0 <= p < cur_n).
Proof. intros p. rewrite <- cur_in_true. destruct (cur_in p); split; intro H; congruence. Qed.

Lemma cur_elem_some : forall p, cur_in p = true -> exists e, nth_error l (Z.to_nat p) = Some e /\ cur_elem p = Some e.
Proof.
  intros p H. unfold cur_elem. rewrite H. apply cur_in_true in H.
  destruct (nth_error l (Z.to_nat p)) as [e|] eqn:E; [exists e; auto|].
  apply nth_error_None in E. unfold cur_n, zlen in H. lia.
Qed.

Lemma cur_elem_none : forall p, cur_in p = false -> cur_elem p = None.
Proof. intros p H. unfold cur_elem. rewrite H. reflexivity. Qed.

(* Next and Prev move one step and saturate at n and -1 *)
Theorem cur_next_step : forall p, p < cur_n -> cur_next p = p + 1.
Proof. intros p H. unfold cur_next. apply Z.ltb_lt in H. rewrite H. reflexivity. Qed.
Theorem cur_next_saturates : forall p, cur_n <= p -> cur_next p = p.
Proof. intros p H. unfold cur_next. apply Z.ltb_ge in H. rewrite H. reflexivity. Qed.
Theorem cur_prev_step : forall p, 0 <= p -> cur_prev p = p - 1.
Proof. intros p H. unfold cur_prev. apply Z.leb_le in H. rewrite H. reflexivity. Qed.
Theorem cur_prev_saturates : forall p, p < 0 -> cur_prev p = p.
Proof. intros p H. unfold cur_prev. apply Z.leb_gt in H. rewrite H. reflexivity. Qed.

Lemma cur_next_range : forall p, -1 <= p <= cur_n -> -1 <= cur_next p <= cur_n.
Proof. intros p H. unfold cur_next. destruct (p <? cur_n) eqn:E; [apply Z.ltb_lt in E|]; lia. Qed.
Lemma cur_prev_range : forall p, -1 <= p <= cur_n -> -1 <= cur_prev p <= cur_n.
Proof. intros p H. unfold cur_prev. destruct (0 <=? p) eqn:E; [apply Z.leb_le in E|]; lia. Qed.

(* search_up: the least matching position among j .. j+k-1, or j+k *)
Lemma search_up_spec : forall pr k j,
  let r := search_up pr k j in
  j <= r <= j + Z.of_nat k /\
  (r < j + Z.of_nat k -> cur_holds pr r = true) /\
  (forall q, j <= q < r -> cur_holds pr q = false).
Proof.
  intros pr k. induction k as [|k IH]; intros j; cbn [search_up].
  - cbn zeta. split; [lia|]. split; intros; lia.
  - cbn zeta. destruct (cur_holds pr j) eqn:E.
    + split; [lia|]. split; [auto|]. intros; lia.
    + specialize (IH (j + 1)). cbn zeta in IH. destruct IH as [H1 [H2 H3]].
      split; [lia|]. split.
      * intros H. apply H2. lia.
      * intros q Hq. destruct (Z.eq_dec q j) as [->|Hne]; [exact E|]. apply H3. lia.
Qed.

Lemma search_down_spec : forall pr k j,
  let r := search_down pr k j in
  j - Z.of_nat k <= r <= j /\
  (j - Z.of_nat k < r -> cur_holds pr r = true) /\
  (forall q, r < q <= j -> cur_holds pr q = false).
Proof.
  intros pr k. induction k as [|k IH]; intros j; cbn [search_down].
  - cbn zeta. split; [lia|]. split; intros; lia.
  - cbn zeta. destruct (cur_holds pr j) eqn:E.
    + split; [lia|]. split; [auto|]. intros; lia.
    + specialize (IH (j - 1)). cbn zeta in IH. destruct IH as [H1 [H2 H3]].
      split; [lia|]. split.
      * intros H. apply H2. lia.
      * intros q Hq. destruct (Z.eq_dec q j) as [->|Hne]; [exact E|]. apply H3. lia.
Qed.

(* NextTo: the LEAST later position satisfying the predicate, or n when there is none *)
Theorem cur_next_to_least : forall pr p, -1 <= p < cur_n ->
  let r := cur_next_to pr p in
  p < r <= cur_n /\
  (r < cur_n -> cur_holds pr r = true) /\
  (forall q, p < q < r -> cur_holds pr q = false).
Proof.
  intros pr p Hp. cbn zeta. unfold cur_next_to.
  replace (p <? cur_n) with true by (symmetry; apply Z.ltb_lt; lia).
  pose proof (search_up_spec pr (Z.to_nat (cur_n - p - 1)) (p + 1)) as H. cbn zeta in H.
  rewrite Z2Nat.id in H by lia. destruct H as [H1 [H2 H3]].
  split; [lia|]. split.
  - intros H. apply H2. lia.
  - intros q Hq. apply H3. lia.
Qed.
Theorem cur_next_to_at_end : forall pr p, cur_n <= p -> cur_next_to pr p = p.
Proof. intros pr p H. unfold cur_next_to. apply Z.ltb_ge in H. rewrite H. reflexivity. Qed.

(* PrevTo: the GREATEST earlier position satisfying the predicate, or -1 *)
Theorem cur_prev_to_greatest : forall pr p, 0 <= p <= cur_n ->
  let r := cur_prev_to pr p in
  -1 <= r < p /\
  (-1 < r -> cur_holds pr r = true) /\
  (forall q, r < q < p -> cur_holds pr q = false).
Proof.
  intros pr p Hp. cbn zeta. unfold cur_prev_to.
  replace (0 <=? p) with true by (symmetry; apply Z.leb_le; lia).
  pose proof (search_down_spec pr (Z.to_nat p) (p - 1)) as H. cbn zeta in H.
  rewrite Z2Nat.id in H by lia. destruct H as [H1 [H2 H3]].
  split; [lia|]. split.
  - intros H. apply H2. lia.
  - intros q Hq. apply H3. lia.
Qed.
Theorem cur_prev_to_at_begin : forall pr p, p < 0 -> cur_prev_to pr p = p.
Proof. intros pr p H. unfold cur_prev_to. apply Z.leb_gt in H. rewrite H. reflexivity. Qed.

Lemma cur_next_to_range : forall pr p, -1 <= p <= cur_n -> -1 <= cur_next_to pr p <= cur_n.
Proof.
  intros pr p H. destruct (Z_lt_dec p cur_n) as [Hlt|Hge].
  - pose proof (cur_next_to_least pr p (conj (proj1 H) Hlt)) as [H1 _]. lia.
  - rewrite cur_next_to_at_end by lia. lia.
Qed.
Lemma cur_prev_to_range : forall pr p, -1 <= p <= cur_n -> -1 <= cur_prev_to pr p <= cur_n.
Proof.
  intros pr p H. destruct (Z_lt_dec p 0) as [Hlt|Hge].
  - rewrite cur_prev_to_at_begin by lia. lia.
  - pose proof (cur_prev_to_greatest pr p) as H1. cbn zeta in H1. lia.
Qed.

(* positions stay within [-1, n] *)
Theorem cursor_call_range : forall p c, -1 <= p <= cur_n -> -1 <= fst (cursor_call p c) <= cur_n.
Proof.
  intros p c H. pose proof cur_n_nonneg as Hn.
  destruct c as [| | | | | |pr|pr]; cbn [cursor_call]; try destruct has_prev; cbn [land fst]; try lia;
    first [apply cur_next_range | apply cur_prev_range | apply cur_next_to_range | apply cur_prev_to_range]; lia.
Qed.

(* a move answers true exactly when the new position is within 0..n-1, and then Index()/Key() and
   Value() are those of the element at that position *)
Theorem cur_obs_true : forall p, 0 <= p < cur_n ->
  exists i v, nth_error l (Z.to_nat p) = Some (i, v) /\ cur_obs p = OL [OZ 1; OZ i; OZ v].
Proof.
  intros p H. apply cur_in_true in H. destruct (cur_elem_some p H) as [[i v] [H1 H2]].
  exists i, v. split; [exact H1|]. unfold cur_obs. rewrite H2. reflexivity.
Qed.
Theorem cur_obs_false : forall p, ~ (0 <= p < cur_n) -> cur_obs p = OL [OZ 0].
Proof. intros p H. apply cur_in_false in H. unfold cur_obs. rewrite (cur_elem_none p H). reflexivity. Qed.

Theorem cursor_move_result : forall p c, -1 <= p <= cur_n ->
  match c with CBegin | CEnd => True | _ =>
    (c = CPrev \/ c = CLast \/ (exists pr, c = CPrevTo pr)) /\ has_prev = false /\ cursor_call p c = (p, ounsupported)
    \/
    let p' := fst (cursor_call p c) in
    (0 <= p' < cur_n /\ exists i v, nth_error l (Z.to_nat p') = Some (i, v) /\ snd (cursor_call p c) = OL [OZ 1; OZ i; OZ v])
    \/ ((p' = -1 \/ p' = cur_n) /\ snd (cursor_call p c) = OL [OZ 0])
  end.
Proof.
  intros p c Hp.
  assert (G : forall q, -1 <= q <= cur_n ->
            (0 <= q < cur_n /\ exists i v, nth_error l (Z.to_nat q) = Some (i, v) /\ cur_obs q = OL [OZ 1; OZ i; OZ v])
            \/ ((q = -1 \/ q = cur_n) /\ cur_obs q = OL [OZ 0])).
  { intros q Hq. destruct (Z_lt_dec q 0) as [H0|H0].
    - right. split; [lia|]. apply cur_obs_false. lia.
    - destruct (Z_lt_dec q cur_n) as [H1|H1].
      + left. split; [lia|]. apply cur_obs_true. lia.
      + right. split; [lia|]. apply cur_obs_false. lia. }
  pose proof (cursor_call_range p c Hp) as Hr.
  destruct c as [| | | | | |pr|pr]; try exact I; cbn [cursor_call] in *;
    try (destruct has_prev; [|left; split; [eauto|split; reflexivity]]);
    right; cbn [land fst snd] in *; apply G; exact Hr.
Qed.

(* First = Begin then Next: lands on 0 and answers true, or answers false on an empty container *)
Theorem cursor_first : forall p,
  cursor_call p CFirst = cursor_call (fst (cursor_call p CBegin)) CNext /\
  fst (cursor_call p CFirst) = 0 /\
  (snd (cursor_call p CFirst) = OL [OZ 0] <-> cur_n = 0).
Proof.
  intros p. pose proof cur_n_nonneg as Hn. cbn [cursor_call land fst snd].
  split; [reflexivity|].
  assert (H0 : cur_next (-1) = 0).
  { destruct (Z.eq_dec cur_n 0) as [E|E].
    - unfold cur_next. rewrite E. reflexivity.
    - rewrite cur_next_step by lia. reflexivity. }
  rewrite H0. split; [reflexivity|]. split.
  - intros H. destruct (Z.eq_dec cur_n 0) as [E|E]; [exact E|].
    destruct (cur_obs_true 0) as [i [v [_ H1]]]; [lia|]. rewrite H1 in H. discriminate.
  - intros E. apply cur_obs_false. lia.
Qed.

(* Last = End then Prev *)
Theorem cursor_last : forall p, has_prev = true ->
  cursor_call p CLast = cursor_call (fst (cursor_call p CEnd)) CPrev /\
  fst (cursor_call p CLast) = cur_n - 1.
Proof.
  intros p Hh. pose proof cur_n_nonneg as Hn. cbn [cursor_call]. rewrite Hh. cbn [land fst].
  split; [reflexivity|]. apply cur_prev_step. exact Hn.
Qed.

Theorem cursor_begin_end : forall p,
  cursor_call p CBegin = (-1, ounit) /\ (has_prev = true -> cursor_call p CEnd = (cur_n, ounit)).
Proof. intros p. split; [reflexivity|]. intros H. cbn [cursor_call]. rewrite H. reflexivity. Qed.

(* forward-only iterators: the backward half does not exist *)
Theorem cursor_forward_only : forall p c, has_prev = false ->
  match c with
  | CPrev | CEnd | CLast | CPrevTo _ => cursor_call p c = (p, ounsupported)
  | _ => True
  end.
Proof. intros p c H. destruct c; cbn [cursor_call]; try rewrite H; auto. Qed.

(* one-step unfoldings used by the refinement proof *)
Lemma cur_next_to_unfold : forall pr p, -1 <= p < cur_n ->
  cur_next_to pr p =
  if cur_in (p + 1) then (if cur_holds pr (p + 1) then p + 1 else cur_next_to pr (p + 1)) else p + 1.
Proof.
  intros pr p Hp. unfold cur_next_to at 1.
  replace (p <? cur_n) with true by (symmetry; apply Z.ltb_lt; lia).
  destruct (cur_in (p + 1)) eqn:E.
  - apply cur_in_true in E.
    replace (Z.to_nat (cur_n - p - 1)) with (S (Z.to_nat (cur_n - (p + 1) - 1))) by lia.
    cbn [search_up]. destruct (cur_holds pr (p + 1)); [reflexivity|].
    unfold cur_next_to. replace (p + 1 <? cur_n) with true by (symmetry; apply Z.ltb_lt; lia).
    reflexivity.
  - apply cur_in_false in E. replace (Z.to_nat (cur_n - p - 1)) with O by lia. reflexivity.
Qed.

Lemma cur_prev_to_unfold : forall pr p, 0 <= p <= cur_n ->
  cur_prev_to pr p =
  if cur_in (p - 1) then (if cur_holds pr (p - 1) then p - 1 else cur_prev_to pr (p - 1)) else p - 1.
Proof.
  intros pr p Hp. unfold cur_prev_to at 1.
  replace (0 <=? p) with true by (symmetry; apply Z.leb_le; lia).
  destruct (cur_in (p - 1)) eqn:E.
  - apply cur_in_true in E.
    replace (Z.to_nat p) with (S (Z.to_nat (p - 1))) by lia.
    cbn [search_down]. destruct (cur_holds pr (p - 1)); [reflexivity|].
    unfold cur_prev_to. replace (0 <=? p - 1) with true by (symmetry; apply Z.leb_le; lia).
    reflexivity.
  - apply cur_in_false in E. replace (Z.to_nat p) with O by lia. reflexivity.
Qed.

(* ====================================================================================== *)
(* Generic simulation: any iterator whose states represent positions refines the cursor    *)
(* ====================================================================================== *)
Section Simulation.
Variable St : Type.
Variable next prev : St -> option (St * bool).
Variable begin_ end_ : St -> St.
Variable cur : St -> option (Z * Z).
Variable R : Z -> St -> Prop.       (* "state s is at position p" *)
Hypothesis R_range : forall p s, R p s -> -1 <= p <= cur_n.
Hypothesis R_next : forall p s, R p s ->
  exists s', next s = Some (s', cur_in (cur_next p)) /\ R (cur_next p) s'.
Hypothesis R_prev : forall p s, R p s ->
  exists s', prev s = Some (s', cur_in (cur_prev p)) /\ R (cur_prev p) s'.
Hypothesis R_begin : forall p s, R p s -> R (-1) (begin_ s).
Hypothesis R_end : forall p s, R p s -> R cur_n (end_ s).
Hypothesis R_cur : forall p s, R p s -> cur_in p = true -> cur s = nth_error l (Z.to_nat p).

Lemma sim_moved : forall p s, R p s -> moved St cur s (cur_in p) = Some (s, cur_obs p).
Proof.
  intros p s HR. unfold moved, cur_obs. destruct (cur_in p) eqn:E.
  - rewrite (R_cur p s HR E). destruct (cur_elem_some p E) as [[i v] [H1 H2]].
    rewrite H1, H2. reflexivity.
  - rewrite (cur_elem_none p E). reflexivity.
Qed.

Lemma sim_next_to : forall pr fuel p s, R p s -> (Z.to_nat (cur_n - p) + 1 <= fuel)%nat ->
  exists s', move_to St cur next pr fuel s = Some (s', cur_in (cur_next_to pr p)) /\ R (cur_next_to pr p) s'.
Proof.
  intros pr fuel. induction fuel as [|f IH]; intros p s HR Hf; [lia|].
  pose proof (R_range p s HR) as Hp.
  destruct (R_next p s HR) as [s' [Hn HR']]. cbn [move_to]. rewrite Hn.
  destruct (Z_lt_dec p cur_n) as [Hlt|Hge].
  - rewrite cur_next_step in * by exact Hlt.
    rewrite (cur_next_to_unfold pr p) by lia.
    destruct (cur_in (p + 1)) eqn:E.
    + rewrite (R_cur (p + 1) s' HR' E). unfold cur_holds.
      destruct (cur_elem_some (p + 1) E) as [[i v] [H1 H2]]. rewrite H1, H2.
      destruct (pred_eval pr i v).
      * exists s'. rewrite E. split; [reflexivity | exact HR'].
      * apply IH; [exact HR' | lia].
    + exists s'. rewrite E. split; [reflexivity | exact HR'].
  - rewrite cur_next_saturates in * by lia.
    rewrite cur_next_to_at_end by lia.
    replace (cur_in p) with false in * by (symmetry; apply cur_in_false; lia).
    exists s'. split; [reflexivity | exact HR'].
Qed.

Lemma sim_prev_to : forall pr fuel p s, R p s -> (Z.to_nat (p + 1) + 1 <= fuel)%nat ->
  exists s', move_to St cur prev pr fuel s = Some (s', cur_in (cur_prev_to pr p)) /\ R (cur_prev_to pr p) s'.
Proof.
  intros pr fuel. induction fuel as [|f IH]; intros p s HR Hf; [lia|].
  pose proof (R_range p s HR) as Hp.
  destruct (R_prev p s HR) as [s' [Hn HR']]. cbn [move_to]. rewrite Hn.
  destruct (Z_lt_dec p 0) as [Hlt|Hge].
  - rewrite cur_prev_saturates in * by exact Hlt.
    rewrite cur_prev_to_at_begin by lia.
    replace (cur_in p) with false in * by (symmetry; apply cur_in_false; lia).
    exists s'. split; [reflexivity | exact HR'].
  - rewrite cur_prev_step in * by lia.
    rewrite (cur_prev_to_unfold pr p) by lia.
    destruct (cur_in (p - 1)) eqn:E.
    + rewrite (R_cur (p - 1) s' HR' E). unfold cur_holds.
      destruct (cur_elem_some (p - 1) E) as [[i v] [H1 H2]]. rewrite H1, H2.
      destruct (pred_eval pr i v).
      * exists s'. rewrite E. split; [reflexivity | exact HR'].
      * apply IH; [exact HR' | lia].
    + exists s'. rewrite E. split; [reflexivity | exact HR'].
Qed.

(* one call: never a crash (None), same answer, and the new state represents the new position *)
Lemma sim_call : forall fuel p s c, R p s -> (Z.to_nat cur_n + 2 <= fuel)%nat ->
  exists s', run_call St next prev begin_ end_ cur has_prev fuel s c = Some (s', snd (cursor_call p c))
             /\ R (fst (cursor_call p c)) s'.
Proof.
  intros fuel p s c HR Hf. pose proof (R_range p s HR) as Hp.
  destruct c as [| | | | | |pr|pr]; cbn [run_call cursor_call].
  - (* Next *)
    destruct (R_next p s HR) as [s' [Hn HR']]. rewrite Hn. cbn [land fst snd].
    exists s'. split; [apply sim_moved; exact HR' | exact HR'].
  - (* Prev *)
    destruct has_prev; [|exists s; split; [reflexivity | exact HR]].
    destruct (R_prev p s HR) as [s' [Hn HR']]. rewrite Hn. cbn [land fst snd].
    exists s'. split; [apply sim_moved; exact HR' | exact HR'].
  - (* Begin *)
    exists (begin_ s). split; [reflexivity | exact (R_begin p s HR)].
  - (* End *)
    destruct has_prev; [|exists s; split; [reflexivity | exact HR]].
    exists (end_ s). split; [reflexivity | exact (R_end p s HR)].
  - (* First *)
    destruct (R_next (-1) (begin_ s) (R_begin p s HR)) as [s' [Hn HR']]. rewrite Hn. cbn [land fst snd].
    exists s'. split; [apply sim_moved; exact HR' | exact HR'].
  - (* Last *)
    destruct has_prev; [|exists s; split; [reflexivity | exact HR]].
    destruct (R_prev cur_n (end_ s) (R_end p s HR)) as [s' [Hn HR']]. rewrite Hn. cbn [land fst snd].
    exists s'. split; [apply sim_moved; exact HR' | exact HR'].
  - (* NextTo *)
    destruct (sim_next_to pr fuel p s HR) as [s' [Hn HR']]; [lia|]. rewrite Hn. cbn [land fst snd].
    exists s'. split; [apply sim_moved; exact HR' | exact HR'].
  - (* PrevTo *)
    destruct has_prev; [|exists s; split; [reflexivity | exact HR]].
    destruct (sim_prev_to pr fuel p s HR) as [s' [Hn HR']]; [lia|]. rewrite Hn. cbn [land fst snd].
    exists s'. split; [apply sim_moved; exact HR' | exact HR'].
Qed.

Theorem sim_script : forall fuel cs p s, R p s -> (Z.to_nat cur_n + 2 <= fuel)%nat ->
  run_script St next prev begin_ end_ cur has_prev fuel s cs = cursor_script_from p cs.
Proof.
  intros fuel cs. induction cs as [|c cs IH]; intros p s HR Hf; [reflexivity|].
  cbn [run_script cursor_script_from].
  destruct (sim_call fuel p s c HR Hf) as [s' [Hc HR']]. rewrite Hc.
  cbn zeta. f_equal. apply IH; assumption.
Qed.

(* a full forward walk from position p enumerates the elements after p *)
Lemma sim_walk : forall fuel p s, R p s -> (Z.to_nat (cur_n - p) + 1 <= fuel)%nat ->
  walk St cur next fuel s = Some (skipn (Z.to_nat (p + 1)) l).
Proof.
  intros fuel. induction fuel as [|f IH]; intros p s HR Hf; [lia|].
  pose proof (R_range p s HR) as Hp.
  destruct (R_next p s HR) as [s' [Hn HR']]. cbn [walk]. rewrite Hn.
  destruct (Z_lt_dec p cur_n) as [Hlt|Hge].
  - rewrite cur_next_step in * by exact Hlt.
    destruct (cur_in (p + 1)) eqn:E.
    + rewrite (R_cur (p + 1) s' HR' E).
      destruct (cur_elem_some (p + 1) E) as [e [H1 _]]. rewrite H1.
      rewrite (IH (p + 1) s' HR') by lia.
      f_equal. apply cur_in_true in E.
      replace (Z.to_nat (p + 1 + 1)) with (S (Z.to_nat (p + 1))) by lia.
      clear - H1. revert H1. generalize (Z.to_nat (p + 1)) as k. generalize l as m.
      induction m as [|x m IHm]; intros [|k] H; cbn [nth_error] in H; try discriminate.
      * injection H as ->. reflexivity.
      * rewrite (skipn_cons (S k)), (skipn_cons k). apply IHm. exact H.
    + apply cur_in_false in E. rewrite skipn_all2; [reflexivity|]. unfold cur_n, zlen in *. lia.
  - assert (E : cur_in (cur_next p) = false).
    { apply (proj2 (cur_in_false _)). rewrite cur_next_saturates by lia. lia. }
    rewrite E. rewrite skipn_all2; [reflexivity|]. unfold cur_n, zlen in *. lia.
Qed.

(* both facts at once, from a fresh iterator *)
Theorem sim_all : forall fuel s, R (-1) s -> (Z.to_nat cur_n + 2 <= fuel)%nat ->
  (forall cs, run_script St next prev begin_ end_ cur has_prev fuel s cs = cursor_script cs) /\
  walk St cur next fuel s = Some l.
Proof.
  intros fuel s HR Hf. split.
  - intros cs. apply sim_script; assumption.
  - rewrite (sim_walk fuel (-1) s HR) by lia. reflexivity.
Qed.
End Simulation.
End Cursor.

(* ====================================================================================== *)
(* (a) index iterators refine the cursor                                                   *)
(* ====================================================================================== *)
Theorem ix_refines_all : forall (l : list (Z * Z)) (n : Z) (value_at : Z -> option Z) (has_prev : bool),
  n = zlen l ->
  (forall i, 0 <= i < n -> exists v, value_at i = Some v /\ nth_error l (Z.to_nat i) = Some (i, v)) ->
  forall fuel, (Z.to_nat n + 2 <= fuel)%nat ->
  (forall cs,
     run_script Z (ix_next n) (ix_prev n) ix_begin (ix_end n) (ix_cur value_at) has_prev fuel (-1) cs
     = cursor_script l has_prev cs) /\
  walk Z (ix_cur value_at) (ix_next n) fuel (-1) = Some l.
Proof.
  intros l n value_at has_prev Hn Hat fuel Hf. subst n.
  apply (sim_all l has_prev Z _ _ _ _ _ (fun p s => s = p /\ -1 <= p <= zlen l)).
  - intros p s [_ H]. exact H.
  - intros p s [-> H]. exists (cur_next l p). split; [reflexivity|].
    split; [reflexivity | apply cur_next_range; exact H].
  - intros p s [-> H]. exists (cur_prev p). split; [reflexivity|].
    split; [reflexivity | apply (cur_prev_range l); exact H].
  - intros p s [_ H]. split; [reflexivity|]. pose proof (cur_n_nonneg l). unfold cur_n in *. lia.
  - intros p s [_ H]. split; [reflexivity|]. pose proof (cur_n_nonneg l). unfold cur_n in *. lia.
  - intros p s [-> H] Hin. apply cur_in_true in Hin. unfold cur_n in Hin.
    destruct (Hat p Hin) as [v [H1 H2]]. unfold ix_cur. rewrite H1, H2. reflexivity.
  - split; [reflexivity|]. pose proof (cur_n_nonneg l). unfold cur_n in *. lia.
  - exact Hf.
Qed.

Theorem ix_refines : forall (l : list (Z * Z)) (n : Z) (value_at : Z -> option Z) (has_prev : bool),
  n = zlen l ->
  (forall i, 0 <= i < n -> exists v, value_at i = Some v /\ nth_error l (Z.to_nat i) = Some (i, v)) ->
  forall fuel cs, (Z.to_nat n + 2 <= fuel)%nat ->
  run_script Z (ix_next n) (ix_prev n) ix_begin (ix_end n) (ix_cur value_at) has_prev fuel (-1) cs
  = cursor_script l has_prev cs.
Proof.
  intros l n value_at has_prev Hn Hat fuel cs Hf.
  apply (proj1 (ix_refines_all l n value_at has_prev Hn Hat fuel Hf)).
Qed.

(* ====================================================================================== *)
(* (b) linked-list iterators refine the cursor                                             *)
(* ====================================================================================== *)
(* invariant: whenever the index is within range, the cell pointer is the cell of that index *)
Definition ll_inv (vals : list Z) (p : Z) (s : Z * cell) : Prop :=
  fst s = p /\ -1 <= p <= zlen vals /\ (0 <= p < zlen vals -> snd s = Some (Z.to_nat p)).

Theorem ll_refines_all : forall (vals : list Z) (l : list (Z * Z)) (cur : Z * cell -> option (Z * Z)) (has_prev : bool),
  zlen l = zlen vals ->
  (forall p, 0 <= p < zlen vals -> cur (p, Some (Z.to_nat p)) = nth_error l (Z.to_nat p)) ->
  forall fuel, (Z.to_nat (zlen vals) + 2 <= fuel)%nat ->
  (forall cs,
     run_script (Z * cell) (ll_next vals) (ll_prev vals) ll_begin (ll_end vals) cur has_prev fuel (-1, None) cs
     = cursor_script l has_prev cs) /\
  walk (Z * cell) cur (ll_next vals) fuel (-1, None) = Some l.
Proof.
  intros vals l cur has_prev Hlen Hcur fuel Hf.
  assert (Hn : cur_n l = zlen vals) by exact Hlen.
  assert (Hin : forall q, cur_in l q = within q vals).
  { intros q. unfold cur_in, within. rewrite Hn. reflexivity. }
  pose proof (zlen_nonneg _ vals) as Hnn.
  apply (sim_all l has_prev (Z * cell) _ _ _ _ _ (ll_inv vals)).
  - intros p s [_ [H _]]. rewrite Hn. exact H.
  - (* Next *)
    intros p [i e] [Hi [Hr Hc]]. cbn [fst snd] in *. subst i.
    unfold ll_next. fold (ln vals).
    assert (Hnx : (if p <? ln vals then p + 1 else p) = cur_next l p).
    { unfold cur_next, ln. rewrite Hn. reflexivity. }
    rewrite Hnx. rewrite Hin.
    pose proof (cur_next_range l p) as Hrange. rewrite Hn in Hrange. specialize (Hrange Hr).
    destruct (within (cur_next l p) vals) eqn:Hw; cbn [negb].
    + apply within_true in Hw.
      destruct (cur_next l p =? 0) eqn:E0.
      * apply Z.eqb_eq in E0. eexists. split; [reflexivity|].
        split; [reflexivity|]. split; [exact Hrange|]. intros _. cbn [snd]. rewrite E0.
        unfold first_cell. destruct vals; [unfold zlen in Hw; cbn in Hw; lia | reflexivity].
      * apply Z.eqb_neq in E0.
        assert (Hp : 0 <= p < zlen vals /\ cur_next l p = p + 1).
        { unfold cur_next in *. rewrite Hn in *. destruct (p <? zlen vals) eqn:E; [apply Z.ltb_lt in E|]; lia. }
        destruct Hp as [Hp Hp1]. rewrite (Hc Hp).
        eexists. split; [reflexivity|]. split; [reflexivity|]. split; [exact Hrange|]. intros _. cbn [snd].
        unfold cell_next, ln. rewrite Z2Nat.id by lia.
        replace (p + 1 <? zlen vals) with true by (symmetry; apply Z.ltb_lt; lia).
        f_equal. lia.
    + apply within_false in Hw. eexists. split; [reflexivity|].
      split; [reflexivity|]. split; [exact Hrange|]. intros H. lia.
  - (* Prev *)
    intros p [i e] [Hi [Hr Hc]]. cbn [fst snd] in *. subst i.
    unfold ll_prev. fold (cur_prev p). rewrite Hin.
    pose proof (cur_prev_range l p) as Hrange. rewrite Hn in Hrange. specialize (Hrange Hr).
    destruct (within (cur_prev p) vals) eqn:Hw; cbn [negb].
    + apply within_true in Hw.
      destruct (cur_prev p =? ln vals - 1) eqn:E0.
      * apply Z.eqb_eq in E0. unfold ln in E0. eexists. split; [reflexivity|].
        split; [reflexivity|]. split; [exact Hrange|]. intros _. cbn [snd]. rewrite E0.
        unfold last_cell. destruct vals as [|x vals']; [unfold zlen in Hw; cbn in Hw; lia|].
        f_equal. unfold zlen. lia.
      * apply Z.eqb_neq in E0. unfold ln in E0.
        assert (Hp : 0 <= p < zlen vals /\ cur_prev p = p - 1).
        { unfold cur_prev in *. destruct (0 <=? p) eqn:E; [apply Z.leb_le in E|apply Z.leb_gt in E]; lia. }
        destruct Hp as [Hp Hp1]. rewrite (Hc Hp).
        eexists. split; [reflexivity|]. split; [reflexivity|]. split; [exact Hrange|]. intros _. cbn [snd].
        replace (Z.to_nat p) with (S (Z.to_nat (cur_prev p))) by lia. reflexivity.
    + apply within_false in Hw. eexists. split; [reflexivity|].
      split; [reflexivity|]. split; [exact Hrange|]. intros H. lia.
  - (* Begin *)
    intros p s _. split; [reflexivity|]. split; [lia|]. intros H; lia.
  - (* End *)
    intros p s _. rewrite Hn. split; [reflexivity|]. split; [lia|]. intros H; lia.
  - (* the element under the iterator *)
    intros p [i e] [Hi [Hr Hc]] Hp. cbn [fst snd] in *. subst i.
    apply cur_in_true in Hp. rewrite Hn in Hp. rewrite (Hc Hp). apply Hcur. exact Hp.
  - split; [reflexivity|]. split; [lia|]. intros H; lia.
  - rewrite Hn. exact Hf.
Qed.

Theorem ll_refines_gen : forall (vals : list Z) (l : list (Z * Z)) (cur : Z * cell -> option (Z * Z)) (has_prev : bool),
  zlen l = zlen vals ->
  (forall p, 0 <= p < zlen vals -> cur (p, Some (Z.to_nat p)) = nth_error l (Z.to_nat p)) ->
  forall fuel cs, (Z.to_nat (zlen vals) + 2 <= fuel)%nat ->
  run_script (Z * cell) (ll_next vals) (ll_prev vals) ll_begin (ll_end vals) cur has_prev fuel (-1, None) cs
  = cursor_script l has_prev cs.
Proof.
  intros vals l cur has_prev Hlen Hcur fuel cs Hf.
  apply (proj1 (ll_refines_all vals l cur has_prev Hlen Hcur fuel Hf)).
Qed.

(* ====================================================================================== *)
(* The sequence an index-addressed container enumerates: (0, v0), (1, v1), ...             *)
(* ====================================================================================== *)
Definition indexed (vs : list Z) : list (Z * Z) := combine (zrange 0 (length vs)) vs.

Lemma zrange_length : forall n lo, length (zrange lo n) = n.
Proof. induction n as [|n IH]; intros lo; cbn [zrange length]; [reflexivity | now rewrite IH]. Qed.

Lemma nth_error_combine_zrange : forall (vs : list Z) lo k v, nth_error vs k = Some v ->
  nth_error (combine (zrange lo (length vs)) vs) k = Some (lo + Z.of_nat k, v).
Proof.
  induction vs as [|x vs IH]; intros lo k v H; [destruct k; discriminate|].
  cbn [length zrange combine]. destruct k as [|k]; cbn [nth_error] in *.
  - injection H as ->. f_equal. f_equal. lia.
  - rewrite (IH (lo + 1) k v H). f_equal. f_equal. lia.
Qed.

Lemma nth_error_indexed : forall vs k v, nth_error vs k = Some v ->
  nth_error (indexed vs) k = Some (Z.of_nat k, v).
Proof. intros vs k v H. unfold indexed. rewrite (nth_error_combine_zrange vs 0 k v H). reflexivity. Qed.

Lemma zlen_indexed : forall vs, zlen (indexed vs) = zlen vs.
Proof.
  intros vs. unfold zlen, indexed. rewrite combine_length, zrange_length, Nat.min_id. reflexivity.
Qed.

Lemma map_fst_indexed : forall vs, map snd (indexed vs) = vs.
Proof.
  intros vs. unfold indexed. generalize 0. induction vs as [|x vs IH]; intros lo; [reflexivity|].
  cbn [length zrange combine map snd]. rewrite IH. reflexivity.
Qed.

Lemma nth_error_within : forall (vs : list Z) i, 0 <= i < zlen vs -> exists v, nth_error vs (Z.to_nat i) = Some v.
Proof.
  intros vs i H. destruct (nth_error vs (Z.to_nat i)) as [v|] eqn:E; [eauto|].
  apply nth_error_None in E. unfold zlen in H. lia.
Qed.

(* index iterator over a list of values *)
Theorem ix_refines_values : forall (vs : list Z) (value_at : Z -> option Z) (has_prev : bool),
  (forall i, 0 <= i < zlen vs -> value_at i = nth_error vs (Z.to_nat i)) ->
  forall fuel cs, (Z.to_nat (zlen vs) + 2 <= fuel)%nat ->
  run_script Z (ix_next (zlen vs)) (ix_prev (zlen vs)) ix_begin (ix_end (zlen vs)) (ix_cur value_at)
             has_prev fuel (-1) cs
  = cursor_script (indexed vs) has_prev cs.
Proof.
  intros vs value_at has_prev Hat fuel cs Hf.
  apply ix_refines; [symmetry; apply zlen_indexed | | exact Hf].
  intros i Hi. destruct (nth_error_within vs i Hi) as [v Hv]. exists v.
  split; [rewrite (Hat i Hi); exact Hv|].
  rewrite (nth_error_indexed vs _ v Hv). rewrite Z2Nat.id by lia. reflexivity.
Qed.

(* linked-list iterator over a list of values *)
Theorem ll_refines : forall (vs : list Z) (has_prev : bool) fuel cs, (Z.to_nat (zlen vs) + 2 <= fuel)%nat ->
  run_script (Z * cell) (ll_next vs) (ll_prev vs) ll_begin (ll_end vs) (ll_cur vs) has_prev fuel (-1, None) cs
  = cursor_script (indexed vs) has_prev cs.
Proof.
  intros vs has_prev fuel cs Hf.
  apply ll_refines_gen; [apply zlen_indexed | | exact Hf].
  intros p Hp. unfold ll_cur. cbn [fst snd].
  destruct (nth_error_within vs p Hp) as [v Hv]. rewrite Hv.
  rewrite (nth_error_indexed vs _ v Hv). rewrite Z2Nat.id by lia. reflexivity.
Qed.

(* the linked-list iterator never dereferences nil, stated on its own: under the invariant
   [ll_inv] neither Next nor Prev is None *)
Theorem ll_next_prev_total : forall vs p s, ll_inv vs p s ->
  ll_next vs s <> None /\ ll_prev vs s <> None.
Proof.
  intros vs p [i e] [Hi [Hr Hc]]. cbn [fst snd] in *. subst i.
  unfold ll_next, ll_prev. split.
  - destruct (negb (within _ vs)) eqn:Hw; [discriminate|].
    destruct (_ =? 0) eqn:E0; [discriminate|].
    apply negb_false_iff in Hw. apply within_true in Hw. apply Z.eqb_neq in E0. fold (ln vs) in *.
    unfold ln in *.
    assert (Hp : 0 <= p < zlen vs) by (destruct (p <? zlen vs) eqn:E; [apply Z.ltb_lt in E|]; lia).
    rewrite (Hc Hp). discriminate.
  - destruct (negb (within _ vs)) eqn:Hw; [discriminate|].
    destruct (_ =? ln vs - 1) eqn:E0; [discriminate|].
    apply negb_false_iff in Hw. apply within_true in Hw. apply Z.eqb_neq in E0. unfold ln in *.
    assert (Hp : 0 <= p < zlen vs) by (destruct (0 <=? p) eqn:E; [apply Z.leb_le in E|apply Z.leb_gt in E]; lia).
    rewrite (Hc Hp). discriminate.
Qed.

(* ====================================================================================== *)
(* Machine level: run_iter of every kind with a linear iterator is the cursor              *)
(* ====================================================================================== *)
Lemma fuel_ok : forall n : Z, (Z.to_nat n + 2 <= S (S (Z.to_nat n)))%nat.
Proof. intros n. lia. Qed.

Lemma nth_error_map_seq : forall (f : nat -> Z) m k, (k < m)%nat ->
  nth_error (map f (seq 0 m)) k = Some (f k).
Proof.
  intros f m k H. apply map_nth_error.
  rewrite (nth_error_nth' _ 0%nat) by (rewrite seq_length; exact H).
  rewrite seq_nth by exact H. reflexivity.
Qed.

Lemma nth_error_rev_flip : forall (vs : list Z) k, (k < length vs)%nat ->
  nth_error (rev vs) k = nth_error vs (length vs - 1 - k).
Proof.
  intros vs k H. rewrite <- (nth_error_rev_Z vs (length vs - 1 - k)) by lia.
  f_equal. lia.
Qed.

(* ArrayList, ArrayQueue: bidirectional index iterator *)
Theorem iter_ArrayList : forall c vs cs, ckind c = ArrayList \/ ckind c = ArrayQueue ->
  run_iter c (StSeq vs) cs = cursor_script (indexed (values_of c (StSeq vs))) true cs.
Proof.
  intros c vs cs Hk. unfold run_iter, values_of, script_fuel. cbn [size_of].
  assert (G : run_script Z (ix_next (zlen vs)) (ix_prev (zlen vs)) ix_begin (ix_end (zlen vs))
                (ix_cur (fun i => al_get i vs)) true (S (S (Z.to_nat (zlen vs)))) (-1) cs
              = cursor_script (indexed vs) true cs).
  { apply ix_refines_values; [|apply fuel_ok].
    intros i Hi. unfold al_get. replace (within i vs) with true by (symmetry; now apply within_true).
    reflexivity. }
  destruct Hk as [Hk | Hk]; rewrite Hk; exact G.
Qed.

(* ArrayStack: the iterator walks from the top, Values() lists the top first *)
Theorem iter_ArrayStack : forall c vs cs, ckind c = ArrayStack ->
  run_iter c (StSeq vs) cs = cursor_script (indexed (values_of c (StSeq vs))) true cs.
Proof.
  intros c vs cs Hk. unfold run_iter, values_of, script_fuel. cbn [size_of]. rewrite Hk.
  assert (Hl : zlen (rev vs) = zlen vs) by (unfold zlen; now rewrite rev_length).
  rewrite <- Hl. apply ix_refines_values; [|apply fuel_ok].
  intros i Hi. rewrite Hl in *. unfold al_get.
  replace (within (zlen vs - i - 1) vs) with true by (symmetry; apply within_true; lia).
  cbn [negb]. unfold zlen in *. rewrite nth_error_rev_flip by lia. f_equal. lia.
Qed.

(* LinkedListStack, LinkedListQueue: forward-only index iterator *)
Theorem iter_LinkedListStack : forall c vs cs, ckind c = LinkedListStack \/ ckind c = LinkedListQueue ->
  run_iter c (StSeq vs) cs = cursor_script (indexed (values_of c (StSeq vs))) false cs.
Proof.
  intros c vs cs Hk. unfold run_iter, values_of, script_fuel. cbn [size_of].
  assert (G : run_script Z (ix_next (zlen vs)) (ix_prev (zlen vs)) ix_begin (ix_end (zlen vs))
                (ix_cur (fun i => sll_get i vs)) false (S (S (Z.to_nat (zlen vs)))) (-1) cs
              = cursor_script (indexed vs) false cs).
  { apply ix_refines_values; [|apply fuel_ok].
    intros i Hi. unfold sll_get. replace (within i vs) with true by (symmetry; now apply within_true).
    reflexivity. }
  destruct Hk as [Hk | Hk]; rewrite Hk; exact G.
Qed.

(* SinglyLinkedList: forward-only linked iterator *)
Theorem iter_SinglyLinkedList : forall c vs cs, ckind c = SinglyLinkedList ->
  run_iter c (StSeq vs) cs = cursor_script (indexed (values_of c (StSeq vs))) false cs.
Proof.
  intros c vs cs Hk. unfold run_iter, values_of, script_fuel. cbn [size_of]. rewrite Hk.
  apply ll_refines. apply fuel_ok.
Qed.

(* DoublyLinkedList: bidirectional linked iterator *)
Theorem iter_DoublyLinkedList : forall c vs cs, ckind c = DoublyLinkedList ->
  run_iter c (StSeq vs) cs = cursor_script (indexed (values_of c (StSeq vs))) true cs.
Proof.
  intros c vs cs Hk. unfold run_iter, values_of, script_fuel. cbn [size_of]. rewrite Hk.
  apply ll_refines. apply fuel_ok.
Qed.

(* LinkedHashSet: the iterator of the ordering list *)
Theorem iter_LinkedHashSet : forall c tbl ord cs,
  run_iter c (StLSet tbl ord) cs = cursor_script (indexed (values_of c (StLSet tbl ord))) true cs.
Proof.
  intros c tbl ord cs. unfold run_iter, values_of, script_fuel. cbn [size_of].
  apply ll_refines. apply fuel_ok.
Qed.

(* LinkedHashMap: the iterator of the ordering list of keys, values looked up in the table *)
Theorem iter_LinkedHashMap : forall c tbl ord cs,
  run_iter c (StLMap tbl ord) cs = cursor_script (entries_of c (StLMap tbl ord)) true cs.
Proof.
  intros c tbl ord cs. unfold run_iter, entries_of, script_fuel. cbn [size_of].
  apply ll_refines_gen; [| |apply fuel_ok].
  - unfold lmap_entries, zlen. now rewrite map_length.
  - intros p Hp. unfold ll_cur. cbn [fst snd].
    destruct (nth_error_within ord p Hp) as [k Hk]. rewrite Hk.
    unfold lmap_entries. rewrite (map_nth_error _ _ _ Hk). reflexivity.
Qed.

(* CircularBuffer: index iterator reading the ring at (start + i) mod max; holds for every ring *)
Lemma ring_index : forall (i : Z) (start mx : nat), 0 <= i ->
  Z.to_nat ((i + Z.of_nat start) mod Z.of_nat mx) = ((start + Z.to_nat i) mod mx)%nat.
Proof.
  intros i start mx Hi.
  replace (i + Z.of_nat start) with (Z.of_nat (start + Z.to_nat i)) by lia.
  rewrite <- Nat2Z.inj_mod. apply Nat2Z.id.
Qed.

Theorem iter_CircularBuffer : forall c r cs,
  run_iter c (StRing r) cs = cursor_script (indexed (values_of c (StRing r))) true cs.
Proof.
  intros c r cs. unfold run_iter, values_of, script_fuel. cbn [size_of].
  assert (Hl : zlen (Ring.rvalues r) = Z.of_nat (Ring.rsize r)).
  { unfold zlen, Ring.rvalues. now rewrite map_length, seq_length. }
  rewrite <- Hl. apply ix_refines_values; [|apply fuel_ok].
  intros i Hi. rewrite Hl in Hi.
  replace (inrange (zlen (Ring.rvalues r)) i) with true
    by (symmetry; unfold inrange; rewrite Hl, andb_true_iff, Z.leb_le, Z.ltb_lt; lia).
  unfold Ring.rvalues. rewrite nth_error_map_seq by lia.
  rewrite ring_index by lia. reflexivity.
Qed.

(* BinaryHeap, PriorityQueue: index iterator whose Value() is the level-sorted element *)
Theorem iter_Heap : forall c h cs,
  run_iter c (StHeap h) cs = cursor_script (indexed (values_of c (StHeap h))) true cs.
Proof.
  intros c h cs. unfold run_iter, values_of, script_fuel. cbn [size_of].
  assert (Hl : zlen (Heap.values (kc c) h) = zlen h).
  { unfold zlen, Heap.values. now rewrite map_length, seq_length. }
  rewrite <- Hl. apply ix_refines_values; [|apply fuel_ok].
  intros i Hi. rewrite Hl in Hi.
  replace (inrange (zlen (Heap.values (kc c) h)) i) with true
    by (symmetry; unfold inrange; rewrite Hl, andb_true_iff, Z.leb_le, Z.ltb_lt; lia).
  unfold Heap.values. unfold zlen in Hi. rewrite nth_error_map_seq by lia. reflexivity.
Qed.

(* ---------- one statement for all twelve kinds ---------- *)
Definition linear_state (c : config) (s : state) : bool :=
  match s, ckind c with
  | StSeq _, (ArrayList | ArrayStack | ArrayQueue | LinkedListStack | LinkedListQueue
              | SinglyLinkedList | DoublyLinkedList) => true
  | StLSet _ _, LinkedHashSet => true
  | StLMap _ _, LinkedHashMap => true
  | StRing _, CircularBuffer => true
  | StHeap _, (BinaryHeap | PriorityQueue) => true
  | _, _ => false
  end.
(* forward-only iterators *)
Definition iter_has_prev (k : kind) : bool :=
  match k with LinkedListStack | LinkedListQueue | SinglyLinkedList => false | _ => true end.
(* the (index, value) or (key, value) sequence the iterator ranges over *)
Definition iter_seq (c : config) (s : state) : list (Z * Z) :=
  match s with StLMap _ _ => entries_of c s | _ => indexed (values_of c s) end.

Theorem linear_iter_is_cursor : forall c s cs, linear_state c s = true ->
  run_iter c s cs = cursor_script (iter_seq c s) (iter_has_prev (ckind c)) cs.
Proof.
  intros c s cs H. unfold linear_state in H.
  destruct s as [vs|m|tbl ord|t n|t n|r n|h|r|m|tbl ord|f i|f fn i inn|]; try discriminate H;
    unfold iter_seq.
  - destruct (ckind c) eqn:Ek; try discriminate H; cbn [iter_has_prev].
    + apply iter_ArrayList; auto.
    + apply iter_SinglyLinkedList; auto.
    + apply iter_DoublyLinkedList; auto.
    + apply iter_ArrayStack; auto.
    + apply iter_LinkedListStack; auto.
    + apply iter_ArrayList; auto.
    + apply iter_LinkedListStack; auto.
  - destruct (ckind c) eqn:Ek; try discriminate H. apply iter_LinkedHashSet.
  - destruct (ckind c) eqn:Ek; try discriminate H; apply iter_Heap.
  - destruct (ckind c) eqn:Ek; try discriminate H. apply iter_CircularBuffer.
  - destruct (ckind c) eqn:Ek; try discriminate H. apply iter_LinkedHashMap.
Qed.

(* ---------- the full forward walk (what Each / Any / All / Find / Select / Map range over) ---------- *)
Lemma ll_cur_indexed : forall vs p, 0 <= p < zlen vs ->
  ll_cur vs (p, Some (Z.to_nat p)) = nth_error (indexed vs) (Z.to_nat p).
Proof.
  intros vs p Hp. unfold ll_cur. cbn [fst snd].
  destruct (nth_error_within vs p Hp) as [v Hv]. rewrite Hv.
  rewrite (nth_error_indexed vs _ v Hv). rewrite Z2Nat.id by lia. reflexivity.
Qed.

Theorem ll_walk : forall vs fuel, (Z.to_nat (zlen vs) + 2 <= fuel)%nat ->
  walk (Z * cell) (ll_cur vs) (ll_next vs) fuel (-1, None) = Some (indexed vs).
Proof.
  intros vs fuel Hf.
  apply (proj2 (ll_refines_all vs (indexed vs) (ll_cur vs) true (zlen_indexed vs) (ll_cur_indexed vs) fuel Hf)).
Qed.

Theorem ix_walk_values : forall (vs : list Z) (value_at : Z -> option Z),
  (forall i, 0 <= i < zlen vs -> value_at i = nth_error vs (Z.to_nat i)) ->
  forall fuel, (Z.to_nat (zlen vs) + 2 <= fuel)%nat ->
  walk Z (ix_cur value_at) (ix_next (zlen vs)) fuel (-1) = Some (indexed vs).
Proof.
  intros vs value_at Hat fuel Hf.
  refine (proj2 (ix_refines_all (indexed vs) (zlen vs) value_at true _ _ fuel Hf)).
  - symmetry; apply zlen_indexed.
  - intros i Hi. destruct (nth_error_within vs i Hi) as [v Hv]. exists v.
    split; [rewrite (Hat i Hi); exact Hv|].
    rewrite (nth_error_indexed vs _ v Hv). rewrite Z2Nat.id by lia. reflexivity.
Qed.

(* the sequence the enumerable functions iterate over is the cursor's sequence; in particular the
   walk never crashes and never runs out of fuel *)
Theorem each_of_linear : forall c s, ckind c <> ArrayStack ->
  match s with StSeq _ | StLSet _ _ | StLMap _ _ => True | _ => False end ->
  each_of c s = Some (iter_seq c s).
Proof.
  intros c s Hc Hs. destruct s as [vs|m|tbl ord|t n|t n|r n|h|r|m|tbl ord|f i|f fn i inn|]; try contradiction;
    unfold each_of, iter_seq, script_fuel; cbn [size_of].
  - assert (G1 : walk Z (ix_cur (fun i => al_get i vs)) (ix_next (zlen vs)) (S (S (Z.to_nat (zlen vs)))) (-1)
                 = Some (indexed vs)).
    { apply ix_walk_values; [|apply fuel_ok]. intros i Hi. unfold al_get.
      replace (within i vs) with true by (symmetry; now apply within_true). reflexivity. }
    pose proof (ll_walk vs _ (fuel_ok (zlen vs))) as G2.
    unfold values_of. destruct (ckind c); try exact G1; try exact G2. congruence.
  - apply ll_walk. apply fuel_ok.
  - refine (proj2 (ll_refines_all ord (lmap_entries tbl ord) _ true _ _ _ (fuel_ok (zlen ord)))).
    + unfold lmap_entries, zlen. now rewrite map_length.
    + intros p Hp. unfold ll_cur. cbn [fst snd].
      destruct (nth_error_within ord p Hp) as [k Hk]. rewrite Hk.
      unfold lmap_entries. rewrite (map_nth_error _ _ _ Hk). reflexivity.
Qed.

(* ---------- reachable states of the twelve kinds have the right shape ---------- *)
Definition is_linear_kind (k : kind) : bool :=
  match k with
  | ArrayList | ArrayStack | ArrayQueue | LinkedListStack | LinkedListQueue | SinglyLinkedList
  | DoublyLinkedList | LinkedHashSet | LinkedHashMap | CircularBuffer | BinaryHeap | PriorityQueue => true
  | _ => false
  end.

Ltac break_inner :=
  match goal with
  | |- context [match ?x with _ => _ end] =>
      lazymatch x with
      | context [match _ with _ => _ end] => fail
      | _ => destruct x eqn:?
      end
  end.

(* the only documented panic among these kinds: a CircularBuffer built with capacity < 1 *)
Definition ring_ok (c : config) : bool :=
  match ckind c with CircularBuffer => negb (ccap c <? 1) | _ => true end.

Lemma step_linear : forall c s o, ring_ok c = true -> linear_state c s = true ->
  linear_state c (fst (fst (step c s o))) = true.
Proof.
  intros c s o Hcap H. unfold linear_state, ring_ok in *.
  destruct s as [vs|m|tbl ord|t n|t n|r n|h|r|m|tbl ord|f i|f fn i inn|]; try discriminate H;
    destruct (ckind c) eqn:Ek; try discriminate H; clear H;
    first [apply negb_true_iff in Hcap | clear Hcap];
    destruct o; unfold step; rewrite ?Ek; cbn [fst snd pure has_enumerable negb];
    try reflexivity;
    unfold from_json, load_array, add_values, put_entries, init, lmap_put, lmap_remove;
    rewrite ?Ek; try rewrite Hcap; cbn [fst snd pure has_enumerable negb is_kv];
    repeat (break_inner; rewrite ?Ek; cbn [fst snd pure has_enumerable negb is_kv]);
    try reflexivity.
  destruct (fold_left _ _ _). reflexivity.
Qed.

Lemma init_linear : forall c, is_linear_kind (ckind c) = true -> ring_ok c = true ->
  linear_state c (init c) = true.
Proof.
  intros c H Hcap. unfold linear_state, init, ring_ok in *.
  destruct (ckind c); try discriminate H; auto.
  apply negb_true_iff in Hcap. rewrite Hcap. reflexivity.
Qed.

Lemma run_from_linear : forall c ops s, ring_ok c = true -> linear_state c s = true ->
  linear_state c (run_from c s ops) = true.
Proof.
  intros c ops. induction ops as [|o ops IH]; intros s Hcap H; [exact H|].
  change (run_from c s (o :: ops)) with (run_from c (fst (fst (step c s o))) ops).
  apply IH; [exact Hcap|]. apply step_linear; assumption.
Qed.

(* reachable states of the twelve kinds have the shape the iterator expects; in particular these
   containers never crash *)
Theorem run_linear : forall c ops, is_linear_kind (ckind c) = true -> ring_ok c = true ->
  linear_state c (run c ops) = true.
Proof.
  intros c ops H Hcap. unfold run. apply run_from_linear; [exact Hcap|]. apply init_linear; assumption.
Qed.

(* the machine-level statement about reachable states: after any history the iterator is the cursor *)
Theorem linear_iter_reachable : forall c ops cs, is_linear_kind (ckind c) = true -> ring_ok c = true ->
  run_iter c (run c ops) cs
  = cursor_script (iter_seq c (run c ops)) (iter_has_prev (ckind c)) cs.
Proof.
  intros c ops cs Hk Hc. apply linear_iter_is_cursor. apply run_linear; assumption.
Qed.
