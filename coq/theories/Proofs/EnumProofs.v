(* Property C14: the enumerable functions (Each, Any, All, Find, Select, Map) of the three lists,
   TreeSet, LinkedHashSet, TreeMap, LinkedHashMap and TreeBidiMap agree with the container's iterator
   and never touch the receiver.

   Contents
     1. list facts (sorted insertion of a sorted list, first-occurrence de-duplication, filters)
     2. TreeBidiMap: the invariant of the reachable states (both trees red-black search trees with
        exact cached sizes, the two trees mutually inverse) and its preservation by Put / Remove
     3. [einv]: the invariant of the reachable states of the eight enumerable kinds, [einv_run]
     4. the walk of a fresh iterator on such states: [each_of_einv]
     5. one step of an enumerable function: result, receiver, cost
     6. what Select / Map build: the result is the state reached from a fresh container of the same
        configuration by inserting the kept / mapped elements one at a time, in iteration order
     7. the content of the result, kind by kind
     8. the iterator (script of n+1 Next calls) and Each agree
     9. the C14_* statements used by Properties/C14.v *)
From Coq Require Import ZArith List Lia Bool Sorted SetoidList Permutation.
From Gods Require Import Common.Cmp Common.ListAux Spec.SeqSpec Spec.MapSpec Spec.SetSpec
  Model.Ops Model.Lists Model.Iter Model.Machine.
From Gods Require Import Proofs.MapSpecProofs Proofs.ListsProofs Proofs.SetsProofs Proofs.LinkedProofs
  Proofs.MachineMaps Proofs.IterLinear.
From Gods Require Proofs.IterTreeRB Proofs.RBInv Proofs.RBMap.
Import ListNotations.
Local Open Scope Z_scope.

(* ================================================================================================ *)
(* 1. list facts                                                                                    *)
(* ================================================================================================ *)
Section SortedInsert.
Variable cmp : cmpf.
Hypothesis Hswo : SWO cmp.

(* inserting a key above every key of the list appends it *)
Lemma ins_list_last : forall k v l, (forall e, In e l -> cmp (fst e) k = Lt) ->
  ins_list cmp k v l = l ++ [(k, v)].
Proof.
  intros k v l. induction l as [|[k' v'] l IH]; intros H; [reflexivity|].
  cbn [ins_list app].
  assert (E : cmp k k' = Gt).
  { apply (c_lt_gt cmp Hswo). exact (H (k', v') (or_introl eq_refl)). }
  rewrite E. f_equal. apply IH. intros e He. apply H. right. exact He.
Qed.

(* inserting the entries of a strictly ascending list, in order, rebuilds that very list *)
Lemma puts_sorted_app : forall l acc, ksorted cmp (acc ++ l) ->
  fold_left (mstep cmp) (puts l) acc = acc ++ l.
Proof.
  induction l as [|[k v] l IH]; intros acc H; [rewrite app_nil_r; reflexivity|].
  cbn [puts map fold_left mstep fst snd].
  pose proof H as H'. apply (ksorted_app_iff cmp) in H'. destruct H' as (_ & _ & Hlt).
  rewrite ins_list_last.
  - fold (puts l). rewrite IH; rewrite <- app_assoc; [reflexivity|exact H].
  - intros e He. exact (Hlt e (k, v) He (or_introl eq_refl)).
Qed.

Lemma mrun_puts_sorted : forall l, ksorted cmp l -> mrun cmp (puts l) = l.
Proof. intros l H. unfold mrun. apply (puts_sorted_app l []). exact H. Qed.
End SortedInsert.

(* keeping some pairs keeps order and distinctness of the second components *)
Lemma map_snd_filter_incl : forall (q : Z * Z -> bool) l x,
  In x (map snd (filter q l)) -> In x (map snd l).
Proof.
  intros q l x H. apply in_map_iff in H. destruct H as (e & <- & He).
  apply filter_In in He. apply in_map. tauto.
Qed.

Lemma NoDup_map_snd_filter : forall (q : Z * Z -> bool) l,
  NoDup (map snd l) -> NoDup (map snd (filter q l)).
Proof.
  intros q l. induction l as [|e l IH]; intros H; [constructor|].
  cbn [map] in H. inversion H as [|x xs Hx Hnd]; subst. cbn [filter].
  destruct (q e); [|apply IH; exact Hnd]. cbn [map]. constructor; [|apply IH; exact Hnd].
  intros Hin. apply Hx. eapply map_snd_filter_incl. exact Hin.
Qed.

Lemma NoDup_map_fst_filter : forall (q : Z * Z -> bool) l,
  NoDup (map fst l) -> NoDup (map fst (filter q l)).
Proof.
  intros q l. induction l as [|e l IH]; intros H; [constructor|].
  cbn [map] in H. inversion H as [|x xs Hx Hnd]; subst. cbn [filter].
  destruct (q e); [|apply IH; exact Hnd]. cbn [map]. constructor; [|apply IH; exact Hnd].
  intros Hin. apply Hx. apply in_map_iff in Hin. destruct Hin as (e' & E & He').
  apply filter_In in He'. rewrite <- E. apply in_map. tauto.
Qed.

Lemma SSorted_map_snd_filter : forall (R : Z -> Z -> Prop) (q : Z * Z -> bool) l,
  StronglySorted R (map snd l) -> StronglySorted R (map snd (filter q l)).
Proof.
  intros R q l. induction l as [|e l IH]; intros H; [constructor|].
  cbn [map] in H. inversion H as [|x xs Hs Hall]; subst. cbn [filter].
  destruct (q e); [|apply IH; exact Hs]. cbn [map]. constructor; [apply IH; exact Hs|].
  rewrite Forall_forall in *. intros y Hy. apply Hall. eapply map_snd_filter_incl. exact Hy.
Qed.

(* ---------- first-occurrence de-duplication: what repeated Add on an insertion-ordered set does ---------- *)
Fixpoint uniq_first (seen vs : list Z) : list Z :=
  match vs with
  | [] => []
  | x :: vs' => if existsb (Z.eqb x) seen then uniq_first seen vs' else x :: uniq_first (seen ++ [x]) vs'
  end.

Lemma order_ins_uniq : forall vs acc,
  fold_left order_step (map EIns vs) acc = acc ++ uniq_first acc vs.
Proof.
  induction vs as [|x vs IH]; intros acc; [rewrite app_nil_r; reflexivity|].
  cbn [map fold_left order_step uniq_first]. rewrite IH.
  destruct (existsb (Z.eqb x) acc); [reflexivity|]. rewrite <- app_assoc. reflexivity.
Qed.

Lemma existsb_eqb_true : forall x l, existsb (Z.eqb x) l = true <-> In x l.
Proof. intros x l. exact (sp_smem_In x l). Qed.

Lemma uniq_first_In : forall vs seen x, In x (uniq_first seen vs) <-> In x vs /\ ~ In x seen.
Proof.
  induction vs as [|y vs IH]; intros seen x; cbn [uniq_first In]; [tauto|].
  destruct (existsb (Z.eqb y) seen) eqn:E.
  - apply existsb_eqb_true in E. rewrite IH. split; [tauto|]. intros [[->|H] Hn]; tauto.
  - assert (Hy : ~ In y seen) by (intros H; apply existsb_eqb_true in H; congruence).
    cbn [In]. rewrite IH, in_app_iff. cbn [In]. split.
    + intros [->|[H Hn]]; [tauto|]. split; [tauto|]. intros H'. apply Hn. tauto.
    + intros [[->|H] Hn]; [tauto|]. destruct (Z.eq_dec y x) as [->|Hne]; [tauto|].
      right. split; [exact H|]. intros [H'|[H'|[]]]; tauto.
Qed.

Lemma uniq_first_NoDup : forall vs seen, NoDup (uniq_first seen vs).
Proof.
  induction vs as [|y vs IH]; intros seen; cbn [uniq_first]; [constructor|].
  destruct (existsb (Z.eqb y) seen); [apply IH|]. constructor; [|apply IH].
  rewrite uniq_first_In, in_app_iff. cbn [In]. tauto.
Qed.

(* a duplicate-free list that avoids [seen] is kept as it is *)
Lemma uniq_first_id : forall vs seen, NoDup vs -> (forall x, In x vs -> ~ In x seen) ->
  uniq_first seen vs = vs.
Proof.
  induction vs as [|y vs IH]; intros seen Hnd Hs; [reflexivity|]. cbn [uniq_first].
  inversion Hnd as [|y' vs' Hy Hnd']; subst.
  destruct (existsb (Z.eqb y) seen) eqn:E.
  - apply existsb_eqb_true in E. exfalso. exact (Hs y (or_introl eq_refl) E).
  - f_equal. apply IH; [exact Hnd'|]. intros x Hx Hin. apply in_app_iff in Hin.
    destruct Hin as [Hin|[<-|[]]]; [exact (Hs x (or_intror Hx) Hin)|exact (Hy Hx)].
Qed.

(* ---------- repeated writes into a Go map ---------- *)
Definition hputs (es : list (Z * Z)) (l : list (Z * Z)) : list (Z * Z) :=
  fold_left (fun acc e => hput (fst e) (snd e) acc) es l.

Lemma hget_hputs_other : forall es l k, ~ In k (map fst es) -> hget k (hputs es l) = hget k l.
Proof.
  unfold hputs. induction es as [|[k1 v1] es IH]; intros l k Hn; [reflexivity|].
  cbn [fold_left fst snd]. cbn [map fst In] in Hn. rewrite IH by tauto. rewrite sp_hget_hput.
  destruct (Z.eqb_spec k k1) as [->|Hne]; [tauto|reflexivity].
Qed.

Lemma hget_hputs_nodup : forall es l k v, NoDup (map fst es) -> In (k, v) es ->
  hget k (hputs es l) = Some v.
Proof.
  induction es as [|[k1 v1] es IH]; intros l k v Hnd Hin; [destruct Hin|].
  cbn [map fst] in Hnd. inversion Hnd as [|x xs Hx Hnd']; subst.
  destruct Hin as [E|Hin].
  - inversion E; subst. unfold hputs. cbn [fold_left fst snd]. fold (hputs es (hput k v l)).
    rewrite hget_hputs_other by exact Hx. rewrite sp_hget_hput, Z.eqb_refl. reflexivity.
  - unfold hputs. cbn [fold_left fst snd]. fold (hputs es (hput k1 v1 l)). apply IH; assumption.
Qed.

Lemma hputs_mrun : forall es, hputs es [] = mrun Z.compare (puts es).
Proof. intros es. unfold hputs, mrun, hput. symmetry. apply fold_puts. Qed.

(* ================================================================================================ *)
(* 2. TreeBidiMap                                                                                   *)
(* ================================================================================================ *)
Section Bidi.
Variables kcm vcm : cmpf.
Hypothesis Hk : SWO kcm.
Hypothesis Hv : SWO vcm.

(* forward list F (key -> value, ascending keys) and inverse list I (value -> key, ascending values)
   describe one and the same one-to-one relation *)
Definition bipair (F I : list (Z * Z)) : Prop :=
  ksorted kcm F /\ ksorted vcm I /\ forall k v, In (k, v) F <-> In (v, k) I.

Lemma bipair_link : forall F I a b a' b', bipair F I -> In (a, b) F -> In (a', b') F ->
  (kcm a a' = Eq <-> vcm b b' = Eq).
Proof.
  intros F I a b a' b' (SF & SI & B) H1 H2. split; intros E.
  - assert (X : (a, b) = (a', b')) by (apply (ksorted_In_eq kcm Hk F); assumption).
    inversion X; subst. apply (c_refl vcm Hv).
  - apply B in H1. apply B in H2.
    assert (X : (b, a) = (b', a')) by (apply (ksorted_In_eq vcm Hv I); assumption).
    inversion X; subst. apply (c_refl kcm Hk).
Qed.

(* removing a key from the forward list and its value from the inverse list *)
Lemma bipair_del : forall F I k k0 v0, bipair F I -> find_list kcm k F = Some (k0, v0) ->
  bipair (del_list kcm k F) (del_list vcm v0 I).
Proof.
  intros F I k k0 v0 HB Hf. pose proof HB as (SF & SI & B).
  apply find_list_Some in Hf. destruct Hf as [Hin Heq]. cbn [fst] in Heq.
  split; [apply (del_list_sorted kcm); exact SF|]. split; [apply (del_list_sorted vcm); exact SI|].
  intros a b. rewrite (sp_In_del kcm Hk) by exact SF. rewrite (sp_In_del vcm Hv) by exact SI.
  cbn [fst]. rewrite <- B. split; intros [HF Hne]; (split; [exact HF|]); intros E; apply Hne.
  - apply (bipair_link F I a b k0 v0 HB HF Hin) in E.
    rewrite (c_eq_r kcm Hk k k0 a Heq). exact E.
  - apply (bipair_link F I a b k0 v0 HB HF Hin).
    rewrite <- (c_eq_r kcm Hk k k0 a Heq). exact E.
Qed.

(* the two lists after Put(k, v), computed as the Go code does: the old value of k leaves the inverse
   list, the old key of v leaves the forward list, then both lists are written *)
Definition bput_I1 (k : Z) (F I : list (Z * Z)) : list (Z * Z) :=
  match find_list kcm k F with Some e => del_list vcm (snd e) I | None => I end.
Definition bput_F1 (k v : Z) (F I : list (Z * Z)) : list (Z * Z) :=
  match find_list vcm v (bput_I1 k F I) with Some e => del_list kcm (snd e) F | None => F end.

Section PutLists.
Variables (F I : list (Z * Z)) (k v : Z).
Hypothesis HB : bipair F I.

Lemma bput_I1_sorted : ksorted vcm (bput_I1 k F I).
Proof.
  destruct HB as (SF & SI & B).
  unfold bput_I1. destruct (find_list kcm k F); [apply (del_list_sorted vcm)|]; exact SI.
Qed.
Lemma bput_F1_sorted : ksorted kcm (bput_F1 k v F I).
Proof.
  destruct HB as (SF & SI & B).
  unfold bput_F1. destruct (find_list vcm v _); [apply (del_list_sorted kcm)|]; exact SF.
Qed.
Lemma bput_I1_incl : forall e, In e (bput_I1 k F I) -> In e I.
Proof. unfold bput_I1. destruct (find_list kcm k F); [apply del_list_In|tauto]. Qed.
Lemma bput_F1_incl : forall e, In e (bput_F1 k v F I) -> In e F.
Proof. unfold bput_F1. destruct (find_list vcm v _); [apply del_list_In|tauto]. Qed.

(* A: an entry of F is still in the inverse list iff its key is not (equivalent to) k *)
Lemma bput_A : forall a b, In (a, b) F -> (In (b, a) (bput_I1 k F I) <-> kcm a k <> Eq).
Proof.
  pose proof HB as (SF & SI & B).
  intros a b HF. unfold bput_I1. destruct (find_list kcm k F) as [[k0 v0]|] eqn:Ef.
  - apply find_list_Some in Ef. destruct Ef as [Hin Heq]. cbn [fst snd] in *.
    rewrite (sp_In_del vcm Hv) by exact SI. cbn [fst]. rewrite <- B.
    rewrite (c_eq_r kcm Hk k k0 a Heq).
    pose proof (bipair_link F I a b k0 v0 HB HF Hin) as L. tauto.
  - rewrite (find_list_None kcm) in Ef. split; [|intros _; apply B; exact HF].
    intros _ E. apply (Ef (a, b) HF). cbn [fst]. apply (c_eq_sym kcm Hk). exact E.
Qed.

(* B: it stays in the forward list (and is not overwritten) iff neither its key is k nor its value is v *)
Lemma bput_B : forall a b, In (a, b) F ->
  (In (a, b) (bput_F1 k v F I) /\ kcm a k <> Eq <-> kcm a k <> Eq /\ vcm b v <> Eq).
Proof.
  pose proof HB as (SF & SI & B).
  intros a b HF. unfold bput_F1.
  destruct (find_list vcm v (bput_I1 k F I)) as [[v1 k1]|] eqn:Ef.
  - apply find_list_Some in Ef. destruct Ef as [Hin Heq]. cbn [fst snd] in *.
    apply bput_I1_incl in Hin. apply B in Hin.
    rewrite (sp_In_del kcm Hk) by exact SF. cbn [fst].
    rewrite (c_eq_r vcm Hv v v1 b Heq).
    pose proof (bipair_link F I a b k1 v1 HB HF Hin) as L. tauto.
  - rewrite (find_list_None vcm) in Ef. split; [|tauto]. intros [_ Hne]. split; [exact Hne|].
    intros E. apply (bput_A a b HF) in Hne. apply (Ef (b, a) Hne). cbn [fst].
    apply (c_eq_sym vcm Hv). exact E.
Qed.

(* the forward list after Put(k, v): the new pair, and every old pair whose key is not equivalent to k
   and whose value is not equivalent to v *)
Lemma bput_fwd_spec : forall a b,
  In (a, b) (ins_list kcm k v (bput_F1 k v F I)) <->
  (a, b) = (k, v) \/ (In (a, b) F /\ kcm a k <> Eq /\ vcm b v <> Eq).
Proof.
  intros a b. rewrite (sp_In_ins kcm Hk) by exact bput_F1_sorted. cbn [fst]. split.
  - intros [E|[H1 H2]]; [left; exact E|]. right.
    pose proof (bput_F1_incl _ H1) as HF. split; [exact HF|]. apply (bput_B a b HF). tauto.
  - intros [E|(HF & H1 & H2)]; [left; exact E|]. right. apply (bput_B a b HF). tauto.
Qed.

Lemma bput_inv_spec : forall a b,
  In (b, a) (ins_list vcm v k (bput_I1 k F I)) <->
  (a, b) = (k, v) \/ (In (a, b) F /\ kcm a k <> Eq /\ vcm b v <> Eq).
Proof.
  pose proof HB as (SF & SI & B).
  intros a b. rewrite (sp_In_ins vcm Hv) by exact bput_I1_sorted. cbn [fst]. split.
  - intros [E|[H1 H2]]; [left; congruence|]. right.
    assert (HF : In (a, b) F) by (apply B; apply bput_I1_incl; exact H1).
    split; [exact HF|]. split; [apply (bput_A a b HF); exact H1|exact H2].
  - intros [E|(HF & H1 & H2)]; [left; congruence|]. right.
    split; [apply (bput_A a b HF); exact H1|exact H2].
Qed.

Lemma bipair_put :
  bipair (ins_list kcm k v (bput_F1 k v F I)) (ins_list vcm v k (bput_I1 k F I)).
Proof.
  split; [apply (ins_list_sorted kcm Hk); exact bput_F1_sorted|].
  split; [apply (ins_list_sorted vcm Hv); exact bput_I1_sorted|].
  intros a b. rewrite bput_fwd_spec, bput_inv_spec. tauto.
Qed.
End PutLists.

(* fresh key, fresh value: nothing is displaced *)
Lemma bput_fresh : forall F I k v, mem_list kcm k F = false -> mem_list vcm v I = false ->
  bput_I1 k F I = I /\ bput_F1 k v F I = F.
Proof.
  intros F I k v Mk Mv. unfold mem_list in *.
  assert (E1 : bput_I1 k F I = I).
  { unfold bput_I1. destruct (find_list kcm k F); [discriminate|reflexivity]. }
  split; [exact E1|]. unfold bput_F1. rewrite E1.
  destruct (find_list vcm v I); [discriminate|reflexivity].
Qed.

(* ---------- the two trees ---------- *)
Definition fwd (s : tbidi) : list (Z * Z) := RB.inorder (fst (fst s)).
Definition inv_ (s : tbidi) : list (Z * Z) := RB.inorder (fst (snd s)).

Definition bidi_inv (s : tbidi) : Prop :=
  rbI kcm (fst s) /\ rbI vcm (snd s) /\ bipair (fwd s) (inv_ s).

Lemma bidi_inv_empty : bidi_inv (rbs_empty, rbs_empty).
Proof.
  split; [apply rbI_empty|]. split; [apply rbI_empty|].
  split; [constructor|]. split; [constructor|]. intros k v. cbn. tauto.
Qed.

Lemma rbs_get_find : forall cmp, SWO cmp -> forall k s, rbI cmp s ->
  rbs_get cmp k s = option_map snd (find_list cmp k (RB.inorder (fst s))).
Proof. intros cmp Hc k [t n] (_ & Hb & _). apply rbs_get_spec; assumption. Qed.

Theorem tbidi_put_sim : forall k v s, bidi_inv s ->
  exists s', tbidi_put kcm vcm k v s = Some s' /\ bidi_inv s' /\
             fwd s' = ins_list kcm k v (bput_F1 k v (fwd s) (inv_ s)) /\
             inv_ s' = ins_list vcm v k (bput_I1 k (fwd s) (inv_ s)).
Proof.
  intros k v [f i] (If & Ii & HB). unfold fwd, inv_ in *. cbn [fst snd] in *.
  unfold tbidi_put.
  (* step 1 *)
  assert (S1 : exists i1, (match rbs_get kcm k f with Some v0 => rbs_remove vcm v0 i | None => Some i end) = Some i1
               /\ rbI vcm i1 /\ RB.inorder (fst i1) = bput_I1 k (RB.inorder (fst f)) (RB.inorder (fst i))).
  { rewrite (rbs_get_find kcm Hk k f If). unfold bput_I1.
    destruct (find_list kcm k (RB.inorder (fst f))) as [e|]; cbn [option_map].
    - destruct (rbs_remove_sim vcm Hv (snd e) i Ii) as (i1 & E & I1 & O1). exists i1. auto.
    - exists i. auto. }
  destruct S1 as (i1 & E1 & Ii1 & O1). rewrite E1.
  assert (S2 : exists f1, (match rbs_get vcm v i1 with Some k0 => rbs_remove kcm k0 f | None => Some f end) = Some f1
               /\ rbI kcm f1 /\ RB.inorder (fst f1) = bput_F1 k v (RB.inorder (fst f)) (RB.inorder (fst i))).
  { rewrite (rbs_get_find vcm Hv v i1 Ii1). unfold bput_F1. rewrite <- O1.
    destruct (find_list vcm v (RB.inorder (fst i1))) as [e|]; cbn [option_map].
    - destruct (rbs_remove_sim kcm Hk (snd e) f If) as (f1 & E & I1 & O2). exists f1. auto.
    - exists f. auto. }
  destruct S2 as (f1 & E2 & If1 & O2). rewrite E2.
  destruct (rbs_put_sim kcm Hk k v f1 If1) as (f2 & E3 & If2 & O3).
  destruct (rbs_put_sim vcm Hv v k i1 Ii1) as (i2 & E4 & Ii2 & O4).
  rewrite E3, E4. exists (f2, i2). split; [reflexivity|]. cbn [fst snd].
  rewrite O3, O4, O2, O1. split; [|split; reflexivity].
  split; [exact If2|]. split; [exact Ii2|]. unfold fwd, inv_. cbn [fst snd].
  rewrite O3, O4, O2, O1. apply bipair_put. exact HB.
Qed.

Theorem tbidi_remove_sim : forall k s, bidi_inv s ->
  exists s', tbidi_remove kcm vcm k s = Some s' /\ bidi_inv s'.
Proof.
  intros k [f i] (If & Ii & HB). unfold fwd, inv_ in *. cbn [fst snd] in *.
  unfold tbidi_remove. rewrite (rbs_get_find kcm Hk k f If).
  destruct (find_list kcm k (RB.inorder (fst f))) as [[k0 v0]|] eqn:Ef; cbn [option_map snd].
  - destruct (rbs_remove_sim kcm Hk k f If) as (f1 & E1 & If1 & O1).
    destruct (rbs_remove_sim vcm Hv v0 i Ii) as (i1 & E2 & Ii1 & O2).
    rewrite E1, E2. exists (f1, i1). split; [reflexivity|].
    split; [exact If1|]. split; [exact Ii1|]. unfold fwd, inv_. cbn [fst snd].
    rewrite O1, O2. eapply bipair_del; eassumption.
  - exists (f, i). split; [reflexivity|]. split; [exact If|]. split; [exact Ii|exact HB].
Qed.

Theorem tbidi_puts_sim : forall es s, bidi_inv s ->
  exists s', tbidi_puts kcm vcm es s = Some s' /\ bidi_inv s'.
Proof.
  induction es as [|[k v] es IH]; intros s Hs; [exists s; split; [reflexivity|exact Hs]|].
  destruct (tbidi_put_sim k v s Hs) as (s1 & E1 & H1 & _).
  cbn [tbidi_puts]. rewrite E1. apply IH. exact H1.
Qed.

(* Put at the level of the two lists, and its meaning: the new pair enters; every old pair whose key is
   equivalent to the new key, or whose value is equivalent to the new value, leaves *)
Definition bidi_step (s : list (Z * Z) * list (Z * Z)) (e : Z * Z) : list (Z * Z) * list (Z * Z) :=
  (ins_list kcm (fst e) (snd e) (bput_F1 (fst e) (snd e) (fst s) (snd s)),
   ins_list vcm (snd e) (fst e) (bput_I1 (fst e) (fst s) (snd s))).

Theorem bidi_step_spec : forall s e, bipair (fst s) (snd s) ->
  bipair (fst (bidi_step s e)) (snd (bidi_step s e)) /\
  forall a b, In (a, b) (fst (bidi_step s e)) <->
              (a, b) = e \/ (In (a, b) (fst s) /\ kcm a (fst e) <> Eq /\ vcm b (snd e) <> Eq).
Proof.
  intros [F I] [k v] HB. cbn [fst snd bidi_step] in *. split; [apply bipair_put; exact HB|].
  intros a b. apply bput_fwd_spec. exact HB.
Qed.

Theorem tbidi_puts_spec : forall es s, bidi_inv s ->
  exists s', tbidi_puts kcm vcm es s = Some s' /\ bidi_inv s' /\
             (fwd s', inv_ s') = fold_left bidi_step es (fwd s, inv_ s).
Proof.
  induction es as [|[k v] es IH]; intros s Hs; [exists s; auto|].
  destruct (tbidi_put_sim k v s Hs) as (s1 & E1 & H1 & O1 & O2).
  destruct (IH s1 H1) as (s2 & E2 & H2 & O3).
  exists s2. cbn [tbidi_puts]. rewrite E1. split; [exact E2|]. split; [exact H2|].
  rewrite O3, O1, O2. reflexivity.
Qed.

(* the values of a one-to-one forward list are pairwise inequivalent *)
Definition vinj (l : list (Z * Z)) : Prop :=
  forall a b, In a l -> In b l -> vcm (snd a) (snd b) = Eq -> a = b.

Lemma bipair_vinj : forall F I, bipair F I -> vinj F.
Proof.
  intros F I HB [a b] [a' b'] H1 H2 E. cbn [snd] in E.
  apply (bipair_link F I a b a' b' HB H1 H2) in E.
  destruct HB as (SF & _ & _). apply (ksorted_In_eq kcm Hk F); assumption.
Qed.

(* inserting, in order, a strictly ascending one-to-one list above everything present: appended as is *)
Theorem tbidi_puts_fresh : forall l s, bidi_inv s ->
  ksorted kcm (fwd s ++ l) -> vinj (fwd s ++ l) ->
  exists s', tbidi_puts kcm vcm l s = Some s' /\ bidi_inv s' /\ fwd s' = fwd s ++ l.
Proof.
  induction l as [|[k v] l IH]; intros s Hs Hsort Hinj.
  - exists s. rewrite app_nil_r. auto.
  - destruct (tbidi_put_sim k v s Hs) as (s1 & E1 & H1 & O1 & _).
    pose proof Hs as (_ & _ & HB). pose proof HB as (SF & SI & B).
    pose proof Hsort as Hsort'. apply (ksorted_app_iff kcm) in Hsort'. destruct Hsort' as (_ & _ & Hlt).
    assert (Hbelow : forall e, In e (fwd s) -> kcm (fst e) k = Lt).
    { intros e He. exact (Hlt e (k, v) He (or_introl eq_refl)). }
    assert (Mk : mem_list kcm k (fwd s) = false).
    { unfold mem_list. destruct (find_list kcm k (fwd s)) as [e|] eqn:Ef; [|reflexivity].
      apply find_list_Some in Ef. destruct Ef as [He Heq].
      pose proof (Hbelow e He) as L. apply (c_eq_sym kcm Hk) in Heq. congruence. }
    assert (Mv : mem_list vcm v (inv_ s) = false).
    { unfold mem_list. destruct (find_list vcm v (inv_ s)) as [[v1 k1]|] eqn:Ef; [|reflexivity].
      apply find_list_Some in Ef. destruct Ef as [He Heq]. cbn [fst] in Heq.
      apply B in He.
      assert (X : (k, v) = (k1, v1)).
      { apply Hinj; [apply in_or_app; right; left; reflexivity|apply in_or_app; left; exact He|exact Heq]. }
      inversion X; subst. pose proof (Hbelow _ He) as L. cbn [fst] in L.
      rewrite (c_refl kcm Hk) in L. discriminate. }
    destruct (bput_fresh _ _ k v Mk Mv) as [_ EF]. rewrite EF in O1.
    rewrite (ins_list_last kcm Hk k v (fwd s) Hbelow) in O1.
    destruct (IH s1 H1) as (s2 & E2 & H2 & O2).
    + rewrite O1, <- app_assoc. exact Hsort.
    + rewrite O1, <- app_assoc. exact Hinj.
    + exists s2. cbn [tbidi_puts]. rewrite E1. split; [exact E2|]. split; [exact H2|].
      rewrite O2, O1, <- app_assoc. reflexivity.
Qed.
End Bidi.

(* ================================================================================================ *)
(* 3. the reachable states of the eight enumerable kinds                                            *)
(* ================================================================================================ *)
Definition einv (c : config) (s : state) : Prop :=
  match ckind c, s with
  | (ArrayList | SinglyLinkedList | DoublyLinkedList), StSeq _ => True
  | (TreeSet | TreeMap), StRB t n => rbI (kc c) (t, n)
  | LinkedHashSet, StLSet tbl ord => lset_inv tbl ord
  | LinkedHashMap, StLMap tbl ord => lmap_inv tbl ord
  | TreeBidiMap, StTBidi f fn i inn => bidi_inv (kc c) (vc c) ((f, fn), (i, inn))
  | _, _ => False
  end.

Lemma vc_SWO : forall c, SWO (vc c).
Proof. intros c. apply cmp_of_SWO. Qed.

Lemma einv_enumerable : forall c s, einv c s -> has_enumerable (ckind c) = true.
Proof. intros c s H. unfold einv in H. destruct (ckind c); try contradiction; reflexivity. Qed.

Lemma einv_not_crash : forall c s, einv c s -> s <> StCrash.
Proof. intros c s H E. subst s. unfold einv in H. destruct (ckind c); exact H. Qed.

Lemma einv_init : forall c, has_enumerable (ckind c) = true -> einv c (init c).
Proof.
  intros c H. unfold einv, init. destruct (ckind c); try discriminate H; try exact I.
  - apply rbI_empty.
  - apply lset_inv_nil.
  - apply rbI_empty.
  - apply lmap_inv_nil.
  - apply (bidi_inv_empty (kc c) (vc c)).
Qed.

(* ---------- TreeBidiMap: one machine step ---------- *)
Lemma tb_put_entries : forall c es f fn i inn, bidi_inv (kc c) (vc c) ((f, fn), (i, inn)) ->
  exists f' fn' i' inn', put_entries c es (StTBidi f fn i inn) = StTBidi f' fn' i' inn' /\
                         bidi_inv (kc c) (vc c) ((f', fn'), (i', inn')).
Proof.
  intros c es f fn i inn H.
  destruct (tbidi_puts_sim (kc c) (vc c) (kc_SWO c) (vc_SWO c) es _ H) as ([[f' fn'] [i' inn']] & E & H').
  exists f', fn', i', inn'. cbn [put_entries]. rewrite E. split; [reflexivity|exact H'].
Qed.

Lemma tb_step : forall c s o, ckind c = TreeBidiMap -> einv c s -> einv c (fst (fst (step c s o))).
Proof.
  intros c s o K H. unfold einv in *. rewrite K in *. destruct s; try contradiction.
  assert (Hinit : init c = StTBidi RB.E 0 RB.E 0) by (unfold init; rewrite K; reflexivity).
  destruct o; unfold step; rewrite ?K; cbn [fst snd pure has_enumerable negb]; try exact H.
  - (* Put *)
    destruct (tbidi_put_sim (kc c) (vc c) (kc_SWO c) (vc_SWO c) k v _ H) as ([[f' fn'] [i' inn']] & E & H' & _).
    rewrite E. exact H'.
  - (* Remove *)
    destruct (tbidi_remove_sim (kc c) (vc c) (kc_SWO c) (vc_SWO c) k _ H) as ([[f' fn'] [i' inn']] & E & H').
    rewrite E. exact H'.
  - (* Clear *) rewrite Hinit. apply (bidi_inv_empty (kc c) (vc c)).
  - (* FromJSON *)
    unfold from_json. rewrite K. cbn [is_kv]. destruct d as [| |vs|kvs]; cbn [fst]; try exact H.
    + rewrite Hinit. apply (bidi_inv_empty (kc c) (vc c)).
    + rewrite Hinit.
      destruct (tb_put_entries c (sort_entries kvs) RB.E 0 RB.E 0 (bidi_inv_empty (kc c) (vc c)))
        as (f' & fn' & i' & inn' & E & H').
      rewrite E. exact H'.
  - destruct (each_of c _); exact H.
  - destruct (each_of c _); exact H.
  - destruct (each_of c _); exact H.
  - destruct (each_of c _); exact H.
  - destruct (each_of c _); exact H.
  - destruct (each_of c _); exact H.
Qed.

Lemma tb_run : forall c ops, ckind c = TreeBidiMap -> einv c (run c ops).
Proof.
  intros c ops K.
  assert (G : forall ops s, einv c s -> einv c (run_from c s ops)).
  { clear ops. induction ops as [|o ops IH]; intros s H; [exact H|].
    change (run_from c s (o :: ops)) with (run_from c (fst (fst (step c s o))) ops).
    apply IH. apply tb_step; assumption. }
  apply G. apply einv_init. rewrite K. reflexivity.
Qed.

(* ---------- all eight kinds ---------- *)
Theorem einv_run : forall c ops, has_enumerable (ckind c) = true -> einv c (run c ops).
Proof.
  intros c ops H. destruct (ckind c) eqn:K; try discriminate H.
  - (* ArrayList *)
    assert (L : linear_state c (run c ops) = true).
    { apply run_linear; unfold is_linear_kind, ring_ok; rewrite K; reflexivity. }
    unfold linear_state in L. unfold einv. rewrite K in *. destruct (run c ops); try discriminate L. exact I.
  - assert (L : linear_state c (run c ops) = true).
    { apply run_linear; unfold is_linear_kind, ring_ok; rewrite K; reflexivity. }
    unfold linear_state in L. unfold einv. rewrite K in *. destruct (run c ops); try discriminate L. exact I.
  - assert (L : linear_state c (run c ops) = true).
    { apply run_linear; unfold is_linear_kind, ring_ok; rewrite K; reflexivity. }
    unfold linear_state in L. unfold einv. rewrite K in *. destruct (run c ops); try discriminate L. exact I.
  - (* TreeSet *)
    destruct (treeset_refines c ops K) as [Hi _]. unfold tsinv in Hi. unfold einv. rewrite K.
    destruct (run c ops); try contradiction. exact Hi.
  - (* LinkedHashSet *)
    assert (Hs : is_set_kind (ckind c) = true) by (rewrite K; reflexivity).
    destruct (set_run c ops Hs) as [Hi _]. unfold set_inv in Hi. unfold einv. rewrite K in *.
    destruct (run c ops); try contradiction. exact Hi.
  - (* TreeMap *)
    assert (Hv : valid c) by (split; [rewrite K; reflexivity|rewrite K; discriminate]).
    destruct (MachineMaps.run_sim c ops Hv) as [Hi _]. unfold minv, Generic.inv in Hi. unfold einv.
    rewrite K in *. destruct (run c ops); try contradiction. exact Hi.
  - (* LinkedHashMap *)
    assert (Hl : is_linked_kind (ckind c) = true) by (rewrite K; reflexivity).
    destruct (linked_run c ops Hl) as [Hi _]. unfold linked_inv in Hi. unfold einv. rewrite K in *.
    destruct (run c ops); try contradiction. exact Hi.
  - (* TreeBidiMap *)
    pose proof (tb_run c ops K) as Hi. unfold einv in Hi. rewrite K in Hi. unfold einv. rewrite K. exact Hi.
Qed.

(* ================================================================================================ *)
(* 4. the walk of a fresh iterator                                                                  *)
(* ================================================================================================ *)
(* the sequence the enumerable functions range over: (key, value) in Keys() order for the three maps,
   (index, element) for the lists and sets *)
Definition enum_seq (c : config) (s : state) : list (Z * Z) :=
  if is_kv (ckind c) then entries_of c s else indexed (values_of c s).

Lemma indexed_from_combine : forall ks i,
  IterTreeRB.indexed_from i ks = combine (zrange i (length ks)) ks.
Proof.
  induction ks as [|k ks IH]; intros i; [reflexivity|].
  cbn [IterTreeRB.indexed_from length zrange combine]. rewrite IH. reflexivity.
Qed.

Lemma rb_indexed_eq : forall ks, IterTreeRB.indexed ks = indexed ks.
Proof. intros ks. unfold IterTreeRB.indexed, indexed. apply indexed_from_combine. Qed.

Lemma rbI_count : forall cmp t n, rbI cmp (t, n) -> n = Z.of_nat (RB.count t).
Proof.
  intros cmp t n (_ & _ & Hn). cbn [fst snd] in Hn. rewrite Hn.
  rewrite IterTreeRB.RBIter.length_inorder. reflexivity.
Qed.

Theorem each_of_einv : forall c s, einv c s -> each_of c s = Some (enum_seq c s).
Proof.
  intros c s H. unfold einv in H. unfold enum_seq.
  destruct (ckind c) eqn:K; try contradiction; destruct s; try contradiction; cbn [is_kv].
  - rewrite each_of_linear; [reflexivity|rewrite K; discriminate|exact I].
  - rewrite each_of_linear; [reflexivity|rewrite K; discriminate|exact I].
  - rewrite each_of_linear; [reflexivity|rewrite K; discriminate|exact I].
  - rewrite (IterTreeRB.each_of_treeset c t n K (rbI_count _ _ _ H)).
    rewrite rb_indexed_eq. cbn [values_of]. rewrite K. reflexivity.
  - rewrite each_of_linear; [reflexivity|rewrite K; discriminate|exact I].
  - rewrite (IterTreeRB.each_of_rb c t n); [reflexivity|rewrite K; discriminate|].
    exact (rbI_count _ _ _ H).
  - rewrite each_of_linear; [reflexivity|rewrite K; discriminate|exact I].
  - destruct H as (Hf & _ & _). cbn [fst] in Hf.
    rewrite (IterTreeRB.each_of_treebidi c f fn i inn (rbI_count _ _ _ Hf)). reflexivity.
Qed.

(* ================================================================================================ *)
(* 5. one step of an enumerable function                                                            *)
(* ================================================================================================ *)
Definition is_enum_op (o : op) : bool :=
  match o with Each | AnyP _ | AllP _ | FindP _ | SelectP _ | MapF _ => true | _ => false end.

Definition holds (p : pred) (e : Z * Z) : bool := pred_eval p (fst e) (snd e).
Definition apply_f (f : mapf) (e : Z * Z) : Z * Z := mapf_eval f (fst e) (snd e).

(* the "nothing matches" answer of Find: (-1, zero) on index-addressed kinds, (zero, zero) on maps *)
Definition find_none (c : config) : obs := if is_kv (ckind c) then opair 0 0 else opair (-1) 0.

Definition enum_result (c : config) (o : op) (es : list (Z * Z)) : obs :=
  match o with
  | Each => opairs es
  | AnyP p => obool (existsb (holds p) es)
  | AllP p => obool (forallb (holds p) es)
  | FindP p => match find (holds p) es with Some (i, v) => opair i v | None => find_none c end
  | SelectP p => content_obs c (select_of c p es)
  | MapF f => content_obs c (map_of c f es)
  | _ => ounsupported
  end.

Theorem enum_step : forall c s o, einv c s -> is_enum_op o = true ->
  step c s o = (s, enum_result c o (enum_seq c s), onone).
Proof.
  intros c s o H Ho.
  pose proof (einv_not_crash c s H) as Hnc. pose proof (each_of_einv c s H) as He.
  pose proof (einv_enumerable c s H) as Hen.
  destruct o; try discriminate Ho; destruct s; try congruence;
    unfold step; rewrite Hen; cbn [negb]; rewrite He; reflexivity.
Qed.

(* Find returns the FIRST match *)
Lemma find_first_spec : forall (q : Z * Z -> bool) es e,
  find q es = Some e <-> exists l1 l2, es = l1 ++ e :: l2 /\ q e = true /\ forallb (fun x => negb (q x)) l1 = true.
Proof.
  intros q es e. induction es as [|x es IH]; cbn [find].
  - split; [discriminate|]. intros (l1 & l2 & E & _). destruct l1; discriminate.
  - destruct (q x) eqn:Q.
    + split.
      * intros E. inversion E; subst. exists [], es. auto.
      * intros (l1 & l2 & E & Qe & Hall). destruct l1 as [|y l1]; cbn [app] in E; inversion E; subst; [reflexivity|].
        cbn [forallb] in Hall. rewrite Q in Hall. discriminate.
    + rewrite IH. split.
      * intros (l1 & l2 & E & Qe & Hall). exists (x :: l1), l2. subst es. cbn [forallb]. rewrite Q. auto.
      * intros (l1 & l2 & E & Qe & Hall). destruct l1 as [|y l1]; cbn [app] in E; inversion E; subst; [congruence|].
        cbn [forallb] in Hall. apply andb_true_iff in Hall. exists l1, l2. tauto.
Qed.

Lemma find_none_spec : forall (q : Z * Z -> bool) es, find q es = None <-> forallb (fun x => negb (q x)) es = true.
Proof.
  intros q es. induction es as [|x es IH]; cbn [find forallb]; [tauto|].
  destruct (q x); cbn [negb andb]; [split; discriminate|exact IH].
Qed.

(* ================================================================================================ *)
(* 6. what Select and Map build                                                                     *)
(* ================================================================================================ *)
(* the container Select / Map return for a list [es] of kept / mapped (index-or-key, value) pairs *)
Definition built (c : config) (es : list (Z * Z)) : state :=
  if is_kv (ckind c) then put_entries c es (init c) else add_values c (map snd es) (init c).

Lemma select_of_built : forall c p es, select_of c p es = built c (filter (holds p) es).
Proof. reflexivity. Qed.
Lemma map_of_built : forall c f es, map_of c f es = built c (map (apply_f f) es).
Proof. reflexivity. Qed.

(* the operations a caller would issue to build the same container by hand *)
Definition puts_ops (es : list (Z * Z)) : list op := map (fun e => Put (fst e) (snd e)) es.
Definition adds_ops (vs : list Z) : list op := map (fun v => Add [v]) vs.
Definition build_ops (c : config) (es : list (Z * Z)) : list op :=
  if is_kv (ckind c) then puts_ops es else adds_ops (map snd es).

Lemma run_from_crash : forall c ops, run_from c StCrash ops = StCrash.
Proof. intros c ops. induction ops as [|o ops IH]; [reflexivity|exact IH]. Qed.

Lemma run_from_cons : forall c s o ops, run_from c s (o :: ops) = run_from c (fst (fst (step c s o))) ops.
Proof. reflexivity. Qed.

Lemma put_entries_run_from : forall c es s,
  match ckind c, s with
  | TreeMap, StRB _ _ | LinkedHashMap, StLMap _ _ | TreeBidiMap, StTBidi _ _ _ _ => True
  | _, _ => False
  end ->
  put_entries c es s = run_from c s (puts_ops es).
Proof.
  intros c es. induction es as [|[k v] es IH]; intros s Hs.
  - destruct (ckind c); try contradiction; destruct s; try contradiction; reflexivity.
  - cbn [puts_ops map fst snd]. fold (puts_ops es). rewrite run_from_cons.
    destruct (ckind c) eqn:K; try contradiction; destruct s; try contradiction;
      unfold step; rewrite ?K; cbn [put_entries rbs_puts tbidi_puts fold_left fst snd].
    + destruct (rbs_put (kc c) k v (t, n)) as [[t' n']|]; cbn [fst].
      * rewrite <- IH by exact I. reflexivity.
      * rewrite run_from_crash. reflexivity.
    + destruct (lmap_put k v (tbl, ord)) as [t1 o1]. cbn [fst].
      rewrite <- IH by exact I. reflexivity.
    + destruct (tbidi_put (kc c) (vc c) k v (f, fn, (i, inn))) as [[[f' fn'] [i' inn']]|]; cbn [fst].
      * rewrite <- IH by exact I. reflexivity.
      * rewrite run_from_crash. reflexivity.
Qed.

Lemma add_values_run_from : forall c vs s,
  match ckind c, s with
  | (ArrayList | SinglyLinkedList | DoublyLinkedList), StSeq _ | TreeSet, StRB _ _
  | LinkedHashSet, StLSet _ _ => True
  | _, StCrash => True
  | _, _ => False
  end ->
  add_values c vs s = run_from c s (adds_ops vs).
Proof.
  intros c vs. induction vs as [|v vs IH]; intros s Hs.
  - cbn [adds_ops map run_from fold_left].
    destruct (ckind c) eqn:K; try contradiction; destruct s; try contradiction;
      cbn [add_values]; rewrite ?K; try reflexivity.
    unfold al_add. rewrite app_nil_r. reflexivity.
  - cbn [adds_ops map]. fold (adds_ops vs). rewrite run_from_cons.
    destruct s; try (destruct (ckind c); contradiction).
    + (* StSeq *)
      destruct (ckind c) eqn:K; try contradiction; unfold step; rewrite K; cbn [fst];
        (rewrite <- IH by (cbn [add_values]; rewrite K; exact I));
        unfold add_values; rewrite ?K; try reflexivity.
      unfold al_add. rewrite <- app_assoc. reflexivity.
    + (* StLSet *)
      destruct (ckind c) eqn:K; try contradiction. unfold step. rewrite K. cbn [fst].
      cbn [add_values fold_left]. destruct (lset_add1 v (tbl, ord)) as [t1 o1].
      rewrite <- IH by exact I. reflexivity.
    + (* StRB *)
      destruct (ckind c) eqn:K; try contradiction. unfold step. rewrite K. cbn [fst].
      cbn [add_values map rbs_puts]. destruct (rbs_put (kc c) v 0 (t, n)) as [[t' n']|].
      * rewrite <- IH by exact I. reflexivity.
      * rewrite run_from_crash. reflexivity.
    + (* StCrash *)
      cbn [step fst add_values]. rewrite run_from_crash. reflexivity.
Qed.

Theorem built_run : forall c es, has_enumerable (ckind c) = true -> built c es = run c (build_ops c es).
Proof.
  intros c es H. unfold built, build_ops, run.
  destruct (ckind c) eqn:K; try discriminate H; cbn [is_kv].
  - apply add_values_run_from. unfold init. rewrite K. exact I.
  - apply add_values_run_from. unfold init. rewrite K. exact I.
  - apply add_values_run_from. unfold init. rewrite K. exact I.
  - apply add_values_run_from. unfold init. rewrite K. exact I.
  - apply add_values_run_from. unfold init. rewrite K. exact I.
  - apply put_entries_run_from. unfold init. rewrite K. exact I.
  - apply put_entries_run_from. unfold init. rewrite K. exact I.
  - apply put_entries_run_from. unfold init. rewrite K. exact I.
Qed.

(* hence the result is a reachable state of the very same configuration: same kind, same comparators,
   and it satisfies the invariant of that kind; in particular it is not a crash *)
Theorem built_einv : forall c es, has_enumerable (ckind c) = true -> einv c (built c es).
Proof. intros c es H. rewrite built_run by exact H. apply einv_run. exact H. Qed.

(* ================================================================================================ *)
(* 7. the content of the result, kind by kind                                                       *)
(* ================================================================================================ *)
Definition list_kind (k : kind) : bool :=
  match k with ArrayList | SinglyLinkedList | DoublyLinkedList => true | _ => false end.

Definition emb0 (vs : list Z) : list (Z * Z) := map (fun x => (x, 0)) vs.

Lemma map_fst_emb0 : forall vs, map fst (emb0 vs) = vs.
Proof. intros vs. unfold emb0. rewrite map_map. cbn [fst]. apply map_id. Qed.

Lemma keys_ssorted : forall cmp l, ksorted cmp l -> StronglySorted (fun a b => cmp a b = Lt) (map fst l).
Proof.
  intros cmp l H. induction H as [|a l Hs IH Hall]; cbn [map]; constructor; [exact IH|].
  rewrite Forall_map. exact Hall.
Qed.

Lemma emb0_ksorted : forall cmp vs, StronglySorted (fun a b => cmp a b = Lt) vs -> ksorted cmp (emb0 vs).
Proof.
  intros cmp vs H. unfold emb0, ksorted. induction H as [|a l Hs IH Hall]; cbn [map]; constructor; [exact IH|].
  rewrite Forall_map. cbn [fst]. exact Hall.
Qed.

(* ---------- the three lists ---------- *)
Lemma built_list : forall c es, list_kind (ckind c) = true ->
  built c es = StSeq (map snd es) /\ values_of c (built c es) = map snd es.
Proof.
  intros c es H. unfold built, init.
  destruct (ckind c) eqn:K; try discriminate H; cbn [is_kv add_values values_of]; rewrite K;
    rewrite ?sll_add_eq, ?dll_add_eq; unfold al_add; cbn [app values_of]; rewrite ?K; split; reflexivity.
Qed.

(* ---------- LinkedHashSet ---------- *)
Lemma built_lset : forall c es, ckind c = LinkedHashSet ->
  exists tbl, built c es = StLSet tbl (uniq_first [] (map snd es)) /\
              lset_inv tbl (uniq_first [] (map snd es)).
Proof.
  intros c es K. unfold built, init. rewrite K. cbn [is_kv add_values].
  destruct (ls_adds_spec (map snd es) [] [] lset_inv_nil) as (t' & o' & E & Hi & _ & O).
  rewrite order_ins_uniq in O. cbn [app] in O. subst o'.
  unfold ls_adds in E. rewrite E. exists t'. split; [reflexivity|exact Hi].
Qed.

(* ---------- TreeSet and TreeMap ---------- *)
Lemma built_rb_gen : forall c es, exists t n,
  put_entries c es (StRB RB.E 0) = StRB t n /\ rbI (kc c) (t, n) /\
  RB.inorder t = mrun (kc c) (puts es).
Proof.
  intros c es.
  destruct (rbs_puts_sim (kc c) (kc_SWO c) es (RB.E, 0) (rbI_empty (kc c))) as ([t n] & E & Hi & O).
  exists t, n. cbn [put_entries]. rewrite E. cbn [fst] in O. split; [reflexivity|]. split; [exact Hi|exact O].
Qed.

Lemma built_tmap : forall c es, ckind c = TreeMap -> exists t n,
  built c es = StRB t n /\ rbI (kc c) (t, n) /\ RB.inorder t = mrun (kc c) (puts es).
Proof. intros c es K. unfold built, init. rewrite K. cbn [is_kv]. apply built_rb_gen. Qed.

Lemma built_tset : forall c es, ckind c = TreeSet -> exists t n,
  built c es = StRB t n /\ rbI (kc c) (t, n) /\ RB.inorder t = mrun (kc c) (puts (emb0 (map snd es))).
Proof.
  intros c es K. unfold built, init. rewrite K. cbn [is_kv add_values].
  exact (built_rb_gen c (emb0 (map snd es))).
Qed.

(* ---------- LinkedHashMap ---------- *)
Lemma built_lmap : forall c es, ckind c = LinkedHashMap ->
  built c es = StLMap (hputs es []) (uniq_first [] (map fst es)) /\
  lmap_inv (hputs es []) (uniq_first [] (map fst es)).
Proof.
  intros c es K. unfold built, init. rewrite K. cbn [is_kv put_entries].
  destruct (lm_puts_spec es [] [] lmap_inv_nil) as (tbl' & E & Hi & T).
  rewrite order_ins_uniq in E, Hi. cbn [app] in E, Hi. unfold lm_puts in E. rewrite E.
  unfold hputs. rewrite <- T. split; [reflexivity|exact Hi].
Qed.

(* ---------- TreeBidiMap ---------- *)
Lemma built_tbidi : forall c es, ckind c = TreeBidiMap ->
  built c es = match tbidi_puts (kc c) (vc c) es (rbs_empty, rbs_empty) with
               | Some ((f, fn), (i, inn)) => StTBidi f fn i inn
               | None => StCrash
               end.
Proof. intros c es K. unfold built, init. rewrite K. reflexivity. Qed.

Theorem built_tbidi_entries : forall c es, ckind c = TreeBidiMap ->
  entries_of c (built c es) = fst (fold_left (bidi_step (kc c) (vc c)) es ([], [])).
Proof.
  intros c es K. rewrite (built_tbidi c es K).
  destruct (tbidi_puts_spec (kc c) (vc c) (kc_SWO c) (vc_SWO c) es (rbs_empty, rbs_empty)
              (bidi_inv_empty (kc c) (vc c))) as ([[f fn] [i inn]] & E & _ & O).
  rewrite E. cbn [entries_of]. cbn [fwd inv_ fst snd RB.inorder rbs_empty] in O. rewrite <- O. reflexivity.
Qed.

(* ---------- facts about reachable states used below ---------- *)
Lemma lmap_entries_keys : forall tbl ord, map fst (lmap_entries tbl ord) = ord.
Proof. intros tbl ord. unfold lmap_entries. rewrite map_map. cbn [fst]. apply map_id. Qed.

(* ---------- Select: exactly the matching elements, in their original relative order ---------- *)
Theorem select_content : forall c s p, einv c s ->
  let kept := filter (holds p) (enum_seq c s) in
  if is_kv (ckind c) then entries_of c (built c kept) = kept
  else values_of c (built c kept) = map snd kept.
Proof.
  intros c s p H kept. unfold einv in H. unfold enum_seq in kept.
  destruct (ckind c) eqn:K; try contradiction; destruct s; try contradiction; cbn [is_kv] in *.
  - apply built_list. rewrite K. reflexivity.
  - apply built_list. rewrite K. reflexivity.
  - apply built_list. rewrite K. reflexivity.
  - (* TreeSet *)
    destruct (built_tset c kept K) as (t' & n' & E & _ & O). rewrite E. cbn [values_of]. rewrite K.
    unfold RB.keys. rewrite O.
    assert (Hs : StronglySorted (fun a b => kc c a b = Lt) (map snd kept)).
    { unfold kept. apply SSorted_map_snd_filter. rewrite map_fst_indexed. cbn [values_of]. rewrite K.
      unfold RB.keys. apply keys_ssorted. apply H. }
    rewrite (mrun_puts_sorted (kc c) (kc_SWO c)) by (apply emb0_ksorted; exact Hs).
    apply map_fst_emb0.
  - (* LinkedHashSet *)
    destruct (built_lset c kept K) as (tbl' & E & _). rewrite E. cbn [values_of].
    apply uniq_first_id; [|intros x _ []].
    unfold kept. apply NoDup_map_snd_filter. rewrite map_fst_indexed. cbn [values_of]. apply H.
  - (* TreeMap *)
    destruct (built_tmap c kept K) as (t' & n' & E & _ & O). rewrite E. cbn [entries_of]. rewrite O.
    apply (mrun_puts_sorted (kc c) (kc_SWO c)). unfold kept. apply (ksorted_filter (kc c)).
    cbn [entries_of]. apply H.
  - (* LinkedHashMap *)
    destruct (built_lmap c kept K) as (E & _). rewrite E. cbn [entries_of].
    assert (Hnd : NoDup (map fst kept)).
    { unfold kept. apply NoDup_map_fst_filter. cbn [entries_of]. rewrite lmap_entries_keys. apply H. }
    rewrite (uniq_first_id (map fst kept) [] Hnd) by (intros x _ []).
    unfold lmap_entries. rewrite map_map.
    transitivity (map (fun e : Z * Z => e) kept); [|apply map_id].
    apply map_ext_in. intros [k v] He. cbn [fst]. unfold lmap_value.
    rewrite (hget_hputs_nodup kept [] k v Hnd He). reflexivity.
  - (* TreeBidiMap *)
    rewrite (built_tbidi c kept K).
    pose proof H as (Hf & _ & HB). cbn [entries_of] in kept.
    destruct (tbidi_puts_fresh (kc c) (vc c) (kc_SWO c) (vc_SWO c) kept (rbs_empty, rbs_empty)
                (bidi_inv_empty (kc c) (vc c))) as ([[f' fn'] [i' inn']] & E & _ & O).
    + cbn [fwd fst RB.inorder app]. unfold kept. apply (ksorted_filter (kc c)). apply HB.
    + cbn [fwd fst RB.inorder app]. intros a b Ha Hb Hab.
      unfold kept in Ha, Hb. apply filter_In in Ha. apply filter_In in Hb.
      apply (bipair_vinj (kc c) (vc c) (kc_SWO c) (vc_SWO c) _ _ HB); tauto.
    + rewrite E. cbn [entries_of]. exact O.
Qed.

(* ---------- Map: the mapped elements inserted in iteration order ---------- *)
(* lists: position by position *)
Theorem built_list_values : forall c es, list_kind (ckind c) = true -> values_of c (built c es) = map snd es.
Proof. intros c es H. apply built_list. exact H. Qed.

(* LinkedHashSet: first occurrences, in order *)
Theorem built_lset_values : forall c es, ckind c = LinkedHashSet ->
  values_of c (built c es) = uniq_first [] (map snd es).
Proof. intros c es K. destruct (built_lset c es K) as (tbl & E & _). rewrite E. reflexivity. Qed.

(* TreeSet: the sorted set obtained by repeated insertion; TreeMap: the map spec *)
Theorem built_tset_values : forall c es, ckind c = TreeSet ->
  entries_of c (built c es) = mrun (kc c) (puts (emb0 (map snd es))) /\
  values_of c (built c es) = map fst (mrun (kc c) (puts (emb0 (map snd es)))).
Proof.
  intros c es K. destruct (built_tset c es K) as (t & n & E & _ & O). rewrite E.
  cbn [entries_of values_of]. rewrite K. unfold RB.keys. rewrite O. split; reflexivity.
Qed.

Theorem built_tmap_entries : forall c es, ckind c = TreeMap ->
  entries_of c (built c es) = mrun (kc c) (puts es).
Proof. intros c es K. destruct (built_tmap c es K) as (t & n & E & _ & O). rewrite E. exact O. Qed.

(* which of several equivalent elements survives in a TreeSet: the LAST one inserted *)
Lemma last_live_puts : forall cmp l k,
  last_live cmp (puts l) k = find (fun e => is_eq (cmp k (fst e))) l.
Proof.
  intros cmp l k. induction l as [|[k' v'] l IH]; [reflexivity|].
  cbn [puts map last_live find fst snd]. fold (puts l). rewrite IH.
  destruct (cmp k k'); reflexivity.
Qed.

Lemma puts_rev : forall l, rev (puts l) = puts (rev l).
Proof. intros l. unfold puts. symmetry. apply map_rev. Qed.

Lemma find_emb0 : forall (q : Z -> bool) vs,
  find (fun e : Z * Z => q (fst e)) (emb0 vs) = option_map (fun x => (x, 0)) (find q vs).
Proof.
  intros q vs. unfold emb0. induction vs as [|x vs IH]; [reflexivity|].
  cbn [map find fst]. destruct (q x); [reflexivity|exact IH].
Qed.

Lemma fold_puts_In : forall cmp es l e,
  In e (fold_left (mstep cmp) (puts es) l) -> In e l \/ In e es.
Proof.
  intros cmp es. induction es as [|[k v] es IH]; intros l e H; [left; exact H|].
  cbn [puts map fold_left mstep fst snd] in H. fold (puts es) in H. apply IH in H.
  destruct H as [H|H]; [|right; right; exact H].
  apply ins_list_In in H. destruct H as [->|H]; [right; left; reflexivity|left; exact H].
Qed.

Theorem built_tset_survivor : forall c es x, ckind c = TreeSet ->
  (In x (values_of c (built c es)) <->
   find (fun y => is_eq (kc c x y)) (rev (map snd es)) = Some x).
Proof.
  intros c es x K. destruct (built_tset_values c es K) as [_ ->].
  set (vs := map snd es).
  assert (Hz : forall e, In e (mrun (kc c) (puts (emb0 vs))) -> snd e = 0).
  { intros e He. unfold mrun in He. apply fold_puts_In in He. destruct He as [[]|He].
    unfold emb0 in He. apply in_map_iff in He. destruct He as (y & <- & _). reflexivity. }
  assert (Hx : In x (map fst (mrun (kc c) (puts (emb0 vs)))) <-> In (x, 0) (mrun (kc c) (puts (emb0 vs)))).
  { split.
    - intros Hin. apply in_map_iff in Hin. destruct Hin as ([k v] & <- & He).
      pose proof (Hz _ He) as Z0. cbn [snd fst] in *. subst v. exact He.
    - intros He. apply (in_map fst) in He. exact He. }
  rewrite Hx, (mrun_In_last_live (kc c) (kc_SWO c)). cbn [fst].
  rewrite puts_rev, last_live_puts. unfold emb0. rewrite <- map_rev. fold (emb0 (rev vs)).
  rewrite (find_emb0 (fun y => is_eq (kc c x y))).
  destruct (find (fun y => is_eq (kc c x y)) (rev vs)) as [y|]; cbn [option_map];
    split; intros E; inversion E; reflexivity.
Qed.

(* LinkedHashMap: keys in first-occurrence order, each with the value of its LAST write *)
Lemma lmap_inv_lmI : forall tbl ord, lmap_inv tbl ord -> lmI (tbl, ord).
Proof.
  intros tbl ord (H1 & H2 & H3). split; [exact H1|]. split; [exact H2|]. cbn [fst snd]. intros k.
  rewrite <- sp_hmem_In, H3. symmetry. apply sp_smem_In.
Qed.

Theorem built_lmap_entries : forall c es, ckind c = LinkedHashMap ->
  keys_of c (built c es) = uniq_first [] (map fst es) /\
  entries_of c (built c es) =
    map (fun k => (k, lmap_value (mrun Z.compare (puts es)) k)) (uniq_first [] (map fst es)) /\
  Permutation (entries_of c (built c es)) (mrun Z.compare (puts es)).
Proof.
  intros c es K. destruct (built_lmap c es K) as (E & Hi). rewrite E, <- hputs_mrun.
  split; [apply keys_of_lmap|]. split; [reflexivity|].
  cbn [entries_of]. apply lmap_entries_perm. apply lmap_inv_lmI. exact Hi.
Qed.

(* ---------- well-formedness of every reachable state, in particular of every result ---------- *)
Definition wellformed (c : config) (s : state) : Prop :=
  match ckind c with
  | TreeSet => StronglySorted (fun a b => kc c a b = Lt) (values_of c s) /\
               NoDupA (fun a b => kc c a b = Eq) (values_of c s)
  | LinkedHashSet => NoDup (values_of c s)
  | TreeMap => ksorted (kc c) (entries_of c s) /\ values_of c s = map snd (entries_of c s)
  | LinkedHashMap => NoDup (keys_of c s) /\ values_of c s = map snd (entries_of c s)
  | TreeBidiMap => ksorted (kc c) (entries_of c s) /\
                   (forall a b, In a (entries_of c s) -> In b (entries_of c s) ->
                                vc c (snd a) (snd b) = Eq -> a = b) /\
                   StronglySorted (fun a b => vc c a b = Lt) (values_of c s) /\
                   (forall k v, In (k, v) (entries_of c s) -> In v (values_of c s))
  | _ => True
  end.

Theorem einv_wellformed : forall c s, einv c s -> wellformed c s.
Proof.
  intros c s H. unfold einv in H. unfold wellformed.
  destruct (ckind c) eqn:K; try exact I; destruct s; try contradiction.
  - cbn [values_of]. rewrite K. unfold RB.keys.
    assert (Hs : StronglySorted (fun a b => kc c a b = Lt) (map fst (RB.inorder t))).
    { apply keys_ssorted. apply H. }
    split; [exact Hs|]. apply (ksorted_keys_nodupA (kc c)). apply H.
  - apply H.
  - cbn [values_of entries_of]. rewrite K. split; [apply H|reflexivity].
  - rewrite keys_of_lmap. split; [apply H|]. cbn [values_of entries_of]. unfold lmap_entries.
    rewrite map_map. reflexivity.
  - destruct H as (_ & _ & HB). cbn [entries_of values_of].
    split; [apply HB|]. split; [apply (bipair_vinj (kc c) (vc c) (kc_SWO c) (vc_SWO c) _ _ HB)|].
    split; [unfold RB.keys; apply keys_ssorted; apply HB|].
    intros k v Hin. destruct HB as (_ & _ & B). apply B in Hin. unfold RB.keys.
    apply (in_map fst) in Hin. exact Hin.
Qed.

(* ================================================================================================ *)
(* 8. the iterator and Each agree: a script of n+1 Next calls reports exactly the walked pairs,     *)
(*    each once, in the same order, and then reports the end                                        *)
(* ================================================================================================ *)
Definition rep (e : Z * Z) : obs := OL [OZ 1; OZ (fst e); OZ (snd e)].
Definition at_end : obs := OL [OZ 0].

Lemma nth_error_mid : forall (A : Type) (l1 l2 : list A) e, nth_error (l1 ++ e :: l2) (length l1) = Some e.
Proof. intros A l1 l2 e. rewrite nth_error_app2 by lia. rewrite Nat.sub_diag. reflexivity. Qed.

Lemma lin_nexts : forall (l : list (Z * Z)) hp l2 l1, l = l1 ++ l2 ->
  cursor_script_from l hp (zlen l1 - 1) (repeat CNext (S (length l2))) = map rep l2 ++ [at_end].
Proof.
  intros l hp l2. induction l2 as [|e l2 IH]; intros l1 E.
  - assert (Hn : cur_n l = zlen l1) by (unfold cur_n; subst l; rewrite app_nil_r; reflexivity).
    assert (N : cur_next l (zlen l1 - 1) = zlen l1) by (rewrite cur_next_step; lia).
    cbn [length repeat cursor_script_from cursor_call land fst snd map app]. rewrite N.
    unfold cur_obs. rewrite cur_elem_none; [reflexivity|]. apply cur_in_false. lia.
  - assert (Hn : cur_n l = zlen l1 + zlen l2 + 1).
    { unfold cur_n. subst l. rewrite zlen_app, zlen_cons. lia. }
    assert (N : cur_next l (zlen l1 - 1) = zlen l1).
    { pose proof (zlen_nonneg _ l2). rewrite cur_next_step; lia. }
    change (repeat CNext (S (length (e :: l2)))) with (CNext :: repeat CNext (S (length l2))).
    cbn [cursor_script_from cursor_call land fst snd map app]. rewrite N. f_equal.
    + unfold cur_obs, cur_elem.
      assert (Hin : cur_in l (zlen l1) = true).
      { apply cur_in_true. pose proof (zlen_nonneg _ l1). pose proof (zlen_nonneg _ l2). lia. }
      rewrite Hin. unfold zlen. rewrite Nat2Z.id. subst l. rewrite nth_error_mid. destruct e; reflexivity.
    + replace (zlen l1) with (zlen (l1 ++ [e]) - 1) by (rewrite zlen_app, zlen_cons, zlen_nil; lia).
      apply IH. subst l. rewrite <- app_assoc. reflexivity.
Qed.

Lemma rb_nexts : forall (l : list (Z * Z)) hp l2 l1, l = l1 ++ l2 ->
  IterTreeRB.cursor_run l hp (zlen l1 - 1) (repeat CNext (S (length l2))) = map rep l2 ++ [at_end].
Proof.
  intros l hp l2. induction l2 as [|e l2 IH]; intros l1 E.
  - assert (Hn : IterTreeRB.cn l = zlen l1) by (unfold IterTreeRB.cn; subst l; rewrite app_nil_r; reflexivity).
    assert (N : IterTreeRB.c_next l (zlen l1 - 1) = zlen l1).
    { unfold IterTreeRB.c_next. rewrite Hn. replace (zlen l1 - 1 <? zlen l1) with true by (symmetry; apply Z.ltb_lt; lia). lia. }
    cbn [length repeat IterTreeRB.cursor_run IterTreeRB.cursor_call fst snd map app]. rewrite N.
    unfold IterTreeRB.c_report, IterTreeRB.c_elem, IterTreeRB.c_in. rewrite Hn.
    replace (zlen l1 <? zlen l1) with false by (symmetry; apply Z.ltb_ge; lia).
    rewrite andb_false_r. reflexivity.
  - assert (Hn : IterTreeRB.cn l = zlen l1 + zlen l2 + 1).
    { unfold IterTreeRB.cn. subst l. fold (zlen (l1 ++ e :: l2)). rewrite zlen_app, zlen_cons. lia. }
    pose proof (zlen_nonneg _ l1) as P1. pose proof (zlen_nonneg _ l2) as P2.
    assert (N : IterTreeRB.c_next l (zlen l1 - 1) = zlen l1).
    { unfold IterTreeRB.c_next. rewrite Hn.
      replace (zlen l1 - 1 <? zlen l1 + zlen l2 + 1) with true by (symmetry; apply Z.ltb_lt; lia). lia. }
    change (repeat CNext (S (length (e :: l2)))) with (CNext :: repeat CNext (S (length l2))).
    cbn [IterTreeRB.cursor_run IterTreeRB.cursor_call fst snd map app]. rewrite N. f_equal.
    + unfold IterTreeRB.c_report, IterTreeRB.c_elem, IterTreeRB.c_in. rewrite Hn.
      replace (0 <=? zlen l1) with true by (symmetry; apply Z.leb_le; lia).
      replace (zlen l1 <? zlen l1 + zlen l2 + 1) with true by (symmetry; apply Z.ltb_lt; lia).
      cbn [andb]. unfold zlen. rewrite Nat2Z.id. subst l. rewrite nth_error_mid. destruct e; reflexivity.
    + replace (zlen l1) with (zlen (l1 ++ [e]) - 1) by (rewrite zlen_app, zlen_cons, zlen_nil; lia).
      apply IH. subst l. rewrite <- app_assoc. reflexivity.
Qed.

Theorem iter_agrees : forall c s, einv c s ->
  run_iter c s (repeat CNext (S (length (enum_seq c s)))) = map rep (enum_seq c s) ++ [at_end].
Proof.
  intros c s H.
  assert (Lin : linear_state c s = true ->
                iter_seq c s = enum_seq c s ->
                run_iter c s (repeat CNext (S (length (enum_seq c s)))) = map rep (enum_seq c s) ++ [at_end]).
  { intros L E. rewrite (linear_iter_is_cursor c s _ L), E. unfold cursor_script.
    exact (lin_nexts (enum_seq c s) _ (enum_seq c s) [] eq_refl). }
  unfold einv in H.
  destruct (ckind c) eqn:K; try contradiction; destruct s; try contradiction.
  - apply Lin; [unfold linear_state; rewrite K; reflexivity|unfold iter_seq, enum_seq; rewrite K; reflexivity].
  - apply Lin; [unfold linear_state; rewrite K; reflexivity|unfold iter_seq, enum_seq; rewrite K; reflexivity].
  - apply Lin; [unfold linear_state; rewrite K; reflexivity|unfold iter_seq, enum_seq; rewrite K; reflexivity].
  - rewrite (IterTreeRB.run_iter_treeset c t n _ K (rbI_count _ _ _ H)).
    unfold enum_seq. rewrite K. cbn [is_kv values_of]. rewrite K, rb_indexed_eq.
    unfold IterTreeRB.cursor_script. exact (rb_nexts _ _ _ [] eq_refl).
  - apply Lin; [unfold linear_state; rewrite K; reflexivity|unfold iter_seq, enum_seq; rewrite K; reflexivity].
  - rewrite (IterTreeRB.run_iter_rb_gen c t n _); [|rewrite K; discriminate|exact (rbI_count _ _ _ H)].
    unfold enum_seq. rewrite K. cbn [is_kv entries_of].
    unfold IterTreeRB.cursor_script. exact (rb_nexts _ _ _ [] eq_refl).
  - apply Lin; [unfold linear_state; rewrite K; reflexivity|unfold iter_seq, enum_seq; rewrite K; reflexivity].
  - destruct H as (Hf & _ & _). cbn [fst] in Hf.
    rewrite (IterTreeRB.run_iter_treebidi c f fn i inn _ (rbI_count _ _ _ Hf)).
    unfold enum_seq. rewrite K. cbn [is_kv entries_of].
    unfold IterTreeRB.cursor_script. exact (rb_nexts _ _ _ [] eq_refl).
Qed.

(* Size() is the number of pairs walked *)
Lemma size_enum_seq : forall c s, einv c s -> size_of c s = zlen (enum_seq c s).
Proof.
  intros c s H. unfold einv in H. unfold enum_seq.
  destruct (ckind c) eqn:K; try contradiction; destruct s; try contradiction;
    cbn [is_kv size_of values_of entries_of]; rewrite ?K; rewrite ?zlen_indexed; try reflexivity.
  - destruct H as (_ & _ & Hn). cbn [fst snd] in Hn. rewrite Hn. unfold RB.keys, zlen. rewrite map_length. reflexivity.
  - destruct H as (_ & _ & Hn). exact Hn.
  - unfold lmap_entries, zlen. rewrite map_length. reflexivity.
  - destruct H as ((_ & _ & Hn) & _). exact Hn.
Qed.

(* ================================================================================================ *)
(* 9. the statements of property C14                                                                *)
(* ================================================================================================ *)
Theorem C14_each_total_proof : forall c ops, has_enumerable (ckind c) = true ->
  let s := run c ops in
  each_of c s = Some (enum_seq c s) /\
  size_of c s = zlen (enum_seq c s) /\
  run_iter c s (repeat CNext (S (length (enum_seq c s)))) = map rep (enum_seq c s) ++ [at_end].
Proof.
  intros c ops H s. pose proof (einv_run c ops H) as Hi.
  split; [apply each_of_einv; exact Hi|]. split; [apply size_enum_seq; exact Hi|apply iter_agrees; exact Hi].
Qed.

(* what [enum_seq] is, kind by kind *)
Theorem C14_enum_seq_index_proof : forall c s, is_kv (ckind c) = false ->
  enum_seq c s = combine (zrange 0 (length (values_of c s))) (values_of c s) /\
  map fst (enum_seq c s) = zrange 0 (length (values_of c s)) /\
  map snd (enum_seq c s) = values_of c s.
Proof.
  intros c s H. unfold enum_seq. rewrite H. split; [reflexivity|]. split; [|apply map_fst_indexed].
  unfold indexed. generalize 0. induction (values_of c s) as [|x l IH]; intros lo; [reflexivity|].
  cbn [length zrange combine map fst]. rewrite IH. reflexivity.
Qed.

Theorem C14_enum_seq_kv_proof : forall c ops, has_enumerable (ckind c) = true -> is_kv (ckind c) = true ->
  let s := run c ops in
  enum_seq c s = entries_of c s /\
  keys_of c s = map fst (enum_seq c s) /\
  (ckind c <> TreeBidiMap -> values_of c s = map snd (enum_seq c s)) /\
  (ckind c = TreeBidiMap -> forall k v, In (k, v) (enum_seq c s) -> In v (values_of c s)).
Proof.
  intros c ops H Hkv s. pose proof (einv_wellformed c s (einv_run c ops H)) as W.
  unfold wellformed in W. unfold enum_seq. rewrite Hkv. split; [reflexivity|]. split; [reflexivity|].
  destruct (ckind c); try discriminate H; try discriminate Hkv.
  - split; [intros _; apply W|intros E; discriminate E].
  - split; [intros _; apply W|intros E; discriminate E].
  - split; [intros E; congruence|intros _; apply W].
Qed.

Theorem C14_step_proof : forall c ops o, has_enumerable (ckind c) = true -> is_enum_op o = true ->
  let s := run c ops in
  step c s o = (s, enum_result c o (enum_seq c s), onone).
Proof. intros c ops o H Ho s. apply enum_step; [apply einv_run; exact H|exact Ho]. Qed.

Theorem C14_each_proof : forall c ops, has_enumerable (ckind c) = true ->
  let s := run c ops in step c s Each = (s, opairs (enum_seq c s), onone).
Proof. intros c ops H. exact (C14_step_proof c ops Each H eq_refl). Qed.

Theorem C14_any_proof : forall c ops p, has_enumerable (ckind c) = true ->
  let s := run c ops in step c s (AnyP p) = (s, obool (existsb (holds p) (enum_seq c s)), onone).
Proof. intros c ops p H. exact (C14_step_proof c ops (AnyP p) H eq_refl). Qed.

Theorem C14_all_proof : forall c ops p, has_enumerable (ckind c) = true ->
  let s := run c ops in step c s (AllP p) = (s, obool (forallb (holds p) (enum_seq c s)), onone).
Proof. intros c ops p H. exact (C14_step_proof c ops (AllP p) H eq_refl). Qed.

Theorem C14_find_proof : forall c ops p, has_enumerable (ckind c) = true ->
  let s := run c ops in
  step c s (FindP p) =
    (s, match find (holds p) (enum_seq c s) with Some (i, v) => opair i v | None => find_none c end, onone).
Proof. intros c ops p H. exact (C14_step_proof c ops (FindP p) H eq_refl). Qed.

(* [find] is the first match; no match = the predicate fails everywhere *)
Theorem C14_find_first_proof : forall p es,
  (forall e, find (holds p) es = Some e <->
             exists l1 l2, es = l1 ++ e :: l2 /\ holds p e = true /\ existsb (holds p) l1 = false) /\
  (find (holds p) es = None <-> existsb (holds p) es = false).
Proof.
  intros p es.
  assert (X : forall l, forallb (fun x => negb (holds p x)) l = true <-> existsb (holds p) l = false).
  { intros l. induction l as [|x l IH]; cbn [forallb existsb]; [tauto|].
    destruct (holds p x); cbn [negb andb orb]; [split; discriminate|exact IH]. }
  split.
  - intros e. rewrite find_first_spec. split; intros (l1 & l2 & E & Q & A); exists l1, l2; rewrite X in *; auto.
  - rewrite find_none_spec. apply X.
Qed.

Theorem C14_select_proof : forall c ops p, has_enumerable (ckind c) = true ->
  let s := run c ops in
  let kept := filter (holds p) (enum_seq c s) in
  let r := select_of c p (enum_seq c s) in
  step c s (SelectP p) = (s, content_obs c r, onone) /\
  r = run c (build_ops c kept) /\
  (if is_kv (ckind c) then entries_of c r = kept else values_of c r = map snd kept) /\
  each_of c r = Some (if is_kv (ckind c) then kept else indexed (map snd kept)).
Proof.
  intros c ops p H s kept r. pose proof (einv_run c ops H) as Hi.
  assert (Hc : if is_kv (ckind c) then entries_of c r = kept else values_of c r = map snd kept).
  { exact (select_content c s p Hi). }
  split; [exact (C14_step_proof c ops (SelectP p) H eq_refl)|].
  split; [unfold r; rewrite select_of_built; apply built_run; exact H|].
  split; [exact Hc|].
  assert (Hr : einv c r) by (unfold r; rewrite select_of_built; apply built_einv; exact H).
  rewrite (each_of_einv c r Hr). unfold enum_seq. destruct (is_kv (ckind c)); rewrite Hc; reflexivity.
Qed.

Theorem C14_map_proof : forall c ops f, has_enumerable (ckind c) = true ->
  let s := run c ops in
  let mapped := map (apply_f f) (enum_seq c s) in
  let r := map_of c f (enum_seq c s) in
  step c s (MapF f) = (s, content_obs c r, onone) /\
  r = run c (build_ops c mapped) /\
  match ckind c with
  | ArrayList | SinglyLinkedList | DoublyLinkedList => values_of c r = map snd mapped
  | LinkedHashSet => values_of c r = uniq_first [] (map snd mapped)
  | TreeSet => values_of c r = map fst (mrun (kc c) (puts (emb0 (map snd mapped)))) /\
               forall x, In x (values_of c r) <->
                         find (fun y => is_eq (kc c x y)) (rev (map snd mapped)) = Some x
  | TreeMap => entries_of c r = mrun (kc c) (puts mapped)
  | LinkedHashMap =>
      keys_of c r = uniq_first [] (map fst mapped) /\
      entries_of c r = map (fun k => (k, lmap_value (mrun Z.compare (puts mapped)) k)) (keys_of c r) /\
      Permutation (entries_of c r) (mrun Z.compare (puts mapped))
  | TreeBidiMap => entries_of c r = fst (fold_left (bidi_step (kc c) (vc c)) mapped ([], []))
  | _ => True
  end.
Proof.
  intros c ops f H s mapped r.
  split; [exact (C14_step_proof c ops (MapF f) H eq_refl)|].
  split; [unfold r; rewrite map_of_built; apply built_run; exact H|].
  unfold r. rewrite map_of_built. fold mapped.
  destruct (ckind c) eqn:K; try exact I.
  - apply built_list_values. rewrite K. reflexivity.
  - apply built_list_values. rewrite K. reflexivity.
  - apply built_list_values. rewrite K. reflexivity.
  - split; [apply (built_tset_values c mapped K)|]. intros x. apply built_tset_survivor. exact K.
  - apply built_lset_values. exact K.
  - apply built_tmap_entries. exact K.
  - destruct (built_lmap_entries c mapped K) as (E1 & E2 & E3). rewrite E1. auto.
  - apply built_tbidi_entries. exact K.
Qed.

(* the result of Select / Map, for ANY list of pairs: same configuration (it is a run of the same
   machine from [init c]), the kind's invariant, never a crash, well-formed *)
Theorem C14_same_config_proof : forall c es, has_enumerable (ckind c) = true ->
  built c es = run c (build_ops c es) /\ einv c (built c es) /\ built c es <> StCrash.
Proof.
  intros c es H. split; [apply built_run; exact H|].
  pose proof (built_einv c es H) as Hi. split; [exact Hi|]. eapply einv_not_crash. exact Hi.
Qed.

Theorem C14_wellformed_proof : forall c, has_enumerable (ckind c) = true ->
  (forall ops, wellformed c (run c ops)) /\ (forall es, wellformed c (built c es)).
Proof.
  intros c H. split.
  - intros ops. apply einv_wellformed. apply einv_run. exact H.
  - intros es. apply einv_wellformed. apply built_einv. exact H.
Qed.

Theorem C14_bidi_put_meaning_proof : forall c s e,
  bipair (kc c) (vc c) (fst s) (snd s) ->
  bipair (kc c) (vc c) (fst (bidi_step (kc c) (vc c) s e)) (snd (bidi_step (kc c) (vc c) s e)) /\
  forall a b, In (a, b) (fst (bidi_step (kc c) (vc c) s e)) <->
              (a, b) = e \/ (In (a, b) (fst s) /\ kc c a (fst e) <> Eq /\ vc c b (snd e) <> Eq).
Proof. intros c s e H. apply bidi_step_spec; [apply kc_SWO|apply vc_SWO|exact H]. Qed.

Theorem C14_receiver_unchanged_proof : forall c ops o, has_enumerable (ckind c) = true -> is_enum_op o = true ->
  fst (fst (step c (run c ops) o)) = run c ops /\ snd (step c (run c ops) o) = onone.
Proof. intros c ops o H Ho. rewrite (C14_step_proof c ops o H Ho). split; reflexivity. Qed.

Lemma map_OZ_ne : forall l x, map OZ l <> [OL x].
Proof. intros l x. destruct l as [|y [|z l]]; discriminate. Qed.

Lemma content_obs_not_crash : forall c s, s <> StCrash -> content_obs c s <> ocrash.
Proof.
  intros c s Hs. unfold content_obs, ocrash, ozs.
  destruct s; try congruence; destruct (is_kv (ckind c)); intros E; try discriminate E;
    injection E as E1; exact (map_OZ_ne _ _ E1).
Qed.

Theorem C14_no_crash_proof : forall c ops o, has_enumerable (ckind c) = true -> is_enum_op o = true ->
  run c ops <> StCrash /\ snd (fst (step c (run c ops) o)) <> ocrash.
Proof.
  intros c ops o H Ho. pose proof (einv_run c ops H) as Hi.
  split; [eapply einv_not_crash; exact Hi|].
  rewrite (C14_step_proof c ops o H Ho). cbn [fst snd].
  destruct o; try discriminate Ho; cbn [enum_result].
  - unfold opairs, ocrash. intros E. injection E as E1.
    destruct (enum_seq c (run c ops)) as [|e [|e' l]]; discriminate E1.
  - unfold obool, ocrash. discriminate.
  - unfold obool, ocrash. discriminate.
  - unfold find_none, opair, ocrash.
    destruct (find _ _) as [[i v]|]; [discriminate|]. destruct (is_kv _); discriminate.
  - apply content_obs_not_crash. rewrite select_of_built. eapply einv_not_crash. apply built_einv. exact H.
  - apply content_obs_not_crash. rewrite map_of_built. eapply einv_not_crash. apply built_einv. exact H.
Qed.

Print Assumptions C14_each_total_proof.
Print Assumptions C14_select_proof.
Print Assumptions C14_map_proof.
Print Assumptions C14_no_crash_proof.
Print Assumptions C14_wellformed_proof.
Print Assumptions C14_bidi_put_meaning_proof.
