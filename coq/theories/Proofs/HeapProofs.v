(* Proofs about the binary heap model (Model/Heap.v): nothing is lost or altered (Permutation with
   Leibniz equality), the heap-order invariant is preserved by Push (both branches) and Pop, the
   root is a minimum, popping until empty yields a sorted permutation, Floyd's loop heapifies an
   arbitrary array and leaves a valid heap untouched. *)
From Coq Require Import ZArith List Lia Bool Arith Permutation Sorted.
From Gods Require Import Common.Cmp Common.ListAux Model.Heap.
Import ListNotations.

(* ------------------------------------------------------------------------------------------ *)
(* array helpers: get / set / swap / removelast                                                *)
(* ------------------------------------------------------------------------------------------ *)

Lemma length_set : forall l i x, length (set l i x) = length l.
Proof.
  induction l as [|a l IH]; intros [|i] x; simpl; auto.
Qed.

Lemma get_set_eq : forall l i x, i < length l -> get (set l i x) i = x.
Proof.
  unfold get. induction l as [|a l IH]; intros [|i] x Hi; simpl in *; try lia; auto.
  apply IH. lia.
Qed.

Lemma get_set_neq : forall l i j x, i <> j -> get (set l i x) j = get l j.
Proof.
  unfold get. induction l as [|a l IH]; intros [|i] [|j] x Hij; simpl in *; try congruence; auto.
Qed.

Lemma length_swap : forall l i j, length (swap l i j) = length l.
Proof.
  intros l i j. unfold swap.
  destruct ((i <? length l) && (j <? length l)); auto.
  now rewrite !length_set.
Qed.

Lemma get_swap : forall l i j k, i < length l -> j < length l ->
  get (swap l i j) k = if k =? j then get l i else if k =? i then get l j else get l k.
Proof.
  intros l i j k Hi Hj. unfold swap.
  destruct (Nat.ltb_spec i (length l)) as [_|C]; [|lia].
  destruct (Nat.ltb_spec j (length l)) as [_|C]; [|lia].
  cbn [andb].
  destruct (Nat.eqb_spec k j) as [->|Hkj].
  - apply get_set_eq. now rewrite length_set.
  - rewrite get_set_neq by congruence.
    destruct (Nat.eqb_spec k i) as [->|Hki].
    + now apply get_set_eq.
    + apply get_set_neq. congruence.
Qed.

Lemma swap_perm : forall l i j, Permutation (swap l i j) l.
Proof.
  intros l i j.
  destruct (Nat.ltb_spec i (length l)) as [Hi|Hi];
    [destruct (Nat.ltb_spec j (length l)) as [Hj|Hj]|].
  - symmetry. apply (Permutation_nth l (swap l i j) 0%Z). cbv zeta. split.
    + apply length_swap.
    + exists (fun k => if k =? j then i else if k =? i then j else k).
      unfold FinFun.bFun, FinFun.bInjective. repeat split.
      * intros x Hx. destruct (x =? j); [|destruct (x =? i)]; lia.
      * intros x y Hx Hy.
        destruct (Nat.eqb_spec x j); destruct (Nat.eqb_spec x i);
          destruct (Nat.eqb_spec y j); destruct (Nat.eqb_spec y i); lia.
      * intros x Hx. fold (get (swap l i j) x). rewrite get_swap by assumption.
        unfold get. destruct (x =? j); [|destruct (x =? i)]; reflexivity.
  - unfold swap. destruct (Nat.ltb_spec j (length l)) as [C|_]; [lia|].
    rewrite andb_false_r. reflexivity.
  - unfold swap. destruct (Nat.ltb_spec i (length l)) as [C|_]; [lia|]. reflexivity.
Qed.

Lemma removelast_snoc : forall l : list Z, l <> [] -> removelast l ++ [get l (length l - 1)] = l.
Proof.
  unfold get. induction l as [|a l IH]; intros Hne; [congruence|].
  destruct l as [|b l']; [reflexivity|].
  change (removelast (a :: b :: l')) with (a :: removelast (b :: l')).
  replace (length (a :: b :: l') - 1) with (S (length (b :: l') - 1)) by (simpl; lia).
  cbn [nth app]. f_equal. apply IH. congruence.
Qed.

Lemma length_removelast : forall l : list Z, length (removelast l) = length l - 1.
Proof.
  intros l. destruct l as [|a l']; [reflexivity|].
  pose proof (removelast_snoc (a :: l') ltac:(congruence)) as E.
  apply (f_equal (@length Z)) in E. rewrite app_length in E. simpl length in *. lia.
Qed.

Lemma get_removelast : forall (l : list Z) j, j < length l - 1 -> get (removelast l) j = get l j.
Proof.
  intros l j Hj. destruct l as [|a l']; [simpl in Hj; lia|].
  pose proof (removelast_snoc (a :: l') ltac:(congruence)) as E.
  rewrite <- E at 2. unfold get. rewrite app_nth1; [reflexivity|].
  rewrite length_removelast. exact Hj.
Qed.

Lemma get_app_l : forall (l r : list Z) j, j < length l -> get (l ++ r) j = get l j.
Proof. intros l r j Hj. unfold get. now apply app_nth1. Qed.

Lemma In_get : forall (l : list Z) y, In y l -> exists i, i < length l /\ get l i = y.
Proof. intros l y Hy. unfold get. now apply In_nth. Qed.

(* ------------------------------------------------------------------------------------------ *)
(* index arithmetic: parent of j is (j-1)/2                                                    *)
(* ------------------------------------------------------------------------------------------ *)

Lemma par_cases : forall j, 0 < j -> j = 2 * ((j - 1) / 2) + 1 \/ j = 2 * ((j - 1) / 2) + 2.
Proof.
  intros j Hj.
  pose proof (Nat.div_mod_eq (j - 1) 2) as E.
  pose proof (Nat.mod_upper_bound (j - 1) 2 ltac:(lia)) as B.
  lia.
Qed.

Lemma par_left : forall i, (2 * i + 1 - 1) / 2 = i.
Proof. intros i. pose proof (par_cases (2 * i + 1) ltac:(lia)). lia. Qed.

Lemma par_right : forall i, (2 * i + 2 - 1) / 2 = i.
Proof. intros i. pose proof (par_cases (2 * i + 2) ltac:(lia)). lia. Qed.

(* unfolding lemmas that keep the index arithmetic readable *)
Lemma bubble_down_S : forall cmp fuel l i,
  bubble_down cmp (S fuel) l i =
  if 2 * i + 1 <? length l then
    let s := if (2 * i + 2 <? length l) && gt cmp (get l (2 * i + 1)) (get l (2 * i + 2))
             then 2 * i + 2 else 2 * i + 1 in
    if gt cmp (get l i) (get l s) then bubble_down cmp fuel (swap l i s) s else l
  else l.
Proof. reflexivity. Qed.

Lemma bubble_up_S : forall cmp fuel l i,
  bubble_up cmp (S fuel) l i =
  if 0 <? i then
    if gt cmp (get l ((i - 1) / 2)) (get l i)
    then bubble_up cmp fuel (swap l i ((i - 1) / 2)) ((i - 1) / 2) else l
  else l.
Proof. reflexivity. Qed.

Lemma heapify_from_S : forall cmp l j,
  heapify_from cmp l (S j) = heapify_from cmp (bubble_down cmp (length l) l (S j)) j.
Proof. reflexivity. Qed.

Lemma heapify_from_0 : forall cmp l, heapify_from cmp l 0 = bubble_down cmp (length l) l 0.
Proof. reflexivity. Qed.

Lemma pop_cons : forall cmp x t,
  pop cmp (x :: t) =
  (bubble_down cmp (length (removelast (swap (x :: t) 0 (length (x :: t) - 1))))
     (removelast (swap (x :: t) 0 (length (x :: t) - 1))) 0, Some x).
Proof. reflexivity. Qed.

Section HeapProofs.
Variable cmp : cmpf.

Definition cle (a b : Z) : Prop := cmp a b <> Gt.

Definition heap_ok (l : list Z) : Prop :=
  forall i, (0 < i < length l)%nat -> cmp (get l ((i - 1) / 2)) (get l i) <> Gt.

Lemma gt_true : forall a b, gt cmp a b = true <-> cmp a b = Gt.
Proof. intros a b. unfold gt. destruct (cmp a b); split; congruence. Qed.

Lemma gt_false : forall a b, gt cmp a b = false <-> cmp a b <> Gt.
Proof. intros a b. unfold gt. destruct (cmp a b); split; congruence. Qed.

(* ------------------------------------------------------------------------------------------ *)
(* Permutations (no hypothesis on the comparator)                                              *)
(* ------------------------------------------------------------------------------------------ *)

Lemma bubble_down_perm : forall fuel l i, Permutation (bubble_down cmp fuel l i) l.
Proof.
  induction fuel as [|f IH]; intros l i; [reflexivity|].
  rewrite bubble_down_S. cbv zeta.
  destruct (2 * i + 1 <? length l); [|reflexivity].
  match goal with |- context [gt cmp (get l i) (get l ?s)] =>
    destruct (gt cmp (get l i) (get l s)); [|reflexivity];
    rewrite IH; apply swap_perm end.
Qed.

Lemma bubble_down_length : forall fuel l i, length (bubble_down cmp fuel l i) = length l.
Proof. intros fuel l i. apply Permutation_length, bubble_down_perm. Qed.

Lemma bubble_up_perm : forall fuel l i, Permutation (bubble_up cmp fuel l i) l.
Proof.
  induction fuel as [|f IH]; intros l i; [reflexivity|].
  rewrite bubble_up_S.
  destruct (0 <? i); [|reflexivity].
  destruct (gt cmp (get l ((i - 1) / 2)) (get l i)); [|reflexivity].
  rewrite IH. apply swap_perm.
Qed.

Theorem heapify_perm : forall i l, Permutation (heapify_from cmp l i) l.
Proof.
  induction i as [|j IH]; intros l.
  - rewrite heapify_from_0. apply bubble_down_perm.
  - rewrite heapify_from_S. rewrite IH. apply bubble_down_perm.
Qed.

Theorem push_perm : forall vs h, Permutation (push cmp vs h) (h ++ vs).
Proof.
  intros vs h. unfold push.
  destruct vs as [|v [|w vs']]; cbv zeta;
    first [apply bubble_up_perm | apply heapify_perm].
Qed.

Theorem pop_empty : pop cmp [] = ([], None).
Proof. reflexivity. Qed.

Lemma pop_none : forall h h', pop cmp h = (h', None) -> h = [] /\ h' = [].
Proof.
  intros h h' E. destruct h as [|x t].
  - simpl in E. inversion E. auto.
  - rewrite pop_cons in E. inversion E.
Qed.

Theorem pop_perm : forall h h' x, pop cmp h = (h', Some x) -> Permutation h (x :: h').
Proof.
  intros h h' x E. destruct h as [|a t]; [simpl in E; inversion E|].
  rewrite pop_cons in E. inversion E as [[E1 E2]]. subst a. clear E.
  rewrite bubble_down_perm.
  set (w := swap (x :: t) 0 (length (x :: t) - 1)).
  assert (Hlen : length w = length (x :: t)) by apply length_swap.
  assert (Hne : w <> []) by (intros C; rewrite C in Hlen; simpl in Hlen; lia).
  pose proof (removelast_snoc w Hne) as Hs.
  assert (Hx : get w (length w - 1) = x).
  { unfold w at 1. rewrite get_swap by (simpl; lia).
    rewrite Hlen, Nat.eqb_refl. reflexivity. }
  rewrite Hx in Hs.
  transitivity w; [symmetry; apply swap_perm|].
  rewrite <- Hs at 1. rewrite Permutation_app_comm. reflexivity.
Qed.

Lemma pop_length : forall h h' x, pop cmp h = (h', x) -> length h' = length h - 1.
Proof.
  intros h h' x E. destruct h as [|a t].
  - simpl in E. inversion E. reflexivity.
  - rewrite pop_cons in E. inversion E as [[E1 E2]].
    rewrite bubble_down_length, length_removelast, length_swap. reflexivity.
Qed.

(* ------------------------------------------------------------------------------------------ *)
(* Order facts                                                                                 *)
(* ------------------------------------------------------------------------------------------ *)

Hypothesis Hswo : SWO cmp.

Lemma cle_refl : forall a, cle a a.
Proof. intros a. unfold cle. rewrite (swo_refl cmp Hswo). congruence. Qed.

Lemma gt_le : forall a b, cmp a b = Gt -> cle b a.
Proof. intros a b H. unfold cle. rewrite (swo_sym cmp Hswo a b), H. simpl. congruence. Qed.

Lemma cle_trans : forall a b c, cle a b -> cle b c -> cle a c.
Proof.
  unfold cle. intros a b c Hab Hbc.
  destruct (cmp a b) eqn:Eab; [| |congruence].
  - rewrite (swo_eq_l cmp Hswo a b c Eab). exact Hbc.
  - destruct (cmp b c) eqn:Ebc; [| |congruence].
    + (* a < b, b = c *)
      assert (Ecb : cmp c b = Eq) by (rewrite (swo_sym cmp Hswo b c), Ebc; reflexivity).
      rewrite (swo_sym cmp Hswo c a), (swo_eq_l cmp Hswo c b a Ecb), (swo_sym cmp Hswo a b), Eab.
      simpl. congruence.
    + rewrite (swo_trans cmp Hswo a b c Eab Ebc). congruence.
Qed.

(* ------------------------------------------------------------------------------------------ *)
(* bubble_up                                                                                   *)
(* ------------------------------------------------------------------------------------------ *)

Definition up_inv (l : list Z) (i : nat) : Prop :=
  (forall j, 0 < j < length l -> j <> i -> cle (get l ((j - 1) / 2)) (get l j)) /\
  (forall j, 0 < j < length l -> (j - 1) / 2 = i -> 0 < i ->
             cle (get l ((i - 1) / 2)) (get l j)).

Lemma bubble_up_ok : forall fuel l i,
  i < fuel -> i < length l -> up_inv l i -> heap_ok (bubble_up cmp fuel l i).
Proof.
  induction fuel as [|f IH]; intros l i Hf Hi [A B]; [lia|].
  rewrite bubble_up_S.
  destruct (Nat.ltb_spec 0 i) as [Hpos|Hz].
  2:{ intros j Hj. apply A; lia. }
  pose proof (par_cases i Hpos) as Pi.
  set (p := (i - 1) / 2) in *.
  destruct (gt cmp (get l p) (get l i)) eqn:G.
  2:{ apply gt_false in G. intros j Hj.
      destruct (Nat.eq_dec j i) as [->|Hji]; [exact G|]. apply A; lia. }
  apply gt_true in G. pose proof (gt_le _ _ G) as Lip.
  apply IH; [lia|rewrite length_swap; lia|].
  split.
  - intros j Hj Hjp. rewrite length_swap in Hj.
    pose proof (par_cases j ltac:(lia)) as Pj.
    rewrite !get_swap by lia.
    destruct (Nat.eqb_spec ((j - 1) / 2) p) as [E1|E1];
      destruct (Nat.eqb_spec ((j - 1) / 2) i) as [E2|E2];
      destruct (Nat.eqb_spec j p) as [E3|E3];
      destruct (Nat.eqb_spec j i) as [E4|E4]; try lia.
    + (* j = i *) exact Lip.
    + (* sibling of i *)
      apply cle_trans with (get l p); [exact Lip|]. rewrite <- E1. apply A; lia.
    + (* child of i *) rewrite <- E2 in *. apply B; lia.
    + apply A; lia.
  - intros j Hj Hjp Hp. rewrite length_swap in Hj.
    pose proof (par_cases j ltac:(lia)) as Pj.
    pose proof (par_cases p Hp) as Pp.
    rewrite !get_swap by lia.
    destruct (Nat.eqb_spec ((p - 1) / 2) p) as [E1|E1];
      destruct (Nat.eqb_spec ((p - 1) / 2) i) as [E2|E2];
      destruct (Nat.eqb_spec j p) as [E3|E3];
      destruct (Nat.eqb_spec j i) as [E4|E4]; try lia.
    + (* j = i *) apply A; lia.
    + apply cle_trans with (get l p); [apply A; lia|]. rewrite <- Hjp. apply A; lia.
Qed.

(* ------------------------------------------------------------------------------------------ *)
(* bubble_down                                                                                 *)
(* ------------------------------------------------------------------------------------------ *)

(* heap condition for every node whose parent index is >= k *)
Definition heap_from (k : nat) (l : list Z) : Prop :=
  forall j, 0 < j < length l -> k <= (j - 1) / 2 -> cle (get l ((j - 1) / 2)) (get l j).

Definition down_inv (k : nat) (l : list Z) (i : nat) : Prop :=
  (forall j, 0 < j < length l -> k <= (j - 1) / 2 -> (j - 1) / 2 <> i ->
             cle (get l ((j - 1) / 2)) (get l j)) /\
  (forall j, 0 < j < length l -> (j - 1) / 2 = i -> 0 < i -> k <= (i - 1) / 2 ->
             cle (get l ((i - 1) / 2)) (get l j)).

Lemma heap_from_0 : forall l, heap_from 0 l <-> heap_ok l.
Proof.
  intros l. unfold heap_from, heap_ok, cle. split; intros H j Hj; [apply H; lia|intros _; now apply H].
Qed.

Lemma smaller_spec : forall l i,
  2 * i + 1 < length l ->
  let s := if (2 * i + 2 <? length l) && gt cmp (get l (2 * i + 1)) (get l (2 * i + 2))
           then 2 * i + 2 else 2 * i + 1 in
  (s = 2 * i + 1 \/ s = 2 * i + 2) /\ s < length l /\
  (forall j, 0 < j < length l -> (j - 1) / 2 = i -> cle (get l s) (get l j)).
Proof.
  intros l i Hl.
  destruct (Nat.ltb_spec (2 * i + 2) (length l)) as [Hr|Hr]; cbn [andb].
  - destruct (gt cmp (get l (2 * i + 1)) (get l (2 * i + 2))) eqn:G; cbv zeta.
    + apply gt_true in G. repeat split; [lia|lia|].
      intros j Hj Hp. pose proof (par_cases j ltac:(lia)) as Pj.
      assert (Hc : j = 2 * i + 1 \/ j = 2 * i + 2) by lia.
      destruct Hc as [->| ->]; [now apply gt_le|apply cle_refl].
    + apply gt_false in G. repeat split; [lia|lia|].
      intros j Hj Hp. pose proof (par_cases j ltac:(lia)) as Pj.
      assert (Hc : j = 2 * i + 1 \/ j = 2 * i + 2) by lia.
      destruct Hc as [->| ->]; [apply cle_refl|exact G].
  - cbv zeta. repeat split; [lia|lia|].
    intros j Hj Hp. pose proof (par_cases j ltac:(lia)) as Pj.
    assert (Hc : j = 2 * i + 1) by lia. subst j. apply cle_refl.
Qed.

Lemma bubble_down_ok : forall fuel l i k,
  length l <= fuel + i -> down_inv k l i -> heap_from k (bubble_down cmp fuel l i).
Proof.
  induction fuel as [|f IH]; intros l i k Hf [A B].
  - simpl. intros j Hj Hk. pose proof (par_cases j ltac:(lia)) as Pj. apply A; lia.
  - rewrite bubble_down_S.
    destruct (Nat.ltb_spec (2 * i + 1) (length l)) as [Hl|Hl].
    2:{ intros j Hj Hk. pose proof (par_cases j ltac:(lia)) as Pj. apply A; lia. }
    pose proof (smaller_spec l i Hl) as Hs. cbv zeta in Hs |- *.
    set (s := if (2 * i + 2 <? length l) && gt cmp (get l (2 * i + 1)) (get l (2 * i + 2))
              then 2 * i + 2 else 2 * i + 1) in *.
    destruct Hs as (Hs1 & Hs2 & Hs3).
    assert (Hps : (s - 1) / 2 = i).
    { destruct Hs1 as [->| ->]; [apply par_left|apply par_right]. }
    destruct (gt cmp (get l i) (get l s)) eqn:G.
    2:{ apply gt_false in G. intros j Hj Hk.
        destruct (Nat.eq_dec ((j - 1) / 2) i) as [E|E].
        - rewrite E. apply cle_trans with (get l s); [exact G|]. apply Hs3; lia.
        - apply A; lia. }
    apply gt_true in G. pose proof (gt_le _ _ G) as Lsi.
    apply IH; [rewrite length_swap; lia|].
    split.
    + intros j Hj Hk Hjs. rewrite length_swap in Hj.
      pose proof (par_cases j ltac:(lia)) as Pj.
      rewrite !get_swap by lia.
      destruct (Nat.eqb_spec ((j - 1) / 2) s) as [E1|E1];
        destruct (Nat.eqb_spec ((j - 1) / 2) i) as [E2|E2];
        destruct (Nat.eqb_spec j s) as [E3|E3];
        destruct (Nat.eqb_spec j i) as [E4|E4]; try lia.
      * (* j = s *) exact Lsi.
      * (* sibling of s *) apply Hs3; lia.
      * (* j = i *) subst j. apply B; lia.
      * apply A; lia.
    + intros j Hj Hjs Hpos Hk. rewrite length_swap in Hj. rewrite Hps in *.
      pose proof (par_cases j ltac:(lia)) as Pj.
      rewrite !get_swap by lia.
      destruct (Nat.eqb_spec i s) as [E1|E1];
        destruct (Nat.eqb_spec i i) as [E2|E2];
        destruct (Nat.eqb_spec j s) as [E3|E3];
        destruct (Nat.eqb_spec j i) as [E4|E4]; try lia.
      rewrite <- Hjs at 1. apply A; lia.
Qed.

(* a valid heap is left untouched by bubble_down / the Floyd loop *)
Lemma bubble_down_id : forall fuel l i, heap_ok l -> bubble_down cmp fuel l i = l.
Proof.
  intros [|f] l i Hok; [reflexivity|].
  rewrite bubble_down_S.
  destruct (Nat.ltb_spec (2 * i + 1) (length l)) as [Hl|Hl]; [|reflexivity].
  cbv zeta.
  set (s := if (2 * i + 2 <? length l) && gt cmp (get l (2 * i + 1)) (get l (2 * i + 2))
            then 2 * i + 2 else 2 * i + 1).
  assert (Hs : (s = 2 * i + 1 \/ s = 2 * i + 2) /\ s < length l).
  { unfold s. destruct (Nat.ltb_spec (2 * i + 2) (length l)) as [Hr|Hr]; cbn [andb];
      [destruct (gt cmp (get l (2 * i + 1)) (get l (2 * i + 2)))|]; lia. }
  destruct Hs as [Hs1 Hs2].
  assert (Hps : (s - 1) / 2 = i).
  { destruct Hs1 as [->| ->]; [apply par_left|apply par_right]. }
  assert (G : gt cmp (get l i) (get l s) = false).
  { apply gt_false. rewrite <- Hps at 1. apply Hok. lia. }
  rewrite G. reflexivity.
Qed.

Theorem heapify_id : forall l, heap_ok l -> heapify_from cmp l (length l / 2 + 1) = l.
Proof.
  intros l Hok. generalize (length l / 2 + 1). intros i.
  induction i as [|j IH].
  - rewrite heapify_from_0. now apply bubble_down_id.
  - rewrite heapify_from_S. rewrite bubble_down_id by assumption. exact IH.
Qed.

(* ------------------------------------------------------------------------------------------ *)
(* Floyd's loop                                                                                *)
(* ------------------------------------------------------------------------------------------ *)

Lemma heapify_from_ok : forall i l, heap_from (S i) l -> heap_ok (heapify_from cmp l i).
Proof.
  induction i as [|j IH]; intros l H.
  - rewrite heapify_from_0. apply heap_from_0. apply bubble_down_ok; [lia|].
    split.
    + intros j Hj _ Hne. apply H; lia.
    + intros j Hj _ C. lia.
  - rewrite heapify_from_S. apply IH. apply bubble_down_ok; [lia|].
    split.
    + intros k Hk Hge Hne. apply H; lia.
    + intros k Hk Hp Hpos Hge. pose proof (par_cases (S j) Hpos). lia.
Qed.

Theorem heapify_ok : forall l, heap_ok (heapify_from cmp l (length l / 2 + 1)).
Proof.
  intros l. apply heapify_from_ok.
  intros j Hj Hge. exfalso.
  pose proof (par_cases j ltac:(lia)) as Pj.
  pose proof (Nat.div_mod_eq (length l) 2) as E.
  pose proof (Nat.mod_upper_bound (length l) 2 ltac:(lia)) as B.
  lia.
Qed.

(* ------------------------------------------------------------------------------------------ *)
(* Push / Pop keep the heap invariant                                                          *)
(* ------------------------------------------------------------------------------------------ *)

Theorem push_heap_ok : forall vs h, heap_ok h -> heap_ok (push cmp vs h).
Proof.
  intros vs h Hok. unfold push.
  destruct vs as [|v [|w vs']]; cbv zeta; try apply heapify_ok.
  (* single value: bubble_up from the last index *)
  assert (Hlen : length (h ++ [v]) = S (length h)) by (rewrite app_length; simpl; lia).
  rewrite Hlen.
  apply bubble_up_ok; [lia|lia|].
  split.
  - intros j Hj Hne. rewrite Hlen in Hj.
    pose proof (par_cases j ltac:(lia)) as Pj.
    rewrite !get_app_l by lia. apply Hok. lia.
  - intros j Hj Hp _. rewrite Hlen in Hj.
    pose proof (par_cases j ltac:(lia)) as Pj. lia.
Qed.

Theorem pop_heap_ok : forall h h' x, heap_ok h -> pop cmp h = (h', x) -> heap_ok h'.
Proof.
  intros h h' x Hok E. destruct h as [|a t].
  - simpl in E. inversion E. intros j Hj. simpl in Hj. lia.
  - rewrite pop_cons in E. apply (f_equal fst) in E. cbn [fst] in E. subst h'.
    set (r := removelast (swap (a :: t) 0 (length (a :: t) - 1))).
    assert (Hr1 : length r = length t).
    { unfold r. rewrite length_removelast, length_swap. simpl. lia. }
    assert (Hr2 : forall j, 0 < j < length t -> get r j = get (a :: t) j).
    { intros j Hj. unfold r.
      rewrite get_removelast by (rewrite length_swap; simpl; lia).
      rewrite get_swap by (simpl; lia).
      destruct (Nat.eqb_spec j (length (a :: t) - 1)) as [E3|E3];
        destruct (Nat.eqb_spec j 0) as [E4|E4]; simpl length in *; lia. }
    clearbody r.
    apply heap_from_0. apply bubble_down_ok; [lia|].
    split.
    + intros j Hj _ Hne. rewrite Hr1 in Hj.
      pose proof (par_cases j ltac:(lia)) as Pj.
      rewrite !Hr2 by lia. apply Hok. simpl. lia.
    + intros j Hj _ C. lia.
Qed.

(* ------------------------------------------------------------------------------------------ *)
(* The root is a minimum                                                                       *)
(* ------------------------------------------------------------------------------------------ *)

Lemma heap_root_le : forall l, heap_ok l -> forall i, i < length l -> cle (get l 0) (get l i).
Proof.
  intros l Hok i. induction i as [i IH] using lt_wf_ind. intros Hi.
  destruct (Nat.eq_dec i 0) as [->|Hne]; [apply cle_refl|].
  pose proof (par_cases i ltac:(lia)) as Pi.
  apply cle_trans with (get l ((i - 1) / 2)).
  - apply IH; lia.
  - apply Hok. lia.
Qed.

Theorem heap_min : forall h x, heap_ok h -> hd_error h = Some x ->
  forall y, In y h -> cmp x y <> Gt.
Proof.
  intros h x Hok Hx y Hy.
  destruct h as [|a t]; [inversion Hx|]. simpl in Hx. inversion Hx. subst a.
  destruct (In_get _ _ Hy) as (i & Hi & <-).
  change x with (get (x :: t) 0). now apply heap_root_le.
Qed.

Theorem pop_min : forall h h' x, heap_ok h -> pop cmp h = (h', Some x) ->
  forall y, In y h -> cmp x y <> Gt.
Proof.
  intros h h' x Hok E. apply heap_min; [exact Hok|].
  destruct h as [|a t]; [simpl in E; inversion E|].
  rewrite pop_cons in E. inversion E. reflexivity.
Qed.

(* ------------------------------------------------------------------------------------------ *)
(* Popping until empty                                                                         *)
(* ------------------------------------------------------------------------------------------ *)

Fixpoint drain (fuel : nat) (h : list Z) : list Z :=
  match fuel with
  | O => []
  | S f => match pop cmp h with
           | (h', Some x) => x :: drain f h'
           | _ => []
           end
  end.

Lemma drain_perm_n : forall n h, length h = n -> Permutation (drain n h) h.
Proof.
  induction n as [|n IH]; intros h Hn.
  - destruct h; [reflexivity|simpl in Hn; lia].
  - cbn [drain]. destruct (pop cmp h) as [h' [x|]] eqn:E.
    + pose proof (pop_length _ _ _ E) as HL. pose proof (pop_perm _ _ _ E) as HP.
      rewrite HP. constructor. apply IH. lia.
    + apply pop_none in E. destruct E as [-> _]. simpl in Hn. lia.
Qed.

Theorem drain_perm : forall h, Permutation (drain (length h) h) h.
Proof. intros h. now apply drain_perm_n. Qed.

Lemma drain_sorted_n : forall n h, length h = n -> heap_ok h ->
  StronglySorted (fun a b => cmp a b <> Gt) (drain n h).
Proof.
  induction n as [|n IH]; intros h Hn Hok.
  - constructor.
  - cbn [drain]. destruct (pop cmp h) as [h' [x|]] eqn:E; [|constructor].
    pose proof (pop_length _ _ _ E) as HL. pose proof (pop_perm _ _ _ E) as HP.
    constructor.
    + apply IH; [lia|]. eapply pop_heap_ok; eauto.
    + apply Forall_forall. intros z Hz.
      eapply pop_min; eauto.
      eapply Permutation_in; [symmetry; exact HP|]. right.
      assert (HD : Permutation (drain n h') h') by (apply drain_perm_n; lia).
      eapply Permutation_in; [exact HD|exact Hz].
Qed.

Theorem drain_sorted : forall h, heap_ok h ->
  StronglySorted (fun a b => cmp a b <> Gt) (drain (length h) h).
Proof. intros h. now apply drain_sorted_n. Qed.

(* ------------------------------------------------------------------------------------------ *)
(* Boolean checker                                                                             *)
(* ------------------------------------------------------------------------------------------ *)

Definition heap_okb (l : list Z) : bool :=
  forallb (fun i => negb (gt cmp (get l ((i - 1) / 2)) (get l i))) (seq 1 (length l - 1)).

Theorem heap_okb_spec : forall l, heap_okb l = true <-> heap_ok l.
Proof.
  intros l. unfold heap_okb, heap_ok. rewrite forallb_forall. split.
  - intros H i Hi. apply gt_false. apply negb_true_iff. apply H. apply in_seq. lia.
  - intros H i Hi. apply in_seq in Hi. apply negb_true_iff. apply gt_false. apply H. lia.
Qed.

End HeapProofs.

Print Assumptions push_perm.
Print Assumptions pop_perm.
Print Assumptions pop_empty.
Print Assumptions heapify_perm.
Print Assumptions heapify_ok.
Print Assumptions push_heap_ok.
Print Assumptions pop_heap_ok.
Print Assumptions heap_min.
Print Assumptions pop_min.
Print Assumptions drain_sorted.
Print Assumptions drain_perm.
Print Assumptions heap_okb_spec.
Print Assumptions heapify_id.
