(* Machine-level refinement of the key-value kinds to the L2 map specification, for ALL op lists.

   For HashMap, TreeMap, RedBlackTree, AVLTree, BTree the in-order entry list of the machine state
   after ANY sequence of operations is EXACTLY the abstract sorted association list [mrun] of the
   history [hist] of the mutating operations; for LinkedHashMap it is a permutation of it (its
   order is property C09).  The corollaries are properties C01 and C02 (Properties/C01.v, C02.v).

   The B-tree facts are taken through an explicit interface (Section variable [btI] + hypotheses
   named after the lemmas of Proofs/BTreeMap.v / BTreeInv.v); see the end of the file for what is
   instantiated. *)
From Coq Require Import ZArith List Lia Bool Sorted SetoidList Permutation.
From Gods Require Import Common.Cmp Common.ListAux Spec.SeqSpec Spec.MapSpec Model.Ops Model.Lists Model.Machine.
From Gods Require Model.RBTree Model.AVLTree Model.BTree.
From Gods Require Proofs.RBInv Proofs.RBMap Proofs.AVLInv Proofs.AVLMap.
From Gods Require Import Proofs.MapSpecProofs.
Import ListNotations.
Local Open Scope Z_scope.

(* ================================================================================================ *)
(* 1. histories                                                                                     *)
(* ================================================================================================ *)
Definition puts (es : list (Z * Z)) : list mop := map (fun e => MPut (fst e) (snd e)) es.

(* the entries FromJSON re-inserts, in insertion order *)
Definition json_entries (c : config) (kvs : list (Z * Z)) : list (Z * Z) :=
  match ckind c with
  | LinkedHashMap => dedup_last kvs [] kvs
  | _ => sort_entries kvs
  end.

Definition hist1 (c : config) (o : op) : list mop :=
  match o with
  | Put k v => [MPut k v]
  | Remove k => [MRemove k]
  | Clear => [MClear]
  | FromJSON (DObj kvs) => MClear :: puts (json_entries c kvs)
  | FromJSON DNull => [MClear]
  | _ => []                       (* observers, unsupported operations, failing FromJSON *)
  end.

Definition hist (c : config) (ops : list op) : list mop := flat_map (hist1 c) ops.

Definition cmp_for (c : config) : cmpf :=
  match ckind c with
  | TreeMap | RedBlackTree | AVLTree | BTree => kc c
  | _ => Z.compare
  end.

Definition map_kind (k : kind) : bool :=
  match k with
  | HashMap | TreeMap | LinkedHashMap | RedBlackTree | AVLTree | BTree => true
  | _ => false
  end.

(* valid configurations of the six kinds: the B-tree constructor panics for order < 3 *)
Definition valid (c : config) : Prop :=
  map_kind (ckind c) = true /\ (ckind c = BTree -> 3 <= corder c).

Lemma kc_SWO : forall c, SWO (kc c).
Proof. intros c. apply cmp_of_SWO. Qed.

Lemma cmp_for_SWO : forall c, SWO (cmp_for c).
Proof.
  intros c. unfold cmp_for. destruct (ckind c); try apply Zcompare_SWO; apply kc_SWO.
Qed.

Lemma fold_puts : forall cmp es l,
  fold_left (mstep cmp) (puts es) l = fold_left (fun acc e => ins_list cmp (fst e) (snd e) acc) es l.
Proof.
  intros cmp es. induction es as [|e es IH]; intros l; [reflexivity|].
  cbn [puts map fold_left mstep]. apply IH.
Qed.

(* ================================================================================================ *)
(* 2. per-structure simulation lemmas                                                               *)
(* ================================================================================================ *)
Lemma len_ins : forall cmp, SWO cmp -> forall k v l, ksorted cmp l ->
  Z.of_nat (length (ins_list cmp k v l)) =
  if negb (mem_list cmp k l) then Z.of_nat (length l) + 1 else Z.of_nat (length l).
Proof.
  intros cmp Hswo k v l Hs. rewrite (ins_list_length cmp Hswo) by exact Hs.
  destruct (mem_list cmp k l); cbn [negb]; lia.
Qed.

Lemma mem_list_nonempty : forall cmp k l, mem_list cmp k l = true -> l <> [].
Proof. intros cmp k l H E. subst l. discriminate. Qed.

Lemma len_del : forall cmp, SWO cmp -> forall k l, ksorted cmp l ->
  Z.of_nat (length (del_list cmp k l)) =
  if mem_list cmp k l then Z.of_nat (length l) - 1 else Z.of_nat (length l).
Proof.
  intros cmp Hswo k l Hs. rewrite (del_list_length cmp Hswo) by exact Hs.
  destruct (mem_list cmp k l) eqn:E; [|reflexivity].
  apply mem_list_nonempty in E. destruct l as [|x l]; [congruence|]. cbn [length Nat.pred]. lia.
Qed.

(* ---------- red-black tree with cached size ---------- *)
Section RBK.
Variable cmp : cmpf.
Hypothesis Hswo : SWO cmp.

Definition rbI (s : rbs) : Prop :=
  RBInv.rbt (fst s) /\ RBMap.bst cmp (fst s) /\ snd s = Z.of_nat (length (RB.inorder (fst s))).

Lemma rbI_empty : rbI rbs_empty.
Proof. split; [exact RBInv.rbt_E|]. split; [constructor|reflexivity]. Qed.

Lemma rbs_put_sim : forall k v s, rbI s ->
  exists s', rbs_put cmp k v s = Some s' /\ rbI s' /\
             RB.inorder (fst s') = ins_list cmp k v (RB.inorder (fst s)).
Proof.
  intros k v [t n] (Hrb & Hbst & Hn). cbn [fst snd] in *.
  destruct (RBInv.put_rbt cmp k v t Hrb) as (t' & b & Hput & Hrb').
  destruct (RBMap.put_inorder cmp Hswo k v t t' b Hbst Hput) as (Hin & Hbst' & Hb).
  unfold rbs_put. cbn [fst snd]. rewrite Hput. eexists. split; [reflexivity|].
  unfold rbI. cbn [fst snd]. split; [|exact Hin]. split; [exact Hrb'|]. split; [exact Hbst'|].
  rewrite Hin, (len_ins cmp Hswo) by exact Hbst. rewrite <- Hb, Hn. reflexivity.
Qed.

Lemma rbs_remove_sim : forall k s, rbI s ->
  exists s', rbs_remove cmp k s = Some s' /\ rbI s' /\
             RB.inorder (fst s') = del_list cmp k (RB.inorder (fst s)).
Proof.
  intros k [t n] (Hrb & Hbst & Hn). cbn [fst snd] in *.
  destruct (RBInv.remove_rbt cmp k t Hrb) as (t' & b & Hrm & Hrb').
  destruct (RBMap.remove_inorder cmp Hswo k t t' b Hbst Hrm) as (Hin & Hbst' & Hb).
  unfold rbs_remove. cbn [fst snd]. rewrite Hrm. eexists. split; [reflexivity|].
  unfold rbI. cbn [fst snd]. split; [|exact Hin]. split; [exact Hrb'|]. split; [exact Hbst'|].
  rewrite Hin, (len_del cmp Hswo) by exact Hbst. rewrite <- Hb, Hn. reflexivity.
Qed.

Lemma rbs_puts_sim : forall es s, rbI s ->
  exists s', rbs_puts cmp es s = Some s' /\ rbI s' /\
             RB.inorder (fst s') = fold_left (mstep cmp) (puts es) (RB.inorder (fst s)).
Proof.
  induction es as [|[k v] es IH]; intros s Hs.
  - exists s. split; [reflexivity|]. split; [exact Hs|reflexivity].
  - destruct (rbs_put_sim k v s Hs) as (s1 & E1 & H1 & I1).
    destruct (IH s1 H1) as (s2 & E2 & H2 & I2).
    exists s2. cbn [rbs_puts]. rewrite E1. split; [exact E2|]. split; [exact H2|].
    rewrite I2, I1. reflexivity.
Qed.

Lemma rbs_removes_sim : forall ks s, rbI s ->
  exists s', rbs_removes cmp ks s = Some s' /\ rbI s' /\
             RB.inorder (fst s') = fold_left (mstep cmp) (map MRemove ks) (RB.inorder (fst s)).
Proof.
  induction ks as [|k ks IH]; intros s Hs.
  - exists s. split; [reflexivity|]. split; [exact Hs|reflexivity].
  - destruct (rbs_remove_sim k s Hs) as (s1 & E1 & H1 & I1).
    destruct (IH s1 H1) as (s2 & E2 & H2 & I2).
    exists s2. cbn [rbs_removes]. rewrite E1. split; [exact E2|]. split; [exact H2|].
    rewrite I2, I1. reflexivity.
Qed.

Lemma rbs_get_spec : forall k t n, RBMap.bst cmp t ->
  rbs_get cmp k (t, n) = option_map snd (find_list cmp k (RB.inorder t)).
Proof.
  intros k t n Hb. unfold rbs_get. cbn [fst]. rewrite (RBMap.lookup_spec cmp Hswo k t Hb).
  destruct (find_list cmp k (RB.inorder t)) as [[k0 v0]|]; reflexivity.
Qed.

(* removing an absent key returns the very same tree (no rebalancing, no recolouring) *)
Lemma rb_del_absent : forall k t, RB.lookup cmp k t = None -> RB.del cmp k t = Some (t, RB.DDone, false).
Proof.
  intros k t. induction t as [|c l IHl k' v' r IHr]; intros H; [reflexivity|].
  cbn [RB.lookup] in H. cbn [RB.del]. destruct (cmp k k'); [discriminate| |].
  - rewrite (IHl H). reflexivity.
  - rewrite (IHr H). reflexivity.
Qed.

Lemma rb_remove_absent : forall k t, RB.lookup cmp k t = None -> RB.remove cmp k t = Some (t, false).
Proof.
  intros k t H. destruct t as [|c l k' v' r]; [reflexivity|].
  pose proof (rb_del_absent k _ H) as Hd.
  unfold RB.remove. cbn [RB.lookup] in H.
  destruct (cmp k k'); [discriminate| |]; rewrite Hd; destruct l, r; reflexivity.
Qed.
End RBK.

(* ---------- AVL tree with cached size ---------- *)
Section AVLK.
Variable cmp : cmpf.
Hypothesis Hswo : SWO cmp.

Definition avlI (t : AVL.tree) (n : Z) : Prop :=
  AVLInv.avl t /\ AVLMap.bst cmp t /\ n = Z.of_nat (length (AVL.inorder t)).

Lemma avl_put_sim : forall k v t n, avlI t n ->
  exists t' n', avl_put cmp k v t n = Some (t', n') /\ avlI t' n' /\
                AVL.inorder t' = ins_list cmp k v (AVL.inorder t).
Proof.
  intros k v t n (Havl & Hbst & Hn).
  destruct (AVLMap.put_total cmp Hswo k v t Havl Hbst) as (t' & fx & ins & Hput & Havl' & Hbst' & Hin & Hb).
  unfold avl_put. rewrite Hput. do 2 eexists. split; [reflexivity|].
  split; [|exact Hin]. split; [exact Havl'|]. split; [exact Hbst'|].
  rewrite Hin, (len_ins cmp Hswo) by exact Hbst. rewrite <- Hb, Hn. reflexivity.
Qed.

Lemma avl_remove_sim : forall k t n, avlI t n ->
  exists t' n', avl_remove cmp k t n = Some (t', n') /\ avlI t' n' /\
                AVL.inorder t' = del_list cmp k (AVL.inorder t).
Proof.
  intros k t n (Havl & Hbst & Hn).
  destruct (AVLMap.remove_total cmp Hswo k t Havl Hbst) as (t' & fx & rem & Hrm & Havl' & Hbst' & Hin & Hb).
  unfold avl_remove. rewrite Hrm. do 2 eexists. split; [reflexivity|].
  split; [|exact Hin]. split; [exact Havl'|]. split; [exact Hbst'|].
  rewrite Hin, (len_del cmp Hswo) by exact Hbst. rewrite <- Hb, Hn. reflexivity.
Qed.

Lemma avl_puts_sim : forall es t n, avlI t n ->
  exists t' n', avl_puts cmp es t n = Some (t', n') /\ avlI t' n' /\
                AVL.inorder t' = fold_left (mstep cmp) (puts es) (AVL.inorder t).
Proof.
  induction es as [|[k v] es IH]; intros t n Hs.
  - exists t, n. split; [reflexivity|]. split; [exact Hs|reflexivity].
  - destruct (avl_put_sim k v t n Hs) as (t1 & n1 & E1 & H1 & I1).
    destruct (IH t1 n1 H1) as (t2 & n2 & E2 & H2 & I2).
    exists t2, n2. cbn [avl_puts]. rewrite E1. split; [exact E2|]. split; [exact H2|].
    rewrite I2, I1. reflexivity.
Qed.

Lemma avl_remove_absent : forall k t, AVL.lookup cmp k t = None -> AVL.remove cmp k t = Some (t, false, false).
Proof.
  intros k t. induction t as [|b l IHl k' v' r IHr]; intros H; [reflexivity|].
  cbn [AVL.lookup] in H. cbn [AVL.remove]. destruct (cmp k k'); [discriminate| |].
  - rewrite (IHl H). reflexivity.
  - rewrite (IHr H). reflexivity.
Qed.
End AVLK.

(* ---------- Go's built-in map (canonical association list, keys compared with ==) ---------- *)
Lemma Zcmp_eq_iff : forall x y, Z.compare x y = Eq <-> x = y.
Proof. intros x y. apply Z.compare_eq_iff. Qed.

Lemma hget_find : forall k l, hget k l = option_map snd (find_list Z.compare k l).
Proof.
  intros k l. unfold hget, find_list.
  assert (E : forall e : Z * Z, (fst e =? k) = is_eq (k ?= fst e)).
  { intros e. destruct (Z.eqb_spec (fst e) k) as [->|Hne].
    - rewrite Z.compare_refl. reflexivity.
    - destruct (k ?= fst e) eqn:C; try reflexivity. apply Z.compare_eq in C. congruence. }
  induction l as [|x l IH]; [reflexivity|]. cbn [find]. rewrite E.
  destruct (is_eq (k ?= fst x)); [reflexivity|exact IH].
Qed.

Lemma hmem_mem : forall k l, hmem k l = mem_list Z.compare k l.
Proof.
  intros k l. unfold hmem, mem_list, find_list.
  induction l as [|x l IH]; [reflexivity|]. cbn [existsb find].
  destruct (Z.eqb_spec (fst x) k) as [->|Hne].
  - rewrite Z.compare_refl. reflexivity.
  - destruct (k ?= fst x) eqn:C; cbn [is_eq orb]; try exact IH. apply Z.compare_eq in C. congruence.
Qed.

(* on a canonical list, membership of a key = lookup succeeds *)
Lemma key_in_iff_mem : forall k l, In k (map fst l) <-> mem_list Z.compare k l = true.
Proof.
  intros k l. unfold mem_list. split.
  - intros H. apply in_map_iff in H. destruct H as (e & <- & He).
    destruct (find_list Z.compare (fst e) l) eqn:F; [reflexivity|].
    rewrite (find_list_None Z.compare) in F. exfalso. apply (F e He). apply Z.compare_refl.
  - destruct (find_list Z.compare k l) as [e|] eqn:F; [|discriminate]. intros _.
    apply find_list_Some in F. destruct F as [He Hk]. apply Z.compare_eq in Hk. subst k.
    apply in_map. exact He.
Qed.

Lemma keys_hput : forall k v l x, ksorted Z.compare l ->
  (In x (map fst (hput k v l)) <-> x = k \/ In x (map fst l)).
Proof.
  intros k v l x Hs. unfold hput. rewrite !key_in_iff_mem. unfold mem_list.
  rewrite (find_ins_list Z.compare Zcompare_SWO) by exact Hs.
  destruct (x ?= k) eqn:C.
  - apply Z.compare_eq in C. tauto.
  - assert (x <> k) by (intros ->; rewrite Z.compare_refl in C; discriminate). tauto.
  - assert (x <> k) by (intros ->; rewrite Z.compare_refl in C; discriminate). tauto.
Qed.

Lemma keys_hdel : forall k l x, ksorted Z.compare l ->
  (In x (map fst (hdel k l)) <-> x <> k /\ In x (map fst l)).
Proof.
  intros k l x Hs. unfold hdel. rewrite !key_in_iff_mem. unfold mem_list.
  rewrite (find_del_list Z.compare Zcompare_SWO) by exact Hs.
  destruct (x ?= k) eqn:C.
  - apply Z.compare_eq in C. subst x. split; [discriminate|tauto].
  - assert (x <> k) by (intros ->; rewrite Z.compare_refl in C; discriminate). tauto.
  - assert (x <> k) by (intros ->; rewrite Z.compare_refl in C; discriminate). tauto.
Qed.

Lemma ksortedZ_keys_nodup : forall l, ksorted Z.compare l -> NoDup (map fst l).
Proof.
  intros l Hs. pose proof (ksorted_keys_nodupA Z.compare l Hs) as H.
  induction H as [|x ks Hx Hnd IH]; constructor; [|exact IH].
  intros Hin. apply Hx. apply InA_alt. exists x. split; [apply Z.compare_refl|exact Hin].
Qed.

(* ---------- LinkedHashMap: canonical table + ordering list ---------- *)
Definition lmI (s : list (Z * Z) * list Z) : Prop :=
  ksorted Z.compare (fst s) /\ NoDup (snd s) /\ (forall k, In k (snd s) <-> In k (map fst (fst s))).

Lemma sll_add_one : forall k l, dll_add [k] l = l ++ [k].
Proof. reflexivity. Qed.

Lemma index_from_split : forall k l n, In k l ->
  exists l1 l2, l = l1 ++ k :: l2 /\ ~ In k l1 /\ index_from k l n = n + zlen l1.
Proof.
  intros k l. induction l as [|x l IH]; intros n Hin; [destruct Hin|].
  cbn [index_from]. destruct (Z.eqb_spec x k) as [->|Hne].
  - exists [], l. split; [reflexivity|]. split; [intros []|]. unfold zlen. cbn. lia.
  - destruct Hin as [E|Hin]; [congruence|].
    destruct (IH (n + 1) Hin) as (l1 & l2 & -> & Hni & Hi).
    exists (x :: l1), l2. split; [reflexivity|]. split.
    + intros [E|H]; [congruence|tauto].
    + rewrite Hi. unfold zlen. cbn [length]. lia.
Qed.

Lemma firstn_len_app : forall A (l1 l2 : list A), firstn (length l1) (l1 ++ l2) = l1.
Proof. intros A l1 l2. induction l1 as [|x l1 IH]; [reflexivity|]. cbn. rewrite IH. reflexivity. Qed.

Lemma skipn_Slen_app : forall A (l1 l2 : list A) x, skipn (S (length l1)) (l1 ++ x :: l2) = l2.
Proof. intros A l1 l2 x. induction l1 as [|y l1 IH]; [reflexivity|]. cbn [length app]. exact IH. Qed.

Lemma dll_remove_index : forall k l, In k l ->
  exists l1 l2, l = l1 ++ k :: l2 /\ ~ In k l1 /\ dll_remove (dll_index_of k l) l = l1 ++ l2.
Proof.
  intros k l Hin. destruct (index_from_split k l 0 Hin) as (l1 & l2 & E & Hni & Hi).
  exists l1, l2. split; [exact E|]. split; [exact Hni|].
  unfold dll_index_of, sll_index_of, dll_remove, sll_remove.
  destruct l as [|x l]; [destruct l1; discriminate|]. rewrite Hi, E.
  assert (W : within (0 + zlen l1) (l1 ++ k :: l2) = true).
  { unfold within, zlen. rewrite app_length. cbn [length].
    apply andb_true_intro. split; [apply Z.leb_le|apply Z.ltb_lt]; lia. }
  rewrite W. cbn [negb].
  replace (Z.to_nat (0 + zlen l1)) with (length l1) by (unfold zlen; lia).
  destruct (zlen (l1 ++ k :: l2) =? 1) eqn:E1.
  - apply Z.eqb_eq in E1. unfold zlen in E1. rewrite app_length in E1. cbn [length] in E1.
    destruct l1; [|cbn [length] in E1; lia]. destruct l2; [reflexivity|cbn [length] in E1; lia].
  - rewrite firstn_len_app, skipn_Slen_app. reflexivity.
Qed.

Lemma NoDup_snoc : forall A (l : list A) x, NoDup l -> ~ In x l -> NoDup (l ++ [x]).
Proof.
  intros A l x Hnd Hni. eapply Permutation_NoDup; [apply Permutation_cons_append|].
  constructor; assumption.
Qed.

Lemma lmap_put_sim : forall k v s, lmI s ->
  lmI (lmap_put k v s) /\ fst (lmap_put k v s) = ins_list Z.compare k v (fst s).
Proof.
  intros k v [tbl ord] (Hs & Hnd & Hk). cbn [fst snd] in *. unfold lmap_put, lmI.
  assert (Hs' : ksorted Z.compare (hput k v tbl)) by (apply (ins_list_sorted Z.compare Zcompare_SWO); exact Hs).
  destruct (hmem k tbl) eqn:M; cbn [fst snd]; (split; [|reflexivity]); (split; [exact Hs'|]).
  - split; [exact Hnd|]. intros x. rewrite keys_hput by exact Hs. rewrite Hk.
    rewrite hmem_mem in M. apply key_in_iff_mem in M. split; [tauto|]. intros [->|H]; assumption.
  - rewrite hmem_mem in M. rewrite sll_add_one. split.
    + apply NoDup_snoc; [exact Hnd|].
      intros Hin. apply Hk in Hin. apply key_in_iff_mem in Hin. congruence.
    + intros x. rewrite keys_hput by exact Hs. rewrite in_app_iff, Hk. cbn [In]. intuition.
Qed.
