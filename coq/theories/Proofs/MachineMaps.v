(* Machine-level refinement of the key-value kinds to the L2 map specification, for ALL op lists.

   For HashMap, TreeMap, RedBlackTree, AVLTree, BTree the in-order entry list of the machine state
   after ANY sequence of operations is EXACTLY the abstract sorted association list [mrun] of the
   history [hist] of the mutating operations; for LinkedHashMap it is a permutation of it (its
   order is property C09).  The corollaries are properties C01 and C02 (Properties/C01.v, C02.v).

   The B-tree facts are taken through an explicit interface (Section variable [btI] + hypotheses
   named after the lemmas of Proofs/BTreeMap.v / BTreeInv.v); see the end of the file for what is
   instantiated. *)
From Coq Require Import ZArith List Lia Bool Sorted SetoidList Permutation.
From Gods Require Import Common.Cmp Common.ListAux Spec.SeqSpec Spec.MapSpec Model.Ops Model.Lists Model.Machine.
From Gods Require Model.RBTree Model.AVLTree Model.BTree.
From Gods Require Proofs.RBInv Proofs.RBMap Proofs.AVLInv Proofs.AVLMap.
From Gods Require Proofs.BTreeInd Proofs.BTreeMap Proofs.BTreeInv.
From Gods Require Import Proofs.MapSpecProofs.
Import ListNotations.
Local Open Scope Z_scope.

(* ================================================================================================ *)
(* 1. histories                                                                                     *)
(* ================================================================================================ *)
Definition puts (es : list (Z * Z)) : list mop := map (fun e => MPut (fst e) (snd e)) es.

(* the entries FromJSON re-inserts, in insertion order *)
Definition json_entries (c : config) (kvs : list (Z * Z)) : list (Z * Z) :=
  match ckind c with
  | LinkedHashMap => dedup_last kvs [] kvs
  | _ => sort_entries kvs
  end.

Definition hist1 (c : config) (o : op) : list mop :=
  match o with
  | Put k v => [MPut k v]
  | Remove k => [MRemove k]
  | Clear => [MClear]
  | FromJSON (DObj kvs) => MClear :: puts (json_entries c kvs)
  | FromJSON DNull => [MClear]
  | _ => []                       (* observers, unsupported operations, failing FromJSON *)
  end.

Definition hist (c : config) (ops : list op) : list mop := flat_map (hist1 c) ops.

Definition cmp_for (c : config) : cmpf :=
  match ckind c with
  | TreeMap | RedBlackTree | AVLTree | BTree => kc c
  | _ => Z.compare
  end.

Definition map_kind (k : kind) : bool :=
  match k with
  | HashMap | TreeMap | LinkedHashMap | RedBlackTree | AVLTree | BTree => true
  | _ => false
  end.

(* valid configurations of the six kinds: the B-tree constructor panics for order < 3 *)
Definition valid (c : config) : Prop :=
  map_kind (ckind c) = true /\ (ckind c = BTree -> 3 <= corder c).

Lemma kind_eq_dec_lhm : forall c, {ckind c = LinkedHashMap} + {ckind c <> LinkedHashMap}.
Proof. intros c. destruct (ckind c); (left; reflexivity) || (right; discriminate). Qed.

Lemma kc_SWO : forall c, SWO (kc c).
Proof. intros c. apply cmp_of_SWO. Qed.

Lemma cmp_for_SWO : forall c, SWO (cmp_for c).
Proof.
  intros c. unfold cmp_for. destruct (ckind c); try apply Zcompare_SWO; apply kc_SWO.
Qed.

Lemma fold_puts : forall cmp es l,
  fold_left (mstep cmp) (puts es) l = fold_left (fun acc e => ins_list cmp (fst e) (snd e) acc) es l.
Proof.
  intros cmp es. induction es as [|e es IH]; intros l; [reflexivity|].
  cbn [puts map fold_left mstep]. apply IH.
Qed.

(* ---------- the ordered kinds and the navigation results that [observe] prints (C02) ---------- *)
Definition ordered_kind (k : kind) : bool :=
  match k with TreeMap | RedBlackTree | AVLTree | BTree => true | _ => false end.

(* the navigation results that [observe] prints *)
Definition left_of (s : state) : option (Z * Z) :=
  match s with
  | StRB t _ => RB.leftmost t
  | StAVL t _ => AVL.leftmost t
  | StBT r _ => match r with Some n => BT.left_entry n | None => None end
  | _ => None
  end.
Definition right_of (s : state) : option (Z * Z) :=
  match s with
  | StRB t _ => RB.rightmost t
  | StAVL t _ => AVL.rightmost t
  | StBT r _ => match r with Some n => BT.right_entry n | None => None end
  | _ => None
  end.
Definition floor_of (c : config) (s : state) (p : Z) : option (Z * Z) :=
  match s with
  | StRB t _ => RB.floor (kc c) p t
  | StAVL t _ => AVL.floor (kc c) p t
  | _ => None
  end.
Definition ceiling_of (c : config) (s : state) (p : Z) : option (Z * Z) :=
  match s with
  | StRB t _ => RB.ceiling (kc c) p t
  | StAVL t _ => AVL.ceiling (kc c) p t
  | _ => None
  end.


(* ================================================================================================ *)
(* 2. per-structure simulation lemmas                                                               *)
(* ================================================================================================ *)
Lemma len_ins : forall cmp, SWO cmp -> forall k v l, ksorted cmp l ->
  Z.of_nat (length (ins_list cmp k v l)) =
  if negb (mem_list cmp k l) then Z.of_nat (length l) + 1 else Z.of_nat (length l).
Proof.
  intros cmp Hswo k v l Hs. rewrite (ins_list_length cmp Hswo) by exact Hs.
  destruct (mem_list cmp k l); cbn [negb]; lia.
Qed.

Lemma mem_list_nonempty : forall cmp k l, mem_list cmp k l = true -> l <> [].
Proof. intros cmp k l H E. subst l. discriminate. Qed.

Lemma len_del : forall cmp, SWO cmp -> forall k l, ksorted cmp l ->
  Z.of_nat (length (del_list cmp k l)) =
  if mem_list cmp k l then Z.of_nat (length l) - 1 else Z.of_nat (length l).
Proof.
  intros cmp Hswo k l Hs. rewrite (del_list_length cmp Hswo) by exact Hs.
  destruct (mem_list cmp k l) eqn:E; [|reflexivity].
  apply mem_list_nonempty in E. destruct l as [|x l]; [congruence|]. cbn [length Nat.pred]. lia.
Qed.

(* ---------- red-black tree with cached size ---------- *)
Section RBK.
Variable cmp : cmpf.
Hypothesis Hswo : SWO cmp.

Definition rbI (s : rbs) : Prop :=
  RBInv.rbt (fst s) /\ RBMap.bst cmp (fst s) /\ snd s = Z.of_nat (length (RB.inorder (fst s))).

Lemma rbI_empty : rbI rbs_empty.
Proof. split; [exact RBInv.rbt_E|]. split; [constructor|reflexivity]. Qed.

Lemma rbs_put_sim : forall k v s, rbI s ->
  exists s', rbs_put cmp k v s = Some s' /\ rbI s' /\
             RB.inorder (fst s') = ins_list cmp k v (RB.inorder (fst s)).
Proof.
  intros k v [t n] (Hrb & Hbst & Hn). cbn [fst snd] in *.
  destruct (RBInv.put_rbt cmp k v t Hrb) as (t' & b & Hput & Hrb').
  destruct (RBMap.put_inorder cmp Hswo k v t t' b Hbst Hput) as (Hin & Hbst' & Hb).
  unfold rbs_put. cbn [fst snd]. rewrite Hput. eexists. split; [reflexivity|].
  unfold rbI. cbn [fst snd]. split; [|exact Hin]. split; [exact Hrb'|]. split; [exact Hbst'|].
  rewrite Hin, (len_ins cmp Hswo) by exact Hbst. rewrite <- Hb, Hn. reflexivity.
Qed.

Lemma rbs_remove_sim : forall k s, rbI s ->
  exists s', rbs_remove cmp k s = Some s' /\ rbI s' /\
             RB.inorder (fst s') = del_list cmp k (RB.inorder (fst s)).
Proof.
  intros k [t n] (Hrb & Hbst & Hn). cbn [fst snd] in *.
  destruct (RBInv.remove_rbt cmp k t Hrb) as (t' & b & Hrm & Hrb').
  destruct (RBMap.remove_inorder cmp Hswo k t t' b Hbst Hrm) as (Hin & Hbst' & Hb).
  unfold rbs_remove. cbn [fst snd]. rewrite Hrm. eexists. split; [reflexivity|].
  unfold rbI. cbn [fst snd]. split; [|exact Hin]. split; [exact Hrb'|]. split; [exact Hbst'|].
  rewrite Hin, (len_del cmp Hswo) by exact Hbst. rewrite <- Hb, Hn. reflexivity.
Qed.

Lemma rbs_puts_sim : forall es s, rbI s ->
  exists s', rbs_puts cmp es s = Some s' /\ rbI s' /\
             RB.inorder (fst s') = fold_left (mstep cmp) (puts es) (RB.inorder (fst s)).
Proof.
  induction es as [|[k v] es IH]; intros s Hs.
  - exists s. split; [reflexivity|]. split; [exact Hs|reflexivity].
  - destruct (rbs_put_sim k v s Hs) as (s1 & E1 & H1 & I1).
    destruct (IH s1 H1) as (s2 & E2 & H2 & I2).
    exists s2. cbn [rbs_puts]. rewrite E1. split; [exact E2|]. split; [exact H2|].
    rewrite I2, I1. reflexivity.
Qed.

Lemma rbs_removes_sim : forall ks s, rbI s ->
  exists s', rbs_removes cmp ks s = Some s' /\ rbI s' /\
             RB.inorder (fst s') = fold_left (mstep cmp) (map MRemove ks) (RB.inorder (fst s)).
Proof.
  induction ks as [|k ks IH]; intros s Hs.
  - exists s. split; [reflexivity|]. split; [exact Hs|reflexivity].
  - destruct (rbs_remove_sim k s Hs) as (s1 & E1 & H1 & I1).
    destruct (IH s1 H1) as (s2 & E2 & H2 & I2).
    exists s2. cbn [rbs_removes]. rewrite E1. split; [exact E2|]. split; [exact H2|].
    rewrite I2, I1. reflexivity.
Qed.

Lemma rbs_get_spec : forall k t n, RBMap.bst cmp t ->
  rbs_get cmp k (t, n) = option_map snd (find_list cmp k (RB.inorder t)).
Proof.
  intros k t n Hb. unfold rbs_get. cbn [fst]. rewrite (RBMap.lookup_spec cmp Hswo k t Hb).
  destruct (find_list cmp k (RB.inorder t)) as [[k0 v0]|]; reflexivity.
Qed.

(* removing an absent key returns the very same tree (no rebalancing, no recolouring) *)
Lemma rb_del_absent : forall k t, RB.lookup cmp k t = None -> RB.del cmp k t = Some (t, RB.DDone, false).
Proof.
  intros k t. induction t as [|c l IHl k' v' r IHr]; intros H; [reflexivity|].
  cbn [RB.lookup] in H. cbn [RB.del]. destruct (cmp k k'); [discriminate| |].
  - rewrite (IHl H). reflexivity.
  - rewrite (IHr H). reflexivity.
Qed.

Lemma rb_remove_absent : forall k t, RB.lookup cmp k t = None -> RB.remove cmp k t = Some (t, false).
Proof.
  intros k t H. destruct t as [|c l k' v' r]; [reflexivity|].
  pose proof (rb_del_absent k _ H) as Hd.
  unfold RB.remove. cbn [RB.lookup] in H.
  destruct (cmp k k'); [discriminate| |]; rewrite Hd; destruct l, r; reflexivity.
Qed.
End RBK.

(* ---------- AVL tree with cached size ---------- *)
Section AVLK.
Variable cmp : cmpf.
Hypothesis Hswo : SWO cmp.

Definition avlI (t : AVL.tree) (n : Z) : Prop :=
  AVLInv.avl t /\ AVLMap.bst cmp t /\ n = Z.of_nat (length (AVL.inorder t)).

Lemma avl_put_sim : forall k v t n, avlI t n ->
  exists t' n', avl_put cmp k v t n = Some (t', n') /\ avlI t' n' /\
                AVL.inorder t' = ins_list cmp k v (AVL.inorder t).
Proof.
  intros k v t n (Havl & Hbst & Hn).
  destruct (AVLMap.put_total cmp Hswo k v t Havl Hbst) as (t' & fx & ins & Hput & Havl' & Hbst' & Hin & Hb).
  unfold avl_put. rewrite Hput. do 2 eexists. split; [reflexivity|].
  split; [|exact Hin]. split; [exact Havl'|]. split; [exact Hbst'|].
  rewrite Hin, (len_ins cmp Hswo) by exact Hbst. rewrite <- Hb, Hn. reflexivity.
Qed.

Lemma avl_remove_sim : forall k t n, avlI t n ->
  exists t' n', avl_remove cmp k t n = Some (t', n') /\ avlI t' n' /\
                AVL.inorder t' = del_list cmp k (AVL.inorder t).
Proof.
  intros k t n (Havl & Hbst & Hn).
  destruct (AVLMap.remove_total cmp Hswo k t Havl Hbst) as (t' & fx & rem & Hrm & Havl' & Hbst' & Hin & Hb).
  unfold avl_remove. rewrite Hrm. do 2 eexists. split; [reflexivity|].
  split; [|exact Hin]. split; [exact Havl'|]. split; [exact Hbst'|].
  rewrite Hin, (len_del cmp Hswo) by exact Hbst. rewrite <- Hb, Hn. reflexivity.
Qed.

Lemma avl_puts_sim : forall es t n, avlI t n ->
  exists t' n', avl_puts cmp es t n = Some (t', n') /\ avlI t' n' /\
                AVL.inorder t' = fold_left (mstep cmp) (puts es) (AVL.inorder t).
Proof.
  induction es as [|[k v] es IH]; intros t n Hs.
  - exists t, n. split; [reflexivity|]. split; [exact Hs|reflexivity].
  - destruct (avl_put_sim k v t n Hs) as (t1 & n1 & E1 & H1 & I1).
    destruct (IH t1 n1 H1) as (t2 & n2 & E2 & H2 & I2).
    exists t2, n2. cbn [avl_puts]. rewrite E1. split; [exact E2|]. split; [exact H2|].
    rewrite I2, I1. reflexivity.
Qed.

Lemma avl_remove_absent : forall k t, AVL.lookup cmp k t = None -> AVL.remove cmp k t = Some (t, false, false).
Proof.
  intros k t. induction t as [|b l IHl k' v' r IHr]; intros H; [reflexivity|].
  cbn [AVL.lookup] in H. cbn [AVL.remove]. destruct (cmp k k'); [discriminate| |].
  - rewrite (IHl H). reflexivity.
  - rewrite (IHr H). reflexivity.
Qed.
End AVLK.

(* ---------- Go's built-in map (canonical association list, keys compared with ==) ---------- *)
Lemma Zcmp_eq_iff : forall x y, Z.compare x y = Eq <-> x = y.
Proof. intros x y. apply Z.compare_eq_iff. Qed.

Lemma hget_find : forall k l, hget k l = option_map snd (find_list Z.compare k l).
Proof.
  intros k l. unfold hget, find_list.
  assert (E : forall e : Z * Z, (fst e =? k) = is_eq (k ?= fst e)).
  { intros e. destruct (Z.eqb_spec (fst e) k) as [->|Hne].
    - rewrite Z.compare_refl. reflexivity.
    - destruct (k ?= fst e) eqn:C; try reflexivity. apply Z.compare_eq in C. congruence. }
  induction l as [|x l IH]; [reflexivity|]. cbn [find]. rewrite E.
  destruct (is_eq (k ?= fst x)); [reflexivity|exact IH].
Qed.

Lemma hmem_mem : forall k l, hmem k l = mem_list Z.compare k l.
Proof.
  intros k l. unfold hmem, mem_list, find_list.
  induction l as [|x l IH]; [reflexivity|]. cbn [existsb find].
  destruct (Z.eqb_spec (fst x) k) as [->|Hne].
  - rewrite Z.compare_refl. reflexivity.
  - destruct (k ?= fst x) eqn:C; cbn [is_eq orb]; try exact IH. apply Z.compare_eq in C. congruence.
Qed.

(* on a canonical list, membership of a key = lookup succeeds *)
Lemma key_in_iff_mem : forall k l, In k (map fst l) <-> mem_list Z.compare k l = true.
Proof.
  intros k l. unfold mem_list. split.
  - intros H. apply in_map_iff in H. destruct H as (e & <- & He).
    destruct (find_list Z.compare (fst e) l) eqn:F; [reflexivity|].
    rewrite (find_list_None Z.compare) in F. exfalso. apply (F e He). apply Z.compare_refl.
  - destruct (find_list Z.compare k l) as [e|] eqn:F; [|discriminate]. intros _.
    apply find_list_Some in F. destruct F as [He Hk]. apply Z.compare_eq in Hk. subst k.
    apply in_map. exact He.
Qed.

Lemma keys_hput : forall k v l x, ksorted Z.compare l ->
  (In x (map fst (hput k v l)) <-> x = k \/ In x (map fst l)).
Proof.
  intros k v l x Hs. unfold hput. rewrite !key_in_iff_mem. unfold mem_list.
  rewrite (find_ins_list Z.compare Zcompare_SWO) by exact Hs.
  destruct (x ?= k) eqn:C.
  - apply Z.compare_eq in C. tauto.
  - assert (x <> k) by (intros ->; rewrite Z.compare_refl in C; discriminate). tauto.
  - assert (x <> k) by (intros ->; rewrite Z.compare_refl in C; discriminate). tauto.
Qed.

Lemma keys_hdel : forall k l x, ksorted Z.compare l ->
  (In x (map fst (hdel k l)) <-> x <> k /\ In x (map fst l)).
Proof.
  intros k l x Hs. unfold hdel. rewrite !key_in_iff_mem. unfold mem_list.
  rewrite (find_del_list Z.compare Zcompare_SWO) by exact Hs.
  destruct (x ?= k) eqn:C.
  - apply Z.compare_eq in C. subst x. split; [discriminate|tauto].
  - assert (x <> k) by (intros ->; rewrite Z.compare_refl in C; discriminate). tauto.
  - assert (x <> k) by (intros ->; rewrite Z.compare_refl in C; discriminate). tauto.
Qed.

Lemma ksortedZ_keys_nodup : forall l, ksorted Z.compare l -> NoDup (map fst l).
Proof.
  intros l Hs. pose proof (ksorted_keys_nodupA Z.compare l Hs) as H.
  induction H as [|x ks Hx Hnd IH]; constructor; [|exact IH].
  intros Hin. apply Hx. apply InA_alt. exists x. split; [apply Z.compare_refl|exact Hin].
Qed.

(* ---------- LinkedHashMap: canonical table + ordering list ---------- *)
Definition lmI (s : list (Z * Z) * list Z) : Prop :=
  ksorted Z.compare (fst s) /\ NoDup (snd s) /\ (forall k, In k (snd s) <-> In k (map fst (fst s))).

Lemma sll_add_one : forall k l, dll_add [k] l = l ++ [k].
Proof. reflexivity. Qed.

Lemma index_from_split : forall k l n, In k l ->
  exists l1 l2, l = l1 ++ k :: l2 /\ ~ In k l1 /\ index_from k l n = n + zlen l1.
Proof.
  intros k l. induction l as [|x l IH]; intros n Hin; [destruct Hin|].
  cbn [index_from]. destruct (Z.eqb_spec x k) as [->|Hne].
  - exists [], l. split; [reflexivity|]. split; [intros []|]. unfold zlen. cbn. lia.
  - destruct Hin as [E|Hin]; [congruence|].
    destruct (IH (n + 1) Hin) as (l1 & l2 & -> & Hni & Hi).
    exists (x :: l1), l2. split; [reflexivity|]. split.
    + intros [E|H]; [congruence|tauto].
    + rewrite Hi. unfold zlen. cbn [length]. lia.
Qed.

Lemma firstn_len_app : forall A (l1 l2 : list A), firstn (length l1) (l1 ++ l2) = l1.
Proof. intros A l1 l2. induction l1 as [|x l1 IH]; [reflexivity|]. cbn. rewrite IH. reflexivity. Qed.

Lemma skipn_Slen_app : forall A (l1 l2 : list A) x, skipn (S (length l1)) (l1 ++ x :: l2) = l2.
Proof. intros A l1 l2 x. induction l1 as [|y l1 IH]; [reflexivity|]. cbn [length app]. exact IH. Qed.

Lemma dll_remove_index : forall k l, In k l ->
  exists l1 l2, l = l1 ++ k :: l2 /\ ~ In k l1 /\ dll_remove (dll_index_of k l) l = l1 ++ l2.
Proof.
  intros k l Hin. destruct (index_from_split k l 0 Hin) as (l1 & l2 & E & Hni & Hi).
  exists l1, l2. split; [exact E|]. split; [exact Hni|].
  unfold dll_index_of, sll_index_of, dll_remove, sll_remove.
  destruct l as [|x l]; [destruct l1; discriminate|]. rewrite Hi, E.
  assert (W : within (0 + zlen l1) (l1 ++ k :: l2) = true).
  { unfold within, zlen. rewrite app_length. cbn [length].
    apply andb_true_intro. split; [apply Z.leb_le|apply Z.ltb_lt]; lia. }
  rewrite W. cbn [negb].
  replace (Z.to_nat (0 + zlen l1)) with (length l1) by (unfold zlen; lia).
  destruct (zlen (l1 ++ k :: l2) =? 1) eqn:E1.
  - apply Z.eqb_eq in E1. unfold zlen in E1. rewrite app_length in E1. cbn [length] in E1.
    destruct l1; [|cbn [length] in E1; lia]. destruct l2; [reflexivity|cbn [length] in E1; lia].
  - rewrite firstn_len_app, skipn_Slen_app. reflexivity.
Qed.

Lemma NoDup_snoc : forall A (l : list A) x, NoDup l -> ~ In x l -> NoDup (l ++ [x]).
Proof.
  intros A l x Hnd Hni. eapply Permutation_NoDup; [apply Permutation_cons_append|].
  constructor; assumption.
Qed.

Lemma lmap_put_sim : forall k v s, lmI s ->
  lmI (lmap_put k v s) /\ fst (lmap_put k v s) = ins_list Z.compare k v (fst s).
Proof.
  intros k v [tbl ord] (Hs & Hnd & Hk). cbn [fst snd] in *. unfold lmap_put, lmI.
  assert (Hs' : ksorted Z.compare (hput k v tbl)) by (apply (ins_list_sorted Z.compare Zcompare_SWO); exact Hs).
  destruct (hmem k tbl) eqn:M; cbn [fst snd]; (split; [|reflexivity]); (split; [exact Hs'|]).
  - split; [exact Hnd|]. intros x. rewrite keys_hput by exact Hs. rewrite Hk.
    rewrite hmem_mem in M. apply key_in_iff_mem in M. split; [tauto|]. intros [->|H]; assumption.
  - rewrite hmem_mem in M. rewrite sll_add_one. split.
    + apply NoDup_snoc; [exact Hnd|].
      intros Hin. apply Hk in Hin. apply key_in_iff_mem in Hin. congruence.
    + intros x. rewrite keys_hput by exact Hs. rewrite in_app_iff, Hk. cbn [In]. intuition.
Qed.

Lemma lmap_remove_sim : forall k s, lmI s ->
  lmI (lmap_remove k s) /\ fst (lmap_remove k s) = del_list Z.compare k (fst s).
Proof.
  intros k [tbl ord] (Hs & Hnd & Hk). cbn [fst snd] in *. unfold lmap_remove.
  destruct (hmem k tbl) eqn:M; cbn [fst snd]; rewrite hmem_mem in M.
  - split; [|reflexivity]. unfold lmI. cbn [fst snd].
    assert (Hin : In k ord) by (apply Hk, key_in_iff_mem; exact M).
    destruct (dll_remove_index k ord Hin) as (l1 & l2 & E & Hni & ->). subst ord.
    split; [apply (del_list_sorted Z.compare); exact Hs|].
    split; [eapply NoDup_remove_1; exact Hnd|].
    intros x. rewrite keys_hdel by exact Hs. rewrite <- Hk.
    apply NoDup_remove_2 in Hnd. rewrite !in_app_iff in *. cbn [In]. split.
    + intros H. split; [intros ->; tauto | tauto].
    + intros [Hne [H|[H|H]]]; [tauto|congruence|tauto].
  - split; [split; [exact Hs|split; assumption]|].
    symmetry. apply (del_absent Z.compare); assumption.
Qed.

Lemma lmap_puts_sim : forall es s, lmI s ->
  lmI (fold_left (fun acc e => lmap_put (fst e) (snd e) acc) es s) /\
  fst (fold_left (fun acc e => lmap_put (fst e) (snd e) acc) es s) =
  fold_left (mstep Z.compare) (puts es) (fst s).
Proof.
  induction es as [|e es IH]; intros s Hs; [split; [exact Hs|reflexivity]|].
  cbn [fold_left puts map mstep].
  destruct (lmap_put_sim (fst e) (snd e) s Hs) as [H1 E1].
  destruct (IH _ H1) as [H2 E2]. split; [exact H2|]. rewrite E2, E1. reflexivity.
Qed.

Lemma hputs_sim : forall es l, ksorted Z.compare l ->
  ksorted Z.compare (fold_left (fun acc e => hput (fst e) (snd e) acc) es l) /\
  fold_left (fun acc e => hput (fst e) (snd e) acc) es l = fold_left (mstep Z.compare) (puts es) l.
Proof.
  induction es as [|e es IH]; intros l Hs; [split; [exact Hs|reflexivity]|].
  cbn [fold_left puts map mstep]. apply IH. apply (ins_list_sorted Z.compare Zcompare_SWO). exact Hs.
Qed.

(* entries of a LinkedHashMap: each key of the ordering list with its table value *)
Lemma lmap_value_find : forall tbl k,
  lmap_value tbl k = match find_list Z.compare k tbl with Some e => snd e | None => 0 end.
Proof.
  intros tbl k. unfold lmap_value. rewrite hget_find.
  destruct (find_list Z.compare k tbl); reflexivity.
Qed.

Lemma lmap_entries_perm : forall tbl ord, lmI (tbl, ord) -> Permutation (lmap_entries tbl ord) tbl.
Proof.
  intros tbl ord (Hs & Hnd & Hk). cbn [fst snd] in *.
  assert (Hp : Permutation ord (map fst tbl)).
  { apply NoDup_Permutation; [exact Hnd | apply ksortedZ_keys_nodup; exact Hs | exact Hk]. }
  unfold lmap_entries. rewrite Hp. rewrite map_map.
  assert (E : map (fun x : Z * Z => (fst x, lmap_value tbl (fst x))) tbl = tbl).
  { transitivity (map (fun x : Z * Z => x) tbl); [|apply map_id]. apply map_ext_in. intros e He.
    rewrite lmap_value_find.
    rewrite (find_list_In Z.compare Zcompare_SWO (fst e) tbl e Hs He (Z.compare_refl _)).
    destruct e; reflexivity. }
  rewrite E. apply Permutation_refl.
Qed.

(* ================================================================================================ *)
(* 3. the machine                                                                                   *)
(* ================================================================================================ *)
Module Generic.
Section Machine.

(* ---------- the B-tree interface (see the instantiation at the end of the file) ---------- *)
Variable btI : nat -> cmpf -> option BT.node -> Prop.
Hypothesis btI_empty : forall m cmp, btI m cmp None.
Hypothesis bt_put_total : forall m cmp, (3 <= m)%nat -> SWO cmp -> forall k v r, btI m cmp r ->
  exists r' b, BT.put m cmp (bt_fuel r) (k, v) r = Some (r', b) /\ btI m cmp r' /\
               bt_inorder r' = ins_list cmp k v (bt_inorder r) /\
               b = negb (mem_list cmp k (bt_inorder r)).
Hypothesis bt_remove_total : forall m cmp, (3 <= m)%nat -> SWO cmp -> forall k r, btI m cmp r ->
  exists r' b, BT.remove m cmp (bt_fuel r) k r = Some (r', b) /\ btI m cmp r' /\
               bt_inorder r' = del_list cmp k (bt_inorder r) /\
               b = mem_list cmp k (bt_inorder r).
Hypothesis bt_get_spec : forall m cmp, (3 <= m)%nat -> SWO cmp -> forall k r, btI m cmp r ->
  bt_get cmp k r = find_list cmp k (bt_inorder r).
Hypothesis bt_sorted : forall m cmp, (3 <= m)%nat -> SWO cmp -> forall r, btI m cmp r ->
  ksorted cmp (bt_inorder r).
Hypothesis bt_left_right : forall m cmp, (3 <= m)%nat -> SWO cmp -> forall n, btI m cmp (Some n) ->
  BT.left_entry n = hd_error (BT.inorder n) /\ BT.right_entry n = last_opt (BT.inorder n).
Hypothesis bt_root_nonempty : forall m cmp, (3 <= m)%nat -> SWO cmp -> forall n, btI m cmp (Some n) ->
  BT.entries n <> [].

Section BTK.
Variable m : nat.
Variable cmp : cmpf.
Hypothesis Hm : (3 <= m)%nat.
Hypothesis Hswo : SWO cmp.

Definition btS (r : option BT.node) (n : Z) : Prop :=
  btI m cmp r /\ n = Z.of_nat (length (bt_inorder r)).

Lemma bt_put_sim : forall k v r n, btS r n ->
  exists r' n', bt_put m cmp k v r n = Some (r', n') /\ btS r' n' /\
                bt_inorder r' = ins_list cmp k v (bt_inorder r).
Proof.
  intros k v r n (HI & Hn).
  destruct (bt_put_total m cmp Hm Hswo k v r HI) as (r' & b & Hput & HI' & Hin & Hb).
  unfold bt_put. rewrite Hput. do 2 eexists. split; [reflexivity|].
  split; [|exact Hin]. split; [exact HI'|].
  rewrite Hin, (len_ins cmp Hswo) by (eapply bt_sorted; eassumption). rewrite <- Hb, Hn. reflexivity.
Qed.

Lemma bt_remove_sim : forall k r n, btS r n ->
  exists r' n', bt_remove m cmp k r n = Some (r', n') /\ btS r' n' /\
                bt_inorder r' = del_list cmp k (bt_inorder r).
Proof.
  intros k r n (HI & Hn).
  destruct (bt_remove_total m cmp Hm Hswo k r HI) as (r' & b & Hrm & HI' & Hin & Hb).
  unfold bt_remove. rewrite Hrm. do 2 eexists. split; [reflexivity|].
  split; [|exact Hin]. split; [exact HI'|].
  rewrite Hin, (len_del cmp Hswo) by (eapply bt_sorted; eassumption). rewrite <- Hb, Hn. reflexivity.
Qed.

Lemma bt_puts_sim : forall es r n, btS r n ->
  exists r' n', bt_puts m cmp es r n = Some (r', n') /\ btS r' n' /\
                bt_inorder r' = fold_left (mstep cmp) (puts es) (bt_inorder r).
Proof.
  induction es as [|[k v] es IH]; intros r n Hs.
  - exists r, n. split; [reflexivity|]. split; [exact Hs|reflexivity].
  - destruct (bt_put_sim k v r n Hs) as (r1 & n1 & E1 & H1 & I1).
    destruct (IH r1 n1 H1) as (r2 & n2 & E2 & H2 & I2).
    exists r2, n2. cbn [bt_puts]. rewrite E1. split; [exact E2|]. split; [exact H2|].
    rewrite I2, I1. reflexivity.
Qed.

(* a removal that reports "not removed" hands back the very same node *)
Lemma bt_del_false : forall fuel k n n', BT.del m cmp fuel k n = Some (n', false) -> n' = n.
Proof.
  induction fuel as [|f IH]; intros k [es cs] n' H; [discriminate|].
  cbn [BT.del] in H. destruct (BT.search cmp k es) as [pos found].
  destruct cs as [|c0 cs0].
  - destruct found; inversion H; reflexivity.
  - destruct (nth_error (c0 :: cs0) pos) as [c|]; [|discriminate].
    destruct found.
    + destruct (BT.delmax m f c) as [[c' pr]|]; [|discriminate].
      destruct (BT.rebalance_child m _ _ pos); inversion H.
    + destruct (BT.del m cmp f k c) as [[c' b]|]; [|discriminate].
      destruct b; [|inversion H; reflexivity].
      destruct (BT.rebalance_child m _ _ pos); inversion H.
Qed.
End BTK.

(* ---------- the machine invariant of the six kinds ---------- *)
Definition inv (c : config) (s : state) : Prop :=
  match ckind c, s with
  | (RedBlackTree | TreeMap), StRB t n => rbI (kc c) (t, n)
  | AVLTree, StAVL t n => avlI (kc c) t n
  | BTree, StBT r n => btS (bt_m c) (kc c) r n
  | HashMap, StHMap l => ksorted Z.compare l
  | LinkedHashMap, StLMap tbl ord => lmI (tbl, ord)
  | _, _ => False
  end.

(* the abstract content: the in-order entry list (the canonical table for LinkedHashMap) *)
Definition abs (c : config) (s : state) : list entry :=
  match s with
  | StLMap tbl _ => tbl
  | _ => entries_of c s
  end.

Lemma valid_bt_m : forall c, valid c -> ckind c = BTree -> (3 <= bt_m c)%nat.
Proof. intros c [_ H] K. specialize (H K). unfold bt_m. lia. Qed.

Lemma inv_not_crash : forall c s, inv c s -> s <> StCrash.
Proof. intros c s H E. subst s. unfold inv in H. destruct (ckind c); exact H. Qed.

Lemma inv_init : forall c, valid c -> inv c (init c) /\ abs c (init c) = [].
Proof.
  intros c Hv. pose proof (valid_bt_m c Hv) as Hm. destruct Hv as [Hk Hord].
  unfold inv, init. destruct (ckind c) eqn:K; try discriminate; cbn [abs entries_of].
  - split; [constructor|reflexivity].
  - split; [apply rbI_empty|reflexivity].
  - split; [|reflexivity]. unfold lmI. cbn [fst snd map].
    split; [constructor|]. split; [constructor|]. intros k. reflexivity.
  - split; [apply rbI_empty|reflexivity].
  - split; [|reflexivity]. split; [exact I|]. split; [constructor|reflexivity].
  - specialize (Hord eq_refl). destruct (corder c <? 3) eqn:E; [apply Z.ltb_lt in E; lia|].
    split; [|reflexivity]. split; [apply btI_empty|reflexivity].
Qed.

Ltac inv_cases c s Hi K :=
  unfold inv in Hi; destruct (ckind c) eqn:K; try discriminate; destruct s; try contradiction.

Lemma put_entries_sim : forall c es s, valid c -> inv c s ->
  inv c (put_entries c es s) /\
  abs c (put_entries c es s) = fold_left (mstep (cmp_for c)) (puts es) (abs c s).
Proof.
  intros c es s Hv Hi. pose proof (valid_bt_m c Hv) as Hm. destruct Hv as [Hk _].
  unfold cmp_for. inv_cases c s Hi K; unfold inv; rewrite K; cbn [put_entries abs entries_of].
  - apply hputs_sim. exact Hi.
  - destruct (rbs_puts_sim (kc c) (kc_SWO c) es (t, n) Hi) as ([t' n'] & E & H' & I').
    rewrite E. cbn [abs entries_of]. split; [exact H'|exact I'].
  - destruct (lmap_puts_sim es (tbl, ord) Hi) as [H' I'].
    destruct (fold_left _ es (tbl, ord)) as [t' o']. cbn [abs]. split; [exact H'|exact I'].
  - destruct (rbs_puts_sim (kc c) (kc_SWO c) es (t, n) Hi) as ([t' n'] & E & H' & I').
    rewrite E. cbn [abs entries_of]. split; [exact H'|exact I'].
  - destruct (avl_puts_sim (kc c) (kc_SWO c) es t n Hi) as (t' & n' & E & H' & I').
    rewrite E. cbn [abs entries_of]. split; [exact H'|exact I'].
  - destruct (bt_puts_sim (bt_m c) (kc c) (Hm eq_refl) (kc_SWO c) es r n Hi) as (r' & n' & E & H' & I').
    rewrite E. cbn [abs entries_of]. split; [exact H'|exact I'].
Qed.

(* ---------- one step ---------- *)
Definition mutator (o : op) : bool :=
  match o with Put _ _ | Remove _ | Clear | FromJSON _ => true | _ => false end.

(* every other operation (observers, operations the kind does not offer) leaves the state alone *)
Lemma step_observer : forall c s o, inv c s -> mutator o = false -> fst (fst (step c s o)) = s.
Proof.
  intros c s o Hi Hmu.
  inv_cases c s Hi K; destruct o; try discriminate Hmu; unfold step; rewrite ?K;
    try reflexivity; cbn [has_enumerable negb]; try reflexivity;
    destruct (each_of _ _); reflexivity.
Qed.

Lemma step_clear : forall c s, inv c s -> fst (fst (step c s Clear)) = init c.
Proof. intros c s Hi. inv_cases c s Hi K; reflexivity. Qed.

Lemma is_kv_map_kind : forall k, map_kind k = true -> is_kv k = true.
Proof. intros k. destruct k; cbn; congruence. Qed.

Lemma step_from_json : forall c s d, valid c -> inv c s ->
  fst (fst (step c s (FromJSON d))) =
  match d with
  | DObj kvs => put_entries c (json_entries c kvs) (init c)
  | DNull => init c
  | _ => s
  end.
Proof.
  intros c s d [Hk _] Hi. pose proof (is_kv_map_kind _ Hk) as Hkv.
  assert (E : from_json c d s =
              match d with
              | DObj kvs => (put_entries c (json_entries c kvs) (init c), true)
              | DNull => (init c, true)
              | _ => (s, false)
              end).
  { unfold from_json, json_entries. rewrite Hkv.
    inv_cases c s Hi K; destruct d; reflexivity. }
  assert (S : step c s (FromJSON d) = let '(s', ok) := from_json c d s in (s', obool ok, onone)).
  { inv_cases c s Hi K; reflexivity. }
  rewrite S, E. destruct d; reflexivity.
Qed.

Lemma step_sim : forall c s o, valid c -> inv c s ->
  inv c (fst (fst (step c s o))) /\
  abs c (fst (fst (step c s o))) = fold_left (mstep (cmp_for c)) (hist1 c o) (abs c s).
Proof.
  intros c s o Hv Hi.
  destruct (mutator o) eqn:Hmu.
  2:{ rewrite (step_observer c s o Hi Hmu). split; [exact Hi|]. destruct o; try discriminate Hmu; reflexivity. }
  destruct o; try discriminate Hmu.
  - (* Put *)
    pose proof (valid_bt_m c Hv) as Hm. unfold cmp_for.
    inv_cases c s Hi K; unfold inv; rewrite K; unfold step; rewrite ?K; cbn [hist1 fold_left mstep].
    + cbn [fst abs entries_of]. split; [apply (ins_list_sorted Z.compare Zcompare_SWO); exact Hi|reflexivity].
    + destruct (rbs_put_sim (kc c) (kc_SWO c) k v (t, n) Hi) as ([t' n'] & E & H' & I').
      rewrite E. cbn [fst abs entries_of]. split; [exact H'|exact I'].
    + destruct (lmap_put_sim k v (tbl, ord) Hi) as [H' I'].
      destruct (lmap_put k v (tbl, ord)) as [t' o']. cbn [fst abs]. split; [exact H'|exact I'].
    + destruct (rbs_put_sim (kc c) (kc_SWO c) k v (t, n) Hi) as ([t' n'] & E & H' & I').
      rewrite E. cbn [fst abs entries_of]. split; [exact H'|exact I'].
    + destruct (avl_put_sim (kc c) (kc_SWO c) k v t n Hi) as (t' & n' & E & H' & I').
      rewrite E. cbn [fst abs entries_of]. split; [exact H'|exact I'].
    + destruct (bt_put_sim (bt_m c) (kc c) (Hm eq_refl) (kc_SWO c) k v r n Hi) as (r' & n' & E & H' & I').
      rewrite E. cbn [fst abs entries_of]. split; [exact H'|exact I'].
  - (* Remove *)
    pose proof (valid_bt_m c Hv) as Hm. unfold cmp_for.
    inv_cases c s Hi K; unfold inv; rewrite K; unfold step; rewrite ?K; cbn [hist1 fold_left mstep].
    + cbn [fst abs entries_of]. split; [apply (del_list_sorted Z.compare); exact Hi|reflexivity].
    + destruct (rbs_remove_sim (kc c) (kc_SWO c) k (t, n) Hi) as ([t' n'] & E & H' & I').
      rewrite E. cbn [fst abs entries_of]. split; [exact H'|exact I'].
    + destruct (lmap_remove_sim k (tbl, ord) Hi) as [H' I'].
      destruct (lmap_remove k (tbl, ord)) as [t' o']. cbn [fst abs]. split; [exact H'|exact I'].
    + destruct (rbs_remove_sim (kc c) (kc_SWO c) k (t, n) Hi) as ([t' n'] & E & H' & I').
      rewrite E. cbn [fst abs entries_of]. split; [exact H'|exact I'].
    + destruct (avl_remove_sim (kc c) (kc_SWO c) k t n Hi) as (t' & n' & E & H' & I').
      rewrite E. cbn [fst abs entries_of]. split; [exact H'|exact I'].
    + destruct (bt_remove_sim (bt_m c) (kc c) (Hm eq_refl) (kc_SWO c) k r n Hi) as (r' & n' & E & H' & I').
      rewrite E. cbn [fst abs entries_of]. split; [exact H'|exact I'].
  - (* Clear *)
    rewrite (step_clear c s Hi). cbn [hist1 fold_left mstep]. apply inv_init. exact Hv.
  - (* FromJSON *)
    rewrite (step_from_json c s d Hv Hi). destruct (inv_init c Hv) as [Hi0 Ha0].
    destruct d as [| |vs|kvs]; cbn [hist1 fold_left mstep].
    + split; [exact Hi|reflexivity].
    + split; [exact Hi0|exact Ha0].
    + split; [exact Hi|reflexivity].
    + destruct (put_entries_sim c (json_entries c kvs) (init c) Hv Hi0) as [H' I'].
      split; [exact H'|]. rewrite I', Ha0. reflexivity.
Qed.

(* ---------- all runs ---------- *)
Lemma run_from_sim : forall c ops s, valid c -> inv c s ->
  inv c (run_from c s ops) /\
  abs c (run_from c s ops) = fold_left (mstep (cmp_for c)) (hist c ops) (abs c s).
Proof.
  intros c ops. induction ops as [|o ops IH]; intros s Hv Hi; [split; [exact Hi|reflexivity]|].
  unfold run_from, hist. cbn [fold_left flat_map]. rewrite fold_left_app.
  destruct (step_sim c s o Hv Hi) as [H1 E1].
  destruct (IH _ Hv H1) as [H2 E2]. unfold run_from, hist in H2, E2.
  split; [exact H2|]. rewrite E2, E1. reflexivity.
Qed.

Theorem run_sim : forall c ops, valid c ->
  inv c (run c ops) /\ abs c (run c ops) = mrun (cmp_for c) (hist c ops).
Proof.
  intros c ops Hv. destruct (inv_init c Hv) as [Hi0 Ha0].
  destruct (run_from_sim c ops (init c) Hv Hi0) as [H E].
  split; [exact H|]. unfold run. rewrite E, Ha0. reflexivity.
Qed.

Theorem run_not_crash : forall c ops, valid c -> run c ops <> StCrash.
Proof. intros c ops Hv. eapply inv_not_crash. apply run_sim. exact Hv. Qed.

(* ---------- what the observers return, in terms of the abstract content ---------- *)
Lemma abs_entries : forall c s, inv c s -> ckind c <> LinkedHashMap -> abs c s = entries_of c s.
Proof. intros c s Hi Hk. inv_cases c s Hi K; try reflexivity; congruence. Qed.

Lemma abs_sorted : forall c s, valid c -> inv c s -> ksorted (cmp_for c) (abs c s).
Proof.
  intros c s Hv Hi. pose proof (valid_bt_m c Hv) as Hm. unfold cmp_for.
  inv_cases c s Hi K; cbn [abs entries_of].
  - exact Hi.
  - apply Hi.
  - apply Hi.
  - apply Hi.
  - apply Hi.
  - destruct Hi as [HI _]. eapply bt_sorted; [exact (Hm eq_refl)|apply kc_SWO|exact HI].
Qed.

Lemma opt_snd_match : forall (o : option (Z * Z)),
  match o with Some (_, v) => Some v | None => None end = option_map snd o.
Proof. intros [[a b]|]; reflexivity. Qed.

Lemma get_abs : forall c s k, valid c -> inv c s ->
  get_of c s k = oopt (option_map snd (find_list (cmp_for c) k (abs c s))).
Proof.
  intros c s k Hv Hi. pose proof (valid_bt_m c Hv) as Hm. unfold cmp_for.
  inv_cases c s Hi K; cbn [get_of abs entries_of].
  - rewrite hget_find. reflexivity.
  - rewrite (rbs_get_spec (kc c) (kc_SWO c)) by apply Hi. reflexivity.
  - rewrite hget_find. reflexivity.
  - rewrite (rbs_get_spec (kc c) (kc_SWO c)) by apply Hi. reflexivity.
  - destruct Hi as (_ & Hb & _).
    rewrite (AVLMap.lookup_spec (kc c) (kc_SWO c) k t Hb), opt_snd_match. reflexivity.
  - destruct Hi as [HI _].
    rewrite (bt_get_spec (bt_m c) (kc c) (Hm eq_refl) (kc_SWO c) k r HI), opt_snd_match. reflexivity.
Qed.

Lemma size_abs : forall c s, valid c -> inv c s -> size_of c s = Z.of_nat (length (abs c s)).
Proof.
  intros c s Hv Hi. inv_cases c s Hi K; cbn [size_of abs entries_of].
  - reflexivity.
  - apply Hi.
  - (* LinkedHashMap reports the size of the ordering list *)
    pose proof (lmap_entries_perm tbl ord Hi) as Hp. apply Permutation_length in Hp.
    unfold lmap_entries in Hp. rewrite map_length in Hp. unfold zlen. rewrite Hp. reflexivity.
  - apply Hi.
  - apply Hi.
  - apply Hi.
Qed.

(* Keys() and Values() are the two projections of one entry sequence: position-aligned *)
Lemma values_entries : forall c s, inv c s -> values_of c s = map snd (entries_of c s).
Proof.
  intros c s Hi. inv_cases c s Hi K; cbn [values_of entries_of]; rewrite ?K; try reflexivity.
  unfold lmap_entries. rewrite map_map. reflexivity.
Qed.

Lemma entries_perm_abs : forall c s, inv c s -> Permutation (entries_of c s) (abs c s).
Proof.
  intros c s Hi. inv_cases c s Hi K; cbn [abs entries_of]; try apply Permutation_refl.
  apply lmap_entries_perm. exact Hi.
Qed.

Lemma keys_linked : forall c tbl ord, keys_of c (StLMap tbl ord) = ord.
Proof.
  intros c tbl ord. unfold keys_of. cbn [entries_of]. unfold lmap_entries. rewrite map_map. cbn [fst].
  apply map_id.
Qed.

Lemma NoDup_NoDupA_Z : forall l : list Z, NoDup l -> NoDupA (fun a b => Z.compare a b = Eq) l.
Proof.
  intros l H. induction H as [|x l Hx Hnd IH]; constructor; [|exact IH].
  intros Hin. apply InA_alt in Hin. destruct Hin as (y & Hxy & Hy). apply Z.compare_eq in Hxy.
  subst y. exact (Hx Hy).
Qed.

Lemma keys_nodupA : forall c s, valid c -> inv c s ->
  NoDupA (fun a b => cmp_for c a b = Eq) (keys_of c s).
Proof.
  intros c s Hv Hi. destruct (kind_eq_dec_lhm c) as [K|K].
  - pose proof Hi as Hi'. unfold cmp_for. rewrite K. unfold inv in Hi'. rewrite K in Hi'.
    destruct s; try contradiction. rewrite keys_linked. apply NoDup_NoDupA_Z. apply Hi'.
  - unfold keys_of. rewrite <- (abs_entries c s Hi K). apply ksorted_keys_nodupA.
    apply abs_sorted; assumption.
Qed.

(* ================================================================================================ *)
(* 4. refinement theorems and property C01                                                          *)
(* ================================================================================================ *)
Theorem refines_tree : forall c ops, valid c -> ckind c <> LinkedHashMap ->
  entries_of c (run c ops) = mrun (cmp_for c) (hist c ops).
Proof.
  intros c ops Hv K. destruct (run_sim c ops Hv) as [Hi Ha].
  rewrite <- (abs_entries c _ Hi K). exact Ha.
Qed.

Theorem refines_linked : forall c ops, valid c -> ckind c = LinkedHashMap ->
  Permutation (entries_of c (run c ops)) (mrun Z.compare (hist c ops)) /\
  NoDup (keys_of c (run c ops)).
Proof.
  intros c ops Hv K. destruct (run_sim c ops Hv) as [Hi Ha].
  assert (Ec : cmp_for c = Z.compare) by (unfold cmp_for; rewrite K; reflexivity).
  rewrite Ec in Ha. split.
  - rewrite <- Ha. apply entries_perm_abs. exact Hi.
  - unfold inv in Hi. rewrite K in Hi. destruct (run c ops); try contradiction.
    rewrite keys_linked. apply Hi.
Qed.

(* all six kinds at once: the entries are a permutation of the abstract state (equal for five) *)
Theorem refines_perm : forall c ops, valid c ->
  Permutation (entries_of c (run c ops)) (mrun (cmp_for c) (hist c ops)).
Proof.
  intros c ops Hv. destruct (run_sim c ops Hv) as [Hi Ha]. rewrite <- Ha.
  apply entries_perm_abs. exact Hi.
Qed.

(* C01, Get: purely in terms of the history *)
Theorem C01_get : forall c ops k, valid c ->
  get_of c (run c ops) k = oopt (option_map snd (last_live (cmp_for c) (rev (hist c ops)) k)).
Proof.
  intros c ops k Hv. destruct (run_sim c ops Hv) as [Hi Ha].
  rewrite (get_abs c _ k Hv Hi), Ha, (mrun_last_live _ (cmp_for_SWO c)). reflexivity.
Qed.

(* C01, Size *)
Theorem C01_size : forall c ops, valid c ->
  size_of c (run c ops) = Z.of_nat (length (mrun (cmp_for c) (hist c ops))).
Proof.
  intros c ops Hv. destruct (run_sim c ops Hv) as [Hi Ha].
  rewrite (size_abs c _ Hv Hi), Ha. reflexivity.
Qed.

(* C01, Keys / Values, position-aligned (five kinds: exact lists) *)
Theorem C01_keys_values : forall c ops, valid c -> ckind c <> LinkedHashMap ->
  keys_of c (run c ops) = map fst (mrun (cmp_for c) (hist c ops)) /\
  values_of c (run c ops) = map snd (mrun (cmp_for c) (hist c ops)).
Proof.
  intros c ops Hv K. destruct (run_sim c ops Hv) as [Hi _].
  rewrite (values_entries c _ Hi). unfold keys_of. rewrite (refines_tree c ops Hv K). split; reflexivity.
Qed.

(* an entry is enumerated iff it is the last live Put of its key (all six kinds) *)
Theorem C01_entry_iff : forall c ops e, valid c ->
  In e (entries_of c (run c ops)) <-> last_live (cmp_for c) (rev (hist c ops)) (fst e) = Some e.
Proof.
  intros c ops e Hv. rewrite <- (mrun_In_last_live _ (cmp_for_SWO c)).
  pose proof (refines_perm c ops Hv) as Hp. split; intros H.
  - eapply Permutation_in; eassumption.
  - eapply Permutation_in; [apply Permutation_sym; exact Hp|exact H].
Qed.

(* Keys() and Values() are the projections of one entry sequence, so the i-th value belongs to the
   i-th key; and that value is the one stored by the last live Put of that key (all six kinds) *)
Theorem C01_aligned : forall c ops, valid c ->
  keys_of c (run c ops) = map fst (entries_of c (run c ops)) /\
  values_of c (run c ops) = map snd (entries_of c (run c ops)) /\
  values_of c (run c ops) =
    map (fun k => match last_live (cmp_for c) (rev (hist c ops)) k with Some e => snd e | None => 0 end)
        (keys_of c (run c ops)).
Proof.
  intros c ops Hv. destruct (run_sim c ops Hv) as [Hi _].
  split; [reflexivity|]. split; [apply values_entries; exact Hi|].
  rewrite (values_entries c _ Hi). unfold keys_of. rewrite map_map.
  apply map_ext_in. intros e He. apply (C01_entry_iff c ops e Hv) in He. rewrite He. reflexivity.
Qed.

(* every key exactly once: no two enumerated keys compare Eq *)
Theorem C01_nodup : forall c ops, valid c ->
  NoDupA (fun a b => cmp_for c a b = Eq) (keys_of c (run c ops)).
Proof. intros c ops Hv. apply keys_nodupA; [exact Hv|]. apply run_sim. exact Hv. Qed.

(* LinkedHashMap: same content in some order (the order is property C09) *)
Theorem C01_linked : forall c ops, valid c -> ckind c = LinkedHashMap ->
  Permutation (entries_of c (run c ops)) (mrun Z.compare (hist c ops)) /\
  Permutation (keys_of c (run c ops)) (map fst (mrun Z.compare (hist c ops))) /\
  Permutation (values_of c (run c ops)) (map snd (mrun Z.compare (hist c ops))) /\
  NoDup (keys_of c (run c ops)).
Proof.
  intros c ops Hv K. destruct (refines_linked c ops Hv K) as [Hp Hnd].
  destruct (run_sim c ops Hv) as [Hi _].
  split; [exact Hp|]. split; [unfold keys_of; apply Permutation_map; exact Hp|].
  split; [rewrite (values_entries c _ Hi); apply Permutation_map; exact Hp|exact Hnd].
Qed.

(* removing an absent key changes nothing: the very same STATE (no rebalancing, no recolouring) *)
Lemma oopt_nil : forall o, oopt o = OL [] -> o = None.
Proof. intros [v|] H; [discriminate|reflexivity]. Qed.

Lemma opt_match_none : forall (o : option (Z * Z)),
  match o with Some (_, v) => Some v | None => None end = None -> o = None.
Proof. intros [[a b]|] H; [discriminate|reflexivity]. Qed.

Lemma remove_absent_state : forall c s k, valid c -> inv c s ->
  get_of c s k = OL [] -> fst (fst (step c s (Remove k))) = s.
Proof.
  intros c s k Hv Hi Hg. pose proof (valid_bt_m c Hv) as Hm.
  inv_cases c s Hi K; cbn [get_of] in Hg; apply oopt_nil in Hg; unfold step; rewrite ?K.
  - (* HashMap *)
    cbn [fst]. f_equal. unfold hdel. apply (del_absent Z.compare); [exact Hi|].
    unfold mem_list. rewrite hget_find in Hg. destruct (find_list Z.compare k l); [discriminate|reflexivity].
  - (* TreeMap *)
    unfold rbs_get in Hg. cbn [fst] in Hg. apply opt_match_none in Hg.
    unfold rbs_remove. cbn [fst snd]. rewrite (rb_remove_absent (kc c) k t Hg). reflexivity.
  - (* LinkedHashMap *)
    unfold lmap_remove. rewrite hmem_mem. unfold mem_list. rewrite hget_find in Hg.
    destruct (find_list Z.compare k tbl); [discriminate|reflexivity].
  - (* RedBlackTree *)
    unfold rbs_get in Hg. cbn [fst] in Hg. apply opt_match_none in Hg.
    unfold rbs_remove. cbn [fst snd]. rewrite (rb_remove_absent (kc c) k t Hg). reflexivity.
  - (* AVLTree *)
    apply opt_match_none in Hg. unfold avl_remove.
    rewrite (avl_remove_absent (kc c) k t Hg). reflexivity.
  - (* BTree *)
    apply opt_match_none in Hg. destruct Hi as [HI Hn].
    rewrite (bt_get_spec (bt_m c) (kc c) (Hm eq_refl) (kc_SWO c) k r HI) in Hg.
    destruct (bt_remove_total (bt_m c) (kc c) (Hm eq_refl) (kc_SWO c) k r HI) as (r' & b & Hrm & _ & _ & Hb).
    unfold mem_list in Hb. rewrite Hg in Hb. subst b.
    assert (Er : r' = r).
    { destruct r as [nd|]; cbn [BT.remove] in Hrm; [|inversion Hrm; reflexivity].
      pose proof (bt_root_nonempty (bt_m c) (kc c) (Hm eq_refl) (kc_SWO c) nd HI) as Hne.
      destruct (BT.del (bt_m c) (kc c) (bt_fuel (Some nd)) k nd) as [[n' b']|] eqn:Ed; [|discriminate].
      assert (b' = false).
      { destruct n' as [[|e0 es0] [|c0 cs0]]; inversion Hrm; reflexivity. }
      subst b'. apply bt_del_false in Ed. subst n'.
      destruct nd as [[|e0 es0] cs0]; [cbn in Hne; congruence|].
      inversion Hrm; reflexivity. }
    subst r'. unfold bt_remove. rewrite Hrm. reflexivity.
Qed.

Theorem C01_remove_absent : forall c ops k, valid c ->
  get_of c (run c ops) k = OL [] ->
  fst (fst (step c (run c ops) (Remove k))) = run c ops.
Proof. intros c ops k Hv. apply remove_absent_state; [exact Hv|]. apply run_sim. exact Hv. Qed.

(* ================================================================================================ *)
(* 5. property C02: the ordered kinds                                                               *)
(* ================================================================================================ *)
(* ... and they are exactly the components of the observation vector *)
Lemma observe_left_right : forall c s, ordered_kind (ckind c) = true -> inv c s ->
  In (TLeft, oopt2 (left_of s)) (observe c 1 s) /\ In (TRight, oopt2 (right_of s)) (observe c 1 s).
Proof.
  intros c s Ho Hi.
  inv_cases c s Hi K; try discriminate Ho; unfold observe; rewrite K;
    change (1 <=? 1) with true; cbv iota; cbn [andb is_kv];
    rewrite !in_app_iff; cbn [left_of right_of];
    (split; do 4 right; left; [left; reflexivity | right; left; reflexivity]).
Qed.

Lemma observe_floor_ceiling : forall c s, ordered_kind (ckind c) = true -> ckind c <> BTree -> inv c s ->
  In (TFloor, OL (map (fun p => oopt2 (floor_of c s p)) (probes c))) (observe c 1 s) /\
  In (TCeiling, OL (map (fun p => oopt2 (ceiling_of c s p)) (probes c))) (observe c 1 s).
Proof.
  intros c s Ho Hb Hi.
  inv_cases c s Hi K; try discriminate Ho; try congruence; unfold observe; rewrite K;
    change (1 <=? 1) with true; cbv iota; cbn [andb is_kv];
    rewrite !in_app_iff; cbn [floor_of ceiling_of];
    (split; do 4 right; left; [do 2 right; left; reflexivity | do 3 right; left; reflexivity]).
Qed.

Lemma ordered_cmp_for : forall c, ordered_kind (ckind c) = true -> cmp_for c = kc c.
Proof. intros c H. unfold cmp_for. destruct (ckind c); try discriminate H; reflexivity. Qed.

Lemma ordered_not_linked : forall c, ordered_kind (ckind c) = true -> ckind c <> LinkedHashMap.
Proof. intros c H E. rewrite E in H. discriminate. Qed.

Lemma nav_abs : forall c s, valid c -> ordered_kind (ckind c) = true -> inv c s ->
  left_of s = hd_error (entries_of c s) /\ right_of s = last_opt (entries_of c s).
Proof.
  intros c s Hv Ho Hi. pose proof (valid_bt_m c Hv) as Hm.
  inv_cases c s Hi K; try discriminate Ho; cbn [left_of right_of entries_of].
  - split; [apply RBMap.leftmost_spec | apply RBMap.rightmost_spec].
  - split; [apply RBMap.leftmost_spec | apply RBMap.rightmost_spec].
  - split; [apply AVLMap.leftmost_spec | apply AVLMap.rightmost_spec].
  - destruct r as [nd|]; [|split; reflexivity]. destruct Hi as [HI _].
    exact (bt_left_right (bt_m c) (kc c) (Hm eq_refl) (kc_SWO c) nd HI).
Qed.

Lemma floor_ceiling_abs : forall c s p, valid c -> ordered_kind (ckind c) = true -> ckind c <> BTree ->
  inv c s ->
  floor_of c s p = floor_list (kc c) p (entries_of c s) /\
  ceiling_of c s p = ceiling_list (kc c) p (entries_of c s).
Proof.
  intros c s p Hv Ho Hb Hi.
  inv_cases c s Hi K; try discriminate Ho; try congruence; cbn [floor_of ceiling_of entries_of].
  - destruct Hi as (_ & Hbst & _).
    split; [apply (RBMap.floor_spec _ (kc_SWO c)) | apply (RBMap.ceiling_spec _ (kc_SWO c))]; exact Hbst.
  - destruct Hi as (_ & Hbst & _).
    split; [apply (RBMap.floor_spec _ (kc_SWO c)) | apply (RBMap.ceiling_spec _ (kc_SWO c))]; exact Hbst.
  - destruct Hi as (_ & Hbst & _).
    split; [apply (AVLMap.floor_spec _ (kc_SWO c)) | apply (AVLMap.ceiling_spec _ (kc_SWO c))]; exact Hbst.
Qed.

(* Keys()/Values() enumerate in strictly ascending comparator order *)
Theorem C02_sorted : forall c ops, valid c -> ordered_kind (ckind c) = true ->
  ksorted (kc c) (entries_of c (run c ops)).
Proof.
  intros c ops Hv Ho. rewrite (refines_tree c ops Hv (ordered_not_linked c Ho)).
  rewrite (ordered_cmp_for c Ho). apply mrun_sorted. apply kc_SWO.
Qed.

Lemma ksorted_keys : forall cmp l, ksorted cmp l -> StronglySorted (fun a b => cmp a b = Lt) (map fst l).
Proof.
  intros cmp l H. induction H as [|x l Hs IH Hx]; cbn [map]; constructor; [exact IH|].
  rewrite Forall_map. exact Hx.
Qed.

Theorem C02_keys_sorted : forall c ops, valid c -> ordered_kind (ckind c) = true ->
  StronglySorted (fun a b => kc c a b = Lt) (keys_of c (run c ops)).
Proof. intros c ops Hv Ho. unfold keys_of. apply ksorted_keys. apply C02_sorted; assumption. Qed.

(* keys that compare equal are one key *)
Theorem C02_one_key : forall c ops, valid c -> ordered_kind (ckind c) = true ->
  NoDupA (fun a b => kc c a b = Eq) (keys_of c (run c ops)).
Proof. intros c ops Hv Ho. rewrite <- (ordered_cmp_for c Ho). apply C01_nodup. exact Hv. Qed.

(* Left / Right *)
Theorem C02_left : forall c ops, valid c -> ordered_kind (ckind c) = true ->
  left_of (run c ops) = hd_error (entries_of c (run c ops)).
Proof. intros c ops Hv Ho. apply nav_abs; [exact Hv|exact Ho|]. apply run_sim. exact Hv. Qed.

Theorem C02_right : forall c ops, valid c -> ordered_kind (ckind c) = true ->
  right_of (run c ops) = last_opt (entries_of c (run c ops)).
Proof. intros c ops Hv Ho. apply nav_abs; [exact Hv|exact Ho|]. apply run_sim. exact Hv. Qed.

(* Left is the least entry, Right the greatest; not-found exactly on the empty container *)
Theorem C02_left_least : forall c ops, valid c -> ordered_kind (ckind c) = true ->
  match left_of (run c ops) with
  | Some e => In e (entries_of c (run c ops)) /\
              forall e', In e' (entries_of c (run c ops)) -> e' = e \/ kc c (fst e) (fst e') = Lt
  | None => entries_of c (run c ops) = []
  end.
Proof.
  intros c ops Hv Ho. rewrite (C02_left c ops Hv Ho).
  pose proof (C02_sorted c ops Hv Ho) as Hs.
  destruct (hd_error (entries_of c (run c ops))) as [e|] eqn:E.
  - exact (hd_least (kc c) _ e Hs E).
  - apply hd_error_None_iff. exact E.
Qed.

Theorem C02_right_greatest : forall c ops, valid c -> ordered_kind (ckind c) = true ->
  match right_of (run c ops) with
  | Some e => In e (entries_of c (run c ops)) /\
              forall e', In e' (entries_of c (run c ops)) -> e' = e \/ kc c (fst e') (fst e) = Lt
  | None => entries_of c (run c ops) = []
  end.
Proof.
  intros c ops Hv Ho. rewrite (C02_right c ops Hv Ho).
  pose proof (C02_sorted c ops Hv Ho) as Hs.
  destruct (last_opt (entries_of c (run c ops))) as [e|] eqn:E.
  - exact (last_greatest (kc c) _ e Hs E).
  - apply last_opt_None. exact E.
Qed.

(* Floor / Ceiling (RedBlackTree, TreeMap, AVLTree: the B-tree has no Floor / Ceiling) *)
Theorem C02_floor : forall c ops p, valid c -> ordered_kind (ckind c) = true -> ckind c <> BTree ->
  floor_of c (run c ops) p = floor_list (kc c) p (entries_of c (run c ops)).
Proof. intros c ops p Hv Ho Hb. apply floor_ceiling_abs; try assumption. apply run_sim. exact Hv. Qed.

Theorem C02_ceiling : forall c ops p, valid c -> ordered_kind (ckind c) = true -> ckind c <> BTree ->
  ceiling_of c (run c ops) p = ceiling_list (kc c) p (entries_of c (run c ops)).
Proof. intros c ops p Hv Ho Hb. apply floor_ceiling_abs; try assumption. apply run_sim. exact Hv. Qed.

(* Floor(p): the greatest entry not above p; nothing lies strictly between it and p;
   not-found exactly when every entry is above p *)
Theorem C02_floor_char : forall c ops p, valid c -> ordered_kind (ckind c) = true -> ckind c <> BTree ->
  match floor_of c (run c ops) p with
  | Some e => In e (entries_of c (run c ops)) /\ kc c p (fst e) <> Lt /\
              (forall e', In e' (entries_of c (run c ops)) -> kc c p (fst e') <> Lt ->
                          e' = e \/ kc c (fst e') (fst e) = Lt) /\
              (forall e', In e' (entries_of c (run c ops)) -> kc c (fst e) (fst e') = Lt ->
                          kc c p (fst e') = Lt)
  | None => forall e', In e' (entries_of c (run c ops)) -> kc c p (fst e') = Lt
  end.
Proof.
  intros c ops p Hv Ho Hb. rewrite (C02_floor c ops p Hv Ho Hb).
  exact (floor_list_spec (kc c) (kc_SWO c) p _ (C02_sorted c ops Hv Ho)).
Qed.

Theorem C02_ceiling_char : forall c ops p, valid c -> ordered_kind (ckind c) = true -> ckind c <> BTree ->
  match ceiling_of c (run c ops) p with
  | Some e => In e (entries_of c (run c ops)) /\ kc c p (fst e) <> Gt /\
              (forall e', In e' (entries_of c (run c ops)) -> kc c p (fst e') <> Gt ->
                          e' = e \/ kc c (fst e) (fst e') = Lt) /\
              (forall e', In e' (entries_of c (run c ops)) -> kc c (fst e') (fst e) = Lt ->
                          kc c p (fst e') = Gt)
  | None => forall e', In e' (entries_of c (run c ops)) -> kc c p (fst e') = Gt
  end.
Proof.
  intros c ops p Hv Ho Hb. rewrite (C02_ceiling c ops p Hv Ho Hb).
  exact (ceiling_list_spec (kc c) (kc_SWO c) p _ (C02_sorted c ops Hv Ho)).
Qed.

(* the navigation results are what the observation vector shows *)
Theorem C02_observed : forall c ops, valid c -> ordered_kind (ckind c) = true ->
  In (TLeft, oopt2 (left_of (run c ops))) (observe c 1 (run c ops)) /\
  In (TRight, oopt2 (right_of (run c ops))) (observe c 1 (run c ops)) /\
  (ckind c <> BTree ->
   In (TFloor, OL (map (fun p => oopt2 (floor_of c (run c ops) p)) (probes c))) (observe c 1 (run c ops)) /\
   In (TCeiling, OL (map (fun p => oopt2 (ceiling_of c (run c ops) p)) (probes c))) (observe c 1 (run c ops))).
Proof.
  intros c ops Hv Ho. destruct (run_sim c ops Hv) as [Hi _].
  destruct (observe_left_right c _ Ho Hi) as [H1 H2]. split; [exact H1|]. split; [exact H2|].
  intros Hb. apply observe_floor_ceiling; assumption.
Qed.

End Machine.
End Generic.

(* ================================================================================================ *)
(* 6. the B-tree interface instantiated with Proofs/BTreeMap.v + Proofs/BTreeInv.v                  *)
(* ================================================================================================ *)
(* shape invariant (all leaves at one depth, entry-count bounds, root non-empty) + sortedness *)
Definition btR (m : nat) (cmp : cmpf) (r : option BT.node) : Prop :=
  BTreeInv.btree_inv m r /\ BTreeInv.sorted_root cmp r.

Lemma btR_empty : forall m cmp, btR m cmp None.
Proof. intros m cmp. split; exact I. Qed.

Lemma bt_fuel_hroot : forall m r, BTreeInv.btree_inv m r -> bt_fuel r = S (BTreeInv.hroot r).
Proof.
  intros m [n|] H; [|reflexivity]. cbn [bt_fuel BTreeInv.hroot].
  rewrite (BTreeInv.btree_inv_height m n H). reflexivity.
Qed.

Lemma bt_inorder_eq : forall r, bt_inorder r = BTreeMap.inorder' r.
Proof. intros [n|]; reflexivity. Qed.

Lemma btR_put_total : forall m cmp, (3 <= m)%nat -> SWO cmp -> forall k v r, btR m cmp r ->
  exists r' b, BT.put m cmp (bt_fuel r) (k, v) r = Some (r', b) /\ btR m cmp r' /\
               bt_inorder r' = ins_list cmp k v (bt_inorder r) /\
               b = negb (mem_list cmp k (bt_inorder r)).
Proof.
  intros m cmp Hm Hswo k v r [Hinv Hs].
  destruct (BTreeInv.put_correct m cmp (k, v) r Hm Hswo Hinv Hs) as (r' & b & Hp & Hinv' & Hs' & Hin & Hb).
  exists r', b. rewrite (bt_fuel_hroot m r Hinv), !bt_inorder_eq.
  split; [exact Hp|]. split; [split; assumption|]. split; [exact Hin|exact Hb].
Qed.

Lemma btR_remove_total : forall m cmp, (3 <= m)%nat -> SWO cmp -> forall k r, btR m cmp r ->
  exists r' b, BT.remove m cmp (bt_fuel r) k r = Some (r', b) /\ btR m cmp r' /\
               bt_inorder r' = del_list cmp k (bt_inorder r) /\
               b = mem_list cmp k (bt_inorder r).
Proof.
  intros m cmp Hm Hswo k r [Hinv Hs].
  destruct (BTreeInv.remove_correct m cmp k r Hm Hswo Hinv Hs) as (r' & b & Hp & Hinv' & Hs' & Hin & Hb).
  exists r', b. rewrite (bt_fuel_hroot m r Hinv), !bt_inorder_eq.
  split; [exact Hp|]. split; [split; assumption|]. split; [exact Hin|exact Hb].
Qed.

Lemma btR_get_spec : forall m cmp, (3 <= m)%nat -> SWO cmp -> forall k r, btR m cmp r ->
  bt_get cmp k r = find_list cmp k (bt_inorder r).
Proof.
  intros m cmp Hm Hswo k [n|] [Hinv Hs]; [|reflexivity].
  cbn [bt_get bt_inorder bt_fuel].
  apply (BTreeMap.get_spec cmp Hswo); [eapply BTreeInv.btree_inv_wf; exact Hinv | exact Hs | lia].
Qed.

Lemma btR_sorted : forall m cmp, (3 <= m)%nat -> SWO cmp -> forall r, btR m cmp r ->
  ksorted cmp (bt_inorder r).
Proof. intros m cmp Hm Hswo [n|] [_ Hs]; [exact Hs|constructor]. Qed.

Lemma cnt_ne_entries : forall m, (3 <= m)%nat -> forall n lo, (1 <= lo)%nat ->
  BTreeInv.cnt m lo n -> BTreeMap.ne_entries n.
Proof.
  intros m Hm n. induction n as [es cs IH] using BTreeInd.node_ind2. intros lo Hlo Hc.
  apply BTreeInv.cnt_inv in Hc. destruct Hc as [Hlen Hf]. constructor.
  - intros E. subst es. cbn [length] in Hlen. lia.
  - rewrite Forall_forall in *. intros c Hc.
    apply (IH c Hc (BT.minEntries m)); [apply BTreeInv.minE_pos; exact Hm | apply Hf; exact Hc].
Qed.

Lemma btR_left_right : forall m cmp, (3 <= m)%nat -> SWO cmp -> forall n, btR m cmp (Some n) ->
  BT.left_entry n = hd_error (BT.inorder n) /\ BT.right_entry n = last_opt (BT.inorder n).
Proof.
  intros m cmp Hm Hswo n [Hinv _].
  pose proof (BTreeInv.btree_inv_wf m n Hinv) as Hwf.
  destruct Hinv as (h & _ & Hc).
  pose proof (cnt_ne_entries m Hm n 1%nat (le_n 1) Hc) as Hne.
  split; [apply BTreeMap.left_entry_spec | apply BTreeMap.right_entry_spec]; assumption.
Qed.

Lemma btR_root_nonempty : forall m cmp, (3 <= m)%nat -> SWO cmp -> forall n, btR m cmp (Some n) ->
  BT.entries n <> [].
Proof.
  intros m cmp Hm Hswo [es cs] [(h & _ & Hc) _]. apply BTreeInv.cnt_inv in Hc.
  destruct Hc as [Hlen _]. cbn [BT.entries]. intros E. subst es. cbn [length] in Hlen. lia.
Qed.

Ltac bt_hyp :=
  first [ exact btR_empty | exact btR_put_total | exact btR_remove_total | exact btR_get_spec
        | exact btR_sorted | exact btR_left_right | exact btR_root_nonempty ].

(* ================================================================================================ *)
(* 7. the final theorems (no hypothesis left)                                                       *)
(* ================================================================================================ *)
(* the machine invariant of the six kinds:
     RedBlackTree / TreeMap : red-black invariant, search-tree order, cached size = number of nodes
     AVLTree                : AVL balance invariant, search-tree order, cached size
     BTree                  : B-tree shape invariant (order m), sortedness, cached size
     HashMap                : canonical (strictly ascending) association list
     LinkedHashMap          : canonical table; ordering list duplicate-free with the table's keys *)
Definition minv : config -> state -> Prop := Generic.inv btR.
Definition mabs : config -> state -> list entry := Generic.abs.

Theorem run_sim : forall c ops, valid c ->
  minv c (run c ops) /\ mabs c (run c ops) = mrun (cmp_for c) (hist c ops).
Proof. intros c ops Hv. apply (Generic.run_sim btR); solve [bt_hyp | exact Hv]. Qed.

Theorem step_preserves : forall c s o, valid c -> minv c s ->
  minv c (fst (fst (step c s o))) /\
  mabs c (fst (fst (step c s o))) = fold_left (mstep (cmp_for c)) (hist1 c o) (mabs c s).
Proof. intros c s o Hv Hi. apply (Generic.step_sim btR); solve [bt_hyp | assumption]. Qed.

Theorem run_not_crash : forall c ops, valid c -> run c ops <> StCrash.
Proof. intros c ops Hv. apply (Generic.run_not_crash btR); solve [bt_hyp | exact Hv]. Qed.

Theorem refines_tree : forall c ops, valid c -> ckind c <> LinkedHashMap ->
  entries_of c (run c ops) = mrun (cmp_for c) (hist c ops).
Proof. intros c ops Hv K. apply (Generic.refines_tree btR); solve [bt_hyp | assumption]. Qed.

Theorem refines_linked : forall c ops, valid c -> ckind c = LinkedHashMap ->
  Permutation (entries_of c (run c ops)) (mrun Z.compare (hist c ops)) /\
  NoDup (keys_of c (run c ops)).
Proof. intros c ops Hv K. apply (Generic.refines_linked btR); solve [bt_hyp | assumption]. Qed.

Theorem refines_perm : forall c ops, valid c ->
  Permutation (entries_of c (run c ops)) (mrun (cmp_for c) (hist c ops)).
Proof. intros c ops Hv. apply (Generic.refines_perm btR); solve [bt_hyp | assumption]. Qed.

Theorem C01_get : forall c ops k, valid c ->
  get_of c (run c ops) k = oopt (option_map snd (last_live (cmp_for c) (rev (hist c ops)) k)).
Proof. intros c ops k Hv. apply (Generic.C01_get btR); solve [bt_hyp | assumption]. Qed.

Theorem C01_size : forall c ops, valid c ->
  size_of c (run c ops) = Z.of_nat (length (mrun (cmp_for c) (hist c ops))).
Proof. intros c ops Hv. apply (Generic.C01_size btR); solve [bt_hyp | assumption]. Qed.

Theorem C01_keys_values : forall c ops, valid c -> ckind c <> LinkedHashMap ->
  keys_of c (run c ops) = map fst (mrun (cmp_for c) (hist c ops)) /\
  values_of c (run c ops) = map snd (mrun (cmp_for c) (hist c ops)).
Proof. intros c ops Hv K. apply (Generic.C01_keys_values btR); solve [bt_hyp | assumption]. Qed.

Theorem C01_entry_iff : forall c ops e, valid c ->
  In e (entries_of c (run c ops)) <-> last_live (cmp_for c) (rev (hist c ops)) (fst e) = Some e.
Proof. intros c ops e Hv. apply (Generic.C01_entry_iff btR); solve [bt_hyp | assumption]. Qed.

Theorem C01_aligned : forall c ops, valid c ->
  keys_of c (run c ops) = map fst (entries_of c (run c ops)) /\
  values_of c (run c ops) = map snd (entries_of c (run c ops)) /\
  values_of c (run c ops) =
    map (fun k => match last_live (cmp_for c) (rev (hist c ops)) k with Some e => snd e | None => 0 end)
        (keys_of c (run c ops)).
Proof. intros c ops Hv. apply (Generic.C01_aligned btR); solve [bt_hyp | assumption]. Qed.

Theorem C01_nodup : forall c ops, valid c ->
  NoDupA (fun a b => cmp_for c a b = Eq) (keys_of c (run c ops)).
Proof. intros c ops Hv. apply (Generic.C01_nodup btR); solve [bt_hyp | assumption]. Qed.

Theorem C01_linked : forall c ops, valid c -> ckind c = LinkedHashMap ->
  Permutation (entries_of c (run c ops)) (mrun Z.compare (hist c ops)) /\
  Permutation (keys_of c (run c ops)) (map fst (mrun Z.compare (hist c ops))) /\
  Permutation (values_of c (run c ops)) (map snd (mrun Z.compare (hist c ops))) /\
  NoDup (keys_of c (run c ops)).
Proof. intros c ops Hv K. apply (Generic.C01_linked btR); solve [bt_hyp | assumption]. Qed.

Theorem C01_remove_absent : forall c ops k, valid c ->
  get_of c (run c ops) k = OL [] ->
  fst (fst (step c (run c ops) (Remove k))) = run c ops.
Proof. intros c ops k Hv Hg. apply (Generic.C01_remove_absent btR); solve [bt_hyp | assumption]. Qed.

Theorem C02_sorted : forall c ops, valid c -> ordered_kind (ckind c) = true ->
  ksorted (kc c) (entries_of c (run c ops)).
Proof. intros c ops Hv Ho. apply (Generic.C02_sorted btR); solve [bt_hyp | assumption]. Qed.

Theorem C02_keys_sorted : forall c ops, valid c -> ordered_kind (ckind c) = true ->
  StronglySorted (fun a b => kc c a b = Lt) (keys_of c (run c ops)).
Proof. intros c ops Hv Ho. apply (Generic.C02_keys_sorted btR); solve [bt_hyp | assumption]. Qed.

Theorem C02_one_key : forall c ops, valid c -> ordered_kind (ckind c) = true ->
  NoDupA (fun a b => kc c a b = Eq) (keys_of c (run c ops)).
Proof. intros c ops Hv Ho. apply (Generic.C02_one_key btR); solve [bt_hyp | assumption]. Qed.

Theorem C02_left : forall c ops, valid c -> ordered_kind (ckind c) = true ->
  left_of (run c ops) = hd_error (entries_of c (run c ops)).
Proof. intros c ops Hv Ho. apply (Generic.C02_left btR); solve [bt_hyp | assumption]. Qed.

Theorem C02_right : forall c ops, valid c -> ordered_kind (ckind c) = true ->
  right_of (run c ops) = last_opt (entries_of c (run c ops)).
Proof. intros c ops Hv Ho. apply (Generic.C02_right btR); solve [bt_hyp | assumption]. Qed.

Theorem C02_left_least : forall c ops, valid c -> ordered_kind (ckind c) = true ->
  match left_of (run c ops) with
  | Some e => In e (entries_of c (run c ops)) /\
              forall e', In e' (entries_of c (run c ops)) -> e' = e \/ kc c (fst e) (fst e') = Lt
  | None => entries_of c (run c ops) = []
  end.
Proof. intros c ops Hv Ho. apply (Generic.C02_left_least btR); solve [bt_hyp | assumption]. Qed.

Theorem C02_right_greatest : forall c ops, valid c -> ordered_kind (ckind c) = true ->
  match right_of (run c ops) with
  | Some e => In e (entries_of c (run c ops)) /\
              forall e', In e' (entries_of c (run c ops)) -> e' = e \/ kc c (fst e') (fst e) = Lt
  | None => entries_of c (run c ops) = []
  end.
Proof. intros c ops Hv Ho. apply (Generic.C02_right_greatest btR); solve [bt_hyp | assumption]. Qed.

Theorem C02_floor : forall c ops p, valid c -> ordered_kind (ckind c) = true -> ckind c <> BTree ->
  floor_of c (run c ops) p = floor_list (kc c) p (entries_of c (run c ops)).
Proof. intros c ops p Hv Ho Hb. apply (Generic.C02_floor btR); solve [bt_hyp | assumption]. Qed.

Theorem C02_ceiling : forall c ops p, valid c -> ordered_kind (ckind c) = true -> ckind c <> BTree ->
  ceiling_of c (run c ops) p = ceiling_list (kc c) p (entries_of c (run c ops)).
Proof. intros c ops p Hv Ho Hb. apply (Generic.C02_ceiling btR); solve [bt_hyp | assumption]. Qed.

Theorem C02_floor_char : forall c ops p, valid c -> ordered_kind (ckind c) = true -> ckind c <> BTree ->
  match floor_of c (run c ops) p with
  | Some e => In e (entries_of c (run c ops)) /\ kc c p (fst e) <> Lt /\
              (forall e', In e' (entries_of c (run c ops)) -> kc c p (fst e') <> Lt ->
                          e' = e \/ kc c (fst e') (fst e) = Lt) /\
              (forall e', In e' (entries_of c (run c ops)) -> kc c (fst e) (fst e') = Lt ->
                          kc c p (fst e') = Lt)
  | None => forall e', In e' (entries_of c (run c ops)) -> kc c p (fst e') = Lt
  end.
Proof. intros c ops p Hv Ho Hb. apply (Generic.C02_floor_char btR); solve [bt_hyp | assumption]. Qed.

Theorem C02_ceiling_char : forall c ops p, valid c -> ordered_kind (ckind c) = true -> ckind c <> BTree ->
  match ceiling_of c (run c ops) p with
  | Some e => In e (entries_of c (run c ops)) /\ kc c p (fst e) <> Gt /\
              (forall e', In e' (entries_of c (run c ops)) -> kc c p (fst e') <> Gt ->
                          e' = e \/ kc c (fst e) (fst e') = Lt) /\
              (forall e', In e' (entries_of c (run c ops)) -> kc c (fst e') (fst e) = Lt ->
                          kc c p (fst e') = Gt)
  | None => forall e', In e' (entries_of c (run c ops)) -> kc c p (fst e') = Gt
  end.
Proof. intros c ops p Hv Ho Hb. apply (Generic.C02_ceiling_char btR); solve [bt_hyp | assumption]. Qed.

Theorem C02_observed : forall c ops, valid c -> ordered_kind (ckind c) = true ->
  In (TLeft, oopt2 (left_of (run c ops))) (observe c 1 (run c ops)) /\
  In (TRight, oopt2 (right_of (run c ops))) (observe c 1 (run c ops)) /\
  (ckind c <> BTree ->
   In (TFloor, OL (map (fun p => oopt2 (floor_of c (run c ops) p)) (probes c))) (observe c 1 (run c ops)) /\
   In (TCeiling, OL (map (fun p => oopt2 (ceiling_of c (run c ops) p)) (probes c))) (observe c 1 (run c ops))).
Proof. intros c ops Hv Ho. apply (Generic.C02_observed btR); solve [bt_hyp | assumption]. Qed.

(* ================================================================================================ *)
(* 8. TreeSet (C02): the members are the keys of a red-black tree; Add / Remove are sequences of    *)
(*    tree puts / removes                                                                           *)
(* ================================================================================================ *)
Definition set_hist1 (o : op) : list mop :=
  match o with
  | Add vs => puts (map (fun x => (x, 0)) vs)
  | RemoveVals vs => map MRemove vs
  | Clear => [MClear]
  | FromJSON (DArr vs) => MClear :: puts (map (fun x => (x, 0)) vs)
  | FromJSON DNull => [MClear]
  | _ => []
  end.
Definition set_hist (ops : list op) : list mop := flat_map set_hist1 ops.

Definition tsinv (c : config) (s : state) : Prop :=
  match s with StRB t n => rbI (kc c) (t, n) | _ => False end.

Lemma ts_add_values : forall c vs s, tsinv c s ->
  tsinv c (add_values c vs s) /\
  entries_of c (add_values c vs s) =
  fold_left (mstep (kc c)) (puts (map (fun x => (x, 0)) vs)) (entries_of c s).
Proof.
  intros c vs s Hi. destruct s; try contradiction. cbn [add_values tsinv] in *.
  destruct (rbs_puts_sim (kc c) (kc_SWO c) (map (fun x => (x, 0)) vs) (t, n) Hi) as ([t' n'] & E & H' & I').
  rewrite E. split; [exact H'|exact I'].
Qed.

Lemma ts_step_sim : forall c s o, ckind c = TreeSet -> tsinv c s ->
  tsinv c (fst (fst (step c s o))) /\
  entries_of c (fst (fst (step c s o))) = fold_left (mstep (kc c)) (set_hist1 o) (entries_of c s).
Proof.
  intros c s o K Hi.
  assert (Hinit : init c = StRB RB.E 0) by (unfold init; rewrite K; reflexivity).
  assert (Hi0 : tsinv c (init c)) by (rewrite Hinit; apply rbI_empty).
  assert (Hkv : is_kv (ckind c) = false) by (rewrite K; reflexivity).
  destruct s; try contradiction.
  destruct o; unfold step; rewrite ?K; cbn [set_hist1 fold_left mstep fst];
    try (split; [exact Hi|reflexivity]).
  - (* Add *) apply ts_add_values. exact Hi.
  - (* RemoveVals *)
    destruct (rbs_removes_sim (kc c) (kc_SWO c) vs (t, n) Hi) as ([t' n'] & E & H' & I').
    rewrite E. cbn [fst]. split; [exact H'|exact I'].
  - (* Clear *) rewrite Hinit. split; [apply rbI_empty|reflexivity].
  - (* FromJSON *)
    unfold from_json. rewrite Hkv. unfold load_array. rewrite K.
    destruct d as [| |vs|kvs]; cbn [fst set_hist1 fold_left mstep].
    + split; [exact Hi|reflexivity].
    + cbn [add_values]. rewrite Hinit. cbn [rbs_puts map]. split; [apply rbI_empty|reflexivity].
    + destruct (ts_add_values c vs (init c) Hi0) as [H' I']. split; [exact H'|].
      rewrite I', Hinit. reflexivity.
    + split; [exact Hi|reflexivity].
  - (* enumerable functions *) cbn [has_enumerable negb]. destruct (each_of _ _); split; (exact Hi || reflexivity).
  - cbn [has_enumerable negb]. destruct (each_of _ _); split; (exact Hi || reflexivity).
  - cbn [has_enumerable negb]. destruct (each_of _ _); split; (exact Hi || reflexivity).
  - cbn [has_enumerable negb]. destruct (each_of _ _); split; (exact Hi || reflexivity).
  - cbn [has_enumerable negb]. destruct (each_of _ _); split; (exact Hi || reflexivity).
  - cbn [has_enumerable negb]. destruct (each_of _ _); split; (exact Hi || reflexivity).
Qed.

Theorem treeset_refines : forall c ops, ckind c = TreeSet ->
  tsinv c (run c ops) /\ entries_of c (run c ops) = mrun (kc c) (set_hist ops).
Proof.
  intros c ops K.
  assert (Hinit : init c = StRB RB.E 0) by (unfold init; rewrite K; reflexivity).
  assert (G : forall ops s, tsinv c s ->
            tsinv c (run_from c s ops) /\
  entries_of c (run_from c s ops) = fold_left (mstep (kc c)) (set_hist ops) (entries_of c s)).
  { clear ops. induction ops as [|o ops IH]; intros s Hi; [split; [exact Hi|reflexivity]|].
    unfold run_from, set_hist. cbn [fold_left flat_map]. rewrite fold_left_app.
    destruct (ts_step_sim c s o K Hi) as [H1 E1].
    destruct (IH _ H1) as [H2 E2]. unfold run_from, set_hist in H2, E2.
    split; [exact H2|]. rewrite E2, E1. reflexivity. }
  unfold run. destruct (G ops (init c)) as [H E]; [rewrite Hinit; apply rbI_empty|].
  split; [exact H|]. rewrite E, Hinit. reflexivity.
Qed.

(* Values() of a TreeSet: the members in strictly ascending comparator order, one per key class *)
Theorem C02_treeset : forall c ops, ckind c = TreeSet ->
  run c ops <> StCrash /\
  values_of c (run c ops) = map fst (mrun (kc c) (set_hist ops)) /\
  StronglySorted (fun a b => kc c a b = Lt) (values_of c (run c ops)) /\
  NoDupA (fun a b => kc c a b = Eq) (values_of c (run c ops)) /\
  size_of c (run c ops) = Z.of_nat (length (values_of c (run c ops))) /\
  (forall x, In x (values_of c (run c ops)) <->
             last_live (kc c) (rev (set_hist ops)) x = Some (x, 0)).
Proof.
  intros c ops K. destruct (treeset_refines c ops K) as [Hi E].
  pose proof (mrun_sorted (kc c) (kc_SWO c) (set_hist ops)) as Hs.
  destruct (run c ops) as [| | |t n| | | | | | | | |] eqn:R; try contradiction.
  cbn [values_of entries_of size_of] in *. rewrite K. unfold RB.keys. rewrite E.
  split; [discriminate|]. split; [reflexivity|]. split; [apply Generic.ksorted_keys; exact Hs|].
  split; [apply ksorted_keys_nodupA; exact Hs|].
  split; [destruct Hi as (_ & _ & Hn); cbn [fst snd] in Hn; rewrite Hn, E, map_length; reflexivity|].
  intros x. split.
  - intros Hin. apply in_map_iff in Hin. destruct Hin as (e & <- & He).
    pose proof He as He'. apply (mrun_In_last_live (kc c) (kc_SWO c)) in He'. rewrite He'. f_equal.
    (* every stored value of a set is 0 *)
    assert (Hz : forall h l, (forall e0, In e0 l -> snd e0 = 0) ->
                 (forall o, In o h -> match o with MPut _ v => v = 0 | _ => True end) ->
                 forall e0, In e0 (fold_left (mstep (kc c)) h l) -> snd e0 = 0).
    { induction h as [|o h IHh]; intros l Hl Hh e0 He0; [apply Hl; exact He0|].
      cbn [fold_left] in He0. apply (IHh (mstep (kc c) l o)); [| |exact He0].
      - intros e1 He1. destruct o as [k1 v1|k1|]; cbn [mstep] in He1.
        + apply ins_list_In in He1. destruct He1 as [->|He1]; [|apply Hl; exact He1].
          cbn [snd]. exact (Hh (MPut k1 v1) (or_introl eq_refl)).
        + apply del_list_In in He1. apply Hl. exact He1.
        + destruct He1.
      - intros o' Ho'. apply Hh. right. exact Ho'. }
    destruct e as [k0 v0]. cbn [fst]. f_equal.
    change v0 with (snd (k0, v0)).
    apply (Hz (set_hist ops) [] (fun e0 (H0 : In e0 []) => match H0 with end)); [|exact He].
    intros o Ho. unfold set_hist in Ho. apply in_flat_map in Ho. destruct Ho as (op0 & _ & Ho).
    destruct op0; cbn [set_hist1] in Ho; try contradiction.
    + unfold puts in Ho. rewrite map_map in Ho. apply in_map_iff in Ho. destruct Ho as (y & <- & _). reflexivity.
    + apply in_map_iff in Ho. destruct Ho as (y & <- & _). exact I.
    + destruct Ho as [<-|[]]. exact I.
    + destruct d; cbn in Ho; try contradiction.
      * destruct Ho as [<-|[]]. exact I.
      * destruct Ho as [<-|Ho]; [exact I|]. unfold puts in Ho. rewrite map_map in Ho.
        apply in_map_iff in Ho. destruct Ho as (y & <- & _). reflexivity.
  - intros H. apply (mrun_In_last_live (kc c) (kc_SWO c) (set_hist ops) (x, 0)) in H.
    apply (in_map fst) in H. exact H.
Qed.

Print Assumptions run_sim.
Print Assumptions C02_treeset.
Print Assumptions refines_tree.
Print Assumptions refines_linked.
Print Assumptions C01_get.
Print Assumptions C01_size.
Print Assumptions C01_keys_values.
Print Assumptions C01_entry_iff.
Print Assumptions C01_aligned.
Print Assumptions C01_nodup.
Print Assumptions C01_linked.
Print Assumptions C01_remove_absent.
Print Assumptions C02_sorted.
Print Assumptions C02_left_least.
Print Assumptions C02_right_greatest.
Print Assumptions C02_floor_char.
Print Assumptions C02_ceiling_char.
Print Assumptions C02_observed.
