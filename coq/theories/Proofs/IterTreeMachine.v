(* C08 for the six tree-backed iterators at machine level: RedBlackTree, TreeMap, TreeSet, TreeBidiMap
   (red-black path iterator), AVLTree (AVL path iterator), BTree (B-tree path iterator).

   Part 1: the cursor of Proofs/IterTreeRB.v (used by the three tree-iterator proofs) computes exactly
           the cursor of Proofs/IterLinear.v (the specification C08_linear is stated with), so that
           C08_linear and C08_tree speak about ONE abstract cursor.
   Part 2: the reachable states of the six kinds satisfy what the iterator proofs need
           ([tree_state]: cached size = number of nodes; for the B-tree the shape invariant and
           sortedness).  RedBlackTree / TreeMap / AVLTree / BTree come from MachineMaps.run_sim,
           TreeSet from MachineMaps.treeset_refines, TreeBidiMap is proved here.
   Part 3: the machine-level theorems, for ALL op lists and ALL scripts.

   The only hypotheses are on the configuration: the kind is one of the six, and a BTree is built
   with order >= 3 ([btree_ok]; smaller orders panic in the constructor). *)
From Coq Require Import ZArith List Bool Lia Arith.
From Gods Require Import Common.Cmp Spec.SeqSpec Spec.MapSpec Model.Ops Model.Iter Model.Machine.
From Gods Require Model.RBTree Model.AVLTree Model.BTree Model.BTreeIter.
From Gods Require Proofs.BTreeMap Proofs.BTreeInv Proofs.MapSpecProofs Proofs.MachineMaps.
From Gods Require Proofs.IterLinear Proofs.IterTreeRB Proofs.IterTreeAVL Proofs.IterTreeBT.
Import ListNotations.
Local Open Scope Z_scope.

Module L := IterLinear.
Module T := IterTreeRB.

(* ====================================================================================== *)
(* Part 1: the two cursor definitions agree                                                 *)
(* ====================================================================================== *)
Section Bridge.
Variable l : list (Z * Z).
Variable hp : bool.

Lemma cn_eq : T.cn l = L.cur_n l.
Proof. reflexivity. Qed.

Lemma cn_nonneg : 0 <= T.cn l.
Proof. unfold T.cn. lia. Qed.

Lemma c_report_eq : forall p, T.c_report l p = L.cur_obs l p.
Proof. reflexivity. Qed.

Lemma c_sat_eq : forall pr p, T.c_sat l pr p = L.cur_holds l pr p.
Proof. reflexivity. Qed.

Lemma scan_up_eq : forall pr k q, q + Z.of_nat k = T.cn l -> T.scan_up l pr k q = L.search_up l pr k q.
Proof.
  intros pr k. induction k as [|k IH]; intros q Hq; cbn [T.scan_up L.search_up].
  - lia.
  - rewrite c_sat_eq. destruct (L.cur_holds l pr q); [reflexivity|]. apply IH. lia.
Qed.

Lemma scan_down_eq : forall pr k q, q + 1 = Z.of_nat k -> T.scan_down l pr k q = L.search_down l pr k q.
Proof.
  intros pr k. induction k as [|k IH]; intros q Hq; cbn [T.scan_down L.search_down].
  - lia.
  - rewrite c_sat_eq. destruct (L.cur_holds l pr q); [reflexivity|]. apply IH. lia.
Qed.

Lemma next_to_eq : forall pr p, -1 <= p <= T.cn l -> T.c_next_to l pr p = L.cur_next_to l pr p.
Proof.
  intros pr p Hp. unfold T.c_next_to, L.cur_next_to. rewrite <- cn_eq.
  destruct (p <? T.cn l) eqn:E.
  - apply Z.ltb_lt in E. replace (T.cn l - p - 1) with (T.cn l - (p + 1)) by lia.
    apply scan_up_eq. lia.
  - apply Z.ltb_ge in E. replace (Z.to_nat (T.cn l - (p + 1))) with O by lia. cbn [T.scan_up]. lia.
Qed.

Lemma prev_to_eq : forall pr p, -1 <= p <= T.cn l -> T.c_prev_to l pr p = L.cur_prev_to l pr p.
Proof.
  intros pr p Hp. unfold T.c_prev_to, L.cur_prev_to.
  destruct (0 <=? p) eqn:E.
  - apply Z.leb_le in E. apply scan_down_eq. lia.
  - apply Z.leb_gt in E. replace (Z.to_nat p) with O by lia. cbn [T.scan_down]. lia.
Qed.

Lemma cursor_call_eq : forall p c, -1 <= p <= T.cn l -> T.cursor_call l hp p c = L.cursor_call l hp p c.
Proof.
  intros p c Hp. pose proof cn_nonneg as Hn.
  destruct c as [| | | | | |pr|pr]; cbn [T.cursor_call L.cursor_call]; unfold L.land.
  - reflexivity.
  - reflexivity.
  - reflexivity.
  - reflexivity.
  - assert (H0 : L.cur_next l (-1) = 0).
    { unfold L.cur_next. rewrite <- cn_eq. destruct (-1 <? T.cn l) eqn:E; [reflexivity|].
      apply Z.ltb_ge in E. lia. }
    rewrite H0. reflexivity.
  - assert (H0 : L.cur_prev (L.cur_n l) = T.cn l - 1).
    { unfold L.cur_prev. rewrite <- cn_eq. destruct (0 <=? T.cn l) eqn:E; [reflexivity|].
      apply Z.leb_gt in E. lia. }
    rewrite H0. reflexivity.
  - rewrite (next_to_eq pr p Hp). reflexivity.
  - rewrite (prev_to_eq pr p Hp). reflexivity.
Qed.

Lemma cursor_run_eq : forall cs p, -1 <= p <= T.cn l -> T.cursor_run l hp p cs = L.cursor_script_from l hp p cs.
Proof.
  induction cs as [|c cs IH]; intros p Hp; cbn [T.cursor_run L.cursor_script_from]; [reflexivity|].
  rewrite (cursor_call_eq p c Hp). cbv zeta. f_equal. apply IH.
  rewrite cn_eq in *. apply L.cursor_call_range. exact Hp.
Qed.

Theorem cursor_script_eq : forall cs, T.cursor_script l hp cs = L.cursor_script l hp cs.
Proof.
  intros cs. unfold T.cursor_script, L.cursor_script. apply cursor_run_eq.
  pose proof cn_nonneg. lia.
Qed.
End Bridge.

Lemma indexed_from_eq : forall ks i, T.indexed_from i ks = combine (zrange i (length ks)) ks.
Proof.
  induction ks as [|k ks IH]; intros i; cbn [T.indexed_from length zrange combine]; [reflexivity|].
  rewrite IH. reflexivity.
Qed.

Lemma indexed_eq : forall ks, T.indexed ks = L.indexed ks.
Proof. intros ks. apply indexed_from_eq. Qed.

(* ====================================================================================== *)
(* Part 2: the reachable states of the six kinds                                            *)
(* ====================================================================================== *)
Definition is_tree_iter_kind (k : kind) : bool :=
  match k with
  | RedBlackTree | TreeMap | TreeSet | TreeBidiMap | AVLTree | BTree => true
  | _ => false
  end.

(* the only documented panic among these kinds: a B-tree built with order < 3 *)
Definition btree_ok (c : config) : bool :=
  match ckind c with BTree => 3 <=? corder c | _ => true end.

(* the (key, value) entries in Keys() order; TreeSet's iterator reports (index, element) *)
Definition tree_iter_seq (c : config) (s : state) : list (Z * Z) :=
  match ckind c with
  | TreeSet => L.indexed (values_of c s)
  | _ => entries_of c s
  end.

(* what the iterator proofs need of a state *)
Definition tree_state (c : config) (s : state) : Prop :=
  match ckind c, s with
  | (RedBlackTree | TreeMap | TreeSet), StRB t n => n = Z.of_nat (RB.count t)
  | TreeBidiMap, StTBidi f fn _ _ => fn = Z.of_nat (RB.count f)
  | AVLTree, StAVL t n => n = Z.of_nat (AVL.count t)
  | BTree, StBT r n =>
      (3 <= bt_m c)%nat /\ BTreeInv.btree_inv (bt_m c) r /\ BTreeInv.sorted_root (kc c) r /\
      n = Z.of_nat (length (bt_inorder r))
  | _, _ => False
  end.

Lemma tree_state_not_crash : forall c s, tree_state c s -> s <> StCrash.
Proof. intros c s H E. subst s. unfold tree_state in H. destruct (ckind c); exact H. Qed.

(* ---------- TreeBidiMap: two red-black trees with cached sizes ---------- *)
Section TBidi.
Variables kcm vcm : cmpf.
Hypothesis Hk : SWO kcm.
Hypothesis Hv : SWO vcm.

Definition tbP (s : tbidi) : Prop := MachineMaps.rbI kcm (fst s) /\ MachineMaps.rbI vcm (snd s).

Lemma tbidi_put_ok : forall k v s, tbP s -> exists s', tbidi_put kcm vcm k v s = Some s' /\ tbP s'.
Proof.
  intros k v [f i] [Hf Hi]. cbn [fst snd] in *. unfold tbidi_put.
  assert (H1 : exists i1, (match rbs_get kcm k f with Some v0 => rbs_remove vcm v0 i | None => Some i end) = Some i1 /\
                          MachineMaps.rbI vcm i1).
  { destruct (rbs_get kcm k f) as [v0|].
    - destruct (MachineMaps.rbs_remove_sim vcm Hv v0 i Hi) as (i1 & E & H & _). exists i1. split; assumption.
    - exists i. split; [reflexivity|exact Hi]. }
  destruct H1 as (i1 & E1 & Hi1). rewrite E1.
  assert (H2 : exists f1, (match rbs_get vcm v i1 with Some k0 => rbs_remove kcm k0 f | None => Some f end) = Some f1 /\
                          MachineMaps.rbI kcm f1).
  { destruct (rbs_get vcm v i1) as [k0|].
    - destruct (MachineMaps.rbs_remove_sim kcm Hk k0 f Hf) as (f1 & E & H & _). exists f1. split; assumption.
    - exists f. split; [reflexivity|exact Hf]. }
  destruct H2 as (f1 & E2 & Hf1). rewrite E2.
  destruct (MachineMaps.rbs_put_sim kcm Hk k v f1 Hf1) as (f2 & E3 & Hf2 & _).
  destruct (MachineMaps.rbs_put_sim vcm Hv v k i1 Hi1) as (i2 & E4 & Hi2 & _).
  rewrite E3, E4. exists (f2, i2). split; [reflexivity|]. split; assumption.
Qed.

Lemma tbidi_remove_ok : forall k s, tbP s -> exists s', tbidi_remove kcm vcm k s = Some s' /\ tbP s'.
Proof.
  intros k [f i] [Hf Hi]. cbn [fst snd] in *. unfold tbidi_remove.
  destruct (rbs_get kcm k f) as [v|].
  - destruct (MachineMaps.rbs_remove_sim kcm Hk k f Hf) as (f1 & E1 & Hf1 & _).
    destruct (MachineMaps.rbs_remove_sim vcm Hv v i Hi) as (i1 & E2 & Hi1 & _).
    rewrite E1, E2. exists (f1, i1). split; [reflexivity|]. split; assumption.
  - exists (f, i). split; [reflexivity|]. split; assumption.
Qed.

Lemma tbidi_puts_ok : forall es s, tbP s -> exists s', tbidi_puts kcm vcm es s = Some s' /\ tbP s'.
Proof.
  induction es as [|[k v] es IH]; intros s Hs; cbn [tbidi_puts].
  - exists s. split; [reflexivity|exact Hs].
  - destruct (tbidi_put_ok k v s Hs) as (s1 & E1 & H1). rewrite E1. apply IH. exact H1.
Qed.
End TBidi.

Definition tbI (c : config) (s : state) : Prop :=
  match s with
  | StTBidi f fn i inn => tbP (kc c) (vc c) ((f, fn), (i, inn))
  | _ => False
  end.

Lemma vc_SWO : forall c, SWO (vc c).
Proof. intros c. apply MapSpecProofs.cmp_of_SWO. Qed.

Lemma tb_init : forall c, ckind c = TreeBidiMap -> tbI c (init c).
Proof.
  intros c K. unfold init. rewrite K. cbn [tbI]. split; apply MachineMaps.rbI_empty.
Qed.

Lemma tb_step : forall c s o, ckind c = TreeBidiMap -> tbI c s -> tbI c (fst (fst (step c s o))).
Proof.
  intros c s o K Hi. pose proof (tb_init c K) as Hi0.
  assert (Hinit : init c = StTBidi RB.E 0 RB.E 0) by (unfold init; rewrite K; reflexivity).
  destruct s as [| | | | | | | | | | |f fn i inn|]; try contradiction.
  destruct o; unfold step; rewrite ?K; cbn [fst pure has_enumerable negb]; try exact Hi.
  - (* Put *)
    destruct (tbidi_put_ok (kc c) (vc c) (MachineMaps.kc_SWO c) (vc_SWO c) k v _ Hi) as ([[f' fn'] [i' inn']] & E & H).
    rewrite E. exact H.
  - (* Remove *)
    destruct (tbidi_remove_ok (kc c) (vc c) (MachineMaps.kc_SWO c) (vc_SWO c) k _ Hi) as ([[f' fn'] [i' inn']] & E & H).
    rewrite E. exact H.
  - (* Clear *) exact Hi0.
  - (* FromJSON *)
    unfold from_json. rewrite K. cbn [is_kv].
    destruct d as [| |vs|kvs]; cbn [fst]; try exact Hi; try exact Hi0.
    rewrite Hinit. cbn [put_entries].
    destruct (tbidi_puts_ok (kc c) (vc c) (MachineMaps.kc_SWO c) (vc_SWO c) (sort_entries kvs)
                ((RB.E, 0), (RB.E, 0))) as ([[f' fn'] [i' inn']] & E & H).
    { rewrite Hinit in Hi0. exact Hi0. }
    rewrite E. exact H.
  - destruct (each_of _ _); exact Hi.
  - destruct (each_of _ _); exact Hi.
  - destruct (each_of _ _); exact Hi.
  - destruct (each_of _ _); exact Hi.
  - destruct (each_of _ _); exact Hi.
  - destruct (each_of _ _); exact Hi.
Qed.

Theorem tb_run : forall c ops, ckind c = TreeBidiMap -> tbI c (run c ops).
Proof.
  intros c ops K. unfold run.
  assert (G : forall ops s, tbI c s -> tbI c (run_from c s ops)).
  { clear ops. induction ops as [|o ops IH]; intros s Hs; [exact Hs|].
    change (run_from c s (o :: ops)) with (run_from c (fst (fst (step c s o))) ops).
    apply IH. apply tb_step; assumption. }
  apply G. apply tb_init. exact K.
Qed.

(* ---------- all six kinds ---------- *)
Lemma btree_ok_order : forall c, btree_ok c = true -> ckind c = BTree -> 3 <= corder c.
Proof. intros c H K. unfold btree_ok in H. rewrite K in H. apply Z.leb_le. exact H. Qed.

Lemma rbI_count : forall cmp t n, MachineMaps.rbI cmp (t, n) -> n = Z.of_nat (RB.count t).
Proof.
  intros cmp t n (_ & _ & Hn). cbn [fst snd] in Hn. rewrite Hn, T.RBIter.length_inorder. reflexivity.
Qed.

Theorem run_tree_state : forall c ops, is_tree_iter_kind (ckind c) = true -> btree_ok c = true ->
  tree_state c (run c ops).
Proof.
  intros c ops Hk Hb. pose proof (btree_ok_order c Hb) as Hord.
  assert (Hmaps : MachineMaps.map_kind (ckind c) = true -> MachineMaps.minv c (run c ops)).
  { intros Hm. apply MachineMaps.run_sim. split; assumption. }
  unfold tree_state. destruct (ckind c) eqn:K; try discriminate Hk.
  - (* TreeSet *)
    destruct (MachineMaps.treeset_refines c ops K) as [Hi _]. unfold MachineMaps.tsinv in Hi.
    destruct (run c ops); try contradiction. eapply rbI_count. exact Hi.
  - (* TreeMap *)
    specialize (Hmaps eq_refl). unfold MachineMaps.minv, MachineMaps.Generic.inv in Hmaps. rewrite K in Hmaps.
    destruct (run c ops); try contradiction. eapply rbI_count. exact Hmaps.
  - (* TreeBidiMap *)
    pose proof (tb_run c ops K) as Hi. unfold tbI in Hi.
    destruct (run c ops); try contradiction. destruct Hi as [Hf _]. eapply rbI_count. exact Hf.
  - (* RedBlackTree *)
    specialize (Hmaps eq_refl). unfold MachineMaps.minv, MachineMaps.Generic.inv in Hmaps. rewrite K in Hmaps.
    destruct (run c ops); try contradiction. eapply rbI_count. exact Hmaps.
  - (* AVLTree *)
    specialize (Hmaps eq_refl). unfold MachineMaps.minv, MachineMaps.Generic.inv in Hmaps. rewrite K in Hmaps.
    destruct (run c ops); try contradiction. destruct Hmaps as (_ & _ & Hn).
    rewrite Hn, IterTreeAVL.AVLIter.length_inorder. reflexivity.
  - (* BTree *)
    specialize (Hmaps eq_refl). unfold MachineMaps.minv, MachineMaps.Generic.inv in Hmaps. rewrite K in Hmaps.
    destruct (run c ops); try contradiction. destruct Hmaps as ((Hinv & Hs) & Hn).
    split; [|split; [exact Hinv|split; [exact Hs|exact Hn]]].
    specialize (Hord eq_refl). unfold bt_m. lia.
Qed.

Theorem run_tree_not_crash : forall c ops, is_tree_iter_kind (ckind c) = true -> btree_ok c = true ->
  run c ops <> StCrash.
Proof. intros c ops Hk Hb. eapply tree_state_not_crash. apply run_tree_state; assumption. Qed.

(* ====================================================================================== *)
(* Part 3: the machine-level theorems                                                       *)
(* ====================================================================================== *)
Lemma bt_good_state : forall c r n, ckind c = BTree -> tree_state c (StBT r n) ->
  IterTreeBT.bt_good (kc c) r /\ n = Z.of_nat (length (bt_inorder r)).
Proof.
  intros c r n K Hs. unfold tree_state in Hs. rewrite K in Hs.
  destruct Hs as (Hm & Hinv & Hsort & Hn). split; [|exact Hn].
  exact (IterTreeBT.bt_good_of_inv (bt_m c) (kc c) r Hm Hinv Hsort).
Qed.

(* every state of the right shape, all six kinds, every script *)
Theorem tree_iter_is_cursor : forall c s cs, tree_state c s ->
  run_iter c s cs = L.cursor_script (tree_iter_seq c s) true cs.
Proof.
  intros c s cs Hs. rewrite <- cursor_script_eq. unfold tree_iter_seq.
  pose proof Hs as Hs'. unfold tree_state in Hs.
  destruct (ckind c) eqn:K; try contradiction; destruct s; try contradiction.
  - (* TreeSet *) cbn [values_of]. rewrite K, <- indexed_eq. apply T.run_iter_treeset; assumption.
  - (* TreeMap *) apply T.run_iter_rb; [right; exact K|exact Hs].
  - (* TreeBidiMap *) apply T.run_iter_treebidi. exact Hs.
  - (* RedBlackTree *) apply T.run_iter_rb; [left; exact K|exact Hs].
  - (* AVLTree *) apply IterTreeAVL.run_iter_avl. exact Hs.
  - (* BTree *)
    destruct (bt_good_state c r n K Hs') as [Hg Hn]. apply IterTreeBT.run_iter_bt; assumption.
Qed.

(* after every history of operations *)
Theorem tree_iter_reachable : forall c ops cs, is_tree_iter_kind (ckind c) = true -> btree_ok c = true ->
  run_iter c (run c ops) cs = L.cursor_script (tree_iter_seq c (run c ops)) true cs.
Proof. intros c ops cs Hk Hb. apply tree_iter_is_cursor. apply run_tree_state; assumption. Qed.

(* the answers of a script depend on the enumerated sequence only *)
Theorem tree_iter_seq_only : forall c ops1 ops2 cs, is_tree_iter_kind (ckind c) = true -> btree_ok c = true ->
  tree_iter_seq c (run c ops1) = tree_iter_seq c (run c ops2) ->
  run_iter c (run c ops1) cs = run_iter c (run c ops2) cs.
Proof.
  intros c ops1 ops2 cs Hk Hb E. rewrite !tree_iter_reachable by assumption. rewrite E. reflexivity.
Qed.

(* ---------- the full walks ---------- *)
Theorem each_of_tree_state : forall c s, tree_state c s ->
  each_of c s = Some (tree_iter_seq c s).
Proof.
  intros c s Hs. unfold tree_iter_seq.
  pose proof Hs as Hs'. unfold tree_state in Hs.
  destruct (ckind c) eqn:K; try contradiction; destruct s; try contradiction.
  - cbn [values_of]. rewrite K, <- indexed_eq. apply T.each_of_treeset; assumption.
  - apply T.each_of_rb; [rewrite K; discriminate|exact Hs].
  - apply T.each_of_treebidi. exact Hs.
  - apply T.each_of_rb; [rewrite K; discriminate|exact Hs].
  - apply IterTreeAVL.each_of_avl. exact Hs.
  - destruct (bt_good_state c r n K Hs') as [Hg Hn]. apply IterTreeBT.each_of_bt; assumption.
Qed.

Theorem each_back_tree_state : forall c s, tree_state c s ->
  each_back c s = Some (rev (entries_of c s)).
Proof.
  intros c s Hs. pose proof Hs as Hs'. unfold tree_state in Hs.
  destruct (ckind c) eqn:K; try contradiction; destruct s; try contradiction.
  - apply T.each_back_rb. exact Hs.
  - apply T.each_back_rb. exact Hs.
  - apply T.each_back_treebidi. exact Hs.
  - apply T.each_back_rb. exact Hs.
  - apply IterTreeAVL.each_back_avl. exact Hs.
  - destruct (bt_good_state c r n K Hs') as [Hg Hn]. apply IterTreeBT.each_back_bt; assumption.
Qed.

Theorem each_of_tree_machine : forall c ops, is_tree_iter_kind (ckind c) = true -> btree_ok c = true ->
  each_of c (run c ops) = Some (tree_iter_seq c (run c ops)).
Proof. intros c ops Hk Hb. apply each_of_tree_state. apply run_tree_state; assumption. Qed.

Theorem each_back_tree_machine : forall c ops, is_tree_iter_kind (ckind c) = true -> btree_ok c = true ->
  each_back c (run c ops) = Some (rev (entries_of c (run c ops))).
Proof. intros c ops Hk Hb. apply each_back_tree_state. apply run_tree_state; assumption. Qed.

(* ---------- the sequence is the container's Keys() / Values(), its length is Size() ---------- *)
Lemma tree_seq_size : forall c s, tree_state c s -> L.cur_n (tree_iter_seq c s) = size_of c s.
Proof.
  intros c s Hs. unfold tree_iter_seq, L.cur_n. unfold tree_state in Hs.
  destruct (ckind c) eqn:K; try contradiction; destruct s; try contradiction;
    cbn [entries_of size_of values_of]; rewrite ?K.
  - rewrite L.zlen_indexed. unfold zlen, RB.keys. rewrite map_length, T.RBIter.length_inorder, Hs. reflexivity.
  - unfold zlen. rewrite T.RBIter.length_inorder, Hs. reflexivity.
  - unfold zlen. rewrite T.RBIter.length_inorder, Hs. reflexivity.
  - unfold zlen. rewrite T.RBIter.length_inorder, Hs. reflexivity.
  - unfold zlen. rewrite IterTreeAVL.AVLIter.length_inorder, Hs. reflexivity.
  - destruct Hs as (_ & _ & _ & Hn). rewrite Hn. reflexivity.
Qed.

Lemma tree_seq_keys : forall c s, ckind c <> TreeSet -> map fst (tree_iter_seq c s) = keys_of c s.
Proof. intros c s K. unfold tree_iter_seq, keys_of. destruct (ckind c); congruence. Qed.

Lemma tree_seq_values : forall c s, tree_state c s -> ckind c <> TreeBidiMap ->
  map snd (tree_iter_seq c s) = values_of c s.
Proof.
  intros c s Hs Kb. unfold tree_iter_seq. unfold tree_state in Hs.
  destruct (ckind c) eqn:K; try contradiction; try congruence; destruct s; try contradiction;
    cbn [entries_of values_of]; rewrite ?K; try reflexivity.
  apply L.map_fst_indexed.
Qed.

(* ====================================================================================== *)
(* Part 4: the Go-shaped path iterators refine the cursor of IterLinear (restatements)        *)
(* ====================================================================================== *)
(* (a) red-black path iterator: any tree (no colour or ordering invariant is needed) *)
Theorem rb_path_iterator : forall (t : RB.tree) fuel cs, (RB.count t + 2 <= fuel)%nat ->
  run_script RB.ipos (rb_next t) (rb_prev t) (fun _ => RB.IBegin) (fun _ => RB.IEnd) (RB.ikv t) true fuel RB.IBegin cs
  = L.cursor_script (RB.inorder t) true cs.
Proof. intros t fuel cs Hf. rewrite <- cursor_script_eq. apply T.RBIter.rb_iter_script. exact Hf. Qed.

(* (b) TreeSet: the same iterator plus an index *)
Theorem treeset_iterator : forall (t : RB.tree) fuel cs, (RB.count t + 2 <= fuel)%nat ->
  run_script (Z * RB.ipos) (ts_next t (Z.of_nat (RB.count t))) (ts_prev t) ts_begin
             (ts_end (Z.of_nat (RB.count t))) (ts_cur t) true fuel (-1, RB.IBegin) cs
  = L.cursor_script (L.indexed (RB.keys t)) true cs.
Proof.
  intros t fuel cs Hf. rewrite <- cursor_script_eq, <- indexed_eq. apply T.TSIter.ts_iter_script. exact Hf.
Qed.

(* (c) AVL path iterator: any tree *)
Theorem avl_path_iterator : forall (t : AVL.tree) fuel cs, (AVL.count t + 2 <= fuel)%nat ->
  run_script AVL.ipos (avl_next t) (avl_prev t) (fun _ => AVL.IBegin) (fun _ => AVL.IEnd) (AVL.ikv t) true fuel AVL.IBegin cs
  = L.cursor_script (AVL.inorder t) true cs.
Proof. intros t fuel cs Hf. rewrite <- cursor_script_eq. apply IterTreeAVL.AVLIter.avl_iter_script. exact Hf. Qed.

(* (d) B-tree path iterator (re-finds its entry by key): shape invariant, strictly ascending entries
   under a strict weak order *)
Theorem bt_path_iterator : forall cmp, SWO cmp -> forall m (r : option BT.node) fuel cs, (3 <= m)%nat ->
  BTreeInv.btree_inv m r -> BTreeInv.sorted_root cmp r ->
  (length (bt_inorder r) + 2 <= fuel)%nat ->
  run_script BTI.ipos (bt_next cmp r) (bt_prev cmp r) (fun _ => BTI.IBegin) (fun _ => BTI.IEnd) (BTI.ientry r) true fuel BTI.IBegin cs
  = L.cursor_script (bt_inorder r) true cs.
Proof.
  intros cmp Hswo m r fuel cs Hm Hinv Hs Hf. rewrite <- cursor_script_eq.
  apply (IterTreeBT.bt_iter_script cmp Hswo); [|exact Hf].
  exact (IterTreeBT.bt_good_of_inv m cmp r Hm Hinv Hs).
Qed.

(* kind by kind, on any state whose cached size is right *)
Theorem iter_RedBlackTree : forall c t n cs, ckind c = RedBlackTree \/ ckind c = TreeMap ->
  n = Z.of_nat (RB.count t) ->
  run_iter c (StRB t n) cs = L.cursor_script (entries_of c (StRB t n)) true cs.
Proof. intros c t n cs Hk Hn. rewrite <- cursor_script_eq. apply T.run_iter_rb; assumption. Qed.

Theorem iter_TreeSet : forall c t n cs, ckind c = TreeSet -> n = Z.of_nat (RB.count t) ->
  run_iter c (StRB t n) cs = L.cursor_script (L.indexed (values_of c (StRB t n))) true cs.
Proof.
  intros c t n cs Hk Hn. rewrite <- cursor_script_eq. cbn [values_of]. rewrite Hk, <- indexed_eq.
  apply T.run_iter_treeset; assumption.
Qed.

Theorem iter_TreeBidiMap : forall c f fn i inn cs, fn = Z.of_nat (RB.count f) ->
  run_iter c (StTBidi f fn i inn) cs = L.cursor_script (entries_of c (StTBidi f fn i inn)) true cs.
Proof. intros c f fn i inn cs Hn. rewrite <- cursor_script_eq. apply T.run_iter_treebidi. exact Hn. Qed.

Theorem iter_AVLTree : forall c t n cs, n = Z.of_nat (AVL.count t) ->
  run_iter c (StAVL t n) cs = L.cursor_script (entries_of c (StAVL t n)) true cs.
Proof. intros c t n cs Hn. rewrite <- cursor_script_eq. apply IterTreeAVL.run_iter_avl. exact Hn. Qed.

Theorem iter_BTree : forall c r n cs, (3 <= bt_m c)%nat ->
  BTreeInv.btree_inv (bt_m c) r -> BTreeInv.sorted_root (kc c) r ->
  n = Z.of_nat (length (bt_inorder r)) ->
  run_iter c (StBT r n) cs = L.cursor_script (entries_of c (StBT r n)) true cs.
Proof.
  intros c r n cs Hm Hinv Hs Hn. rewrite <- cursor_script_eq. apply IterTreeBT.run_iter_bt; [|exact Hn].
  exact (IterTreeBT.bt_good_of_inv (bt_m c) (kc c) r Hm Hinv Hs).
Qed.

(* ====================================================================================== *)
(* Part 5: the cursor laws over the sequence of a reachable tree container, n = Size()       *)
(* ====================================================================================== *)
Section Laws.
Variable c : config.
Variable ops : list op.
Hypothesis Hk : is_tree_iter_kind (ckind c) = true.
Hypothesis Hb : btree_ok c = true.

Lemma laws_n : L.cur_n (tree_iter_seq c (run c ops)) = size_of c (run c ops).
Proof using Hk Hb. apply tree_seq_size. apply run_tree_state; assumption. Qed.

Theorem tree_cursor_range : forall p call,
  let l := tree_iter_seq c (run c ops) in let n := size_of c (run c ops) in
  -1 <= p <= n -> -1 <= fst (L.cursor_call l true p call) <= n.
Proof using Hk Hb. intros p call. cbv zeta. rewrite <- laws_n. apply L.cursor_call_range. Qed.

Theorem tree_next_prev : forall p,
  let l := tree_iter_seq c (run c ops) in let n := size_of c (run c ops) in
  (p < n -> L.cur_next l p = p + 1) /\ (n <= p -> L.cur_next l p = p) /\
  (0 <= p -> L.cur_prev p = p - 1) /\ (p < 0 -> L.cur_prev p = p).
Proof using Hk Hb.
  intros p. cbv zeta. rewrite <- laws_n.
  exact (conj (L.cur_next_step _ p) (conj (L.cur_next_saturates _ p)
        (conj (L.cur_prev_step p) (L.cur_prev_saturates p)))).
Qed.

(* the iterators of the tree kinds are all bidirectional: every moving call answers true with the
   element of the new position, or false at -1 / n *)
Theorem tree_move_result : forall p call,
  let l := tree_iter_seq c (run c ops) in let n := size_of c (run c ops) in
  -1 <= p <= n ->
  match call with CBegin | CEnd => True | _ =>
    let p' := fst (L.cursor_call l true p call) in
    (0 <= p' < n /\
     exists k v, nth_error l (Z.to_nat p') = Some (k, v) /\ snd (L.cursor_call l true p call) = OL [OZ 1; OZ k; OZ v])
    \/ ((p' = -1 \/ p' = n) /\ snd (L.cursor_call l true p call) = OL [OZ 0])
  end.
Proof using Hk Hb.
  intros p call. cbv zeta. rewrite <- laws_n. intros Hp.
  pose proof (L.cursor_move_result (tree_iter_seq c (run c ops)) true p call Hp) as H.
  destruct call; try exact I; cbv zeta in H;
    (destruct H as [(_ & Hf & _)|H]; [discriminate Hf|exact H]).
Qed.

Theorem tree_begin_end : forall p,
  let l := tree_iter_seq c (run c ops) in let n := size_of c (run c ops) in
  L.cursor_call l true p CBegin = (-1, ounit) /\ L.cursor_call l true p CEnd = (n, ounit).
Proof using Hk Hb.
  intros p. cbv zeta. rewrite <- laws_n.
  destruct (L.cursor_begin_end (tree_iter_seq c (run c ops)) true p) as [H1 H2]. split; [exact H1|exact (H2 eq_refl)].
Qed.

Theorem tree_first : forall p,
  let l := tree_iter_seq c (run c ops) in let n := size_of c (run c ops) in
  L.cursor_call l true p CFirst = L.cursor_call l true (fst (L.cursor_call l true p CBegin)) CNext /\
  fst (L.cursor_call l true p CFirst) = 0 /\
  (snd (L.cursor_call l true p CFirst) = OL [OZ 0] <-> n = 0).
Proof using Hk Hb. intros p. cbv zeta. rewrite <- laws_n. apply L.cursor_first. Qed.

Theorem tree_last : forall p,
  let l := tree_iter_seq c (run c ops) in let n := size_of c (run c ops) in
  L.cursor_call l true p CLast = L.cursor_call l true (fst (L.cursor_call l true p CEnd)) CPrev /\
  fst (L.cursor_call l true p CLast) = n - 1.
Proof using Hk Hb. intros p. cbv zeta. rewrite <- laws_n. apply L.cursor_last. reflexivity. Qed.

Theorem tree_next_to_least : forall pr p,
  let l := tree_iter_seq c (run c ops) in let n := size_of c (run c ops) in
  -1 <= p < n ->
  let r := L.cur_next_to l pr p in
  p < r <= n /\ (r < n -> L.cur_holds l pr r = true) /\ (forall q, p < q < r -> L.cur_holds l pr q = false).
Proof using Hk Hb. intros pr p. cbv zeta. rewrite <- laws_n. apply L.cur_next_to_least. Qed.

Theorem tree_next_to_at_end : forall pr p,
  let l := tree_iter_seq c (run c ops) in let n := size_of c (run c ops) in
  n <= p -> L.cur_next_to l pr p = p.
Proof using Hk Hb. intros pr p. cbv zeta. rewrite <- laws_n. apply L.cur_next_to_at_end. Qed.

Theorem tree_prev_to_greatest : forall pr p,
  let l := tree_iter_seq c (run c ops) in let n := size_of c (run c ops) in
  0 <= p <= n ->
  let r := L.cur_prev_to l pr p in
  -1 <= r < p /\ (-1 < r -> L.cur_holds l pr r = true) /\ (forall q, r < q < p -> L.cur_holds l pr q = false).
Proof using Hk Hb. intros pr p. cbv zeta. rewrite <- laws_n. apply L.cur_prev_to_greatest. Qed.

Theorem tree_prev_to_at_begin : forall pr p,
  let l := tree_iter_seq c (run c ops) in
  p < 0 -> L.cur_prev_to l pr p = p.
Proof. intros pr p. cbv zeta. apply L.cur_prev_to_at_begin. Qed.
End Laws.

(* the sequence of a reachable container: length Size(), first components Keys(), second Values() *)
Theorem tree_seq_reachable : forall c ops, is_tree_iter_kind (ckind c) = true -> btree_ok c = true ->
  let s := run c ops in
  L.cur_n (tree_iter_seq c s) = size_of c s /\
  (ckind c <> TreeSet -> map fst (tree_iter_seq c s) = keys_of c s) /\
  (ckind c <> TreeBidiMap -> map snd (tree_iter_seq c s) = values_of c s).
Proof.
  intros c ops Hk Hb. cbv zeta. pose proof (run_tree_state c ops Hk Hb) as Hs.
  split; [apply tree_seq_size; exact Hs|]. split.
  - intros K. apply tree_seq_keys. exact K.
  - intros K. apply tree_seq_values; assumption.
Qed.

Print Assumptions cursor_script_eq.
Print Assumptions run_tree_state.
Print Assumptions tree_iter_reachable.
Print Assumptions tree_iter_seq_only.
Print Assumptions each_of_tree_machine.
Print Assumptions each_back_tree_machine.
Print Assumptions tree_move_result.
Print Assumptions tree_next_to_least.
Print Assumptions tree_seq_reachable.
Print Assumptions bt_path_iterator.
