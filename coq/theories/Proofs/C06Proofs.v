(* Property C06: BinaryHeap and PriorityQueue refine the abstract bag machine of Spec/BagSpec.v. *)
From Coq Require Import ZArith List Lia Bool Arith Permutation Sorted.
From Gods Require Import Common.Cmp Common.ListAux Spec.SeqSpec Spec.BagSpec Model.Ops Model.Heap Model.Iter Model.Machine.
From Gods Require Import Proofs.HeapProofs Proofs.HeapValues.
Import ListNotations.

(* ---------- every executed comparator is a strict weak order ---------- *)
Lemma c06_cmp_by_SWO : forall f, SWO (cmp_by f).
Proof.
  intros f. unfold cmp_by. constructor.
  - intros x. apply Z.compare_refl.
  - intros x y. apply Z.compare_antisym.
  - intros x y z H1 H2. rewrite Z.compare_lt_iff in *. lia.
  - intros x y z H. apply Z.compare_eq in H. now rewrite H.
Qed.

Lemma c06_cmp_of_SWO : forall ci, SWO (cmp_of ci).
Proof. intros ci. apply c06_cmp_by_SWO. Qed.

Lemma c06_kc_SWO : forall c, SWO (kc c).
Proof. intros c. apply c06_cmp_of_SWO. Qed.

(* ------------------------------------------------------------------------------------------ *)
(* one machine step on a heap state, in closed form                                            *)
(* ------------------------------------------------------------------------------------------ *)

Definition heap_step (c : config) (l : list Z) (o : op) : state * obs * obs :=
  match classify (ckind c) o with
  | BInsert vs => (StHeap (push (kc c) vs l), ounit, onone)
  | BRemove => (StHeap (fst (pop (kc c) l)), oopt (snd (pop (kc c) l)), onone)
  | BReset vs r => (StHeap (heapify_from (kc c) vs (length vs / 2 + 1)), r, onone)
  | BFail => (StHeap l, obool false, onone)
  | BObserve => (StHeap l, snd (fst (step c (StHeap l) o)), onone)
  | BUnsupported => (StHeap l, ounsupported, onone)
  end.

Lemma heap_step_eq : forall c l o, is_heap_kind (ckind c) = true ->
  step c (StHeap l) o = heap_step c l o.
Proof.
  intros [k kcm vcm cap ord uni] l o Hk. cbn [ckind] in Hk.
  destruct k; try discriminate Hk; clear Hk.
  all: destruct o as [vs|vs|vs|i vs|i v|i|i j|ci res|vs|v|vs| |v| |k v|k|
                      |d|cs| |p|p|p|p|f|b|b|b| | | | |ci res];
    try reflexivity.
  all: try (destruct d as [| |vs|kvs]; reflexivity).
  all: unfold heap_step; cbn [classify ckind]; cbv [step ckind];
    destruct (pop _ l) as [l1 r1]; reflexivity.
Qed.

Lemma init_heap : forall c, is_heap_kind (ckind c) = true -> init c = StHeap [].
Proof.
  intros c Hk. unfold init. destruct (ckind c); try discriminate Hk; reflexivity.
Qed.

(* how the classification, the deterministic bag step and the history bookkeeping fit together *)
Lemma classify_facts : forall c o b, is_heap_kind (ckind c) = true ->
  match classify (ckind c) o with
  | BInsert vs => resets o = false /\ removes (ckind c) o = false /\ bag_step c b o = vs ++ b
  | BRemove => resets o = false /\ removes (ckind c) o = true /\ bag_step c b o = b /\ o = pop_op (ckind c)
  | BReset vs _ => resets o = true /\ bag_step c b o = vs
  | _ => resets o = false /\ removes (ckind c) o = false /\ bag_step c b o = b
  end.
Proof.
  intros c o b Hk. unfold bag_step.
  destruct (ckind c); try discriminate Hk; clear Hk.
  all: destruct o as [vs|vs|vs|i vs|i v|i|i j|ci res|vs|v|vs| |v| |k v|k|
                      |d|cs| |p|p|p|p|f|b0|b0|b0| | | | |ci res];
    cbn [classify resets removes pop_op app]; auto.
  all: destruct d as [| |vs|kvs]; auto.
Qed.

Lemma classify_pop_op : forall k, is_heap_kind k = true -> classify k (pop_op k) = BRemove.
Proof. intros k Hk. destruct k; try discriminate Hk; reflexivity. Qed.

(* ------------------------------------------------------------------------------------------ *)
(* one step: invariant + abstract transition                                                   *)
(* ------------------------------------------------------------------------------------------ *)

Lemma heap_ok_nil : forall cmp, heap_ok cmp [].
Proof. intros cmp i Hi. simpl in Hi. lia. Qed.

Lemma heap_step_sound : forall c l o, is_heap_kind (ckind c) = true -> heap_ok (kc c) l ->
  exists l' r, step c (StHeap l) o = (StHeap l', r, onone) /\
               heap_ok (kc c) l' /\ bag_trans c l o r l'.
Proof.
  intros c l o Hk Hok. rewrite (heap_step_eq c l o Hk).
  pose proof (c06_kc_SWO c) as Hswo.
  unfold heap_step, bag_trans. destruct (classify (ckind c) o) as [vs| |vs rr| | |].
  - eexists; eexists; split; [reflexivity|]. split.
    + now apply push_heap_ok.
    + split; [reflexivity|]. rewrite push_perm. apply Permutation_app_comm.
  - destruct (pop (kc c) l) as [l1 [x|]] eqn:E; cbn [fst snd].
    + eexists; eexists; split; [reflexivity|]. split.
      * eapply pop_heap_ok; eauto.
      * right. exists x. split; [reflexivity|]. split.
        -- eapply pop_perm; eauto.
        -- eapply pop_min; eauto.
    + apply pop_none in E. destruct E as [-> ->].
      eexists; eexists; split; [reflexivity|]. split; [apply heap_ok_nil|].
      left. auto.
  - eexists; eexists; split; [reflexivity|]. split.
    + now apply heapify_ok.
    + split; [reflexivity|]. apply heapify_perm.
  - eexists; eexists; split; [reflexivity|]. auto.
  - eexists; eexists; split; [reflexivity|]. auto.
  - eexists; eexists; split; [reflexivity|]. auto.
Qed.

(* ------------------------------------------------------------------------------------------ *)
(* runs                                                                                        *)
(* ------------------------------------------------------------------------------------------ *)

Lemma run_from_cons : forall c s o ops,
  run_from c s (o :: ops) = run_from c (fst (fst (step c s o))) ops.
Proof. reflexivity. Qed.

Lemma run_from_app : forall c s ops1 ops2,
  run_from c s (ops1 ++ ops2) = run_from c (run_from c s ops1) ops2.
Proof. intros c s ops1 ops2. unfold run_from. apply fold_left_app. Qed.

Lemma run_snoc : forall c ops o, run c (ops ++ [o]) = fst (fst (step c (run c ops) o)).
Proof. intros c ops o. unfold run. rewrite run_from_app. reflexivity. Qed.

Lemma run_from_heap_inv : forall c ops l, is_heap_kind (ckind c) = true -> heap_ok (kc c) l ->
  exists l', run_from c (StHeap l) ops = StHeap l' /\ heap_ok (kc c) l'.
Proof.
  intros c ops. induction ops as [|o ops IH]; intros l Hk Hok.
  - exists l. auto.
  - rewrite run_from_cons.
    destruct (heap_step_sound c l o Hk Hok) as (l1 & r & E & Hok1 & _).
    rewrite E. cbn [fst]. now apply IH.
Qed.

Theorem C06_heap_inv : forall c ops, is_heap_kind (ckind c) = true ->
  exists l, run c ops = StHeap l /\ heap_ok (kc c) l.
Proof.
  intros c ops Hk. unfold run. rewrite (init_heap c Hk).
  apply run_from_heap_inv; [exact Hk|apply heap_ok_nil].
Qed.

(* a reachable heap state is a valid heap *)
Lemma reachable_ok : forall c ops l, is_heap_kind (ckind c) = true ->
  run c ops = StHeap l -> heap_ok (kc c) l.
Proof.
  intros c ops l Hk E. destruct (C06_heap_inv c ops Hk) as (l0 & E0 & Hok).
  rewrite E in E0. inversion E0. now subst.
Qed.

Theorem C06_step_bag : forall c ops l o, is_heap_kind (ckind c) = true ->
  run c ops = StHeap l ->
  exists l' r, step c (StHeap l) o = (StHeap l', r, onone) /\
               heap_ok (kc c) l' /\ bag_trans c l o r l'.
Proof.
  intros c ops l o Hk E. apply heap_step_sound; [exact Hk|]. eapply reachable_ok; eauto.
Qed.

(* ---------- the same, operation by operation (what Properties/C06.v restates) ---------- *)

Lemma classify_push_op : forall k v, is_heap_kind k = true -> classify k (push_op k v) = BInsert [v].
Proof. intros k v Hk. destruct k; try discriminate Hk; reflexivity. Qed.

Theorem C06_push1 : forall c ops l v, is_heap_kind (ckind c) = true -> run c ops = StHeap l ->
  exists l',
    step c (StHeap l) (push_op (ckind c) v) = (StHeap l', ounit, onone) /\
    heap_ok (kc c) l' /\ Permutation l' (v :: l).
Proof.
  intros c ops l v Hk Hreach. pose proof (reachable_ok c ops l Hk Hreach) as Hok.
  destruct (heap_step_sound c l (push_op (ckind c) v) Hk Hok) as (l' & r & E & Hok' & T).
  unfold bag_trans in T. rewrite (classify_push_op _ v Hk) in T. destruct T as [-> P].
  exists l'. auto.
Qed.

Theorem C06_pushall : forall c ops l vs, ckind c = BinaryHeap -> run c ops = StHeap l ->
  exists l',
    step c (StHeap l) (PushAll vs) = (StHeap l', ounit, onone) /\
    heap_ok (kc c) l' /\ Permutation l' (vs ++ l).
Proof.
  intros c ops l vs Hb Hreach.
  assert (Hk : is_heap_kind (ckind c) = true) by (now rewrite Hb).
  pose proof (reachable_ok c ops l Hk Hreach) as Hok.
  destruct (heap_step_sound c l (PushAll vs) Hk Hok) as (l' & r & E & Hok' & T).
  unfold bag_trans in T. rewrite Hb in T. cbn [classify] in T. destruct T as [-> P].
  exists l'. auto.
Qed.

Theorem C06_pop_empty : forall c ops, is_heap_kind (ckind c) = true -> run c ops = StHeap [] ->
  step c (StHeap []) (pop_op (ckind c)) = (StHeap [], OL [], onone).
Proof.
  intros c ops Hk Hreach. pose proof (reachable_ok c ops [] Hk Hreach) as Hok.
  destruct (heap_step_sound c [] (pop_op (ckind c)) Hk Hok) as (l' & r & E & Hok' & T).
  unfold bag_trans in T. rewrite (classify_pop_op _ Hk) in T.
  destruct T as [(_ & -> & ->)|(x & _ & P & _)]; [exact E|].
  apply Permutation_nil in P. discriminate P.
Qed.

Theorem C06_pop_nonempty : forall c ops l, is_heap_kind (ckind c) = true -> run c ops = StHeap l ->
  l <> [] ->
  exists x l',
    step c (StHeap l) (pop_op (ckind c)) = (StHeap l', OL [OZ x], onone) /\
    heap_ok (kc c) l' /\
    Permutation l (x :: l') /\
    (forall y, In y l -> kc c x y <> Gt) /\
    peek_of c (StHeap l) = OL [OZ x].
Proof.
  intros c ops l Hk Hreach Hne. pose proof (reachable_ok c ops l Hk Hreach) as Hok.
  destruct (heap_step_sound c l (pop_op (ckind c)) Hk Hok) as (l' & r & E & Hok' & T).
  unfold bag_trans in T. rewrite (classify_pop_op _ Hk) in T.
  destruct T as [(C & _)|(x & -> & P & M)]; [contradiction|].
  exists x, l'. repeat split; auto.
  (* Peek agrees with Pop *)
  rewrite (heap_step_eq c l _ Hk) in E. unfold heap_step in E. rewrite (classify_pop_op _ Hk) in E.
  destruct l as [|a t]; [contradiction|]. rewrite pop_cons in E. cbn [fst snd oopt] in E.
  inversion E. subst a.
  unfold peek_of. destruct (ckind c); reflexivity.
Qed.

Theorem C06_clear : forall c ops l, is_heap_kind (ckind c) = true -> run c ops = StHeap l ->
  step c (StHeap l) Clear = (StHeap [], ounit, onone).
Proof.
  intros c ops l Hk _. rewrite (heap_step_eq c l _ Hk). unfold heap_step.
  destruct (ckind c); try discriminate Hk; reflexivity.
Qed.

Theorem C06_fromjson_ok : forall c ops l vs, is_heap_kind (ckind c) = true -> run c ops = StHeap l ->
  exists l',
    step c (StHeap l) (FromJSON (DArr vs)) = (StHeap l', obool true, onone) /\
    heap_ok (kc c) l' /\ Permutation l' vs.
Proof.
  intros c ops l vs Hk Hreach. pose proof (reachable_ok c ops l Hk Hreach) as Hok.
  destruct (heap_step_sound c l (FromJSON (DArr vs)) Hk Hok) as (l' & r & E & Hok' & T).
  unfold bag_trans in T.
  assert (Hc : classify (ckind c) (FromJSON (DArr vs)) = BReset vs (obool true))
    by (destruct (ckind c); reflexivity).
  rewrite Hc in T. destruct T as [-> P]. exists l'. auto.
Qed.

Theorem C06_fromjson_null : forall c ops l, is_heap_kind (ckind c) = true -> run c ops = StHeap l ->
  step c (StHeap l) (FromJSON DNull) = (StHeap [], obool true, onone).
Proof.
  intros c ops l Hk _. rewrite (heap_step_eq c l _ Hk). unfold heap_step.
  destruct (ckind c); try discriminate Hk; reflexivity.
Qed.

Theorem C06_fromjson_fail : forall c ops l d, is_heap_kind (ckind c) = true -> run c ops = StHeap l ->
  (d = DErr \/ exists kvs, d = DObj kvs) ->
  step c (StHeap l) (FromJSON d) = (StHeap l, obool false, onone).
Proof.
  intros c ops l d Hk _ Hd. rewrite (heap_step_eq c l _ Hk). unfold heap_step.
  destruct Hd as [->|(kvs & ->)]; destruct (ckind c); try discriminate Hk; reflexivity.
Qed.

(* everything else leaves the backing array untouched *)
Theorem C06_other_ops : forall c ops l o, is_heap_kind (ckind c) = true -> run c ops = StHeap l ->
  classify (ckind c) o = BObserve \/ classify (ckind c) o = BUnsupported ->
  exists r, step c (StHeap l) o = (StHeap l, r, onone).
Proof.
  intros c ops l o Hk _ Ho. rewrite (heap_step_eq c l _ Hk). unfold heap_step.
  destruct Ho as [-> | ->]; eexists; reflexivity.
Qed.

Theorem C06_unsupported : forall c ops l o, is_heap_kind (ckind c) = true -> run c ops = StHeap l ->
  classify (ckind c) o = BUnsupported ->
  step c (StHeap l) o = (StHeap l, ounsupported, onone).
Proof.
  intros c ops l o Hk _ Ho. rewrite (heap_step_eq c l _ Hk). unfold heap_step. now rewrite Ho.
Qed.

(* ---------- Peek ---------- *)
Theorem C06_peek : forall c ops l, is_heap_kind (ckind c) = true -> run c ops = StHeap l ->
  peek_of c (StHeap l) = oopt (hd_error l) /\
  (forall x, hd_error l = Some x -> forall y, In y l -> kc c x y <> Gt).
Proof.
  intros c ops l Hk Hreach. split.
  - unfold peek_of. destruct (ckind c); reflexivity.
  - pose proof (reachable_ok c ops l Hk Hreach) as Hok.
    intros x Hx. eapply heap_min; eauto. apply c06_kc_SWO.
Qed.

(* ---------- Values() / Size() ---------- *)
Theorem C06_values : forall c ops l, is_heap_kind (ckind c) = true -> run c ops = StHeap l ->
  Permutation (values_of c (StHeap l)) l /\
  hd_error (values_of c (StHeap l)) = hd_error l /\
  Z.of_nat (length (values_of c (StHeap l))) = size_of c (StHeap l).
Proof.
  intros c ops l _ _. cbn [values_of size_of]. repeat split.
  - apply values_perm_any.
  - apply values_head_any.
  - unfold zlen. now rewrite values_length.
Qed.

(* ------------------------------------------------------------------------------------------ *)
(* whole histories                                                                             *)
(* ------------------------------------------------------------------------------------------ *)

(* the (operation, answer) trace of a run of the machine *)
Fixpoint trace_from (c : config) (s : state) (ops : list op) : list (op * obs) :=
  match ops with
  | [] => []
  | o :: ops' => (o, snd (fst (step c s o))) :: trace_from c (fst (fst (step c s o))) ops'
  end.
Definition trace (c : config) (ops : list op) : list (op * obs) := trace_from c (init c) ops.
Definition results_from (c : config) (s : state) (ops : list op) : list obs := map snd (trace_from c s ops).

(* the values handed out by Pop / Dequeue since the last Clear / successful FromJSON, most recent
   first, read off the answers of the machine *)
Fixpoint popped_from (c : config) (s : state) (ops : list op) (acc : list Z) : list Z :=
  match ops with
  | [] => acc
  | o :: ops' =>
    popped_from c (fst (fst (step c s o))) ops'
      (if resets o then []
       else if removes (ckind c) o then returned (snd (fst (step c s o))) ++ acc
       else acc)
  end.
Definition popped (c : config) (ops : list op) : list Z := popped_from c (init c) ops [].

(* refinement: every run of the machine is a run of the abstract bag machine, the bag being the
   backing array itself *)
Lemma refines_from : forall c ops l, is_heap_kind (ckind c) = true -> heap_ok (kc c) l ->
  exists l', run_from c (StHeap l) ops = StHeap l' /\ heap_ok (kc c) l' /\
             bag_run c l (trace_from c (StHeap l) ops) l'.
Proof.
  intros c ops. induction ops as [|o ops IH]; intros l Hk Hok.
  - exists l. repeat split; auto. constructor.
  - rewrite run_from_cons. cbn [trace_from].
    destruct (heap_step_sound c l o Hk Hok) as (l1 & r & E & Hok1 & T).
    rewrite E. cbn [fst snd].
    destruct (IH l1 Hk Hok1) as (l2 & E2 & Hok2 & R).
    exists l2. repeat split; auto. econstructor; eauto.
Qed.

Theorem C06_refines : forall c ops, is_heap_kind (ckind c) = true ->
  exists l, run c ops = StHeap l /\ heap_ok (kc c) l /\ bag_run c [] (trace c ops) l.
Proof.
  intros c ops Hk. unfold run, trace. rewrite (init_heap c Hk).
  apply refines_from; [exact Hk|apply heap_ok_nil].
Qed.

Lemma returned_some : forall x, returned (oopt (Some x)) = [x].
Proof. reflexivity. Qed.
Lemma returned_none : returned (oopt None) = [].
Proof. reflexivity. Qed.

Lemma history_from : forall c ops l acc pu, is_heap_kind (ckind c) = true -> heap_ok (kc c) l ->
  Permutation (l ++ acc) pu ->
  exists l', run_from c (StHeap l) ops = StHeap l' /\
             Permutation (l' ++ popped_from c (StHeap l) ops acc) (fold_left (bag_step c) ops pu).
Proof.
  intros c ops. induction ops as [|o ops IH]; intros l acc pu Hk Hok HP.
  - exists l. split; [reflexivity|exact HP].
  - rewrite run_from_cons. cbn [popped_from fold_left].
    destruct (heap_step_sound c l o Hk Hok) as (l1 & r & E & Hok1 & T).
    rewrite E. cbn [fst snd].
    apply IH; [exact Hk|exact Hok1|].
    pose proof (classify_facts c o pu Hk) as F.
    unfold bag_trans in T.
    destruct (classify (ckind c) o) as [vs| |vs rr| | |].
    + destruct F as (-> & -> & ->). destruct T as [_ P].
      rewrite P. rewrite <- app_assoc. now apply Permutation_app_head.
    + destruct F as (-> & -> & -> & _).
      destruct T as [(-> & -> & ->)|(x & -> & P & _)].
      * rewrite returned_none. exact HP.
      * rewrite returned_some. cbn [app]. rewrite <- HP, P. cbn [app].
        symmetry. apply Permutation_middle.
    + destruct F as (-> & ->). destruct T as [_ P]. now rewrite app_nil_r.
    + destruct F as (-> & -> & ->). destruct T as [_ ->]. exact HP.
    + destruct F as (-> & -> & ->). subst l1. exact HP.
    + destruct F as (-> & -> & ->). destruct T as [_ ->]. exact HP.
Qed.

Theorem C06_history_bag : forall c ops, is_heap_kind (ckind c) = true ->
  exists l, run c ops = StHeap l /\ Permutation (l ++ popped c ops) (pushed c ops).
Proof.
  intros c ops Hk. unfold run, popped, pushed. rewrite (init_heap c Hk).
  apply history_from; [exact Hk|apply heap_ok_nil|reflexivity].
Qed.

(* ------------------------------------------------------------------------------------------ *)
(* draining                                                                                    *)
(* ------------------------------------------------------------------------------------------ *)

Lemma drain_run : forall c n l, is_heap_kind (ckind c) = true -> length l = n ->
  results_from c (StHeap l) (repeat (pop_op (ckind c)) n) = map (fun x => OL [OZ x]) (drain (kc c) n l) /\
  run_from c (StHeap l) (repeat (pop_op (ckind c)) n) = StHeap [].
Proof.
  intros c n. induction n as [|n IH]; intros l Hk Hn.
  - destruct l; [|simpl in Hn; lia]. split; reflexivity.
  - cbn [repeat]. unfold results_from in *. cbn [trace_from map]. rewrite run_from_cons.
    rewrite (heap_step_eq c l _ Hk). unfold heap_step. rewrite (classify_pop_op _ Hk).
    cbn [fst snd drain].
    destruct (pop (kc c) l) as [l1 [x|]] eqn:E.
    + pose proof (pop_length _ _ _ _ E) as HL.
      cbn [fst snd oopt map].
      destruct (IH l1 Hk ltac:(lia)) as [R1 R2]. rewrite R1, R2. split; reflexivity.
    + apply pop_none in E. destruct E as [-> _]. simpl in Hn. lia.
Qed.

Theorem C06_drain_sorted : forall c ops l, is_heap_kind (ckind c) = true ->
  run c ops = StHeap l ->
  exists d,
    results_from c (StHeap l) (repeat (pop_op (ckind c)) (length l)) = map (fun x => OL [OZ x]) d /\
    run_from c (StHeap l) (repeat (pop_op (ckind c)) (length l)) = StHeap [] /\
    StronglySorted (fun a b => kc c a b <> Gt) d /\
    Permutation d l.
Proof.
  intros c ops l Hk E. pose proof (reachable_ok c ops l Hk E) as Hok.
  exists (drain (kc c) (length l) l).
  destruct (drain_run c (length l) l Hk eq_refl) as [R1 R2].
  repeat split; auto.
  - apply drain_sorted; [apply c06_kc_SWO|exact Hok].
  - apply drain_perm.
Qed.

(* ------------------------------------------------------------------------------------------ *)
(* FromJSON re-heapifies: whatever array is loaded, in whatever state                          *)
(* ------------------------------------------------------------------------------------------ *)

Theorem C06_fromjson_reheaps : forall c ops vs, is_heap_kind (ckind c) = true ->
  exists l', run c (ops ++ [FromJSON (DArr vs)]) = StHeap l' /\
             heap_ok (kc c) l' /\ Permutation l' vs.
Proof.
  intros c ops vs Hk. rewrite run_snoc.
  destruct (C06_heap_inv c ops Hk) as (l & E & Hok). rewrite E.
  destruct (C06_fromjson_ok c ops l vs Hk E) as (l' & E' & Hok' & P).
  rewrite E'. exists l'. auto.
Qed.

(* the loader alone, on an arbitrary array (no reachability needed) *)
Theorem C06_load_array_heap : forall c vs, is_heap_kind (ckind c) = true ->
  exists l', load_array c vs = StHeap l' /\ heap_ok (kc c) l' /\ Permutation l' vs.
Proof.
  intros c vs Hk. unfold load_array.
  destruct (ckind c); try discriminate Hk;
    (eexists; split; [reflexivity|split; [apply heapify_ok, c06_kc_SWO|apply heapify_perm]]).
Qed.

(* ------------------------------------------------------------------------------------------ *)
(* iteration: a fresh iterator stepped with Next() until it answers false enumerates exactly    *)
(* Values(), with indices 0, 1, ..., size-1                                                    *)
(* ------------------------------------------------------------------------------------------ *)

Lemma ix_walk : forall (n : nat) (va : Z -> option Z) (f : nat -> Z) (fuel : nat),
  (forall i, i < n -> va (Z.of_nat i) = Some (f i)) ->
  forall k j, j + k = n ->
  run_script Z (ix_next (Z.of_nat n)) (ix_prev (Z.of_nat n)) ix_begin (ix_end (Z.of_nat n))
    (ix_cur va) true fuel (Z.of_nat j - 1)%Z (repeat CNext (S k)) =
  map (fun i => OL [OZ 1; OZ (Z.of_nat i); OZ (f i)]) (seq j k) ++ [OL [OZ 0]].
Proof.
  intros n va f fuel Hva. induction k as [|k IH]; intros j Hj.
  - cbn [repeat run_script run_call seq map app]. unfold ix_next.
    destruct (Z.ltb_spec (Z.of_nat j - 1) (Z.of_nat n)) as [_|C]; [|lia].
    replace (Z.of_nat j - 1 + 1)%Z with (Z.of_nat n) by lia.
    unfold inrange. rewrite Z.ltb_irrefl, andb_false_r. reflexivity.
  - change (repeat CNext (S (S k))) with (CNext :: repeat CNext (S k)).
    cbn [run_script run_call seq map app]. unfold ix_next.
    destruct (Z.ltb_spec (Z.of_nat j - 1) (Z.of_nat n)) as [_|C]; [|lia].
    replace (Z.of_nat j - 1 + 1)%Z with (Z.of_nat j) by lia.
    unfold inrange.
    destruct (Z.leb_spec 0 (Z.of_nat j)) as [_|C]; [|lia].
    destruct (Z.ltb_spec (Z.of_nat j) (Z.of_nat n)) as [_|C]; [|lia].
    cbn [andb]. unfold moved, ix_cur. rewrite (Hva j) by lia.
    f_equal. replace (Z.of_nat j) with (Z.of_nat (S j) - 1)%Z at 1 by lia.
    apply IH. lia.
Qed.

Theorem C06_iteration : forall c l,
  run_iter c (StHeap l) (repeat CNext (S (length l))) =
  map (fun i => OL [OZ 1; OZ (Z.of_nat i); OZ (nth i (values_of c (StHeap l)) 0%Z)]) (seq 0 (length l))
  ++ [OL [OZ 0]].
Proof.
  intros c l. cbn [run_iter size_of values_of]. unfold zlen.
  change (-1)%Z with (Z.of_nat 0 - 1)%Z.
  apply (ix_walk (length l) _ (fun i => nth i (values (kc c) l) 0%Z) _) with (k := length l) (j := 0); [|lia].
  intros i Hi. unfold inrange.
  destruct (Z.leb_spec 0 (Z.of_nat i)) as [_|C]; [|lia].
  destruct (Z.ltb_spec (Z.of_nat i) (Z.of_nat (length l))) as [_|C]; [|lia].
  cbn [andb]. rewrite Nat2Z.id. f_equal.
  unfold values.
  rewrite (nth_indep _ 0%Z (iter_value (kc c) l 0)) by (now rewrite map_length, seq_length).
  rewrite map_nth. now rewrite seq_nth.
Qed.

Theorem C06_iter_op : forall c l cs, is_heap_kind (ckind c) = true ->
  step c (StHeap l) (Iter cs) = (StHeap l, OL (run_iter c (StHeap l) cs), onone).
Proof.
  intros c l cs Hk. rewrite (heap_step_eq c l _ Hk). unfold heap_step.
  destruct (ckind c); try discriminate Hk; reflexivity.
Qed.

Print Assumptions c06_cmp_of_SWO.
Print Assumptions C06_heap_inv.
Print Assumptions C06_step_bag.
Print Assumptions C06_refines.
Print Assumptions C06_history_bag.
Print Assumptions C06_push1.
Print Assumptions C06_pushall.
Print Assumptions C06_pop_empty.
Print Assumptions C06_pop_nonempty.
Print Assumptions C06_clear.
Print Assumptions C06_fromjson_ok.
Print Assumptions C06_fromjson_null.
Print Assumptions C06_fromjson_fail.
Print Assumptions C06_other_ops.
Print Assumptions C06_unsupported.
Print Assumptions C06_peek.
Print Assumptions C06_values.
Print Assumptions C06_drain_sorted.
Print Assumptions C06_fromjson_reheaps.
Print Assumptions C06_load_array_heap.
Print Assumptions C06_iteration.
Print Assumptions C06_iter_op.
