(* Lemmas about the L2 map specification (Spec/MapSpec.v): the sorted-association-list layer and the
   declarative, history-based layer say the same thing.

   Self-contained (standard library + Common/Cmp + Spec/MapSpec only).  Main results:
     cmp_of_SWO, Zcompare_SWO          the executed comparators are strict weak orders
     mrun_sorted, mrun_nodup           the abstract state is strictly ascending, one entry per key class
     find_ins_list, find_del_list      lookup after ins / del
     mrun_last_live                    THE declarative theorem: lookup in the abstract state = last live Put
     del_absent                        removing an absent key changes nothing
     floor_list_spec, ceiling_list_spec, hd_least, last_greatest
*)
From Coq Require Import ZArith List Lia Bool Sorted SetoidList.
From Gods Require Import Common.Cmp Common.ListAux Spec.MapSpec.
Import ListNotations.
Local Open Scope Z_scope.

(* ---------- the executed comparators are strict weak orders ---------- *)
Lemma cmp_by_SWO : forall f, SWO (cmp_by f).
Proof.
  intros f. unfold cmp_by. constructor.
  - intros x. apply Z.compare_refl.
  - intros x y. apply Z.compare_antisym.
  - intros x y z H1 H2. rewrite Z.compare_lt_iff in *. lia.
  - intros x y z H. apply Z.compare_eq in H. rewrite H. reflexivity.
Qed.

Theorem cmp_of_SWO : forall ci : cmp_id, SWO (cmp_of ci).
Proof. intros ci. unfold cmp_of. apply cmp_by_SWO. Qed.

Theorem Zcompare_SWO : SWO Z.compare.
Proof. exact (cmp_by_SWO (fun x => x)). Qed.

(* distinct integers may be ONE key: the hypothesis is not "total order" *)
Example cdiv3_collapses : cmp_of CDiv3 4 5 = Eq /\ cmp_of CDiv3 (-1) (-3) = Eq /\ cmp_of CDiv3 (-1) 0 = Lt.
Proof. vm_compute. auto. Qed.
Example cabs_collapses : cmp_of CAbs (-2) 2 = Eq.
Proof. reflexivity. Qed.

(* ---------- generic list facts ---------- *)
Lemma last_opt_nil : forall A, @last_opt A [] = None.
Proof. reflexivity. Qed.

Lemma last_opt_cons_cons : forall A (x y : A) l, last_opt (x :: y :: l) = last_opt (y :: l).
Proof.
  intros A x y l. unfold last_opt. cbn [length].
  replace (S (S (length l)) - 1)%nat with (S (length l)) by lia.
  replace (S (length l) - 1)%nat with (length l) by lia. reflexivity.
Qed.

Lemma last_opt_snoc : forall A (l : list A) x, last_opt (l ++ [x]) = Some x.
Proof.
  intros A l x. unfold last_opt. rewrite app_length. cbn [length].
  replace (length l + 1 - 1)%nat with (length l) by lia.
  rewrite nth_error_app2 by lia. rewrite Nat.sub_diag. reflexivity.
Qed.

Lemma last_opt_last : forall A (l : list A), last_opt l = last (map Some l) None.
Proof.
  intros A l. induction l as [|x l IH]; [reflexivity|].
  destruct l as [|y l]; [reflexivity|].
  rewrite last_opt_cons_cons, IH. reflexivity.
Qed.

Lemma last_opt_In : forall A (l : list A) x, last_opt l = Some x -> In x l.
Proof. intros A l x H. unfold last_opt in H. eapply nth_error_In. exact H. Qed.

Lemma last_opt_None : forall A (l : list A), last_opt l = None -> l = [].
Proof.
  intros A l H. destruct l as [|x l]; [reflexivity|].
  unfold last_opt in H. apply nth_error_None in H. cbn [length] in H. lia.
Qed.

Section WithCmp.
Variable cmp : cmpf.
Hypothesis Hswo : SWO cmp.

(* ---------- comparator facts ---------- *)
Lemma c_refl : forall x, cmp x x = Eq.
Proof. exact (swo_refl cmp Hswo). Qed.

Lemma c_gt_lt : forall x y, cmp x y = Gt <-> cmp y x = Lt.
Proof.
  intros x y. rewrite (swo_sym cmp Hswo y x). destruct (cmp y x); simpl; split; congruence.
Qed.

Lemma c_lt_gt : forall x y, cmp x y = Lt <-> cmp y x = Gt.
Proof. intros x y. symmetry. apply c_gt_lt. Qed.

Lemma c_eq_sym : forall x y, cmp x y = Eq -> cmp y x = Eq.
Proof. intros x y H. rewrite (swo_sym cmp Hswo x y), H. reflexivity. Qed.

Lemma c_eq_iff : forall x y, cmp x y = Eq <-> cmp y x = Eq.
Proof. intros x y. split; apply c_eq_sym. Qed.

Lemma c_eq_l : forall x y z, cmp x y = Eq -> cmp x z = cmp y z.
Proof. exact (swo_eq_l cmp Hswo). Qed.

Lemma c_eq_r : forall x y z, cmp x y = Eq -> cmp z x = cmp z y.
Proof.
  intros x y z H. rewrite (swo_sym cmp Hswo x z), (swo_sym cmp Hswo y z).
  rewrite (c_eq_l _ _ _ H). reflexivity.
Qed.

Lemma c_eq_trans : forall x y z, cmp x y = Eq -> cmp y z = Eq -> cmp x z = Eq.
Proof. intros x y z H1 H2. rewrite (c_eq_l _ _ _ H1). exact H2. Qed.

Lemma c_lt_trans : forall x y z, cmp x y = Lt -> cmp y z = Lt -> cmp x z = Lt.
Proof. exact (swo_trans cmp Hswo). Qed.

Lemma c_lt_irrefl : forall x, cmp x x <> Lt.
Proof. intros x. rewrite c_refl. discriminate. Qed.

(* x <= y < z  ==>  x < z *)
Lemma c_le_lt_trans : forall x y z, cmp x y <> Gt -> cmp y z = Lt -> cmp x z = Lt.
Proof.
  intros x y z H1 H2. destruct (cmp x y) eqn:E; [| |congruence].
  - rewrite (c_eq_l _ _ _ E). exact H2.
  - eapply c_lt_trans; eassumption.
Qed.

(* x < y <= z  ==>  x < z *)
Lemma c_lt_le_trans : forall x y z, cmp x y = Lt -> cmp y z <> Gt -> cmp x z = Lt.
Proof.
  intros x y z H1 H2. destruct (cmp y z) eqn:E; [| |congruence].
  - rewrite <- (c_eq_r _ _ _ E). exact H1.
  - eapply c_lt_trans; eassumption.
Qed.

(* ---------- ksorted ---------- *)
Definition keq (a b : entry) : Prop := cmp (fst a) (fst b) = Eq.
Definition klt (a b : entry) : Prop := cmp (fst a) (fst b) = Lt.

Lemma ksorted_nil : ksorted cmp [].
Proof. constructor. Qed.

Lemma ksorted_cons_iff : forall x l,
  ksorted cmp (x :: l) <-> ksorted cmp l /\ Forall (fun e => cmp (fst x) (fst e) = Lt) l.
Proof.
  intros x l. split.
  - intros H. inversion H; subst. split; assumption.
  - intros [H1 H2]. constructor; assumption.
Qed.

Lemma ksorted_tail : forall x l, ksorted cmp (x :: l) -> ksorted cmp l.
Proof. intros x l H. apply ksorted_cons_iff in H. tauto. Qed.

Lemma ksorted_hd_lt : forall x l e, ksorted cmp (x :: l) -> In e l -> cmp (fst x) (fst e) = Lt.
Proof.
  intros x l e H Hin. apply ksorted_cons_iff in H. destruct H as [_ H].
  rewrite Forall_forall in H. apply H. exact Hin.
Qed.

Lemma ksorted_app_iff : forall l1 l2,
  ksorted cmp (l1 ++ l2) <->
  ksorted cmp l1 /\ ksorted cmp l2 /\ (forall a b, In a l1 -> In b l2 -> cmp (fst a) (fst b) = Lt).
Proof.
  induction l1 as [|x l1 IH]; intros l2; cbn [app].
  - split; [intros H; repeat split; [constructor|exact H|intros a b []] | tauto].
  - rewrite !ksorted_cons_iff, IH, Forall_app, !Forall_forall. split.
    + intros ((S1 & S2 & C) & F1 & F2). repeat split; try assumption.
      intros a b [<-|Ha] Hb; [apply F2; exact Hb | apply C; assumption].
    + intros ((S1 & F1) & S2 & C). repeat split; try assumption.
      * intros a b Ha Hb. apply C; [right; exact Ha | exact Hb].
      * intros e He. apply C; [left; reflexivity | exact He].
Qed.

(* ---------- ins_list / del_list keep the list sorted ---------- *)
Lemma ins_list_In : forall k v l e, In e (ins_list cmp k v l) -> e = (k, v) \/ In e l.
Proof.
  intros k v l e. induction l as [|[k1 v1] l IH]; cbn [ins_list].
  - intros [<-|[]]. left. reflexivity.
  - destruct (cmp k k1).
    + intros [<-|H]; [left; reflexivity | right; right; exact H].
    + intros [<-|H]; [left; reflexivity | right; exact H].
    + intros [<-|H]; [right; left; reflexivity|].
      destruct (IH H) as [->|H']; [left; reflexivity | right; right; exact H'].
Qed.

Lemma del_list_In : forall k l e, In e (del_list cmp k l) -> In e l.
Proof.
  intros k l e. induction l as [|[k1 v1] l IH]; cbn [del_list]; [tauto|].
  destruct (cmp k k1).
  - intros H. right. exact H.
  - tauto.
  - intros [<-|H]; [left; reflexivity | right; apply IH; exact H].
Qed.

Theorem ins_list_sorted : forall k v l, ksorted cmp l -> ksorted cmp (ins_list cmp k v l).
Proof.
  intros k v l. induction l as [|[k1 v1] l IH]; cbn [ins_list]; intros H.
  - constructor; constructor.
  - pose proof H as H0. apply ksorted_cons_iff in H. destruct H as [H1 H2]. cbn [fst] in H2.
    destruct (cmp k k1) eqn:E.
    + apply ksorted_cons_iff. split; [exact H1|]. cbn [fst].
      eapply Forall_impl; [|exact H2]. intros e He. cbn beta in He.
      rewrite (c_eq_l _ _ _ E). exact He.
    + apply ksorted_cons_iff. split; [exact H0|]. cbn [fst].
      constructor; [exact E|].
      eapply Forall_impl; [|exact H2]. intros e He. cbn beta in He.
      eapply c_lt_trans; eassumption.
    + apply ksorted_cons_iff. split; [apply IH; exact H1|]. cbn [fst].
      apply Forall_forall. intros e He. apply ins_list_In in He. destruct He as [->|He].
      * cbn [fst]. apply c_gt_lt. exact E.
      * rewrite Forall_forall in H2. apply H2. exact He.
Qed.

Theorem del_list_sorted : forall k l, ksorted cmp l -> ksorted cmp (del_list cmp k l).
Proof.
  intros k l. induction l as [|[k1 v1] l IH]; cbn [del_list]; intros H; [exact H|].
  pose proof H as H0. apply ksorted_cons_iff in H. destruct H as [H1 H2].
  destruct (cmp k k1); [exact H1 | exact H0 |].
  apply ksorted_cons_iff. split; [apply IH; exact H1|].
  apply Forall_forall. intros e He. apply del_list_In in He.
  rewrite Forall_forall in H2. apply H2. exact He.
Qed.

Lemma mstep_sorted : forall l o, ksorted cmp l -> ksorted cmp (mstep cmp l o).
Proof.
  intros l [k v|k|] H; cbn [mstep].
  - apply ins_list_sorted. exact H.
  - apply del_list_sorted. exact H.
  - constructor.
Qed.

Lemma fold_mstep_sorted : forall h l, ksorted cmp l -> ksorted cmp (fold_left (mstep cmp) h l).
Proof.
  induction h as [|o h IH]; intros l H; cbn [fold_left]; [exact H|].
  apply IH. apply mstep_sorted. exact H.
Qed.

Theorem mrun_sorted : forall h, ksorted cmp (mrun cmp h).
Proof. intros h. unfold mrun. apply fold_mstep_sorted. constructor. Qed.

Lemma mrun_snoc : forall h o, mrun cmp (h ++ [o]) = mstep cmp (mrun cmp h) o.
Proof. intros h o. unfold mrun. rewrite fold_left_app. reflexivity. Qed.

Lemma mrun_app : forall h1 h2, mrun cmp (h1 ++ h2) = fold_left (mstep cmp) h2 (mrun cmp h1).
Proof. intros h1 h2. unfold mrun. rewrite fold_left_app. reflexivity. Qed.

(* ---------- one entry per key class ---------- *)
Lemma ksorted_nodupA : forall l, ksorted cmp l -> NoDupA keq l.
Proof.
  induction l as [|x l IH]; intros H; [constructor|].
  apply ksorted_cons_iff in H. destruct H as [H1 H2].
  constructor; [|apply IH; exact H1].
  intros Hin. apply InA_alt in Hin. destruct Hin as (y & Hxy & Hy).
  rewrite Forall_forall in H2. specialize (H2 y Hy). unfold keq in Hxy. congruence.
Qed.

Theorem mrun_nodup : forall h, NoDupA (fun a b => cmp (fst a) (fst b) = Eq) (mrun cmp h).
Proof. intros h. apply ksorted_nodupA. apply mrun_sorted. Qed.

(* the same on the key list *)
Lemma ksorted_keys_nodupA : forall l, ksorted cmp l -> NoDupA (fun a b => cmp a b = Eq) (map fst l).
Proof.
  induction l as [|x l IH]; intros H; [constructor|].
  apply ksorted_cons_iff in H. destruct H as [H1 H2]. cbn [map].
  constructor; [|apply IH; exact H1].
  intros Hin. apply InA_alt in Hin. destruct Hin as (y & Hxy & Hy).
  apply in_map_iff in Hy. destruct Hy as (e & <- & He).
  rewrite Forall_forall in H2. specialize (H2 e He). congruence.
Qed.

(* two entries of a sorted list with equivalent keys are the same entry *)
Lemma ksorted_In_eq : forall l a b, ksorted cmp l -> In a l -> In b l -> cmp (fst a) (fst b) = Eq -> a = b.
Proof.
  induction l as [|x l IH]; intros a b H Ha Hb E; [destruct Ha|].
  pose proof (ksorted_hd_lt x l) as Hlt.
  destruct Ha as [<-|Ha], Hb as [<-|Hb].
  - reflexivity.
  - specialize (Hlt b H Hb). congruence.
  - specialize (Hlt a H Ha). apply c_eq_sym in E. congruence.
  - apply IH; try assumption. eapply ksorted_tail. exact H.
Qed.

(* ---------- find_list ---------- *)
Lemma find_list_nil : forall k, find_list cmp k [] = None.
Proof. reflexivity. Qed.

Lemma find_list_cons : forall k e l,
  find_list cmp k (e :: l) = if is_eq (cmp k (fst e)) then Some e else find_list cmp k l.
Proof. reflexivity. Qed.

Lemma find_list_Some : forall k l e, find_list cmp k l = Some e -> In e l /\ cmp k (fst e) = Eq.
Proof.
  intros k l e H. unfold find_list in H. apply find_some in H. destruct H as [H1 H2].
  split; [exact H1|]. destruct (cmp k (fst e)); [reflexivity|discriminate|discriminate].
Qed.

Lemma find_list_None : forall k l, find_list cmp k l = None <-> (forall e, In e l -> cmp k (fst e) <> Eq).
Proof.
  intros k l. split.
  - intros H e He E. unfold find_list in H.
    pose proof (find_none _ _ H e He) as Hn. cbn beta in Hn. rewrite E in Hn. discriminate.
  - intros H. induction l as [|x l IH]; [reflexivity|].
    rewrite find_list_cons. destruct (cmp k (fst x)) eqn:E; cbn [is_eq].
    + exfalso. apply (H x); [left; reflexivity | exact E].
    + apply IH. intros e He. apply H. right. exact He.
    + apply IH. intros e He. apply H. right. exact He.
Qed.

(* on a sorted list the entry found is THE entry of that key class *)
Lemma find_list_In : forall k l e, ksorted cmp l -> In e l -> cmp k (fst e) = Eq -> find_list cmp k l = Some e.
Proof.
  intros k l e Hs He E. destruct (find_list cmp k l) as [e'|] eqn:F.
  - apply find_list_Some in F. destruct F as [F1 F2].
    f_equal. apply (ksorted_In_eq l); try assumption.
    apply c_eq_sym in F2. eapply c_eq_trans; eassumption.
  - exfalso. rewrite find_list_None in F. exact (F e He E).
Qed.

Lemma find_list_all_gt : forall k l, Forall (fun e => cmp k (fst e) = Lt) l -> find_list cmp k l = None.
Proof.
  intros k l H. apply find_list_None. intros e He E.
  rewrite Forall_forall in H. specialize (H e He). congruence.
Qed.

(* congruence: equivalent probes find the same entry *)
Lemma find_list_eq_probe : forall k k' l, cmp k k' = Eq -> find_list cmp k l = find_list cmp k' l.
Proof.
  intros k k' l E. induction l as [|x l IH]; [reflexivity|].
  rewrite !find_list_cons, (c_eq_l _ _ _ E), IH. reflexivity.
Qed.

Theorem find_ins_list : forall k v k' l, ksorted cmp l ->
  find_list cmp k' (ins_list cmp k v l) =
  match cmp k' k with Eq => Some (k, v) | _ => find_list cmp k' l end.
Proof.
  intros k v k' l. induction l as [|[k1 v1] l IH]; intros Hs; cbn [ins_list].
  - rewrite find_list_cons. cbn [fst]. destruct (cmp k' k); reflexivity.
  - pose proof Hs as Hs0. apply ksorted_cons_iff in Hs. destruct Hs as [Hs1 Hs2]. cbn [fst] in Hs2.
    destruct (cmp k k1) eqn:E.
    + (* the entry of k1 is replaced *)
      rewrite !find_list_cons. cbn [fst]. rewrite <- (c_eq_r _ _ k' E).
      destruct (cmp k' k); reflexivity.
    + rewrite find_list_cons. cbn [fst]. destruct (cmp k' k); reflexivity.
    + rewrite !find_list_cons. cbn [fst]. rewrite (IH Hs1).
      destruct (cmp k' k1) eqn:E1; cbn [is_eq]; [|reflexivity|reflexivity].
      (* k' ~ k1 < k : k' is not equivalent to k *)
      apply c_gt_lt in E. rewrite (c_eq_l _ _ _ E1), E. reflexivity.
Qed.

Theorem find_del_list : forall k k' l, ksorted cmp l ->
  find_list cmp k' (del_list cmp k l) =
  match cmp k' k with Eq => None | _ => find_list cmp k' l end.
Proof.
  intros k k' l. induction l as [|[k1 v1] l IH]; intros Hs; cbn [del_list].
  - rewrite find_list_nil. destruct (cmp k' k); reflexivity.
  - pose proof Hs as Hs0. apply ksorted_cons_iff in Hs. destruct Hs as [Hs1 Hs2]. cbn [fst] in Hs2.
    destruct (cmp k k1) eqn:E.
    + (* the head is removed; every remaining key is above k1 ~ k *)
      rewrite find_list_cons. cbn [fst]. rewrite <- (c_eq_r _ _ k' E).
      destruct (cmp k' k) eqn:E'; cbn [is_eq]; [|reflexivity|reflexivity].
      apply find_list_all_gt. eapply Forall_impl; [|exact Hs2].
      intros e He. cbn beta in He. rewrite (c_eq_l _ _ _ E'), (c_eq_l _ _ _ E). exact He.
    + (* k below every key: nothing removed, and nothing equivalent to k in the list *)
      destruct (cmp k' k) eqn:E'; [|reflexivity|reflexivity].
      apply find_list_all_gt. constructor.
      * cbn [fst]. rewrite (c_eq_l _ _ _ E'). exact E.
      * eapply Forall_impl; [|exact Hs2]. intros e He. cbn beta in He.
        rewrite (c_eq_l _ _ _ E'). eapply c_lt_trans; eassumption.
    + rewrite !find_list_cons. cbn [fst]. rewrite (IH Hs1).
      destruct (cmp k' k1) eqn:E1; cbn [is_eq]; [|reflexivity|reflexivity].
      apply c_gt_lt in E. rewrite (c_eq_l _ _ _ E1), E. reflexivity.
Qed.

(* ---------- THE declarative theorem ---------- *)
(* Looking k up in the abstract state reached by history h (oldest first) is the same as scanning
   the history newest-first for the last Put of an equivalent key that is not followed by a Remove
   of an equivalent key or a Clear.  [last_live] never mentions a container state. *)
Theorem mrun_last_live : forall h k, find_list cmp k (mrun cmp h) = last_live cmp (rev h) k.
Proof.
  intros h k. induction h as [|o h IH] using rev_ind; [reflexivity|].
  rewrite mrun_snoc, rev_app_distr. cbn [rev app].
  pose proof (mrun_sorted h) as Hs.
  destruct o as [k' v|k'|]; cbn [mstep last_live].
  - rewrite find_ins_list by exact Hs. rewrite IH. reflexivity.
  - rewrite find_del_list by exact Hs. rewrite IH. reflexivity.
  - reflexivity.
Qed.

Corollary mrun_mem_last_live : forall h k,
  mem_list cmp k (mrun cmp h) = match last_live cmp (rev h) k with Some _ => true | None => false end.
Proof. intros h k. unfold mem_list. rewrite mrun_last_live. reflexivity. Qed.

(* every entry of the abstract state is the last live Put of its key, and conversely *)
Corollary mrun_In_last_live : forall h e, In e (mrun cmp h) <-> last_live cmp (rev h) (fst e) = Some e.
Proof.
  intros h e. rewrite <- mrun_last_live. split.
  - intros He. apply find_list_In; [apply mrun_sorted | exact He | apply c_refl].
  - intros H. apply find_list_Some in H. tauto.
Qed.

(* ---------- removing an absent key changes nothing ---------- *)
Theorem del_absent : forall k l, ksorted cmp l -> mem_list cmp k l = false -> del_list cmp k l = l.
Proof.
  intros k l. unfold mem_list. induction l as [|[k1 v1] l IH]; intros Hs Hm; [reflexivity|].
  cbn [del_list]. rewrite find_list_cons in Hm. cbn [fst] in Hm.
  destruct (cmp k k1) eqn:E; cbn [is_eq] in Hm; [discriminate|reflexivity|].
  f_equal. apply IH; [eapply ksorted_tail; exact Hs | exact Hm].
Qed.

(* re-putting the entry that is already there changes nothing either *)
Lemma ins_present : forall k v l, ksorted cmp l -> find_list cmp k l = Some (k, v) -> ins_list cmp k v l = l.
Proof.
  intros k v l. induction l as [|[k1 v1] l IH]; intros Hs Hf; [discriminate|].
  cbn [ins_list]. rewrite find_list_cons in Hf. cbn [fst] in Hf.
  pose proof Hs as Hs0. apply ksorted_cons_iff in Hs. destruct Hs as [Hs1 Hs2]. cbn [fst] in Hs2.
  destruct (cmp k k1) eqn:E; cbn [is_eq] in Hf.
  - inversion Hf; subst. reflexivity.
  - exfalso. apply find_list_Some in Hf. destruct Hf as [Hin Heq]. cbn [fst] in Heq.
    rewrite Forall_forall in Hs2. specialize (Hs2 _ Hin). cbn [fst] in Hs2.
    pose proof (c_lt_trans _ _ _ E Hs2) as Hc. rewrite c_refl in Hc. discriminate.
  - f_equal. apply IH; assumption.
Qed.

Lemma ins_list_length : forall k v l, ksorted cmp l ->
  length (ins_list cmp k v l) = if mem_list cmp k l then length l else S (length l).
Proof.
  intros k v l. unfold mem_list. induction l as [|[k1 v1] l IH]; intros Hs; [reflexivity|].
  cbn [ins_list]. rewrite find_list_cons. cbn [fst].
  apply ksorted_cons_iff in Hs. destruct Hs as [Hs1 Hs2]. cbn [fst] in Hs2.
  destruct (cmp k k1) eqn:E; cbn [is_eq length].
  - reflexivity.
  - rewrite find_list_all_gt; [reflexivity|].
    eapply Forall_impl; [|exact Hs2]. intros e He. cbn beta in He. eapply c_lt_trans; eassumption.
  - rewrite (IH Hs1). destruct (find_list cmp k l); reflexivity.
Qed.

Lemma del_list_length : forall k l, ksorted cmp l ->
  length (del_list cmp k l) = if mem_list cmp k l then pred (length l) else length l.
Proof.
  intros k l. unfold mem_list. induction l as [|[k1 v1] l IH]; intros Hs; [reflexivity|].
  cbn [del_list]. rewrite find_list_cons. cbn [fst].
  apply ksorted_cons_iff in Hs. destruct Hs as [Hs1 Hs2]. cbn [fst] in Hs2.
  destruct (cmp k k1) eqn:E; cbn [is_eq length].
  - reflexivity.
  - rewrite find_list_all_gt; [reflexivity|].
    eapply Forall_impl; [|exact Hs2]. intros e He. cbn beta in He. eapply c_lt_trans; eassumption.
  - rewrite (IH Hs1). destruct (find_list cmp k l) as [e|] eqn:F; [|reflexivity].
    destruct l as [|x l]; [discriminate|]. reflexivity.
Qed.

(* ---------- Floor / Ceiling ---------- *)
Definition not_above (k : Z) (e : entry) : Prop := cmp k (fst e) <> Lt.   (* key of e <= k *)
Definition not_below (k : Z) (e : entry) : Prop := cmp k (fst e) <> Gt.   (* key of e >= k *)

Lemma floor_keep_iff : forall k e, negb (is_lt (cmp k (fst e))) = true <-> not_above k e.
Proof. intros k e. unfold not_above. destruct (cmp k (fst e)); cbn; split; congruence. Qed.
Lemma ceil_keep_iff : forall k e, negb (is_gt (cmp k (fst e))) = true <-> not_below k e.
Proof. intros k e. unfold not_below. destruct (cmp k (fst e)); cbn; split; congruence. Qed.

Lemma floor_list_last_opt : forall k l,
  floor_list cmp k l = last_opt (filter (fun e => negb (is_lt (cmp k (fst e)))) l).
Proof. intros k l. unfold floor_list. rewrite last_opt_last. reflexivity. Qed.

Lemma ksorted_filter : forall f l, ksorted cmp l -> ksorted cmp (filter f l).
Proof.
  intros f l. induction l as [|x l IH]; intros H; [constructor|].
  apply ksorted_cons_iff in H. destruct H as [H1 H2]. cbn [filter].
  destruct (f x); [|apply IH; exact H1].
  apply ksorted_cons_iff. split; [apply IH; exact H1|].
  rewrite Forall_forall in *. intros e He. apply filter_In in He. apply H2. tauto.
Qed.

(* least / greatest element of a sorted list *)
Theorem hd_least : forall l e, ksorted cmp l -> hd_error l = Some e ->
  In e l /\ forall e', In e' l -> e' = e \/ cmp (fst e) (fst e') = Lt.
Proof.
  intros l e Hs H. destruct l as [|x l]; [discriminate|]. inversion H; subst x.
  split; [left; reflexivity|]. intros e' [<-|He']; [left; reflexivity|].
  right. eapply ksorted_hd_lt; eassumption.
Qed.

Theorem last_greatest : forall l e, ksorted cmp l -> last_opt l = Some e ->
  In e l /\ forall e', In e' l -> e' = e \/ cmp (fst e') (fst e) = Lt.
Proof.
  intros l e Hs H. split; [eapply last_opt_In; exact H|].
  induction l as [|x l IH]; intros e' He'; [destruct He'|].
  destruct l as [|y l].
  - inversion H; subst. destruct He' as [<-|[]]. left. reflexivity.
  - rewrite last_opt_cons_cons in H. destruct He' as [<-|He'].
    + right. eapply ksorted_hd_lt; [exact Hs|]. eapply last_opt_In. exact H.
    + apply IH; [eapply ksorted_tail; exact Hs | exact H | exact He'].
Qed.

Lemma hd_error_None_iff : forall A (l : list A), hd_error l = None <-> l = [].
Proof. intros A [|x l]; split; intros H; try reflexivity; discriminate. Qed.

Lemma last_opt_None_iff : forall A (l : list A), last_opt l = None <-> l = [].
Proof. intros A l. split; [apply last_opt_None | intros ->; reflexivity]. Qed.

Lemma filter_nil_iff : forall A (f : A -> bool) l, filter f l = [] <-> forall x, In x l -> f x = false.
Proof.
  intros A f l. induction l as [|x l IH]; cbn [filter].
  - split; [intros _ x [] | reflexivity].
  - destruct (f x) eqn:E.
    + split; [discriminate|]. intros H. specialize (H x (or_introl eq_refl)). congruence.
    + rewrite IH. split.
      * intros H y [<-|Hy]; [exact E | apply H; exact Hy].
      * intros H y Hy. apply H. right. exact Hy.
Qed.

(* Floor(k): the greatest entry whose key is not above k.
   - it is an entry of the list, its key is not above k;
   - every entry not above k is that entry or strictly below it (so nothing lies strictly between
     the result and k);
   - not-found exactly when every entry is above k. *)
Theorem floor_list_spec : forall k l, ksorted cmp l ->
  match floor_list cmp k l with
  | Some e => In e l /\ not_above k e /\
              (forall e', In e' l -> not_above k e' -> e' = e \/ cmp (fst e') (fst e) = Lt) /\
              (forall e', In e' l -> cmp (fst e) (fst e') = Lt -> cmp k (fst e') = Lt)
  | None => forall e', In e' l -> cmp k (fst e') = Lt
  end.
Proof.
  intros k l Hs. rewrite floor_list_last_opt.
  match goal with |- match last_opt (filter ?g l) with _ => _ end => set (f := g) end.
  destruct (last_opt (filter f l)) as [e|] eqn:E.
  - pose proof (ksorted_filter f l Hs) as Hsf.
    destruct (last_greatest _ _ Hsf E) as [Hin Hgr].
    apply filter_In in Hin. destruct Hin as [Hin Hfe].
    assert (Hmax : forall e', In e' l -> not_above k e' -> e' = e \/ cmp (fst e') (fst e) = Lt).
    { intros e' He' Hna. apply Hgr. apply filter_In. split; [exact He'|].
      apply floor_keep_iff. exact Hna. }
    repeat split.
    + exact Hin.
    + apply floor_keep_iff. exact Hfe.
    + exact Hmax.
    + intros e' He' Hlt. destruct (cmp k (fst e')) eqn:Ek; [| reflexivity |].
      * exfalso. destruct (Hmax e' He') as [->|Hc]; [unfold not_above; congruence | |].
        -- rewrite c_refl in Hlt. discriminate.
        -- apply c_lt_gt in Hc. congruence.
      * exfalso. destruct (Hmax e' He') as [->|Hc]; [unfold not_above; congruence | |].
        -- rewrite c_refl in Hlt. discriminate.
        -- apply c_lt_gt in Hc. congruence.
  - apply last_opt_None in E. intros e' He'.
    rewrite filter_nil_iff in E. specialize (E e' He'). unfold f in E.
    destruct (cmp k (fst e')); cbn in E; [discriminate|reflexivity|discriminate].
Qed.

Theorem floor_list_None_iff : forall k l,
  floor_list cmp k l = None <-> (forall e, In e l -> cmp k (fst e) = Lt).
Proof.
  intros k l. rewrite floor_list_last_opt, last_opt_None_iff, filter_nil_iff. split.
  - intros H e He. specialize (H e He). destruct (cmp k (fst e)); cbn in H; congruence.
  - intros H e He. rewrite (H e He). reflexivity.
Qed.

(* Ceiling(k): the least entry whose key is not below k. *)
Theorem ceiling_list_spec : forall k l, ksorted cmp l ->
  match ceiling_list cmp k l with
  | Some e => In e l /\ not_below k e /\
              (forall e', In e' l -> not_below k e' -> e' = e \/ cmp (fst e) (fst e') = Lt) /\
              (forall e', In e' l -> cmp (fst e') (fst e) = Lt -> cmp k (fst e') = Gt)
  | None => forall e', In e' l -> cmp k (fst e') = Gt
  end.
Proof.
  intros k l Hs. unfold ceiling_list.
  match goal with |- match hd_error (filter ?g l) with _ => _ end => set (f := g) end.
  destruct (hd_error (filter f l)) as [e|] eqn:E.
  - pose proof (ksorted_filter f l Hs) as Hsf.
    destruct (hd_least _ _ Hsf E) as [Hin Hle].
    apply filter_In in Hin. destruct Hin as [Hin Hfe].
    assert (Hmin : forall e', In e' l -> not_below k e' -> e' = e \/ cmp (fst e) (fst e') = Lt).
    { intros e' He' Hnb. apply Hle. apply filter_In. split; [exact He'|].
      apply ceil_keep_iff. exact Hnb. }
    repeat split.
    + exact Hin.
    + apply ceil_keep_iff. exact Hfe.
    + exact Hmin.
    + intros e' He' Hlt. destruct (cmp k (fst e')) eqn:Ek; [| | reflexivity].
      * exfalso. destruct (Hmin e' He') as [->|Hc]; [unfold not_below; congruence | |].
        -- rewrite c_refl in Hlt. discriminate.
        -- apply c_lt_gt in Hc. congruence.
      * exfalso. destruct (Hmin e' He') as [->|Hc]; [unfold not_below; congruence | |].
        -- rewrite c_refl in Hlt. discriminate.
        -- apply c_lt_gt in Hc. congruence.
  - apply hd_error_None_iff in E. intros e' He'.
    rewrite filter_nil_iff in E. specialize (E e' He'). unfold f in E.
    destruct (cmp k (fst e')); cbn in E; [discriminate|discriminate|reflexivity].
Qed.

Theorem ceiling_list_None_iff : forall k l,
  ceiling_list cmp k l = None <-> (forall e, In e l -> cmp k (fst e) = Gt).
Proof.
  intros k l. unfold ceiling_list. rewrite hd_error_None_iff, filter_nil_iff. split.
  - intros H e He. specialize (H e He). destruct (cmp k (fst e)); cbn in H; congruence.
  - intros H e He. rewrite (H e He). reflexivity.
Qed.

(* a key that is present is its own floor and ceiling *)
Lemma floor_list_present : forall k l e, ksorted cmp l -> find_list cmp k l = Some e -> floor_list cmp k l = Some e.
Proof.
  intros k l e Hs Hf. apply find_list_Some in Hf. destruct Hf as [Hin Heq].
  pose proof (floor_list_spec k l Hs) as H. destruct (floor_list cmp k l) as [e0|].
  - destruct H as (H1 & H2 & H3 & H4). f_equal.
    destruct (H3 e Hin) as [->|Hc]; [unfold not_above; congruence | reflexivity |].
    exfalso. specialize (H4 e Hin). apply H2.
    rewrite (c_eq_l _ _ _ Heq). exact Hc.
  - specialize (H e Hin). congruence.
Qed.

Lemma ceiling_list_present : forall k l e, ksorted cmp l -> find_list cmp k l = Some e -> ceiling_list cmp k l = Some e.
Proof.
  intros k l e Hs Hf. apply find_list_Some in Hf. destruct Hf as [Hin Heq].
  pose proof (ceiling_list_spec k l Hs) as H. destruct (ceiling_list cmp k l) as [e0|].
  - destruct H as (H1 & H2 & H3 & H4). f_equal.
    destruct (H3 e Hin) as [->|Hc]; [unfold not_below; congruence | reflexivity |].
    exfalso. apply H2. rewrite (c_eq_l _ _ _ Heq). apply c_lt_gt. exact Hc.
  - specialize (H e Hin). congruence.
Qed.

End WithCmp.

Print Assumptions cmp_of_SWO.
Print Assumptions mrun_sorted.
Print Assumptions mrun_nodup.
Print Assumptions find_ins_list.
Print Assumptions find_del_list.
Print Assumptions mrun_last_live.
Print Assumptions del_absent.
Print Assumptions floor_list_spec.
Print Assumptions ceiling_list_spec.
Print Assumptions hd_least.
Print Assumptions last_greatest.
