(* The heap iterator's Values(): for every index the Go code builds a temporary heap of the index's
   level, pops (index - level_start) times and reports the next pop.  So Values() is, level by
   level, the drained temporary heap of that level: a permutation of the backing array whose first
   element is the root.  None of this needs the comparator to be an order, nor the array to be a
   valid heap; the requested statements (with [heap_ok h]) follow as corollaries. *)
From Coq Require Import ZArith List Lia Bool Arith Permutation.
From Gods Require Import Common.Cmp Common.ListAux Model.Heap Proofs.HeapProofs.
Import ListNotations.

(* ---------- numOfBits / evaluateRange ---------- *)

Lemma nbits_0 : forall fuel, nbits fuel 0 = 0.
Proof. intros [|f]; reflexivity. Qed.

Lemma nbits_pow : forall k fuel n, k < fuel -> 2 ^ k <= n < 2 ^ (S k) -> nbits fuel n = S k.
Proof.
  induction k as [|k IH]; intros fuel n Hf Hn; destruct fuel as [|f]; try lia; cbn [nbits].
  - assert (n = 1) by (simpl in Hn; lia). subst n.
    change (1 =? 0) with false. change (1 / 2) with 0. cbv iota. now rewrite nbits_0.
  - rewrite !Nat.pow_succ_r' in Hn.
    assert (Hpos : 2 ^ k <> 0) by (apply Nat.pow_nonzero; lia).
    destruct (Nat.eqb_spec n 0) as [C|_]; [lia|].
    f_equal. apply IH; [lia|].
    rewrite Nat.pow_succ_r'.
    pose proof (Nat.div_mod_eq n 2) as E.
    pose proof (Nat.mod_upper_bound n 2 ltac:(lia)) as B.
    lia.
Qed.

Lemma level_start_spec : forall k index,
  2 ^ k - 1 <= index < 2 ^ (S k) - 1 -> level_start index = 2 ^ k - 1.
Proof.
  intros k index H. unfold level_start.
  assert (Hk : k < 2 ^ k) by (apply Nat.pow_gt_lin_r; lia).
  rewrite (nbits_pow k) by lia.
  replace (S k - 1) with k by lia. reflexivity.
Qed.

(* ---------- generic list facts ---------- *)

Lemma nth_error_default : forall (l : list Z) n d,
  match nth_error l n with Some v => v | None => d end = nth n l d.
Proof.
  induction l as [|a l IH]; intros [|n] d; simpl; auto.
Qed.

Lemma map_nth_seq_shift : forall (D : list Z) s d,
  map (fun i => nth (i - s) D d) (seq s (length D)) = D.
Proof.
  induction D as [|a D IH]; intros s d; [reflexivity|].
  cbn [length seq map]. rewrite Nat.sub_diag. cbn [nth]. f_equal.
  rewrite <- (IH (S s) d) at 2.
  apply map_ext_in. intros i Hi. apply in_seq in Hi.
  replace (i - s) with (S (i - S s)) by lia. reflexivity.
Qed.

Lemma map_get_seq : forall h : list Z, map (get h) (seq 0 (length h)) = h.
Proof.
  intros h. rewrite <- (map_nth_seq_shift h 0 0%Z) at 3.
  apply map_ext. intros i. unfold get. now rewrite Nat.sub_0_r.
Qed.

Section HeapValues.
Variable cmp : cmpf.

Theorem values_length : forall h, length (values cmp h) = length h.
Proof. intros h. unfold values. now rewrite map_length, seq_length. Qed.

(* ---------- popping k times then once more = k-th element of the drained heap ---------- *)

Lemma drain_nil : forall fuel, drain cmp fuel [] = [].
Proof. intros [|f]; reflexivity. Qed.

Lemma pop_popn_drain : forall k fuel t,
  length t <= fuel -> snd (pop cmp (popn cmp k t)) = nth_error (drain cmp fuel t) k.
Proof.
  induction k as [|k IH]; intros fuel t Hf; cbn [popn].
  - destruct t as [|x t'].
    + rewrite drain_nil. reflexivity.
    + destruct fuel as [|f]; [simpl in Hf; lia|].
      cbn [drain]. rewrite pop_cons. reflexivity.
  - destruct t as [|x t'].
    + change (fst (pop cmp [])) with (@nil Z).
      rewrite (IH fuel) by (simpl; lia). rewrite !drain_nil. destruct k; reflexivity.
    + destruct fuel as [|f]; [simpl in Hf; lia|].
      cbn [drain]. destruct (pop cmp (x :: t')) as [h' [y|]] eqn:E.
      * cbn [fst nth_error]. apply IH.
        pose proof (pop_length _ _ _ _ E) as HL. simpl in HL, Hf. lia.
      * apply pop_none in E. destruct E as [C _]. discriminate C.
Qed.

(* ---------- the temporary heap of a level ---------- *)

Definition tmp_heap (h : list Z) (ns : list nat) : list Z :=
  fold_left (fun acc n => push cmp [get h n] acc) ns [].

Lemma fold_push_perm : forall h ns acc,
  Permutation (fold_left (fun acc n => push cmp [get h n] acc) ns acc) (acc ++ map (get h) ns).
Proof.
  intros h. induction ns as [|n ns IH]; intros acc; cbn [fold_left map].
  - now rewrite app_nil_r.
  - rewrite IH. rewrite push_perm. rewrite <- app_assoc. reflexivity.
Qed.

Lemma tmp_heap_perm : forall h ns, Permutation (tmp_heap h ns) (map (get h) ns).
Proof. intros h ns. unfold tmp_heap. now rewrite fold_push_perm. Qed.

(* what the iterator reports at [index], for an index of level k *)
Lemma iter_value_level : forall k h index,
  2 ^ k - 1 <= index < 2 ^ (S k) - 1 ->
  let s := 2 ^ k - 1 in
  let T := tmp_heap h (seq s (Nat.min (s + (s + 1)) (length h) - s)) in
  iter_value cmp h index = nth (index - s) (drain cmp (length T) T) 0%Z.
Proof.
  intros k h index H s T. unfold iter_value.
  rewrite (level_start_spec k index H). cbv zeta. fold s. fold (tmp_heap h (seq s (Nat.min (s + (s + 1)) (length h) - s))).
  fold T. rewrite (pop_popn_drain (index - s) (length T) T) by lia.
  apply nth_error_default.
Qed.

(* the values reported for one whole level are the drained temporary heap of that level *)
Lemma values_level : forall k h,
  let s := 2 ^ k - 1 in
  let c := Nat.min (s + (s + 1)) (length h) - s in
  let T := tmp_heap h (seq s c) in
  map (iter_value cmp h) (seq s c) = drain cmp (length T) T.
Proof.
  intros k h s c T.
  assert (HT : length T = c).
  { unfold T. rewrite (Permutation_length (tmp_heap_perm h (seq s c))). now rewrite map_length, seq_length. }
  set (D := drain cmp (length T) T).
  assert (HD : length D = c).
  { unfold D. rewrite (Permutation_length (drain_perm cmp T)). exact HT. }
  transitivity (map (fun i => nth (i - s) D 0%Z) (seq s (length D)));
    [|apply map_nth_seq_shift].
  rewrite HD.
  apply map_ext_in. intros i Hi. apply in_seq in Hi.
  apply (iter_value_level k h i).
  rewrite Nat.pow_succ_r'. fold s. unfold c in Hi.
  assert (0 < 2 ^ k) by (apply Nat.neq_0_lt_0, Nat.pow_nonzero; lia). lia.
Qed.

Lemma values_level_perm : forall k h,
  let s := 2 ^ k - 1 in
  let c := Nat.min (s + (s + 1)) (length h) - s in
  Permutation (map (iter_value cmp h) (seq s c)) (map (get h) (seq s c)).
Proof.
  intros k h s c. pose proof (values_level k h) as E. cbv zeta in E. fold s in E. fold c in E.
  rewrite E. rewrite drain_perm. apply tmp_heap_perm.
Qed.

Lemma values_prefix_perm : forall h k,
  let m := Nat.min (2 ^ k - 1) (length h) in
  Permutation (map (iter_value cmp h) (seq 0 m)) (map (get h) (seq 0 m)).
Proof.
  intros h. induction k as [|k IH]; cbv zeta in *.
  - reflexivity.
  - assert (Hpos : 0 < 2 ^ k) by (apply Nat.neq_0_lt_0, Nat.pow_nonzero; lia).
    set (s := 2 ^ k - 1) in *.
    assert (Hs' : 2 ^ S k - 1 = s + (s + 1)) by (rewrite Nat.pow_succ_r'; unfold s; lia).
    rewrite Hs'.
    destruct (Nat.le_gt_cases (length h) s) as [Hle|Hgt].
    + rewrite Nat.min_r in IH by lia. rewrite Nat.min_r by lia. exact IH.
    + rewrite Nat.min_l in IH by lia.
      replace (Nat.min (s + (s + 1)) (length h))
        with (s + (Nat.min (s + (s + 1)) (length h) - s)) by lia.
      rewrite seq_app, !map_app. cbn [plus].
      apply Permutation_app; [exact IH|].
      apply (values_level_perm k h).
Qed.

(* Values() neither loses nor alters elements: no hypothesis on h or on the comparator needed *)
Theorem values_perm_any : forall h, Permutation (values cmp h) h.
Proof.
  intros h. unfold values.
  pose proof (values_prefix_perm h (length h)) as P. cbv zeta in P.
  assert (Hk : length h < 2 ^ length h) by (apply Nat.pow_gt_lin_r; lia).
  rewrite Nat.min_r in P by lia.
  rewrite P. now rewrite map_get_seq.
Qed.

Theorem values_head_any : forall h, hd_error (values cmp h) = hd_error h.
Proof.
  intros [|x t]; reflexivity.
Qed.

Theorem values_perm : forall h, heap_ok cmp h -> Permutation (values cmp h) h.
Proof. intros h _. apply values_perm_any. Qed.

Theorem values_head : forall h, heap_ok cmp h -> hd_error (values cmp h) = hd_error h.
Proof. intros h _. apply values_head_any. Qed.

End HeapValues.

Print Assumptions values_length.
Print Assumptions values_perm_any.
Print Assumptions values_perm.
Print Assumptions values_head_any.
Print Assumptions values_head.
