(* B-tree: the shape invariant is preserved by put / remove, which never hit a [None] (= Go panic).
   No ordering hypothesis is needed: [search] always returns a position <= length es. *)
From Coq Require Import ZArith List Lia Bool Arith.
From Gods Require Import Common.Cmp Model.BTree Proofs.BTreeInd Proofs.BTreeMap.
Import ListNotations.

Notation entry := BTree.entry.
Local Arguments maybe_split : simpl never.
Local Arguments rebalance_child : simpl never.

(* entry-count bounds: the top node has between lo and m-1 entries, every node below it between
   minEntries m and m-1 *)
Inductive cnt (m : nat) : nat -> node -> Prop :=
| cnt_N : forall lo es cs, (lo <= length es <= maxEntries m)%nat ->
    Forall (cnt m (minEntries m)) cs -> cnt m lo (N es cs).

(* The documented invariant: all leaves at the same depth h ([bal], which also says that a node with
   k > 0 children has k - 1 entries), at most m - 1 entries (hence at most m children) per node, at
   least minEntries m entries in every non-root node and at least one in the root. *)
Definition btree_inv (m : nat) (root : option node) : Prop :=
  match root with
  | None => True
  | Some n => exists h, bal h n /\ cnt m 1 n
  end.

Definition hroot (root : option node) : nat := match root with None => 0 | Some n => height n end.

Lemma cnt_inv : forall m lo es cs, cnt m lo (N es cs) <->
  ((lo <= length es <= maxEntries m)%nat /\ Forall (cnt m (minEntries m)) cs).
Proof.
  intros m lo es cs. split.
  - intros H. inversion H; subst. auto.
  - intros [H1 H2]. constructor; assumption.
Qed.

Lemma cnt_weaken : forall m lo lo' n, cnt m lo n -> (lo' <= lo)%nat -> cnt m lo' n.
Proof.
  intros m lo lo' [es cs] H Hle. apply cnt_inv in H. apply cnt_inv. destruct H as [H1 H2]. split; [lia|exact H2].
Qed.

Lemma cnt_raise : forall m lo lo' es cs, cnt m lo (N es cs) -> (lo' <= length es)%nat -> cnt m lo' (N es cs).
Proof.
  intros m lo lo' es cs H Hle. apply cnt_inv in H. apply cnt_inv. destruct H as [H1 H2]. split; [lia|exact H2].
Qed.

Section Inv.
Variable m : nat.
Hypothesis Hm : (3 <= m)%nat.
Variable cmp : cmpf.

Notation minE := (minEntries m).
Notation maxE := (maxEntries m).

(* ---------- arithmetic of the order ---------- *)
Lemma minE_middle : minE = middle m.
Proof.
  unfold minEntries, middle. replace (m + 1)%nat with ((m - 1) + 1 * 2)%nat by lia.
  rewrite Nat.div_add by lia. lia.
Qed.

Lemma middle_bound : (2 * middle m <= m - 1)%nat.
Proof.
  unfold middle. pose proof (Nat.div_mod (m - 1) 2 ltac:(lia)) as H. lia.
Qed.

Lemma middle_bound2 : (m - 2 <= 2 * middle m)%nat.
Proof.
  unfold middle. pose proof (Nat.div_mod (m - 1) 2 ltac:(lia)) as H.
  pose proof (Nat.mod_upper_bound (m - 1) 2 ltac:(lia)) as H2. lia.
Qed.

Lemma minE_pos : (1 <= minE)%nat.
Proof. rewrite minE_middle. pose proof middle_bound2. lia. Qed.

Lemma two_minE : (2 * minE <= maxE)%nat.
Proof. rewrite minE_middle. unfold maxEntries. apply middle_bound. Qed.

Lemma maxE_eq : maxE = (m - 1)%nat.
Proof. reflexivity. Qed.

(* ---------- bal helpers ---------- *)
Lemma bal_change_entries_leaf : forall es es', bal 1 (N es []) -> bal 1 (N es' []).
Proof. intros. reflexivity. Qed.

Lemma Forall_firstn : forall A (P : A -> Prop) k l, Forall P l -> Forall P (firstn k l).
Proof.
  intros A P k l H. rewrite <- (firstn_skipn k l) in H. apply Forall_app in H. tauto.
Qed.
Lemma Forall_skipn : forall A (P : A -> Prop) k l, Forall P l -> Forall P (skipn k l).
Proof.
  intros A P k l H. rewrite <- (firstn_skipn k l) in H. apply Forall_app in H. tauto.
Qed.

(* ---------- insertion ---------- *)
Definition ins_ok (h lo : nat) (r : ires) : Prop :=
  match r with
  | IOk n' => bal h n' /\ cnt m lo n'
  | ISplit l mid rr => bal h l /\ bal h rr /\ cnt m minE l /\ cnt m minE rr
  end.

Lemma maybe_split_inv : forall h lo es cs,
  bal h (N es cs) -> (lo <= length es <= S maxE)%nat -> Forall (cnt m minE) cs ->
  ins_ok h lo (maybe_split m (N es cs)).
Proof.
  intros h lo es cs Hb Hlen Hf. unfold maybe_split.
  destruct (maxE <? length es)%nat eqn:E.
  - apply Nat.ltb_lt in E. assert (Hes : length es = m) by (unfold maxEntries in *; lia).
    pose proof middle_bound as HM1. pose proof middle_bound2 as HM2. pose proof minE_middle as HM3.
    destruct (nth_error es (middle m)) as [mid|] eqn:En; [|apply nth_error_None in En; lia].
    unfold ins_ok.
    assert (HlenL : length (firstn (middle m) es) = middle m) by (rewrite firstn_length; lia).
    assert (HlenR : length (skipn (S (middle m)) es) = (m - 1 - middle m)%nat) by (rewrite skipn_length; lia).
    destruct h as [|[|h']]; [contradiction| |].
    + apply bal_1 in Hb. subst cs. rewrite firstn_nil, skipn_nil.
      split; [reflexivity|]. split; [reflexivity|]. split; apply cnt_inv; (split; [unfold maxEntries; lia|constructor]).
    + apply bal_SS in Hb. destruct Hb as [Hl Hfb].
      split; [|split; [|split]].
      * apply bal_SS. split; [rewrite firstn_length; lia|apply Forall_firstn; exact Hfb].
      * apply bal_SS. split; [rewrite skipn_length; lia|apply Forall_skipn; exact Hfb].
      * apply cnt_inv. split; [unfold maxEntries; lia|apply Forall_firstn; exact Hf].
      * apply cnt_inv. split; [unfold maxEntries; lia|apply Forall_skipn; exact Hf].
  - apply Nat.ltb_ge in E. unfold ins_ok. split; [exact Hb|]. apply cnt_inv. split; [lia|exact Hf].
Qed.

Lemma bal_replace_entries : forall h es es' cs, length es' = length es -> bal h (N es cs) -> bal h (N es' cs).
Proof.
  intros h es es' cs Hl Hb. destruct h as [|[|h']]; [contradiction|exact Hb|].
  apply bal_SS in Hb. apply bal_SS. rewrite Hl. exact Hb.
Qed.

Lemma ins_inv : forall fuel h lo e n, bal h n -> cnt m lo n -> (h <= fuel)%nat ->
  exists r b, ins m cmp fuel e n = Some (r, b) /\ ins_ok h lo r.
Proof.
  induction fuel as [|f IH]; intros h lo e [es cs] Hb Hc Hfuel.
  - destruct h; [contradiction|lia].
  - cbn [ins]. apply cnt_inv in Hc. destruct Hc as [Hlen Hf].
    destruct (search cmp (fst e) es) as [pos found] eqn:Es.
    destruct (search_bound _ _ _ _ _ Es) as [Hpos Hfound].
    destruct found.
    + specialize (Hfound eq_refl). eexists _, _. split; [reflexivity|].
      unfold ins_ok. split.
      * eapply bal_replace_entries; [|exact Hb]. apply replace_at_length. exact Hfound.
      * apply cnt_inv. rewrite replace_at_length by exact Hfound. split; assumption.
    + destruct h as [|[|h']]; [contradiction| |].
      * pose proof Hb as Hb0. apply bal_1 in Hb. subst cs. eexists _, _. split; [reflexivity|].
        apply maybe_split_inv; [reflexivity| |constructor]. rewrite insert_at_length. lia.
      * pose proof Hb as Hb0. apply bal_SS in Hb. destruct Hb as [Hl Hfb].
        destruct cs as [|c0 cs0] eqn:Ecs; [discriminate|]. rewrite <- Ecs in *. clear Ecs c0 cs0.
        destruct (nth_error cs pos) as [c|] eqn:Ec; [|apply nth_error_None in Ec; lia].
        destruct (split_nth _ _ _ _ Ec) as (cs1 & cs2 & -> & Hc1).
        apply Forall_app_mid in Hf. destruct Hf as (Hf1 & Hfc & Hf2).
        apply Forall_app_mid in Hfb. destruct Hfb as (Hb1 & Hbc & Hb2).
        destruct (IH (S h') minE e c Hbc Hfc ltac:(lia)) as (rc & bc & Ei & Hok). rewrite Ei.
        rewrite <- Hc1. rewrite replace_at_app.
        destruct rc as [c'|l mid rr]; unfold ins_ok in Hok.
        -- destruct Hok as [Hbc' Hcc']. eexists _, _. split; [reflexivity|]. unfold ins_ok. split.
           ++ apply bal_SS. split; [rewrite !app_length in *; cbn [length] in *; lia|]. apply Forall_app_mid. auto.
           ++ apply cnt_inv. split; [lia|]. apply Forall_app_mid. auto.
        -- destruct Hok as (Hbl & Hbr & Hcl & Hcr). eexists _, _. split; [reflexivity|].
           replace (cs1 ++ l :: cs2) with ((cs1 ++ [l]) ++ cs2) by (rewrite <- app_assoc; reflexivity).
           replace (S (length cs1)) with (length (cs1 ++ [l])) by (rewrite app_length; cbn; lia).
           rewrite insert_at_app. rewrite <- app_assoc. cbn [app].
           apply maybe_split_inv.
           ++ apply bal_SS. rewrite insert_at_length. split; [rewrite !app_length in *; cbn [length] in *; lia|].
              apply Forall_app_mid. split; [exact Hb1|]. split; [exact Hbl|]. constructor; assumption.
           ++ rewrite insert_at_length. lia.
           ++ apply Forall_app_mid. split; [exact Hf1|]. split; [exact Hcl|]. constructor; assumption.
Qed.

Theorem put_inv : forall e root, btree_inv m root ->
  exists root' b, put m cmp (S (hroot root)) e root = Some (root', b) /\ btree_inv m root'.
Proof.
  intros e [n|] Hinv; cbn [put hroot].
  - destruct Hinv as (h & Hb & Hc). rewrite (bal_height _ _ Hb).
    destruct (ins_inv (S h) h 1 e n Hb Hc ltac:(lia)) as (r & b & Ei & Hok). rewrite Ei.
    destruct r as [n'|l mid rr]; unfold ins_ok in Hok.
    + eexists _, _. split; [reflexivity|]. exists h. exact Hok.
    + destruct Hok as (Hbl & Hbr & Hcl & Hcr). eexists _, _. split; [reflexivity|].
      exists (S h). destruct h as [|h']; [contradiction|]. split.
      * apply bal_SS. split; [reflexivity|]. constructor; [exact Hbl|]. constructor; [exact Hbr|constructor].
      * apply cnt_inv. split; [cbn [length]; unfold maxEntries; lia|].
        constructor; [exact Hcl|]. constructor; [exact Hcr|constructor].
  - eexists _, _. split; [reflexivity|]. exists 1%nat. split; [reflexivity|].
    apply cnt_inv. split; [cbn [length]; unfold maxEntries; lia|constructor].
Qed.

End Inv.
