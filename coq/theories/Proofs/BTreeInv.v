(* B-tree: the shape invariant is preserved by put / remove, which never hit a [None] (= Go panic).
   No ordering hypothesis is needed: [search] always returns a position <= length es. *)
From Coq Require Import ZArith List Lia Bool Arith.
From Gods Require Import Common.Cmp Model.BTree Proofs.BTreeInd Proofs.BTreeMap.
Import ListNotations.

Notation entry := BTree.entry.
Local Arguments maybe_split : simpl never.
Local Arguments rebalance_child : simpl never.

(* entry-count bounds: the top node has between lo and m-1 entries, every node below it between
   minEntries m and m-1 *)
Inductive cnt (m : nat) : nat -> node -> Prop :=
| cnt_N : forall lo es cs, (lo <= length es <= maxEntries m)%nat ->
    Forall (cnt m (minEntries m)) cs -> cnt m lo (N es cs).

(* The documented invariant: all leaves at the same depth h ([bal], which also says that a node with
   k > 0 children has k - 1 entries), at most m - 1 entries (hence at most m children) per node, at
   least minEntries m entries in every non-root node and at least one in the root. *)
Definition btree_inv (m : nat) (root : option node) : Prop :=
  match root with
  | None => True
  | Some n => exists h, bal h n /\ cnt m 1 n
  end.

Definition hroot (root : option node) : nat := match root with None => 0 | Some n => height n end.

Lemma cnt_inv : forall m lo es cs, cnt m lo (N es cs) <->
  ((lo <= length es <= maxEntries m)%nat /\ Forall (cnt m (minEntries m)) cs).
Proof.
  intros m lo es cs. split.
  - intros H. inversion H; subst. auto.
  - intros [H1 H2]. constructor; assumption.
Qed.

Lemma cnt_weaken : forall m lo lo' n, cnt m lo n -> (lo' <= lo)%nat -> cnt m lo' n.
Proof.
  intros m lo lo' [es cs] H Hle. apply cnt_inv in H. apply cnt_inv. destruct H as [H1 H2]. split; [lia|exact H2].
Qed.

Lemma cnt_raise : forall m lo lo' es cs, cnt m lo (N es cs) -> (lo' <= length es)%nat -> cnt m lo' (N es cs).
Proof.
  intros m lo lo' es cs H Hle. apply cnt_inv in H. apply cnt_inv. destruct H as [H1 H2]. split; [lia|exact H2].
Qed.

Section Inv.
Variable m : nat.
Hypothesis Hm : (3 <= m)%nat.
Variable cmp : cmpf.

Notation minE := (minEntries m).
Notation maxE := (maxEntries m).

(* ---------- arithmetic of the order ---------- *)
Lemma minE_middle : minE = middle m.
Proof.
  unfold minEntries, middle. replace (m + 1)%nat with ((m - 1) + 1 * 2)%nat by lia.
  rewrite Nat.div_add by lia. lia.
Qed.

Lemma middle_bound : (2 * middle m <= m - 1)%nat.
Proof.
  unfold middle. pose proof (Nat.div_mod (m - 1) 2 ltac:(lia)) as H. lia.
Qed.

Lemma middle_bound2 : (m - 2 <= 2 * middle m)%nat.
Proof.
  unfold middle. pose proof (Nat.div_mod (m - 1) 2 ltac:(lia)) as H.
  pose proof (Nat.mod_upper_bound (m - 1) 2 ltac:(lia)) as H2. lia.
Qed.

Lemma minE_pos : (1 <= minE)%nat.
Proof. rewrite minE_middle. pose proof middle_bound2. lia. Qed.

Lemma two_minE : (2 * minE <= maxE)%nat.
Proof. rewrite minE_middle. unfold maxEntries. apply middle_bound. Qed.

Lemma maxE_eq : maxE = (m - 1)%nat.
Proof. reflexivity. Qed.

(* ---------- bal helpers ---------- *)
Lemma bal_change_entries_leaf : forall es es', bal 1 (N es []) -> bal 1 (N es' []).
Proof. intros. reflexivity. Qed.

Lemma Forall_firstn : forall A (P : A -> Prop) k l, Forall P l -> Forall P (firstn k l).
Proof.
  intros A P k l H. rewrite <- (firstn_skipn k l) in H. apply Forall_app in H. tauto.
Qed.
Lemma Forall_skipn : forall A (P : A -> Prop) k l, Forall P l -> Forall P (skipn k l).
Proof.
  intros A P k l H. rewrite <- (firstn_skipn k l) in H. apply Forall_app in H. tauto.
Qed.

(* ---------- insertion ---------- *)
Definition ins_ok (h lo : nat) (r : ires) : Prop :=
  match r with
  | IOk n' => bal h n' /\ cnt m lo n'
  | ISplit l mid rr => bal h l /\ bal h rr /\ cnt m minE l /\ cnt m minE rr
  end.

Lemma maybe_split_inv : forall h lo es cs,
  bal h (N es cs) -> (lo <= length es <= S maxE)%nat -> Forall (cnt m minE) cs ->
  ins_ok h lo (maybe_split m (N es cs)).
Proof.
  intros h lo es cs Hb Hlen Hf. unfold maybe_split.
  destruct (maxE <? length es)%nat eqn:E.
  - apply Nat.ltb_lt in E. assert (Hes : length es = m) by (unfold maxEntries in *; lia).
    pose proof middle_bound as HM1. pose proof middle_bound2 as HM2. pose proof minE_middle as HM3.
    destruct (nth_error es (middle m)) as [mid|] eqn:En; [|apply nth_error_None in En; lia].
    unfold ins_ok.
    assert (HlenL : length (firstn (middle m) es) = middle m) by (rewrite firstn_length; lia).
    assert (HlenR : length (skipn (S (middle m)) es) = (m - 1 - middle m)%nat) by (rewrite skipn_length; lia).
    destruct h as [|[|h']]; [contradiction| |].
    + apply bal_1 in Hb. subst cs. rewrite firstn_nil, skipn_nil.
      split; [reflexivity|]. split; [reflexivity|]. split; apply cnt_inv; (split; [unfold maxEntries; lia|constructor]).
    + apply bal_SS in Hb. destruct Hb as [Hl Hfb].
      split; [|split; [|split]].
      * apply bal_SS. split; [rewrite firstn_length; lia|apply Forall_firstn; exact Hfb].
      * apply bal_SS. split; [rewrite skipn_length; lia|apply Forall_skipn; exact Hfb].
      * apply cnt_inv. split; [unfold maxEntries; lia|apply Forall_firstn; exact Hf].
      * apply cnt_inv. split; [unfold maxEntries; lia|apply Forall_skipn; exact Hf].
  - apply Nat.ltb_ge in E. unfold ins_ok. split; [exact Hb|]. apply cnt_inv. split; [lia|exact Hf].
Qed.

Lemma bal_replace_entries : forall h es es' cs, length es' = length es -> bal h (N es cs) -> bal h (N es' cs).
Proof.
  intros h es es' cs Hl Hb. destruct h as [|[|h']]; [contradiction|exact Hb|].
  apply bal_SS in Hb. apply bal_SS. rewrite Hl. exact Hb.
Qed.

Lemma ins_inv : forall fuel h lo e n, bal h n -> cnt m lo n -> (h <= fuel)%nat ->
  exists r b, ins m cmp fuel e n = Some (r, b) /\ ins_ok h lo r.
Proof.
  induction fuel as [|f IH]; intros h lo e [es cs] Hb Hc Hfuel.
  - destruct h; [contradiction|lia].
  - cbn [ins]. apply cnt_inv in Hc. destruct Hc as [Hlen Hf].
    destruct (search cmp (fst e) es) as [pos found] eqn:Es.
    destruct (search_bound _ _ _ _ _ Es) as [Hpos Hfound].
    destruct found.
    + specialize (Hfound eq_refl). eexists _, _. split; [reflexivity|].
      unfold ins_ok. split.
      * eapply bal_replace_entries; [|exact Hb]. apply replace_at_length. exact Hfound.
      * apply cnt_inv. rewrite replace_at_length by exact Hfound. split; assumption.
    + destruct h as [|[|h']]; [contradiction| |].
      * pose proof Hb as Hb0. apply bal_1 in Hb. subst cs. eexists _, _. split; [reflexivity|].
        apply maybe_split_inv; [reflexivity| |constructor]. rewrite insert_at_length. lia.
      * pose proof Hb as Hb0. apply bal_SS in Hb. destruct Hb as [Hl Hfb].
        destruct cs as [|c0 cs0] eqn:Ecs; [discriminate|]. cbv beta iota. rewrite <- Ecs in *. clear Ecs c0 cs0.
        destruct (nth_error cs pos) as [c|] eqn:Ec; [|apply nth_error_None in Ec; lia].
        destruct (split_nth _ _ _ _ Ec) as (cs1 & cs2 & -> & Hc1).
        apply Forall_app_mid in Hf. destruct Hf as (Hf1 & Hfc & Hf2).
        apply Forall_app_mid in Hfb. destruct Hfb as (Hb1 & Hbc & Hb2).
        destruct (IH (S h') minE e c Hbc Hfc ltac:(lia)) as (rc & bc & Ei & Hok). rewrite Ei.
        rewrite <- Hc1.
        destruct rc as [c'|l mid rr]; unfold ins_ok in Hok; cbv beta iota; rewrite replace_at_app.
        -- destruct Hok as [Hbc' Hcc']. eexists _, _. split; [reflexivity|]. unfold ins_ok. split.
           ++ apply bal_SS. split; [rewrite !app_length in *; cbn [length] in *; lia|]. apply Forall_app_mid. auto.
           ++ apply cnt_inv. split; [lia|]. apply Forall_app_mid. auto.
        -- destruct Hok as (Hbl & Hbr & Hcl & Hcr). eexists _, _. split; [reflexivity|].
           replace (cs1 ++ l :: cs2) with ((cs1 ++ [l]) ++ cs2) by (rewrite <- app_assoc; reflexivity).
           replace (S (length cs1)) with (length (cs1 ++ [l])) by (rewrite app_length; cbn; lia).
           rewrite insert_at_app. rewrite <- app_assoc. cbn [app].
           apply maybe_split_inv.
           ++ apply bal_SS. rewrite insert_at_length. split; [rewrite !app_length in *; cbn [length] in *; lia|].
              apply Forall_app_mid. split; [exact Hb1|]. split; [exact Hbl|]. constructor; assumption.
           ++ rewrite insert_at_length. lia.
           ++ apply Forall_app_mid. split; [exact Hf1|]. split; [exact Hcl|]. constructor; assumption.
Qed.

Theorem put_inv : forall e root, btree_inv m root ->
  exists root' b, put m cmp (S (hroot root)) e root = Some (root', b) /\ btree_inv m root'.
Proof.
  intros e [n|] Hinv; cbn [put hroot].
  - destruct Hinv as (h & Hb & Hc). rewrite (bal_height _ _ Hb).
    destruct (ins_inv (S h) h 1 e n Hb Hc ltac:(lia)) as (r & b & Ei & Hok). rewrite Ei.
    destruct r as [n'|l mid rr]; unfold ins_ok in Hok.
    + eexists _, _. split; [reflexivity|]. exists h. exact Hok.
    + destruct Hok as (Hbl & Hbr & Hcl & Hcr). eexists _, _. split; [reflexivity|].
      exists (S h). destruct h as [|h']; [contradiction|]. split.
      * apply bal_SS. split; [reflexivity|]. constructor; [exact Hbl|]. constructor; [exact Hbr|constructor].
      * apply cnt_inv. split; [cbn [length]; unfold maxEntries; lia|].
        constructor; [exact Hcl|]. constructor; [exact Hcr|constructor].
  - eexists _, _. split; [reflexivity|]. exists 1%nat. split; [reflexivity|].
    apply cnt_inv. split; [cbn [length]; unfold maxEntries; lia|constructor].
Qed.

(* ---------- deletion: rebalance_child never fails and restores the entry counts ---------- *)
Lemma list_rev_case : forall A (l : list A), l = [] \/ exists l' x, l = l' ++ [x].
Proof.
  intros A l. destruct l as [|a l]; [left; reflexivity|right].
  destruct (exists_last (l:=a :: l)) as (l' & x & E); [discriminate|]. exists l', x. exact E.
Qed.

Lemma bl_pair_Forall : forall (P : node -> Prop) lcs ccs a b, Forall P lcs -> Forall P ccs ->
  bl_pair lcs ccs = (a, b) -> Forall P a /\ Forall P b.
Proof.
  intros P lcs ccs a b H1 H2 E. destruct (list_rev_case _ lcs) as [->|(l' & x & ->)].
  - rewrite bl_pair_nil in E. injection E as <- <-. auto.
  - rewrite bl_pair_snoc in E. injection E as <- <-. apply Forall_app in H1. destruct H1 as [H1 H1'].
    split; [exact H1|]. constructor; [exact (Forall_inv H1')|exact H2].
Qed.

Lemma br_pair_Forall : forall (P : node -> Prop) rcs ccs a b, Forall P rcs -> Forall P ccs ->
  br_pair rcs ccs = (a, b) -> Forall P a /\ Forall P b.
Proof.
  intros P rcs ccs a b H1 H2 E. destruct rcs as [|rc rcs']; cbn in E; injection E as <- <-.
  - auto.
  - split; [exact (Forall_inv_tail H1)|]. apply Forall_app. split; [exact H2|]. constructor; [exact (Forall_inv H1)|constructor].
Qed.

Definition reb_good (es : list entry) (r : option node) : Prop :=
  exists es' cs', r = Some (N es' cs') /\ (length es - 1 <= length es' <= length es)%nat /\
                  Forall (cnt m minE) cs'.

(* left sibling L, deficient child C at position S (length cs1) *)
Lemma borrow_left_ok : forall es cs1 les lcs ces ccs cs2,
  length (cs1 ++ N les lcs :: N ces ccs :: cs2) = S (length es) ->
  Forall (cnt m minE) cs1 -> Forall (cnt m minE) cs2 -> cnt m minE (N les lcs) ->
  length ces = (minE - 1)%nat -> Forall (cnt m minE) ccs ->
  (minE < length les)%nat ->
  reb_good es (borrow_left_f m es (cs1 ++ N les lcs :: N ces ccs :: cs2) (S (length cs1)) ces ccs).
Proof.
  intros es cs1 les lcs ces ccs cs2 Hlen Hf1 Hf2 HL Hces Hccs Hlt.
  pose proof minE_pos as Hp. pose proof two_minE as H2.
  apply cnt_inv in HL. destruct HL as [HLl HLf].
  rewrite app_length in Hlen. cbn [length] in Hlen.
  unfold borrow_left_f, left_sib. cbn [Nat.leb]. rewrite Nat.sub_succ, Nat.sub_0_r.
  rewrite nth_error_app_mid. apply Nat.ltb_lt in Hlt. rewrite Hlt. apply Nat.ltb_lt in Hlt.
  destruct (nth_error es (length cs1)) as [sep|] eqn:Esep; [|apply nth_error_None in Esep; lia].
  destruct (last_opt_cons_some _ les) as [le Hle]; [intros ->; cbn in Hlt; lia|]. rewrite Hle.
  destruct (bl_pair lcs ccs) as [lcs' ccs'] eqn:Ep.
  destruct (bl_pair_Forall _ _ _ _ _ HLf Hccs Ep) as [Hlcs' Hccs'].
  rewrite replace_at_adj_lo, replace_at_adj_hi.
  eexists _, _. split; [reflexivity|]. split.
  - rewrite replace_at_length by lia. lia.
  - apply Forall_adj. split; [exact Hf1|]. split; [|split; [|exact Hf2]].
    + apply cnt_inv. split; [|exact Hlcs']. apply last_opt_Some in Hle.
      assert (length les = S (length (removelast les))) by (rewrite Hle at 1; rewrite app_length; cbn; lia). lia.
    + apply cnt_inv. split; [cbn [length]; lia|exact Hccs'].
Qed.

Lemma borrow_left_none_first : forall es cs ces ccs, borrow_left_f m es cs 0 ces ccs = None.
Proof. reflexivity. Qed.

Lemma borrow_left_none : forall es cs1 les lcs ces ccs cs2,
  (length les <= minE)%nat ->
  borrow_left_f m es (cs1 ++ N les lcs :: N ces ccs :: cs2) (S (length cs1)) ces ccs = None.
Proof.
  intros es cs1 les lcs ces ccs cs2 Hle.
  unfold borrow_left_f, left_sib. cbn [Nat.leb]. rewrite Nat.sub_succ, Nat.sub_0_r.
  rewrite nth_error_app_mid. apply Nat.ltb_ge in Hle. rewrite Hle. reflexivity.
Qed.

(* deficient child C at position length cs1, right sibling R *)
Lemma borrow_right_ok : forall es cs1 ces ccs res rcs cs2,
  length (cs1 ++ N ces ccs :: N res rcs :: cs2) = S (length es) ->
  Forall (cnt m minE) cs1 -> Forall (cnt m minE) cs2 -> cnt m minE (N res rcs) ->
  length ces = (minE - 1)%nat -> Forall (cnt m minE) ccs ->
  (minE < length res)%nat ->
  reb_good es (borrow_right_f m es (cs1 ++ N ces ccs :: N res rcs :: cs2) (length cs1) ces ccs).
Proof.
  intros es cs1 ces ccs res rcs cs2 Hlen Hf1 Hf2 HR Hces Hccs Hlt.
  pose proof minE_pos as Hp. pose proof two_minE as H2.
  apply cnt_inv in HR. destruct HR as [HRl HRf].
  rewrite app_length in Hlen. cbn [length] in Hlen.
  unfold borrow_right_f.
  replace (nth_error (cs1 ++ N ces ccs :: N res rcs :: cs2) (S (length cs1))) with (Some (N res rcs)).
  2:{ rewrite nth_error_app2 by lia. replace (S (length cs1) - length cs1)%nat with 1%nat by lia. reflexivity. }
  apply Nat.ltb_lt in Hlt. rewrite Hlt. apply Nat.ltb_lt in Hlt.
  destruct (nth_error es (length cs1)) as [sep|] eqn:Esep; [|apply nth_error_None in Esep; lia].
  destruct res as [|re res']; [cbn in Hlt; lia|].
  destruct (br_pair rcs ccs) as [rcs' ccs'] eqn:Ep.
  destruct (br_pair_Forall _ _ _ _ _ HRf Hccs Ep) as [Hrcs' Hccs'].
  rewrite replace_at_adj_lo, replace_at_adj_hi.
  eexists _, _. split; [reflexivity|]. split.
  - rewrite replace_at_length by lia. lia.
  - apply Forall_adj. split; [exact Hf1|]. split; [|split; [|exact Hf2]].
    + apply cnt_inv. split; [rewrite app_length; cbn [length]; lia|exact Hccs'].
    + apply cnt_inv. split; [cbn [length] in *; lia|exact Hrcs'].
Qed.

Lemma borrow_right_none_last : forall es cs1 ces ccs,
  borrow_right_f m es (cs1 ++ [N ces ccs]) (length cs1) ces ccs = None.
Proof.
  intros es cs1 ces ccs. unfold borrow_right_f.
  replace (nth_error (cs1 ++ [N ces ccs]) (S (length cs1))) with (@None node); [reflexivity|].
  symmetry. apply nth_error_None. rewrite app_length. cbn. lia.
Qed.

Lemma borrow_right_none : forall es cs1 ces ccs res rcs cs2,
  (length res <= minE)%nat ->
  borrow_right_f m es (cs1 ++ N ces ccs :: N res rcs :: cs2) (length cs1) ces ccs = None.
Proof.
  intros es cs1 ces ccs res rcs cs2 Hle. unfold borrow_right_f.
  replace (nth_error (cs1 ++ N ces ccs :: N res rcs :: cs2) (S (length cs1))) with (Some (N res rcs)).
  2:{ rewrite nth_error_app2 by lia. replace (S (length cs1) - length cs1)%nat with 1%nat by lia. reflexivity. }
  apply Nat.ltb_ge in Hle. rewrite Hle. reflexivity.
Qed.

Lemma merge_right_ok : forall es cs1 ces ccs res rcs cs2,
  length (cs1 ++ N ces ccs :: N res rcs :: cs2) = S (length es) ->
  Forall (cnt m minE) cs1 -> Forall (cnt m minE) cs2 -> cnt m minE (N res rcs) ->
  length ces = (minE - 1)%nat -> Forall (cnt m minE) ccs ->
  (length res <= minE)%nat ->
  reb_good es (merge_f es (cs1 ++ N ces ccs :: N res rcs :: cs2) (length cs1) ces ccs).
Proof.
  intros es cs1 ces ccs res rcs cs2 Hlen Hf1 Hf2 HR Hces Hccs Hle.
  pose proof minE_pos as Hp. pose proof two_minE as H2.
  apply cnt_inv in HR. destruct HR as [HRl HRf].
  rewrite app_length in Hlen. cbn [length] in Hlen.
  unfold merge_f.
  replace (nth_error (cs1 ++ N ces ccs :: N res rcs :: cs2) (S (length cs1))) with (Some (N res rcs)).
  2:{ rewrite nth_error_app2 by lia. replace (S (length cs1) - length cs1)%nat with 1%nat by lia. reflexivity. }
  destruct (nth_error es (length cs1)) as [sep|] eqn:Esep; [|apply nth_error_None in Esep; lia].
  rewrite replace_at_adj_lo, remove_at_adj_hi.
  eexists _, _. split; [reflexivity|]. split.
  - rewrite remove_at_length by lia. lia.
  - apply Forall_app_mid. split; [exact Hf1|]. split; [|exact Hf2].
    apply cnt_inv. split; [rewrite app_length; cbn [length]; lia|]. apply Forall_app. split; assumption.
Qed.

Lemma merge_left_ok : forall es cs1 les lcs ces ccs,
  length (cs1 ++ [N les lcs; N ces ccs]) = S (length es) ->
  Forall (cnt m minE) cs1 -> cnt m minE (N les lcs) ->
  length ces = (minE - 1)%nat -> Forall (cnt m minE) ccs ->
  (length les <= minE)%nat ->
  reb_good es (merge_f es (cs1 ++ [N les lcs; N ces ccs]) (S (length cs1)) ces ccs).
Proof.
  intros es cs1 les lcs ces ccs Hlen Hf1 HL Hces Hccs Hle.
  pose proof minE_pos as Hp. pose proof two_minE as H2.
  apply cnt_inv in HL. destruct HL as [HLl HLf].
  rewrite app_length in Hlen. cbn [length] in Hlen.
  unfold merge_f, left_sib. cbn [Nat.leb]. rewrite Nat.sub_succ, Nat.sub_0_r.
  replace (nth_error (cs1 ++ [N les lcs; N ces ccs]) (S (S (length cs1)))) with (@None node).
  2:{ symmetry. apply nth_error_None. rewrite app_length. cbn. lia. }
  rewrite nth_error_app_mid.
  destruct (nth_error es (length cs1)) as [sep|] eqn:Esep; [|apply nth_error_None in Esep; lia].
  rewrite replace_at_adj_hi, remove_at_adj_lo.
  eexists _, _. split; [reflexivity|]. split.
  - rewrite remove_at_length by lia. lia.
  - apply Forall_app_mid. split; [exact Hf1|]. split; [|constructor].
    apply cnt_inv. split; [rewrite app_length; cbn [length]; lia|]. apply Forall_app. split; assumption.
Qed.

Lemma rebalance_ok : forall es cs1 c cs2,
  length (cs1 ++ c :: cs2) = S (length es) -> (1 <= length es)%nat ->
  Forall (cnt m minE) cs1 -> cnt m (minE - 1) c -> Forall (cnt m minE) cs2 ->
  reb_good es (rebalance_child m es (cs1 ++ c :: cs2) (length cs1)).
Proof.
  intros es cs1 [ces ccs] cs2 Hlen Hes Hf1 Hc Hf2.
  rewrite rebalance_child_eq. rewrite nth_error_app_mid.
  destruct (minE <=? length ces)%nat eqn:E.
  - apply Nat.leb_le in E. eexists _, _. split; [reflexivity|]. split; [lia|].
    apply Forall_app_mid. split; [exact Hf1|]. split; [|exact Hf2]. eapply cnt_raise; eassumption.
  - apply Nat.leb_gt in E. apply cnt_inv in Hc. destruct Hc as [Hcl Hccs].
    assert (Hces : length ces = (minE - 1)%nat) by lia.
    (* what the right-hand side does once borrowing from the left has failed *)
    assert (Hright : forall r, cs2 = r :: tl cs2 ->
              reb_good es (match borrow_right_f m es (cs1 ++ N ces ccs :: cs2) (length cs1) ces ccs with
                           | Some x => Some x
                           | None => merge_f es (cs1 ++ N ces ccs :: cs2) (length cs1) ces ccs
                           end)).
    { intros [res rcs] E2. rewrite E2 in *. remember (tl cs2) as cs2' eqn:E2'. clear E2' E2.
      pose proof (Forall_inv Hf2) as HR. pose proof (Forall_inv_tail Hf2) as Hf2'.
      destruct (Nat.lt_ge_cases minE (length res)) as [Hlt|Hge].
      - destruct (borrow_right_ok es cs1 ces ccs res rcs cs2' Hlen Hf1 Hf2' HR Hces Hccs Hlt) as (es' & cs' & Eq & Hgood).
        rewrite Eq. exists es', cs'. split; [reflexivity|exact Hgood].
      - rewrite borrow_right_none by exact Hge.
        apply merge_right_ok; assumption. }
    destruct (list_rev_case _ cs1) as [->|(cs1' & [les lcs] & ->)].
    + (* first child: no left sibling *)
      cbn [app length] in *. rewrite borrow_left_none_first.
      destruct cs2 as [|r cs2']; [cbn [length] in Hlen; lia|]. apply (Hright r). reflexivity.
    + apply Forall_app in Hf1. destruct Hf1 as [Hf1' HL]. pose proof (Forall_inv HL) as HL'.
      assert (Ecs : (cs1' ++ [N les lcs]) ++ N ces ccs :: cs2 = cs1' ++ N les lcs :: N ces ccs :: cs2)
        by (rewrite <- app_assoc; reflexivity).
      assert (Ei : length (cs1' ++ [N les lcs]) = S (length cs1')) by (rewrite app_length; cbn; lia).
      destruct (Nat.lt_ge_cases minE (length les)) as [Hlt|Hge].
      * rewrite Ecs, Ei in *.
        destruct (borrow_left_ok es cs1' les lcs ces ccs cs2 Hlen Hf1' Hf2 HL' Hces Hccs Hlt) as (es' & cs' & Eq & Hgood).
        rewrite Eq. exists es', cs'. split; [reflexivity|exact Hgood].
      * destruct cs2 as [|r cs2'].
        -- rewrite Ecs, Ei in *. rewrite borrow_left_none by exact Hge.
           replace (cs1' ++ [N les lcs; N ces ccs]) with ((cs1' ++ [N les lcs]) ++ [N ces ccs]) at 1 by (rewrite <- app_assoc; reflexivity).
           rewrite <- Ei at 1. rewrite borrow_right_none_last.
           apply merge_left_ok; assumption.
        -- specialize (Hright r eq_refl). rewrite Ecs, Ei in *. rewrite borrow_left_none by exact Hge. exact Hright.
Qed.

Lemma reb_good_cnt : forall lo es r, reb_good es r -> (lo <= length es <= maxE)%nat ->
  exists n', r = Some n' /\ cnt m (lo - 1) n'.
Proof.
  intros lo es r (es' & cs' & -> & Hlen & Hf) Hes. eexists. split; [reflexivity|].
  apply cnt_inv. split; [lia|exact Hf].
Qed.

Lemma delmax_ok : forall fuel h lo n, bal h n -> cnt m lo n -> (1 <= lo)%nat -> (h <= fuel)%nat ->
  exists n' e, delmax m fuel n = Some (n', e) /\ cnt m (lo - 1) n' /\ bal h n'.
Proof.
  induction fuel as [|f IH]; intros h lo [es cs] Hb Hc Hlo Hfuel.
  - destruct h; [contradiction|lia].
  - assert (Hgoal : exists n' e, delmax m (S f) (N es cs) = Some (n', e) /\ cnt m (lo - 1) n').
    { cbn [delmax]. apply cnt_inv in Hc. destruct Hc as [Hlen Hf].
      destruct h as [|[|h']]; [contradiction| |].
      - apply bal_1 in Hb. subst cs.
        destruct (last_opt_cons_some _ es) as [le Hle]; [intros ->; cbn in Hlen; lia|]. rewrite Hle.
        eexists _, _. split; [reflexivity|]. apply cnt_inv. split; [|constructor].
        apply last_opt_Some in Hle.
        assert (length es = S (length (removelast es))) by (rewrite Hle at 1; rewrite app_length; cbn; lia). lia.
      - apply bal_SS in Hb. destruct Hb as [Hl Hfb].
        destruct (list_rev_case _ cs) as [->|(cs1 & c & ->)]; [discriminate|].
        destruct (cs1 ++ [c]) as [|c0 cs0] eqn:Ecs; [destruct cs1; discriminate|]. rewrite <- Ecs in *. clear Ecs c0 cs0.
        rewrite app_length in *. cbn [length] in *.
        replace (length cs1 + 1 - 1)%nat with (length cs1) by lia. rewrite nth_error_app_mid.
        apply Forall_app in Hf. destruct Hf as [Hf1 Hfc]. apply Forall_inv in Hfc.
        apply Forall_app in Hfb. destruct Hfb as [Hb1 Hbc]. apply Forall_inv in Hbc.
        destruct (IH (S h') minE c Hbc Hfc minE_pos ltac:(lia)) as (c' & e & Ed & Hcc' & Hbc'). rewrite Ed.
        rewrite replace_at_app.
        destruct (reb_good_cnt lo es (rebalance_child m es (cs1 ++ [c']) (length cs1))) as (n1 & Er & Hn1).
        + apply rebalance_ok; [rewrite app_length; cbn [length]; lia|lia|exact Hf1|exact Hcc'|constructor].
        + exact Hlen.
        + rewrite Er. eexists _, _. split; [reflexivity|exact Hn1]. }
    destruct Hgoal as (n' & e & Ed & Hcn). exists n', e. split; [exact Ed|]. split; [exact Hcn|].
    destruct (delmax_inorder m Hm (S f) h (N es cs) n' e Hb Hfuel Ed) as [_ Hb']. exact Hb'.
Qed.

Lemma del_ok : forall fuel h lo key n, bal h n -> cnt m lo n -> (1 <= lo)%nat -> (h <= fuel)%nat ->
  exists n' b, del m cmp fuel key n = Some (n', b) /\ cnt m (lo - 1) n' /\ bal h n'.
Proof.
  induction fuel as [|f IH]; intros h lo key [es cs] Hb Hc Hlo Hfuel.
  - destruct h; [contradiction|lia].
  - cbn [del]. pose proof Hc as Hc0. apply cnt_inv in Hc. destruct Hc as [Hlen Hf].
    destruct (search cmp key es) as [pos found] eqn:Es.
    destruct (search_bound _ _ _ _ _ Es) as [Hpos Hfound].
    destruct h as [|[|h']]; [contradiction| |].
    + pose proof Hb as Hb0. apply bal_1 in Hb. subst cs. destruct found.
      * specialize (Hfound eq_refl). eexists _, _. split; [reflexivity|]. split; [|reflexivity].
        apply cnt_inv. rewrite remove_at_length by exact Hfound. split; [lia|constructor].
      * eexists _, _. split; [reflexivity|]. split; [|exact Hb0]. eapply cnt_weaken; [exact Hc0|lia].
    + pose proof Hb as Hb0. apply bal_SS in Hb. destruct Hb as [Hl Hfb].
      destruct cs as [|c0 cs0] eqn:Ecs; [discriminate|]. cbv beta iota. rewrite <- Ecs in *. clear Ecs c0 cs0.
      destruct (nth_error cs pos) as [c|] eqn:Ec; [|apply nth_error_None in Ec; lia].
      destruct (split_nth _ _ _ _ Ec) as (cs1 & cs2 & -> & Hc1).
      apply Forall_app_mid in Hf. destruct Hf as (Hf1 & Hfc & Hf2).
      apply Forall_app_mid in Hfb. destruct Hfb as (Hb1 & Hbc & Hb2).
      assert (Hreb : forall es' c', length es' = length es -> cnt m (minE - 1) c' -> bal (S h') c' ->
                exists n1, rebalance_child m es' (cs1 ++ c' :: cs2) (length cs1) = Some n1 /\
                           cnt m (lo - 1) n1 /\ bal (S (S h')) n1).
      { intros es' c' Hes' Hcc' Hbc'.
        destruct (reb_good_cnt lo es' (rebalance_child m es' (cs1 ++ c' :: cs2) (length cs1))) as (n1 & Er & Hn1).
        - apply rebalance_ok; [rewrite !app_length in *; cbn [length] in *; lia|lia|exact Hf1|exact Hcc'|exact Hf2].
        - lia.
        - exists n1. split; [exact Er|]. split; [exact Hn1|].
          destruct (rebalance_inorder m h' es' (cs1 ++ c' :: cs2) (length cs1) n1) as [_ Hbn1]; [| |exact Er|exact Hbn1].
          + rewrite !app_length in *; cbn [length] in *; lia.
          + apply Forall_app_mid. auto. }
      rewrite <- Hc1. destruct found.
      * specialize (Hfound eq_refl).
        destruct (delmax_ok f (S h') minE c Hbc Hfc minE_pos ltac:(lia)) as (c' & pred & Ed & Hcc' & Hbc'). rewrite Ed.
        rewrite replace_at_app.
        destruct (Hreb (replace_at (length cs1) pred es) c') as (n1 & Er & Hn1); [apply replace_at_length; lia|assumption|assumption|].
        rewrite Er. eexists _, _. split; [reflexivity|exact Hn1].
      * destruct (IH (S h') minE key c Hbc Hfc minE_pos ltac:(lia)) as (c' & bc & Edl & Hcc' & Hbc'). rewrite Edl.
        destruct bc.
        -- rewrite replace_at_app. destruct (Hreb es c' eq_refl Hcc' Hbc') as (n1 & Er & Hn1).
           rewrite Er. eexists _, _. split; [reflexivity|exact Hn1].
        -- eexists _, _. split; [reflexivity|]. split; [|exact Hb0]. eapply cnt_weaken; [exact Hc0|lia].
Qed.

Theorem remove_inv : forall key root, btree_inv m root ->
  exists root' b, remove m cmp (S (hroot root)) key root = Some (root', b) /\ btree_inv m root'.
Proof.
  intros key [n|] Hinv; cbn [remove hroot].
  - destruct Hinv as (h & Hb & Hc). rewrite (bal_height _ _ Hb).
    destruct (del_ok (S h) h 1 key n Hb Hc ltac:(lia) ltac:(lia)) as (n' & b & Ed & Hcn & Hbn). rewrite Ed.
    destruct n' as [[|e1 es1] cs1].
    + destruct cs1 as [|c1 cs1].
      * eexists _, _. split; [reflexivity|exact I].
      * eexists _, _. split; [reflexivity|]. destruct h as [|[|h']]; [contradiction| |].
        -- apply bal_1 in Hbn. discriminate.
        -- apply bal_SS in Hbn. destruct Hbn as [_ Hfb]. apply Forall_inv in Hfb.
           apply cnt_inv in Hcn. destruct Hcn as [_ Hf]. apply Forall_inv in Hf.
           exists (S h'). split; [exact Hfb|]. eapply cnt_weaken; [exact Hf|apply minE_pos].
    + eexists _, _. split; [reflexivity|]. exists h. split; [exact Hbn|].
      eapply cnt_raise; [exact Hcn|cbn [length]; lia].
  - eexists _, _. split; [reflexivity|exact I].
Qed.

End Inv.

(* ---------- boolean checker ---------- *)
Fixpoint okb (m lo h : nat) (n : node) : bool :=
  match h with
  | O => false
  | S h' =>
    match n with N es cs =>
      (lo <=? length es)%nat && (length es <=? maxEntries m)%nat &&
      match h' with
      | O => match cs with [] => true | _ => false end
      | S _ => (length cs =? S (length es))%nat && forallb (okb m (minEntries m) h') cs
      end
    end
  end.

Definition btree_okb (m : nat) (root : option node) : bool :=
  match root with
  | None => true
  | Some n => okb m 1 (height n) n
  end.

Lemma okb_spec : forall m h lo n, okb m lo h n = true <-> (bal h n /\ cnt m lo n).
Proof.
  intros m. induction h as [|h IH]; intros lo [es cs].
  - cbn. split; [discriminate|tauto].
  - cbn [okb]. rewrite !andb_true_iff, Nat.leb_le, Nat.leb_le. rewrite cnt_inv.
    destruct h as [|h'].
    + rewrite bal_1. destruct cs as [|c cs].
      * split; [intros [H _]; split; [reflexivity|split; [lia|constructor]]|intros (_ & H & _); split; [lia|reflexivity]].
      * split; [intros [_ H]; discriminate|intros [H _]; discriminate].
    + rewrite bal_SS, andb_true_iff, Nat.eqb_eq, forallb_forall.
      assert (Hiff : (forall x, In x cs -> okb m (minEntries m) (S h') x = true) <->
                     (Forall (bal (S h')) cs /\ Forall (cnt m (minEntries m)) cs)).
      { rewrite !Forall_forall. split.
        - intros H. split; intros x Hx; apply (IH (minEntries m) x); apply H; exact Hx.
        - intros [H1 H2] x Hx. apply IH. split; [apply H1|apply H2]; exact Hx. }
      rewrite Hiff. tauto.
Qed.

Theorem btree_okb_spec : forall m r, btree_okb m r = true <-> btree_inv m r.
Proof.
  intros m [n|]; cbn [btree_okb btree_inv]; [|tauto].
  rewrite okb_spec. split.
  - intros H. exists (height n). exact H.
  - intros (h & Hb & Hc). rewrite (bal_height _ _ Hb). split; assumption.
Qed.

(* consequences of the invariant used elsewhere *)
Lemma btree_inv_height : forall m n, btree_inv m (Some n) -> height n = maxheight n.
Proof.
  intros m n (h & Hb & _). rewrite (bal_height _ _ Hb), (bal_maxheight _ _ Hb). reflexivity.
Qed.

Lemma btree_inv_wf : forall m n, btree_inv m (Some n) -> wf_shape n.
Proof. intros m n (h & Hb & _). eapply bal_wf. exact Hb. Qed.

(* ---------- shape + refinement packaged together (fuel as passed by the machine) ---------- *)
Definition sorted_root (cmp : cmpf) (r : option node) : Prop :=
  match r with None => True | Some n => bst cmp n end.

Theorem put_correct : forall m cmp e root, (3 <= m)%nat -> SWO cmp ->
  btree_inv m root -> sorted_root cmp root ->
  exists root' b, put m cmp (S (hroot root)) e root = Some (root', b) /\
    btree_inv m root' /\ sorted_root cmp root' /\
    inorder' root' = MapSpec.ins_list cmp (fst e) (snd e) (inorder' root) /\
    b = negb (MapSpec.mem_list cmp (fst e) (inorder' root)).
Proof.
  intros m cmp e root Hm Hswo Hinv Hs.
  destruct (put_inv m Hm cmp e root Hinv) as (root' & b & Hp & Hinv').
  exists root', b. split; [exact Hp|]. split; [exact Hinv'|].
  destruct (put_inorder cmp Hswo m Hm (S (hroot root)) e root root' b) as (Hin & Hwf & Hb).
  - destruct root as [n|]; [|exact I]. cbn [hroot]. rewrite (btree_inv_height _ _ Hinv). lia.
  - destruct root as [n|]; [|exact I]. split; [eapply btree_inv_wf; exact Hinv|exact Hs].
  - exact Hp.
  - split; [|split; assumption]. destruct root' as [n'|]; [|exact I]. destruct Hwf as [_ Hbst]. exact Hbst.
Qed.

Theorem remove_correct : forall m cmp key root, (3 <= m)%nat -> SWO cmp ->
  btree_inv m root -> sorted_root cmp root ->
  exists root' b, remove m cmp (S (hroot root)) key root = Some (root', b) /\
    btree_inv m root' /\ sorted_root cmp root' /\
    inorder' root' = MapSpec.del_list cmp key (inorder' root) /\
    b = MapSpec.mem_list cmp key (inorder' root).
Proof.
  intros m cmp key root Hm Hswo Hinv Hs.
  destruct (remove_inv m Hm cmp key root Hinv) as (root' & b & Hp & Hinv').
  exists root', b. split; [exact Hp|]. split; [exact Hinv'|].
  destruct (remove_inorder cmp Hswo m Hm (S (hroot root)) key root root' b) as (Hin & Hwf & Hb & _).
  - destruct root as [n|]; [|exact I]. cbn [hroot bal_root]. split.
    + destruct Hinv as (h & Hbal & _). exists h. exact Hbal.
    + rewrite (btree_inv_height _ _ Hinv). lia.
  - destruct root as [n|]; [|exact I]. split; [eapply btree_inv_wf; exact Hinv|exact Hs].
  - exact Hp.
  - split; [|split; assumption]. destruct root' as [n'|]; [|exact I]. destruct Hwf as [_ Hbst]. exact Hbst.
Qed.

Print Assumptions put_inv.
Print Assumptions remove_inv.
Print Assumptions btree_okb_spec.
Print Assumptions put_correct.
Print Assumptions remove_correct.
