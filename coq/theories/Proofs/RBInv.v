(* Red-black tree: colour / black-height invariants are preserved by put and remove, and neither
   operation can reach a [None] (= Go nil dereference) on a well-formed tree.
   No hypothesis on the comparator is needed anywhere in this file. *)
From Coq Require Import ZArith List Lia Bool Arith.
From Gods Require Import Common.Cmp Model.RBTree.
Import ListNotations.

(* black height, measured along the left spine *)
Fixpoint bh (t : tree) : nat :=
  match t with E => 0 | T c l _ _ _ => bh l + match c with Black => 1 | Red => 0 end end.

Fixpoint rb (t : tree) : Prop :=
  match t with
  | E => True
  | T c l _ _ r => rb l /\ rb r /\ bh l = bh r /\ (c = Red -> col l = Black /\ col r = Black)
  end.

Definition rbt (t : tree) : Prop := rb t /\ col t = Black.

Lemma rbt_E : rbt E.
Proof. split; simpl; auto. Qed.

(* ---------- boolean checker ---------- *)
Definition is_black (t : tree) : bool := negb (is_red t).

Fixpoint rb_b (t : tree) : bool :=
  match t with
  | E => true
  | T c l _ _ r =>
      rb_b l && rb_b r && Nat.eqb (bh l) (bh r) &&
      match c with Red => is_black l && is_black r | Black => true end
  end.

Definition rb_okb (t : tree) : bool := rb_b t && is_black t.

Lemma is_black_spec t : is_black t = true <-> col t = Black.
Proof. unfold is_black, is_red. destruct (col t); simpl; split; congruence. Qed.

Lemma rb_b_spec t : rb_b t = true <-> rb t.
Proof.
  induction t as [|c l IHl k v r IHr]; simpl.
  - tauto.
  - rewrite !andb_true_iff, Nat.eqb_eq, IHl, IHr.
    destruct c.
    + rewrite andb_true_iff, !is_black_spec. intuition congruence.
    + intuition congruence.
Qed.

Theorem rb_okb_spec : forall t, rb_okb t = true <-> rbt t.
Proof.
  intros t. unfold rb_okb, rbt. rewrite andb_true_iff, rb_b_spec, is_black_spec. tauto.
Qed.

(* ---------- insertion ---------- *)

(* "almost" : children fine, root may be red with one red child *)
Definition rb_children (t : tree) : Prop :=
  match t with E => True | T _ l _ _ r => rb l /\ rb r /\ bh l = bh r end.

Definition ins_post (t t' : tree) (st : istat) : Prop :=
  bh t' = bh t /\
  match st with
  | IDone => rb t' /\ col t' = col t
  | ICheck => rb t' /\ col t' = Red /\ col t = Black
  | IRedRed d => rb_children t' /\ col t' = Red /\ col t = Red /\
                 match t' with
                 | E => False
                 | T _ l _ _ r => match d with
                                  | L => col l = Red /\ col r = Black
                                  | R => col r = Red /\ col l = Black end
                 end
  end.

Lemma is_red_true t : is_red t = true -> exists l k v r, t = T Red l k v r.
Proof. destruct t as [|[] l k v r]; unfold is_red; simpl; try discriminate. eauto. Qed.

Lemma is_red_false t : is_red t = false -> col t = Black.
Proof. unfold is_red. destruct (col t); congruence. Qed.

Ltac fin := repeat match goal with
                   | |- _ /\ _ => split
                   | |- _ -> _ => intro
                   end; simpl in *; try tauto; try congruence; try lia.

Lemma ins_up_L c l l' k v r st :
  rb r -> bh l = bh r -> (c = Red -> col l = Black /\ col r = Black) ->
  ins_post l l' st ->
  exists t' st', ins_up c l' k v r L st = Some (t', st') /\ ins_post (T c l k v r) t' st'.
Proof.
  intros Hr Hbh Hc (Pbh & P).
  destruct st as [| |d]; simpl.
  - do 2 eexists; split; [reflexivity|]. unfold ins_post; simpl.
    destruct P as (P1 & P2). rewrite P2. fin.
  - destruct P as (P1 & P2 & P3).
    destruct c; do 2 eexists; (split; [reflexivity|]); unfold ins_post; simpl.
    + destruct Hc as [Hc1 Hc2]; [reflexivity|]. rewrite P2. fin.
    + fin.
  - destruct P as (P1 & P2 & P3 & P4).
    destruct c.
    { exfalso. destruct Hc as [Hc _]; [reflexivity|]. congruence. }
    destruct l' as [|c' a xk xv bb]; [contradiction|].
    simpl in P1, P2, Pbh. subst c'. destruct P1 as (Ha & Hb & Hab).
    destruct (is_red r) eqn:Er.
    + apply is_red_true in Er. destruct Er as (ra & rk & rv & rb0 & ->).
      do 2 eexists; split; [reflexivity|]. unfold ins_post. simpl in *.
      destruct d; fin.
    + apply is_red_false in Er.
      destruct d.
      * do 2 eexists; split; [reflexivity|]. unfold ins_post. simpl in *. fin.
      * destruct P4 as [P4 P5].
        destruct bb as [|nc nl nk nv nr]; [discriminate|]. simpl in P4; subst nc.
        do 2 eexists; split; [reflexivity|]. unfold ins_post. simpl in *. fin.
Qed.

Lemma ins_up_R c l r r' k v st :
  rb l -> bh l = bh r -> (c = Red -> col l = Black /\ col r = Black) ->
  ins_post r r' st ->
  exists t' st', ins_up c l k v r' R st = Some (t', st') /\ ins_post (T c l k v r) t' st'.
Proof.
  intros Hl Hbh Hc (Pbh & P).
  destruct st as [| |d]; simpl.
  - do 2 eexists; split; [reflexivity|]. unfold ins_post; simpl.
    destruct P as (P1 & P2). rewrite P2. fin.
  - destruct P as (P1 & P2 & P3).
    destruct c; do 2 eexists; (split; [reflexivity|]); unfold ins_post; simpl.
    + destruct Hc as [Hc1 Hc2]; [reflexivity|]. rewrite P2. fin.
    + fin.
  - destruct P as (P1 & P2 & P3 & P4).
    destruct c.
    { exfalso. destruct Hc as [_ Hc]; [reflexivity|]. congruence. }
    destruct r' as [|c' a xk xv bb]; [contradiction|].
    simpl in P1, P2, Pbh. subst c'. destruct P1 as (Ha & Hb & Hab).
    destruct (is_red l) eqn:Er.
    + apply is_red_true in Er. destruct Er as (ra & rk & rv & rb0 & ->).
      do 2 eexists; split; [reflexivity|]. unfold ins_post. simpl in *.
      destruct d; fin.
    + apply is_red_false in Er.
      destruct d.
      * destruct P4 as [P4 P5].
        destruct a as [|nc nl nk nv nr]; [discriminate|]. simpl in P4; subst nc.
        do 2 eexists; split; [reflexivity|]. unfold ins_post. simpl in *. fin.
      * do 2 eexists; split; [reflexivity|]. unfold ins_post. simpl in *. fin.
Qed.

Lemma ins_inv cmp key val t :
  rb t -> exists t' st b, ins cmp key val t = Some (t', st, b) /\ ins_post t t' st.
Proof.
  induction t as [|c l IHl k v r IHr]; intros H.
  - simpl. do 3 eexists. split; [reflexivity|]. unfold ins_post. simpl. fin.
  - simpl in H. destruct H as (Hl & Hr & Hbh & Hc).
    simpl. destruct (cmp key k).
    + do 3 eexists; split; [reflexivity|]. unfold ins_post; simpl; fin.
    + destruct (IHl Hl) as (l' & st & b & E1 & P). rewrite E1.
      destruct (ins_up_L c l l' k v r st Hr Hbh Hc P) as (t' & st' & E2 & P2).
      rewrite E2. eauto.
    + destruct (IHr Hr) as (r' & st & b & E1 & P). rewrite E1.
      destruct (ins_up_R c l r r' k v st Hl Hbh Hc P) as (t' & st' & E2 & P2).
      rewrite E2. eauto.
Qed.

Lemma setcol_black_rb t : rb t -> rb (setcol Black t).
Proof. destruct t; simpl; intuition congruence. Qed.

Lemma col_setcol_black t : col (setcol Black t) = Black.
Proof. destruct t; reflexivity. Qed.

Theorem put_rbt : forall cmp k v t, rbt t -> exists t' b, put cmp k v t = Some (t', b) /\ rbt t'.
Proof.
  intros cmp k v t [Hrb Hc].
  destruct (ins_inv cmp k v t Hrb) as (t' & st & b & E1 & Pbh & P).
  unfold put. rewrite E1.
  destruct st as [| |d].
  - destruct P as [P1 P2]. do 2 eexists; split; [reflexivity|]. split; congruence.
  - destruct P as [P1 _]. do 2 eexists; split; [reflexivity|].
    split; [apply setcol_black_rb; assumption | apply col_setcol_black].
  - exfalso. destruct P as (_ & _ & P & _). congruence.
Qed.
Print Assumptions put_rbt.

(* ---------- deletion ---------- *)

(* Post-condition of [del]/[delmax] on a subtree whose black height was [bh0] and colour [c0].
   NOTE the quirk of the Go code: a black node with one red child is unlinked, the red child takes
   its place and STAYS RED, and the fix-up (deleteCase1..6) runs on it as if it were a deficient
   black node.  So for [DDeficit] the returned subtree may be red-rooted (possibly under a red
   parent!); the parent's fix-up always ends with that subtree under a black node. *)
Definition dpost (bh0 : nat) (c0 : color) (t' : tree) (st : dstat) : Prop :=
  rb t' /\
  match st with
  | DDone => bh t' = bh0 /\ (c0 = Black -> col t' = Black)
  | DDeficit => S (bh t') = bh0 /\ c0 = Black
  end.

(* Post-condition of the fix-up functions: a deficit is only passed upwards by a black-rooted tree *)
Definition dfix_post (bh0 : nat) (c0 : color) (t' : tree) (st : dstat) : Prop :=
  rb t' /\
  match st with
  | DDone => bh t' = bh0 /\ (c0 = Black -> col t' = Black)
  | DDeficit => S (bh t') = bh0 /\ c0 = Black /\ col t' = Black
  end.

Lemma dfix_dpost bh0 c0 t' st : dfix_post bh0 c0 t' st -> dpost bh0 c0 t' st.
Proof. unfold dfix_post, dpost. destruct st; tauto. Qed.

Definition cbit (c : color) : nat := match c with Black => 1 | Red => 0 end.

Lemma del_fix_3456_L pc l k v r :
  rb l -> rb r -> S (bh l) = bh r -> col r = Black ->
  exists t' st, del_fix_3456 pc l k v r L = Some (t', st) /\
     dfix_post (bh r + cbit pc) pc t' st /\ (pc = Red -> st = DDone).
Proof.
  intros Hl Hr Hbh Hs.
  destruct r as [|sc sl sk sv sr]; [simpl in Hbh; lia|].
  simpl in Hs. subst sc. simpl in Hr. destruct Hr as (Hsl & Hsr & Hbs & _).
  unfold del_fix_3456.
  destruct pc; destruct (col sl) eqn:Csl; destruct (col sr) eqn:Csr;
    try (destruct sl as [|c1 a xk xv b]; [discriminate Csl|]);
    try (destruct sr as [|c2 a2 yk yv b2]; [try discriminate Csr|]);
    unfold is_red; simpl in *; subst;
    try (do 2 eexists; split; [reflexivity|]; unfold dfix_post, cbit; simpl; fin).
Qed.

Lemma del_fix_3456_R pc l k v r :
  rb l -> rb r -> S (bh r) = bh l -> col l = Black ->
  exists t' st, del_fix_3456 pc l k v r R = Some (t', st) /\
     dfix_post (bh l + cbit pc) pc t' st /\ (pc = Red -> st = DDone).
Proof.
  intros Hl Hr Hbh Hs.
  destruct l as [|sc sl sk sv sr]; [simpl in Hbh; lia|].
  simpl in Hs. subst sc. simpl in Hl. destruct Hl as (Hsl & Hsr & Hbs & _).
  unfold del_fix_3456.
  destruct pc; destruct (col sl) eqn:Csl; destruct (col sr) eqn:Csr;
    try (destruct sl as [|c1 a xk xv b]; [discriminate Csl|]);
    try (destruct sr as [|c2 a2 yk yv b2]; [try discriminate Csr|]);
    unfold is_red; simpl in *; subst;
    try (do 2 eexists; split; [reflexivity|]; unfold dfix_post, cbit; simpl; fin).
Qed.

Lemma del_fix_L pc l k v r :
  rb l -> rb r -> S (bh l) = bh r -> (pc = Red -> col r = Black) ->
  exists t' st, del_fix pc l k v r L = Some (t', st) /\ dfix_post (bh r + cbit pc) pc t' st.
Proof.
  intros Hl Hr Hbh Hpc.
  unfold del_fix.
  destruct r as [|[|] sl sk sv sr].
  - simpl in Hbh; lia.
  - destruct pc; [discriminate (Hpc eq_refl)|].
    simpl in Hr, Hbh. destruct Hr as (Hsl & Hsr & Hbs & Hcs).
    destruct (Hcs eq_refl) as [Hc1 Hc2].
    destruct (del_fix_3456_L Red l k v sl Hl Hsl) as (p' & st & E1 & P & Hst); [lia|assumption|].
    rewrite E1. rewrite (Hst eq_refl) in *.
    do 2 eexists; split; [reflexivity|].
    unfold dfix_post, cbit in *. simpl in *. fin.
  - destruct (del_fix_3456_L pc l k v (T Black sl sk sv sr) Hl Hr Hbh eq_refl) as (p' & st & E1 & P & _).
    eauto.
Qed.

Lemma del_fix_R pc l k v r :
  rb l -> rb r -> S (bh r) = bh l -> (pc = Red -> col l = Black) ->
  exists t' st, del_fix pc l k v r R = Some (t', st) /\ dfix_post (bh l + cbit pc) pc t' st.
Proof.
  intros Hl Hr Hbh Hpc.
  unfold del_fix.
  destruct l as [|[|] sl sk sv sr].
  - simpl in Hbh; lia.
  - destruct pc; [discriminate (Hpc eq_refl)|].
    simpl in Hl, Hbh. destruct Hl as (Hsl & Hsr & Hbs & Hcs).
    destruct (Hcs eq_refl) as [Hc1 Hc2].
    destruct (del_fix_3456_R Red sr k v r Hsr Hr) as (p' & st & E1 & P & Hst); [lia|assumption|].
    rewrite E1. rewrite (Hst eq_refl) in *.
    do 2 eexists; split; [reflexivity|].
    unfold dfix_post, cbit in *. simpl in *. fin.
  - destruct (del_fix_3456_R pc (T Black sl sk sv sr) k v r Hl Hr Hbh eq_refl) as (p' & st & E1 & P & _).
    eauto.
Qed.

Lemma del_up_L c l l' k v r st :
  rb r -> bh l = bh r -> (c = Red -> col l = Black /\ col r = Black) ->
  dpost (bh l) (col l) l' st ->
  exists t' st', del_up c l' k v r L st = Some (t', st') /\ dfix_post (bh l + cbit c) c t' st'.
Proof.
  intros Hr Hbh Hc [Hl' P].
  destruct st; simpl.
  - do 2 eexists; split; [reflexivity|]. unfold dfix_post, cbit. simpl. fin.
  - destruct P as [P1 P2].
    destruct (del_fix_L c l' k v r Hl' Hr) as (t' & st' & E1 & P); [lia|tauto|].
    rewrite Hbh. eauto.
Qed.

Lemma del_up_R c l r r' k v st :
  rb l -> bh l = bh r -> (c = Red -> col l = Black /\ col r = Black) ->
  dpost (bh r) (col r) r' st ->
  exists t' st', del_up c l k v r' R st = Some (t', st') /\ dfix_post (bh l + cbit c) c t' st'.
Proof.
  intros Hl Hbh Hc [Hr' P].
  destruct st; simpl.
  - do 2 eexists; split; [reflexivity|]. unfold dfix_post, cbit. simpl. fin.
  - destruct P as [P1 P2].
    destruct (del_fix_R c l k v r' Hl Hr') as (t' & st' & E1 & P); [lia|tauto|].
    eauto.
Qed.

Lemma bh_T c l k v r : bh (T c l k v r) = bh l + cbit c.
Proof. reflexivity. Qed.

Lemma delmax_inv t :
  rb t -> t <> E ->
  exists t' mk mv st, delmax t = Some (t', mk, mv, st) /\ dpost (bh t) (col t) t' st.
Proof.
  induction t as [|c l IHl k v r IHr]; intros H Hne; [congruence|].
  destruct H as (Hl & Hr & Hbh & Hc).
  destruct r as [|rc rl rk rv rr].
  - simpl. do 4 eexists; split; [reflexivity|]. unfold dpost. simpl in *.
    destruct c; fin.
  - destruct IHr as (r' & mk & mv & st & E1 & P); [assumption|discriminate|].
    change (delmax (T c l k v (T rc rl rk rv rr)))
      with (match delmax (T rc rl rk rv rr) with
            | None => None
            | Some (r', mk, mv, st) =>
                match del_up c l k v r' R st with
                | None => None | Some (t', st') => Some (t', mk, mv, st') end
            end).
    rewrite E1.
    destruct (del_up_R c l _ r' k v st Hl Hbh Hc P) as (t' & st' & E2 & P2).
    rewrite E2. do 4 eexists; split; [reflexivity|].
    apply dfix_dpost. exact P2.
Qed.

Lemma del_inv cmp key t :
  rb t -> exists t' st b, del cmp key t = Some (t', st, b) /\ dpost (bh t) (col t) t' st.
Proof.
  induction t as [|c l IHl k v r IHr]; intros H.
  - simpl. do 3 eexists; split; [reflexivity|]. unfold dpost; simpl; fin.
  - pose proof H as (Hl & Hr & Hbh & Hc).
    rewrite bh_T. cbn [col del].
    destruct (cmp key k).
    + (* Eq *)
      destruct l as [|lc ll lk lv lr].
      * do 3 eexists; split; [destruct r; reflexivity|].
        unfold dpost. destruct r as [|rc rl rk rv rr]; destruct c; simpl in *; fin.
      * destruct r as [|rc rl rk rv rr].
        -- do 3 eexists; split; [reflexivity|].
           unfold dpost. destruct c; simpl in *; fin.
        -- destruct (delmax_inv (T lc ll lk lv lr) Hl) as (l' & mk & mv & st & E1 & P); [discriminate|].
           rewrite E1.
           destruct (del_up_L c _ l' mk mv _ st Hr Hbh Hc P) as (t' & st' & E2 & P2).
           rewrite E2. do 3 eexists; split; [reflexivity|].
           apply dfix_dpost. exact P2.
    + destruct (IHl Hl) as (l' & st & b & E1 & P). rewrite E1.
      destruct (del_up_L c l l' k v r st Hr Hbh Hc P) as (t' & st' & E2 & P2).
      rewrite E2. do 3 eexists; split; [reflexivity|].
      apply dfix_dpost. exact P2.
    + destruct (IHr Hr) as (r' & st & b & E1 & P). rewrite E1.
      destruct (del_up_R c l r r' k v st Hl Hbh Hc P) as (t' & st' & E2 & P2).
      rewrite E2. do 3 eexists; split; [reflexivity|].
      apply dfix_dpost. exact P2.
Qed.

Lemma dfix_post_rbt bh0 t' st : dfix_post bh0 Black t' st -> rbt t'.
Proof. unfold dfix_post, rbt. destruct st; tauto. Qed.

(* [remove] on a black-rooted node whose removal goes through [del] *)
Lemma del_root_rbt cmp key l k v r :
  rbt (T Black l k v r) ->
  (cmp key k = Eq -> l <> E /\ r <> E) ->
  exists t' st b, del cmp key (T Black l k v r) = Some (t', st, b) /\ rbt t'.
Proof.
  intros [H _] Hne. pose proof H as (Hl & Hr & Hbh & Hc).
  cbn [del].
  destruct (cmp key k).
  - destruct (Hne eq_refl) as [Hnl Hnr].
    destruct l as [|lc ll lk lv lr]; [congruence|].
    destruct r as [|rc rl rk rv rr]; [congruence|].
    destruct (delmax_inv (T lc ll lk lv lr) Hl) as (l' & mk & mv & st & E1 & P); [discriminate|].
    rewrite E1.
    destruct (del_up_L Black _ l' mk mv _ st Hr Hbh Hc P) as (t' & st' & E2 & P2).
    rewrite E2. do 3 eexists; split; [reflexivity|]. eapply dfix_post_rbt; eassumption.
  - destruct (del_inv cmp key l Hl) as (l' & st & b & E1 & P). rewrite E1.
    destruct (del_up_L Black l l' k v r st Hr Hbh Hc P) as (t' & st' & E2 & P2).
    rewrite E2. do 3 eexists; split; [reflexivity|]. eapply dfix_post_rbt; eassumption.
  - destruct (del_inv cmp key r Hr) as (r' & st & b & E1 & P). rewrite E1.
    destruct (del_up_R Black l r r' k v st Hl Hbh Hc P) as (t' & st' & E2 & P2).
    rewrite E2. do 3 eexists; split; [reflexivity|]. eapply dfix_post_rbt; eassumption.
Qed.

Theorem remove_rbt : forall cmp k t, rbt t -> exists t' b, remove cmp k t = Some (t', b) /\ rbt t'.
Proof.
  intros cmp key t Ht.
  destruct t as [|c l k v r].
  - simpl. do 2 eexists; split; [reflexivity|]. exact rbt_E.
  - pose proof Ht as [H Hcol]. simpl in Hcol. subst c.
    pose proof H as (Hl & Hr & _).
    assert (Hset : forall s, rb s -> rbt (setcol Black s)).
    { intros s Hs. split; [apply setcol_black_rb; assumption | apply col_setcol_black]. }
    unfold remove.
    destruct (cmp key k) eqn:Ecmp.
    + destruct r as [|rc rl rk rv rr].
      { destruct l; do 2 eexists; (split; [reflexivity|]); apply Hset; assumption. }
      destruct l as [|lc ll lk lv lr].
      { do 2 eexists; split; [reflexivity|]; apply Hset; assumption. }
      destruct (del_root_rbt cmp key _ k v _ Ht) as (t' & st & b & E1 & P).
      { intros _; split; discriminate. }
      rewrite E1. eauto.
    + destruct (del_root_rbt cmp key _ k v _ Ht) as (t' & st & b & E1 & P).
      { intros Heq; congruence. }
      destruct l, r; rewrite E1; eauto.
    + destruct (del_root_rbt cmp key _ k v _ Ht) as (t' & st & b & E1 & P).
      { intros Heq; congruence. }
      destruct l, r; rewrite E1; eauto.
Qed.
Print Assumptions remove_rbt.
Print Assumptions rb_okb_spec.
