(* AVL tree (Model/AVLTree.v): BST ordering and refinement to sorted association lists
   (Spec/MapSpec.v), plus the observers (lookup, floor, ceiling, leftmost, rightmost, count).

   put_inorder / remove_inorder need no balance invariant: rotations preserve the in-order
   sequence whenever they return Some.  That they always return Some is AVLInv.v. *)
From Coq Require Import ZArith List Lia Bool Sorted.
From Gods Require Import Common.Cmp Common.ListAux Spec.MapSpec Model.AVLTree Proofs.AVLInv.
Import ListNotations.
Local Open Scope Z_scope.

(* ---------- generic list helpers (no comparator) ---------- *)
Lemma avl_hd_error_app : forall (A : Type) (a b : list A),
  hd_error (a ++ b) = match hd_error a with Some x => Some x | None => hd_error b end.
Proof. intros A [|x a] b; reflexivity. Qed.

Lemma avl_last_opt_app : forall (A : Type) (l r : list A),
  r <> [] -> last_opt (l ++ r) = last_opt r.
Proof.
  intros A l r Hr. unfold last_opt. rewrite app_length.
  destruct r as [|x r]; [congruence|]. cbn [length].
  rewrite nth_error_app2 by lia. f_equal. lia.
Qed.

(* the last element of a list of options built with Some, as a fold *)
Definition avl_lastS {A} (l : list A) (d : option A) : option A :=
  fold_left (fun _ e => Some e) l d.

Lemma avl_last_cons : forall (A : Type) (l : list A) (x d : A), last (x :: l) d = last l x.
Proof.
  intros A l. induction l as [|y l IH]; intros x d; [reflexivity|].
  change (last (x :: y :: l) d) with (last (y :: l) d). rewrite !IH. reflexivity.
Qed.

Lemma avl_last_lastS : forall (A : Type) (l : list A) (d : option A),
  last (map Some l) d = avl_lastS l d.
Proof.
  intros A l. induction l as [|x l IH]; intros d; [reflexivity|].
  cbn [map]. rewrite avl_last_cons, IH. reflexivity.
Qed.

Lemma avl_lastS_app : forall (A : Type) (a b : list A) (d : option A),
  avl_lastS (a ++ b) d = avl_lastS b (avl_lastS a d).
Proof. intros A a b d. unfold avl_lastS. apply fold_left_app. Qed.

Lemma avl_lastS_default : forall (A : Type) (b : list A) (d : option A),
  avl_lastS b d = match avl_lastS b None with Some e => Some e | None => d end.
Proof.
  intros A b. induction b as [|x b IH]; intros d; [reflexivity|].
  cbn [avl_lastS fold_left]. fold (avl_lastS b (Some x)).
  rewrite (IH (Some x)). destruct (avl_lastS b None); reflexivity.
Qed.

Section AVLMap.
Variable cmp : cmpf.
Hypothesis Hswo : SWO cmp.

Definition bst (t : tree) : Prop := ksorted cmp (inorder t).

(* ---------- comparator facts ---------- *)
Lemma avl_cmp_sym : forall x y, cmp y x = CompOpp (cmp x y).
Proof. exact (swo_sym cmp Hswo). Qed.

Lemma avl_cmp_gt_lt : forall x y, cmp x y = Gt -> cmp y x = Lt.
Proof. intros x y H. rewrite avl_cmp_sym, H. reflexivity. Qed.

Lemma avl_cmp_lt_gt : forall x y, cmp x y = Lt -> cmp y x = Gt.
Proof. intros x y H. rewrite avl_cmp_sym, H. reflexivity. Qed.

Lemma avl_cmp_trans : forall x y z, cmp x y = Lt -> cmp y z = Lt -> cmp x z = Lt.
Proof. exact (swo_trans cmp Hswo). Qed.

Lemma avl_cmp_eq_l : forall x y z, cmp x y = Eq -> cmp x z = cmp y z.
Proof. exact (swo_eq_l cmp Hswo). Qed.

(* x < k' and k >= k'  ==>  k > x *)
Lemma avl_ge_lt : forall k k' x,
  cmp x k' = Lt -> (cmp k k' = Eq \/ cmp k k' = Gt) -> cmp k x = Gt.
Proof.
  intros k k' x Hx [He|Hg].
  - rewrite (avl_cmp_eq_l k k' x He). apply avl_cmp_lt_gt. exact Hx.
  - apply avl_cmp_lt_gt. apply (avl_cmp_trans x k' k Hx). apply avl_cmp_gt_lt. exact Hg.
Qed.

(* k' < x and k <= k'  ==>  k < x *)
Lemma avl_le_lt : forall k k' x,
  cmp k' x = Lt -> (cmp k k' = Eq \/ cmp k k' = Lt) -> cmp k x = Lt.
Proof.
  intros k k' x Hx [He|Hl].
  - rewrite (avl_cmp_eq_l k k' x He). exact Hx.
  - exact (avl_cmp_trans k k' x Hl Hx).
Qed.

(* ---------- sorted lists ---------- *)
Notation all_lt l k := (Forall (fun e : entry => cmp (fst e) k = Lt) l).
Notation all_gt k l := (Forall (fun e : entry => cmp k (fst e) = Lt) l).

Lemma avl_ksorted_app_inv : forall l k v r,
  ksorted cmp (l ++ (k, v) :: r) ->
  ksorted cmp l /\ ksorted cmp r /\ all_lt l k /\ all_gt k r.
Proof.
  unfold ksorted. induction l as [|a l IH]; intros k v r H.
  - cbn [app] in H. apply StronglySorted_inv in H. destruct H as [Hs Hf].
    repeat split; [constructor|assumption|constructor|exact Hf].
  - cbn [app] in H. apply StronglySorted_inv in H. destruct H as [Hs Hf].
    destruct (IH k v r Hs) as (Hl & Hr & Hlt & Hgt).
    apply Forall_app in Hf. destruct Hf as [Hfl Hfr].
    repeat split; [| assumption | | assumption].
    + constructor; assumption.
    + constructor; [|assumption]. inversion Hfr as [|e es He Hes]. exact He.
Qed.

Lemma avl_Forall_ins : forall (P : entry -> Prop) k v l,
  Forall P l -> P (k, v) -> Forall P (ins_list cmp k v l).
Proof.
  intros P k v l. induction l as [|[k' v'] l IH]; intros Hl Hp.
  - cbn. constructor; [assumption|constructor].
  - inversion Hl as [|e es He Hes]; subst. cbn [ins_list]. destruct (cmp k k').
    + constructor; assumption.
    + constructor; assumption.
    + constructor; [assumption|]. apply IH; assumption.
Qed.

Lemma avl_Forall_del : forall (P : entry -> Prop) k l,
  Forall P l -> Forall P (del_list cmp k l).
Proof.
  intros P k l. induction l as [|[k' v'] l IH]; intros Hl.
  - cbn. constructor.
  - inversion Hl as [|e es He Hes]; subst. cbn [del_list]. destruct (cmp k k').
    + assumption.
    + assumption.
    + constructor; [assumption|]. apply IH; assumption.
Qed.

Lemma avl_ksorted_ins : forall k v l, ksorted cmp l -> ksorted cmp (ins_list cmp k v l).
Proof.
  unfold ksorted. intros k v l. induction l as [|[k' v'] l IH]; intros Hs.
  - cbn. constructor; constructor.
  - apply StronglySorted_inv in Hs. destruct Hs as [Hs Hf].
    cbn [ins_list]. destruct (cmp k k') eqn:Hc.
    + constructor; [assumption|]. cbn [fst].
      eapply Forall_impl; [|exact Hf]. cbn [fst]. intros e He.
      rewrite (avl_cmp_eq_l k k' (fst e) Hc). exact He.
    + constructor; [constructor; assumption|]. constructor; [exact Hc|].
      eapply Forall_impl; [|exact Hf]. cbn [fst]. intros e He.
      exact (avl_cmp_trans k k' (fst e) Hc He).
    + constructor; [apply IH; assumption|].
      apply avl_Forall_ins; [assumption|]. cbn [fst]. apply avl_cmp_gt_lt. exact Hc.
Qed.

Lemma avl_ksorted_del : forall k l, ksorted cmp l -> ksorted cmp (del_list cmp k l).
Proof.
  unfold ksorted. intros k l. induction l as [|[k' v'] l IH]; intros Hs.
  - cbn. constructor.
  - apply StronglySorted_inv in Hs. destruct Hs as [Hs Hf].
    cbn [del_list]. destruct (cmp k k') eqn:Hc.
    + assumption.
    + constructor; assumption.
    + constructor; [apply IH; assumption|]. apply avl_Forall_del. assumption.
Qed.

(* ---------- ins_list through an append ---------- *)
Lemma avl_ins_pass : forall k v l r,
  Forall (fun e : entry => cmp k (fst e) = Gt) l ->
  ins_list cmp k v (l ++ r) = l ++ ins_list cmp k v r.
Proof.
  intros k v l r. induction l as [|[x vx] l IH]; intros Hl; [reflexivity|].
  inversion Hl as [|e es He Hes]; subst. cbn [fst] in He.
  cbn [app ins_list]. rewrite He, IH by assumption. reflexivity.
Qed.

Lemma avl_all_lt_gt : forall k k' l,
  all_lt l k' -> (cmp k k' = Eq \/ cmp k k' = Gt) ->
  Forall (fun e : entry => cmp k (fst e) = Gt) l.
Proof.
  intros k k' l Hl Hc. eapply Forall_impl; [|exact Hl].
  cbn beta. intros e He. exact (avl_ge_lt k k' (fst e) He Hc).
Qed.

Lemma avl_all_gt_lt : forall k k' r,
  all_gt k' r -> (cmp k k' = Eq \/ cmp k k' = Lt) -> all_gt k r.
Proof.
  intros k k' r Hr Hc. eapply Forall_impl; [|exact Hr].
  cbn beta. intros e He. exact (avl_le_lt k k' (fst e) He Hc).
Qed.

Lemma avl_ins_app_lt : forall k v k' v' l r,
  cmp k k' = Lt ->
  ins_list cmp k v (l ++ (k', v') :: r) = ins_list cmp k v l ++ (k', v') :: r.
Proof.
  intros k v k' v' l r Hc. induction l as [|[x vx] l IH].
  - cbn. rewrite Hc. reflexivity.
  - cbn [app ins_list]. destruct (cmp k x); try reflexivity.
    rewrite IH. reflexivity.
Qed.

Lemma avl_ins_app_eq : forall k v k' v' l r,
  all_lt l k' -> cmp k k' = Eq ->
  ins_list cmp k v (l ++ (k', v') :: r) = l ++ (k, v) :: r.
Proof.
  intros k v k' v' l r Hl Hc.
  rewrite avl_ins_pass by (apply (avl_all_lt_gt k k'); auto).
  cbn [ins_list]. rewrite Hc. reflexivity.
Qed.

Lemma avl_ins_app_gt : forall k v k' v' l r,
  all_lt l k' -> cmp k k' = Gt ->
  ins_list cmp k v (l ++ (k', v') :: r) = l ++ (k', v') :: ins_list cmp k v r.
Proof.
  intros k v k' v' l r Hl Hc.
  rewrite avl_ins_pass by (apply (avl_all_lt_gt k k'); auto).
  cbn [ins_list]. rewrite Hc. reflexivity.
Qed.

(* ---------- del_list through an append ---------- *)
Lemma avl_del_pass : forall k l r,
  Forall (fun e : entry => cmp k (fst e) = Gt) l ->
  del_list cmp k (l ++ r) = l ++ del_list cmp k r.
Proof.
  intros k l r. induction l as [|[x vx] l IH]; intros Hl; [reflexivity|].
  inversion Hl as [|e es He Hes]; subst. cbn [fst] in He.
  cbn [app del_list]. rewrite He, IH by assumption. reflexivity.
Qed.

Lemma avl_del_app_lt : forall k k' v' l r,
  cmp k k' = Lt ->
  del_list cmp k (l ++ (k', v') :: r) = del_list cmp k l ++ (k', v') :: r.
Proof.
  intros k k' v' l r Hc. induction l as [|[x vx] l IH].
  - cbn. rewrite Hc. reflexivity.
  - cbn [app del_list]. destruct (cmp k x); try reflexivity.
    rewrite IH. reflexivity.
Qed.

Lemma avl_del_app_eq : forall k k' v' l r,
  all_lt l k' -> cmp k k' = Eq ->
  del_list cmp k (l ++ (k', v') :: r) = l ++ r.
Proof.
  intros k k' v' l r Hl Hc.
  rewrite avl_del_pass by (apply (avl_all_lt_gt k k'); auto).
  cbn [del_list]. rewrite Hc. reflexivity.
Qed.

Lemma avl_del_app_gt : forall k k' v' l r,
  all_lt l k' -> cmp k k' = Gt ->
  del_list cmp k (l ++ (k', v') :: r) = l ++ (k', v') :: del_list cmp k r.
Proof.
  intros k k' v' l r Hl Hc.
  rewrite avl_del_pass by (apply (avl_all_lt_gt k k'); auto).
  cbn [del_list]. rewrite Hc. reflexivity.
Qed.

(* ---------- find_list / mem_list through an append ---------- *)
Lemma avl_find_app : forall k l r,
  find_list cmp k (l ++ r) =
  match find_list cmp k l with Some e => Some e | None => find_list cmp k r end.
Proof.
  intros k l r. unfold find_list. induction l as [|e l IH]; [reflexivity|].
  cbn [app find]. destruct (is_eq (cmp k (fst e))); [reflexivity|exact IH].
Qed.

Lemma avl_find_none : forall k l,
  Forall (fun e : entry => cmp k (fst e) <> Eq) l -> find_list cmp k l = None.
Proof.
  intros k l Hl. unfold find_list. induction Hl as [|e l He Hl IH]; [reflexivity|].
  cbn [find]. destruct (cmp k (fst e)); [congruence|exact IH|exact IH].
Qed.

Lemma avl_find_none_lt : forall k k' l,
  all_lt l k' -> (cmp k k' = Eq \/ cmp k k' = Gt) -> find_list cmp k l = None.
Proof.
  intros k k' l Hl Hc. apply avl_find_none.
  eapply Forall_impl; [|exact (avl_all_lt_gt k k' l Hl Hc)].
  cbn beta. intros e He. congruence.
Qed.

Lemma avl_find_none_gt : forall k k' r,
  all_gt k' r -> (cmp k k' = Eq \/ cmp k k' = Lt) -> find_list cmp k r = None.
Proof.
  intros k k' r Hr Hc. apply avl_find_none.
  eapply Forall_impl; [|exact (avl_all_gt_lt k k' r Hr Hc)].
  cbn beta. intros e He. congruence.
Qed.

Lemma avl_find_app_cons : forall k k' v' l r,
  all_lt l k' -> all_gt k' r ->
  find_list cmp k (l ++ (k', v') :: r) =
  match cmp k k' with
  | Lt => find_list cmp k l
  | Eq => Some (k', v')
  | Gt => find_list cmp k r
  end.
Proof.
  intros k k' v' l r Hl Hr. rewrite avl_find_app.
  destruct (cmp k k') eqn:Hc.
  - rewrite (avl_find_none_lt k k' l Hl) by auto.
    unfold find_list. cbn [find fst]. rewrite Hc. reflexivity.
  - destruct (find_list cmp k l); [reflexivity|].
    unfold find_list at 1. cbn [find fst]. rewrite Hc. cbn [is_eq].
    apply (avl_find_none_gt k k' r Hr). auto.
  - rewrite (avl_find_none_lt k k' l Hl) by auto.
    unfold find_list at 1. cbn [find fst]. rewrite Hc. reflexivity.
Qed.

Lemma avl_mem_app_cons : forall k k' v' l r,
  all_lt l k' -> all_gt k' r ->
  mem_list cmp k (l ++ (k', v') :: r) =
  match cmp k k' with
  | Lt => mem_list cmp k l
  | Eq => true
  | Gt => mem_list cmp k r
  end.
Proof.
  intros k k' v' l r Hl Hr. unfold mem_list.
  rewrite (avl_find_app_cons k k' v' l r Hl Hr). destruct (cmp k k'); reflexivity.
Qed.

(* ---------- floor_list ---------- *)
Lemma avl_floor_lastS : forall k l,
  floor_list cmp k l =
  avl_lastS (filter (fun e : entry => negb (is_lt (cmp k (fst e)))) l) None.
Proof. intros k l. unfold floor_list. apply avl_last_lastS. Qed.

Lemma avl_floor_app : forall k l r,
  floor_list cmp k (l ++ r) =
  match floor_list cmp k r with Some e => Some e | None => floor_list cmp k l end.
Proof.
  intros k l r. rewrite !avl_floor_lastS, filter_app, avl_lastS_app.
  apply avl_lastS_default.
Qed.

Lemma avl_floor_cons : forall k e r,
  floor_list cmp k (e :: r) =
  if negb (is_lt (cmp k (fst e)))
  then match floor_list cmp k r with Some e' => Some e' | None => Some e end
  else floor_list cmp k r.
Proof.
  intros k e r. rewrite !avl_floor_lastS. cbn [filter].
  destruct (negb (is_lt (cmp k (fst e)))); [|reflexivity].
  cbn [avl_lastS fold_left].
  exact (avl_lastS_default entry _ (Some e)).
Qed.

Lemma avl_floor_none : forall k r, all_gt k r -> floor_list cmp k r = None.
Proof.
  intros k r Hr. induction Hr as [|e r He Hr IH]; [reflexivity|].
  rewrite avl_floor_cons, He. cbn [is_lt negb]. exact IH.
Qed.

Lemma avl_floor_app_cons : forall k k' v' l r,
  all_gt k' r ->
  floor_list cmp k (l ++ (k', v') :: r) =
  match cmp k k' with
  | Lt => floor_list cmp k l
  | Eq => Some (k', v')
  | Gt => match floor_list cmp k r with Some e => Some e | None => Some (k', v') end
  end.
Proof.
  intros k k' v' l r Hr. rewrite avl_floor_app, avl_floor_cons. cbn [fst].
  destruct (cmp k k') eqn:Hc; cbn [is_lt negb].
  - rewrite (avl_floor_none k r) by (apply (avl_all_gt_lt k k'); auto). reflexivity.
  - rewrite (avl_floor_none k r) by (apply (avl_all_gt_lt k k'); auto). reflexivity.
  - destruct (floor_list cmp k r); reflexivity.
Qed.

(* ---------- ceiling_list ---------- *)
Lemma avl_ceiling_app : forall k l r,
  ceiling_list cmp k (l ++ r) =
  match ceiling_list cmp k l with Some e => Some e | None => ceiling_list cmp k r end.
Proof. intros k l r. unfold ceiling_list. rewrite filter_app. apply avl_hd_error_app. Qed.

Lemma avl_ceiling_cons : forall k e r,
  ceiling_list cmp k (e :: r) =
  if negb (is_gt (cmp k (fst e))) then Some e else ceiling_list cmp k r.
Proof.
  intros k e r. unfold ceiling_list. cbn [filter].
  destruct (negb (is_gt (cmp k (fst e)))); reflexivity.
Qed.

Lemma avl_ceiling_none : forall k l,
  Forall (fun e : entry => cmp k (fst e) = Gt) l -> ceiling_list cmp k l = None.
Proof.
  intros k l Hl. induction Hl as [|e l He Hl IH]; [reflexivity|].
  rewrite avl_ceiling_cons, He. cbn [is_gt negb]. exact IH.
Qed.

Lemma avl_ceiling_app_cons : forall k k' v' l r,
  all_lt l k' ->
  ceiling_list cmp k (l ++ (k', v') :: r) =
  match cmp k k' with
  | Lt => match ceiling_list cmp k l with Some e => Some e | None => Some (k', v') end
  | Eq => Some (k', v')
  | Gt => ceiling_list cmp k r
  end.
Proof.
  intros k k' v' l r Hl. rewrite avl_ceiling_app, avl_ceiling_cons. cbn [fst].
  destruct (cmp k k') eqn:Hc; cbn [is_gt negb].
  - rewrite (avl_ceiling_none k l) by (apply (avl_all_lt_gt k k'); auto). reflexivity.
  - reflexivity.
  - rewrite (avl_ceiling_none k l) by (apply (avl_all_lt_gt k k'); auto). reflexivity.
Qed.

(* ---------- trees ---------- *)
Lemma bst_inv : forall b l k v r,
  bst (T b l k v r) ->
  bst l /\ bst r /\ all_lt (inorder l) k /\ all_gt k (inorder r).
Proof. intros b l k v r H. exact (avl_ksorted_app_inv _ _ _ _ H). Qed.

Lemma setb_inorder : forall b t, inorder (setb b t) = inorder t.
Proof. intros b [|b' l k v r]; reflexivity. Qed.

Lemma setchild_inorder : forall c s x,
  inorder x = inorder (child c s) -> inorder (setchild c s x) = inorder s.
Proof.
  intros c [|b l k v r] x; [reflexivity|]. cbn [child setchild].
  destruct (c =? 1); cbn [inorder]; intros ->; reflexivity.
Qed.

Lemma setchild_setb_inorder : forall c b s,
  inorder (setchild c s (setb b (child c s))) = inorder s.
Proof. intros c b s. apply setchild_inorder. apply setb_inorder. Qed.

Lemma rotate_inorder : forall c s s', rotate c s = Some s' -> inorder s' = inorder s.
Proof.
  intros c [|sb sl sk sv sr] s' H; [discriminate|]. cbn [rotate] in H.
  destruct (c =? 1).
  - destruct sr as [|rb rl rk rv rr]; [discriminate|]. injection H as <-.
    cbn [inorder]. rewrite <- app_assoc. reflexivity.
  - destruct sl as [|rb rl rk rv rr]; [discriminate|]. injection H as <-.
    cbn [inorder]. rewrite <- app_assoc. reflexivity.
Qed.

Lemma singlerot_inorder : forall c s s', singlerot c s = Some s' -> inorder s' = inorder s.
Proof.
  intros c s s' H. unfold singlerot in H.
  destruct (rotate c (setb 0 s)) as [x|] eqn:Hr; [|discriminate]. injection H as <-.
  rewrite setb_inorder, (rotate_inorder _ _ _ Hr). apply setb_inorder.
Qed.

Lemma doublerot_inorder : forall c s s', doublerot c s = Some s' -> inorder s' = inorder s.
Proof.
  intros c s s' H. unfold doublerot in H.
  destruct (rotate (- c) (child c s)) as [x|] eqn:H1; [|discriminate].
  destruct (rotate c (setchild c s x)) as [p|] eqn:H2; [|discriminate].
  apply rotate_inorder in H1. apply rotate_inorder in H2.
  rewrite (setchild_inorder c s x H1) in H2.
  destruct (if bal p =? c then (- c, 0) else if bal p =? - c then (0, c) else (0, 0))
    as [sb rb].
  injection H as <-.
  rewrite setb_inorder, !setchild_setb_inorder. exact H2.
Qed.

Lemma putFix_inorder : forall c s t' f, putFix c s = Some (t', f) -> inorder t' = inorder s.
Proof.
  intros c s t' f H. unfold putFix in H.
  destruct (bal s =? 0); [injection H as <- _; apply setb_inorder|].
  destruct (bal s =? - c); [injection H as <- _; apply setb_inorder|].
  destruct (bal (child c s) =? c).
  - destruct (singlerot c s) as [x|] eqn:Hs; [|discriminate]. injection H as <- _.
    exact (singlerot_inorder _ _ _ Hs).
  - destruct (doublerot c s) as [x|] eqn:Hs; [|discriminate]. injection H as <- _.
    exact (doublerot_inorder _ _ _ Hs).
Qed.

Lemma removeFix_inorder : forall c s t' f,
  removeFix c s = Some (t', f) -> inorder t' = inorder s.
Proof.
  intros c s t' f H. unfold removeFix in H.
  destruct (bal s =? 0); [injection H as <- _; apply setb_inorder|].
  destruct (bal s =? - c); [injection H as <- _; apply setb_inorder|].
  destruct (bal (child c s) =? 0).
  - destruct (rotate c s) as [x|] eqn:Hs; [|discriminate]. injection H as <- _.
    rewrite setb_inorder. exact (rotate_inorder _ _ _ Hs).
  - destruct (bal (child c s) =? c).
    + destruct (singlerot c s) as [x|] eqn:Hs; [|discriminate]. injection H as <- _.
      exact (singlerot_inorder _ _ _ Hs).
    + destruct (doublerot c s) as [x|] eqn:Hs; [|discriminate]. injection H as <- _.
      exact (doublerot_inorder _ _ _ Hs).
Qed.

(* ---------- put ---------- *)
Lemma put_inorder_aux : forall key val t t' fx ins,
  bst t -> put cmp key val t = Some (t', fx, ins) ->
  inorder t' = ins_list cmp key val (inorder t) /\
  ins = negb (mem_list cmp key (inorder t)).
Proof.
  intros key val t.
  induction t as [|b l IHl k v r IHr]; intros t' fx ins Hbst Hput.
  - cbn in Hput. injection Hput as <- _ <-. cbn. split; reflexivity.
  - destruct (bst_inv _ _ _ _ _ Hbst) as (Hbl & Hbr & Hlt & Hgt).
    cbn [put] in Hput. cbn [inorder].
    rewrite avl_mem_app_cons by assumption.
    destruct (cmp key k) eqn:Hc.
    + injection Hput as <- _ <-. cbn [inorder].
      split; [symmetry; apply avl_ins_app_eq; assumption|reflexivity].
    + destruct (put cmp key val l) as [[[l' fxl] insl]|] eqn:Hpl; [|discriminate].
      destruct (IHl l' fxl insl Hbl eq_refl) as (Hil & Hml).
      rewrite avl_ins_app_lt by assumption. rewrite <- Hil.
      assert (Hin : inorder t' = inorder l' ++ (k, v) :: inorder r /\ ins = insl).
      { destruct fxl.
        - destruct (putFix (-1) (T b l' k v r)) as [[t'' f]|] eqn:Hfix; [|discriminate].
          injection Hput as <- _ <-. split; [|reflexivity].
          exact (putFix_inorder _ _ _ _ Hfix).
        - injection Hput as <- _ <-. split; reflexivity. }
      destruct Hin as [-> ->]. split; [reflexivity|exact Hml].
    + destruct (put cmp key val r) as [[[r' fxr] insr]|] eqn:Hpr; [|discriminate].
      destruct (IHr r' fxr insr Hbr eq_refl) as (Hir & Hmr).
      rewrite avl_ins_app_gt by assumption. rewrite <- Hir.
      assert (Hin : inorder t' = inorder l ++ (k, v) :: inorder r' /\ ins = insr).
      { destruct fxr.
        - destruct (putFix 1 (T b l k v r')) as [[t'' f]|] eqn:Hfix; [|discriminate].
          injection Hput as <- _ <-. split; [|reflexivity].
          exact (putFix_inorder _ _ _ _ Hfix).
        - injection Hput as <- _ <-. split; reflexivity. }
      destruct Hin as [-> ->]. split; [reflexivity|exact Hmr].
Qed.

Theorem put_inorder : forall k v t t' fx ins,
  bst t -> put cmp k v t = Some (t', fx, ins) ->
  inorder t' = ins_list cmp k v (inorder t) /\ bst t' /\
  ins = negb (mem_list cmp k (inorder t)).
Proof.
  intros k v t t' fx ins Hbst Hput.
  destruct (put_inorder_aux k v t t' fx ins Hbst Hput) as [Hi Hm].
  repeat split; try assumption.
  unfold bst. rewrite Hi. apply avl_ksorted_ins. exact Hbst.
Qed.

(* ---------- removeMin / remove ---------- *)
Lemma removeMin_T : forall b l k v r, l <> E ->
  removeMin (T b l k v r) =
  match removeMin l with
  | None => None
  | Some (l', mk, mv, fx) =>
    if fx then match removeFix 1 (T b l' k v r) with
               | None => None
               | Some (t', f) => Some (t', mk, mv, f)
               end
    else Some (T b l' k v r, mk, mv, false)
  end.
Proof. intros b [|lb ll lk lv lr] k v r H; [congruence|reflexivity]. Qed.

Lemma removeMin_inorder : forall t t' mk mv fx,
  removeMin t = Some (t', mk, mv, fx) -> inorder t = (mk, mv) :: inorder t'.
Proof.
  induction t as [|b l IHl k v r _]; intros t' mk mv fx H; [discriminate|].
  destruct l as [|lb ll lk lv lr].
  - cbn [removeMin] in H. injection H as <- <- <- _. reflexivity.
  - remember (T lb ll lk lv lr) as l eqn:El.
    rewrite removeMin_T in H by (subst l; discriminate).
    destruct (removeMin l) as [[[[l' mk'] mv'] fxl]|] eqn:Hl; [|discriminate].
    specialize (IHl l' mk' mv' fxl eq_refl). cbn [inorder]. rewrite IHl.
    destruct fxl.
    + destruct (removeFix 1 (T b l' k v r)) as [[t'' f]|] eqn:Hfix; [|discriminate].
      injection H as <- <- <- _. rewrite (removeFix_inorder _ _ _ _ Hfix). reflexivity.
    + injection H as <- <- <- _. reflexivity.
Qed.

Lemma remove_inorder_aux : forall key t t' fx rem,
  bst t -> remove cmp key t = Some (t', fx, rem) ->
  inorder t' = del_list cmp key (inorder t) /\ rem = mem_list cmp key (inorder t).
Proof.
  intros key t.
  induction t as [|b l IHl k v r IHr]; intros t' fx rem Hbst Hrm.
  - cbn in Hrm. injection Hrm as <- _ <-. cbn. split; reflexivity.
  - destruct (bst_inv _ _ _ _ _ Hbst) as (Hbl & Hbr & Hlt & Hgt).
    cbn [remove] in Hrm. cbn [inorder].
    rewrite avl_mem_app_cons by assumption.
    destruct (cmp key k) eqn:Hc.
    + rewrite avl_del_app_eq by assumption.
      destruct r as [|rb rl rk rv rr].
      * injection Hrm as <- _ <-. cbn [inorder]. rewrite app_nil_r. split; reflexivity.
      * remember (T rb rl rk rv rr) as r eqn:Er.
        assert (Hrm' : match removeMin r with
                       | None => None
                       | Some (r', mk, mv, fx) =>
                         if fx then match removeFix (-1) (T b l mk mv r') with
                                    | None => None
                                    | Some (t', f) => Some (t', f, true)
                                    end
                         else Some (T b l mk mv r', false, true)
                       end = Some (t', fx, rem)) by (subst r; exact Hrm).
        clear Hrm.
        destruct (removeMin r) as [[[[r' mk] mv] fxr]|] eqn:Hmin; [|discriminate].
        rewrite (removeMin_inorder _ _ _ _ _ Hmin).
        destruct fxr.
        -- destruct (removeFix (-1) (T b l mk mv r')) as [[t'' f]|] eqn:Hfix; [|discriminate].
           injection Hrm' as <- _ <-. rewrite (removeFix_inorder _ _ _ _ Hfix).
           split; reflexivity.
        -- injection Hrm' as <- _ <-. split; reflexivity.
    + destruct (remove cmp key l) as [[[l' fxl] reml]|] eqn:Hpl; [|discriminate].
      destruct (IHl l' fxl reml Hbl eq_refl) as (Hil & Hml).
      rewrite avl_del_app_lt by assumption. rewrite <- Hil.
      assert (Hin : inorder t' = inorder l' ++ (k, v) :: inorder r /\ rem = reml).
      { destruct fxl.
        - destruct (removeFix 1 (T b l' k v r)) as [[t'' f]|] eqn:Hfix; [|discriminate].
          injection Hrm as <- _ <-. split; [|reflexivity].
          exact (removeFix_inorder _ _ _ _ Hfix).
        - injection Hrm as <- _ <-. split; reflexivity. }
      destruct Hin as [-> ->]. split; [reflexivity|exact Hml].
    + destruct (remove cmp key r) as [[[r' fxr] remr]|] eqn:Hpr; [|discriminate].
      destruct (IHr r' fxr remr Hbr eq_refl) as (Hir & Hmr).
      rewrite avl_del_app_gt by assumption. rewrite <- Hir.
      assert (Hin : inorder t' = inorder l ++ (k, v) :: inorder r' /\ rem = remr).
      { destruct fxr.
        - destruct (removeFix (-1) (T b l k v r')) as [[t'' f]|] eqn:Hfix; [|discriminate].
          injection Hrm as <- _ <-. split; [|reflexivity].
          exact (removeFix_inorder _ _ _ _ Hfix).
        - injection Hrm as <- _ <-. split; reflexivity. }
      destruct Hin as [-> ->]. split; [reflexivity|exact Hmr].
Qed.

Theorem remove_inorder : forall k t t' fx rem,
  bst t -> remove cmp k t = Some (t', fx, rem) ->
  inorder t' = del_list cmp k (inorder t) /\ bst t' /\
  rem = mem_list cmp k (inorder t).
Proof.
  intros k t t' fx rem Hbst Hrm.
  destruct (remove_inorder_aux k t t' fx rem Hbst Hrm) as [Hi Hm].
  repeat split; try assumption.
  unfold bst. rewrite Hi. apply avl_ksorted_del. exact Hbst.
Qed.

(* ---------- observers ---------- *)
Theorem lookup_spec : forall k t, bst t -> lookup cmp k t = find_list cmp k (inorder t).
Proof.
  intros key t. induction t as [|b l IHl k v r IHr]; intros Hbst; [reflexivity|].
  destruct (bst_inv _ _ _ _ _ Hbst) as (Hbl & Hbr & Hlt & Hgt).
  cbn [lookup inorder]. rewrite avl_find_app_cons by assumption.
  destruct (cmp key k); auto.
Qed.

Lemma floor_from_spec : forall k t cand, bst t ->
  floor_from cmp k t cand =
  match floor_list cmp k (inorder t) with Some e => Some e | None => cand end.
Proof.
  intros key t. induction t as [|b l IHl k v r IHr]; intros cand Hbst; [reflexivity|].
  destruct (bst_inv _ _ _ _ _ Hbst) as (Hbl & Hbr & Hlt & Hgt).
  cbn [floor_from inorder]. rewrite avl_floor_app_cons by assumption.
  destruct (cmp key k).
  - reflexivity.
  - apply IHl. exact Hbl.
  - rewrite (IHr _ Hbr). destruct (floor_list cmp key (inorder r)); reflexivity.
Qed.

Theorem floor_spec : forall k t, bst t -> floor cmp k t = floor_list cmp k (inorder t).
Proof.
  intros k t Hbst. unfold floor. rewrite (floor_from_spec k t None Hbst).
  destruct (floor_list cmp k (inorder t)); reflexivity.
Qed.

Lemma ceiling_from_spec : forall k t cand, bst t ->
  ceiling_from cmp k t cand =
  match ceiling_list cmp k (inorder t) with Some e => Some e | None => cand end.
Proof.
  intros key t. induction t as [|b l IHl k v r IHr]; intros cand Hbst; [reflexivity|].
  destruct (bst_inv _ _ _ _ _ Hbst) as (Hbl & Hbr & Hlt & Hgt).
  cbn [ceiling_from inorder]. rewrite avl_ceiling_app_cons by assumption.
  destruct (cmp key k).
  - reflexivity.
  - rewrite (IHl _ Hbl). destruct (ceiling_list cmp key (inorder l)); reflexivity.
  - apply IHr. exact Hbr.
Qed.

Theorem ceiling_spec : forall k t, bst t -> ceiling cmp k t = ceiling_list cmp k (inorder t).
Proof.
  intros k t Hbst. unfold ceiling. rewrite (ceiling_from_spec k t None Hbst).
  destruct (ceiling_list cmp k (inorder t)); reflexivity.
Qed.

End AVLMap.

(* ---------- observers that do not depend on the comparator ---------- *)
Lemma inorder_T_nonempty : forall b l k v r, inorder (T b l k v r) <> [].
Proof.
  intros b l k v r H. cbn [inorder] in H. apply app_eq_nil in H. destruct H as [_ H].
  discriminate.
Qed.

Theorem leftmost_spec : forall t, leftmost t = hd_error (inorder t).
Proof.
  induction t as [|b l IHl k v r _]; [reflexivity|].
  destruct l as [|lb ll lk lv lr]; [reflexivity|].
  remember (T lb ll lk lv lr) as l eqn:El.
  assert (Hred : leftmost (T b l k v r) = leftmost l) by (subst l; reflexivity).
  rewrite Hred, IHl. cbn [inorder]. rewrite avl_hd_error_app.
  destruct (inorder l) as [|e es] eqn:Hl; [|reflexivity].
  subst l. exfalso. exact (inorder_T_nonempty _ _ _ _ _ Hl).
Qed.

Theorem rightmost_spec : forall t, rightmost t = last_opt (inorder t).
Proof.
  induction t as [|b l _ k v r IHr]; [reflexivity|].
  cbn [inorder]. rewrite avl_last_opt_app by discriminate.
  destruct r as [|rb rl rk rv rr]; [reflexivity|].
  remember (T rb rl rk rv rr) as r eqn:Er.
  assert (Hred : rightmost (T b l k v r) = rightmost r) by (subst r; reflexivity).
  rewrite Hred, IHr.
  change ((k, v) :: inorder r) with ([(k, v)] ++ inorder r).
  rewrite avl_last_opt_app; [reflexivity|].
  subst r. apply inorder_T_nonempty.
Qed.

Theorem count_inorder : forall t, count t = length (inorder t).
Proof.
  induction t as [|b l IHl k v r IHr]; [reflexivity|].
  cbn [count inorder]. rewrite app_length. cbn [length]. lia.
Qed.

Print Assumptions put_inorder.
Print Assumptions remove_inorder.
Print Assumptions lookup_spec.
Print Assumptions floor_spec.
Print Assumptions ceiling_spec.
Print Assumptions leftmost_spec.
Print Assumptions rightmost_spec.
Print Assumptions count_inorder.

(* ---------- total correctness: AVLInv.v + the refinement above ---------- *)
(* On a balanced search tree, put / remove never fail (the Go code never dereferences nil),
   keep both invariants and act on the in-order entry list as ins_list / del_list. *)
Theorem put_total : forall cmp, SWO cmp -> forall k v t, avl t -> bst cmp t ->
  exists t' fx ins, put cmp k v t = Some (t', fx, ins) /\ avl t' /\ bst cmp t' /\
    inorder t' = ins_list cmp k v (inorder t) /\
    ins = negb (mem_list cmp k (inorder t)).
Proof.
  intros cmp Hswo k v t Havl Hbst.
  destruct (put_avl cmp k v t Havl) as (t' & fx & ins & Hput & Havl' & _).
  destruct (put_inorder cmp Hswo k v t t' fx ins Hbst Hput) as (Hi & Hb & Hm).
  exists t', fx, ins. auto.
Qed.

Theorem remove_total : forall cmp, SWO cmp -> forall k t, avl t -> bst cmp t ->
  exists t' fx rem, remove cmp k t = Some (t', fx, rem) /\ avl t' /\ bst cmp t' /\
    inorder t' = del_list cmp k (inorder t) /\
    rem = mem_list cmp k (inorder t).
Proof.
  intros cmp Hswo k t Havl Hbst.
  destruct (remove_avl cmp k t Havl) as (t' & fx & rem & Hrm & Havl' & _).
  destruct (remove_inorder cmp Hswo k t t' fx rem Hbst Hrm) as (Hi & Hb & Hm).
  exists t', fx, rem. auto.
Qed.
Print Assumptions put_total.
Print Assumptions remove_total.
