(* Property C09.

   "LinkedHashMap and LinkedHashSet enumerate (Keys, Values, iterator, Each, ToJSON) their current
    keys in the order in which each was inserted since it was last absent. Putting or adding a key
    that is already present never moves it (a map Put only updates the value in place), and removing
    a key then inserting it again places it last. Removing a key never disturbs the relative order of
    the others."

   Reading.  [run c ops] is the state of the uniform machine after ANY list of operations.
   [events c ops] (Spec/SetSpec.v) is the list of key events of the history - insert k / remove k /
   clear; Add(vs...) inserts its arguments in argument order, FromJSON of an object is a clear followed
   by the insertion of the member keys in document order - and [order_spec] folds it into the abstract
   insertion-order list: insert appends iff absent, remove deletes, clear empties.  No container state
   occurs in [order_spec (events c ops)].  [keys_of] / [values_of] / [each_of] / [to_json] are Keys(),
   Values(), the forward walk of a fresh iterator (what Each and the other enumerable functions range
   over) and the content of ToJSON. *)
From Coq Require Import ZArith List Bool Sorted Permutation.
From Gods Require Import Common.Cmp Spec.SetSpec Model.Ops Model.Machine Proofs.SetsProofs Proofs.LinkedProofs.
Import ListNotations.
Local Open Scope Z_scope.

(* the enumeration is the abstract insertion order of the history *)
Theorem C09_order : forall c ops, is_linked_kind (ckind c) = true ->
  enum_of c (run c ops) = order_spec (events c ops).
Proof. exact C09_order_proof. Qed.
Print Assumptions C09_order.

Theorem C09_order_set : forall c ops, ckind c = LinkedHashSet ->
  values_of c (run c ops) = order_spec (events c ops).
Proof. exact C09_order_set_proof. Qed.
Print Assumptions C09_order_set.

Theorem C09_order_map : forall c ops, ckind c = LinkedHashMap ->
  keys_of c (run c ops) = order_spec (events c ops).
Proof. exact C09_order_map_proof. Qed.
Print Assumptions C09_order_map.

(* Put of a present key keeps its place and updates the value in place (all other values are
   untouched); Put of an absent key places it last *)
Theorem C09_put_present_keeps_place : forall c ops k v, ckind c = LinkedHashMap ->
  let s := run c ops in
  let s' := next c s (Put k v) in
  (In k (keys_of c s) -> keys_of c s' = keys_of c s) /\
  (~ In k (keys_of c s) -> keys_of c s' = keys_of c s ++ [k]) /\
  get_of c s' k = oopt (Some v) /\
  (forall k', k' <> k -> get_of c s' k' = get_of c s k').
Proof. exact C09_put_present_keeps_place_map_proof. Qed.
Print Assumptions C09_put_present_keeps_place.

(* Add of present elements (any argument list) changes nothing; an absent element goes last *)
Theorem C09_add_present_keeps_place : forall c ops vs, ckind c = LinkedHashSet ->
  let s := run c ops in
  (forall x, In x vs -> In x (values_of c s)) -> values_of c (next c s (Add vs)) = values_of c s.
Proof. exact C09_add_present_keeps_place_set_proof. Qed.
Print Assumptions C09_add_present_keeps_place.

Theorem C09_add_absent_goes_last : forall c ops k, ckind c = LinkedHashSet ->
  let s := run c ops in
  ~ In k (values_of c s) -> values_of c (next c s (Add [k])) = values_of c s ++ [k].
Proof. exact C09_add_absent_goes_last_set_proof. Qed.
Print Assumptions C09_add_absent_goes_last.

(* removing then inserting places the key last (whether or not it was present) *)
Theorem C09_remove_then_insert_last : forall c ops k v, ckind c = LinkedHashMap ->
  let s := run c ops in
  keys_of c (next c (next c s (Remove k)) (Put k v)) = filter (fun x => negb (x =? k)) (keys_of c s) ++ [k].
Proof. exact C09_remove_then_insert_last_map_proof. Qed.
Print Assumptions C09_remove_then_insert_last.

Theorem C09_remove_then_insert_last_set : forall c ops k, ckind c = LinkedHashSet ->
  let s := run c ops in
  values_of c (next c (next c s (RemoveVals [k])) (Add [k])) = filter (fun x => negb (x =? k)) (values_of c s) ++ [k].
Proof. exact C09_remove_then_insert_last_set_proof. Qed.
Print Assumptions C09_remove_then_insert_last_set.

(* removing never disturbs the relative order of the others: the new enumeration is the old one filtered *)
Theorem C09_remove_preserves_relative_order : forall c ops k, ckind c = LinkedHashMap ->
  let s := run c ops in
  keys_of c (next c s (Remove k)) = filter (fun x => negb (x =? k)) (keys_of c s).
Proof. exact C09_remove_preserves_relative_order_map_proof. Qed.
Print Assumptions C09_remove_preserves_relative_order.

Theorem C09_remove_preserves_relative_order_set : forall c ops vs, ckind c = LinkedHashSet ->
  let s := run c ops in
  values_of c (next c s (RemoveVals vs)) = filter (fun x => negb (existsb (Z.eqb x) vs)) (values_of c s).
Proof. exact C09_remove_preserves_relative_order_set_proof. Qed.
Print Assumptions C09_remove_preserves_relative_order_set.

(* Keys, Values, the iterator walk (Each and the enumerable functions) and ToJSON list the same
   entries in the same order; every listed value is the one Get returns *)
Theorem C09_enumerations_agree : forall c ops, ckind c = LinkedHashMap ->
  let s := run c ops in
  let es := entries_of c s in
  keys_of c s = map fst es /\
  values_of c s = map snd es /\
  (forall k v, In (k, v) es -> get_of c s k = oopt (Some v)) /\
  each_of c s = Some es /\
  to_json c s = OL [OZ 1; opairs es].
Proof. exact C09_enumerations_agree_map_proof. Qed.
Print Assumptions C09_enumerations_agree.

(* the set's iterator pairs each element with its index *)
Theorem C09_enumerations_agree_set : forall c ops, ckind c = LinkedHashSet ->
  let s := run c ops in
  each_of c s = Some (enum_from 0 (values_of c s)) /\
  to_json c s = OL [OZ 0; ozs (values_of c s)].
Proof. exact C09_enumerations_agree_set_proof. Qed.
Print Assumptions C09_enumerations_agree_set.

(* the map's table and ordering list never drift apart (for the set: C04_linked_inv) *)
Theorem C09_linked_map_inv : forall c ops, ckind c = LinkedHashMap ->
  exists tbl ord, run c ops = StLMap tbl ord /\
    StronglySorted Z.lt (map fst tbl) /\ NoDup ord /\ Permutation (map fst tbl) ord.
Proof. exact C09_linked_map_inv_proof. Qed.
Print Assumptions C09_linked_map_inv.

Theorem C09_no_crash : forall c ops, is_linked_kind (ckind c) = true -> run c ops <> StCrash.
Proof. exact C09_no_crash_proof. Qed.
Print Assumptions C09_no_crash.

(* ---------- concrete histories ---------- *)
Definition cfg (k : kind) : config :=
  {| ckind := k; kcmp := CNat; vcmp := CNat; ccap := 0; corder := 3; cuni := 8 |}.

Definition hm : list op :=
  [Put 5 50; Put 2 20; Put 7 70; Put 2 21; Remove 5; Put 5 51; Put 9 90; Remove 3; Remove 7; Put 1 10; Put 9 91].

Example ex_map :
  keys_of (cfg LinkedHashMap) (run (cfg LinkedHashMap) hm) = [2; 5; 9; 1] /\
  values_of (cfg LinkedHashMap) (run (cfg LinkedHashMap) hm) = [21; 51; 91; 10] /\
  order_spec (events (cfg LinkedHashMap) hm) = [2; 5; 9; 1] /\
  each_of (cfg LinkedHashMap) (run (cfg LinkedHashMap) hm) = Some [(2, 21); (5, 51); (9, 91); (1, 10)].
Proof. vm_compute. repeat split; reflexivity. Qed.

(* FromJSON: first position, last value of a duplicated member *)
Example ex_map_json :
  let ops := [Put 4 40; FromJSON (DObj [(3, 30); (8, 80); (3, 31); (1, 10)]); Put 8 81; Put 0 0] in
  entries_of (cfg LinkedHashMap) (run (cfg LinkedHashMap) ops) = [(3, 31); (8, 81); (1, 10); (0, 0)] /\
  order_spec (events (cfg LinkedHashMap) ops) = [3; 8; 1; 0].
Proof. vm_compute. repeat split; reflexivity. Qed.

Example ex_set :
  let ops := [Add [4; 2; 4; 9]; RemoveVals [2; 6]; Add [2; 9; 1]; RemoveVals [4; 4]; Add [4]] in
  values_of (cfg LinkedHashSet) (run (cfg LinkedHashSet) ops) = [9; 2; 1; 4] /\
  order_spec (events (cfg LinkedHashSet) ops) = [9; 2; 1; 4] /\
  each_of (cfg LinkedHashSet) (run (cfg LinkedHashSet) ops) = Some [(0, 9); (1, 2); (2, 1); (3, 4)].
Proof. vm_compute. repeat split; reflexivity. Qed.
