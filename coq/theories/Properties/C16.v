(* Property C16.

   "Slices returned by Values() and Keys() are snapshots: writing to them never changes the
    container, and later changes to the container never change a slice returned earlier.  Slices
    passed to variadic constructors and to Add/Append/Prepend/Insert/Push are copied, so the caller's
    later writes to them do not reach the container.  containers.GetSortedValues and
    GetSortedValuesFunc return the contents in sorted order without reordering or otherwise altering
    the container."

   How this file decides it.  Aliasing is a fact about Go memory, invisible to a functional model.
   As for C18, the model is REGENERATED FROM THE GO SOURCE ON EVERY RUN (/verif/effects, go/ssa ->
   Effects/EffectsGen.v) and Coq re-proves over it, by computation on the finite generated domains:
     * [C16_values_keys_fresh]: every function in [snapshot_api] - every Values / Keys method of all
       21 containers and containers.GetSortedValues / GetSortedValuesFunc, generated from the method
       sets - returns only references that are Fresh in its activation and whose fresh graph contains
       no non-fresh reference (transitively through all callees);
     * [C16_variadic_args_copied]: every function in [variadic_api] - the variadic constructors and
       Add / Append / Prepend / Insert / Push / set Add and Remove / Contains ... - stores no
       reference originating in one of its slice parameters into non-fresh memory.
   The generic theorems, proved once over a heap with slice identities, say what that buys:
     * [C16_fresh_return_independent]: a returned block that is not the container and is referred to
       by no cell reachable from the container can be written through (any writes, including beyond
       len within cap: the block is the backing array) without changing any cell reachable from the
       container or the reachable set, and later writes to the container's blocks never change it;
     * [C16_uncaptured_arg_independent]: the same for an argument block the operation did not capture.
   Trusted: the translator (its origin analysis and std-lib summaries, e.g. slices.Clone returns
   fresh; append's first argument may be grown in place), Go's slice semantics.  Dynamic counterpart:
   the aliasing probes of /verif/probe (overwrite returned slices incl. spare capacity, overwrite
   argument slices with spare capacity, deep fingerprints).

   The GetSortedValues sentence also has a value-level half, stated on the machine:
   [C16_sorted_values_model] - the result is the sorted permutation of Values() and the state is
   returned unchanged; the harness compares it with the Go result and the deep fingerprint after
   every such call. *)
From Coq Require Import List String Bool PArith ZArith Sorted Permutation FMapPositive.
From Gods Require Import Effects.EffectModel Effects.EffectsGen Effects.EffectsObligations Effects.EffectsCheck.
From Gods Require Import Common.Cmp Spec.SeqSpec Model.Ops Model.Machine Proofs.ListsProofs.
Import ListNotations.

Theorem C16_fresh_return_independent :
  forall (h : heap) (root r : block),
    r <> root ->
    (forall b i, reach h root b -> h b i <> HRef r) ->
    (forall ws b j, reach h root b -> write_through h r ws b j = h b j)
    /\ (forall ws b, reach (write_through h r ws) root b <-> reach h root b)
    /\ (forall ws j, Forall (fun w => reach h root (fst (fst w))) ws -> write_all h ws r j = h r j).
Proof. exact fresh_return_independent. Qed.
Print Assumptions C16_fresh_return_independent.

Theorem C16_uncaptured_arg_independent :
  forall (h : heap) (root a : block),
    a <> root ->
    (forall b i, reach h root b -> h b i <> HRef a) ->
    forall ws,
      (forall b j, reach h root b -> write_through h a ws b j = h b j)
      /\ (forall b, reach (write_through h a ws) root b <-> reach h root b).
Proof. exact uncaptured_arg_independent. Qed.
Print Assumptions C16_uncaptured_arg_independent.

(* ---------- over the table regenerated from /repo on this run ---------- *)
Theorem C16_values_keys_fresh : forallb snapshot_fresh snapshot_api = true.
Proof. exact values_keys_fresh. Qed.
Print Assumptions C16_values_keys_fresh.

Theorem C16_variadic_args_copied : forallb variadic_copied variadic_api = true.
Proof. exact variadic_args_copied. Qed.
Print Assumptions C16_variadic_args_copied.

Theorem C16_each_snapshot : forall f, In f snapshot_api -> returns_only_fresh (closure f) = true.
Proof. intros f Hf. exact (forallb_In snapshot_fresh snapshot_api f values_keys_fresh Hf). Qed.
Print Assumptions C16_each_snapshot.

Theorem C16_each_variadic : forall f, In f variadic_api ->
  captures_none (f_slice_params (entry f)) (closure f) = true.
Proof. intros f Hf. exact (forallb_In variadic_copied variadic_api f variadic_args_copied Hf). Qed.
Print Assumptions C16_each_variadic.

(* GetSortedValues / GetSortedValuesFunc are read-only: no non-fresh write anywhere below them, so
   in particular they do not sort a container's backing array in place *)
Theorem C16_table_closure : cl = closure_table effects /\ stable effects cl = true.
Proof. exact (conj cl_is_closure closure_stable). Qed.
Print Assumptions C16_table_closure.

(* ---------- value level, on the machine ---------- *)
Lemma sorted_values_model : forall c s, s <> StCrash ->
  step c s SortedValues = (s, ozs (isort Z.compare (values_of c s)), onone) /\
  Permutation (isort Z.compare (values_of c s)) (values_of c s) /\
  Sorted (cmp_le Z.compare) (isort Z.compare (values_of c s)).
Proof.
  intros c s Hs. split; [|split].
  - destruct s; try reflexivity. contradiction Hs; reflexivity.
  - apply isort_perm.
  - apply isort_sorted. exact (cmp_by_SWO (fun x => x)).
Qed.
Print Assumptions sorted_values_model.

Theorem C16_sorted_values_model : forall c s, s <> StCrash ->
  step c s SortedValues = (s, ozs (isort Z.compare (values_of c s)), onone) /\
  Permutation (isort Z.compare (values_of c s)) (values_of c s) /\
  Sorted (cmp_le Z.compare) (isort Z.compare (values_of c s)).
Proof. exact sorted_values_model. Qed.
Print Assumptions C16_sorted_values_model.

(* GetSortedValuesFunc: the implementation's result is accepted by the machine exactly when it is a
   comparator-sorted permutation of Values(); the state is unchanged *)
Lemma sorted_values_func_model : forall c s ci res, s <> StCrash ->
  fst (fst (step c s (SortedValuesFunc ci res))) = s /\
  (snd (fst (step c s (SortedValuesFunc ci res))) = obool true ->
   Permutation res (values_of c s) /\ Sorted (cmp_le (cmp_of ci)) res).
Proof.
  intros c s ci res Hs. split.
  - destruct s; try reflexivity.
  - destruct s; try (contradiction Hs; reflexivity); cbn [step pure fst snd];
      intros H; unfold obool in H;
      destruct (sort_okb (cmp_of ci) _ res) eqn:E; try discriminate H;
      apply sort_okb_sound in E; destruct E as [E1 E2]; split; assumption.
Qed.
Print Assumptions sorted_values_func_model.

Theorem C16_sorted_values_func_model : forall c s ci res, s <> StCrash ->
  fst (fst (step c s (SortedValuesFunc ci res))) = s /\
  (snd (fst (step c s (SortedValuesFunc ci res))) = obool true ->
   Permutation res (values_of c s) /\ Sorted (cmp_le (cmp_of ci)) res).
Proof. exact sorted_values_func_model. Qed.
Print Assumptions C16_sorted_values_func_model.

Example C16_domain_nonempty :
  (25 <=? List.length snapshot_api)%nat = true /\ (25 <=? List.length variadic_api)%nat = true.
Proof. vm_compute. split; reflexivity. Qed.
