(* Property C02 (verbatim):

   "For RedBlackTree, AVLTree, BTree, TreeMap, TreeSet and TreeBidiMap (keys by the key comparator,
    values by the value comparator), after any history and for any comparator that is a strict
    weak order, Keys()/Values()/iteration enumerate the elements in strictly ascending comparator
    order, and keys that compare equal are one key. Left/Right, Min/Max and LeftKey/RightKey return
    the least and greatest element, and Floor(k)/Ceiling(k) return the greatest element not above
    k / the least element not below k, reporting not-found exactly when no such element exists."

   This file covers RedBlackTree, TreeMap, AVLTree and BTree ([ordered_kind]) for ALL operation
   lists of the uniform machine, every executed comparator (each a strict weak order,
   [cmp_of_SWO]) and every B-tree order m >= 3 ([valid c]).  TreeSet and TreeBidiMap, and the
   iterator walks, are in other files.

   [left_of], [right_of], [floor_of], [ceiling_of] (Proofs/MachineMaps.v) are the results of
   Left()/Right()/Floor(p)/Ceiling(p) computed by the tree algorithms (descents of the red-black /
   AVL tree, leftmost / rightmost leaf of the B-tree); [C02_Observed] shows that they are the
   TLeft / TRight / TFloor / TCeiling components of the observation vector compared with Go.
   The gods B-tree offers Left/Right but no Floor/Ceiling.

   [floor_list] / [ceiling_list] (Spec/MapSpec.v) filter the whole entry list; their
   characterisation as greatest-not-above / least-not-below is [floor_list_spec] /
   [ceiling_list_spec] in Proofs/MapSpecProofs.v, restated on the machine below.
   Only restatements: every proof is in Proofs/MachineMaps.v and Proofs/MapSpecProofs.v. *)
From Coq Require Import ZArith List Bool Sorted SetoidList Permutation.
From Gods Require Import Common.Cmp Common.ListAux Spec.MapSpec Model.Ops Model.Machine.
From Gods Require Import Proofs.MapSpecProofs Proofs.MachineMaps.
Import ListNotations.
Local Open Scope Z_scope.

(* ---------- strictly ascending enumeration ---------- *)
Theorem C02_Entries_sorted : forall c ops, valid c -> ordered_kind (ckind c) = true ->
  ksorted (kc c) (entries_of c (run c ops)).
Proof. exact C02_sorted. Qed.
Print Assumptions C02_Entries_sorted.

Theorem C02_Keys_sorted : forall c ops, valid c -> ordered_kind (ckind c) = true ->
  StronglySorted (fun a b => kc c a b = Lt) (keys_of c (run c ops)).
Proof. exact C02_keys_sorted. Qed.
Print Assumptions C02_Keys_sorted.

(* Values() is enumerated in the order of its keys *)
Theorem C02_Values_by_key : forall c ops, valid c ->
  keys_of c (run c ops) = map fst (entries_of c (run c ops)) /\
  values_of c (run c ops) = map snd (entries_of c (run c ops)) /\
  values_of c (run c ops) =
    map (fun k => match last_live (cmp_for c) (rev (hist c ops)) k with Some e => snd e | None => 0 end)
        (keys_of c (run c ops)).
Proof. exact C01_aligned. Qed.
Print Assumptions C02_Values_by_key.

(* ---------- keys that compare equal are one key ---------- *)
Theorem C02_One_key : forall c ops, valid c -> ordered_kind (ckind c) = true ->
  NoDupA (fun a b => kc c a b = Eq) (keys_of c (run c ops)).
Proof. exact C02_one_key. Qed.
Print Assumptions C02_One_key.

(* ---------- Left / Right ---------- *)
Theorem C02_Left : forall c ops, valid c -> ordered_kind (ckind c) = true ->
  left_of (run c ops) = hd_error (entries_of c (run c ops)).
Proof. exact C02_left. Qed.
Print Assumptions C02_Left.

Theorem C02_Right : forall c ops, valid c -> ordered_kind (ckind c) = true ->
  right_of (run c ops) = last_opt (entries_of c (run c ops)).
Proof. exact C02_right. Qed.
Print Assumptions C02_Right.

(* the least element; not-found exactly on the empty container *)
Theorem C02_Left_least : forall c ops, valid c -> ordered_kind (ckind c) = true ->
  match left_of (run c ops) with
  | Some e => In e (entries_of c (run c ops)) /\
              forall e', In e' (entries_of c (run c ops)) -> e' = e \/ kc c (fst e) (fst e') = Lt
  | None => entries_of c (run c ops) = []
  end.
Proof. exact C02_left_least. Qed.
Print Assumptions C02_Left_least.

(* the greatest element *)
Theorem C02_Right_greatest : forall c ops, valid c -> ordered_kind (ckind c) = true ->
  match right_of (run c ops) with
  | Some e => In e (entries_of c (run c ops)) /\
              forall e', In e' (entries_of c (run c ops)) -> e' = e \/ kc c (fst e') (fst e) = Lt
  | None => entries_of c (run c ops) = []
  end.
Proof. exact C02_right_greatest. Qed.
Print Assumptions C02_Right_greatest.

(* ---------- Floor / Ceiling ---------- *)
Theorem C02_Floor : forall c ops p, valid c -> ordered_kind (ckind c) = true -> ckind c <> BTree ->
  floor_of c (run c ops) p = floor_list (kc c) p (entries_of c (run c ops)).
Proof. exact C02_floor. Qed.
Print Assumptions C02_Floor.

Theorem C02_Ceiling : forall c ops p, valid c -> ordered_kind (ckind c) = true -> ckind c <> BTree ->
  ceiling_of c (run c ops) p = ceiling_list (kc c) p (entries_of c (run c ops)).
Proof. exact C02_ceiling. Qed.
Print Assumptions C02_Ceiling.

(* Floor(p) = Some e: e is an entry, its key is not above p, every entry not above p is e or
   strictly below e, and every entry strictly above e is strictly above p (nothing in between).
   Floor(p) = None: every entry is strictly above p. *)
Theorem C02_Floor_char : forall c ops p, valid c -> ordered_kind (ckind c) = true -> ckind c <> BTree ->
  match floor_of c (run c ops) p with
  | Some e => In e (entries_of c (run c ops)) /\ kc c p (fst e) <> Lt /\
              (forall e', In e' (entries_of c (run c ops)) -> kc c p (fst e') <> Lt ->
                          e' = e \/ kc c (fst e') (fst e) = Lt) /\
              (forall e', In e' (entries_of c (run c ops)) -> kc c (fst e) (fst e') = Lt ->
                          kc c p (fst e') = Lt)
  | None => forall e', In e' (entries_of c (run c ops)) -> kc c p (fst e') = Lt
  end.
Proof. exact C02_floor_char. Qed.
Print Assumptions C02_Floor_char.

Theorem C02_Ceiling_char : forall c ops p, valid c -> ordered_kind (ckind c) = true -> ckind c <> BTree ->
  match ceiling_of c (run c ops) p with
  | Some e => In e (entries_of c (run c ops)) /\ kc c p (fst e) <> Gt /\
              (forall e', In e' (entries_of c (run c ops)) -> kc c p (fst e') <> Gt ->
                          e' = e \/ kc c (fst e) (fst e') = Lt) /\
              (forall e', In e' (entries_of c (run c ops)) -> kc c (fst e') (fst e) = Lt ->
                          kc c p (fst e') = Gt)
  | None => forall e', In e' (entries_of c (run c ops)) -> kc c p (fst e') = Gt
  end.
Proof. exact C02_ceiling_char. Qed.
Print Assumptions C02_Ceiling_char.

(* the specification-level characterisations, for EVERY strict weak order *)
Theorem C02_spec_floor : forall cmp, SWO cmp -> forall k l, ksorted cmp l ->
  match floor_list cmp k l with
  | Some e => In e l /\ not_above cmp k e /\
              (forall e', In e' l -> not_above cmp k e' -> e' = e \/ cmp (fst e') (fst e) = Lt) /\
              (forall e', In e' l -> cmp (fst e) (fst e') = Lt -> cmp k (fst e') = Lt)
  | None => forall e', In e' l -> cmp k (fst e') = Lt
  end.
Proof. exact floor_list_spec. Qed.
Print Assumptions C02_spec_floor.

Theorem C02_spec_ceiling : forall cmp, SWO cmp -> forall k l, ksorted cmp l ->
  match ceiling_list cmp k l with
  | Some e => In e l /\ not_below cmp k e /\
              (forall e', In e' l -> not_below cmp k e' -> e' = e \/ cmp (fst e) (fst e') = Lt) /\
              (forall e', In e' l -> cmp (fst e') (fst e) = Lt -> cmp k (fst e') = Gt)
  | None => forall e', In e' l -> cmp k (fst e') = Gt
  end.
Proof. exact ceiling_list_spec. Qed.
Print Assumptions C02_spec_ceiling.

(* ---------- these are the values the observation vector shows ---------- *)
Theorem C02_Observed : forall c ops, valid c -> ordered_kind (ckind c) = true ->
  In (TLeft, oopt2 (left_of (run c ops))) (observe c 1 (run c ops)) /\
  In (TRight, oopt2 (right_of (run c ops))) (observe c 1 (run c ops)) /\
  (ckind c <> BTree ->
   In (TFloor, OL (map (fun p => oopt2 (floor_of c (run c ops) p)) (probes c))) (observe c 1 (run c ops)) /\
   In (TCeiling, OL (map (fun p => oopt2 (ceiling_of c (run c ops) p)) (probes c))) (observe c 1 (run c ops))).
Proof. exact C02_observed. Qed.
Print Assumptions C02_Observed.

(* ================================================================================================ *)
(* concrete histories (evaluated, not proved)                                                       *)
(* ================================================================================================ *)
Definition cfg (k : kind) (kci : cmp_id) (m : Z) : config :=
  {| ckind := k; kcmp := kci; vcmp := CNat; ccap := 0; corder := m; cuni := 6 |}.

(* Floor / Ceiling between neighbours, at a present key, below the least and above the greatest *)
Example ex_floor_between :
  let c := cfg RedBlackTree CNat 3 in
  let s := run c [Put 30 3; Put 10 1; Put 20 2; Put 40 4; Remove 40] in
  floor_of c s 25 = Some (20, 2) /\ ceiling_of c s 25 = Some (30, 3) /\
  floor_of c s 20 = Some (20, 2) /\ ceiling_of c s 20 = Some (20, 2) /\
  floor_of c s 5 = None /\ ceiling_of c s 5 = Some (10, 1) /\
  floor_of c s 35 = Some (30, 3) /\ ceiling_of c s 35 = None /\
  left_of s = Some (10, 1) /\ right_of s = Some (30, 3).
Proof. vm_compute. repeat split; reflexivity. Qed.

(* the reversed order: ascending comparator order is descending integers; Floor(25) is 30 *)
Example ex_reverse :
  let c := cfg AVLTree CRev 3 in
  let s := run c [Put 10 1; Put 20 2; Put 30 3] in
  keys_of c s = [30; 20; 10] /\ left_of s = Some (30, 3) /\ right_of s = Some (10, 1) /\
  floor_of c s 25 = Some (30, 3) /\ ceiling_of c s 25 = Some (20, 2).
Proof. vm_compute. repeat split; reflexivity. Qed.

(* floor division by 3: the probe 8 finds the stored representative 6 of its own class;
   4 and 5 are one key (the second Put replaces the stored key) *)
Example ex_div3 :
  let c := cfg TreeMap CDiv3 3 in
  let s := run c [Put 4 40; Put 5 50; Put 6 60; Put 12 120] in
  keys_of c s = [5; 6; 12] /\
  floor_of c s 8 = Some (6, 60) /\ ceiling_of c s 8 = Some (6, 60) /\
  floor_of c s 10 = Some (6, 60) /\ ceiling_of c s 10 = Some (12, 120) /\
  floor_of c s 2 = None /\ ceiling_of c s 15 = None.
Proof. vm_compute. repeat split; reflexivity. Qed.

(* a B-tree of order 3 after splits and merges: ascending keys, Left / Right *)
Example ex_btree :
  let c := cfg BTree CAbs 3 in
  let s := run c [Put 5 1; Put (-3) 2; Put 8 3; Put 1 4; Put (-9) 5; Put 7 6; Put 2 7; Remove 8; Remove 1; Put 3 8] in
  keys_of c s = [2; 3; 5; 7; -9] /\ values_of c s = [7; 8; 1; 6; 5] /\
  left_of s = Some (2, 7) /\ right_of s = Some (-9, 5) /\ size_of c s = 5.
Proof. vm_compute. repeat split; reflexivity. Qed.
