(* Property C07 (and the heap order of C06): the property ORACLE never raises an alarm on the model,
   and the property's exact numeric bounds hold on the model.

   "... a single Get, Put or Remove on a tree with n keys invokes the comparator O(log n) times (at
    most 2*log2(n+1)+2 for the red-black tree, 1.45*log2(n+2)+2 for the AVL tree, and
    4*(log2(m)+1)*(log_ceil(m/2)(n+1)+1) for a B-tree of order m).  The exported structure always has
    the documented shape ..."                                   (full text: Properties/C07.v)

   What this file is about.  Oracle/Oracle.v defines boolean checkers that the test pipeline runs on
   what the real Go code exported after every operation of every replayed history: the decoded tree
   ([TShape]), [Size()], [Height()], the heap array ([TRaw]) and the comparator-call counts
   ([TCost] for Get, the X line for Put / Remove).  They print failure codes
       1 undecodable   2 shape invariant   3 keys not ascending   4 count <> Size()
       5 red-black path ratio   6 B-tree Height()   7 Get cost   8 Put/Remove cost   9 heap order.
   Properties/C07.v proves the invariants and cost bounds for every reachable state of the model, in
   the forms natural for the proofs (floor logarithms, Fibonacci numbers).  Here the two are joined:

   * [C07_oracle_vector_model]: for EVERY configuration c (all 21 kinds, any comparators, any order /
     capacity), EVERY list of operations and EVERY observation level, the oracle's verdict on the
     machine's observation vector is [] - no failure code is possible.  No hypothesis at all: a B-tree
     of order < 3 (or a ring of capacity < 1) is the crashed state, whose vector is the single line
     "sane ((()))", which the oracle does not judge; the thirteen kinds the oracle does not judge give
     [] trivially ([C07_oracle_unjudged]).
   * [C07_oracle_cost_model]: for every history and every next operation o, the verdict on the cost
     component of [step c (run c ops) o] is [], both through [oracle_cost_op] with the right
     [is_put] flag and through the lenient [oracle_cost].  [C07_oracle_cost_strict] is stronger: the
     verdict is [] with EITHER flag, i.e. on the model a Put also satisfies the bound at n = Size()
     before the insertion (the oracle's allowance "n or n+1 for Put" is never needed by the model).
   Consequently every alarm of the oracle on the implementation's output is a genuine deviation from
   the proved behaviour; the oracle cannot raise a false alarm.  No clause of the oracle is false of
   the model: there is no [_refuted] statement in this file.

   * The numeric bounds in the property's own form (exact integer inequalities, no floor):
       [C07_rb_cost_exact]   q <= 2*log2(n+1)+2      <->  q < 2 \/ 2^(q-2) <= (n+1)^2
       [C07_avl_cost_exact]  q <= 1.45*log2(n+2)+2   <->  q < 2 \/ 2^(20(q-2)) <= (n+2)^29
       [C07_bt_cost_exact]   q <= 4*(floor(log2 m)+1)*(L+1), L = floor(log_ceil(m/2)(n+1)) given by
                             ceil(m/2)^L <= n+1 < ceil(m/2)^(L+1); this implies the real-valued bound.
     for the cost q of any operation from any reachable state ([stepcost c s o = OL [OZ q]]; only Put
     and Remove print a cost, [C07_only_put_remove_cost]), n = Size() before the operation; and
     [C07_get_costs_model] for every entry of every [TCost] line (Get of each probe key).
     The AVL clause needed a sharper arithmetic fact than Properties/C07.v had:
       [C07_fib_pow_tight]    2^(20 h) <= fib(h+2)^29          (AVLBounds.fib_pow had an extra 2^29)
       [C07_avl_height_tight] 2^(20 height) <= (count+1)^29,   i.e. height <= 1.45*log2(n+1)
     (1.618^h <= fib(h+2) by two-step induction since 1.618^2 <= 1.618+1, and 1.618^29 >= 2^20).
     Example [ex_exponent_tight] shows 29 cannot be replaced by 28 (fails at h = 20).
   * Shape, kind by kind, on what the machine prints ([rb_shape], [avl_shape], [bt_shape], [ozs] are
     Machine.v's printers; the first conjunct says the oracle's decoder inverts the printer):
       [C07_rb_shape_model]    RedBlackTree, TreeMap, TreeSet
       [C07_bidi_shape_model]  TreeBidiMap: forward tree under the key comparator, inverse tree under
                               the value comparator, both with exactly Size() nodes
       [C07_avl_shape_model], [C07_bt_shape_model] (incl. Height(); [bt_shape_opt None] = () is the
       empty tree with size 0 and height 0), [C06_heap_raw_model] (BinaryHeap, PriorityQueue).
   * [C07_oracle_vector_inv] / [C07_oracle_cost_inv]: the same verdicts for ANY state satisfying the
     machine invariant [ginv] (MachineInv.v), not only reachable ones.

   Examples: the verdict computed on all prefixes of a churn history, both levels, five trial
   operations per state (all []); and hand-made deviating vectors on which each failure code 1..9
   fires, so the theorems are not true for lack of content. *)
From Coq Require Import ZArith List Lia Bool Arith.
From Gods Require Import Common.Cmp Model.Ops Model.Machine.
From Gods Require Proofs.AVLInv Proofs.AVLBounds Proofs.MachineInv Proofs.MachineTrees.
From Gods Require Import Oracle.Oracle Proofs.OracleProofs.
Import ListNotations.
Local Open Scope Z_scope.

(* ================================================================================================ *)
(* the headline: no alarm, for all configurations, histories and levels                             *)
(* ================================================================================================ *)
Theorem C07_oracle_vector_model : forall c ops lvl,
  oracle_vector c (observe c lvl (run c ops)) = [].
Proof. exact OracleProofs.oracle_vector_model. Qed.
Print Assumptions C07_oracle_vector_model.

Theorem C07_oracle_cost_model : forall c ops o s' r x, step c (run c ops) o = (s', r, x) ->
  oracle_cost_op c (is_put o) (size_of c (run c ops)) x = [] /\
  oracle_cost c (size_of c (run c ops)) x = [].
Proof. exact OracleProofs.oracle_cost_model. Qed.
Print Assumptions C07_oracle_cost_model.

Theorem C07_oracle_cost_strict : forall c ops o b,
  oracle_cost_op c b (size_of c (run c ops)) (snd (step c (run c ops) o)) = [].
Proof. exact OracleProofs.oracle_cost_model_strict. Qed.
Print Assumptions C07_oracle_cost_strict.

(* for any state satisfying the global machine invariant *)
Theorem C07_oracle_vector_inv : forall c lvl s, MachineInv.config_ok c -> MachineInv.ginv c s ->
  oracle_vector c (observe c lvl s) = [].
Proof. exact OracleProofs.oracle_vector_ginv. Qed.
Print Assumptions C07_oracle_vector_inv.

Theorem C07_oracle_cost_inv : forall c s o b, MachineInv.config_ok c -> MachineInv.ginv c s ->
  oracle_cost_op c b (size_of c s) (snd (step c s o)) = [].
Proof. exact OracleProofs.oracle_cost_ginv. Qed.
Print Assumptions C07_oracle_cost_inv.

(* kinds outside RedBlackTree, TreeMap, TreeSet, TreeBidiMap, AVLTree, BTree, BinaryHeap,
   PriorityQueue are not judged, whatever the state *)
Theorem C07_oracle_unjudged : forall c lvl s, judged (ckind c) = false ->
  oracle_vector c (observe c lvl s) = [].
Proof. exact OracleProofs.oracle_vector_unjudged. Qed.
Print Assumptions C07_oracle_unjudged.

Theorem C07_only_put_remove_cost : forall c s o, is_put o = false -> is_remove o = false ->
  snd (step c s o) = onone.
Proof. exact OracleProofs.step_cost_other. Qed.
Print Assumptions C07_only_put_remove_cost.

(* ================================================================================================ *)
(* the property's numeric bounds, exactly                                                           *)
(* ================================================================================================ *)
Theorem C07_fib_pow_tight : forall h, (2 ^ (20 * h) <= AVLBounds.fib (h + 2) ^ 29)%nat.
Proof. exact OracleProofs.fib_pow_tight. Qed.
Print Assumptions C07_fib_pow_tight.

Theorem C07_avl_height_tight : forall t, AVLInv.avl t ->
  (2 ^ (20 * AVLTree.height t) <= (AVLTree.count t + 1) ^ 29)%nat.
Proof. exact OracleProofs.avl_height_tight. Qed.
Print Assumptions C07_avl_height_tight.

Theorem C07_cost_bound_ok_model : forall c ops o q,
  snd (step c (run c ops) o) = OL [OZ q] ->
  cost_bound_ok c (size_of c (run c ops)) q = true.
Proof. exact OracleProofs.cost_bound_ok_model. Qed.
Print Assumptions C07_cost_bound_ok_model.

Theorem C07_rb_cost_exact : forall c ops o q, ckind c = RedBlackTree ->
  stepcost c (run c ops) o = OL [OZ q] ->
  let n := size_of c (run c ops) in
  0 <= n /\ (q < 2 \/ 2 ^ (q - 2) <= (n + 1) ^ 2).
Proof. exact OracleProofs.rb_cost_exact. Qed.
Print Assumptions C07_rb_cost_exact.

Theorem C07_avl_cost_exact : forall c ops o q, ckind c = AVLTree ->
  stepcost c (run c ops) o = OL [OZ q] ->
  let n := size_of c (run c ops) in
  0 <= n /\ (q < 2 \/ 2 ^ (20 * (q - 2)) <= (n + 2) ^ 29).
Proof. exact OracleProofs.avl_cost_exact. Qed.
Print Assumptions C07_avl_cost_exact.

Theorem C07_bt_cost_exact : forall c ops o q, ckind c = BTree ->
  stepcost c (run c ops) o = OL [OZ q] ->
  let n := size_of c (run c ops) in let m := corder c in
  0 <= n /\ 3 <= m /\
  exists L, 0 <= L /\ ((m + 1) / 2) ^ L <= n + 1 < ((m + 1) / 2) ^ (L + 1) /\
            q <= 4 * (Z.log2 m + 1) * (L + 1).
Proof. exact OracleProofs.bt_cost_exact. Qed.
Print Assumptions C07_bt_cost_exact.

(* every entry of every TCost line (comparator calls of Get(p), p = -1 .. cuni), at every level *)
Theorem C07_get_costs_model : forall c ops lvl o, MachineTrees.cost_kind (ckind c) = true ->
  In (TCost, o) (observe c lvl (run c ops)) ->
  exists qs, o = ozs qs /\ forall q, In q qs -> cost_bound_ok c (size_of c (run c ops)) q = true.
Proof. exact OracleProofs.get_costs_model. Qed.
Print Assumptions C07_get_costs_model.

(* ================================================================================================ *)
(* shape, kind by kind                                                                              *)
(* ================================================================================================ *)
Theorem C07_rb_shape_model : forall c ops t n, MachineTrees.rb_kind (ckind c) = true -> run c ops = StRB t n ->
  rb_of (rb_shape t) = Some t /\
  rb_shape_ok (kc c) (size_of c (run c ops)) (rb_shape t) = true.
Proof. exact OracleProofs.rb_shape_model. Qed.
Print Assumptions C07_rb_shape_model.

Theorem C07_bidi_shape_model : forall c ops f fn i inn, ckind c = TreeBidiMap -> run c ops = StTBidi f fn i inn ->
  rb_shape_ok (kc c) (size_of c (run c ops)) (rb_shape f) = true /\
  rb_shape_ok (vc c) (size_of c (run c ops)) (rb_shape i) = true.
Proof. exact OracleProofs.bidi_shape_model. Qed.
Print Assumptions C07_bidi_shape_model.

Theorem C07_avl_shape_model : forall c ops t n, ckind c = AVLTree -> run c ops = StAVL t n ->
  avl_of (avl_shape t) = Some t /\
  avl_shape_ok (kc c) (size_of c (run c ops)) (avl_shape t) = true.
Proof. exact OracleProofs.avl_shape_model. Qed.
Print Assumptions C07_avl_shape_model.

Theorem C07_bt_shape_model : forall c ops r n, ckind c = BTree -> run c ops = StBT r n ->
  (forall root, r = Some root -> bt_of (bt_shape root) = Some root) /\
  bt_shape_ok (bt_m c) (kc c) (size_of c (run c ops)) (bt_height_opt r) (bt_shape_opt r) = true.
Proof. exact OracleProofs.bt_shape_model. Qed.
Print Assumptions C07_bt_shape_model.

Theorem C06_heap_raw_model : forall c ops l, (ckind c = BinaryHeap \/ ckind c = PriorityQueue) ->
  run c ops = StHeap l ->
  zs_of (ozs l) = Some l /\ heap_raw_ok (kc c) (ozs l) = true /\ size_of c (run c ops) = Z.of_nat (length l).
Proof. exact OracleProofs.heap_raw_model. Qed.
Print Assumptions C06_heap_raw_model.

(* ================================================================================================ *)
(* concrete histories and deviating vectors                                                         *)
(* ================================================================================================ *)
Definition cfg (k : kind) (m : Z) : config :=
  {| ckind := k; kcmp := CNat; vcmp := CRev; ccap := 0; corder := m; cuni := 15 |}.

Definition asc15 : list op := map (fun k => Put k k) (zrange 0 15).
Definition zigzag : list op := flat_map (fun k => [Put k k; Put (29 - k) k]) (zrange 0 15).
Definition churn : list op :=
  zigzag ++ map Remove (zrange 5 20) ++
  [Put 7 7; Put 8 8; Remove 0; Remove 29; Put 100 1; Remove 3; FromJSON DNull] ++
  asc15 ++ [Remove 7; Remove 3; Remove 11].
Fixpoint prefixes {A} (l : list A) : list (list A) :=
  match l with [] => [[]] | x :: r => [] :: map (cons x) (prefixes r) end.
(* every failure code printed along a history: both observation levels after every prefix, and the
   cost line of five trial operations from every intermediate state *)
Definition verdicts (c : config) (h : list op) : list Z :=
  flat_map (fun p =>
     oracle_vector c (observe c 1 (run c p)) ++ oracle_vector c (observe c 0 (run c p)) ++
     flat_map (fun o => oracle_cost_op c (is_put o) (size_of c (run c p)) (snd (step c (run c p) o)))
              [Put 7 7; Put 200 1; Remove 3; Remove 55; Put (-5) 0]) (prefixes h).

(* instances of the theorems: every prefix of the 70-operation churn history x 5 kinds, orders 3 and 5;
   sets and heaps *)
Example ex_model_clean :
  map (fun k => verdicts (cfg k 3) churn) [RedBlackTree; TreeMap; TreeBidiMap; AVLTree; BTree]
    = [[]; []; []; []; []] /\
  verdicts (cfg BTree 5) churn = [] /\
  verdicts (cfg TreeSet 3) [Add [5; 3; 9; 1; 7; 2; 8]; RemoveVals [3; 9]; Add [4; 4; 6]] = [] /\
  verdicts (cfg BinaryHeap 3) [Push 5; Push 3; PushAll [9; 1; 7; 2; 8]; Pop; Pop; Push 0] = [] /\
  verdicts (cfg PriorityQueue 3) [Enqueue 5; Enqueue 3; Enqueue 9; Dequeue; Enqueue 1] = [] /\
  verdicts (cfg BTree 2) [Put 1 1] = [] /\                     (* constructor panicked: nothing to judge *)
  verdicts (cfg ArrayList 3) [Add [3; 1; 2]] = [].             (* not judged *)
Proof. vm_compute. repeat split; reflexivity. Qed.

(* the least cost the oracle rejects, against the worst cost the model reaches (Properties/C07.v,
   ex_rb / ex_avl / ex_bt: zig-zag of 30 keys: red-black 8, AVL 6, B-tree order 3: 11).  For the
   red-black tree 2*log2(31)+2 = 11.9: 11 passes, 12 fails; AVL 1.45*log2(32)+2 = 9.25;
   B-tree order 3: 4*2*(4+1) = 40, order 7: 4*3*(2+1) = 36. *)
Definition first_bad (ok : Z -> bool) : Z :=
  match find (fun q => negb (ok q)) (zrange 0 200) with Some q => q | None => -1 end.
Example ex_thresholds :
  (first_bad (rb_cost_ok 30), first_bad (avl_cost_ok 30), first_bad (bt_cost_ok 3 30), first_bad (bt_cost_ok 7 30))
    = (12, 10, 41, 37) /\
  (* Put: the bound at n or at n+1; Remove: at n only *)
  (oracle_cost_op (cfg RedBlackTree 3) true 30 (OL [OZ 12]), oracle_cost_op (cfg RedBlackTree 3) false 30 (OL [OZ 12]),
   oracle_cost_op (cfg RedBlackTree 3) true 30 (OL [OZ 13])) = ([], [8], [8]) /\
  (oracle_cost_op (cfg AVLTree 3) false 30 (OL [OZ 9]), oracle_cost_op (cfg AVLTree 3) false 30 (OL [OZ 10]))
    = ([], [8]) /\
  (oracle_cost_op (cfg BTree 3) false 30 (OL [OZ 40]), oracle_cost_op (cfg BTree 3) false 30 (OL [OZ 41]))
    = ([], [8]).
Proof. vm_compute. repeat split; reflexivity. Qed.

(* the exponent 29/20 = 1.45: with 28 the inequality fails at h = 20 (fib 22 = 17711) *)
Example ex_exponent_tight :
  (2 ^ 400 <=? fibz 22 ^ 29, 2 ^ 400 <=? fibz 22 ^ 28) = (true, false).
Proof. vm_compute. reflexivity. Qed.

(* deviating vectors: each code fires.  Nodes are (colour key value left right), 0 = red. *)
Definition leaf (col k : Z) : obs := OL [OZ col; OZ k; OZ k; OL []; OL []].
Definition node (col k : Z) (l r : obs) : obs := OL [OZ col; OZ k; OZ k; l; r].
Definition vec (n : Z) (shape : obs) : list (tag * obs) := [(TSize, OZ n); (TShape, shape)].
Example ex_rb_alarms :
  let c := cfg TreeMap 3 in
  (oracle_vector c (vec 3 (node 1 2 (leaf 0 1) (leaf 0 3))),                    (* a correct tree *)
   oracle_vector c (vec 4 (node 1 2 (leaf 0 1) (leaf 0 3))),                    (* Size() off by one *)
   oracle_vector c (vec 3 (node 0 2 (leaf 0 1) (leaf 0 3))),                    (* red root, red children *)
   oracle_vector c (vec 3 (node 1 2 (leaf 0 3) (leaf 0 1))),                    (* keys out of order *)
   oracle_vector c (vec 3 (node 1 1 (OL []) (node 1 2 (OL []) (leaf 1 3)))),    (* a black chain *)
   oracle_vector c (vec 3 (OZ 5)),                                              (* not a tree *)
   oracle_vector c [(TShape, leaf 1 1)])                                        (* no size *)
  = ([], [4], [2], [3], [2; 5], [1], [1]).
Proof. vm_compute. reflexivity. Qed.

Example ex_avl_alarms :
  let c := cfg AVLTree 3 in
  (oracle_vector c (vec 3 (node 0 2 (leaf 0 1) (leaf 0 3))),
   oracle_vector c (vec 3 (node 2 1 (OL []) (node 1 2 (OL []) (leaf 0 3)))),    (* heights differ by 2 *)
   oracle_vector c (vec 2 (node 0 1 (OL []) (leaf 0 2))),                       (* wrong balance factor *)
   oracle_vector c [(TSize, OZ 30); (TCost, ozs [3; 9; 10])])                   (* a Get with 10 calls *)
  = ([], [2], [2], [7]).
Proof. vm_compute. reflexivity. Qed.

Definition bvec (n h : Z) (shape : obs) : list (tag * obs) := [(TSize, OZ n); (THeight, OZ h); (TShape, shape)].
Definition bleaf (ks : list Z) : obs := OL [opairs (map (fun k => (k, k)) ks); OL []].
Example ex_bt_alarms :
  let c := cfg BTree 3 in
  (oracle_vector c (bvec 3 2 (OL [opairs [(2, 2)]; OL [bleaf [1]; bleaf [3]]])),
   oracle_vector c (bvec 3 3 (OL [opairs [(2, 2)]; OL [bleaf [1]; bleaf [3]]])),        (* Height() wrong *)
   oracle_vector c (bvec 5 2 (OL [opairs [(2, 2)]; OL [bleaf [1]; bleaf [3; 4; 5]]])),  (* 3 keys, order 3 *)
   oracle_vector c (bvec 2 2 (OL [opairs [(2, 2)]; OL [bleaf [1]; bleaf []]])),         (* empty non-root *)
   oracle_vector c (bvec 0 0 (OL [])),                                                  (* the empty tree *)
   oracle_vector c [(TSize, OZ 3); (TShape, bleaf [1; 2])])                             (* no height *)
  = ([], [6], [2], [2], [], [1]).
Proof. vm_compute. reflexivity. Qed.

Example ex_heap_alarms :
  let c := cfg BinaryHeap 3 in
  (oracle_vector c [(TSize, OZ 3); (TRaw, ozs [1; 5; 2])],
   oracle_vector c [(TSize, OZ 3); (TRaw, ozs [4; 5; 2])],                      (* child below parent *)
   oracle_vector c [(TSize, OZ 2); (TRaw, ozs [1; 5; 2])])                      (* length <> Size() *)
  = ([], [9], [4]).
Proof. vm_compute. reflexivity. Qed.
