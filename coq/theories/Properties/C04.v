(* Property C04.

   "For HashSet, TreeSet and LinkedHashSet, after any history of variadic Add/Remove and Clear,
    Contains(x) is true exactly when x was added after its last removal; Contains(xs...) is true
    exactly when every x is a member (true for no arguments). Size() equals the number of distinct
    members and Values() lists each member exactly once, however many times it was added."

   Reading.  [run c ops] is the state of the uniform machine (Model/Machine.v) after the operations
   [ops] (ANY list of operations: Add / RemoveVals with arbitrary argument lists - empty, with
   duplicates, members and non-members mixed -, Clear, FromJSON, observers and operations the kind does
   not offer).  [set_hist c ops] keeps the set calls of the history (Spec/SetSpec.v); the declarative
   membership [live cmp h x] scans that history newest-first for the most recent call that mentions
   (an element equivalent to) x and never looks at a container state.  Elements are identified by
   [set_cmp c]: Go's == for HashSet / LinkedHashSet, the comparator [kc c] for TreeSet (equivalent
   elements are one member).  [contains_of], [values_of], [size_of] are Contains, Values, Size. *)
From Coq Require Import ZArith List Bool Sorted Permutation SetoidList.
From Gods Require Import Common.Cmp Spec.SetSpec Model.Ops Model.Machine Proofs.SetsProofs.
Import ListNotations.
Local Open Scope Z_scope.

(* Contains(x) = "x was added after its last removal / Clear" *)
Theorem C04_member : forall c ops x, is_set_kind (ckind c) = true ->
  contains_of c (run c ops) [x] = obool (live (set_cmp c) (rev (set_hist c ops)) x).
Proof. exact C04_member_proof. Qed.
Print Assumptions C04_member.

(* the same with the comparison spelled out per kind *)
Theorem C04_member_hash : forall c ops x, ckind c = HashSet \/ ckind c = LinkedHashSet ->
  contains_of c (run c ops) [x] = obool (live Z.compare (rev (set_hist c ops)) x).
Proof. exact C04_member_hash_proof. Qed.
Print Assumptions C04_member_hash.

Theorem C04_member_tree : forall c ops x, ckind c = TreeSet ->
  contains_of c (run c ops) [x] = obool (live (kc c) (rev (set_hist c ops)) x).
Proof. exact C04_member_tree_proof. Qed.
Print Assumptions C04_member_tree.

(* Contains(xs...) = every x is a member; true for no arguments *)
Theorem C04_contains_all : forall c ops xs, is_set_kind (ckind c) = true ->
  contains_of c (run c ops) xs = obool (forallb (member c (run c ops)) xs) /\
  contains_of c (run c ops) xs = obool (forallb (live (set_cmp c) (rev (set_hist c ops))) xs) /\
  contains_of c (run c ops) [] = obool true.
Proof. exact C04_contains_all_proof. Qed.
Print Assumptions C04_contains_all.

Theorem C04_contains_each : forall c ops xs, is_set_kind (ckind c) = true ->
  (contains_of c (run c ops) xs = obool true <->
   forall x, In x xs -> contains_of c (run c ops) [x] = obool true).
Proof. exact C04_contains_each_proof. Qed.
Print Assumptions C04_contains_each.

(* Values() lists each member exactly once; Size() is the number of members *)
Theorem C04_values : forall c ops, is_set_kind (ckind c) = true ->
  let s := run c ops in
  NoDupA (sequiv c) (values_of c s) /\
  size_of c s = Z.of_nat (length (values_of c s)) /\
  (forall x, InA (sequiv c) x (values_of c s) <-> member c s x = true) /\
  (forall x, InA (sequiv c) x (values_of c s) <-> live (set_cmp c) (rev (set_hist c ops)) x = true).
Proof. exact C04_values_proof. Qed.
Print Assumptions C04_values.

Theorem C04_values_obs : forall c ops, is_set_kind (ckind c) = true ->
  let s := run c ops in
  NoDupA (fun a b => set_cmp c a b = Eq) (values_of c s) /\
  size_of c s = Z.of_nat (length (values_of c s)) /\
  (forall x, InA (fun a b => set_cmp c a b = Eq) x (values_of c s) <-> contains_of c s [x] = obool true).
Proof. exact C04_values_obs_proof. Qed.
Print Assumptions C04_values_obs.

(* TreeSet enumerates in strictly ascending comparator order *)
Theorem C04_treeset_ascending : forall c ops, ckind c = TreeSet ->
  StronglySorted (fun a b => kc c a b = Lt) (values_of c (run c ops)).
Proof. exact C04_treeset_ascending_proof. Qed.
Print Assumptions C04_treeset_ascending.

(* LinkedHashSet: the table and the ordering list never drift apart *)
Theorem C04_linked_inv : forall c ops, ckind c = LinkedHashSet ->
  exists tbl ord, run c ops = StLSet tbl ord /\
    StronglySorted Z.lt tbl /\ NoDup ord /\ Permutation tbl ord.
Proof. exact C04_linked_inv_proof. Qed.
Print Assumptions C04_linked_inv.

(* no history makes a set panic *)
Theorem C04_no_crash : forall c ops, is_set_kind (ckind c) = true -> run c ops <> StCrash.
Proof. exact C04_no_crash_proof. Qed.
Print Assumptions C04_no_crash.

(* ---------- concrete histories ---------- *)
Definition cfg (k : kind) (kc : cmp_id) : config :=
  {| ckind := k; kcmp := kc; vcmp := CNat; ccap := 0; corder := 3; cuni := 8 |}.

Definition h1 : list op :=
  [Add [3; 1; 3; 2]; RemoveVals [1; 7; 1]; Add []; Add [5; 1]; RemoveVals []; RemoveVals [3; 5; 5];
   Add [9; 2; 2]; Put 4 4; Each; FromJSON DErr].

Example ex_hashset : values_of (cfg HashSet CNat) (run (cfg HashSet CNat) h1) = [1; 2; 9] /\
  size_of (cfg HashSet CNat) (run (cfg HashSet CNat) h1) = 3 /\
  map (live Z.compare (rev (set_hist (cfg HashSet CNat) h1))) [1; 2; 3; 5; 7; 9] = [true; true; false; false; false; true] /\
  contains_of (cfg HashSet CNat) (run (cfg HashSet CNat) h1) [2; 9; 2] = obool true /\
  contains_of (cfg HashSet CNat) (run (cfg HashSet CNat) h1) [2; 3] = obool false.
Proof. vm_compute. repeat split; reflexivity. Qed.

Example ex_linkedhashset : values_of (cfg LinkedHashSet CNat) (run (cfg LinkedHashSet CNat) h1) = [2; 1; 9] /\
  size_of (cfg LinkedHashSet CNat) (run (cfg LinkedHashSet CNat) h1) = 3 /\
  run (cfg LinkedHashSet CNat) h1 = StLSet [1; 2; 9] [2; 1; 9].
Proof. vm_compute. repeat split; reflexivity. Qed.

(* many-to-one comparator: 3, 4, 5 are one element under x / 3; the stored representative is the last one added *)
Definition h2 : list op := [Add [3; 4; 0]; Add [5; 10]; RemoveVals [2]; Add [11; 7]; FromJSON (DArr [6; 8; 1; 2]); RemoveVals [7]].

Example ex_treeset_div3 : values_of (cfg TreeSet CDiv3) (run (cfg TreeSet CDiv3) h2) = [2] /\
  size_of (cfg TreeSet CDiv3) (run (cfg TreeSet CDiv3) h2) = 1 /\
  contains_of (cfg TreeSet CDiv3) (run (cfg TreeSet CDiv3) h2) [0; 1; 2] = obool true /\
  contains_of (cfg TreeSet CDiv3) (run (cfg TreeSet CDiv3) h2) [6] = obool false /\
  map (live (kc (cfg TreeSet CDiv3)) (rev (set_hist (cfg TreeSet CDiv3) h2))) [0; 1; 2; 3; 6; 8] = [true; true; true; false; false; false].
Proof. vm_compute. repeat split; reflexivity. Qed.

Example ex_treeset_abs :
  values_of (cfg TreeSet CAbs) (run (cfg TreeSet CAbs) [Add [-3; 1; 3; -1; 2]; RemoveVals [-2]; Add [-5; 5; -5]]) = [-1; 3; -5].
Proof. vm_compute. reflexivity. Qed.

(* ---------- rebuilding a set from its own Values() ----------
   Model side of the "variadic constructor" conjunct of harness sane bit 7: the harness checks after
   every operation that New(set.Values()...) — in the Go code "construct empty, then one
   Add(values...) call", at machine level the one-operation history [Add vs] — has the same observation
   vector (size, empty, values, contains) as the set itself, the TreeSet's exact tree shape exempt.

   HashSet and LinkedHashSet: for EVERY history the rebuilt machine state is not a panic and IS the
   state of the original (table and ordering list), so every observer agrees.

   TreeSet: for EVERY history and every comparator of the family the rebuilt state is not a panic,
   satisfies the set invariant (red-black, search-ordered, cached size = node count), and has the same
   Values() — the same representative of every comparator class, ascending —, the same Size(), the same
   answer to every Contains probe, and the same observation vector once the TShape entry is dropped.
   The tree itself is not reproduced in general: [C04_rebuild_treeset_state_refuted]. *)
From Gods Require Import Proofs.RebuildProofs.

Theorem C04_rebuild_from_values : forall c ops, ckind c = HashSet \/ ckind c = LinkedHashSet ->
  let s := run c ops in
  let r := run c [Add (values_of c s)] in
  r <> StCrash /\ r = s /\ forall lvl, observe c lvl r = observe c lvl s.
Proof. exact rebuild_hash_full. Qed.
Print Assumptions C04_rebuild_from_values.

Theorem C04_rebuild_from_values_treeset : forall c ops, ckind c = TreeSet ->
  let s := run c ops in
  let r := run c [Add (values_of c s)] in
  r <> StCrash /\ set_inv c r /\
  values_of c r = values_of c s /\
  size_of c r = size_of c s /\
  (forall x, member c r x = member c s x) /\
  (forall vs, contains_of c r vs = contains_of c s vs) /\
  (forall lvl, drop_shape (observe c lvl r) = drop_shape (observe c lvl s)).
Proof. exact rebuild_treeset. Qed.
Print Assumptions C04_rebuild_from_values_treeset.

(* full state equality (and equality of the whole observation vector) is false for the TreeSet *)
Theorem C04_rebuild_treeset_state_refuted : exists c ops, ckind c = TreeSet /\
  run c [Add (values_of c (run c ops))] <> run c ops /\
  observe c 1 (run c [Add (values_of c (run c ops))]) <> observe c 1 (run c ops).
Proof. exact rebuild_treeset_state_refuted. Qed.
Print Assumptions C04_rebuild_treeset_state_refuted.

(* all six kinds with a variadic constructor in one statement *)
Theorem C04_rebuild_from_values_all : forall c ops, has_variadic_ctor (ckind c) = true ->
  let s := run c ops in
  let r := run c [Add (values_of c s)] in
  s <> StCrash /\ r <> StCrash /\
  values_of c r = values_of c s /\
  size_of c r = size_of c s /\
  (forall vs, contains_of c r vs = contains_of c s vs) /\
  (forall lvl, drop_shape (observe c lvl r) = drop_shape (observe c lvl s)) /\
  (ckind c <> TreeSet -> r = s /\ forall lvl, observe c lvl r = observe c lvl s).
Proof. exact rebuild_from_values. Qed.
Print Assumptions C04_rebuild_from_values_all.

(* duplicates in the history; insertion order of the linked set survives the rebuild *)
Example ex_rebuild_hash :
  run (cfg HashSet CNat) [Add (values_of (cfg HashSet CNat) (run (cfg HashSet CNat) h1))] = StHSet [1; 2; 9] /\
  run (cfg HashSet CNat) h1 = StHSet [1; 2; 9] /\
  run (cfg LinkedHashSet CNat) [Add (values_of (cfg LinkedHashSet CNat) (run (cfg LinkedHashSet CNat) h1))] = StLSet [1; 2; 9] [2; 1; 9] /\
  run (cfg LinkedHashSet CNat) h1 = StLSet [1; 2; 9] [2; 1; 9].
Proof. vm_compute. repeat split; reflexivity. Qed.

(* many-to-one comparator |x|: one representative per class; re-adding the representatives gives
   exactly them back, in a different tree *)
Example ex_rebuild_treeset_abs :
  let c := cfg TreeSet CAbs in
  let s := run c [Add [-3; 1; 3; -1; 2]; RemoveVals [-2]; Add [-5; 5; -5; 7; -8; 4]] in
  let r := run c [Add (values_of c s)] in
  values_of c s = [-1; 3; 4; -5; 7; -8] /\ values_of c r = [-1; 3; 4; -5; 7; -8] /\
  size_of c s = 6 /\ size_of c r = 6 /\
  map (contains_of c r) [[1]; [-3; 8]; [2]; [5; 6]] = map (contains_of c s) [[1]; [-3; 8]; [2]; [5; 6]] /\
  map (contains_of c s) [[1]; [-3; 8]; [2]; [5; 6]] = [obool true; obool true; obool false; obool false] /\
  r <> s /\ drop_shape (observe c 1 r) = drop_shape (observe c 1 s).
Proof. vm_compute. repeat split; try reflexivity. discriminate. Qed.

Example ex_rebuild_treeset_div3 :
  let c := cfg TreeSet CDiv3 in
  let s := run c [Add [3; 4; 0]; Add [5; 10]; RemoveVals [2]; Add [11; 7]; FromJSON (DArr [6; 8; 1; 2]); Add [7; -4; 13; 12]] in
  let r := run c [Add (values_of c s)] in
  values_of c s = [-4; 2; 7; 12] /\ values_of c r = [-4; 2; 7; 12] /\ size_of c r = 4 /\
  contains_of c r [-5; 0; 8; 14] = obool true /\ contains_of c r [3] = obool false.
Proof. vm_compute. repeat split; reflexivity. Qed.
