(* Property C15.  Size, Empty, Values, Keys and Clear agree on every container.

   "For all 21 containers in every reachable state, Empty() holds exactly when Size() == 0,
    len(Values()) == Size() (and len(Keys()) == Size() for maps and trees), and Size() is never
    negative. Clear() leaves an empty container that keeps its configuration (comparator, capacity,
    order) and behaves from then on exactly like a freshly constructed one. String() begins with the
    container's name and, like every other observer, does not alter the container."
   Quantifier: all histories on all 21 container types, Clear at any point followed by any
   continuation.

   Reading.  [c : config] fixes the kind (one of the 21) and the construction parameters (comparators,
   ring capacity, B-tree order); [run c ops] is the state of the uniform machine (Model/Machine.v)
   after ANY list of operations [ops], starting from the constructor's state [init c].  The single
   hypothesis [config_ok c] (Proofs/MachineInv.v) says that the constructor did not panic:
   B-tree order >= 3, ring capacity >= 1 ([C17_config_ok_iff] in C17_model.v: it is equivalent to
   [init c <> StCrash]).  There is NO hypothesis on the state: everything rests on the global
   invariant [ginv] proved for every reachable state of every kind ([C15_invariant]).

   [size_of] is Size() - for the trees, the linked kinds, the ring and the tree-backed bidirectional
   map a CACHED counter stored next to the structure, not a length; [values_of] / [keys_of] are
   Values() / Keys(), computed by walking the structure; [is_kv] singles out the eight key-value
   kinds (maps and trees); the component tagged [TEmpty] of the observation vector [observe c 1 s]
   is Empty().  State equality [=] is equality of the WHOLE machine state, hidden fields included
   (ring indices and raw slots, cached sizes, tree shapes and colours).

   String() is not part of the model: its text is produced by fmt and is compared dynamically by the
   Go harness (prefix = the container's name, state unchanged); what is proved here about observers
   is [C15_observers_pure], for every observer the model has. *)
From Coq Require Import ZArith List Bool.
From Gods Require Import Common.Cmp Model.Ops Model.Machine Proofs.MachineInv.
From Gods Require Model.Ring Model.RBTree.
Import ListNotations.
Local Open Scope Z_scope.

(* the invariant behind all statements: holds in every reachable state of every kind, kept by every
   single operation (all constructors of [op], with arbitrary arguments) *)
Theorem C15_invariant : forall c ops, config_ok c -> ginv c (run c ops).
Proof. exact run_ginv. Qed.
Print Assumptions C15_invariant.

Theorem C15_invariant_step : forall c s o, config_ok c -> ginv c s -> ginv c (fst (fst (step c s o))).
Proof. exact step_ginv. Qed.
Print Assumptions C15_invariant_step.

(* the state always has the constructor of its kind; in particular it is never the crash state *)
Theorem C15_shape : forall c ops, config_ok c -> shape_ok (ckind c) (run c ops) = true.
Proof. intros c ops H. apply ginv_shape. apply run_ginv. exact H. Qed.
Print Assumptions C15_shape.

(* Size() is never negative *)
Theorem C15_nonneg : forall c ops, config_ok c -> 0 <= size_of c (run c ops).
Proof. exact MachineInv.C15_nonneg. Qed.
Print Assumptions C15_nonneg.

(* len(Values()) == Size() *)
Theorem C15_len_values : forall c ops, config_ok c ->
  size_of c (run c ops) = Z.of_nat (length (values_of c (run c ops))).
Proof. exact MachineInv.C15_len_values. Qed.
Print Assumptions C15_len_values.

(* len(Keys()) == Size() for maps and trees *)
Theorem C15_len_keys : forall c ops, config_ok c -> is_kv (ckind c) = true ->
  size_of c (run c ops) = Z.of_nat (length (keys_of c (run c ops))).
Proof. exact MachineInv.C15_len_keys. Qed.
Print Assumptions C15_len_keys.

(* Empty(): the second component of the observation vector, the only one tagged TEmpty; it is
   [Size() == 0], and it is true exactly when Values() (and Keys()) is empty *)
Theorem C15_empty : forall c ops, config_ok c ->
  let s := run c ops in
  nth_error (observe c 1 s) 1 = Some (TEmpty, obool (size_of c s =? 0)) /\
  (forall o, In (TEmpty, o) (observe c 1 s) <-> o = obool (size_of c s =? 0)) /\
  ((size_of c s =? 0) = true <-> values_of c s = []) /\
  (is_kv (ckind c) = true -> ((size_of c s =? 0) = true <-> keys_of c s = [])).
Proof. exact MachineInv.C15_empty. Qed.
Print Assumptions C15_empty.

(* Clear(): the state after Clear is the constructor's state - the whole state, so the configuration
   is kept (it is not part of the state at all) and nothing stale survives, not even in the ring's
   slots ([Ring.rclear] re-allocates) *)
Theorem C15_clear_is_init : forall c ops, config_ok c -> fst (fst (step c (run c ops) Clear)) = init c.
Proof. exact MachineInv.C15_clear_is_init. Qed.
Print Assumptions C15_clear_is_init.

(* ... which is empty *)
Theorem C15_clear_empty : forall c ops, config_ok c ->
  let s := run c (ops ++ [Clear]) in
  s = init c /\ size_of c s = 0 /\ values_of c s = [] /\ keys_of c s = [].
Proof. exact MachineInv.C15_clear_empty. Qed.
Print Assumptions C15_clear_empty.

(* Clear at any point followed by any continuation: the history before the Clear is forgotten *)
Theorem C15_clear_then : forall c ops more, config_ok c -> run c (ops ++ Clear :: more) = run c more.
Proof. exact MachineInv.C15_clear_then. Qed.
Print Assumptions C15_clear_then.

(* ... so every later result, comparator-call count and observation is that of a fresh container *)
Theorem C15_clear_then_behaves : forall c ops more, config_ok c ->
  (forall o, step c (run c (ops ++ Clear :: more)) o = step c (run c more) o) /\
  (forall lvl, observe c lvl (run c (ops ++ Clear :: more)) = observe c lvl (run c more)).
Proof. exact MachineInv.C15_clear_then_behaves. Qed.
Print Assumptions C15_clear_then_behaves.

(* observers (iterator scripts, the enumerable functions, the set algebra, GetSortedValues) leave
   EVERY state - reachable or not - exactly as it was; the argument-free observers (Size, Empty,
   Values, Keys, Get, Contains, ...) are the observation vector, a function of the state *)
Theorem C15_observers_pure : forall c s o, is_observer o = true ->
  fst (fst (step c s o)) = s /\
  forall lvl, observe c lvl (fst (fst (step c s o))) = observe c lvl s.
Proof. exact MachineInv.C15_observers_pure. Qed.
Print Assumptions C15_observers_pure.

(* the two bidirectional maps (not covered by any other property file): forward and inverse map are
   mutually inverse, hence Size() (forward map) and len(Values()) (keys of the inverse map) agree *)
Theorem C15_hashbidi_inverse : forall c ops, ckind c = HashBidiMap ->
  exists f i, run c ops = StHBidi f i /\
    (forall k v, In (k, v) f <-> In (v, k) i) /\ length f = length i.
Proof.
  intros c ops K.
  assert (Hc : config_ok c) by (split; intros Q; rewrite K in Q; discriminate Q).
  pose proof (run_ginv c ops Hc) as H. unfold ginv in H. rewrite K in H.
  destruct H as (f & i & E & HB). exists f, i. split; [exact E|]. split; [apply HB|].
  exact (binv_length Z.compare Z.compare MapSpecProofs.Zcompare_SWO MapSpecProofs.Zcompare_SWO f i HB).
Qed.
Print Assumptions C15_hashbidi_inverse.

Theorem C15_treebidi_inverse : forall c ops, ckind c = TreeBidiMap ->
  exists f fn i inn, run c ops = StTBidi f fn i inn /\
    (forall k v, In (k, v) (RBTree.inorder f) <-> In (v, k) (RBTree.inorder i)) /\
    fn = Z.of_nat (length (RBTree.inorder f)) /\ inn = Z.of_nat (length (RBTree.inorder i)) /\ fn = inn.
Proof.
  intros c ops K.
  assert (Hc : config_ok c) by (split; intros Q; rewrite K in Q; discriminate Q).
  pose proof (run_ginv c ops Hc) as H. unfold ginv in H. rewrite K in H.
  destruct H as (f & fn & i & inn & E & ((_ & _ & Hf) & (_ & _ & Hi) & HB)). cbn [fst snd] in *.
  exists f, fn, i, inn. split; [exact E|]. split; [apply HB|]. split; [exact Hf|]. split; [exact Hi|].
  rewrite Hf, Hi. f_equal. exact (binv_length (kc c) (vc c) (kc_SWO c) (vc_SWO c) _ _ HB).
Qed.
Print Assumptions C15_treebidi_inverse.

(* ---------- concrete histories ---------- *)
Definition cfg (k : kind) (cap order : Z) : config :=
  {| ckind := k; kcmp := CNat; vcmp := CNat; ccap := cap; corder := order; cuni := 4 |}.

Lemma cfg_ok : forall k, config_ok (cfg k 3 3).
Proof. intros k. split; intros _; cbn; discriminate. Qed.

(* a CircularBuffer of capacity 3, wrapped around (start index 2, stale values in the slots), is
   cleared and used again: the hidden fields are those of a new buffer *)
Definition ring_ops : list op := [Enqueue 1; Enqueue 2; Enqueue 3; Enqueue 4; Dequeue; Enqueue 5].
Example ex_ring :
  let c := cfg CircularBuffer 3 3 in
  run c ring_ops = StRing {| Ring.rvals := [4; 5; 3]; Ring.rstart := 2; Ring.rend := 2; Ring.rfull := true;
                             Ring.rmax := 3; Ring.rsize := 3 |} /\
  values_of c (run c ring_ops) = [3; 4; 5] /\ size_of c (run c ring_ops) = 3 /\
  run c (ring_ops ++ [Clear]) = init c /\
  init c = StRing {| Ring.rvals := [0; 0; 0]; Ring.rstart := 0; Ring.rend := 0; Ring.rfull := false;
                     Ring.rmax := 3; Ring.rsize := 0 |} /\
  run c (ring_ops ++ Clear :: [Enqueue 7; Enqueue 8]) = run c [Enqueue 7; Enqueue 8] /\
  values_of c (run c (ring_ops ++ Clear :: [Enqueue 7; Enqueue 8])) = [7; 8].
Proof. vm_compute. repeat split; reflexivity. Qed.

(* a B-tree of order 3 with 10 keys (height 3), two removed, then cleared and refilled *)
Definition bt_ops : list op :=
  [Put 5 50; Put 1 10; Put 9 90; Put 3 30; Put 7 70; Put 2 20; Put 8 80; Put 4 40; Put 6 60; Put 0 0;
   Remove 5; Remove 11].
Example ex_btree :
  let c := cfg BTree 3 3 in
  size_of c (run c bt_ops) = 9 /\
  keys_of c (run c bt_ops) = [0; 1; 2; 3; 4; 6; 7; 8; 9] /\
  values_of c (run c bt_ops) = [0; 10; 20; 30; 40; 60; 70; 80; 90] /\
  nth_error (observe c 1 (run c bt_ops)) 1 = Some (TEmpty, obool false) /\
  run c (bt_ops ++ [Clear]) = StBT None 0 /\
  nth_error (observe c 1 (run c (bt_ops ++ [Clear]))) 1 = Some (TEmpty, obool true) /\
  run c (bt_ops ++ Clear :: [Put 2 22; Put 1 11]) = run c [Put 2 22; Put 1 11] /\
  keys_of c (run c (bt_ops ++ Clear :: [Put 2 22; Put 1 11])) = [1; 2].
Proof. vm_compute. repeat split; reflexivity. Qed.

(* HashBidiMap: Put 2 10 takes the value 10 away from key 1, Put 3 30 / Put 3 31 rebinds key 3;
   Size() counts the forward map, Values() lists the keys of the inverse map *)
Definition bidi_ops : list op := [Put 1 10; Put 2 10; Put 3 30; Put 3 31; Put 4 40; Remove 4; Remove 9].
Example ex_hashbidi :
  let c := cfg HashBidiMap 3 3 in
  run c bidi_ops = StHBidi [(2, 10); (3, 31)] [(10, 2); (31, 3)] /\
  size_of c (run c bidi_ops) = 2 /\ keys_of c (run c bidi_ops) = [2; 3] /\
  values_of c (run c bidi_ops) = [10; 31] /\
  run c (bidi_ops ++ Clear :: [Put 5 50]) = StHBidi [(5, 50)] [(50, 5)].
Proof. vm_compute. repeat split; reflexivity. Qed.

(* TreeBidiMap whose comparators identify integers (keys by x/3, values by |x|): Put 4 (-10) replaces
   the pair of key 3 (same key class) and Put 7 10 takes over the value class of -10 *)
Example ex_treebidi :
  let c := {| ckind := TreeBidiMap; kcmp := CDiv3; vcmp := CAbs; ccap := 0; corder := 0; cuni := 4 |} in
  let ops := [Put 3 5; Put 0 1; Put 4 (-10); Put 7 10; Put 9 2] in
  keys_of c (run c ops) = [0; 7; 9] /\ values_of c (run c ops) = [1; 2; 10] /\
  size_of c (run c ops) = 3 /\
  run c (ops ++ [Clear]) = StTBidi RBTree.E 0 RBTree.E 0.
Proof. vm_compute. repeat split; reflexivity. Qed.

(* observers on a TreeSet: an iterator script, Select, the set algebra - the state is untouched *)
Example ex_observers :
  let c := cfg TreeSet 3 3 in
  let s := run c [Add [5; 1; 3]; RemoveVals [1]] in
  fst (fst (step c s (Iter [CNext; CNext; CNext; CPrev]))) = s /\
  snd (fst (step c s (Iter [CNext; CNext; CNext; CPrev]))) =
    OL [OL [OZ 1; OZ 0; OZ 3]; OL [OZ 1; OZ 1; OZ 5]; OL [OZ 0]; OL [OZ 1; OZ 1; OZ 5]] /\
  step c s (SelectP (PValLt 4)) = (s, ozs [3], onone) /\
  step c s (Union [9; 3]) = (s, ozs [3; 5; 9], onone).
Proof. vm_compute. repeat split; reflexivity. Qed.
