(* Property C07.  "Self-balancing trees stay balanced: logarithmic work in every state."

   "In RedBlackTree, AVLTree and BTree (hence TreeMap, TreeSet, TreeBidiMap), whatever the insertion
    and removal order, a single Get, Put or Remove on a tree with n keys invokes the comparator
    O(log n) times (at most 2*log2(n+1)+2 for the red-black tree, 1.45*log2(n+2)+2 for the AVL tree,
    and 4*(log2(m)+1)*(log_ceil(m/2)(n+1)+1) for a B-tree of order m).  The exported structure always
    has the documented shape: in the AVL tree sibling subtree heights differ by at most one; in the
    B-tree every node has at most m children, every non-root node at least ceil(m/2)-1 keys, a node
    with k children has k-1 keys, all leaves are at the same depth and Height() reports the number of
    levels; in the red-black tree no root-to-leaf path is more than twice as long as another, the
    nodes are exactly Size() in number and parent links mirror child links."

   Reading guide.

   * [run c ops] is the state of the uniform machine (Model/Machine.v) after ANY list [ops] of
     operations - every constructor of [op], including Clear, FromJSON, the set operations of TreeSet
     and operations the kind does not offer - so "whatever the insertion and removal order" is the
     quantification over [ops]: sorted, reverse-sorted, zig-zag and churn histories are instances
     (see the Examples).  The only hypotheses are on the configuration: the kind, and [3 <= corder c]
     for the B-tree (NewWith panics below 3; [bt_m c] is the order m as a nat).  The comparator is any
     member of the executed family ([kc c]; the shape results do not depend on it at all).
   * States: [StRB t n] (RedBlackTree, TreeMap, TreeSet: tree and cached size), [StTBidi f fn i inn]
     (TreeBidiMap: forward and inverse tree with their sizes), [StAVL t n], [StBT r n] ([r = None] is
     the empty B-tree).  The machine prints the exact structure ([TShape], [THeight]) after every
     operation and the harness compares it with the Go object, so [t] / [r] IS the exported structure.
   * Shape.  [RBInv.rbt t]: at every node both subtrees have the same black height, a red node has
     black children, the root is black.  Consequences ([rbt_documented]): height <= 2*log2(n+1),
     [RB.height t <= 2 * RB.minheight t] (the longest root-to-nil path is at most twice the shortest),
     and the cached size is the node count.  [balanced t] (AVL): at every node the subtree heights
     differ by at most one and the stored balance factor is height(right) - height(left).
     [BTreeInv.btree_inv m r] and its readable consequences over [subnodes root] (all nodes),
     [proper_subnodes root] (all but the root), [leaf_depths root]: see [C07_bt_documented];
     ceil(m/2) is written (m+1)/2.
   * Cost.  [step c s o : state * obs * obs]; the third component is [cost q] when the Go code makes
     q comparator calls for this Put / Remove (the harness counts the real calls and compares);
     [snd (step c s o)] selects it.  For Get the machine prints, after every operation, the entry
     [TCost] of [observe c lvl s]: the number of comparator calls of Get(p) for every probe key
     p = -1 .. cuni; [get_cost_of c s k] is that number for an arbitrary key k.  n = [nsize c s] is
     Size().
       red-black : q <= 2*log2(n+1) for Get and Remove, 2*log2(n+1)+1 for Put ([Nat.log2] = floor);
                   both are within the property's 2*log2(n+1)+2.
       AVL       : [avl_log_bound n q] =  fib(q+2) <= n+1  (exact: Fibonacci trees attain it)
                   /\ 2^(20 q) <= (n+1)^29 * 2^29  /\  20 q < 29*floor(log2(n+1)) + 58.
                   The middle one is the integer form of q <= 1.45*log2(n+1) + 1.45 (take log2 and
                   divide by 20), which is below the property's 1.45*log2(n+2)+2.
       B-tree    : [bt_log_bound m n q] = for every L with n+1 < ceil(m/2)^(L+1) (in particular
                   L = floor(log_ceil(m/2)(n+1))): q <= 4*(log2 m+1)*(L+1);  and the closed form
                   q <= 4*(log2 m+1)*log2(n+1).  The per-level constants (Get 1, Put 2, Remove 3
                   searches) are in Properties/C07_btcost.v.
   * TreeMap, TreeSet and TreeBidiMap do not expose the comparator count, so the machine prints no
     cost for them; [C07_rb_inherit] / [C07_bidi_inherit] state that their trees satisfy the same
     invariant in every reachable state, hence the cost functions of the red-black model obey the
     same bounds on them ([rb_costs_ok]).
   * NOT a theorem: "parent links mirror child links" is a fact about Go pointers that the functional
     model does not represent.  It is checked dynamically by the harness after every operation of
     every replayed history (bit 1 of the [sane] vector: parent links mirror child links and node
     count = Size(); the model always prints 1). *)
From Coq Require Import ZArith List Lia Bool Arith.
From Gods Require Import Common.Cmp Model.Ops Model.Machine.
From Gods Require Proofs.RBInv Proofs.AVLInv Proofs.AVLBounds Proofs.BTreeInv.
From Gods Require Import Proofs.MachineTrees.
Import ListNotations.
Local Open Scope Z_scope.

(* ---------- no reachable state is a crash ---------- *)
Theorem C07_no_crash : forall c ops, tvalid c -> run c ops <> StCrash.
Proof. exact MachineTrees.C07_no_crash. Qed.
Print Assumptions C07_no_crash.

(* ================================================================================================ *)
(* red-black trees                                                                                  *)
(* ================================================================================================ *)
Theorem C07_rb_reach : forall c ops, rb_kind (ckind c) = true ->
  exists t n, run c ops = StRB t n /\ RBInv.rbt t /\ n = Z.of_nat (RB.count t).
Proof. exact MachineTrees.C07_rb_reach. Qed.
Print Assumptions C07_rb_reach.

Theorem C07_rb_shape : forall c ops t n, rb_kind (ckind c) = true -> run c ops = StRB t n ->
  RBInv.rbt t /\ n = Z.of_nat (RB.count t).
Proof. exact MachineTrees.C07_rb_shape. Qed.
Print Assumptions C07_rb_shape.

(* the nodes are exactly Size() in number; height <= 2 log2 (n+1); no root-to-nil path is more than
   twice as long as another; the root is black *)
Theorem C07_rb_balanced : forall c ops t n, rb_kind (ckind c) = true -> run c ops = StRB t n ->
  size_of c (run c ops) = Z.of_nat (RB.count t) /\
  (RB.height t <= 2 * Nat.log2 (RB.count t + 1))%nat /\
  (RB.height t <= 2 * RB.minheight t)%nat /\
  RB.col t = RB.Black.
Proof. exact MachineTrees.C07_rb_balanced. Qed.
Print Assumptions C07_rb_balanced.

(* TreeBidiMap: both trees *)
Theorem C07_bidi_reach : forall c ops, ckind c = TreeBidiMap ->
  exists f fn i inn, run c ops = StTBidi f fn i inn /\
    RBInv.rbt f /\ RBInv.rbt i /\ fn = Z.of_nat (RB.count f) /\ inn = Z.of_nat (RB.count i).
Proof. exact MachineTrees.C07_bidi_reach. Qed.
Print Assumptions C07_bidi_reach.

Theorem C07_bidi_shape : forall c ops f fn i inn, ckind c = TreeBidiMap -> run c ops = StTBidi f fn i inn ->
  RBInv.rbt f /\ RBInv.rbt i /\ fn = Z.of_nat (RB.count f) /\ inn = Z.of_nat (RB.count i).
Proof. exact MachineTrees.C07_bidi_shape. Qed.
Print Assumptions C07_bidi_shape.

Theorem C07_bidi_balanced : forall c ops f fn i inn, ckind c = TreeBidiMap -> run c ops = StTBidi f fn i inn ->
  size_of c (run c ops) = Z.of_nat (RB.count f) /\
  ((RB.height f <= 2 * Nat.log2 (RB.count f + 1))%nat /\ (RB.height f <= 2 * RB.minheight f)%nat /\
   RB.col f = RB.Black) /\
  ((RB.height i <= 2 * Nat.log2 (RB.count i + 1))%nat /\ (RB.height i <= 2 * RB.minheight i)%nat /\
   RB.col i = RB.Black).
Proof. exact MachineTrees.C07_bidi_balanced. Qed.
Print Assumptions C07_bidi_balanced.

(* ================================================================================================ *)
(* AVL tree                                                                                         *)
(* ================================================================================================ *)
(* [balanced] is [AVLInv.avl] spelled out *)
Theorem C07_avl_balanced_iff : forall t, AVLInv.avl t <-> balanced t.
Proof. exact MachineTrees.avl_balanced. Qed.
Print Assumptions C07_avl_balanced_iff.

Theorem C07_avl_reach : forall c ops, ckind c = AVLTree ->
  exists t n, run c ops = StAVL t n /\ AVLInv.avl t /\ n = Z.of_nat (AVL.count t).
Proof. exact MachineTrees.C07_avl_reach. Qed.
Print Assumptions C07_avl_reach.

Theorem C07_avl_shape : forall c ops t n, ckind c = AVLTree -> run c ops = StAVL t n ->
  AVLInv.avl t /\ n = Z.of_nat (AVL.count t).
Proof. exact MachineTrees.C07_avl_shape. Qed.
Print Assumptions C07_avl_shape.

(* sibling subtree heights differ by at most one at every node, balance factors are exact, and the
   height h satisfies fib (h+2) <= n+1, 2^(20 h) <= (n+1)^29 * 2^29 (h <= 1.45 log2 (n+1) + 1.45) *)
Theorem C07_avl_balanced : forall c ops t n, ckind c = AVLTree -> run c ops = StAVL t n ->
  size_of c (run c ops) = Z.of_nat (AVL.count t) /\
  balanced t /\
  avl_log_bound (AVL.count t) (AVL.height t).
Proof. exact MachineTrees.C07_avl_balanced. Qed.
Print Assumptions C07_avl_balanced.

(* ================================================================================================ *)
(* B-tree of order m >= 3                                                                           *)
(* ================================================================================================ *)
Theorem C07_bt_reach : forall c ops, ckind c = BTree -> 3 <= corder c ->
  exists r n, run c ops = StBT r n /\ BTreeInv.btree_inv (bt_m c) r /\ n = Z.of_nat (bt_count r).
Proof. exact MachineTrees.C07_bt_reach. Qed.
Print Assumptions C07_bt_reach.

Theorem C07_bt_shape : forall c ops r n, ckind c = BTree -> 3 <= corder c -> run c ops = StBT r n ->
  BTreeInv.btree_inv (bt_m c) r /\ n = Z.of_nat (bt_count r).
Proof. exact MachineTrees.C07_bt_shape. Qed.
Print Assumptions C07_bt_shape.

(* every node: at most m children, at most m-1 entries, k > 0 children => k-1 entries;
   every non-root node: at least ceil(m/2)-1 entries; the root: at least one;
   all leaves at depth Height(); Height() = number of levels; 2*ceil(m/2)^(h-1) <= n+1 *)
Theorem C07_bt_documented : forall c ops root n, ckind c = BTree -> 3 <= corder c ->
  run c ops = StBT (Some root) n ->
  let m := bt_m c in
  n = Z.of_nat (BT.count root) /\
  (forall x, In x (subnodes root) ->
     (length (BT.children x) <= m)%nat /\ (length (BT.entries x) <= m - 1)%nat /\
     (BT.children x <> [] -> length (BT.entries x) = (length (BT.children x) - 1)%nat)) /\
  (forall x, In x (proper_subnodes root) -> ((m + 1) / 2 - 1 <= length (BT.entries x))%nat) /\
  (1 <= length (BT.entries root))%nat /\
  (forall d, In d (leaf_depths root) -> d = BT.height root) /\
  BT.height root = BT.maxheight root /\
  (2 * ((m + 1) / 2) ^ (BT.height root - 1) <= BT.count root + 1)%nat.
Proof. exact MachineTrees.C07_bt_documented. Qed.
Print Assumptions C07_bt_documented.

Theorem C07_bt_empty : forall c ops r n, ckind c = BTree -> 3 <= corder c -> run c ops = StBT r n ->
  (r = None <-> n = 0).
Proof. exact MachineTrees.C07_bt_empty. Qed.
Print Assumptions C07_bt_empty.

(* the printed THeight (= Go's Height(), compared after every operation) is the number of levels *)
Theorem C07_bt_height_observed : forall c ops lvl o, ckind c = BTree -> 3 <= corder c ->
  In (THeight, o) (observe c lvl (run c ops)) ->
  exists r n, run c ops = StBT r n /\
    o = OZ (Z.of_nat (match r with Some root => BT.maxheight root | None => 0%nat end)).
Proof. exact MachineTrees.C07_bt_height_observed. Qed.
Print Assumptions C07_bt_height_observed.

(* ================================================================================================ *)
(* comparator calls of one more Put / Remove from any reachable state                               *)
(* ================================================================================================ *)
Theorem C07_cost_put_remove_rb : forall c ops k v, ckind c = RedBlackTree ->
  let s := run c ops in
  let n := nsize c s in
  (exists q, snd (step c s (Put k v)) = cost q /\ (q <= 2 * Nat.log2 (n + 1) + 1)%nat) /\
  (exists q, snd (step c s (Remove k)) = cost q /\ (q <= 2 * Nat.log2 (n + 1))%nat).
Proof. exact MachineTrees.C07_cost_rb. Qed.
Print Assumptions C07_cost_put_remove_rb.

Theorem C07_cost_put_remove_avl : forall c ops k v, ckind c = AVLTree ->
  let s := run c ops in
  let n := nsize c s in
  (exists q, snd (step c s (Put k v)) = cost q /\ avl_log_bound n q) /\
  (exists q, snd (step c s (Remove k)) = cost q /\ avl_log_bound n q).
Proof. exact MachineTrees.C07_cost_avl. Qed.
Print Assumptions C07_cost_put_remove_avl.

Theorem C07_cost_put_remove_bt : forall c ops k v, ckind c = BTree -> 3 <= corder c ->
  let s := run c ops in
  let n := nsize c s in
  (exists q, snd (step c s (Put k v)) = cost q /\ bt_log_bound (bt_m c) n q) /\
  (exists q, snd (step c s (Remove k)) = cost q /\ bt_log_bound (bt_m c) n q).
Proof. exact MachineTrees.C07_cost_bt. Qed.
Print Assumptions C07_cost_put_remove_bt.

(* the cost component determines q *)
Theorem C07_cost_inj : forall p q, cost p = cost q -> p = q.
Proof. exact MachineTrees.cost_inj. Qed.
Print Assumptions C07_cost_inj.

(* ================================================================================================ *)
(* comparator calls of Get                                                                          *)
(* ================================================================================================ *)
(* any key, probe or not *)
Theorem C07_get_any_key : forall c ops k, cost_kind (ckind c) = true -> (ckind c = BTree -> 3 <= corder c) ->
  let s := run c ops in
  cost_bound c (nsize c s) (get_cost_of c s k).
Proof. exact MachineTrees.C07_get_any_key. Qed.
Print Assumptions C07_get_any_key.

(* every TCost entry the machine prints for a reachable state: one number per probe key, each within
   the bound ... *)
Theorem C07_cost_get : forall c ops lvl o, cost_kind (ckind c) = true -> (ckind c = BTree -> 3 <= corder c) ->
  let s := run c ops in
  In (TCost, o) (observe c lvl s) ->
  exists qs, o = ozs (map Z.of_nat qs) /\ qs = map (get_cost_of c s) (probes c) /\
             Forall (cost_bound c (nsize c s)) qs.
Proof. exact MachineTrees.C07_cost_get. Qed.
Print Assumptions C07_cost_get.

(* ... and one is printed at every observation level *)
Theorem C07_cost_get_printed : forall c ops lvl, cost_kind (ckind c) = true -> (ckind c = BTree -> 3 <= corder c) ->
  let s := run c ops in
  In (TCost, ozs (map Z.of_nat (map (get_cost_of c s) (probes c)))) (observe c lvl s).
Proof. exact MachineTrees.C07_cost_get_printed. Qed.
Print Assumptions C07_cost_get_printed.

(* ================================================================================================ *)
(* TreeMap, TreeSet, TreeBidiMap inherit the red-black bounds                                       *)
(* ================================================================================================ *)
Theorem C07_rb_inherit : forall c ops t n, rb_kind (ckind c) = true -> run c ops = StRB t n ->
  rb_costs_ok t (Z.to_nat n).
Proof. exact MachineTrees.C07_rb_inherit. Qed.
Print Assumptions C07_rb_inherit.

Theorem C07_bidi_inherit : forall c ops f fn i inn, ckind c = TreeBidiMap -> run c ops = StTBidi f fn i inn ->
  rb_costs_ok f (Z.to_nat fn) /\ rb_costs_ok i (Z.to_nat inn).
Proof. exact MachineTrees.C07_bidi_inherit. Qed.
Print Assumptions C07_bidi_inherit.

(* ================================================================================================ *)
(* concrete histories                                                                               *)
(* ================================================================================================ *)
Definition cfg (k : kind) (m : Z) : config :=
  {| ckind := k; kcmp := CNat; vcmp := CNat; ccap := 0; corder := m; cuni := 15 |}.

(* 15 ascending keys; 15 descending keys; 30 keys from both ends inwards; a churn history with
   removals, re-insertions, a FromJSON reset and a second ascending load *)
Definition asc15 : list op := map (fun k => Put k k) (zrange 0 15).
Definition desc15 : list op := map (fun k => Put (14 - k) k) (zrange 0 15).
Definition zigzag : list op := flat_map (fun k => [Put k k; Put (29 - k) k]) (zrange 0 15).
Definition churn : list op :=
  zigzag ++ map Remove (zrange 5 20) ++
  [Put 7 7; Put 8 8; Remove 0; Remove 29; Put 100 1; Remove 3; FromJSON DNull] ++
  asc15 ++ [Remove 7; Remove 3; Remove 11].

Definition cost_num (o : obs) : Z := match o with OL [OZ q] => q | _ => -1 end.
Definition zmax (l : list Z) : Z := fold_left Z.max l (-1).
Definition keys40 : list Z := zrange (-1) 42.
Definition max_put (c : config) (s : state) : Z :=
  zmax (map (fun k => cost_num (snd (step c s (Put k 0)))) keys40).
Definition max_remove (c : config) (s : state) : Z :=
  zmax (map (fun k => cost_num (snd (step c s (Remove k)))) keys40).
Definition max_get (c : config) (s : state) : Z :=
  zmax (map (fun k => Z.of_nat (get_cost_of c s k)) keys40).
Definition height_of (s : state) : Z :=
  match s with
  | StRB t _ => Z.of_nat (RB.height t)
  | StAVL t _ => Z.of_nat (AVL.height t)
  | StBT (Some n) _ => Z.of_nat (BT.height n)
  | _ => 0
  end.
(* (Size(), height, worst Get, worst Put, worst Remove over the keys -1 .. 40) *)
Definition summary (c : config) (ops : list op) : Z * Z * Z * Z * Z :=
  let s := run c ops in (size_of c s, height_of s, max_get c s, max_put c s, max_remove c s).
Definition okb (c : config) (s : state) : bool :=
  match s with
  | StRB t _ => RBInv.rb_okb t
  | StAVL t _ => AVLInv.avl_okb t
  | StBT r _ => BTreeInv.btree_okb (bt_m c) r
  | _ => false
  end.

(* red-black: 15 ascending keys give height 6 <= 2*log2 16 = 8; the 30-key zig-zag gives height 8 and
   8 comparator calls against the bound 2*log2 31 = 8: the bound is attained *)
Example ex_rb :
  summary (cfg RedBlackTree 3) asc15 = (15, 6, 6, 6, 6) /\
  summary (cfg RedBlackTree 3) desc15 = (15, 6, 6, 6, 6) /\
  summary (cfg RedBlackTree 3) zigzag = (30, 8, 8, 8, 8) /\
  summary (cfg RedBlackTree 3) churn = (12, 5, 5, 5, 5) /\
  (2 * Nat.log2 (15 + 1), 2 * Nat.log2 (30 + 1), 2 * Nat.log2 (12 + 1))%nat = (8, 8, 6)%nat /\
  okb (cfg RedBlackTree 3) (run (cfg RedBlackTree 3) churn) = true.
Proof. vm_compute. repeat split; reflexivity. Qed.

(* the other red-black kinds build the same trees *)
Example ex_rb_wrappers :
  (let s := run (cfg TreeMap 3) zigzag in (size_of (cfg TreeMap 3) s, height_of s)) = (30, 8) /\
  (let s := run (cfg TreeSet 3) [Add (zrange 0 15); RemoveVals [3; 4; 5]; Add [20; 3]] in
   (size_of (cfg TreeSet 3) s, height_of s, okb (cfg TreeSet 3) s)) = (14, 5, true) /\
  (match run (cfg TreeBidiMap 3) (asc15 ++ [Put 3 9; Remove 5; Put 20 0]) with
   | StTBidi f fn i inn => (fn, inn, RB.height f, RB.height i, RBInv.rb_okb f && RBInv.rb_okb i)
   | _ => (0, 0, 0%nat, 0%nat, false)
   end) = (13, 13, 5%nat, 5%nat, true).
Proof. vm_compute. repeat split; reflexivity. Qed.

(* AVL: 15 ascending keys give the perfect tree of height 4 (fib 6 = 8 <= 16); the 30-key zig-zag
   height 6 (fib 8 = 21 <= 31) *)
Example ex_avl :
  summary (cfg AVLTree 3) asc15 = (15, 4, 4, 4, 4) /\
  summary (cfg AVLTree 3) desc15 = (15, 4, 4, 4, 4) /\
  summary (cfg AVLTree 3) zigzag = (30, 6, 6, 6, 6) /\
  summary (cfg AVLTree 3) churn = (12, 4, 4, 4, 4) /\
  (AVLBounds.fib (4 + 2), AVLBounds.fib (6 + 2))%nat = (8, 21)%nat /\
  okb (cfg AVLTree 3) (run (cfg AVLTree 3) churn) = true.
Proof. vm_compute. repeat split; reflexivity. Qed.

(* B-tree: order 3, 15 ascending keys: 4 levels, worst Remove 10 calls against 4*(log2 3+1)*log2 16
   = 32; orders 4, 5, 7 *)
Example ex_bt :
  summary (cfg BTree 3) asc15 = (15, 4, 4, 4, 10) /\
  summary (cfg BTree 3) desc15 = (15, 4, 4, 4, 10) /\
  summary (cfg BTree 3) zigzag = (30, 4, 8, 8, 11) /\
  summary (cfg BTree 3) churn = (12, 3, 5, 5, 10) /\
  summary (cfg BTree 4) asc15 = (15, 3, 6, 8, 10) /\
  summary (cfg BTree 5) zigzag = (30, 3, 6, 6, 12) /\
  summary (cfg BTree 7) zigzag = (30, 2, 6, 6, 11) /\
  (4 * (Nat.log2 3 + 1) * Nat.log2 (15 + 1), 4 * (Nat.log2 3 + 1) * Nat.log2 (30 + 1),
   4 * (Nat.log2 7 + 1) * Nat.log2 (30 + 1))%nat = (32, 32, 48)%nat /\
  okb (cfg BTree 3) (run (cfg BTree 3) churn) = true /\
  okb (cfg BTree 4) (run (cfg BTree 4) churn) = true.
Proof. vm_compute. repeat split; reflexivity. Qed.

(* the TCost / THeight entries the machine prints at level 0 after the 15 ascending Puts, order 3:
   Get(-1) .. Get(15) *)
Definition entry_of (t : tag) (l : list (tag * obs)) : option obs :=
  match find (fun e => match fst e, t with TCost, TCost => true | THeight, THeight => true | _, _ => false end) l with
  | Some e => Some (snd e)
  | None => None
  end.
Example ex_observed :
  entry_of TCost (observe (cfg BTree 3) 0 (run (cfg BTree 3) asc15))
    = Some (ozs [4; 4; 3; 4; 2; 4; 3; 4; 1; 4; 3; 4; 2; 4; 3; 4; 4]) /\
  entry_of THeight (observe (cfg BTree 3) 0 (run (cfg BTree 3) asc15)) = Some (OZ 4) /\
  entry_of TCost (observe (cfg RedBlackTree 3) 0 (run (cfg RedBlackTree 3) asc15))
    = Some (ozs [3; 3; 2; 3; 1; 4; 3; 4; 2; 4; 3; 5; 4; 6; 5; 6; 6]).
Proof. vm_compute. repeat split; reflexivity. Qed.
